(* C09 -- model of the layout-changing functions of rten-tensor, on (offset, shape, strides).

   Files modelled: rten-tensor/src/slice_range.rs (SliceRange::{resolve, clamp,
   resolve_clamped, index_range, steps}, IndexRange::{new, steps}, IndexRangeIter),
   rten-tensor/src/layout.rs (slice_layout, slice_dyn, slice_axis, index_axis, permuted,
   transposed, move_axis, can_broadcast_to, broadcast_strides, squeezed, insert_axis,
   remove_axis, merge_axes, split, reshaped_for_view, min_data_len), and the view
   constructors of tensor.rs that combine the returned offset range with the storage.

   A layout is a list of dimensions in the format of Tensor.Overlap: (stride, size),
   outermost first.  A view is a layout plus the offset of its first element in the storage.
   Errors and panics are explicit outcomes.  [w = true] models a release build (the one
   usize multiplication that callers can drive out of range, stride * step in slice_layout,
   wraps); [w = false] is exact arithmetic. *)
From RV Require Import Prelude.
From Tensor Require Import Overlap.
From LayoutOps Require Import ArrayModel.
Open Scope N_scope.

Inductive err :=
| TooManyDims | InvalidAxis | InvalidIndex | InvalidRange | InvalidStep | OutputDimsMismatch
| ShapeMismatch | NotContiguous | LengthMismatch | InsufficientCapacity | MayOverlap
| EPanic | Anomaly.

Inductive res (A : Type) := Ok (a : A) | Err (e : err).
Arguments Ok {A}. Arguments Err {A}.

Definition err_eqb (a b : err) : bool :=
  match a, b with
  | TooManyDims, TooManyDims | InvalidAxis, InvalidAxis | InvalidIndex, InvalidIndex
  | InvalidRange, InvalidRange | InvalidStep, InvalidStep | OutputDimsMismatch, OutputDimsMismatch
  | ShapeMismatch, ShapeMismatch | NotContiguous, NotContiguous | LengthMismatch, LengthMismatch
  | InsufficientCapacity, InsufficientCapacity | MayOverlap, MayOverlap | EPanic, EPanic => true
  | _, _ => false
  end.

Definition mkdim (size stride : N) : dim := (stride, size).
Definition shape_of (dims : list dim) : list N := map d_size dims.
Definition strides_of (dims : list dim) : list N := map d_stride dims.
Definition ndim (dims : list dim) : N := lenN dims.

Record view := mkV { v_off : N; v_dims : list dim }.

(* ------------------------------------------------------------ slice_range.rs *)
Record srange := mkSR { sr_start : Z; sr_end : option Z; sr_step : Z }.

Open Scope Z_scope.
Definition isize_max : Z := 9223372036854775807.

(* fn offset_from_start(index, dim_size) *)
Definition offset_from_start (i : Z) (n : N) : Z := if 0 <=? i then i else Z.of_N n + i.
(* fn offset_from_end(index, dim_size) *)
Definition offset_from_end (i : Z) (n : N) : Z := if 0 <=? i then Z.of_N n - 1 - i else - i - 1.

(* SliceRange::resolve *)
Definition sr_resolve (r : srange) (n : N) : option (N * N) :=
  let nz := Z.of_N n in
  let '(s, e) :=
    if 0 <? sr_step r then
      (offset_from_start (sr_start r) n,
       match sr_end r with Some e => offset_from_start e n | None => nz end)
    else
      (offset_from_end (sr_start r) n,
       match sr_end r with Some e => offset_from_end e n | None => nz end) in
  if (0 <=? s) && (s <=? nz) && (0 <=? e) && (e <=? nz)
  then Some (Z.to_N s, Z.to_N (Z.max e s)) else None.

(* isize::clamp(min, max); min <= max at every call site (a lemma in the proofs) *)
Definition clampZ (x lo hi : Z) : Z := if x <? lo then lo else if hi <? x then hi else x.

(* SliceRange::clamp *)
Definition sr_clamp (r : srange) (n : N) : srange :=
  let len := Z.of_N n in
  let '(lo, hi) := if 0 <? sr_step r then (- len, len) else (- len - 1, len - 1) in
  mkSR (clampZ (sr_start r) lo hi) (option_map (fun e => clampZ e lo hi) (sr_end r)) (sr_step r).

(* IndexRange { start: usize, end: isize, step: isize } *)
Record irange := mkIR { ir_start : N; ir_end : Z; ir_step : Z }.

(* IndexRange::new -- start arrives as the usize the caller computed *)
Definition ir_new (start : Z) (e step : Z) : res irange :=
  if step =? 0 then Err EPanic
  else if (start <? 0) || (isize_max <? start) then Err EPanic
  else Ok (mkIR (Z.to_N start) (Z.max e (-1)) step).

(* SliceRange::index_range.  resolve_clamped unwraps (never fails: lemma clamp_resolves).
   Negative step: the first selected index is dim_size - 1 - resolved.start; when that is -1
   the range starts before the first element and selects nothing.  (Before the repair commit
   "fix: SliceRange::index_range panics for negative-step ranges ..." this subtraction was
   done in usize and panicked.) *)
Definition sr_index_range (r : srange) (n : N) : res irange :=
  match sr_resolve (sr_clamp r n) n with
  | None => Err EPanic
  | Some (rs, re) =>
      if 0 <? sr_step r then ir_new (Z.of_N rs) (Z.of_N re) (sr_step r)
      else
        let start := Z.of_N n - 1 - Z.of_N rs in
        if start <? 0 then ir_new 0 0 (sr_step r)
        else ir_new start (Z.of_N n - 1 - Z.of_N re) (sr_step r)
  end.

(* usize::div_ceil *)
Definition div_ceil (a b : Z) : Z := (a + b - 1) / b.

(* IndexRange::steps *)
Definition ir_steps (g : irange) : N :=
  let d := ir_end g - Z.of_N (ir_start g) in
  let len := if 0 <? ir_step g then Z.max d 0 else Z.abs (Z.min d 0) in
  Z.to_N (div_ceil len (Z.abs (ir_step g))).

(* IndexRangeIter: index starts at start, += step, `remaining` times *)
Definition ir_iter (g : irange) : list N :=
  map (fun k => Z.to_N (Z.of_N (ir_start g) + Z.of_N k * ir_step g)) (range (ir_steps g)).

(* SliceRange::steps (public helper; not used by the slicing paths) *)
Definition sr_steps (r : srange) (n : N) : N :=
  let c := sr_clamp r n in
  let start_idx := offset_from_start (sr_start c) n in
  let end_idx := match sr_end c with
                 | Some e => offset_from_start e n
                 | None => if 0 <? sr_step r then Z.of_N n else -1
                 end in
  if ((0 <? sr_step c) && (end_idx <=? start_idx)) || ((sr_step c <? 0) && (start_idx <=? end_idx))
  then 0%N
  else
    let steps := if 0 <? sr_step c then 1 + (end_idx - start_idx - 1) ÷ sr_step c
                 else 1 + (start_idx - end_idx - 1) ÷ (- sr_step c) in
    Z.to_N (Z.max steps 0).
Close Scope Z_scope.

Definition item_range (it : item) : srange :=
  match it with
  | Rng s e st => mkSR s e st
  | Idx i => if (i =? -1)%Z then mkSR (-1) None 1 else mkSR i (Some (i + 1)%Z) 1   (* SliceItem::index_range *)
  end.

(* ------------------------------------------------------------ layout.rs *)
Definition prod_sizes (dims : list dim) : N := prodN (shape_of dims).
Definition is_empty (dims : list dim) : bool := prod_sizes dims =? 0.

(* Layout::min_data_len *)
Definition min_data_len (dims : list dim) : N :=
  if existsb (fun d => d_size d =? 0) dims then 0 else max_off dims + 1.

(* fn slice_layout: one loop iteration per input dimension; returns (offset, out dims) *)
Fixpoint slice_loop (w : bool) (dims : list dim) (items : list item) : res (N * list dim) :=
  match dims with
  | [] => Ok (0, [])
  | d :: rest =>
      let size := d_size d in
      let stride := d_stride d in
      let continue_ (adj : N) (nd : option dim) (items' : list item) :=
        match slice_loop w rest items' with
        | Err e => Err e
        | Ok (off, out) => Ok (adj + off, match nd with Some x => x :: out | None => out end)
        end in
      match items with
      | [] => continue_ 0 (Some d) []
      | Idx idx :: items' =>
          let pos := (if 0 <=? idx then idx else idx + Z.of_N size)%Z in
          if ((pos <? 0) || (Z.of_N size <=? pos))%Z then Err InvalidIndex
          else continue_ (stride * Z.to_N pos) None items'
      | Rng s e st :: items' =>
          let r := mkSR s e st in
          match sr_resolve r size with
          | None => Err InvalidRange
          | Some (rs, re) =>
              if (st <? 0)%Z then Err InvalidStep        (* isize -> usize conversion *)
              else
                let step := Z.to_N st in
                let new_size :=
                  if step =? 1 then Ok (re - rs)
                  else match sr_index_range r size with
                       | Ok g => Ok (ir_steps g)
                       | Err e => Err e
                       end in
                match new_size with
                | Err e => Err e
                | Ok nsz => continue_ (stride * rs) (Some (mkdim nsz (wr w (stride * step)))) items'
                end
          end
      end
  end.

Definition slice_layout (w : bool) (dims : list dim) (items : list item) : res (N * list dim) :=
  match slice_loop w dims items with
  | Err e => Err e
  | Ok (off, out) => Ok (if existsb (fun d => d_size d =? 0) out then 0 else off, out)
  end.

(* DynLayout::slice_dyn + TensorBase::try_slice (data.slice(offset..)) *)
Definition slice (w : bool) (v : view) (items : list item) : res view :=
  if ndim (v_dims v) <? lenN items then Err TooManyDims
  else match slice_layout w (v_dims v) items with
       | Err e => Err e
       | Ok (off, out) => Ok (mkV (v_off v + off) out)
       end.

Definition set_size (k : nat) (n : N) (dims : list dim) : list dim :=
  match nth_error dims k with
  | Some d => replace_at k (mkdim n (d_stride d)) dims
  | None => dims
  end.

(* MutLayout::slice_axis + TensorBase::slice_axis.  The tensor-level method unwraps the
   error; the harness observes the Result of the layout-level method. *)
Definition slice_axis (v : view) (axis a b : N) : res view :=
  let dims := v_dims v in
  if ndim dims <=? axis then Err InvalidAxis
  else
    let d := nthN dims axis (0, 0) in
    if (b <? a) || (d_size d <? b) then Err InvalidRange
    else
      let dims' := set_size (N.to_nat axis) (b - a) dims in
      Ok (mkV (v_off v + (if is_empty dims' then 0 else a * d_stride d)) dims').

(* MutLayout::index_axis (asserts) + RemoveDim::remove_dim *)
Definition index_axis (v : view) (axis i : N) : res view :=
  let dims := v_dims v in
  if ndim dims <=? axis then Err EPanic
  else
    let d := nthN dims axis (0, 0) in
    if d_size d <=? i then Err EPanic
    else
      let dims' := remove_at (N.to_nat axis) dims in
      Ok (mkV (v_off v + (if is_empty dims' then 0 else d_stride d * i)) dims').

(* is_valid_permutation + DynLayout::permute / NdLayout::permuted *)
Definition permuted (v : view) (p : list N) : res view :=
  if is_perm (ndim (v_dims v)) p
  then Ok (mkV (v_off v) (map (fun k => nthN (v_dims v) k (0, 0)) p))
  else Err EPanic.

Definition transposed (v : view) : view := mkV (v_off v) (rev (v_dims v)).

(* DynLayout::move_axis: remove(from) then insert(to) on both halves of shape_and_strides *)
Definition move_axis (v : view) (from to : N) : res view :=
  let n := ndim (v_dims v) in
  if (from <? n) && (to <? n) then
    let d := nthN (v_dims v) from (0, 0) in
    Ok (mkV (v_off v) (insert_at (N.to_nat to) d (remove_at (N.to_nat from) (v_dims v))))
  else Err EPanic.

(* Layout::can_broadcast_to *)
Definition can_broadcast_to (dims : list dim) (target : list N) : bool :=
  if lenN target <? ndim dims then false
  else bcast_ok (shape_of dims) (skipn (length target - length dims) target).

(* fn broadcast_strides, zipped with the target shape *)
Fixpoint bcast_dims (dims : list dim) (target : list N) : list dim :=
  match dims, target with
  | d :: r, t :: s =>
      mkdim t (if (d_size d =? 1) && (1 <? t) then 0 else d_stride d) :: bcast_dims r s
  | _, _ => []
  end.

(* BroadcastLayout::broadcast + TensorBase::try_broadcast *)
Definition broadcast (v : view) (target : list N) : res view :=
  if can_broadcast_to (v_dims v) target then
    let pad := (length target - length (v_dims v))%nat in
    Ok (mkV (v_off v) (map (fun t => mkdim t 0) (firstn pad target)
                       ++ bcast_dims (v_dims v) (skipn pad target)))
  else Err ShapeMismatch.

(* MutLayout::squeezed *)
Definition squeezed (v : view) : view :=
  mkV (v_off v) (filter (fun d => negb (d_size d =? 1)) (v_dims v)).

(* Iterator::max_by_key returns the LAST maximal element *)
Fixpoint max_by_stride (dims : list dim) (best : dim) : dim :=
  match dims with
  | [] => best
  | d :: r => max_by_stride r (if d_stride best <=? d_stride d then d else best)
  end.

(* ResizeLayout::insert_axis (DynLayout): SmallVec::insert panics when index > len *)
Definition insert_axis (v : view) (index : N) : res view :=
  let dims := v_dims v in
  if ndim dims <? index then Err EPanic
  else
    let new_stride := match dims with
                      | [] => 1
                      | d :: r => let m := max_by_stride r d in d_stride m * d_size m
                      end in
    Ok (mkV (v_off v) (insert_at (N.to_nat index) (mkdim 1 new_stride) dims)).

(* ResizeLayout::remove_axis: panics unless the axis exists and has size 1 *)
Definition remove_axis (v : view) (index : N) : res view :=
  let dims := v_dims v in
  if ndim dims <=? index then Err EPanic
  else if negb (d_size (nthN dims index (0, 0)) =? 1) then Err EPanic
  else Ok (mkV (v_off v) (remove_at (N.to_nat index) dims)).

(* fn merge_axes: walks from the innermost dimension outwards; [acc] is the merged list
   built so far, its head being `merged.last_mut()` *)
Fixpoint merge_loop (rdims : list dim) (acc : list dim) : list dim :=
  match rdims with
  | [] => acc
  | o :: r =>
      match acc with
      | [] => merge_loop r [o]
      | i :: acc' =>
          if (d_size o =? 1) || (d_stride o =? d_stride i * d_size i)
          then merge_loop r (mkdim (d_size i * d_size o) (d_stride i) :: acc')
          else merge_loop r (o :: acc)
      end
  end.
Definition merge_dims (dims : list dim) : list dim := merge_loop (rev dims) [].
Definition merge_axes (v : view) : view := mkV (v_off v) (merge_dims (v_dims v)).

(* MutLayout::split + TensorBase::split_at; [right = true] selects the second half *)
Definition split (v : view) (axis mid : N) (rt : bool) : res view :=
  let dims := v_dims v in
  if ndim dims <=? axis then Err EPanic
  else
    let d := nthN dims axis (0, 0) in
    if d_size d <? mid then Err EPanic
    else if rt then
      let rdims := set_size (N.to_nat axis) (d_size d - mid) dims in
      Ok (mkV (v_off v + (if is_empty rdims then min_data_len dims else mid * d_stride d)) rdims)
    else Ok (mkV (v_off v) (set_size (N.to_nat axis) mid dims)).

(* DynLayout::contiguous_shape_and_strides *)
Fixpoint contiguous_dims (shape : list N) : list dim :=
  match shape with
  | [] => []
  | n :: r => mkdim n (prodN r) :: contiguous_dims r
  end.

(* Layout::reshaped_for_view (+ reshaped_for_copy) *)
Definition reshaped_for_view (w : bool) (v : view) (shape : list N) : res view :=
  if negb (is_contiguous w (v_dims v)) then Err NotContiguous
  else if negb (prodN shape =? prod_sizes (v_dims v)) then Err LengthMismatch
  else Ok (mkV (v_off v) (contiguous_dims shape)).

(* ------------------------------------------------------------ denotation *)
(* storage offsets of the elements of a layout in row-major order, relative to the view *)
Fixpoint off_list (dims : list dim) : list N :=
  match dims with
  | [] => [0]
  | d :: r => flat_map (fun i => map (N.add (i * d_stride d)) (off_list r)) (range (d_size d))
  end.

Definition view_offsets (v : view) : list N := map (N.add (v_off v)) (off_list (v_dims v)).

Fixpoint dotN (idx strides : list N) : N :=
  match idx, strides with
  | i :: ir, s :: sr => i * s + dotN ir sr
  | _, _ => 0
  end.

(* the reference tensor that a view of [store] represents; None if some element of the view
   lies outside the storage *)
Definition denote {A} (store : list A) (v : view) : option (tensor A) :=
  tabulate (shape_of (v_dims v))
           (fun idx => nth_error store (N.to_nat (v_off v + dotN idx (strides_of (v_dims v))))).

(* equivalent list form, used for execution *)
Definition denote_fast {A} (store : list A) (v : view) : option (tensor A) :=
  option_map (mkT (shape_of (v_dims v)))
             (mapM (fun o => nth_error store (N.to_nat o)) (view_offsets v)).

(* ------------------------------------------------------------ copying operations *)
(* per input dimension: the selected source indices and whether the axis is kept.
   slice_copy_in asserts that there are no more items than dimensions and that every Index
   item is in range (repair commit "fix: slice_copy returns uninitialized or empty data for
   out-of-range indices"); dimensions without an item are kept whole (repair commit "fix:
   slice_copy drops trailing dimensions ..."). *)
Fixpoint copy_sels (dims : list dim) (items : list item) : res (list sel) :=
  match dims with
  | [] => match items with [] => Ok [] | _ => Err EPanic end
  | d :: rest =>
      let n := d_size d in
      let this : res sel :=
        match items with
        | [] => Ok (sel_full n)
        | Idx i :: _ =>
            if ((i <? - Z.of_N n) || (Z.of_N n <=? i))%Z then Err EPanic
            else match sr_index_range (item_range (Idx i)) n with
                 | Ok g => Ok (ir_iter g, false)
                 | Err e => Err e
                 end
        | it :: _ => match sr_index_range (item_range it) n with
                     | Ok g => Ok (ir_iter g, true)
                     | Err e => Err e
                     end
        end in
      match this, copy_sels rest (tl items) with
      | Ok s, Ok ss => Ok (s :: ss)
      | Err e, _ => Err e
      | _, Err e => Err e
      end
  end.

(* the nested IndexRangeIter loops of copy_range_into_slice: all source indices, row-major *)
Fixpoint sel_product (ss : list sel) : list (list N) :=
  match ss with
  | [] => [[]]
  | s :: r => flat_map (fun j => map (cons j) (sel_product r)) (fst s)
  end.

(* general path of slice_copy: shape from IndexRange::steps of the kept axes, elements
   gathered from the view *)
Definition slice_copy_general {A} (store : list A) (v : view) (items : list item) : res (tensor A) :=
  match copy_sels (v_dims v) items with
  | Err e => Err e
  | Ok ss =>
      match denote_fast store v with
      | None => Err EPanic
      | Some t =>
          match mapM (tget t) (sel_product ss) with
          | Some l => Ok (mkT (gather_shape ss) l)
          | None => Err EPanic
          end
      end
  end.

(* AsView::slice_copy: try_slice first; on any error the general path *)
Definition slice_copy {A} (w : bool) (store : list A) (v : view) (items : list item) : res (tensor A) :=
  match slice w v items with
  | Ok v' => match denote_fast store v' with Some t => Ok t | None => Err EPanic end
  | Err _ => slice_copy_general store v items
  end.
