(* C09 -- the denotation of a strided view: offsets, the reindexing lemma used by every
   gather-like operation, and the same-offsets lemma used by every reshape-like operation. *)
From RV Require Import Prelude.
From Tensor Require Import Overlap.
From LayoutOps Require Import ArrayModel LayoutOps Array_proofs.
Open Scope N_scope.

Lemma shape_of_cons d r : shape_of (d :: r) = d_size d :: shape_of r.
Proof. reflexivity. Qed.
Lemma strides_of_cons d r : strides_of (d :: r) = d_stride d :: strides_of r.
Proof. reflexivity. Qed.
Lemma shape_of_length dims : length (shape_of dims) = length dims.
Proof. apply map_length. Qed.
Lemma strides_of_length dims : length (strides_of dims) = length dims.
Proof. apply map_length. Qed.
Lemma shape_of_app a b : shape_of (a ++ b) = shape_of a ++ shape_of b.
Proof. apply map_app. Qed.
Lemma strides_of_app a b : strides_of (a ++ b) = strides_of a ++ strides_of b.
Proof. apply map_app. Qed.

Lemma nthN_shape_of dims k : nthN (shape_of dims) k 0 = d_size (nthN dims k (0, 0)).
Proof. unfold nthN, shape_of. change 0 with (d_size (0, 0)) at 1. apply map_nth. Qed.

(* offsets listed dimension by dimension = offsets computed index by index *)
Lemma off_list_dot dims :
  off_list dims = map (fun idx => dotN idx (strides_of dims)) (indices (shape_of dims)).
Proof.
  induction dims as [|d r IH]; [reflexivity|].
  cbn [off_list]. rewrite shape_of_cons, strides_of_cons. cbn [indices].
  rewrite map_flat_map. apply flat_map_ext_in. intros i _.
  rewrite IH, !map_map. reflexivity.
Qed.

Lemma length_off_list dims : length (off_list dims) = N.to_nat (prod_sizes dims).
Proof. rewrite off_list_dot, map_length, length_indices. reflexivity. Qed.

Lemma denote_eq_fast {A} (s : list A) v : denote s v = denote_fast s v.
Proof.
  unfold denote, denote_fast, tabulate, view_offsets.
  rewrite off_list_dot, map_map, mapM_map.
  destruct (mapM _ _); reflexivity.
Qed.

Lemma denote_shape {A} (s : list A) v t : denote s v = Some t -> t_shape t = shape_of (v_dims v).
Proof. apply tabulate_shape. Qed.

Lemma denote_wf {A} (s : list A) v t : denote s v = Some t -> wf_tensor t.
Proof. apply tabulate_wf. Qed.

Lemma denote_rank {A} (s : list A) v t : denote s v = Some t -> rank t = ndim (v_dims v).
Proof.
  intros H. unfold rank, ndim, lenN. rewrite (denote_shape _ _ _ H), shape_of_length. reflexivity.
Qed.

(* ---- the reindexing lemma.  If every index of the new view maps (through g) to a valid
   index of the old view that addresses the same storage element, the new view denotes the
   old tensor re-indexed by g. *)
Lemma denote_reindex {A} (s : list A) v t v' (g : list N -> option (list N)) :
  denote s v = Some t ->
  (forall idx, valid_b (shape_of (v_dims v')) idx = true ->
     exists src, g idx = Some src /\ valid_b (shape_of (v_dims v)) src = true /\
                 v_off v' + dotN idx (strides_of (v_dims v'))
                 = v_off v + dotN src (strides_of (v_dims v))) ->
  denote s v' = tabulate (shape_of (v_dims v'))
                         (fun idx => match g idx with Some src => tget t src | None => None end).
Proof.
  intros Ht H. unfold denote at 1. apply tabulate_ext. intros idx Hv.
  destruct (H idx Hv) as (src & -> & Hs & E).
  destruct (tget_tabulate _ _ _ _ Ht Hs) as [-> _]. now rewrite E.
Qed.

(* total version *)
Lemma denote_reindex_total {A} (s : list A) v t v' (g : list N -> list N) :
  denote s v = Some t ->
  (forall idx, valid_b (shape_of (v_dims v')) idx = true ->
     valid_b (shape_of (v_dims v)) (g idx) = true /\
     v_off v' + dotN idx (strides_of (v_dims v')) = v_off v + dotN (g idx) (strides_of (v_dims v))) ->
  denote s v' = tabulate (shape_of (v_dims v')) (fun idx => tget t (g idx)).
Proof.
  intros Ht H.
  rewrite (denote_reindex s v t v' (fun idx => Some (g idx)) Ht); [reflexivity|].
  intros idx Hv. destruct (H idx Hv) as [H1 H2]. eauto.
Qed.

(* a reindexed tensor is always defined *)
Lemma reindex_defined {A} (t : tensor A) shape' (g : list N -> option (list N)) :
  wf_tensor t ->
  (forall idx, valid_b shape' idx = true ->
     exists src, g idx = Some src /\ valid_b (t_shape t) src = true) ->
  exists t', tabulate shape' (fun idx => match g idx with Some src => tget t src | None => None end) = Some t'.
Proof.
  intros Hwf H. apply tabulate_total. intros idx Hv.
  destruct (H idx Hv) as (src & -> & Hs). unfold tget. rewrite Hs.
  apply nth_error_Some. pose proof (lin_lt _ _ Hs). unfold wf_tensor in Hwf. lia.
Qed.

(* ---- the same-offsets lemma: a view that visits the same storage offsets in the same order
   denotes a reshape of the old tensor *)
Lemma denote_fast_elems {A} (s : list A) v t :
  denote s v = Some t -> mapM (fun o => nth_error s (N.to_nat o)) (view_offsets v) = Some (t_elems t).
Proof.
  rewrite denote_eq_fast. unfold denote_fast.
  destruct (mapM _ _); [|discriminate]. cbn. now intros [= <-].
Qed.

Lemma denote_same_offsets {A} (s : list A) v v' t :
  denote s v = Some t -> view_offsets v' = view_offsets v ->
  denote s v' = ref_reshape t (shape_of (v_dims v')).
Proof.
  intros Ht Ho. pose proof (denote_fast_elems _ _ _ Ht) as He.
  rewrite denote_eq_fast. unfold denote_fast. rewrite Ho, He. cbn [option_map].
  unfold ref_reshape.
  assert (E : prodN (shape_of (v_dims v')) = lenN (t_elems t)).
  { apply mapM_length in He. unfold lenN. rewrite He, <- Ho. unfold view_offsets.
    rewrite map_length, length_off_list. unfold prod_sizes. now rewrite N2Nat.id. }
  rewrite E, N.eqb_refl. reflexivity.
Qed.

Lemma same_offsets v v' :
  v_off v' = v_off v -> off_list (v_dims v') = off_list (v_dims v) -> view_offsets v' = view_offsets v.
Proof. unfold view_offsets. now intros -> ->. Qed.

(* ---- concatenating dimension lists *)
Lemma off_list_app pre post :
  off_list (pre ++ post) = flat_map (fun p => map (N.add p) (off_list post)) (off_list pre).
Proof.
  induction pre as [|d r IH].
  - cbn [app off_list flat_map]. rewrite app_nil_r. symmetry.
    erewrite map_ext; [apply map_id|]. intros a. lia.
  - cbn [app off_list]. rewrite flat_map_flat_map. apply flat_map_ext_in. intros i _.
    rewrite IH, flat_map_map, map_flat_map. apply flat_map_ext_in. intros p _.
    rewrite map_map. apply map_ext. intros a. lia.
Qed.

(* a unit dimension contributes nothing *)
Lemma off_list_unit st r : off_list ((st, 1) :: r) = off_list r.
Proof.
  cbn [off_list d_size d_stride fst snd]. rewrite range_1. cbn [flat_map]. rewrite app_nil_r.
  erewrite map_ext; [apply map_id|]. intros a. lia.
Qed.

(* ---- contiguous layouts enumerate 0, 1, 2, ... *)
Lemma off_list_contiguous_dims shape : off_list (contiguous_dims shape) = range (prodN shape).
Proof.
  induction shape as [|n r IH]; [reflexivity|].
  cbn [contiguous_dims off_list prodN]. unfold mkdim. cbn [d_size d_stride fst snd].
  rewrite IH, range_mul. apply flat_map_ext_in. intros i _. reflexivity.
Qed.

Lemma shape_of_contiguous_dims shape : shape_of (contiguous_dims shape) = shape.
Proof.
  induction shape as [|n r IH]; [reflexivity|].
  cbn [contiguous_dims]. rewrite shape_of_cons, IH. reflexivity.
Qed.

Lemma prod_sizes_app a b : prod_sizes (a ++ b) = prod_sizes a * prod_sizes b.
Proof.
  unfold prod_sizes. rewrite shape_of_app.
  induction (shape_of a) as [|x r IH]; cbn [app prodN]; [now rewrite N.mul_1_l|].
  rewrite IH. now rewrite N.mul_assoc.
Qed.

Lemma contig_aux_offsets rdims p :
  contig_aux false rdims p = true ->
  off_list (rev rdims) = map (fun k => k * p) (range (prod_sizes rdims)).
Proof.
  revert p. induction rdims as [|d r IH]; intros p H.
  - cbn [rev off_list]. unfold prod_sizes. cbn [shape_of map prodN]. rewrite range_1.
    cbn [map]. now rewrite N.mul_0_l.
  - cbn [contig_aux] in H. cbn [rev]. rewrite off_list_app.
    destruct d as [st sz]. cbn [d_size d_stride fst snd] in H.
    unfold prod_sizes. cbn [shape_of map prodN d_size snd]. fold (shape_of r). fold (prod_sizes r).
    destruct (sz =? 1) eqn:E1.
    + apply N.eqb_eq in E1. subst sz. rewrite (IH _ H), off_list_unit. cbn [off_list map].
      rewrite N.mul_1_l, flat_map_singleton, map_map. apply map_ext. intros k. lia.
    + destruct (st =? p) eqn:E2; [|discriminate]. apply N.eqb_eq in E2. subst st.
      cbn [wr] in H. rewrite (IH _ H), flat_map_map.
      replace (sz * prod_sizes r) with (prod_sizes r * sz) by lia.
      rewrite range_mul, map_flat_map. apply flat_map_ext_in. intros k _.
      cbn [off_list d_size d_stride fst snd map]. rewrite flat_map_singleton, !map_map.
      apply map_ext. intros j. lia.
Qed.

Lemma prod_sizes_rev dims : prod_sizes (rev dims) = prod_sizes dims.
Proof.
  induction dims as [|d r IH]; [reflexivity|]. cbn [rev]. rewrite prod_sizes_app, IH.
  unfold prod_sizes. cbn [shape_of map prodN]. rewrite N.mul_1_r. apply N.mul_comm.
Qed.

Lemma is_contiguous_offsets dims :
  is_contiguous false dims = true -> off_list dims = range (prod_sizes dims).
Proof.
  unfold is_contiguous. intros H. apply contig_aux_offsets in H.
  rewrite rev_involutive, prod_sizes_rev in H. rewrite H.
  erewrite map_ext; [apply map_id|]. intros k. lia.
Qed.

(* a freshly built contiguous tensor denotes itself *)
Lemma denote_fresh {A} (t : tensor A) :
  wf_tensor t -> denote (t_elems t) (mkV 0 (contiguous_dims (t_shape t))) = Some t.
Proof.
  intros Hwf. rewrite denote_eq_fast. unfold denote_fast, view_offsets. cbn [v_off v_dims].
  rewrite off_list_contiguous_dims, shape_of_contiguous_dims.
  erewrite map_ext; [rewrite map_id|intros a; apply N.add_0_l].
  unfold wf_tensor in Hwf. rewrite <- Hwf. unfold range. rewrite Nat2N.id, mapM_map.
  assert (E : forall (l : list A) k, mapM (fun x => nth_error (l) (N.to_nat (N.of_nat x))) (seq k (length l - k))
                                 = Some (skipn k l)).
  { intros l k. remember (length l - k)%nat as m eqn:Em. revert k Em.
    induction m as [|m IH]; intros k Em; cbn [seq mapM].
    - rewrite skipn_all2 by lia. reflexivity.
    - rewrite Nat2N.id. destruct (nth_error l k) eqn:En; [|apply nth_error_None in En; lia].
      rewrite IH by lia. f_equal.
      clear - En. revert k En. induction l as [|x r IHl]; intros [|k] En; cbn in *; try discriminate.
      + now injection En as ->.
      + now apply IHl. }
  specialize (E (t_elems t) 0%nat). rewrite Nat.sub_0_r in E. rewrite E. cbn. now destruct t.
Qed.
