(* C09 -- broadcast (can_broadcast_to + broadcast_strides) denotes numpy.broadcast_to. *)
From RV Require Import Prelude.
From Tensor Require Import Overlap.
From LayoutOps Require Import ArrayModel LayoutOps Array_proofs Denote_proofs.
Open Scope N_scope.

Lemma bcast_ok_length shape tgt : bcast_ok shape tgt = true -> length shape = length tgt.
Proof.
  revert tgt. induction shape as [|a r IH]; intros [|b s] H; cbn [bcast_ok] in H; try discriminate.
  - reflexivity.
  - apply andb_prop in H as [_ H]. cbn [length]. f_equal. now apply IH.
Qed.

Lemma shape_of_bcast_dims dims tgt :
  length dims = length tgt -> shape_of (bcast_dims dims tgt) = tgt.
Proof.
  revert tgt. induction dims as [|d r IH]; intros [|t s] H; cbn [length] in H; try discriminate.
  - reflexivity.
  - cbn [bcast_dims]. rewrite shape_of_cons. unfold mkdim at 1. cbn [d_size snd]. f_equal.
    apply IH. lia.
Qed.

(* the core: one trailing dimension at a time *)
Lemma bcast_core dims tgt idx :
  bcast_ok (shape_of dims) tgt = true -> valid_b tgt idx = true ->
  valid_b (shape_of dims) (bcast_src (shape_of dims) idx) = true
  /\ dotN idx (strides_of (bcast_dims dims tgt)) = dotN (bcast_src (shape_of dims) idx) (strides_of dims).
Proof.
  revert tgt idx. induction dims as [|d r IH]; intros [|t s] [|i ir] Hok Hv;
    cbn [shape_of map bcast_ok valid_b] in Hok, Hv; try discriminate.
  - split; reflexivity.
  - fold (shape_of r) in Hok. apply andb_prop in Hok as [Hd Hok]. apply andb_prop in Hv as [Hi Hv].
    destruct (IH s ir Hok Hv) as [IH1 IH2].
    rewrite shape_of_cons. cbn [bcast_src bcast_dims valid_b].
    rewrite !strides_of_cons. unfold mkdim at 1. cbn [d_stride fst dotN].
    apply N.ltb_lt in Hi. destruct (d_size d =? 1) eqn:E1.
    + apply N.eqb_eq in E1. rewrite E1. split.
      * cbn [N.ltb]. replace (0 <? 1) with true by reflexivity. exact IH1.
      * rewrite IH2. destruct (1 <? t) eqn:E2; cbn [andb].
        -- lia.
        -- apply N.ltb_ge in E2. assert (i = 0) by lia. subst i. lia.
    + cbn [andb]. apply orb_prop in Hd as [Hd|Hd]; [|congruence].
      apply N.eqb_eq in Hd. split.
      * rewrite Hd. apply N.ltb_lt in Hi. now rewrite Hi.
      * now rewrite IH2.
Qed.

Lemma valid_b_app a b x y :
  length x = length a -> valid_b (a ++ b) (x ++ y) = valid_b a x && valid_b b y.
Proof.
  revert x. induction a as [|n r IH]; intros [|i ir] H; cbn [length] in H; try discriminate.
  - reflexivity.
  - cbn [app valid_b]. rewrite IH by lia. now rewrite andb_assoc.
Qed.

Lemma dot_zero idx (l : list N) : dotN idx (map (fun _ => 0) l) = 0.
Proof.
  revert l. induction idx as [|i ir IH]; intros [|x r]; cbn [map dotN]; try reflexivity.
  rewrite IH. lia.
Qed.

Lemma dot_app a b c d : length a = length c -> dotN (a ++ b) (c ++ d) = dotN a c + dotN b d.
Proof.
  revert c. induction a as [|i ir IH]; intros [|s sr] H; cbn [length] in H; try discriminate.
  - reflexivity.
  - cbn [app dotN]. rewrite IH by lia. lia.
Qed.

Theorem broadcast_denotes {A} (s : list A) v target v' t :
  denote s v = Some t -> broadcast v target = Ok v' -> denote s v' = ref_broadcast t target.
Proof.
  intros Ht H. unfold broadcast in H.
  destruct (can_broadcast_to (v_dims v) target) eqn:Hc; [|discriminate]. injection H as <-.
  unfold can_broadcast_to in Hc.
  destruct (lenN target <? ndim (v_dims v)) eqn:El; [discriminate|]. apply N.ltb_ge in El.
  unfold ref_broadcast. rewrite (denote_rank _ _ _ Ht), (denote_shape _ _ _ Ht), shape_of_length.
  apply N.leb_le in El as El'. rewrite El', Hc.
  set (pad := (length target - length (v_dims v))%nat) in *.
  set (dims' := map (fun t0 => mkdim t0 0) (firstn pad target) ++ bcast_dims (v_dims v) (skipn pad target)).
  assert (Hlen : length (v_dims v) = length (skipn pad target)).
  { apply bcast_ok_length in Hc. now rewrite shape_of_length in Hc. }
  assert (Hpad : length (firstn pad target) = pad).
  { apply firstn_length_le. unfold pad. lia. }
  assert (Hshape : shape_of dims' = target).
  { unfold dims'. rewrite shape_of_app, shape_of_bcast_dims by exact Hlen.
    unfold shape_of at 1. rewrite map_map. cbn [mkdim d_size snd]. rewrite map_id.
    apply firstn_skipn. }
  rewrite <- Hshape at 1.
  apply (denote_reindex_total s v t (mkV (v_off v) dims')
           (fun idx => bcast_src (shape_of (v_dims v)) (skipn pad idx)) Ht).
  cbn [v_off v_dims]. rewrite Hshape. intros idx Hv.
  assert (Hli : length idx = length target) by (now apply valid_b_length).
  rewrite <- (firstn_skipn pad idx) in Hv. rewrite <- (firstn_skipn pad target) in Hv.
  rewrite valid_b_app in Hv by (rewrite Hpad; apply firstn_length_le; unfold pad; lia).
  apply andb_prop in Hv as [_ Hv2].
  destruct (bcast_core (v_dims v) (skipn pad target) (skipn pad idx) Hc Hv2) as [B1 B2].
  split; [exact B1|]. f_equal.
  unfold dims'. rewrite strides_of_app. rewrite <- (firstn_skipn pad idx) at 1.
  rewrite dot_app.
  - rewrite B2. unfold strides_of at 1. rewrite map_map. cbn [mkdim d_stride fst].
    rewrite dot_zero. lia.
  - rewrite strides_of_length, map_length, Hpad. apply firstn_length_le. unfold pad. lia.
Qed.

Theorem broadcast_error {A} (s : list A) v target e t :
  denote s v = Some t -> broadcast v target = Err e -> ref_broadcast t target = None.
Proof.
  intros Ht H. unfold broadcast in H.
  destruct (can_broadcast_to (v_dims v) target) eqn:Hc; [discriminate|].
  unfold can_broadcast_to in Hc. unfold ref_broadcast.
  rewrite (denote_rank _ _ _ Ht), (denote_shape _ _ _ Ht), shape_of_length.
  destruct (lenN target <? ndim (v_dims v)) eqn:El.
  - apply N.ltb_lt in El. apply N.leb_gt in El. now rewrite El.
  - rewrite Hc. now destruct (_ <=? _).
Qed.
