(* C09 -- lemmas about the reference array model: ranges, row-major index enumeration,
   mapM, tabulate / tget. *)
From RV Require Import Prelude.
From LayoutOps Require Import ArrayModel.
From Coq Require Import Permutation.
Open Scope N_scope.

(* ------------------------------------------------------------------ range *)
Lemma range_length n : length (range n) = N.to_nat n.
Proof. unfold range. now rewrite map_length, seq_length. Qed.

Lemma In_range i n : In i (range n) <-> i < n.
Proof.
  unfold range. rewrite in_map_iff. split.
  - intros (k & <- & Hk). apply in_seq in Hk. lia.
  - intros H. exists (N.to_nat i). split; [apply N2Nat.id|]. apply in_seq. lia.
Qed.

Lemma nth_error_range n k : (k < N.to_nat n)%nat -> nth_error (range n) k = Some (N.of_nat k).
Proof.
  intros H. unfold range. rewrite nth_error_map, nth_error_nth' with (d := 0%nat) by (rewrite seq_length; lia).
  rewrite seq_nth by lia. reflexivity.
Qed.

Lemma nth_error_range_N n i : i < n -> nth_error (range n) (N.to_nat i) = Some i.
Proof. intros H. rewrite nth_error_range by lia. now rewrite N2Nat.id. Qed.

Lemma range_0 : range 0 = [].
Proof. reflexivity. Qed.

Lemma range_succ n : range (N.succ n) = range n ++ [n].
Proof.
  unfold range. rewrite N2Nat.inj_succ, seq_S, map_app. cbn [map Nat.add]. now rewrite N2Nat.id.
Qed.

Lemma range_1 : range 1 = [0].
Proof. reflexivity. Qed.

Lemma NoDup_range n : NoDup (range n).
Proof.
  unfold range. apply FinFun.Injective_map_NoDup; [|apply seq_NoDup].
  intros a b H. now apply Nat2N.inj.
Qed.

Lemma map_range_ext {A} (f g : N -> A) n : (forall i, i < n -> f i = g i) -> map f (range n) = map g (range n).
Proof. intros H. apply map_ext_in. intros i Hi. apply H. now apply In_range. Qed.

(* ------------------------------------------------------------------ flat_map helpers *)
Lemma flat_map_ext_in {A B} (f g : A -> list B) l :
  (forall x, In x l -> f x = g x) -> flat_map f l = flat_map g l.
Proof.
  induction l as [|x r IH]; intros H; cbn [flat_map]; [reflexivity|].
  rewrite H by (left; reflexivity). f_equal. apply IH. intros y Hy. apply H. now right.
Qed.

Lemma flat_map_map {A B C} (f : B -> list C) (g : A -> B) l :
  flat_map f (map g l) = flat_map (fun x => f (g x)) l.
Proof. induction l as [|x r IH]; cbn [map flat_map]; [reflexivity|]. now rewrite IH. Qed.

Lemma map_flat_map {A B C} (f : B -> C) (g : A -> list B) l :
  map f (flat_map g l) = flat_map (fun x => map f (g x)) l.
Proof. induction l as [|x r IH]; cbn [map flat_map]; [reflexivity|]. now rewrite map_app, IH. Qed.

Lemma flat_map_flat_map {A B C} (f : B -> list C) (g : A -> list B) l :
  flat_map f (flat_map g l) = flat_map (fun x => flat_map f (g x)) l.
Proof. induction l as [|x r IH]; cbn [flat_map]; [reflexivity|]. now rewrite flat_map_app, IH. Qed.

Lemma flat_map_singleton {A B} (f : A -> B) l : flat_map (fun x => [f x]) l = map f l.
Proof. induction l as [|x r IH]; cbn [map flat_map]; [reflexivity|]. now rewrite IH. Qed.

Lemma length_flat_map_const {A B} (f : A -> list B) l m :
  (forall x, In x l -> length (f x) = m) -> length (flat_map f l) = (length l * m)%nat.
Proof.
  induction l as [|x r IH]; intros H; cbn [flat_map length]; [reflexivity|].
  rewrite app_length, H by (left; reflexivity). rewrite IH; [lia|]. intros y Hy. apply H. now right.
Qed.

(* element (k, j) of a concatenation of equal-length blocks *)
Lemma nth_error_flat_map_block {A B} (f : A -> list B) l m k j x :
  (forall y, In y l -> length (f y) = m) ->
  nth_error l k = Some x -> (j < m)%nat ->
  nth_error (flat_map f l) (k * m + j) = nth_error (f x) j.
Proof.
  revert k. induction l as [|y r IH]; intros k Hlen Hk Hj.
  - destruct k; discriminate.
  - cbn [flat_map]. destruct k as [|k].
    + cbn in Hk. injection Hk as ->. cbn [Nat.mul Nat.add].
      rewrite nth_error_app1; [reflexivity|]. rewrite Hlen by (left; reflexivity). exact Hj.
    + cbn in Hk. rewrite nth_error_app2 by (rewrite Hlen by (left; reflexivity); lia).
      rewrite Hlen by (left; reflexivity).
      replace (S k * m + j - m)%nat with (k * m + j)%nat by lia.
      apply IH; [|exact Hk|exact Hj]. intros z Hz. apply Hlen. now right.
Qed.

(* the row-major enumeration of pairs: range (a*b) = [i*b + j | i < a, j < b] *)
Lemma range_mul a b :
  range (a * b) = flat_map (fun i => map (fun j => i * b + j) (range b)) (range a).
Proof.
  induction a as [|a IH] using N.peano_ind.
  - rewrite N.mul_0_l. reflexivity.
  - rewrite range_succ, flat_map_app, <- IH. cbn [flat_map]. rewrite app_nil_r.
    replace (N.succ a * b) with (a * b + b) by lia.
    clear IH. generalize (a * b) as c. intros c.
    induction b as [|b IHb] using N.peano_ind.
    + rewrite N.add_0_r. cbn. now rewrite app_nil_r.
    + replace (c + N.succ b) with (N.succ (c + b)) by lia.
      rewrite !range_succ, IHb, map_app, app_assoc. reflexivity.
Qed.

(* ------------------------------------------------------------------ mapM *)
Lemma mapM_ext_in {A B} (f g : A -> option B) l :
  (forall x, In x l -> f x = g x) -> mapM f l = mapM g l.
Proof.
  induction l as [|x r IH]; intros H; cbn [mapM]; [reflexivity|].
  rewrite H by (left; reflexivity). rewrite IH; [reflexivity|]. intros y Hy. apply H. now right.
Qed.

Lemma mapM_map {A B C} (f : B -> option C) (g : A -> B) l :
  mapM f (map g l) = mapM (fun x => f (g x)) l.
Proof. induction l as [|x r IH]; cbn [map mapM]; [reflexivity|]. now rewrite IH. Qed.

Lemma mapM_length {A B} (f : A -> option B) l r : mapM f l = Some r -> length r = length l.
Proof.
  revert r. induction l as [|x t IH]; intros r H; cbn [mapM] in H.
  - injection H as <-. reflexivity.
  - destruct (f x); [|discriminate]. destruct (mapM f t) eqn:E; [|discriminate].
    injection H as <-. cbn [length]. f_equal. now apply IH.
Qed.

Lemma mapM_nth_error {A B} (f : A -> option B) l r k x :
  mapM f l = Some r -> nth_error l k = Some x -> nth_error r k = f x /\ f x <> None.
Proof.
  revert r k. induction l as [|y t IH]; intros r k H Hk.
  - destruct k; discriminate.
  - cbn [mapM] in H. destruct (f y) eqn:Ey; [|discriminate]. destruct (mapM f t) eqn:E; [|discriminate].
    injection H as <-. destruct k as [|k]; cbn in Hk |- *.
    + injection Hk as <-. rewrite Ey. split; [reflexivity|discriminate].
    + eapply IH; [reflexivity|exact Hk].
Qed.

Lemma mapM_total {A B} (f : A -> option B) (g : A -> B) l :
  (forall x, In x l -> f x = Some (g x)) -> mapM f l = Some (map g l).
Proof.
  induction l as [|x r IH]; intros H; cbn [mapM map]; [reflexivity|].
  rewrite H by (left; reflexivity). rewrite IH; [reflexivity|]. intros y Hy. apply H. now right.
Qed.

Lemma mapM_Some_inv {A B} (f : A -> option B) l r x :
  mapM f l = Some r -> In x l -> exists y, f x = Some y.
Proof.
  revert r. induction l as [|y t IH]; intros r H Hx; [destruct Hx|].
  cbn [mapM] in H. destruct (f y) eqn:Ey; [|discriminate]. destruct (mapM f t) eqn:E; [|discriminate].
  destruct Hx as [<-|Hx]; [eauto|]. eapply IH; [reflexivity|exact Hx].
Qed.

Lemma mapM_app {A B} (f : A -> option B) l1 l2 :
  mapM f (l1 ++ l2) = match mapM f l1, mapM f l2 with
                      | Some a, Some b => Some (a ++ b)
                      | _, _ => None
                      end.
Proof.
  induction l1 as [|x r IH]; cbn [app mapM].
  - destruct (mapM f l2); reflexivity.
  - destruct (f x); [|reflexivity]. rewrite IH.
    destruct (mapM f r); [|reflexivity]. destruct (mapM f l2); reflexivity.
Qed.

(* ------------------------------------------------------------------ indices *)
Lemma valid_b_length shape idx : valid_b shape idx = true -> length idx = length shape.
Proof.
  revert idx. induction shape as [|n r IH]; intros [|i ir] H; cbn [valid_b] in H; try discriminate; [reflexivity|].
  apply andb_prop in H as [_ H]. cbn [length]. f_equal. now apply IH.
Qed.

Lemma In_indices shape idx : In idx (indices shape) <-> valid_b shape idx = true.
Proof.
  revert idx. induction shape as [|n r IH]; intros idx; cbn [indices].
  - split.
    + intros [<-|[]]. reflexivity.
    + destruct idx; cbn [valid_b]; [now left|discriminate].
  - rewrite in_flat_map. split.
    + intros (i & Hi & H). apply in_map_iff in H as (ir & <- & Hir).
      cbn [valid_b]. apply In_range in Hi. apply IH in Hir. rewrite Hir.
      apply N.ltb_lt in Hi. now rewrite Hi.
    + destruct idx as [|i ir]; cbn [valid_b]; [discriminate|]. intros H.
      apply andb_prop in H as [Hi Hir]. apply N.ltb_lt in Hi.
      exists i. split; [now apply In_range|]. apply in_map. now apply IH.
Qed.

Lemma length_indices shape : length (indices shape) = N.to_nat (prodN shape).
Proof.
  induction shape as [|n r IH]; cbn [indices prodN]; [reflexivity|].
  rewrite length_flat_map_const with (m := N.to_nat (prodN r)).
  - rewrite range_length. lia.
  - intros i _. now rewrite map_length.
Qed.

Lemma lin_lt shape idx : valid_b shape idx = true -> lin shape idx < prodN shape.
Proof.
  revert idx. induction shape as [|n r IH]; intros [|i ir] H; cbn [valid_b] in H; try discriminate;
    cbn [lin prodN]; [lia|].
  apply andb_prop in H as [Hi Hir]. apply N.ltb_lt in Hi. apply IH in Hir. nia.
Qed.

Lemma nth_error_indices shape idx :
  valid_b shape idx = true -> nth_error (indices shape) (N.to_nat (lin shape idx)) = Some idx.
Proof.
  revert idx. induction shape as [|n r IH]; intros [|i ir] H; cbn [valid_b] in H; try discriminate.
  - reflexivity.
  - apply andb_prop in H as [Hi Hir]. apply N.ltb_lt in Hi.
    cbn [indices lin].
    replace (N.to_nat (i * prodN r + lin r ir))
      with (N.to_nat i * N.to_nat (prodN r) + N.to_nat (lin r ir))%nat by lia.
    rewrite nth_error_flat_map_block with (x := i).
    + rewrite nth_error_map, IH by exact Hir. reflexivity.
    + intros y _. now rewrite map_length, length_indices.
    + now apply nth_error_range_N.
    + pose proof (lin_lt r ir Hir). lia.
Qed.

(* ------------------------------------------------------------------ tabulate / tget *)
Lemma tabulate_shape {A} shape (f : list N -> option A) t : tabulate shape f = Some t -> t_shape t = shape.
Proof. unfold tabulate. destruct (mapM f (indices shape)); [|discriminate]. now intros [= <-]. Qed.

Lemma tabulate_elems {A} shape (f : list N -> option A) t :
  tabulate shape f = Some t -> mapM f (indices shape) = Some (t_elems t).
Proof. unfold tabulate. destruct (mapM f (indices shape)); [|discriminate]. now intros [= <-]. Qed.

Lemma tabulate_wf {A} shape (f : list N -> option A) t : tabulate shape f = Some t -> wf_tensor t.
Proof.
  intros H. unfold wf_tensor. rewrite (tabulate_shape _ _ _ H).
  apply tabulate_elems in H. apply mapM_length in H. rewrite H, length_indices. apply N2Nat.id.
Qed.

Lemma tabulate_ext {A} shape (f g : list N -> option A) :
  (forall idx, valid_b shape idx = true -> f idx = g idx) -> tabulate shape f = tabulate shape g.
Proof.
  intros H. unfold tabulate. rewrite (mapM_ext_in f g); [reflexivity|].
  intros idx Hi. apply H. now apply In_indices.
Qed.

Lemma tget_tabulate {A} shape (f : list N -> option A) t idx :
  tabulate shape f = Some t -> valid_b shape idx = true -> tget t idx = f idx /\ f idx <> None.
Proof.
  intros H Hv. unfold tget. rewrite (tabulate_shape _ _ _ H), Hv.
  apply tabulate_elems in H.
  eapply mapM_nth_error; [exact H|]. now apply nth_error_indices.
Qed.

Lemma tabulate_total {A} shape (f : list N -> option A) :
  (forall idx, valid_b shape idx = true -> f idx <> None) -> exists t, tabulate shape f = Some t.
Proof.
  intros H. unfold tabulate.
  assert (E : exists l, mapM f (indices shape) = Some l).
  { assert (Hin : forall idx, In idx (indices shape) -> f idx <> None)
      by (intros idx Hi; apply H; now apply In_indices).
    clear H. induction (indices shape) as [|x r IH]; cbn [mapM]; [eauto|].
    destruct (f x) eqn:E; [|exfalso; apply (Hin x); [now left|exact E]].
    destruct IH as [l ->]; [|eauto]. intros y Hy. apply Hin. now right. }
  destruct E as [l ->]. eauto.
Qed.

Lemma tabulate_None {A} shape (f : list N -> option A) idx :
  valid_b shape idx = true -> f idx = None -> tabulate shape f = None.
Proof.
  intros Hv Hf. unfold tabulate. destruct (mapM f (indices shape)) eqn:E; [|reflexivity].
  exfalso. destruct (mapM_Some_inv f _ _ idx E) as [y Hy]; [now apply In_indices|congruence].
Qed.

(* element count = product of the shape, whenever a tensor was built by [tabulate] *)
Lemma wf_lenN {A} (t : tensor A) : wf_tensor t -> lenN (t_elems t) = prodN (t_shape t).
Proof. exact (fun H => H). Qed.

(* ------------------------------------------------------------------ sums over lists *)
Fixpoint sumN (l : list N) : N := match l with [] => 0 | x :: r => x + sumN r end.

Lemma sumN_app a b : sumN (a ++ b) = sumN a + sumN b.
Proof. induction a as [|x r IH]; cbn [app sumN]; [reflexivity|]. rewrite IH. lia. Qed.

Lemma sumN_perm a b : Permutation a b -> sumN a = sumN b.
Proof. induction 1; cbn [sumN]; lia. Qed.

Lemma nthN_map {A B} (f : A -> B) l k d : nthN (map f l) k (f d) = f (nthN l k d).
Proof. unfold nthN. apply map_nth. Qed.

Lemma nthN_range n i d : i < n -> nthN (range n) i d = i.
Proof.
  intros H. unfold nthN. apply nth_error_nth. now apply nth_error_range_N.
Qed.
