(* C09 -- slice_copy (negative steps, clamped bounds): whenever it returns a tensor, that
   tensor is numpy's t[items].  The copy kernel itself (copy.rs) is modelled as the nested
   iteration of the per-axis index lists; its blocked/4-d structure is correspondence-only. *)
From RV Require Import Prelude.
From Tensor Require Import Overlap.
From LayoutOps Require Import ArrayModel LayoutOps Array_proofs Denote_proofs SliceRange_proofs
  Gather_proofs Perm_proofs Defined_proofs.
From Coq Require Import ZifyBool.
Open Scope N_scope.

(* ---------------------------------------------------------------- strict => numpy *)
Lemma sel_strict_numpy n it s : sel_strict n it = Some s -> sel_numpy n it = Some s.
Proof.
  destruct it as [i|st0 e st]; cbn [sel_strict sel_numpy]; [auto|].
  destruct ((0 <? st)%Z && _ && _ && _ && _)%Z eqn:E; [|discriminate].
  intros H. replace (st =? 0)%Z with false by lia. exact H.
Qed.

Lemma sels_of_strict_numpy shape items ss :
  sels_of sel_strict shape items = Some ss -> sels_of sel_numpy shape items = Some ss.
Proof.
  revert items ss. induction shape as [|n r IH]; intros items ss H; cbn [sels_of] in *.
  - exact H.
  - destruct items as [|it ir].
    + destruct (sels_of sel_strict r []) eqn:E; [|discriminate]. now rewrite (IH _ _ E).
    + destruct (sel_strict n it) eqn:E1; [|discriminate].
      destruct (sels_of sel_strict r ir) eqn:E2; [|discriminate].
      now rewrite (sel_strict_numpy _ _ _ E1), (IH _ _ E2).
Qed.

Lemma ref_slice_numpy_of_strict {A} (t : tensor A) items t' :
  ref_slice t items = Some t' -> ref_slice_numpy t items = Some t'.
Proof.
  unfold ref_slice, ref_slice_numpy, ref_slice_with.
  destruct (sels_of sel_strict (t_shape t) items) eqn:E; [|discriminate].
  now rewrite (sels_of_strict_numpy _ _ _ E).
Qed.

(* ---------------------------------------------------------------- index items *)
Lemma py_indices_index n i :
  (- Z.of_N n <= i < Z.of_N n)%Z ->
  py_indices n (sr_start (item_range (Idx i))) (sr_end (item_range (Idx i))) 1
  = [Z.to_N (neg_resolve (Z.of_N n) i)].
Proof.
  intros Hi. unfold item_range.
  assert (Hlen1 : forall a, (py_len a (a + 1) 1 = 1)%Z).
  { intros a. unfold py_len. replace (1 <? 0)%Z with false by reflexivity.
    replace (a <? a + 1)%Z with true by lia.
    replace (a + 1 - a - 1)%Z with 0%Z by lia. reflexivity. }
  destruct (i =? -1)%Z eqn:E; cbn [sr_start sr_end]; unfold py_indices.
  - assert (i = -1)%Z by lia. subst i.
    assert (Hs : py_adjust (Z.of_N n) 1 (-1) = (Z.of_N n - 1)%Z).
    { unfold py_adjust. replace (-1 <? 0)%Z with true by reflexivity.
      replace (-1 + Z.of_N n <? 0)%Z with false by lia. lia. }
    rewrite Hs. replace (1 <? 0)%Z with false by reflexivity.
    replace (Z.of_N n) with (Z.of_N n - 1 + 1)%Z at 2 by lia. rewrite Hlen1.
    cbn [Z.to_N]. rewrite range_1. cbn [map]. f_equal. unfold neg_resolve.
    replace (-1 <? 0)%Z with true by reflexivity. f_equal. lia.
  - assert (Hs : py_adjust (Z.of_N n) 1 i = neg_resolve (Z.of_N n) i).
    { unfold py_adjust, neg_resolve. replace (1 <? 0)%Z with false by reflexivity.
      destruct (i <? 0)%Z eqn:E1.
      - replace (i + Z.of_N n <? 0)%Z with false by lia. reflexivity.
      - replace (Z.of_N n <=? i)%Z with false by lia. reflexivity. }
    assert (He : py_adjust (Z.of_N n) 1 (i + 1) = (neg_resolve (Z.of_N n) i + 1)%Z).
    { unfold py_adjust, neg_resolve. replace (1 <? 0)%Z with false by reflexivity.
      destruct (i <? 0)%Z eqn:E1.
      - replace (i + 1 <? 0)%Z with true by lia.
        replace (i + 1 + Z.of_N n <? 0)%Z with false by lia. lia.
      - replace (i + 1 <? 0)%Z with false by lia.
        destruct (Z.of_N n <=? i + 1)%Z eqn:E2; lia. }
    rewrite Hs, He, Hlen1. cbn [Z.to_N]. rewrite range_1. cbn [map]. f_equal. f_equal. lia.
Qed.

(* ---------------------------------------------------------------- copy_sels *)
(* selections that are in range and whose dropped axes select exactly one index *)
Fixpoint sels_ok (shape : list N) (ss : list sel) : Prop :=
  match shape, ss with
  | [], [] => True
  | n :: r, (l, keep) :: sr =>
      (forall x, In x l -> x < n) /\ (keep = false -> exists j, l = [j]) /\ sels_ok r sr
  | _, _ => False
  end.

Lemma sels_ok_full shape : sels_ok shape (map sel_full shape).
Proof.
  induction shape as [|n r IH]; [exact I|]. cbn [map sels_ok sel_full].
  split; [intros x Hx; now apply In_range|]. split; [discriminate|exact IH].
Qed.

Lemma sels_ok_in_range shape ss : sels_ok shape ss -> sels_in_range shape ss = true.
Proof.
  revert ss. induction shape as [|n r IH]; intros [|[l keep] sr] H; cbn [sels_ok] in H; try contradiction.
  - reflexivity.
  - destruct H as (H1 & _ & H3). cbn [sels_in_range fst]. rewrite (IH _ H3), andb_true_r.
    apply forallb_forall. intros x Hx. apply N.ltb_lt. now apply H1.
Qed.

Lemma copy_sels_spec dims items ss :
  copy_sels dims items = Ok ss ->
  sels_of sel_numpy (shape_of dims) items = Some ss /\ sels_ok (shape_of dims) ss.
Proof.
  revert items ss. induction dims as [|d rest IH]; intros items ss H.
  - cbn [copy_sels] in H. destruct items; [|discriminate]. injection H as <-. split; [reflexivity|exact I].
  - cbn [copy_sels] in H. rewrite shape_of_cons. cbn [sels_of sels_ok].
    destruct items as [|it items']; cbn [tl] in H.
    + destruct (copy_sels rest []) as [ss'|e] eqn:E; [|discriminate]. injection H as <-.
      destruct (IH _ _ E) as [H1 H2]. rewrite H1. split; [reflexivity|].
      cbn [sel_full]. split; [intros x Hx; now apply In_range|]. split; [discriminate|exact H2].
    + destruct it as [i|st0 e st].
      * (* index *)
        destruct ((i <? - Z.of_N (d_size d)) || (Z.of_N (d_size d) <=? i))%Z eqn:Eb; [discriminate|].
        assert (Hi : (- Z.of_N (d_size d) <= i < Z.of_N (d_size d))%Z) by lia.
        destruct (sr_index_range (item_range (Idx i)) (d_size d)) as [g|e'] eqn:Eg; [|discriminate].
        destruct (copy_sels rest items') as [ss'|e'] eqn:E; [|discriminate]. injection H as <-.
        destruct (IH _ _ E) as [H1 H2].
        destruct (index_range_sound _ _ _ Eg) as [Hit _].
        assert (Hstep : sr_step (item_range (Idx i)) = 1%Z) by (unfold item_range; now destruct (i =? -1)%Z).
        rewrite Hstep in Hit. rewrite (py_indices_index _ _ Hi) in Hit. rewrite Hit.
        cbn [sel_numpy]. unfold sel_index.
        assert (Hj : (0 <= neg_resolve (Z.of_N (d_size d)) i < Z.of_N (d_size d))%Z).
        { unfold neg_resolve. destruct (i <? 0)%Z eqn:?; lia. }
        replace ((0 <=? _) && _)%Z with true by lia. rewrite H1. split; [reflexivity|].
        split; [|split; [eauto|exact H2]].
        intros x [<-|[]]. lia.
      * (* range *)
        destruct (sr_index_range (item_range (Rng st0 e st)) (d_size d)) as [g|e'] eqn:Eg; [|discriminate].
        destruct (copy_sels rest items') as [ss'|e'] eqn:E; [|discriminate]. injection H as <-.
        destruct (IH _ _ E) as [H1 H2].
        destruct (index_range_sound _ _ _ Eg) as [Hit _]. cbn [item_range sr_start sr_end sr_step] in Hit.
        assert (Hst : (st <> 0)%Z).
        { intros ->. exact (index_range_zero_step (mkSR st0 e 0) (d_size d) g eq_refl Eg). }
        cbn [sel_numpy]. replace (st =? 0)%Z with false by lia. rewrite H1, Hit.
        split; [reflexivity|]. split; [|split; [discriminate|exact H2]].
        intros x Hx. eapply py_indices_in_range; [exact Hst|exact Hx].
Qed.

(* ---------------------------------------------------------------- the copy loops *)
Definition bind_cons (x : N) (o : option (list N)) : option (list N) :=
  match o with Some js => Some (x :: js) | None => None end.

Lemma sel_product_spec shape ss :
  sels_ok shape ss ->
  map (gather_src ss) (indices (gather_shape ss)) = map Some (sel_product ss).
Proof.
  revert ss. induction shape as [|n r IH]; intros [|[l keep] sr] H; cbn [sels_ok] in H; try contradiction.
  - reflexivity.
  - destruct H as (_ & Hk & H3). specialize (IH _ H3).
    unfold gather_shape in *. destruct keep; cbn [filter snd map fst sel_product].
    + cbn [indices]. rewrite !map_flat_map.
      transitivity (flat_map (fun x => map Some (map (cons x) (sel_product sr)))
                             (map (fun j => nthN l j 0) (range (lenN l))));
        [|now rewrite <- (list_as_map l 0)].
      rewrite flat_map_map.
      apply flat_map_ext_in. intros i Hi. apply In_range in Hi.
      rewrite !map_map.
      transitivity (map (fun ir => bind_cons (nthN l i 0) (gather_src sr ir))
                        (indices (map (fun s : sel => lenN (fst s)) (filter (fun s : sel => snd s) sr)))).
      * apply map_ext. intros ir. cbn [gather_src].
        rewrite (nthN_nth_error l i 0 Hi). unfold bind_cons. now destruct (gather_src sr ir).
      * rewrite <- (map_map (gather_src sr) (bind_cons (nthN l i 0))), IH, map_map. reflexivity.
    + destruct (Hk eq_refl) as [j ->]. cbn [flat_map]. rewrite app_nil_r, map_map.
      transitivity (map (fun idx => bind_cons j (gather_src sr idx))
                        (indices (map (fun s : sel => lenN (fst s)) (filter (fun s : sel => snd s) sr)))).
      * apply map_ext. intros idx. cbn [gather_src]. unfold bind_cons. now destruct (gather_src sr idx).
      * rewrite <- (map_map (gather_src sr) (bind_cons j)), IH, map_map. reflexivity.
Qed.

Lemma gather_as_product {A} (t : tensor A) ss :
  sels_ok (t_shape t) ss ->
  ref_gather t ss = option_map (mkT (gather_shape ss)) (mapM (tget t) (sel_product ss)).
Proof.
  intros H. unfold ref_gather, tabulate. rewrite (sels_ok_in_range _ _ H).
  rewrite <- (mapM_map (fun o => match o with Some s => tget t s | None => None end) (gather_src ss)).
  rewrite (sel_product_spec _ _ H), mapM_map.
  destruct (mapM _ _); reflexivity.
Qed.

(* ---------------------------------------------------------------- slice_copy *)
Theorem slice_copy_sound {A} (s : list A) v items t t' :
  denote s v = Some t -> slice_copy false s v items = Ok t' -> ref_slice_numpy t items = Some t'.
Proof.
  intros Ht H. unfold slice_copy in H.
  destruct (slice false v items) as [v'|e] eqn:Es.
  - (* the view fast path *)
    destruct (denote_fast s v') as [t0|] eqn:E0; [|discriminate]. injection H as <-.
    apply ref_slice_numpy_of_strict. rewrite <- (slice_denotes s v items v' t Ht Es).
    now rewrite denote_eq_fast.
  - (* the general path *)
    unfold slice_copy_general in H.
    destruct (copy_sels (v_dims v) items) as [ss|e'] eqn:Ec; [|discriminate].
    rewrite <- denote_eq_fast, Ht in H.
    destruct (mapM (tget t) (sel_product ss)) as [l|] eqn:Em; [|discriminate]. injection H as <-.
    destruct (copy_sels_spec _ _ _ Ec) as [H1 H2].
    unfold ref_slice_numpy, ref_slice_with. rewrite (denote_shape _ _ _ Ht), H1.
    rewrite gather_as_product by (now rewrite (denote_shape _ _ _ Ht)).
    now rewrite Em.
Qed.

(* the result of slice_copy is a well-formed tensor: as many elements as its shape says *)
Corollary slice_copy_wf {A} (s : list A) v items t t' :
  denote s v = Some t -> slice_copy false s v items = Ok t' -> wf_tensor t'.
Proof.
  intros Ht H. pose proof (slice_copy_sound s v items t t' Ht H) as Hr.
  unfold ref_slice_numpy, ref_slice_with in Hr.
  destruct (sels_of sel_numpy (t_shape t) items); [|discriminate].
  unfold ref_gather in Hr. destruct (sels_in_range _ _); [|discriminate].
  now apply tabulate_wf in Hr.
Qed.

(* ---------------------------------------------------------------- error direction *)
Lemma gather_src_valid shape ss idx :
  sels_ok shape ss -> valid_b (gather_shape ss) idx = true ->
  exists src, gather_src ss idx = Some src /\ valid_b shape src = true.
Proof.
  revert ss idx. induction shape as [|n r IH]; intros [|[l keep] sr] idx H Hv; cbn [sels_ok] in H; try contradiction.
  - destruct idx; [|discriminate]. exists []. split; reflexivity.
  - destruct H as (Hin & Hk & H3). unfold gather_shape in *. destruct keep; cbn [filter snd map fst] in Hv.
    + destruct idx as [|i ir]; [discriminate|]. cbn [valid_b] in Hv.
      apply andb_prop in Hv as [Hi Hir]. apply N.ltb_lt in Hi.
      destruct (IH sr ir H3 Hir) as (src & Hs & Hvs).
      exists (nthN l i 0 :: src). cbn [gather_src]. rewrite (nthN_nth_error l i 0 Hi), Hs.
      split; [reflexivity|]. cbn [valid_b]. rewrite Hvs, andb_true_r. apply N.ltb_lt.
      apply Hin. unfold nthN. apply nth_In. unfold lenN in Hi. lia.
    + destruct (Hk eq_refl) as [j ->]. destruct (IH sr idx H3 Hv) as (src & Hs & Hvs).
      exists (j :: src). cbn [gather_src]. rewrite Hs. split; [reflexivity|].
      cbn [valid_b]. rewrite Hvs, andb_true_r. apply N.ltb_lt. apply Hin. now left.
Qed.

Lemma product_defined {A} (t : tensor A) ss :
  wf_tensor t -> sels_ok (t_shape t) ss -> mapM (tget t) (sel_product ss) <> None.
Proof.
  intros Hw Hok Hn.
  destruct (reindex_defined t (gather_shape ss) (gather_src ss) Hw) as [t' Ht'].
  { intros idx Hv. exact (gather_src_valid _ _ _ Hok Hv). }
  pose proof (gather_as_product t ss Hok) as Hg. unfold ref_gather in Hg.
  rewrite (sels_ok_in_range _ _ Hok), Ht', Hn in Hg. discriminate.
Qed.

Lemma copy_sels_error dims items e :
  dims_small dims -> copy_sels dims items = Err e -> sels_of sel_numpy (shape_of dims) items = None.
Proof.
  revert items e. induction dims as [|d rest IH]; intros items e Hsm H.
  - cbn [copy_sels] in H. destruct items; [discriminate|reflexivity].
  - inversion Hsm as [|? ? Hd Hrest]; subst.
    cbn [copy_sels] in H. rewrite shape_of_cons. cbn [sels_of].
    destruct items as [|it items']; cbn [tl] in H.
    + destruct (copy_sels rest []) as [ss'|e'] eqn:E; [discriminate|]. now rewrite (IH _ _ Hrest E).
    + destruct it as [i|st0 en st].
      * cbn [sel_numpy]. unfold sel_index.
        destruct ((i <? - Z.of_N (d_size d)) || (Z.of_N (d_size d) <=? i))%Z eqn:Eb.
        -- assert (Hj : (neg_resolve (Z.of_N (d_size d)) i < 0
                         \/ Z.of_N (d_size d) <= neg_resolve (Z.of_N (d_size d)) i)%Z).
           { unfold neg_resolve. destruct (i <? 0)%Z eqn:?; lia. }
           replace ((0 <=? _) && _)%Z with false by lia. reflexivity.
        -- destruct (sr_index_range (item_range (Idx i)) (d_size d)) as [g|e'] eqn:Eg.
           ++ destruct (copy_sels rest items') as [ss'|e''] eqn:E; [discriminate|].
              rewrite (IH _ _ Hrest E). now destruct ((0 <=? _) && _)%Z.
           ++ exfalso. destruct (index_range_ok (item_range (Idx i)) (d_size d)) as [g Hg]; [|exact Hd|congruence].
              unfold item_range. destruct (i =? -1)%Z; cbn; lia.
      * cbn [sel_numpy]. destruct (st =? 0)%Z eqn:Ez; [reflexivity|].
        destruct (sr_index_range (item_range (Rng st0 en st)) (d_size d)) as [g|e'] eqn:Eg.
        -- destruct (copy_sels rest items') as [ss'|e''] eqn:E; [discriminate|].
           now rewrite (IH _ _ Hrest E).
        -- exfalso. destruct (index_range_ok (item_range (Rng st0 en st)) (d_size d)) as [g Hg]; [|exact Hd|congruence].
           cbn. lia.
Qed.

(* slice_copy panics only where numpy's t[items] is undefined *)
Theorem slice_copy_error {A} (s : list A) v items t e :
  denote s v = Some t -> dims_small (v_dims v) -> slice_copy false s v items = Err e ->
  ref_slice_numpy t items = None.
Proof.
  intros Ht Hsm H. unfold slice_copy in H.
  destruct (slice false v items) as [v'|e0] eqn:Es.
  - (* the fast path cannot fail: the sliced view denotes a tensor *)
    exfalso. destruct (slice_defined s v items v' t Ht Es) as [t' Ht'].
    rewrite <- denote_eq_fast, (slice_denotes s v items v' t Ht Es), Ht' in H. discriminate.
  - unfold slice_copy_general in H. unfold ref_slice_numpy, ref_slice_with.
    rewrite (denote_shape _ _ _ Ht).
    destruct (copy_sels (v_dims v) items) as [ss|e'] eqn:Ec.
    + exfalso. rewrite <- denote_eq_fast, Ht in H.
      destruct (copy_sels_spec _ _ _ Ec) as [_ H2]. rewrite <- (denote_shape _ _ _ Ht) in H2.
      destruct (mapM (tget t) (sel_product ss)) eqn:Em; [discriminate|].
      exact (product_defined t ss (denote_wf _ _ _ Ht) H2 Em).
    + now rewrite (copy_sels_error _ _ _ Hsm Ec).
Qed.
