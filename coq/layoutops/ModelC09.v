(* C09 -- correspondence driver: chains of operations, the case record printed by the
   harness (harness/layoutops/src/bin/c09.rs), [agree], [prop_ok], [show].
   Executable definitions only. *)
From RV Require Import Prelude.
From Tensor Require Import Overlap.
From LayoutOps Require Import ArrayModel LayoutOps.
Open Scope N_scope.

Inductive op :=
| OSlice (items : list item)              (* try_slice_dyn *)
| OSliceAxis (axis a b : N)               (* Layout::slice_axis / TensorView::slice_axis *)
| OIndexAxis (axis i : N)
| OPermute (p : list N)
| OTranspose
| OMoveAxis (from to : N)
| OBroadcast (target : list N)            (* try_broadcast *)
| OReshapeView (shape : list N)           (* Layout::reshaped_for_view *)
| OSqueeze
| OInsertAxis (i : N)
| ORemoveAxis (i : N)
| OMergeAxes
| OSplit (axis mid : N) (right : bool)    (* split_at, continue with one half *)
| OSliceCopy (items : list item)          (* slice_copy: result is a fresh tensor *)
| OReshape (shape : list N)               (* TensorView::reshaped: view or copy *)
| OToContiguous                           (* to_contiguous: view or copy *)
| OClipDim (dim a b : N)                  (* owned tensor with this layout, clip_dim *)
| OAppend (axis k cap : N)                (* with_capacity(shape[axis := cap], axis), then append
                                             view[.., 0..k, ..] and view[.., k.., ..] along axis *)
| OAppendP (mode : N) (perm : list N) (axis k cap rep : N).
   (* append to an owned tensor that was PERMUTED IN PLACE: its memory order of axes is
      [perm] (outermost first).  The tensor is built in memory orientation holding
      view[.., 0..k, ..] -- mode 0 (only when [axis] is outermost in memory): from_data on a
      Vec with spare capacity; otherwise with_capacity(.., pos) + append -- then permuted in
      place to the view's axis order, then view[.., k.., ..] is appended along [axis]; [rep]
      selects the representation of the appended tensor (strided view / contiguous copy /
      copy with transposed storage) and does not affect the result *)

(* state of the model: the storage the current view points into, and the view *)
Record mstate := mkM { m_store : list N; m_view : view }.

Definition zero_step (items : list item) : bool :=
  existsb (fun it => match it with Rng _ _ st => (st =? 0)%Z | Idx _ => false end) items.

Definition fresh (t : tensor N) : mstate :=
  mkM (t_elems t) (mkV 0 (contiguous_dims (t_shape t))).

Definition sublist {A} (start len : N) (l : list A) : list A :=
  firstn (N.to_nat len) (skipn (N.to_nat start) l).

(* storage of a freshly filled owned tensor: element i of [elems] at offset i of [offs],
   zero elsewhere (the gaps are never read through the layout) *)
Definition scatter (len : N) (offs elems : list N) : list N :=
  map (fun o => match find (fun p : N * N => fst p =? o) (combine offs elems) with
                | Some p => snd p
                | None => 0
                end) (range len).

(* TensorBase::has_capacity / expanded_layout *)
Definition has_capacity (w : bool) (capacity : N) (dims : list dim) : bool :=
  (min_data_len dims <=? capacity)
  && negb (may_have_internal_overlap w (shape_of dims) (strides_of dims)).

Definition lift (st : mstate) (r : res view) : res mstate :=
  match r with Ok v => Ok (mkM (m_store st) v) | Err e => Err e end.

(* the model's prediction for one operation; [w = true] follows a release build (wrapping
   usize products), [w = false] is exact arithmetic (the mode the theorems are stated in) *)
Definition apply_op (w : bool) (o : op) (st : mstate) : res mstate :=
  let v := m_view st in
  match o with
  | OSlice items => if zero_step items then Err EPanic else lift st (slice w v items)
  | OSliceAxis axis a b => lift st (slice_axis v axis a b)
  | OIndexAxis axis i => lift st (index_axis v axis i)
  | OPermute p => lift st (permuted v p)
  | OTranspose => Ok (mkM (m_store st) (transposed v))
  | OMoveAxis f t => lift st (move_axis v f t)
  | OBroadcast target => lift st (broadcast v target)
  | OReshapeView shape => lift st (reshaped_for_view w v shape)
  | OSqueeze => Ok (mkM (m_store st) (squeezed v))
  | OInsertAxis i => lift st (insert_axis v i)
  | ORemoveAxis i => lift st (remove_axis v i)
  | OMergeAxes => Ok (mkM (m_store st) (merge_axes v))
  | OSplit axis mid rt => lift st (split v axis mid rt)
  | OSliceCopy items =>
      if zero_step items then Err EPanic
      else match slice_copy w (m_store st) v items with
           | Ok t => Ok (fresh t)
           | Err e => Err e
           end
  | OReshape shape =>
      match reshaped_for_view w v shape with
      | Ok v' => Ok (mkM (m_store st) v')
      | Err _ =>
          if prodN shape =? prod_sizes (v_dims v) then
            match denote_fast (m_store st) v with
            | Some t => Ok (fresh (mkT shape (t_elems t)))
            | None => Err EPanic
            end
          else Err EPanic
      end
  | OToContiguous =>
      if is_contiguous w (v_dims v) then Ok st
      else match denote_fast (m_store st) v with
           | Some t => Ok (fresh t)
           | None => Err EPanic
           end
  | OClipDim dm a b =>
      (* the harness copies the view's storage window into a Vec and calls
         from_data_with_strides (DisallowOverlap) to obtain an owned tensor *)
      let dims := v_dims v in
      if may_have_internal_overlap w (shape_of dims) (strides_of dims) then Err MayOverlap
      else if ndim dims <=? dm then Err EPanic
      else
        let d := nthN dims dm (0, 0) in
        if (b <? a) || (d_size d <? b) then Err EPanic
        else
          let dims' := set_size (N.to_nat dm) (b - a) dims in
          let start := if is_empty dims' then 0 else a * d_stride d in
          let len := if is_empty dims' then 0 else min_data_len dims' in
          Ok (mkM (sublist (v_off v + start) len (m_store st)) (mkV 0 dims'))
  | OAppend axis k cap =>
      (* Tensor::with_capacity(shape[axis := cap], axis) = uninit + clip_dim(axis, 0..0);
         append #1 grows the axis to k, append #2 to its full size *)
      let dims := v_dims v in
      if ndim dims <=? axis then Err EPanic
      else
        let n := d_size (nthN dims axis (0, 0)) in
        if n <? k then Err EPanic                        (* the harness' slice_axis(0..k) panics *)
        else
          let cap_shape := replace_at (N.to_nat axis) cap (shape_of dims) in
          let capacity := prodN cap_shape in
          let cdims := contiguous_dims cap_shape in
          let l1 := set_size (N.to_nat axis) k cdims in
          let l2 := set_size (N.to_nat axis) n cdims in
          if negb (has_capacity w capacity l1) then Err InsufficientCapacity
          else if negb (has_capacity w capacity l2) then Err InsufficientCapacity
          else match denote_fast (m_store st) v with
               | Some t => Ok (mkM (scatter (min_data_len l2) (off_list l2) (t_elems t)) (mkV 0 l2))
               | None => Err EPanic
               end
  | OAppendP mode perm axis k cap rep =>
      let dims := v_dims v in
      let shp := shape_of dims in
      if negb (is_perm (ndim dims) perm) then Err EPanic
      else if ndim dims <=? axis then Err EPanic
      else
        let n := nthN shp axis 0 in
        if n <? k then Err EPanic
        else
          let pos := index_of axis perm in
          let cap' := if (mode =? 0) && (pos =? 0) then N.max cap k else cap in
          let mem_shape := replace_at (N.to_nat pos) cap' (map (fun a => nthN shp a 0) perm) in
          let capacity := prodN mem_shape in
          let cd := contiguous_dims mem_shape in
          (* after the in-place permutation: axis a has the stride of memory position
             index_of a perm; sizes are the view's *)
          let l2 := map (fun a => mkdim (nthN shp a 0) (d_stride (nthN cd (index_of a perm) (0, 0))))
                        (range (ndim dims)) in
          let l1 := set_size (N.to_nat axis) k l2 in
          if negb (has_capacity w capacity l1) then Err InsufficientCapacity
          else if negb (has_capacity w capacity l2) then Err InsufficientCapacity
          else match denote_fast (m_store st) v with
               | Some t => Ok (mkM (scatter (min_data_len l2) (off_list l2) (t_elems t)) (mkV 0 l2))
               | None => Err EPanic
               end
  end.

(* ---------------------------------------------------------------- the reference side *)
(* what the naive array model says the operation yields on the logical tensor [t];
   [got] is the shape the implementation returned (only used for merge_axes, whose result
   shape the reference does not prescribe: any shape of the same size with the same element
   order) *)
Definition ref_apply (o : op) (t : tensor N) (got : list N) : option (tensor N) :=
  match o with
  | OSlice items => if zero_step items then None else ref_slice t items
  | OSliceAxis axis a b => ref_slice_axis t axis a b
  | OIndexAxis axis i => ref_index_axis t axis i
  | OPermute p => ref_permute t p
  | OTranspose => ref_transpose t
  | OMoveAxis f to => ref_move_axis t f to
  | OBroadcast target => ref_broadcast t target
  | OReshapeView shape => ref_reshape t shape
  | OSqueeze => ref_squeeze t
  | OInsertAxis i => ref_insert_axis t i
  | ORemoveAxis i => ref_remove_axis t i
  | OMergeAxes => ref_reshape t got
  | OSplit axis mid rt =>
      match ref_split t axis mid with
      | Some (l, r) => Some (if rt then r else l)
      | None => None
      end
  | OSliceCopy items => if zero_step items then None else ref_slice_numpy t items
  | OReshape shape => ref_reshape t shape
  | OToContiguous => Some t
  | OClipDim dm a b => ref_slice_axis t dm a b
  | OAppend axis k cap =>
      (* numpy.concatenate([t[.., :k, ..], t[.., k:, ..]], axis) *)
      match ref_slice_axis t axis 0 k, ref_slice_axis t axis k (nthN (t_shape t) axis 0) with
      | Some l, Some r => ref_concat l r axis
      | _, _ => None
      end
  | OAppendP _ perm axis k _ _ =>
      if is_perm (rank t) perm then
        match ref_slice_axis t axis 0 k, ref_slice_axis t axis k (nthN (t_shape t) axis 0) with
        | Some l, Some r => ref_concat l r axis
        | _, _ => None
        end
      else None
  end.

(* errors that a documented precondition of the *view-producing* API allows even though
   the reference operation is defined *)
Definition contract_error (o : op) (e : err) : bool :=
  match o, e with
  | OReshapeView _, NotContiguous => true     (* a view cannot reorder storage *)
  | OClipDim _ _ _, MayOverlap => true     (* harness could not build an owned tensor *)
  | OAppend _ _ _, InsufficientCapacity => true   (* documented: no re-allocation *)
  | OAppendP _ _ _ _ _ _, InsufficientCapacity => true
  | _, _ => false
  end.

(* ---------------------------------------------------------------- cases *)
(* an observation of a tensor: shape, strides, elements in iteration order, and the
   secondary observations that DIFFER from it (kind, shape, elements): kinds are listed in
   the harness (to_vec, to_contiguous, map, copy_from, copy_into_slice, static-rank paths) *)
Inductive outcome :=
| OOk (shape strides elems : list N) (alts : list (N * list N * list N))
| OErr (e : err).

Record chain_case := {
  c_len : N;                       (* storage = [0, 1, ..., len-1] *)
  c_off : N; c_shape : list N; c_strides : list N;     (* source view *)
  c_src : outcome;                 (* what the implementation shows for the source view *)
  c_steps : list (op * outcome)
}.

Definition obs_eqb (st : mstate) (o : outcome) : bool :=
  match o with
  | OOk shape strides elems _ =>
      list_eqb (shape_of (v_dims (m_view st))) shape
      && list_eqb (strides_of (v_dims (m_view st))) strides
      && match denote_fast (m_store st) (m_view st) with
         | Some t => list_eqb (t_elems t) elems
         | None => false
         end
  | OErr _ => false
  end.

Fixpoint agree_steps (st : mstate) (steps : list (op * outcome)) : bool :=
  match steps with
  | [] => true
  | (o, out) :: r =>
      match apply_op true o st, out with
      | Ok st', OOk _ _ _ _ => obs_eqb st' out && agree_steps st' r
      | Err e, OErr e' => err_eqb e e' && agree_steps st r
      | _, _ => false
      end
  end.

Definition init_state (c : chain_case) : mstate :=
  mkM (range (c_len c)) (mkV (c_off c) (combine (c_strides c) (c_shape c))).

(* model = implementation on every step of the chain *)
Definition agree_chain (c : chain_case) : bool :=
  obs_eqb (init_state c) (c_src c) && agree_steps (init_state c) (c_steps c).

Definition alts_ok (t : tensor N) (alts : list (N * list N * list N)) : bool :=
  forallb (fun a : N * list N * list N =>
             list_eqb (snd (fst a)) (t_shape t) && list_eqb (snd a) (t_elems t)) alts.

(* property oracle: every result of the IMPLEMENTATION equals the reference operation applied
   to the implementation's previous logical tensor; an error is reported only where the
   reference is undefined (or a documented view precondition fails) *)
Fixpoint prop_steps (prev : tensor N) (steps : list (op * outcome)) : bool :=
  match steps with
  | [] => true
  | (o, OOk shape _ elems alts) :: r =>
      match ref_apply o prev shape with
      | Some t => tensor_eqb t (mkT shape elems) && alts_ok t alts && prop_steps t r
      | None => false
      end
  | (o, OErr e) :: r =>
      (contract_error o e
       || match ref_apply o prev (t_shape prev) with None => true | Some _ => false end)
      && prop_steps prev r
  end.

Definition prop_ok_chain (c : chain_case) : bool :=
  match c_src c with
  | OOk shape _ elems alts =>
      (* the source itself: a strided view denotes the storage elements at its offsets *)
      match denote_fast (range (c_len c)) (mkV (c_off c) (combine (c_strides c) (c_shape c))) with
      | Some t => tensor_eqb t (mkT shape elems) && alts_ok t alts && prop_steps t (c_steps c)
      | None => false
      end
  | OErr _ => false
  end.

(* what the model computes, for replay files *)
Inductive shown := SOk (shape strides elems : list N) | SErr (e : err).
Definition show_state (st : mstate) : shown :=
  match denote_fast (m_store st) (m_view st) with
  | Some t => SOk (t_shape t) (strides_of (v_dims (m_view st))) (t_elems t)
  | None => SErr EPanic
  end.
Fixpoint show_steps (st : mstate) (prev : option (tensor N)) (steps : list (op * outcome))
  : list (shown * option (option (tensor N))) :=
  match steps with
  | [] => []
  | (o, out) :: r =>
      let refr := match prev, out with
                  | Some t, OOk shape _ _ _ => Some (ref_apply o t shape)
                  | Some t, OErr _ => Some (ref_apply o t (t_shape t))
                  | None, _ => None
                  end in
      let prev' := match out with OOk shape _ elems _ => Some (mkT shape elems) | OErr _ => prev end in
      match apply_op true o st with
      | Ok st' => (show_state st', refr) :: show_steps st' prev' r
      | Err e => (SErr e, refr) :: show_steps st prev' r
      end
  end.
(* per step: (model's result, reference result on the implementation's previous tensor) *)
Definition show_chain (c : chain_case) :=
  (show_state (init_state c),
   show_steps (init_state c)
              (match c_src c with OOk s _ e _ => Some (mkT s e) | OErr _ => None end) (c_steps c)).

(* ---------------------------------------------------------------- vocabulary of the theorems *)
(* the logical tensor a model state stands for *)
Definition mdenote (st : mstate) : option (tensor N) := denote (m_store st) (m_view st).
Definition result_shape (st : mstate) : list N := shape_of (v_dims (m_view st)).

(* states after each operation; stops at the first error *)
Fixpoint run_chain (w : bool) (ops : list op) (st : mstate) : res (list mstate) :=
  match ops with
  | [] => Ok []
  | o :: r =>
      match apply_op w o st with
      | Err e => Err e
      | Ok st1 => match run_chain w r st1 with
                  | Err e => Err e
                  | Ok l => Ok (st1 :: l)
                  end
      end
  end.

(* the same chain on the reference side; [shapes] are the result shapes, consulted only by
   merge_axes *)
Fixpoint ref_chain (ops : list op) (shapes : list (list N)) (t : tensor N) : option (tensor N) :=
  match ops, shapes with
  | [], _ => Some t
  | o :: r, sh :: shs => match ref_apply o t sh with
                         | Some t1 => ref_chain r shs t1
                         | None => None
                         end
  | _ :: _, [] => None
  end.

(* ---------------------------------------------------------------- SliceRange small scope *)
(* one (range, dimension size) pair and what the public API shows for it on arange(n) *)
Record sr_case := {
  q_n : N; q_start : Z; q_end : option Z; q_step : Z;
  q_clamp : Z * option Z;                 (* SliceRange::clamp *)
  q_resolve : option (N * N);             (* SliceRange::resolve *)
  q_steps : N;                            (* SliceRange::steps *)
  q_view : outcome;                       (* try_slice on arange(n) *)
  q_copy : outcome                        (* slice_copy on arange(n) *)
}.

Definition q_range (c : sr_case) : srange := mkSR (q_start c) (q_end c) (q_step c).
Definition q_state (c : sr_case) : mstate := mkM (range (q_n c)) (mkV 0 [mkdim (q_n c) 1]).
Definition q_item (c : sr_case) : item := Rng (q_start c) (q_end c) (q_step c).

Definition opt_eqb {A} (eq : A -> A -> bool) (a b : option A) : bool :=
  match a, b with Some x, Some y => eq x y | None, None => true | _, _ => false end.

Definition out_matches (r : res mstate) (o : outcome) : bool :=
  match r, o with
  | Ok st, OOk _ _ _ _ => obs_eqb st o
  | Err e, OErr e' => err_eqb e e'
  | _, _ => false
  end.

Definition agree_sr (c : sr_case) : bool :=
  let r := q_range c in
  let cl := sr_clamp r (q_n c) in
  (Z.eqb (sr_start cl) (fst (q_clamp c)) && opt_eqb Z.eqb (sr_end cl) (snd (q_clamp c)))
  && opt_eqb (fun a b : N * N => (fst a =? fst b) && (snd a =? snd b)) (sr_resolve r (q_n c)) (q_resolve c)
  && (sr_steps r (q_n c) =? q_steps c)
  && out_matches (apply_op true (OSlice [q_item c]) (q_state c)) (q_view c)
  && out_matches (apply_op true (OSliceCopy [q_item c]) (q_state c)) (q_copy c).

Definition out_is_ref (r : option (tensor N)) (o : outcome) : bool :=
  match r, o with
  | Some t, OOk shape _ elems alts => tensor_eqb t (mkT shape elems) && alts_ok t alts
  | None, OErr _ => true
  | _, _ => false
  end.

(* the implementation's answers against Python's slice semantics *)
Definition prop_ok_sr (c : sr_case) : bool :=
  let t := mkT [q_n c] (range (q_n c)) in
  let py := py_indices (q_n c) (q_start c) (q_end c) (q_step c) in
  out_is_ref (ref_slice t [q_item c]) (q_view c)
  && out_is_ref (ref_slice_numpy t [q_item c]) (q_copy c)
  && (q_steps c =? lenN py)
  (* clamp never changes the selection *)
  && list_eqb (py_indices (q_n c) (fst (q_clamp c)) (snd (q_clamp c)) (q_step c)) py
  (* resolve succeeds exactly on in-bounds ranges *)
  && Bool.eqb (match q_resolve c with Some _ => true | None => false end)
              (let nz := Z.of_N (q_n c) in
               let norm x := if (0 <? q_step c)%Z then neg_resolve nz x
                             else (if (x <? 0)%Z then x + nz else x)%Z in
               let s := norm (q_start c) in
               match q_end c with
               | Some e => if (0 <? q_step c)%Z
                           then ((0 <=? s) && (s <=? nz) && (0 <=? norm e) && (norm e <=? nz))%Z
                           else ((-1 <=? s) && (s <=? nz - 1) && (-1 <=? norm e) && (norm e <=? nz - 1))%Z
               | None => if (0 <? q_step c)%Z then ((0 <=? s) && (s <=? nz))%Z
                         else ((-1 <=? s) && (s <=? nz - 1))%Z
               end).

Definition show_sr (c : sr_case) :=
  (sr_clamp (q_range c) (q_n c), sr_resolve (q_range c) (q_n c), sr_steps (q_range c) (q_n c),
   py_indices (q_n c) (q_start c) (q_end c) (q_step c),
   match apply_op true (OSliceCopy [q_item c]) (q_state c) with
   | Ok st => show_state st | Err e => SErr e end).

(* ---------------------------------------------------------------- the case type of the check *)
(* one type for both kinds of case printed by the harness *)
Inductive case := CChain (c : chain_case) | CRange (q : sr_case).

Definition agree (c : case) : bool :=
  match c with CChain c => agree_chain c | CRange q => agree_sr q end.
Definition prop_ok (c : case) : bool :=
  match c with CChain c => prop_ok_chain c | CRange q => prop_ok_sr q end.

Inductive shown_case {X Y : Type} := ShChain (x : X) | ShRange (y : Y).
Definition show (c : case) :=
  match c with CChain c => ShChain (show_chain c) | CRange q => ShRange (show_sr q) end.
