(* C09 -- SliceRange::{clamp, resolve, index_range}, IndexRange::{new, steps} and the
   IndexRangeIter select exactly the indices of Python's slice semantics. *)
From RV Require Import Prelude.
From LayoutOps Require Import ArrayModel LayoutOps Array_proofs.
From Coq Require Import ZifyBool.
Open Scope Z_scope.

Lemma div_ceil_py d b : 0 <= d -> 0 < b ->
  div_ceil d b = if 0 <? d then (d - 1) / b + 1 else 0.
Proof.
  intros Hd Hb. unfold div_ceil. destruct (0 <? d) eqn:E.
  - replace (d + b - 1) with ((d - 1) + 1 * b) by lia. rewrite Z.div_add by lia. reflexivity.
  - assert (d = 0) by lia. subst d. apply Z.div_small. lia.
Qed.

(* ---- positive steps *)
Lemma clamp_adjust_pos x n step : 0 <= n -> 0 < step ->
  offset_from_start (clampZ x (- n) n) (Z.to_N n) = py_adjust n step x.
Proof.
  intros Hn Hs. unfold offset_from_start, clampZ, py_adjust. rewrite Z2N.id by lia.
  destruct (x <? - n) eqn:E1; destruct (x <? 0) eqn:E2; destruct (n <? x) eqn:E3;
    destruct (n <=? x) eqn:E4; destruct (step <? 0) eqn:E5; try lia;
    repeat match goal with |- context [if ?c then _ else _] => destruct c eqn:? end; lia.
Qed.

(* ---- negative steps *)
Lemma clamp_adjust_neg x n step : 0 <= n -> step < 0 ->
  offset_from_end (clampZ x (- n - 1) (n - 1)) (Z.to_N n) = n - 1 - py_adjust n step x.
Proof.
  intros Hn Hs. unfold offset_from_end, clampZ, py_adjust. rewrite Z2N.id by lia.
  destruct (x <? - n - 1) eqn:E1; destruct (x <? 0) eqn:E2; destruct (n - 1 <? x) eqn:E3;
    destruct (n <=? x) eqn:E4; destruct (step <? 0) eqn:E5; try lia;
    repeat match goal with |- context [if ?c then _ else _] => destruct c eqn:? end; lia.
Qed.

Lemma py_adjust_range_pos n step x : 0 <= n -> 0 < step -> 0 <= py_adjust n step x <= n.
Proof.
  intros. unfold py_adjust.
  repeat match goal with |- context [if ?c then _ else _] => destruct c eqn:? end; lia.
Qed.

Lemma py_adjust_range_neg n step x : 0 <= n -> step < 0 -> -1 <= py_adjust n step x <= n - 1.
Proof.
  intros. unfold py_adjust.
  repeat match goal with |- context [if ?c then _ else _] => destruct c eqn:? end; lia.
Qed.

(* normalised bounds of a range, as Python computes them *)
Definition py_start (n : N) (r : srange) : Z := py_adjust (Z.of_N n) (sr_step r) (sr_start r).
Definition py_stop (n : N) (r : srange) : Z :=
  match sr_end r with
  | Some e => py_adjust (Z.of_N n) (sr_step r) e
  | None => if sr_step r <? 0 then -1 else Z.of_N n
  end.

Lemma py_indices_eq n r :
  py_indices n (sr_start r) (sr_end r) (sr_step r)
  = map (fun k => Z.to_N (py_start n r + Z.of_N k * sr_step r))
        (range (Z.to_N (py_len (py_start n r) (py_stop n r) (sr_step r)))).
Proof. reflexivity. Qed.

(* resolve after clamp, positive step *)
Lemma resolve_clamp_pos r n : 0 < sr_step r ->
  sr_resolve (sr_clamp r n) n
  = Some (Z.to_N (py_start n r), Z.to_N (Z.max (py_stop n r) (py_start n r))).
Proof.
  intros Hs. unfold sr_resolve, sr_clamp, py_start, py_stop.
  assert (Hs' : (0 <? sr_step r) = true) by lia. rewrite Hs'. cbn [sr_step sr_start sr_end].
  rewrite Hs'.
  assert (Hn : 0 <= Z.of_N n) by lia.
  pose proof (clamp_adjust_pos (sr_start r) (Z.of_N n) (sr_step r) Hn Hs) as E1.
  rewrite N2Z.id in E1. rewrite E1.
  pose proof (py_adjust_range_pos (Z.of_N n) (sr_step r) (sr_start r) Hn Hs) as R1.
  destruct (sr_end r) as [e|]; cbn [option_map].
  - pose proof (clamp_adjust_pos e (Z.of_N n) (sr_step r) Hn Hs) as E2.
    rewrite N2Z.id in E2. rewrite E2.
    pose proof (py_adjust_range_pos (Z.of_N n) (sr_step r) e Hn Hs) as R2.
    replace ((0 <=? _) && _ && _ && _) with true by lia. reflexivity.
  - assert (E : (sr_step r <? 0) = false) by lia. rewrite E.
    replace ((0 <=? _) && _ && _ && _) with true by lia. reflexivity.
Qed.

(* resolve after clamp, negative step: positions counted from the end *)
Lemma resolve_clamp_neg r n : sr_step r < 0 ->
  sr_resolve (sr_clamp r n) n
  = Some (Z.to_N (Z.of_N n - 1 - py_start n r),
          Z.to_N (Z.max (Z.of_N n - 1 - py_stop n r) (Z.of_N n - 1 - py_start n r))).
Proof.
  intros Hs. unfold sr_resolve, sr_clamp, py_start, py_stop.
  assert (Hs' : (0 <? sr_step r) = false) by lia. rewrite Hs'. cbn [sr_step sr_start sr_end].
  rewrite Hs'.
  assert (Hn : 0 <= Z.of_N n) by lia.
  pose proof (clamp_adjust_neg (sr_start r) (Z.of_N n) (sr_step r) Hn Hs) as E1.
  rewrite N2Z.id in E1. rewrite E1.
  pose proof (py_adjust_range_neg (Z.of_N n) (sr_step r) (sr_start r) Hn Hs) as R1.
  destruct (sr_end r) as [e|]; cbn [option_map].
  - pose proof (clamp_adjust_neg e (Z.of_N n) (sr_step r) Hn Hs) as E2.
    rewrite N2Z.id in E2. rewrite E2.
    pose proof (py_adjust_range_neg (Z.of_N n) (sr_step r) e Hn Hs) as R2.
    replace ((0 <=? _) && _ && _ && _) with true by lia. reflexivity.
  - assert (E : (sr_step r <? 0) = true) by lia. rewrite E.
    replace ((0 <=? _) && _ && _ && _) with true by lia.
    f_equal. f_equal. f_equal. lia.
Qed.

(* resolve_clamped never fails *)
Theorem clamp_resolves r n : sr_step r <> 0 -> sr_resolve (sr_clamp r n) n <> None.
Proof.
  intros H. destruct (Z_lt_le_dec 0 (sr_step r)).
  - now rewrite resolve_clamp_pos.
  - rewrite resolve_clamp_neg by lia. discriminate.
Qed.

(* ---- index_range and its iterator against Python *)
Lemma ir_new_zero_step a b : ir_new a b 0 = Err EPanic.
Proof. reflexivity. Qed.

Lemma index_range_zero_step r n g : sr_step r = 0 -> sr_index_range r n <> Ok g.
Proof.
  intros Hz. unfold sr_index_range. rewrite Hz.
  destruct (sr_resolve (sr_clamp r n) n) as [[rs re]|]; [|discriminate].
  cbn [Z.ltb Z.compare]. destruct (Z.of_N n - 1 - Z.of_N rs <? 0); rewrite ir_new_zero_step; discriminate.
Qed.

Theorem index_range_sound r n g :
  sr_index_range r n = Ok g ->
  ir_iter g = py_indices n (sr_start r) (sr_end r) (sr_step r)
  /\ ir_steps g = Z.to_N (py_len (py_start n r) (py_stop n r) (sr_step r)).
Proof.
  intros Hg.
  assert (Hs : sr_step r <> 0) by (intros Hz; exact (index_range_zero_step r n g Hz Hg)).
  unfold sr_index_range in Hg.
  assert (Hn0 : 0 <= Z.of_N n) by lia.
  destruct (Z_lt_le_dec 0 (sr_step r)) as [Hp|Hp].
  - (* positive step *)
    rewrite resolve_clamp_pos in Hg by exact Hp.
    assert (E : (0 <? sr_step r) = true) by lia. rewrite E in Hg.
    pose proof (py_adjust_range_pos (Z.of_N n) (sr_step r) (sr_start r) Hn0 Hp) as R1.
    fold (py_start n r) in R1.
    assert (R2 : 0 <= py_stop n r <= Z.of_N n).
    { unfold py_stop. destruct (sr_end r).
      - apply py_adjust_range_pos; lia.
      - replace (sr_step r <? 0) with false by lia. lia. }
    unfold ir_new in Hg. replace (sr_step r =? 0) with false in Hg by lia.
    rewrite !Z2N.id in Hg by lia.
    destruct ((py_start n r <? 0) || (isize_max <? py_start n r)); [discriminate|].
    injection Hg as <-.
    assert (Hsteps : ir_steps {| ir_start := Z.to_N (py_start n r);
                                 ir_end := Z.max (Z.max (py_stop n r) (py_start n r)) (-1);
                                 ir_step := sr_step r |}
                     = Z.to_N (py_len (py_start n r) (py_stop n r) (sr_step r))).
    { unfold ir_steps. cbn [ir_start ir_end ir_step]. rewrite E, Z2N.id by lia.
      rewrite Z.abs_eq by lia. rewrite div_ceil_py by lia.
      unfold py_len. replace (sr_step r <? 0) with false by lia.
      destruct (py_start n r <? py_stop n r) eqn:E2.
      - replace (0 <? _) with true by lia. f_equal. f_equal. f_equal. lia.
      - replace (0 <? _) with false by lia. reflexivity. }
    split; [|exact Hsteps].
    rewrite py_indices_eq. unfold ir_iter. rewrite Hsteps. cbn [ir_start ir_step].
    rewrite Z2N.id by lia. reflexivity.
  - (* negative step *)
    assert (Hneg : sr_step r < 0) by lia.
    rewrite resolve_clamp_neg in Hg by exact Hneg.
    assert (E : (0 <? sr_step r) = false) by lia. rewrite E in Hg.
    pose proof (py_adjust_range_neg (Z.of_N n) (sr_step r) (sr_start r) Hn0 Hneg) as R1.
    fold (py_start n r) in R1.
    assert (R2 : -1 <= py_stop n r <= Z.of_N n - 1).
    { unfold py_stop. destruct (sr_end r).
      - apply py_adjust_range_neg; lia.
      - replace (sr_step r <? 0) with true by lia. lia. }
    rewrite !Z2N.id in Hg by lia.
    replace (Z.of_N n - 1 - (Z.of_N n - 1 - py_start n r)) with (py_start n r) in Hg by lia.
    unfold py_len. replace (sr_step r <? 0) with true by lia.
    destruct (py_start n r <? 0) eqn:E0.
    + (* the range starts before the first element: empty *)
      unfold ir_new in Hg. replace (sr_step r =? 0) with false in Hg by lia.
      replace ((0 <? 0) || (isize_max <? 0)) with false in Hg by reflexivity.
      injection Hg as <-.
      assert (Hsteps : ir_steps {| ir_start := 0%N; ir_end := Z.max 0 (-1); ir_step := sr_step r |} = 0%N).
      { unfold ir_steps. cbn [ir_start ir_end ir_step]. rewrite E.
        change (Z.abs (Z.min (Z.max 0 (-1) - Z.of_N 0%N) 0)) with 0.
        rewrite div_ceil_py by lia. reflexivity. }
      replace (py_stop n r <? py_start n r) with false by lia.
      split; [|exact Hsteps].
      rewrite py_indices_eq. unfold ir_iter. rewrite Hsteps. unfold py_len.
      replace (sr_step r <? 0) with true by lia.
      replace (py_stop n r <? py_start n r) with false by lia. reflexivity.
    + unfold ir_new in Hg. replace (sr_step r =? 0) with false in Hg by lia.
      destruct ((py_start n r <? 0) || (isize_max <? py_start n r)); [discriminate|].
      injection Hg as <-.
      assert (Hsteps : ir_steps {| ir_start := Z.to_N (py_start n r);
                                   ir_end := Z.max (Z.of_N n - 1 - Z.max (Z.of_N n - 1 - py_stop n r)
                                                                         (Z.of_N n - 1 - py_start n r)) (-1);
                                   ir_step := sr_step r |}
                       = Z.to_N (if py_stop n r <? py_start n r
                                 then (py_start n r - py_stop n r - 1) / - sr_step r + 1 else 0)).
      { unfold ir_steps. cbn [ir_start ir_end ir_step]. rewrite E, Z2N.id by lia.
        rewrite (Z.abs_neq (sr_step r)) by lia. rewrite Z.abs_neq by lia.
        rewrite div_ceil_py by lia.
        destruct (py_stop n r <? py_start n r) eqn:E2.
        - replace (0 <? _) with true by lia. f_equal. f_equal. f_equal. lia.
        - replace (0 <? _) with false by lia. reflexivity. }
      split; [|exact Hsteps].
      rewrite py_indices_eq. unfold ir_iter. rewrite Hsteps. cbn [ir_start ir_step].
      rewrite Z2N.id by lia. unfold py_len. replace (sr_step r <? 0) with true by lia. reflexivity.
Qed.

Corollary index_range_python_slice r n g :
  sr_index_range r n = Ok g ->
  ir_iter g = py_indices n (sr_start r) (sr_end r) (sr_step r)
  /\ ir_steps g = lenN (py_indices n (sr_start r) (sr_end r) (sr_step r)).
Proof.
  intros H. destruct (index_range_sound r n g H) as [H1 H2]. split; [exact H1|].
  rewrite H2, py_indices_eq. unfold lenN. rewrite map_length, range_length. now rewrite N2Nat.id.
Qed.

(* no panic for a non-zero step on a dimension that fits isize *)
Theorem index_range_ok r n :
  sr_step r <> 0 -> Z.of_N n <= isize_max -> exists g, sr_index_range r n = Ok g.
Proof.
  intros Hs Hn. unfold sr_index_range.
  assert (Hn0 : 0 <= Z.of_N n) by lia.
  destruct (Z_lt_le_dec 0 (sr_step r)) as [Hp|Hp].
  - rewrite resolve_clamp_pos by exact Hp. replace (0 <? sr_step r) with true by lia.
    pose proof (py_adjust_range_pos (Z.of_N n) (sr_step r) (sr_start r) Hn0 Hp) as R1.
    fold (py_start n r) in R1.
    unfold ir_new. replace (sr_step r =? 0) with false by lia. rewrite !Z2N.id by lia.
    replace ((py_start n r <? 0) || (isize_max <? py_start n r)) with false by lia. eauto.
  - assert (Hneg : sr_step r < 0) by lia.
    rewrite resolve_clamp_neg by exact Hneg. replace (0 <? sr_step r) with false by lia.
    pose proof (py_adjust_range_neg (Z.of_N n) (sr_step r) (sr_start r) Hn0 Hneg) as R1.
    fold (py_start n r) in R1.
    rewrite !Z2N.id by lia.
    replace (Z.of_N n - 1 - (Z.of_N n - 1 - py_start n r)) with (py_start n r) by lia.
    unfold ir_new. replace (sr_step r =? 0) with false by lia.
    destruct (py_start n r <? 0) eqn:E0.
    + replace ((0 <? 0) || (isize_max <? 0)) with false by reflexivity. eauto.
    + cbn [orb]. replace (isize_max <? py_start n r) with false by lia. eauto.
Qed.

(* every index selected by Python's slice is a valid index of the axis *)
Lemma py_indices_in_range n s e st x : st <> 0 -> In x (py_indices n s e st) -> (x < n)%N.
Proof.
  intros Hst Hin. unfold py_indices in Hin. apply in_map_iff in Hin as (k & <- & Hk).
  apply In_range in Hk. set (r := mkSR s e st).
  change (py_adjust (Z.of_N n) st s) with (py_start n r) in *.
  change (match e with Some e0 => py_adjust (Z.of_N n) st e0 | None => if st <? 0 then -1 else Z.of_N n end)
    with (py_stop n r) in *.
  assert (Hn0 : 0 <= Z.of_N n) by lia.
  destruct (Z_lt_le_dec 0 st) as [Hp|Hp].
  - pose proof (py_adjust_range_pos (Z.of_N n) st s Hn0 Hp) as R1. change (py_adjust (Z.of_N n) st s) with (py_start n r) in R1.
    assert (R2 : 0 <= py_stop n r <= Z.of_N n).
    { unfold py_stop, r. cbn [sr_end sr_step]. destruct e.
      - apply py_adjust_range_pos; lia.
      - replace (st <? 0) with false by lia. lia. }
    unfold py_len in Hk. replace (st <? 0) with false in Hk by lia.
    destruct (py_start n r <? py_stop n r) eqn:E; [|cbn in Hk; lia].
    assert (Hk' : Z.of_N k <= (py_stop n r - py_start n r - 1) / st) by lia.
    assert (Z.of_N k * st <= py_stop n r - py_start n r - 1).
    { pose proof (Z.mul_div_le (py_stop n r - py_start n r - 1) st Hp). nia. }
    lia.
  - assert (Hneg : st < 0) by lia.
    pose proof (py_adjust_range_neg (Z.of_N n) st s Hn0 Hneg) as R1. change (py_adjust (Z.of_N n) st s) with (py_start n r) in R1.
    assert (R2 : -1 <= py_stop n r <= Z.of_N n - 1).
    { unfold py_stop, r. cbn [sr_end sr_step]. destruct e.
      - apply py_adjust_range_neg; lia.
      - replace (st <? 0) with true by lia. lia. }
    unfold py_len in Hk. replace (st <? 0) with true in Hk by lia.
    destruct (py_stop n r <? py_start n r) eqn:E; [|cbn in Hk; lia].
    assert (Hk' : Z.of_N k <= (py_start n r - py_stop n r - 1) / - st) by lia.
    assert (Z.of_N k * - st <= py_start n r - py_stop n r - 1).
    { assert (Hp' : 0 < - st) by lia.
      pose proof (Z.mul_div_le (py_start n r - py_stop n r - 1) (- st) Hp'). nia. }
    lia.
Qed.

(* ---- the strict (view) case: an in-bounds range with positive step *)
(* resolve succeeds exactly on in-bounds ranges, and then clamp is the identity on it *)
Lemma resolve_pos_spec r n : 0 < sr_step r ->
  sr_resolve r n =
  let nz := Z.of_N n in
  let s' := neg_resolve nz (sr_start r) in
  let e' := match sr_end r with Some e => neg_resolve nz e | None => nz end in
  if (0 <=? s') && (s' <=? nz) && (0 <=? e') && (e' <=? nz)
  then Some (Z.to_N s', Z.to_N (Z.max e' s')) else None.
Proof.
  intros Hs. unfold sr_resolve. replace (0 <? sr_step r) with true by lia.
  unfold offset_from_start, neg_resolve. cbv zeta.
  assert (forall x, (if 0 <=? x then x else Z.of_N n + x) = (if x <? 0 then x + Z.of_N n else x)).
  { intros x. destruct (0 <=? x) eqn:?, (x <? 0) eqn:?; lia. }
  rewrite H. destruct (sr_end r); [rewrite H|]; reflexivity.
Qed.

Lemma py_adjust_in_bounds n step x : 0 < step ->
  0 <= neg_resolve n x <= n -> py_adjust n step x = neg_resolve n x.
Proof.
  intros Hs. unfold py_adjust, neg_resolve.
  repeat match goal with |- context [if ?c then _ else _] => destruct c eqn:? end; lia.
Qed.

(* What slice_layout computes for an in-bounds range with positive step: first index
   [rs], [cnt] elements [rs + k*step] *)
Lemma strict_range_spec r n rs re cnt :
  0 < sr_step r -> sr_resolve r n = Some (rs, re) ->
  (if Z.to_N (sr_step r) =? 1 then Ok (re - rs)
   else match sr_index_range r n with Ok g => Ok (ir_steps g) | Err e => Err e end)%N = Ok cnt ->
  sel_strict n (Rng (sr_start r) (sr_end r) (sr_step r))
  = Some (map (fun k => (rs + k * Z.to_N (sr_step r))%N) (range cnt), true)
  /\ (forall k, (k < cnt)%N -> (rs + k * Z.to_N (sr_step r) < n)%N).
Proof.
  intros Hs Hr Hc. rewrite resolve_pos_spec in Hr by exact Hs. cbv zeta in Hr.
  unfold sel_strict. cbv zeta.
  set (nz := Z.of_N n) in *.
  set (s' := neg_resolve nz (sr_start r)) in *.
  set (e' := match sr_end r with Some e => neg_resolve nz e | None => nz end) in *.
  destruct ((0 <=? s') && (s' <=? nz) && (0 <=? e') && (e' <=? nz)) eqn:Hb; [|discriminate].
  injection Hr as <- <-.
  replace ((0 <? sr_step r) && (0 <=? s') && (s' <=? nz) && (0 <=? e') && (e' <=? nz)) with true by lia.
  assert (Hs1 : py_start n r = s').
  { unfold py_start. apply py_adjust_in_bounds; [exact Hs|]. fold nz. fold s'. lia. }
  assert (He1 : py_stop n r = e').
  { unfold py_stop, e'. destruct (sr_end r) as [e|].
    - apply py_adjust_in_bounds; [exact Hs|]. fold nz. unfold e' in Hb. lia.
    - replace (sr_step r <? 0) with false by lia. reflexivity. }
  assert (Hcnt : cnt = Z.to_N (py_len s' e' (sr_step r))).
  { destruct (Z.to_N (sr_step r) =? 1)%N eqn:E1.
    - injection Hc as <-. assert (H1 : sr_step r = 1) by lia. unfold py_len. rewrite H1.
      replace (1 <? 0) with false by reflexivity.
      destruct (s' <? e') eqn:E2; rewrite ?Z.div_1_r; lia.
    - destruct (sr_index_range r n) as [g|] eqn:Eg; [|discriminate]. injection Hc as <-.
      destruct (index_range_sound r n g Eg) as [_ Hg]. rewrite Hg, Hs1, He1. reflexivity. }
  assert (Hpy : py_indices n (sr_start r) (sr_end r) (sr_step r)
                = map (fun k => (Z.to_N s' + k * Z.to_N (sr_step r))%N) (range cnt)).
  { rewrite py_indices_eq, Hs1, He1, <- Hcnt. apply map_ext. intros k. lia. }
  split; [now rewrite Hpy|].
  intros k Hk.
  assert (Hin : In (Z.to_N s' + k * Z.to_N (sr_step r))%N (py_indices n (sr_start r) (sr_end r) (sr_step r))).
  { rewrite Hpy. apply in_map_iff. exists k. split; [reflexivity|]. now apply In_range. }
  eapply py_indices_in_range; [|exact Hin]. lia.
Qed.

(* resolve fails exactly when the reference (strict) selection is undefined *)
Lemma strict_range_undefined r n :
  0 < sr_step r -> sr_resolve r n = None ->
  sel_strict n (Rng (sr_start r) (sr_end r) (sr_step r)) = None.
Proof.
  intros Hs Hr. rewrite resolve_pos_spec in Hr by exact Hs. cbv zeta in Hr.
  unfold sel_strict. cbv zeta.
  destruct ((0 <=? _) && _ && _ && _) eqn:Hb in Hr; [discriminate|].
  rewrite <- !andb_assoc. replace (0 <? sr_step r) with true by lia. cbn [andb].
  rewrite !andb_assoc. now rewrite Hb.
Qed.

Lemma strict_nonpos_step n s e st : st <= 0 -> sel_strict n (Rng s e st) = None.
Proof. intros H. unfold sel_strict. replace (0 <? st) with false by lia. reflexivity. Qed.
