(* C09 -- whenever the model of an operation succeeds, the reference operation is defined
   (and, by the *_denotes theorems, equal): "Ok => reference defined". *)
From RV Require Import Prelude.
From Tensor Require Import Overlap.
From LayoutOps Require Import ArrayModel LayoutOps Array_proofs Denote_proofs SliceRange_proofs
  Gather_proofs Perm_proofs Bcast_proofs Reshape_proofs.
Open Scope N_scope.

Lemma gather_some {A} (s : list A) v t ss off out :
  denote s v = Some t -> gather_rel (v_dims v) ss off out -> exists t', ref_gather t ss = Some t'.
Proof.
  intros Ht Hg. eapply gather_defined; [exact (denote_wf _ _ _ Ht)|exact (denote_shape _ _ _ Ht)|exact Hg].
Qed.

Lemma slice_defined {A} (s : list A) v items v' t :
  denote s v = Some t -> slice false v items = Ok v' -> exists t', ref_slice t items = Some t'.
Proof.
  intros Ht H. unfold slice in H.
  destruct (ndim (v_dims v) <? lenN items) eqn:El; [discriminate|].
  unfold slice_layout in H.
  destruct (slice_loop false (v_dims v) items) as [[off out]|e] eqn:E; [|discriminate].
  apply N.ltb_ge in El. unfold ndim, lenN in El.
  assert (Hlen : (length items <= length (v_dims v))%nat) by lia.
  destruct (slice_loop_rel _ _ _ _ Hlen E) as (ss & Hss & Hg).
  unfold ref_slice, ref_slice_with. rewrite (denote_shape _ _ _ Ht), Hss.
  exact (gather_some s v t ss off out Ht Hg).
Qed.

Lemma slice_axis_defined {A} (s : list A) v axis a b v' t :
  denote s v = Some t -> slice_axis v axis a b = Ok v' -> exists t', ref_slice_axis t axis a b = Some t'.
Proof.
  intros Ht H. unfold slice_axis in H.
  destruct (ndim (v_dims v) <=? axis) eqn:Ea; [discriminate|]. apply N.leb_gt in Ea.
  set (d := nthN (v_dims v) axis (0, 0)) in *.
  destruct ((b <? a) || (d_size d <? b)) eqn:Eb; [discriminate|].
  apply orb_false_elim in Eb as [Eb1 Eb2]. apply N.ltb_ge in Eb1, Eb2.
  unfold ref_slice_axis. rewrite (denote_shape _ _ _ Ht), nthN_shape_of. fold d.
  replace ((a <=? b) && (b <=? d_size d)) with true
    by (symmetry; apply andb_true_intro; split; apply N.leb_le; assumption).
  assert (Hn : nth_error (v_dims v) (N.to_nat axis) = Some d) by (now apply nthN_nth_error).
  destruct (axis_rel (v_dims v) (N.to_nat axis) d (map (N.add a) (range (b - a)), true)
                     (a * d_stride d) (Some (mkdim (b - a) (d_stride d))) Hn) as (ss & Hss & Hg).
  { apply dim_sel_span. lia. }
  rewrite Hss. exact (gather_some s v t ss _ _ Ht Hg).
Qed.

Lemma index_axis_defined {A} (s : list A) v axis i v' t :
  denote s v = Some t -> index_axis v axis i = Ok v' -> exists t', ref_index_axis t axis i = Some t'.
Proof.
  intros Ht H. unfold index_axis in H.
  destruct (ndim (v_dims v) <=? axis) eqn:Ea; [discriminate|]. apply N.leb_gt in Ea.
  set (d := nthN (v_dims v) axis (0, 0)) in *.
  destruct (d_size d <=? i) eqn:Ei; [discriminate|]. apply N.leb_gt in Ei.
  unfold ref_index_axis. rewrite (denote_shape _ _ _ Ht), nthN_shape_of. fold d.
  apply N.ltb_lt in Ei as Ei'. rewrite Ei'.
  assert (Hn : nth_error (v_dims v) (N.to_nat axis) = Some d) by (now apply nthN_nth_error).
  destruct (axis_rel (v_dims v) (N.to_nat axis) d ([i], false) (i * d_stride d) None Hn) as (ss & Hss & Hg).
  { now constructor. }
  rewrite Hss. exact (gather_some s v t ss _ _ Ht Hg).
Qed.

Lemma permuted_defined {A} (s : list A) v p v' t :
  denote s v = Some t -> permuted v p = Ok v' -> exists t', ref_permute t p = Some t'.
Proof.
  intros Ht H. unfold permuted in H.
  destruct (is_perm (ndim (v_dims v)) p) eqn:Hp; [|discriminate].
  unfold ref_permute. rewrite (denote_rank _ _ _ Ht), Hp, (denote_shape _ _ _ Ht).
  rewrite <- (shape_of_perm (v_dims v) p).
  destruct (reindex_defined t (shape_of (map (fun k => nthN (v_dims v) k (0, 0)) p))
              (fun idx => Some (perm_src (ndim (v_dims v)) p idx)) (denote_wf _ _ _ Ht)) as [t' Ht'].
  - intros idx Hv. eexists. split; [reflexivity|]. rewrite (denote_shape _ _ _ Ht).
    now apply perm_valid.
  - exists t'. exact Ht'.
Qed.

Lemma broadcast_defined {A} (s : list A) v target v' t :
  denote s v = Some t -> broadcast v target = Ok v' -> exists t', ref_broadcast t target = Some t'.
Proof.
  intros Ht H. unfold broadcast in H.
  destruct (can_broadcast_to (v_dims v) target) eqn:Hc; [|discriminate].
  unfold can_broadcast_to in Hc.
  destruct (lenN target <? ndim (v_dims v)) eqn:El; [discriminate|]. apply N.ltb_ge in El.
  unfold ref_broadcast. rewrite (denote_rank _ _ _ Ht), (denote_shape _ _ _ Ht), shape_of_length.
  apply N.leb_le in El as El'. rewrite El', Hc.
  set (pad := (length target - length (v_dims v))%nat) in *.
  destruct (reindex_defined t target
              (fun idx => Some (bcast_src (shape_of (v_dims v)) (skipn pad idx))) (denote_wf _ _ _ Ht)) as [t' Ht'].
  - intros idx Hv. eexists. split; [reflexivity|]. rewrite (denote_shape _ _ _ Ht).
    assert (Hli : length idx = length target) by (now apply valid_b_length).
    assert (Hpad : length (firstn pad target) = pad).
    { apply firstn_length_le. unfold pad. unfold ndim, lenN in El. lia. }
    rewrite <- (firstn_skipn pad idx) in Hv. rewrite <- (firstn_skipn pad target) in Hv.
    rewrite valid_b_app in Hv
      by (rewrite Hpad; apply firstn_length_le; unfold pad; unfold ndim, lenN in El; lia).
    apply andb_prop in Hv as [_ Hv2].
    exact (proj1 (bcast_core (v_dims v) (skipn pad target) (skipn pad idx) Hc Hv2)).
  - exists t'. exact Ht'.
Qed.

(* a view over the same offsets denotes a tensor as soon as the source does *)
Lemma same_offsets_some {A} (s : list A) v v' t :
  denote s v = Some t -> view_offsets v' = view_offsets v -> exists t', denote s v' = Some t'.
Proof.
  intros Ht Ho. pose proof (denote_fast_elems _ _ _ Ht) as He.
  rewrite denote_eq_fast. unfold denote_fast. rewrite Ho, He. cbn [option_map]. eauto.
Qed.
