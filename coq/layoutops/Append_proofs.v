(* C09 -- append: filling an empty owned tensor (with_capacity) by appending the two halves
   of a view along an axis reproduces the view's tensor = numpy.concatenate of the halves. *)
From RV Require Import Prelude.
From Tensor Require Import Overlap Overlap_proofs.
From LayoutOps Require Import ArrayModel LayoutOps ModelC09 Array_proofs Denote_proofs
  SliceRange_proofs Gather_proofs Perm_proofs Clip_proofs.
Open Scope N_scope.

(* ---------------------------------------------------------------- NoDup helpers *)
Lemma NoDup_app_intro {B} (l1 l2 : list B) :
  NoDup l1 -> NoDup l2 -> (forall x, In x l1 -> ~ In x l2) -> NoDup (l1 ++ l2).
Proof.
  induction l1 as [|a r IH]; intros H1 H2 Hd; [exact H2|].
  inversion H1 as [|? ? Ha Hr]; subst. cbn [app]. constructor.
  - rewrite in_app_iff. intros [H|H]; [contradiction|]. apply (Hd a); [now left|exact H].
  - apply IH; [exact Hr|exact H2|]. intros x Hx. apply Hd. now right.
Qed.

Lemma NoDup_flat_map {B C} (f : B -> list C) l :
  NoDup l -> (forall x, In x l -> NoDup (f x)) ->
  (forall x y z, In x l -> In y l -> In z (f x) -> In z (f y) -> x = y) ->
  NoDup (flat_map f l).
Proof.
  induction l as [|a r IH]; intros Hl Hf Hd; [constructor|].
  inversion Hl as [|? ? Ha Hr]; subst. cbn [flat_map]. apply NoDup_app_intro.
  - apply Hf. now left.
  - apply IH; [exact Hr|intros x Hx; apply Hf; now right|].
    intros x y z Hx Hy. apply Hd; now right.
  - intros z Hz Hin. apply in_flat_map in Hin as (y & Hy & Hzy).
    assert (a = y) by (apply (Hd a y z); [now left|now right|exact Hz|exact Hzy]).
    subst y. contradiction.
Qed.

Lemma NoDup_map_in {B C} (f : B -> C) l :
  NoDup l -> (forall x y, In x l -> In y l -> f x = f y -> x = y) -> NoDup (map f l).
Proof.
  induction l as [|a r IH]; intros Hl Hinj; [constructor|].
  inversion Hl as [|? ? Ha Hr]; subst. cbn [map]. constructor.
  - intros Hin. apply in_map_iff in Hin as (y & Hy & Hyr).
    assert (y = a) by (apply Hinj; [now right|now left|exact Hy]). subst y. contradiction.
  - apply IH; [exact Hr|]. intros x y Hx Hy. apply Hinj; now right.
Qed.

Lemma NoDup_indices shape : NoDup (indices shape).
Proof.
  induction shape as [|n r IH]; [repeat constructor; intros []|].
  cbn [indices]. apply NoDup_flat_map.
  - apply NoDup_range.
  - intros i _. apply NoDup_map_in; [exact IH|]. intros x y _ _ H. now injection H.
  - intros x y z _ _ Hx Hy.
    apply in_map_iff in Hx as (a & <- & _). apply in_map_iff in Hy as (b & Hb & _).
    now injection Hb.
Qed.

(* ---------------------------------------------------------------- glue with Tensor.Overlap *)
Lemma valid_iff (dims : list dim) idx : valid dims idx <-> valid_b (shape_of dims) idx = true.
Proof.
  revert idx. induction dims as [|d r IH]; intros idx.
  - split.
    + intros H. apply valid_nil_inv in H. now subst.
    + destruct idx; [constructor|discriminate].
  - split.
    + intros H. apply valid_cons_inv in H as (i0 & ir & -> & Hi & Hr).
      rewrite shape_of_cons. cbn [valid_b]. apply N.ltb_lt in Hi. rewrite Hi. now apply IH.
    + destruct idx as [|i ir]; [discriminate|]. rewrite shape_of_cons. cbn [valid_b].
      intros H. apply andb_prop in H as [Hi Hr]. apply N.ltb_lt in Hi.
      apply valid_cons; [exact Hi|now apply IH].
Qed.

Lemma offset_dot (dims : list dim) idx : offset dims idx = dotN idx (strides_of dims).
Proof.
  revert idx. induction dims as [|d r IH]; intros [|i ir]; try reflexivity.
  rewrite strides_of_cons. cbn [offset dotN]. now rewrite IH.
Qed.

Lemma combine_strides_shape (dims : list dim) : combine (strides_of dims) (shape_of dims) = dims.
Proof.
  induction dims as [|[st sz] r IH]; [reflexivity|].
  rewrite strides_of_cons, shape_of_cons. cbn [combine d_stride d_size fst snd]. now rewrite IH.
Qed.

Lemma no_overlap_NoDup (dims : list dim) :
  may_have_internal_overlap false (shape_of dims) (strides_of dims) = false -> NoDup (off_list dims).
Proof.
  unfold may_have_internal_overlap. rewrite combine_strides_shape. intros H.
  apply may_overlap_sound in H. rewrite off_list_dot. apply NoDup_map_in; [apply NoDup_indices|].
  intros x y Hx Hy E. apply In_indices in Hx, Hy. apply valid_iff in Hx, Hy.
  apply H; [exact Hx|exact Hy|]. now rewrite !offset_dot.
Qed.

(* ---------------------------------------------------------------- scatter *)
Lemma find_combine_nodup (offs elems : list N) i o e :
  NoDup offs -> nth_error offs i = Some o -> nth_error elems i = Some e ->
  find (fun p : N * N => fst p =? o) (combine offs elems) = Some (o, e).
Proof.
  revert elems i. induction offs as [|x r IH]; intros [|y s] i Hnd Ho He;
    try (destruct i; discriminate).
  inversion Hnd as [|? ? Hx Hr]; subst. destruct i as [|i]; cbn in Ho, He.
  - injection Ho as ->. injection He as ->. cbn [combine find fst]. now rewrite N.eqb_refl.
  - cbn [combine find fst]. destruct (x =? o) eqn:E.
    + apply N.eqb_eq in E. subst x. exfalso. apply Hx. eapply nth_error_In. exact Ho.
    + eapply IH; eassumption.
Qed.

Lemma mapM_pointwise {B C} (f : B -> option C) l l' :
  length l = length l' ->
  (forall i x y, nth_error l i = Some x -> nth_error l' i = Some y -> f x = Some y) ->
  mapM f l = Some l'.
Proof.
  revert l'. induction l as [|x r IH]; intros [|y s] Hlen H; cbn [length] in Hlen; try discriminate.
  - reflexivity.
  - cbn [mapM]. rewrite (H 0%nat x y eq_refl eq_refl). rewrite (IH s); [reflexivity|lia|].
    intros i a b Ha Hb. exact (H (S i) a b Ha Hb).
Qed.

Lemma denote_scatter (dims : list dim) (elems : list N) :
  NoDup (off_list dims) -> length elems = length (off_list dims) ->
  denote (scatter (if is_empty dims then 0 else min_data_len dims) (off_list dims) elems) (mkV 0 dims)
  = Some (mkT (shape_of dims) elems).
Proof.
  intros Hnd Hlen. rewrite denote_eq_fast. unfold denote_fast, view_offsets. cbn [v_off v_dims].
  erewrite map_ext; [rewrite map_id|intros a; apply N.add_0_l].
  rewrite (mapM_pointwise _ (off_list dims) elems); [reflexivity|now symmetry|].
  intros i o e Ho He. unfold scatter.
  assert (Hlt : o < (if is_empty dims then 0 else min_data_len dims)).
  { rewrite is_empty_existsb. unfold min_data_len.
    destruct (existsb (fun d => d_size d =? 0) dims) eqn:Ez.
    - exfalso. pose proof (length_off_list dims) as L.
      assert (Hp : prod_sizes dims = 0).
      { pose proof (is_empty_existsb dims) as Hx. rewrite Ez in Hx. unfold is_empty in Hx. now apply N.eqb_eq in Hx. }
      rewrite Hp in L. destruct (off_list dims); [destruct i; discriminate|discriminate].
    - pose proof (off_list_le_max dims o (nth_error_In _ _ Ho)). lia. }
  rewrite nth_error_map, (nth_error_range_N _ _ Hlt). cbn [option_map].
  now rewrite (find_combine_nodup _ _ _ _ _ Hnd Ho He).
Qed.

(* ---------------------------------------------------------------- reference side *)
Lemma lin_dot shape idx : lin shape idx = dotN idx (strides_of (contiguous_dims shape)).
Proof.
  revert idx. induction shape as [|n r IH]; intros [|i ir]; try reflexivity.
  cbn [contiguous_dims]. rewrite strides_of_cons. unfold mkdim at 1. cbn [d_stride fst lin dotN].
  now rewrite IH.
Qed.

(* re-tabulating a well-formed tensor gives it back *)
Lemma tabulate_tget {A} (t : tensor A) : wf_tensor t -> tabulate (t_shape t) (tget t) = Some t.
Proof.
  intros Hw. rewrite <- (denote_fresh t Hw). unfold denote. cbn [v_off v_dims].
  rewrite shape_of_contiguous_dims. apply tabulate_ext. intros idx Hv.
  unfold tget. rewrite Hv, lin_dot. f_equal.
Qed.

Lemma replace_at_length {B} k (x : B) l : length (replace_at k x l) = length l.
Proof. revert l. induction k; intros [|y r]; cbn; try reflexivity; now rewrite IHk. Qed.

Lemma replace_at_replace_at {B} k (x y : B) l : replace_at k x (replace_at k y l) = replace_at k x l.
Proof. revert l. induction k; intros [|z r]; cbn; try reflexivity; now rewrite IHk. Qed.

Lemma replace_at_nth {B} k (l : list B) d : (k < length l)%nat -> replace_at k (nth k l d) l = l.
Proof.
  revert l. induction k; intros [|z r] H; cbn [length] in H; try lia; cbn [replace_at nth]; [reflexivity|].
  f_equal. apply IHk. lia.
Qed.

Lemma nth_replace_at {B} k (x : B) l d : (k < length l)%nat -> nth k (replace_at k x l) d = x.
Proof.
  revert l. induction k; intros [|z r] H; cbn [length] in H; try lia; cbn [replace_at nth]; [reflexivity|].
  apply IHk. lia.
Qed.

Lemma lenN_range n : lenN (range n) = n.
Proof. unfold lenN. now rewrite range_length, N2Nat.id. Qed.

Lemma gather_shape_full r : gather_shape (map sel_full r) = r.
Proof.
  unfold gather_shape. induction r as [|m s IH]; [reflexivity|].
  cbn [map filter sel_full snd fst]. now rewrite lenN_range, IH.
Qed.

Lemma gather_src_full s jr : valid_b s jr = true -> gather_src (map sel_full s) jr = Some jr.
Proof.
  revert jr. induction s as [|m s IH]; intros [|j jr] Hj; cbn [valid_b] in Hj; try discriminate; [reflexivity|].
  apply andb_prop in Hj as [Hj1 Hj2]. apply N.ltb_lt in Hj1.
  cbn [map gather_src sel_full]. now rewrite (nth_error_range_N _ _ Hj1), (IH _ Hj2).
Qed.

Lemma sels_in_range_full s : sels_in_range s (map sel_full s) = true.
Proof.
  induction s as [|m s IH]; [reflexivity|]. cbn [map sels_in_range sel_full fst].
  rewrite IH, andb_true_r. apply forallb_forall. intros x Hx. apply N.ltb_lt. now apply In_range.
Qed.

Lemma axis_sels_some shape axis sl : (axis < length shape)%nat -> exists ss, axis_sels shape axis sl = Some ss.
Proof.
  revert shape. induction axis as [|ax IH]; intros [|n r] H; cbn [length] in H; try lia.
  - cbn [axis_sels]. eauto.
  - cbn [axis_sels]. destruct (IH r ltac:(lia)) as [ss ->]. cbn. eauto.
Qed.

Lemma axis_sels_shape shape axis l ss :
  axis_sels shape axis (l, true) = Some ss -> gather_shape ss = replace_at axis (lenN l) shape.
Proof.
  revert shape ss. induction axis as [|ax IH]; intros [|n r] ss H; cbn [axis_sels] in H; try discriminate.
  - injection H as <-. unfold gather_shape. cbn [filter snd map fst replace_at]. f_equal.
    apply gather_shape_full.
  - destruct (axis_sels r ax (l, true)) as [ss'|] eqn:E; [|discriminate]. cbn [option_map] in H. injection H as <-.
    unfold gather_shape in *. cbn [filter snd map fst sel_full replace_at]. rewrite lenN_range. f_equal.
    now apply IH.
Qed.

Lemma axis_sels_in_range shape axis l keep ss :
  axis_sels shape axis (l, keep) = Some ss -> (forall x, In x l -> x < nth axis shape 0) ->
  sels_in_range shape ss = true.
Proof.
  revert shape ss. induction axis as [|ax IH]; intros [|n r] ss H Hb; cbn [axis_sels] in H; try discriminate.
  - injection H as <-. cbn [sels_in_range fst nth] in *. rewrite sels_in_range_full, andb_true_r.
    apply forallb_forall. intros x Hx. apply N.ltb_lt. now apply Hb.
  - destruct (axis_sels r ax (l, keep)) as [ss'|] eqn:E; [|discriminate]. cbn [option_map] in H. injection H as <-.
    cbn [sels_in_range sel_full fst nth] in *. rewrite (IH r ss' E Hb), andb_true_r.
    apply forallb_forall. intros x Hx. apply N.ltb_lt. now apply In_range.
Qed.

(* source index of a span selection on one axis *)
Lemma gather_src_span shape axis a n' ss idx :
  axis_sels shape axis (map (N.add a) (range n'), true) = Some ss ->
  valid_b (replace_at axis n' shape) idx = true ->
  gather_src ss idx = Some (replace_at axis (a + nth axis idx 0) idx).
Proof.
  revert shape ss idx. induction axis as [|ax IH]; intros [|n r] ss idx H Hv; cbn [axis_sels] in H; try discriminate.
  - injection H as <-. cbn [replace_at] in Hv. destruct idx as [|i ir]; [discriminate|]. cbn [valid_b] in Hv.
    apply andb_prop in Hv as [Hi Hr]. apply N.ltb_lt in Hi.
    cbn [gather_src nth replace_at]. rewrite nth_error_map, (nth_error_range_N _ _ Hi). cbn [option_map].
    now rewrite (gather_src_full r ir Hr).
  - destruct (axis_sels r ax _) as [ss'|] eqn:E; [|discriminate]. cbn [option_map] in H. injection H as <-.
    cbn [replace_at] in Hv. destruct idx as [|i ir]; [discriminate|]. cbn [valid_b] in Hv.
    apply andb_prop in Hv as [Hi Hr]. apply N.ltb_lt in Hi.
    cbn [gather_src sel_full nth replace_at]. now rewrite (nth_error_range_N _ _ Hi), (IH r ss' ir E Hr).
Qed.

(* the reference slice along one axis, as a tabulation *)
Lemma ref_slice_axis_tabulate {A} (t : tensor A) axis a b :
  axis < rank t -> a <= b -> b <= nthN (t_shape t) axis 0 ->
  ref_slice_axis t axis a b
  = tabulate (replace_at (N.to_nat axis) (b - a) (t_shape t))
             (fun idx => tget t (replace_at (N.to_nat axis) (a + nthN idx axis 0) idx)).
Proof.
  intros Hax Hab Hb. unfold ref_slice_axis.
  replace ((a <=? b) && (b <=? nthN (t_shape t) axis 0)) with true
    by (symmetry; apply andb_true_intro; split; apply N.leb_le; assumption).
  unfold rank in Hax.
  destruct (axis_sels_some (t_shape t) (N.to_nat axis) (map (N.add a) (range (b - a)), true)) as [ss Ess]; [lia|].
  rewrite Ess. unfold ref_gather.
  rewrite (axis_sels_in_range _ _ _ _ _ Ess).
  2:{ intros x Hx. apply in_map_iff in Hx as (j & <- & Hj). apply In_range in Hj. unfold nthN in Hb. lia. }
  rewrite (axis_sels_shape _ _ _ _ Ess). unfold lenN at 1. rewrite map_length, range_length, N2Nat.id.
  apply tabulate_ext. intros idx Hv. now rewrite (gather_src_span _ _ _ _ _ _ Ess Hv).
Qed.

(* ---------------------------------------------------------------- concat of the two halves *)
Lemma valid_replace sh idx axis m j :
  valid_b sh idx = true -> j < m -> valid_b (replace_at axis m sh) (replace_at axis j idx) = true.
Proof.
  revert sh idx. induction axis as [|ax IH]; intros [|n r] [|i ir] Hv Hj; cbn [valid_b] in Hv; try discriminate;
    try reflexivity.
  - apply andb_prop in Hv as [_ Hr]. cbn [replace_at valid_b]. apply N.ltb_lt in Hj. now rewrite Hj, Hr.
  - apply andb_prop in Hv as [Hi Hr]. cbn [replace_at valid_b]. now rewrite Hi, (IH r ir Hr Hj).
Qed.

Lemma concat_ok_halves sh axis k m : (axis < length sh)%nat ->
  concat_ok (replace_at axis k sh) (replace_at axis m sh) axis = true.
Proof.
  revert sh. induction axis as [|ax IH]; intros [|n r] H; cbn [length] in H; try lia.
  - cbn [replace_at concat_ok]. clear. induction r as [|x s IHr]; [reflexivity|]. cbn [list_eqbN].
    rewrite N.eqb_refl. apply IHr.
  - cbn [replace_at concat_ok]. rewrite N.eqb_refl. apply IH. lia.
Qed.

Lemma valid_nth_lt sh idx axis : valid_b sh idx = true -> (axis < length sh)%nat -> nth axis idx 0 < nth axis sh 0.
Proof.
  revert sh idx. induction axis as [|ax IH]; intros [|n r] [|i ir] Hv H; cbn [valid_b length] in *; try discriminate; try lia.
  - apply andb_prop in Hv as [Hi _]. now apply N.ltb_lt in Hi.
  - apply andb_prop in Hv as [_ Hr]. cbn [nth]. apply IH; [exact Hr|lia].
Qed.

Theorem concat_of_split {A} (t : tensor A) axis k :
  wf_tensor t -> axis < rank t -> k <= nthN (t_shape t) axis 0 ->
  match ref_slice_axis t axis 0 k, ref_slice_axis t axis k (nthN (t_shape t) axis 0) with
  | Some l, Some r => ref_concat l r axis
  | _, _ => None
  end = Some t.
Proof.
  intros Hw Hax Hk. set (n := nthN (t_shape t) axis 0) in *. set (sh := t_shape t) in *.
  set (ax := N.to_nat axis).
  assert (Haxl : (ax < length sh)%nat) by (unfold rank in Hax; unfold ax, sh; lia).
  rewrite (ref_slice_axis_tabulate t axis 0 k Hax (N.le_0_l k) Hk).
  rewrite (ref_slice_axis_tabulate t axis k n Hax Hk (N.le_refl n)).
  fold ax. fold sh. rewrite N.sub_0_r.
  (* both halves are defined *)
  assert (Hdef : forall m a, a + m <= n ->
            exists l, tabulate (replace_at ax m sh) (fun idx => tget t (replace_at ax (a + nthN idx axis 0) idx)) = Some l).
  { intros m a Ham. apply tabulate_total. intros idx Hv.
    assert (Hi : nth ax idx 0 < m).
    { pose proof (valid_nth_lt _ _ ax Hv) as Hn. rewrite replace_at_length in Hn.
      rewrite nth_replace_at in Hn by exact Haxl. now apply Hn. }
    assert (Hvalid : valid_b sh (replace_at ax (a + nthN idx axis 0) idx) = true).
    { assert (Esh : sh = replace_at ax n (replace_at ax m sh)).
      { rewrite replace_at_replace_at. unfold n, nthN. fold ax. symmetry. now apply replace_at_nth. }
      rewrite Esh at 1. apply valid_replace; [exact Hv|]. unfold nthN. fold ax. lia. }
    unfold tget. fold sh. rewrite Hvalid. apply nth_error_Some.
    pose proof (lin_lt _ _ Hvalid). unfold wf_tensor in Hw. fold sh in Hw. lia. }
  destruct (Hdef k 0 ltac:(lia)) as [l Hl]. destruct (Hdef (n - k) k ltac:(lia)) as [r Hr].
  rewrite Hl, Hr.
  pose proof (tabulate_shape _ _ _ Hl) as Hsl. pose proof (tabulate_shape _ _ _ Hr) as Hsr.
  unfold ref_concat. rewrite Hsl, Hsr. fold ax. rewrite (concat_ok_halves sh ax _ _ Haxl).
  unfold nthN. fold ax. rewrite !nth_replace_at by exact Haxl.
  rewrite replace_at_replace_at. replace (k + (n - k)) with n by lia.
  unfold n, nthN. fold ax. fold sh. rewrite (replace_at_nth ax sh 0 Haxl).
  rewrite <- (tabulate_tget t Hw). fold sh. apply tabulate_ext. intros idx Hv.
  pose proof (valid_nth_lt _ _ ax Hv Haxl) as Hi. change (nth ax sh 0) with n in Hi.
  cbv zeta. destruct (nth ax idx 0 <? k) eqn:E.
  - apply N.ltb_lt in E.
    assert (Hvl : valid_b (replace_at ax k sh) idx = true).
    { rewrite <- (replace_at_nth ax idx 0) at 1 by (rewrite (valid_b_length _ _ Hv); exact Haxl).
      now apply valid_replace. }
    destruct (tget_tabulate _ _ _ _ Hl Hvl) as [-> _]. unfold nthN. fold ax.
    rewrite N.add_0_l, replace_at_nth by (rewrite (valid_b_length _ _ Hv); exact Haxl). reflexivity.
  - apply N.ltb_ge in E.
    assert (Hvr : valid_b (replace_at ax (n - k) sh) (replace_at ax (nth ax idx 0 - k) idx) = true).
    { apply valid_replace; [exact Hv|lia]. }
    destruct (tget_tabulate _ _ _ _ Hr Hvr) as [-> _]. unfold nthN. fold ax.
    rewrite nth_replace_at by (rewrite (valid_b_length _ _ Hv); exact Haxl).
    rewrite replace_at_replace_at. replace (k + (nth ax idx 0 - k)) with (nth ax idx 0) by lia.
    rewrite replace_at_nth by (rewrite (valid_b_length _ _ Hv); exact Haxl). reflexivity.
Qed.

(* ---------------------------------------------------------------- the model step *)
Lemma shape_of_replace_at k d dims : shape_of (replace_at k d dims) = replace_at k (d_size d) (shape_of dims).
Proof.
  revert dims. induction k as [|k IH]; intros [|x r]; try reflexivity.
  cbn [replace_at shape_of map]. f_equal. apply IH.
Qed.

Lemma min_data_len_guard dims : (if is_empty dims then 0 else min_data_len dims) = min_data_len dims.
Proof.
  rewrite is_empty_existsb. unfold min_data_len. now destruct (existsb _ dims).
Qed.

Theorem append_denotes st axis k cap st' t :
  mdenote st = Some t -> apply_op false (OAppend axis k cap) st = Ok st' ->
  mdenote st' = Some t /\ ref_apply (OAppend axis k cap) t (result_shape st') = Some t.
Proof.
  intros Ht H. unfold mdenote in *. cbn [apply_op ref_apply] in *.
  set (dims := v_dims (m_view st)) in *.
  destruct (ndim dims <=? axis) eqn:Ea; [discriminate|]. apply N.leb_gt in Ea.
  set (n := d_size (nthN dims axis (0, 0))) in *.
  destruct (n <? k) eqn:Ek; [discriminate|]. apply N.ltb_ge in Ek.
  set (cdims := contiguous_dims (replace_at (N.to_nat axis) cap (shape_of dims))) in *.
  destruct (has_capacity false _ (set_size (N.to_nat axis) k cdims)); cbn [negb] in H; [|discriminate].
  set (l2 := set_size (N.to_nat axis) n cdims) in *.
  destruct (has_capacity false _ l2) eqn:Hc; cbn [negb] in H; [|discriminate].
  rewrite <- denote_eq_fast, Ht in H. injection H as <-. cbn [m_store m_view].
  pose proof (denote_shape _ _ _ Ht) as Hsh. fold dims in Hsh.
  pose proof (denote_wf _ _ _ Ht) as Hw.
  assert (Haxl : (N.to_nat axis < length (shape_of dims))%nat)
    by (rewrite shape_of_length; unfold ndim, lenN in Ea; lia).
  assert (Hn : n = nthN (t_shape t) axis 0) by (rewrite Hsh, nthN_shape_of; reflexivity).
  split.
  - (* the filled tensor denotes t *)
    assert (Hl2 : shape_of l2 = shape_of dims).
    { unfold l2, set_size.
      destruct (nth_error cdims (N.to_nat axis)) as [d|] eqn:En.
      - rewrite shape_of_replace_at. unfold mkdim. cbn [d_size snd]. unfold cdims.
        rewrite shape_of_contiguous_dims, replace_at_replace_at.
        rewrite Hn, Hsh. unfold nthN. now apply replace_at_nth.
      - exfalso. apply nth_error_None in En. unfold cdims in En.
        rewrite <- shape_of_length, shape_of_contiguous_dims, replace_at_length in En. lia. }
    apply andb_prop in Hc as [_ Hov]. apply negb_true_iff in Hov.
    pose proof (no_overlap_NoDup l2 Hov) as Hnd.
    rewrite <- (min_data_len_guard l2).
    rewrite denote_scatter; [|exact Hnd|].
    + rewrite Hl2, <- Hsh. now destruct t.
    + rewrite length_off_list. unfold prod_sizes. rewrite Hl2, <- Hsh.
      unfold wf_tensor in Hw. lia.
  - apply concat_of_split; [exact Hw| |rewrite <- Hn; exact Ek].
    unfold rank. rewrite Hsh, shape_of_length. exact Ea.
Qed.

Theorem append_error st axis k cap e t :
  mdenote st = Some t -> apply_op false (OAppend axis k cap) st = Err e ->
  e = InsufficientCapacity \/ ref_apply (OAppend axis k cap) t (t_shape t) = None.
Proof.
  intros Ht H. unfold mdenote in *. cbn [apply_op ref_apply] in *.
  set (dims := v_dims (m_view st)) in *.
  pose proof (denote_shape _ _ _ Ht) as Hsh. fold dims in Hsh.
  destruct (ndim dims <=? axis) eqn:Ea.
  - right. apply N.leb_le in Ea. unfold ref_slice_axis at 1.
    destruct (_ && _); [|reflexivity].
    rewrite axis_sels_none; [reflexivity|]. rewrite Hsh, shape_of_length. unfold ndim, lenN in Ea. lia.
  - destruct (d_size (nthN dims axis (0, 0)) <? k) eqn:Ek.
    + right. apply N.ltb_lt in Ek. unfold ref_slice_axis at 1. rewrite Hsh, nthN_shape_of.
      replace ((0 <=? k) && (k <=? d_size (nthN dims axis (0, 0)))) with false; [reflexivity|].
      symmetry. apply andb_false_intro2. now apply N.leb_gt.
    + destruct (has_capacity false _ _); cbn [negb] in H; [|injection H as <-; now left].
      destruct (has_capacity false _ _); cbn [negb] in H; [|injection H as <-; now left].
      rewrite <- denote_eq_fast, Ht in H. discriminate.
Qed.

(* ---------------------------------------------------------------- append to a permuted owned tensor *)
(* any injective layout of the right shape, filled with the tensor's elements, denotes it *)
Lemma filled_denotes (l2 : list dim) (t : tensor N) :
  wf_tensor t -> shape_of l2 = t_shape t ->
  may_have_internal_overlap false (shape_of l2) (strides_of l2) = false ->
  denote (scatter (min_data_len l2) (off_list l2) (t_elems t)) (mkV 0 l2) = Some t.
Proof.
  intros Hw Hsh Hov. pose proof (no_overlap_NoDup l2 Hov) as Hnd.
  rewrite <- (min_data_len_guard l2). rewrite denote_scatter; [|exact Hnd|].
  - rewrite Hsh. now destruct t.
  - rewrite length_off_list. unfold prod_sizes. rewrite Hsh. unfold wf_tensor in Hw. lia.
Qed.

Lemma shape_of_map_mkdim (shp : list N) (f : N -> N) :
  shape_of (map (fun a => mkdim (nthN shp a 0) (f a)) (range (lenN shp))) = shp.
Proof.
  unfold shape_of. rewrite map_map. unfold mkdim. cbn [d_size snd].
  symmetry. apply list_as_map.
Qed.

Theorem append_p_denotes st mode perm axis k cap rep st' t :
  mdenote st = Some t -> apply_op false (OAppendP mode perm axis k cap rep) st = Ok st' ->
  mdenote st' = Some t /\ ref_apply (OAppendP mode perm axis k cap rep) t (result_shape st') = Some t.
Proof.
  intros Ht H. unfold mdenote in *. cbn [apply_op ref_apply] in *.
  set (dims := v_dims (m_view st)) in *.
  pose proof (denote_shape _ _ _ Ht) as Hsh. fold dims in Hsh.
  pose proof (denote_wf _ _ _ Ht) as Hw.
  destruct (is_perm (ndim dims) perm) eqn:Hp; cbn [negb] in H; [|discriminate].
  destruct (ndim dims <=? axis) eqn:Ea; [discriminate|]. apply N.leb_gt in Ea.
  destruct (nthN (shape_of dims) axis 0 <? k) eqn:Ek; [discriminate|]. apply N.ltb_ge in Ek.
  match type of H with
  | context [has_capacity false ?c (set_size _ _ ?l)] => set (capacity := c) in *; set (l2 := l) in *
  end.
  destruct (has_capacity false capacity (set_size (N.to_nat axis) k l2)); cbn [negb] in H; [|discriminate].
  destruct (has_capacity false capacity l2) eqn:Hc; cbn [negb] in H; [|discriminate].
  rewrite <- denote_eq_fast, Ht in H. injection H as <-. cbn [m_store m_view].
  assert (Hl2 : shape_of l2 = t_shape t).
  { rewrite Hsh. unfold l2.
    replace (ndim dims) with (lenN (shape_of dims)) by (unfold ndim, lenN; now rewrite shape_of_length).
    apply shape_of_map_mkdim. }
  split.
  - apply andb_prop in Hc as [_ Hov]. apply negb_true_iff in Hov.
    now apply filled_denotes.
  - assert (Hr : rank t = ndim dims) by (unfold rank, ndim, lenN; now rewrite Hsh, shape_of_length).
    rewrite Hr, Hp. apply concat_of_split; [exact Hw|now rewrite Hr|now rewrite Hsh].
Qed.

Theorem append_p_error st mode perm axis k cap rep e t :
  mdenote st = Some t -> apply_op false (OAppendP mode perm axis k cap rep) st = Err e ->
  e = InsufficientCapacity \/ ref_apply (OAppendP mode perm axis k cap rep) t (t_shape t) = None.
Proof.
  intros Ht H. unfold mdenote in *. cbn [apply_op ref_apply] in *.
  set (dims := v_dims (m_view st)) in *.
  pose proof (denote_shape _ _ _ Ht) as Hsh. fold dims in Hsh.
  assert (Hr : rank t = ndim dims) by (unfold rank, ndim, lenN; now rewrite Hsh, shape_of_length).
  rewrite Hr.
  destruct (is_perm (ndim dims) perm) eqn:Hp; cbn [negb] in H; [|now right].
  destruct (ndim dims <=? axis) eqn:Ea.
  - right. apply N.leb_le in Ea. unfold ref_slice_axis at 1.
    destruct (_ && _); [|reflexivity].
    rewrite axis_sels_none; [reflexivity|]. rewrite Hsh, shape_of_length. unfold ndim, lenN in Ea. lia.
  - destruct (nthN (shape_of dims) axis 0 <? k) eqn:Ek.
    + right. apply N.ltb_lt in Ek. unfold ref_slice_axis at 1. rewrite Hsh.
      replace ((0 <=? k) && (k <=? nthN (shape_of dims) axis 0)) with false; [reflexivity|].
      symmetry. apply andb_false_intro2. now apply N.leb_gt.
    + destruct (has_capacity false _ _); cbn [negb] in H; [|injection H as <-; now left].
      destruct (has_capacity false _ _); cbn [negb] in H; [|injection H as <-; now left].
      rewrite <- denote_eq_fast, Ht in H. discriminate.
Qed.
