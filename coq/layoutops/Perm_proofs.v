(* C09 -- permuted / transposed / move_axis denote numpy.transpose / moveaxis of the source. *)
From RV Require Import Prelude.
From Tensor Require Import Overlap.
From LayoutOps Require Import ArrayModel LayoutOps Array_proofs Denote_proofs.
From Coq Require Import Permutation.
Open Scope N_scope.

(* ---------------------------------------------------------------- lists by position *)
Lemma range_succ_cons n : range (N.succ n) = 0 :: map N.succ (range n).
Proof.
  unfold range. rewrite N2Nat.inj_succ. cbn [seq map]. f_equal.
  rewrite <- seq_shift, !map_map. apply map_ext. intros k. lia.
Qed.

Lemma list_as_map {B} (l : list B) d : l = map (fun j => nthN l j d) (range (lenN l)).
Proof.
  induction l as [|x r IH]; [reflexivity|].
  unfold lenN. cbn [length]. rewrite Nat2N.inj_succ, range_succ_cons. cbn [map]. f_equal.
  rewrite map_map. rewrite IH at 1. apply map_ext_in. intros j _. unfold nthN.
  rewrite N2Nat.inj_succ. reflexivity.
Qed.

Lemma nthN_map_in {B C} (f : B -> C) l j d d' : j < lenN l -> nthN (map f l) j d' = f (nthN l j d).
Proof.
  intros H. unfold nthN, lenN in *.
  rewrite (nth_indep _ d' (f d)) by (rewrite map_length; lia). apply map_nth.
Qed.

Lemma valid_b_nth shape idx :
  valid_b shape idx = true <->
  length idx = length shape /\ forall j, j < lenN shape -> nthN idx j 0 < nthN shape j 0.
Proof.
  revert idx. induction shape as [|n r IH]; intros [|i ir]; cbn [valid_b length].
  - split; [intros _; split; [reflexivity|]|reflexivity]. unfold lenN. cbn. lia.
  - split; [discriminate|]. intros [H _]. discriminate.
  - split; [discriminate|]. intros [H _]. discriminate.
  - rewrite andb_true_iff, N.ltb_lt, IH. split.
    + intros [Hi [Hl Hr]]. split; [now f_equal|]. intros j Hj.
      destruct (N.eq_dec j 0) as [->|Hne]; [exact Hi|].
      replace j with (N.succ (N.pred j)) by lia. unfold nthN. rewrite N2Nat.inj_succ. cbn [nth].
      apply Hr. unfold lenN in *. cbn [length] in Hj. lia.
    + intros [Hl Hr]. split; [apply (Hr 0); unfold lenN; cbn [length]; lia|].
      split; [now injection Hl|]. intros j Hj.
      specialize (Hr (N.succ j)). unfold nthN in Hr. rewrite N2Nat.inj_succ in Hr. cbn [nth] in Hr.
      apply Hr. unfold lenN in *. cbn [length]. lia.
Qed.

Lemma dot_sum idx st n :
  length idx = n -> length st = n ->
  dotN idx st = sumN (map (fun j => nthN idx j 0 * nthN st j 0) (range (N.of_nat n))).
Proof.
  revert idx st. induction n as [|n IH]; intros [|i ir] [|s sr] H1 H2; cbn [length] in *; try discriminate.
  - reflexivity.
  - rewrite Nat2N.inj_succ, range_succ_cons. cbn [dotN map sumN]. f_equal.
    rewrite map_map. rewrite (IH ir sr) by lia. f_equal. apply map_ext. intros j.
    unfold nthN. rewrite N2Nat.inj_succ. reflexivity.
Qed.

(* ---------------------------------------------------------------- permutations *)
Lemma is_perm_permutation n p : is_perm n p = true -> Permutation (range n) p.
Proof.
  unfold is_perm. intros H. apply andb_prop in H as [Hl Hc]. apply N.eqb_eq in Hl.
  apply NoDup_Permutation_bis.
  - apply NoDup_range.
  - rewrite range_length. unfold lenN in Hl. lia.
  - intros k Hk. rewrite forallb_forall in Hc. specialize (Hc k Hk). apply N.eqb_eq in Hc.
    apply (count_occ_In N.eq_dec). lia.
Qed.

Lemma permutation_is_perm n p : Permutation (range n) p -> is_perm n p = true.
Proof.
  intros H. unfold is_perm. apply andb_true_intro. split.
  - apply N.eqb_eq. unfold lenN. rewrite <- (Permutation_length H), range_length. apply N2Nat.id.
  - apply forallb_forall. intros k Hk. apply N.eqb_eq.
    rewrite <- (proj1 (Permutation_count_occ N.eq_dec (range n) p) H k).
    assert (Hnd := NoDup_range n). rewrite (NoDup_count_occ' N.eq_dec) in Hnd.
    now rewrite (Hnd k Hk).
Qed.

Lemma index_of_spec k p d : In k p -> index_of k p < lenN p /\ nthN p (index_of k p) d = k.
Proof.
  induction p as [|x r IH]; intros H; [destruct H|].
  cbn [index_of]. destruct (x =? k) eqn:E.
  - apply N.eqb_eq in E. subst. unfold lenN, nthN. cbn. split; [lia|reflexivity].
  - destruct H as [->|H]; [rewrite N.eqb_refl in E; discriminate|].
    destruct (IH H) as [H1 H2]. unfold lenN, nthN in *. cbn [length]. split; [lia|].
    replace (N.to_nat (1 + index_of k r)) with (S (N.to_nat (index_of k r))) by lia. exact H2.
Qed.

Lemma index_of_nth p j d : NoDup p -> j < lenN p -> index_of (nthN p j d) p = j.
Proof.
  revert j. induction p as [|x r IH]; intros j Hnd Hj; unfold lenN in Hj; cbn [length] in Hj; [lia|].
  inversion Hnd as [|? ? Hx Hr]; subst.
  destruct (N.eq_dec j 0) as [->|Hne].
  - unfold nthN. cbn. now rewrite N.eqb_refl.
  - replace j with (N.succ (N.pred j)) by lia. unfold nthN. rewrite N2Nat.inj_succ. cbn [nth index_of].
    assert (Hin : In (nth (N.to_nat (N.pred j)) r d) r) by (apply nth_In; lia).
    destruct (x =? nth (N.to_nat (N.pred j)) r d) eqn:E.
    + apply N.eqb_eq in E. subst x. contradiction.
    + fold (nthN r (N.pred j) d). rewrite IH; [lia|exact Hr|unfold lenN; lia].
Qed.

(* source index of a result index under numpy.transpose(t, p) *)
Definition perm_src (n : N) (p idx : list N) : list N :=
  map (fun k => nthN idx (index_of k p) 0) (range n).

Section Perm.
  Variable (dims : list dim) (p : list N).
  Let n := ndim dims.
  Hypothesis Hp : is_perm n p = true.

  Let HP : Permutation (range n) p := is_perm_permutation n p Hp.
  Let dims' := map (fun k => nthN dims k (0, 0)) p.

  Lemma perm_len : lenN p = n.
  Proof. unfold lenN. rewrite <- (Permutation_length HP), range_length. apply N2Nat.id. Qed.

  Lemma perm_nodup : NoDup p.
  Proof. eapply Permutation_NoDup; [exact HP|apply NoDup_range]. Qed.

  Lemma perm_in k : k < n -> In k p.
  Proof. intros H. eapply Permutation_in; [exact HP|]. now apply In_range. Qed.

  Lemma perm_lt j : j < n -> nthN p j 0 < n.
  Proof.
    intros H. apply In_range. eapply Permutation_in; [apply Permutation_sym; exact HP|].
    unfold nthN. apply nth_In. pose proof perm_len. unfold lenN in *. lia.
  Qed.

  Lemma shape_of_perm : shape_of dims' = map (fun k => nthN (shape_of dims) k 0) p.
  Proof.
    unfold dims', shape_of. rewrite map_map. apply map_ext. intros k.
    symmetry. apply (nthN_shape_of dims k).
  Qed.

  Lemma strides_of_perm : strides_of dims' = map (fun k => nthN (strides_of dims) k 0) p.
  Proof.
    unfold dims', strides_of. rewrite map_map. apply map_ext. intros k.
    unfold nthN. change 0 with (d_stride (0, 0)). now rewrite map_nth.
  Qed.

  Lemma perm_valid idx :
    valid_b (shape_of dims') idx = true -> valid_b (shape_of dims) (perm_src n p idx) = true.
  Proof.
    intros Hv. apply valid_b_nth in Hv as [Hl Hv]. apply valid_b_nth.
    assert (Hn : lenN (shape_of dims) = n) by (unfold lenN, n, ndim, lenN; now rewrite shape_of_length).
    split.
    - unfold perm_src. rewrite map_length, range_length, shape_of_length. unfold n, ndim, lenN. lia.
    - intros k Hk. rewrite Hn in Hk. unfold perm_src.
      rewrite (nthN_map_in _ _ _ 0) by (unfold lenN; rewrite range_length; lia).
      rewrite nthN_range by exact Hk.
      destruct (index_of_spec k p 0 (perm_in k Hk)) as [H1 H2].
      specialize (Hv (index_of k p)). rewrite shape_of_perm in Hv.
      rewrite (nthN_map_in _ _ _ 0) in Hv by exact H1. rewrite H2 in Hv.
      apply Hv. unfold lenN. rewrite map_length. exact H1.
  Qed.

  Lemma perm_dot idx :
    valid_b (shape_of dims') idx = true ->
    dotN idx (strides_of dims') = dotN (perm_src n p idx) (strides_of dims).
  Proof.
    intros Hv. apply valid_b_length in Hv.
    assert (Hlp : length p = N.to_nat n) by (pose proof perm_len; unfold lenN in *; lia).
    assert (Hld : length dims = N.to_nat n) by (unfold n, ndim, lenN; lia).
    rewrite (dot_sum idx (strides_of dims') (N.to_nat n)).
    2:{ rewrite Hv. unfold dims'. now rewrite shape_of_length, map_length. }
    2:{ unfold dims'. now rewrite strides_of_length, map_length. }
    rewrite (dot_sum (perm_src n p idx) (strides_of dims) (N.to_nat n)).
    2:{ unfold perm_src. now rewrite map_length, range_length. }
    2:{ now rewrite strides_of_length. }
    rewrite N2Nat.id.
    set (G := fun j => nthN idx j 0 * nthN (strides_of dims) (nthN p j 0) 0).
    (* left: sum of G over positions *)
    rewrite (map_range_ext _ G).
    2:{ intros j Hj. unfold G. f_equal. rewrite strides_of_perm.
        apply (nthN_map_in (fun k => nthN (strides_of dims) k 0) p j 0 0). now rewrite perm_len. }
    (* right: sum of G (pos k) over axes k *)
    rewrite (map_range_ext (fun j => nthN (perm_src n p idx) j 0 * _) (fun k => G (index_of k p))).
    2:{ intros k Hk. unfold G, perm_src.
        rewrite (nthN_map_in _ _ _ 0) by (unfold lenN; rewrite range_length; lia).
        rewrite nthN_range by exact Hk.
        destruct (index_of_spec k p 0 (perm_in k Hk)) as [_ ->]. reflexivity. }
    (* re-index the right sum along p *)
    rewrite (sumN_perm _ _ (Permutation_map (fun k => G (index_of k p)) HP)).
    transitivity (sumN (map (fun k => G (index_of k p))
                            (map (fun j => nthN p j 0) (range (lenN p)))));
      [|now rewrite <- (list_as_map p 0)].
    rewrite perm_len, map_map.
    f_equal. apply map_range_ext. intros j Hj.
    rewrite index_of_nth; [reflexivity|apply perm_nodup|now rewrite perm_len].
  Qed.
End Perm.

Theorem permuted_denotes {A} (s : list A) v p v' t :
  denote s v = Some t -> permuted v p = Ok v' -> denote s v' = ref_permute t p.
Proof.
  intros Ht H. unfold permuted in H.
  destruct (is_perm (ndim (v_dims v)) p) eqn:Hp; [|discriminate]. injection H as <-.
  unfold ref_permute. rewrite (denote_rank _ _ _ Ht), Hp, (denote_shape _ _ _ Ht).
  rewrite <- (shape_of_perm (v_dims v) p).
  apply (denote_reindex_total s v t
           (mkV (v_off v) (map (fun k => nthN (v_dims v) k (0, 0)) p))
           (perm_src (ndim (v_dims v)) p) Ht).
  cbn [v_off v_dims]. intros idx Hv. split.
  - now apply perm_valid.
  - f_equal. now apply perm_dot.
Qed.

Theorem permuted_error {A} (s : list A) v p e t :
  denote s v = Some t -> permuted v p = Err e -> ref_permute t p = None.
Proof.
  intros Ht H. unfold permuted in H. unfold ref_permute. rewrite (denote_rank _ _ _ Ht).
  destruct (is_perm (ndim (v_dims v)) p); [discriminate|reflexivity].
Qed.

(* ---------------------------------------------------------------- transposed *)
Lemma rev_as_map {B} (l : list B) d : rev l = map (fun k => nthN l k d) (rev (range (lenN l))).
Proof. rewrite map_rev. f_equal. apply list_as_map. Qed.

Lemma is_perm_rev n : is_perm n (rev (range n)) = true.
Proof. apply permutation_is_perm. apply Permutation_rev. Qed.

Theorem transposed_denotes {A} (s : list A) v t :
  denote s v = Some t -> denote s (transposed v) = ref_transpose t.
Proof.
  intros Ht. unfold ref_transpose. rewrite (denote_rank _ _ _ Ht).
  apply (permuted_denotes s v); [exact Ht|].
  unfold permuted, transposed. rewrite is_perm_rev. f_equal. f_equal.
  symmetry. apply rev_as_map.
Qed.

(* ---------------------------------------------------------------- move_axis *)
Lemma map_insert_at {B C} (f : B -> C) k x l : map f (insert_at k x l) = insert_at k (f x) (map f l).
Proof.
  revert l. induction k as [|k IH]; intros l; [reflexivity|].
  destruct l as [|y r]; [reflexivity|]. cbn [insert_at map]. now rewrite IH.
Qed.

Lemma filter_map_swap {B C} (f : C -> bool) (g : B -> C) l :
  filter f (map g l) = map g (filter (fun x => f (g x)) l).
Proof.
  induction l as [|x r IH]; [reflexivity|]. cbn [map filter].
  destruct (f (g x)); cbn [map]; now rewrite IH.
Qed.

Lemma remove_at_as_map {B} (l : list B) k d :
  remove_at k l = map (fun j => nthN l j d) (filter (fun j => negb (j =? N.of_nat k)) (range (lenN l))).
Proof.
  revert k. induction l as [|x r IH]; intros k.
  - destruct k; reflexivity.
  - unfold lenN. cbn [length]. rewrite Nat2N.inj_succ, range_succ_cons. cbn [filter].
    destruct k as [|k].
    + cbn [N.of_nat negb remove_at]. rewrite N.eqb_refl. cbn [negb].
      rewrite filter_map_swap, map_map.
      rewrite (filter_ext_in _ (fun _ => true)).
      2:{ intros j _. destruct (N.succ j =? 0) eqn:E; [apply N.eqb_eq in E; lia|reflexivity]. }
      assert (Hall : forall (l0 : list N), filter (fun _ => true) l0 = l0)
        by (induction l0; cbn; congruence).
      rewrite Hall. rewrite (list_as_map r d) at 1. apply map_ext. intros j. unfold nthN.
      rewrite N2Nat.inj_succ. reflexivity.
    + replace (0 =? N.of_nat (S k)) with false by (symmetry; apply N.eqb_neq; lia).
      cbn [negb map remove_at]. unfold nthN at 1. cbn [N.to_nat nth]. f_equal.
      rewrite filter_map_swap, map_map, (IH k).
      rewrite (filter_ext (fun j => negb (N.succ j =? N.of_nat (S k))) (fun j => negb (j =? N.of_nat k))).
      2:{ intros j. f_equal. destruct (N.succ j =? N.of_nat (S k)) eqn:E1, (j =? N.of_nat k) eqn:E2;
            try reflexivity; [apply N.eqb_eq in E1; apply N.eqb_neq in E2|apply N.eqb_neq in E1; apply N.eqb_eq in E2]; lia. }
      apply map_ext. intros j. unfold nthN. rewrite N2Nat.inj_succ. reflexivity.
Qed.

Lemma insert_at_perm {B} k (x : B) l : Permutation (x :: l) (insert_at k x l).
Proof.
  revert l. induction k as [|k IH]; intros l; [reflexivity|].
  destruct l as [|y r]; [reflexivity|]. cbn [insert_at].
  rewrite perm_swap. constructor. apply IH.
Qed.

Lemma is_perm_move_order n from to : from < n -> is_perm n (move_order n from to) = true.
Proof.
  intros Hf. apply permutation_is_perm. unfold move_order.
  rewrite <- insert_at_perm.
  apply NoDup_Permutation.
  - apply NoDup_range.
  - constructor.
    + rewrite filter_In. intros [_ H]. rewrite N.eqb_refl in H. discriminate.
    + apply NoDup_filter, NoDup_range.
  - intros k. cbn [In]. rewrite filter_In. split.
    + intros Hk. destruct (N.eq_dec from k) as [->|Hne]; [now left|].
      right. split; [exact Hk|]. apply negb_true_iff, N.eqb_neq. congruence.
    + intros [<-|[Hk _]]; [now apply In_range|exact Hk].
Qed.

Theorem move_axis_denotes {A} (s : list A) v from to v' t :
  denote s v = Some t -> move_axis v from to = Ok v' -> denote s v' = ref_move_axis t from to.
Proof.
  intros Ht H. unfold move_axis in H.
  destruct ((from <? ndim (v_dims v)) && (to <? ndim (v_dims v))) eqn:E; [|discriminate].
  injection H as <-.
  unfold ref_move_axis. rewrite (denote_rank _ _ _ Ht), E.
  apply andb_prop in E as [Ef _]. apply N.ltb_lt in Ef.
  apply (permuted_denotes s v); [exact Ht|].
  unfold permuted. rewrite (is_perm_move_order _ _ _ Ef). f_equal. f_equal.
  unfold move_order. rewrite map_insert_at. f_equal.
  rewrite (remove_at_as_map _ _ (0, 0)). unfold ndim. f_equal.
  apply filter_ext. intros j. now rewrite N2Nat.id.
Qed.

Theorem move_axis_error {A} (s : list A) v from to e t :
  denote s v = Some t -> move_axis v from to = Err e -> ref_move_axis t from to = None.
Proof.
  intros Ht H. unfold move_axis in H. unfold ref_move_axis. rewrite (denote_rank _ _ _ Ht).
  destruct ((from <? ndim (v_dims v)) && (to <? ndim (v_dims v))); [discriminate|reflexivity].
Qed.
