(* C09 -- the REFERENCE: a naive array model.

   A tensor is a shape plus the row-major list of its elements; equivalently a partial
   function from indices to elements ([tget]) -- [tabulate] builds a tensor from such a
   function.  Every reference operation is written the way NumPy documents it, with no
   strides and no offsets anywhere in this file.  An operation that NumPy (or the library's
   documented contract, for the "strict" slice used by views) leaves undefined returns
   [None].  [tabulate] itself returns [None] as soon as one element is undefined, so no
   default element can make a reference result look defined. *)
From RV Require Import Prelude.
Open Scope N_scope.

(* ------------------------------------------------------------------ basics *)
Definition range (n : N) : list N := map N.of_nat (seq 0 (N.to_nat n)).

Fixpoint prodN (l : list N) : N := match l with [] => 1 | x :: r => x * prodN r end.

(* all indices of a shape, row-major (last axis fastest) *)
Fixpoint indices (shape : list N) : list (list N) :=
  match shape with
  | [] => [[]]
  | n :: r => flat_map (fun i => map (cons i) (indices r)) (range n)
  end.

Fixpoint valid_b (shape idx : list N) : bool :=
  match shape, idx with
  | [], [] => true
  | n :: r, i :: ir => (i <? n) && valid_b r ir
  | _, _ => false
  end.

(* row-major linear position of an index *)
Fixpoint lin (shape idx : list N) : N :=
  match shape, idx with
  | _ :: r, i :: ir => i * prodN r + lin r ir
  | _, _ => 0
  end.

Fixpoint mapM {A B} (f : A -> option B) (l : list A) : option (list B) :=
  match l with
  | [] => Some []
  | x :: r => match f x, mapM f r with
              | Some y, Some ys => Some (y :: ys)
              | _, _ => None
              end
  end.

Record tensor (A : Type) := mkT { t_shape : list N; t_elems : list A }.
Arguments mkT {A}. Arguments t_shape {A}. Arguments t_elems {A}.

Definition rank {A} (t : tensor A) : N := N.of_nat (length (t_shape t)).

Definition tget {A} (t : tensor A) (idx : list N) : option A :=
  if valid_b (t_shape t) idx then nth_error (t_elems t) (N.to_nat (lin (t_shape t) idx)) else None.

Definition tabulate {A} (shape : list N) (f : list N -> option A) : option (tensor A) :=
  match mapM f (indices shape) with
  | Some l => Some (mkT shape l)
  | None => None
  end.

Definition wf_tensor {A} (t : tensor A) : Prop := N.of_nat (length (t_elems t)) = prodN (t_shape t).

Definition nthN {A} (l : list A) (k : N) (d : A) : A := nth (N.to_nat k) l d.
Definition lenN {A} (l : list A) : N := N.of_nat (length l).

(* ------------------------------------------------------------ slicing *)
(* One entry of a slice specification, as in `t[i, a:b:s, ...]`. *)
Inductive item := Idx (i : Z) | Rng (start : Z) (stop : option Z) (step : Z).

Open Scope Z_scope.
(* CPython's PySlice_AdjustIndices, verbatim: normalise a bound against a length *)
Definition py_adjust (n step x : Z) : Z :=
  if x <? 0 then
    let x := x + n in
    if x <? 0 then (if step <? 0 then -1 else 0) else x
  else if n <=? x then (if step <? 0 then n - 1 else n)
  else x.

Definition py_len (start stop step : Z) : Z :=
  if step <? 0 then (if stop <? start then (start - stop - 1) / (- step) + 1 else 0)
  else (if start <? stop then (stop - start - 1) / step + 1 else 0).

(* the source indices selected by `start:stop:step` on an axis of length n (step <> 0) *)
Definition py_indices (n : N) (start : Z) (stop : option Z) (step : Z) : list N :=
  let nz := Z.of_N n in
  let s := py_adjust nz step start in
  let e := match stop with
           | Some e => py_adjust nz step e
           | None => if step <? 0 then -1 else nz
           end in
  map (fun k => Z.to_N (s + Z.of_N k * step)) (range (Z.to_N (py_len s e step))).

Definition neg_resolve (n x : Z) : Z := if x <? 0 then x + n else x.
Close Scope Z_scope.

(* selection on one axis: (selected source indices, axis is kept?) *)
Definition sel := (list N * bool)%type.

Definition sel_index (n : N) (i : Z) : option sel :=
  let j := neg_resolve (Z.of_N n) i in
  if ((0 <=? j) && (j <? Z.of_N n))%Z then Some ([Z.to_N j], false) else None.

(* NumPy semantics: bounds are clamped, any non-zero step *)
Definition sel_numpy (n : N) (it : item) : option sel :=
  match it with
  | Idx i => sel_index n i
  | Rng s e st => if (st =? 0)%Z then None else Some (py_indices n s e st, true)
  end.

(* The library's documented contract for slices that produce *views*
   (SliceRange::resolve: "Returns the range if resolved or None if out of bounds";
   AsView::slice_copy: views do not support negative steps): positive step and both
   bounds, after resolving negative values, inside [0, n].  Inside that domain it is
   the NumPy selection. *)
Definition sel_strict (n : N) (it : item) : option sel :=
  match it with
  | Idx i => sel_index n i
  | Rng s e st =>
      let nz := Z.of_N n in
      let s' := neg_resolve nz s in
      let e' := match e with Some e => neg_resolve nz e | None => nz end in
      if ((0 <? st) && (0 <=? s') && (s' <=? nz) && (0 <=? e') && (e' <=? nz))%Z
      then Some (py_indices n s e st, true) else None
  end.

Definition sel_full (n : N) : sel := (range n, true).

(* per-axis selections for a slice spec: missing trailing items select the whole axis *)
Fixpoint sels_of (selector : N -> item -> option sel) (shape : list N) (items : list item)
  : option (list sel) :=
  match shape with
  | [] => match items with [] => Some [] | _ => None end      (* more items than axes *)
  | n :: r =>
      match items with
      | [] => option_map (cons (sel_full n)) (sels_of selector r [])
      | it :: ir => match selector n it, sels_of selector r ir with
                    | Some s, Some ss => Some (s :: ss)
                    | _, _ => None
                    end
      end
  end.

Definition gather_shape (ss : list sel) : list N :=
  map (fun s : sel => lenN (fst s)) (filter (fun s : sel => snd s) ss).

(* source index of a result index *)
Fixpoint gather_src (ss : list sel) (idx : list N) : option (list N) :=
  match ss with
  | [] => match idx with [] => Some [] | _ => None end
  | (l, true) :: r =>
      match idx with
      | i :: ir => match nth_error l (N.to_nat i), gather_src r ir with
                   | Some j, Some js => Some (j :: js)
                   | _, _ => None
                   end
      | [] => None
      end
  | (l, false) :: r =>
      match l, gather_src r idx with
      | [j], Some js => Some (j :: js)
      | _, _ => None
      end
  end.

Fixpoint sels_in_range (shape : list N) (ss : list sel) : bool :=
  match shape, ss with
  | [], [] => true
  | n :: r, s :: sr => forallb (fun j => j <? n) (fst s) && sels_in_range r sr
  | _, _ => false
  end.

(* take, on every axis, the listed source indices (an axis-wise gather) *)
Definition ref_gather {A} (t : tensor A) (ss : list sel) : option (tensor A) :=
  if sels_in_range (t_shape t) ss then
    tabulate (gather_shape ss)
             (fun idx => match gather_src ss idx with Some s => tget t s | None => None end)
  else None.

Definition ref_slice_with {A} selector (t : tensor A) (items : list item) : option (tensor A) :=
  match sels_of selector (t_shape t) items with
  | Some ss => ref_gather t ss
  | None => None
  end.

(* t[items] producing a view (strict bounds, positive steps) / a copy (NumPy clamping) *)
Definition ref_slice {A} := @ref_slice_with A sel_strict.
Definition ref_slice_numpy {A} := @ref_slice_with A sel_numpy.

(* one axis replaced by an explicit selection, all others whole *)
Fixpoint axis_sels (shape : list N) (axis : nat) (s : sel) : option (list sel) :=
  match shape, axis with
  | [], _ => None
  | _ :: r, O => Some (s :: map sel_full r)
  | n :: r, S a => option_map (cons (sel_full n)) (axis_sels r a s)
  end.

(* t.take(i, axis) *)
Definition ref_index_axis {A} (t : tensor A) (axis i : N) : option (tensor A) :=
  if i <? nthN (t_shape t) axis 0 then
    match axis_sels (t_shape t) (N.to_nat axis) ([i], false) with
    | Some ss => ref_gather t ss
    | None => None
    end
  else None.

(* t[..., a:b, ...] on one axis with 0 <= a <= b <= size (unsigned range, no clamping) *)
Definition ref_slice_axis {A} (t : tensor A) (axis a b : N) : option (tensor A) :=
  if (a <=? b) && (b <=? nthN (t_shape t) axis 0) then
    match axis_sels (t_shape t) (N.to_nat axis) (map (N.add a) (range (b - a)), true) with
    | Some ss => ref_gather t ss
    | None => None
    end
  else None.

(* numpy.split(t, [mid], axis) *)
Definition ref_split {A} (t : tensor A) (axis mid : N) : option (tensor A * tensor A) :=
  match ref_slice_axis t axis 0 mid, ref_slice_axis t axis mid (nthN (t_shape t) axis 0) with
  | Some l, Some r => Some (l, r)
  | _, _ => None
  end.

(* ------------------------------------------------------------ permutations *)
Definition is_perm (n : N) (p : list N) : bool :=
  (lenN p =? n) && forallb (fun k => N.of_nat (count_occ N.eq_dec p k) =? 1) (range n).

Fixpoint index_of (k : N) (p : list N) : N :=
  match p with
  | [] => 0
  | x :: r => if x =? k then 0 else 1 + index_of k r
  end.

(* numpy.transpose(t, p): result axis i is source axis p[i] *)
Definition ref_permute {A} (t : tensor A) (p : list N) : option (tensor A) :=
  if is_perm (rank t) p then
    tabulate (map (fun k => nthN (t_shape t) k 0) p)
             (fun idx => tget t (map (fun k => nthN idx (index_of k p) 0) (range (rank t))))
  else None.

Definition ref_transpose {A} (t : tensor A) : option (tensor A) :=
  ref_permute t (rev (range (rank t))).

Fixpoint insert_at {A} (k : nat) (x : A) (l : list A) : list A :=
  match k, l with
  | O, _ => x :: l
  | S k', y :: r => y :: insert_at k' x r
  | S _, [] => [x]
  end.
Fixpoint remove_at {A} (k : nat) (l : list A) : list A :=
  match k, l with
  | _, [] => []
  | O, _ :: r => r
  | S k', y :: r => y :: remove_at k' r
  end.

(* numpy.moveaxis: order = [n for n in range(ndim) if n != from]; order.insert(to, from) *)
Definition move_order (n from to : N) : list N :=
  insert_at (N.to_nat to) from (filter (fun k => negb (k =? from)) (range n)).

Definition ref_move_axis {A} (t : tensor A) (from to : N) : option (tensor A) :=
  if (from <? rank t) && (to <? rank t) then ref_permute t (move_order (rank t) from to) else None.

(* ------------------------------------------------------------ broadcasting *)
Fixpoint bcast_ok (shape target : list N) : bool :=
  match shape, target with
  | [], [] => true
  | a :: r, b :: s => ((a =? b) || (a =? 1)) && bcast_ok r s
  | _, _ => false
  end.

Fixpoint bcast_src (shape idx : list N) : list N :=
  match shape, idx with
  | a :: r, i :: ir => (if a =? 1 then 0 else i) :: bcast_src r ir
  | _, _ => []
  end.

(* numpy.broadcast_to(t, target) *)
Definition ref_broadcast {A} (t : tensor A) (target : list N) : option (tensor A) :=
  if rank t <=? lenN target then
    let pad := (length target - length (t_shape t))%nat in
    if bcast_ok (t_shape t) (skipn pad target) then
      tabulate target (fun idx => tget t (bcast_src (t_shape t) (skipn pad idx)))
    else None
  else None.

(* ------------------------------------------------------------ reshapes *)
(* numpy.reshape (C order): same elements, new shape of the same size *)
Definition ref_reshape {A} (t : tensor A) (shape : list N) : option (tensor A) :=
  if prodN shape =? lenN (t_elems t) then Some (mkT shape (t_elems t)) else None.

(* numpy.squeeze(t) *)
Definition ref_squeeze {A} (t : tensor A) : option (tensor A) :=
  ref_reshape t (filter (fun n => negb (n =? 1)) (t_shape t)).

(* numpy.expand_dims(t, axis) *)
Definition ref_insert_axis {A} (t : tensor A) (axis : N) : option (tensor A) :=
  if axis <=? rank t then ref_reshape t (insert_at (N.to_nat axis) 1 (t_shape t)) else None.

(* numpy.squeeze(t, axis) *)
Definition ref_remove_axis {A} (t : tensor A) (axis : N) : option (tensor A) :=
  if (axis <? rank t) && (nthN (t_shape t) axis 0 =? 1)
  then ref_reshape t (remove_at (N.to_nat axis) (t_shape t)) else None.

Fixpoint list_eqbN (a b : list N) : bool :=
  match a, b with
  | [], [] => true
  | x :: r, y :: s => (x =? y) && list_eqbN r s
  | _, _ => false
  end.

(* numpy.concatenate([t, u], axis) *)
Fixpoint concat_ok (s1 s2 : list N) (axis : nat) : bool :=
  match s1, s2, axis with
  | _ :: r1, _ :: r2, O => list_eqbN r1 r2
  | a :: r1, b :: r2, S k => (a =? b) && concat_ok r1 r2 k
  | _, _, _ => false
  end.
Fixpoint replace_at {A} (k : nat) (x : A) (l : list A) : list A :=
  match k, l with
  | _, [] => []
  | O, _ :: r => x :: r
  | S k', y :: r => y :: replace_at k' x r
  end.
Definition ref_concat {A} (t u : tensor A) (axis : N) : option (tensor A) :=
  if concat_ok (t_shape t) (t_shape u) (N.to_nat axis) then
    let n1 := nthN (t_shape t) axis 0 in
    let n2 := nthN (t_shape u) axis 0 in
    tabulate (replace_at (N.to_nat axis) (n1 + n2) (t_shape t))
      (fun idx => let i := nthN idx axis 0 in
                  if i <? n1 then tget t idx
                  else tget u (replace_at (N.to_nat axis) (i - n1) idx))
  else None.

(* executable equality on reference tensors of numbers *)
Definition list_eqb (a b : list N) : bool := list_eqbN a b.
Definition tensor_eqb (a b : tensor N) : bool :=
  list_eqb (t_shape a) (t_shape b) && list_eqb (t_elems a) (t_elems b).
