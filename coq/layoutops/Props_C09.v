(* C09 -- Layout transformations match a reference array model.
   Only statements; every proof is `exact <lemma>`.

   Vocabulary.  [view] = (offset, [(stride, size)]) -- LayoutOps.v, the model of the Rust
   layout functions.  [tensor A] = shape + row-major element list -- ArrayModel.v, the
   reference, which knows nothing about strides.  [denote s v] = the reference tensor that
   the view [v] of the storage [s] represents ([None] if the view reaches outside [s]).
   Every theorem is about an ARBITRARY source view [v] (any strides: permuted, stepped,
   broadcast, overlapping), so results chain.  [false] selects exact arithmetic. *)
From RV Require Import Prelude.
From Tensor Require Import Overlap.
From LayoutOps Require Import ArrayModel LayoutOps ModelC09 Array_proofs Denote_proofs
  SliceRange_proofs Gather_proofs Perm_proofs Bcast_proofs Reshape_proofs Copy_proofs
  Defined_proofs Clip_proofs Append_proofs Chain_proofs.
Open Scope N_scope.

(* ================================================================ SliceRange *)
(* resolve_clamped never panics *)
Theorem C09_clamp_resolves : forall r n,
  sr_step r <> 0%Z -> sr_resolve (sr_clamp r n) n <> None.
Proof. exact clamp_resolves. Qed.

(* SliceRange::index_range + IndexRange::steps + IndexRangeIter yield exactly the indices
   that Python's slice(start, stop, step).indices(n) selects (CPython's
   PySlice_AdjustIndices, transcribed in ArrayModel.py_indices) -- any sign of step, any
   (also out-of-range) bounds *)
Theorem C09_index_range_is_python_slice : forall r n g,
  sr_index_range r n = Ok g ->
  ir_iter g = py_indices n (sr_start r) (sr_end r) (sr_step r)
  /\ ir_steps g = lenN (py_indices n (sr_start r) (sr_end r) (sr_step r)).
Proof. exact index_range_python_slice. Qed.

(* ... and it does not panic for a non-zero step on a dimension whose size fits isize *)
Theorem C09_index_range_no_panic : forall r n,
  sr_step r <> 0%Z -> (Z.of_N n <= isize_max)%Z -> exists g, sr_index_range r n = Ok g.
Proof. exact index_range_ok. Qed.

(* ================================================================ slice (views) *)
Theorem C09_slice_denotes : forall (A : Type) (s : list A) v items v' t,
  denote s v = Some t -> slice false v items = Ok v' -> denote s v' = ref_slice t items.
Proof. exact @slice_denotes. Qed.

Theorem C09_slice_ok_defined : forall (A : Type) (s : list A) v items v' t,
  denote s v = Some t -> slice false v items = Ok v' -> exists t', ref_slice t items = Some t'.
Proof. exact @slice_defined. Qed.

(* an error (TooManyDims, InvalidIndex, InvalidRange, InvalidStep or a panic) exactly where
   the reference slice is undefined *)
Theorem C09_slice_error : forall (A : Type) (s : list A) v items e t,
  denote s v = Some t -> dims_small (v_dims v) -> slice false v items = Err e ->
  ref_slice t items = None.
Proof. exact @slice_error. Qed.

(* the release build (stride * step wraps mod 2^64) computes the same view when no such
   product overflows *)
Theorem C09_slice_release_mode : forall v items,
  slice_fits (v_dims v) items = true -> slice true v items = slice false v items.
Proof. exact slice_wrap_eq. Qed.

(* slice_copy (negative steps, clamped bounds): the NumPy result whenever one is returned *)
Theorem C09_slice_copy_is_numpy : forall (A : Type) (s : list A) v items t t',
  denote s v = Some t -> slice_copy false s v items = Ok t' -> ref_slice_numpy t items = Some t'.
Proof. exact @slice_copy_sound. Qed.

(* ... and it panics only where numpy's t[items] is undefined (zero step, index out of range,
   more items than axes) *)
Theorem C09_slice_copy_error : forall (A : Type) (s : list A) v items t e,
  denote s v = Some t -> dims_small (v_dims v) -> slice_copy false s v items = Err e ->
  ref_slice_numpy t items = None.
Proof. exact @slice_copy_error. Qed.

(* ================================================================ one axis *)
Theorem C09_index_axis_denotes : forall (A : Type) (s : list A) v axis i v' t,
  denote s v = Some t -> index_axis v axis i = Ok v' -> denote s v' = ref_index_axis t axis i.
Proof. exact @index_axis_denotes. Qed.

Theorem C09_index_axis_error : forall (A : Type) (s : list A) v axis i e t,
  denote s v = Some t -> index_axis v axis i = Err e -> ref_index_axis t axis i = None.
Proof. exact @index_axis_error. Qed.

Theorem C09_slice_axis_denotes : forall (A : Type) (s : list A) v axis a b v' t,
  denote s v = Some t -> slice_axis v axis a b = Ok v' -> denote s v' = ref_slice_axis t axis a b.
Proof. exact @slice_axis_denotes. Qed.

Theorem C09_slice_axis_error : forall (A : Type) (s : list A) v axis a b e t,
  denote s v = Some t -> slice_axis v axis a b = Err e -> ref_slice_axis t axis a b = None.
Proof. exact @slice_axis_error. Qed.

Theorem C09_split_denotes : forall (A : Type) (s : list A) v axis mid rt v' t,
  denote s v = Some t -> split v axis mid rt = Ok v' ->
  exists l r, ref_split t axis mid = Some (l, r) /\ denote s v' = Some (if rt then r else l).
Proof. exact @split_denotes. Qed.

Theorem C09_split_error : forall (A : Type) (s : list A) v axis mid rt e t,
  denote s v = Some t -> split v axis mid rt = Err e -> ref_split t axis mid = None.
Proof. exact @split_error. Qed.

(* ================================================================ permutations *)
Theorem C09_permuted_denotes : forall (A : Type) (s : list A) v p v' t,
  denote s v = Some t -> permuted v p = Ok v' -> denote s v' = ref_permute t p.
Proof. exact @permuted_denotes. Qed.

Theorem C09_permuted_error : forall (A : Type) (s : list A) v p e t,
  denote s v = Some t -> permuted v p = Err e -> ref_permute t p = None.
Proof. exact @permuted_error. Qed.

Theorem C09_transposed_denotes : forall (A : Type) (s : list A) v t,
  denote s v = Some t -> denote s (transposed v) = ref_transpose t.
Proof. exact @transposed_denotes. Qed.

Theorem C09_move_axis_denotes : forall (A : Type) (s : list A) v from to v' t,
  denote s v = Some t -> move_axis v from to = Ok v' -> denote s v' = ref_move_axis t from to.
Proof. exact @move_axis_denotes. Qed.

Theorem C09_move_axis_error : forall (A : Type) (s : list A) v from to e t,
  denote s v = Some t -> move_axis v from to = Err e -> ref_move_axis t from to = None.
Proof. exact @move_axis_error. Qed.

(* ================================================================ broadcast *)
Theorem C09_broadcast_denotes : forall (A : Type) (s : list A) v target v' t,
  denote s v = Some t -> broadcast v target = Ok v' -> denote s v' = ref_broadcast t target.
Proof. exact @broadcast_denotes. Qed.

Theorem C09_broadcast_error : forall (A : Type) (s : list A) v target e t,
  denote s v = Some t -> broadcast v target = Err e -> ref_broadcast t target = None.
Proof. exact @broadcast_error. Qed.

(* ================================================================ reshapes *)
Theorem C09_squeezed_denotes : forall (A : Type) (s : list A) v t,
  denote s v = Some t -> denote s (squeezed v) = ref_squeeze t.
Proof. exact @squeezed_denotes. Qed.

Theorem C09_insert_axis_denotes : forall (A : Type) (s : list A) v i v' t,
  denote s v = Some t -> insert_axis v i = Ok v' -> denote s v' = ref_insert_axis t i.
Proof. exact @insert_axis_denotes. Qed.

Theorem C09_insert_axis_error : forall (A : Type) (t : tensor A) (s : list A) v i e,
  denote s v = Some t -> insert_axis v i = Err e -> ref_insert_axis t i = None.
Proof. exact @insert_axis_error. Qed.

Theorem C09_remove_axis_denotes : forall (A : Type) (s : list A) v i v' t,
  denote s v = Some t -> remove_axis v i = Ok v' -> denote s v' = ref_remove_axis t i.
Proof. exact @remove_axis_denotes. Qed.

Theorem C09_remove_axis_error : forall (A : Type) (t : tensor A) (s : list A) v i e,
  denote s v = Some t -> remove_axis v i = Err e -> ref_remove_axis t i = None.
Proof. exact @remove_axis_error. Qed.

(* merge_axes changes the shape but neither the elements nor their order *)
Theorem C09_merge_axes_preserves_order : forall (A : Type) (s : list A) v t,
  denote s v = Some t ->
  exists t', denote s (merge_axes v) = Some t' /\ t_elems t' = t_elems t.
Proof. exact @merge_axes_preserves_order. Qed.

Theorem C09_reshaped_for_view_denotes : forall (A : Type) (s : list A) v shape v' t,
  denote s v = Some t -> reshaped_for_view false v shape = Ok v' -> denote s v' = ref_reshape t shape.
Proof. exact @reshaped_for_view_denotes. Qed.

(* NotContiguous is the documented precondition of view reshapes; LengthMismatch exactly
   where the reference reshape is undefined *)
Theorem C09_reshaped_for_view_error : forall (A : Type) (s : list A) v shape e t,
  denote s v = Some t -> reshaped_for_view false v shape = Err e ->
  (e = NotContiguous /\ is_contiguous false (v_dims v) = false)
  \/ (e = LengthMismatch /\ ref_reshape t shape = None).
Proof. exact @reshaped_for_view_error. Qed.

(* ================================================================ the model used by the check *)
(* clip_dim on an owned tensor with this layout (storage window moved to the front and
   truncated) is the reference slice along that axis *)
Theorem C09_clip_dim_denotes : forall st dm a b st' t,
  mdenote st = Some t -> apply_op false (OClipDim dm a b) st = Ok st' ->
  mdenote st' = ref_slice_axis t dm a b.
Proof. exact clip_dim_denotes. Qed.

(* append: an empty owned tensor with capacity along [axis], filled by appending the two
   halves view[.., :k, ..] and view[.., k:, ..] of a view, holds the view's tensor, which is
   numpy.concatenate of the two reference halves; InsufficientCapacity is the documented
   contract (no re-allocation) *)
Theorem C09_append_denotes : forall st axis k cap st' t,
  mdenote st = Some t -> apply_op false (OAppend axis k cap) st = Ok st' ->
  mdenote st' = Some t /\ ref_apply (OAppend axis k cap) t (result_shape st') = Some t.
Proof. exact append_denotes. Qed.

Theorem C09_append_error : forall st axis k cap e t,
  mdenote st = Some t -> apply_op false (OAppend axis k cap) st = Err e ->
  e = InsufficientCapacity \/ ref_apply (OAppend axis k cap) t (t_shape t) = None.
Proof. exact append_error. Qed.

(* the same for an owned tensor that was permuted in place (any memory order of the axes,
   dense or with gaps, built by from_data on a Vec with spare capacity or by with_capacity +
   append) before the second half is appended *)
Theorem C09_append_permuted_denotes : forall st mode perm axis k cap rep st' t,
  mdenote st = Some t -> apply_op false (OAppendP mode perm axis k cap rep) st = Ok st' ->
  mdenote st' = Some t
  /\ ref_apply (OAppendP mode perm axis k cap rep) t (result_shape st') = Some t.
Proof. exact append_p_denotes. Qed.

(* For EVERY operation of the correspondence model (all 19 kinds): if the model (exact
   arithmetic) succeeds on a state that denotes [t], the reference operation is defined on
   [t] and the new state denotes its result. *)
Theorem C09_op_correct : forall o st st' t,
  mdenote st = Some t -> apply_op false o st = Ok st' ->
  exists t', ref_apply o t (result_shape st') = Some t' /\ mdenote st' = Some t'.
Proof. exact op_correct. Qed.

(* ... and if it reports an error or panics, the reference operation is undefined, or the
   contiguity precondition of the view-only reshape fails, or (clip_dim) the harness could
   not build an owned tensor with this layout, or (append) the capacity is insufficient *)
Theorem C09_op_error_means_undefined : forall o st e t,
  dims_small (v_dims (m_view st)) ->
  mdenote st = Some t -> apply_op false o st = Err e ->
  contract_error o e = true \/ ref_apply o t (t_shape t) = None.
Proof. exact op_error_means_undefined. Qed.

(* chains: any sequence of operations on any source view denotes the sequence of reference
   operations on the source tensor *)
Theorem C09_chain_matches_reference : forall ops st t states,
  mdenote st = Some t ->
  run_chain false ops st = Ok states ->
  exists t', ref_chain ops (map result_shape states) t = Some t' /\ mdenote (last states st) = Some t'.
Proof. exact chain_matches_reference. Qed.

(* never lossy: the result has exactly the reference's elements -- in particular as many as
   its shape announces *)
Theorem C09_never_lossy : forall o st st' t,
  mdenote st = Some t -> apply_op false o st = Ok st' ->
  exists t', mdenote st' = Some t' /\ ref_apply o t (result_shape st') = Some t'
             /\ lenN (t_elems t') = prodN (t_shape t') /\ t_shape t' = result_shape st'.
Proof. exact never_lossy. Qed.

(* ================================================================ non-vacuity *)
(* a stepped, permuted, offset view of arange(40): slice with a negative index and a step,
   then broadcast -- the chain runs and the reference agrees *)
Example C09_nonvacuous :
  let st := mkM (range 40) (mkV 3 [(2, 3); (12, 2)]) in          (* shape [3;2], strides [2;12] *)
  let ops := [OSlice [Rng (-2) None 1; Idx (-1)]; OInsertAxis 0; OBroadcast [2; 2; 2]; OTranspose] in
  mdenote st = Some (mkT [3; 2] [3; 15; 5; 17; 7; 19])
  /\ (exists states, run_chain false ops st = Ok states
        /\ mdenote (last states st) = Some (mkT [2; 2; 2] [17; 17; 17; 17; 19; 19; 19; 19])
        /\ ref_chain ops (map result_shape states) (mkT [3; 2] [3; 15; 5; 17; 7; 19])
           = Some (mkT [2; 2; 2] [17; 17; 17; 17; 19; 19; 19; 19]))
  /\ slice false (m_view st) [Rng 0 (Some 4%Z) 1] = Err InvalidRange
  /\ ref_slice (mkT [3; 2] [3; 15; 5; 17; 7; 19]) [Rng 0 (Some 4%Z) 1] = None
  /\ py_indices 5 (-1) None (-2) = [4; 2; 0]
  /\ py_indices 5 (-10) None (-1) = [].
Proof.
  cbv zeta. split; [vm_compute; reflexivity|]. split.
  - eexists. split; [vm_compute; reflexivity|]. split; vm_compute; reflexivity.
  - repeat split; vm_compute; reflexivity.
Qed.
