(* C09 -- operations that select indices axis by axis: slice, slice_axis, index_axis, split.
   Each denotes the reference gather (ArrayModel.ref_gather) of the source. *)
From RV Require Import Prelude.
From Tensor Require Import Overlap.
From LayoutOps Require Import ArrayModel LayoutOps Array_proofs Denote_proofs SliceRange_proofs.
Open Scope N_scope.

(* how one dimension [d] is transformed by a selection: offset adjustment and new dimension *)
Inductive dim_sel (d : dim) : sel -> N -> option dim -> Prop :=
| ds_keep l adj st' :
    (forall j x, nth_error l j = Some x ->
                 x < d_size d /\ adj + N.of_nat j * st' = x * d_stride d) ->
    dim_sel d (l, true) adj (Some (st', lenN l))
| ds_drop x adj :
    x < d_size d -> adj = x * d_stride d -> dim_sel d ([x], false) adj None.

Inductive gather_rel : list dim -> list sel -> N -> list dim -> Prop :=
| gr_nil : gather_rel [] [] 0 []
| gr_cons d s adj nd dims ss off out :
    dim_sel d s adj nd -> gather_rel dims ss off out ->
    gather_rel (d :: dims) (s :: ss) (adj + off)
               (match nd with Some x => x :: out | None => out end).

Lemma gr_keep d s adj x dims ss off out :
  dim_sel d s adj (Some x) -> gather_rel dims ss off out ->
  gather_rel (d :: dims) (s :: ss) (adj + off) (x :: out).
Proof. intros H1 H2. exact (gr_cons d s adj (Some x) dims ss off out H1 H2). Qed.

Lemma gr_dropped d s adj dims ss off out :
  dim_sel d s adj None -> gather_rel dims ss off out ->
  gather_rel (d :: dims) (s :: ss) (adj + off) out.
Proof. intros H1 H2. exact (gr_cons d s adj None dims ss off out H1 H2). Qed.

Lemma gather_rel_shape dims ss off out :
  gather_rel dims ss off out -> shape_of out = gather_shape ss.
Proof.
  induction 1 as [|d s adj nd dims ss off out Hd _ IH]; [reflexivity|].
  unfold gather_shape in *. destruct Hd; cbn [filter snd map fst].
  - rewrite shape_of_cons, IH. reflexivity.
  - exact IH.
Qed.

Lemma gather_rel_in_range dims ss off out :
  gather_rel dims ss off out -> sels_in_range (shape_of dims) ss = true.
Proof.
  induction 1 as [|d s adj nd dims ss off out Hd _ IH]; [reflexivity|].
  rewrite shape_of_cons. cbn [sels_in_range]. rewrite IH, andb_true_r.
  apply forallb_forall. intros x Hx. apply N.ltb_lt.
  destruct Hd as [l adj st' H|x0 adj H0 _]; cbn [fst] in Hx.
  - apply In_nth_error in Hx as [j Hj]. apply (H j x Hj).
  - destruct Hx as [<-|[]]. exact H0.
Qed.

Lemma gather_rel_src dims ss off out :
  gather_rel dims ss off out ->
  forall idx, valid_b (shape_of out) idx = true ->
  exists src, gather_src ss idx = Some src /\ valid_b (shape_of dims) src = true /\
              off + dotN idx (strides_of out) = dotN src (strides_of dims).
Proof.
  induction 1 as [|d s adj nd dims ss off out Hd _ IH]; intros idx Hv.
  - destruct idx; [|discriminate]. exists []. repeat split.
  - destruct Hd as [l adj st' H|x adj Hx Hadj].
    + rewrite shape_of_cons in Hv. cbn [d_size snd] in Hv.
      destruct idx as [|i ir]; [discriminate|]. cbn [valid_b] in Hv.
      apply andb_prop in Hv as [Hi Hir]. apply N.ltb_lt in Hi.
      destruct (IH ir Hir) as (src & Hs & Hvs & E).
      assert (Hnth : exists x, nth_error l (N.to_nat i) = Some x).
      { destruct (nth_error l (N.to_nat i)) eqn:En; [eauto|].
        apply nth_error_None in En. unfold lenN in Hi. lia. }
      destruct Hnth as [x Hx]. destruct (H _ _ Hx) as [Hxs Hxe]. rewrite N2Nat.id in Hxe.
      exists (x :: src). cbn [gather_src]. rewrite Hx, Hs. split; [reflexivity|]. split.
      * rewrite shape_of_cons. cbn [valid_b]. apply N.ltb_lt in Hxs. now rewrite Hxs, Hvs.
      * rewrite !strides_of_cons. cbn [dotN d_stride fst]. lia.
    + destruct (IH idx Hv) as (src & Hs & Hvs & E).
      exists (x :: src). cbn [gather_src]. rewrite Hs. split; [reflexivity|]. split.
      * rewrite shape_of_cons. cbn [valid_b]. apply N.ltb_lt in Hx. now rewrite Hx, Hvs.
      * rewrite strides_of_cons. cbn [dotN]. lia.
Qed.

(* the generic theorem: a view obtained by a gather relation denotes the reference gather *)
Theorem gather_denotes {A} (s : list A) v t ss off out off' :
  denote s v = Some t -> gather_rel (v_dims v) ss off out ->
  (prod_sizes out <> 0 -> off' = v_off v + off) ->
  denote s (mkV off' out) = ref_gather t ss.
Proof.
  intros Ht Hg Hoff. unfold ref_gather.
  rewrite (denote_shape _ _ _ Ht), (gather_rel_in_range _ _ _ _ Hg).
  rewrite <- (gather_rel_shape _ _ _ _ Hg).
  apply (denote_reindex s v t (mkV off' out) (gather_src ss) Ht).
  cbn [v_off v_dims]. intros idx Hv.
  destruct (gather_rel_src _ _ _ _ Hg idx Hv) as (src & Hs & Hvs & E).
  exists src. split; [exact Hs|]. split; [exact Hvs|].
  rewrite Hoff; [lia|]. pose proof (lin_lt _ _ Hv). unfold prod_sizes. lia.
Qed.

(* and the reference result is defined *)
Lemma gather_defined {A} (t : tensor A) dims ss off out :
  wf_tensor t -> t_shape t = shape_of dims -> gather_rel dims ss off out ->
  exists t', ref_gather t ss = Some t'.
Proof.
  intros Hw Hsh Hg. unfold ref_gather.
  rewrite Hsh, (gather_rel_in_range _ _ _ _ Hg), <- (gather_rel_shape _ _ _ _ Hg).
  apply reindex_defined; [exact Hw|]. intros idx Hv.
  destruct (gather_rel_src _ _ _ _ Hg idx Hv) as (src & Hs & Hvs & _).
  exists src. rewrite Hsh. auto.
Qed.

(* ---------------------------------------------------------------- whole axes *)
Lemma dim_sel_full d : dim_sel d (sel_full (d_size d)) 0 (Some d).
Proof.
  unfold sel_full.
  replace (Some d) with (Some (d_stride d, lenN (range (d_size d)))).
  - constructor. intros j x Hj.
    assert (Hlt : (j < N.to_nat (d_size d))%nat).
    { rewrite <- range_length. apply nth_error_Some. congruence. }
    rewrite nth_error_range in Hj by exact Hlt. injection Hj as <-. split; lia.
  - unfold lenN. rewrite range_length, N2Nat.id. now destruct d.
Qed.

Lemma gather_rel_full dims : gather_rel dims (map sel_full (shape_of dims)) 0 dims.
Proof.
  induction dims as [|d r IH]; [constructor|].
  rewrite shape_of_cons. cbn [map].
  change 0 with (0 + 0) at 1.
  apply gr_keep; [apply dim_sel_full|exact IH].
Qed.

Lemma sels_of_nil selector shape : sels_of selector shape [] = Some (map sel_full shape).
Proof. induction shape as [|n r IH]; [reflexivity|]. cbn [sels_of map]. now rewrite IH. Qed.

(* ---------------------------------------------------------------- slice *)
Lemma neg_resolve_eq n idx :
  (if 0 <=? idx then idx else idx + n)%Z = neg_resolve n idx.
Proof. unfold neg_resolve. destruct (0 <=? idx)%Z eqn:E1, (idx <? 0)%Z eqn:E2; lia. Qed.

Lemma nth_error_map_range {B} (f : N -> B) cnt j y :
  nth_error (map f (range cnt)) j = Some y -> N.of_nat j < cnt /\ y = f (N.of_nat j).
Proof.
  intros H. rewrite nth_error_map in H.
  destruct (nth_error (range cnt) j) eqn:E; [|discriminate]. cbn in H. injection H as <-.
  assert (Hlt : (j < N.to_nat cnt)%nat).
  { rewrite <- range_length. apply nth_error_Some. congruence. }
  rewrite nth_error_range in E by exact Hlt. injection E as <-. split; [lia|reflexivity].
Qed.

Lemma slice_loop_rel dims items off out :
  (length items <= length dims)%nat ->
  slice_loop false dims items = Ok (off, out) ->
  exists ss, sels_of sel_strict (shape_of dims) items = Some ss /\ gather_rel dims ss off out.
Proof.
  revert items off out. induction dims as [|d rest IH]; intros items off out Hlen H.
  - destruct items; [|cbn [length] in Hlen; lia].
    cbn [slice_loop] in H. injection H as <- <-. exists []. split; [reflexivity|constructor].
  - cbn [slice_loop] in H. rewrite shape_of_cons.
    destruct items as [|it items'].
    + (* no item: the dimension is kept whole *)
      destruct (slice_loop false rest []) as [[off' out']|e] eqn:E; [|discriminate].
      injection H as <- <-.
      destruct (IH [] off' out' ltac:(cbn; lia) E) as (ss & Hss & Hg).
      exists (sel_full (d_size d) :: ss). split.
      * cbn [sels_of]. now rewrite Hss.
      * apply gr_keep; [apply dim_sel_full|exact Hg].
    + cbn [length] in Hlen. destruct it as [idx|st0 e st].
      * (* index *)
        rewrite neg_resolve_eq in H.
        destruct ((neg_resolve (Z.of_N (d_size d)) idx <? 0)%Z
                  || (Z.of_N (d_size d) <=? neg_resolve (Z.of_N (d_size d)) idx)%Z) eqn:Eb; [discriminate|].
        destruct (slice_loop false rest items') as [[off' out']|e] eqn:E; [|discriminate].
        injection H as <- <-.
        destruct (IH items' off' out' ltac:(lia) E) as (ss & Hss & Hg).
        apply orb_false_elim in Eb as [Eb1 Eb2].
        exists (([Z.to_N (neg_resolve (Z.of_N (d_size d)) idx)], false) :: ss). split.
        -- cbn [sels_of sel_strict]. unfold sel_index.
           replace ((0 <=? _) && _)%Z with true by lia. now rewrite Hss.
        -- apply gr_dropped; [|exact Hg]. constructor; lia.
      * (* range *)
        destruct (sr_resolve (mkSR st0 e st) (d_size d)) as [[rs re]|] eqn:Er; [|discriminate].
        destruct (st <? 0)%Z eqn:Eneg; [discriminate|].
        match type of H with
        | match ?ns with Err e => _ | Ok nsz => _ end = _ => destruct ns as [nsz|e'] eqn:Ens; [|discriminate]
        end.
        destruct (slice_loop false rest items') as [[off' out']|e'] eqn:E; [|discriminate].
        injection H as <- <-.
        destruct (IH items' off' out' ltac:(lia) E) as (ss & Hss & Hg).
        assert (Hpos : (0 < st)%Z).
        { destruct (Z.to_N st =? 1) eqn:E1; [lia|].
          destruct (sr_index_range (mkSR st0 e st) (d_size d)) as [g|] eqn:Eg; [|discriminate].
          assert (st <> 0)%Z.
          { intros ->. exact (index_range_zero_step (mkSR st0 e 0) (d_size d) g eq_refl Eg). }
          lia. }
        destruct (strict_range_spec (mkSR st0 e st) (d_size d) rs re nsz Hpos Er Ens) as [Hsel Hbound].
        cbn [sr_start sr_end sr_step] in Hsel, Hbound.
        exists ((map (fun k => rs + k * Z.to_N st) (range nsz), true) :: ss). split.
        -- cbn [sels_of]. now rewrite Hsel, Hss.
        -- cbn [wr]. unfold mkdim.
           apply gr_keep; [|exact Hg].
           replace nsz with (lenN (map (fun k => rs + k * Z.to_N st) (range nsz))) at 2
             by (unfold lenN; now rewrite map_length, range_length, N2Nat.id).
           constructor. intros j x Hj.
           apply nth_error_map_range in Hj as [Hj ->]. split; [now apply Hbound|lia].
Qed.

Lemma existsb_zero_prod out :
  existsb (fun d => d_size d =? 0) out = true -> prod_sizes out = 0.
Proof.
  unfold prod_sizes. induction out as [|d r IH]; [discriminate|].
  cbn [existsb]. rewrite shape_of_cons. cbn [prodN]. intros H.
  apply orb_prop in H as [H|H].
  - apply N.eqb_eq in H. rewrite H. apply N.mul_0_l.
  - rewrite (IH H). apply N.mul_0_r.
Qed.

Theorem slice_denotes {A} (s : list A) v items v' t :
  denote s v = Some t -> slice false v items = Ok v' -> denote s v' = ref_slice t items.
Proof.
  intros Ht H. unfold slice in H.
  destruct (ndim (v_dims v) <? lenN items) eqn:El; [discriminate|].
  unfold slice_layout in H.
  destruct (slice_loop false (v_dims v) items) as [[off out]|e] eqn:E; [|discriminate].
  injection H as <-.
  apply N.ltb_ge in El. unfold ndim, lenN in El.
  assert (Hlen : (length items <= length (v_dims v))%nat) by lia.
  destruct (slice_loop_rel _ _ _ _ Hlen E) as (ss & Hss & Hg).
  unfold ref_slice, ref_slice_with. rewrite (denote_shape _ _ _ Ht), Hss.
  apply (gather_denotes s v t ss off out); [exact Ht|exact Hg|].
  intros Hne. destruct (existsb _ out) eqn:Ez; [|reflexivity].
  apply existsb_zero_prod in Ez. contradiction.
Qed.

(* every dimension size fits isize (true of every tensor whose storage exists; only
   zero-stride broadcasts could exceed it) *)
Definition dims_small (dims : list dim) : Prop :=
  Forall (fun d => (Z.of_N (d_size d) <= isize_max)%Z) dims.

Lemma slice_loop_error dims items e :
  dims_small dims -> slice_loop false dims items = Err e ->
  sels_of sel_strict (shape_of dims) items = None.
Proof.
  revert items e. induction dims as [|d rest IH]; intros items e Hsm H; [discriminate|].
  inversion Hsm as [|? ? Hd Hrest]; subst.
  cbn [slice_loop] in H. rewrite shape_of_cons.
  destruct items as [|it items'].
  - destruct (slice_loop false rest []) as [[off' out']|e'] eqn:E; [discriminate|].
    cbn [sels_of]. now rewrite (IH [] _ Hrest E).
  - cbn [sels_of]. destruct it as [idx|st0 en st].
    + rewrite neg_resolve_eq in H. cbn [sel_strict]. unfold sel_index.
      destruct ((neg_resolve (Z.of_N (d_size d)) idx <? 0)%Z
                || (Z.of_N (d_size d) <=? neg_resolve (Z.of_N (d_size d)) idx)%Z) eqn:Eb.
      * replace ((0 <=? _) && _)%Z with false by lia. reflexivity.
      * destruct (slice_loop false rest items') as [[off' out']|e'] eqn:E; [discriminate|].
        rewrite (IH items' _ Hrest E). now destruct ((0 <=? _) && _)%Z.
    + destruct (Z_lt_le_dec 0 st) as [Hpos|Hnp].
      2:{ now rewrite strict_nonpos_step by exact Hnp. }
      destruct (sr_resolve (mkSR st0 en st) (d_size d)) as [[rs re]|] eqn:Er.
      2:{ pose proof (strict_range_undefined (mkSR st0 en st) (d_size d) Hpos Er) as Hu.
          cbn [sr_start sr_end sr_step] in Hu. now rewrite Hu. }
      replace (st <? 0)%Z with false in H by lia.
      match type of H with
      | match ?ns with Err e => _ | Ok nsz => _ end = _ => destruct ns as [nsz|e'] eqn:Ens
      end.
      * destruct (slice_loop false rest items') as [[off' out']|e'] eqn:E; [discriminate|].
        rewrite (IH items' _ Hrest E). now destruct (sel_strict _ _).
      * exfalso. destruct (Z.to_N st =? 1); [discriminate|].
        destruct (index_range_ok (mkSR st0 en st) (d_size d)) as [g Hg]; [cbn; lia|exact Hd|].
        rewrite Hg in Ens. discriminate.
Qed.

Lemma sels_of_too_many selector shape items :
  (length shape < length items)%nat -> sels_of selector shape items = None.
Proof.
  revert items. induction shape as [|n r IH]; intros [|it ir] H; cbn [length] in H; try lia.
  - reflexivity.
  - cbn [sels_of]. rewrite IH by lia. now destruct (selector n it).
Qed.

Theorem slice_error {A} (s : list A) v items e t :
  denote s v = Some t -> dims_small (v_dims v) -> slice false v items = Err e ->
  ref_slice t items = None.
Proof.
  intros Ht Hsm H. unfold ref_slice, ref_slice_with. rewrite (denote_shape _ _ _ Ht).
  unfold slice in H. destruct (ndim (v_dims v) <? lenN items) eqn:El.
  - apply N.ltb_lt in El. unfold ndim, lenN in El.
    rewrite sels_of_too_many; [reflexivity|]. rewrite shape_of_length. lia.
  - unfold slice_layout in H.
    destruct (slice_loop false (v_dims v) items) as [[off out]|e'] eqn:E; [discriminate|].
    now rewrite (slice_loop_error _ _ _ Hsm E).
Qed.

(* the wrapping build computes the same result whenever no stride * step product overflows *)
Fixpoint slice_fits (dims : list dim) (items : list item) : bool :=
  match dims, items with
  | d :: rest, Rng _ _ st :: items' => (d_stride d * Z.to_N st <? two64) && slice_fits rest items'
  | _ :: rest, _ :: items' => slice_fits rest items'
  | _, _ => true
  end.

Lemma slice_loop_wrap dims items :
  slice_fits dims items = true -> slice_loop true dims items = slice_loop false dims items.
Proof.
  revert items. induction dims as [|d rest IH]; intros items H; [reflexivity|].
  destruct items as [|it items'].
  - cbn [slice_loop]. rewrite IH; [reflexivity|]. now destruct rest.
  - cbn [slice_fits] in H. destruct it as [idx|st0 e st]; cbn [slice_loop].
    + now rewrite (IH _ H).
    + apply andb_prop in H as [H1 H2]. rewrite (IH _ H2). cbn [wr].
      apply N.ltb_lt in H1. now rewrite (wrap64_small _ H1).
Qed.

Theorem slice_wrap_eq v items :
  slice_fits (v_dims v) items = true -> slice true v items = slice false v items.
Proof. intros H. unfold slice, slice_layout. now rewrite slice_loop_wrap. Qed.

(* ---------------------------------------------------------------- one axis *)
Lemma axis_rel dims axis d sl adj nd :
  nth_error dims axis = Some d -> dim_sel d sl adj nd ->
  exists ss, axis_sels (shape_of dims) axis sl = Some ss /\
             gather_rel dims ss adj (match nd with
                                     | Some x => replace_at axis x dims
                                     | None => remove_at axis dims
                                     end).
Proof.
  revert dims. induction axis as [|a IH]; intros [|x r] Hn Hd; cbn [nth_error] in Hn; try discriminate.
  - injection Hn as ->. rewrite shape_of_cons. cbn [axis_sels].
    exists (sl :: map sel_full (shape_of r)). split; [reflexivity|].
    replace adj with (adj + 0) by lia.
    destruct nd as [y|]; cbn [replace_at remove_at].
    + apply gr_keep; [exact Hd|apply gather_rel_full].
    + apply gr_dropped; [exact Hd|apply gather_rel_full].
  - destruct (IH r Hn Hd) as (ss & Hss & Hg). rewrite shape_of_cons. cbn [axis_sels].
    rewrite Hss. cbn [option_map]. exists (sel_full (d_size x) :: ss). split; [reflexivity|].
    replace adj with (0 + adj) by lia.
    destruct nd as [y|]; cbn [replace_at remove_at];
      (apply gr_keep; [apply dim_sel_full|exact Hg]).
Qed.

Lemma nthN_nth_error {B} (l : list B) k d : k < lenN l -> nth_error l (N.to_nat k) = Some (nthN l k d).
Proof. intros H. unfold nthN. apply nth_error_nth'. unfold lenN in H. lia. Qed.

Lemma axis_sels_none shape axis sl : (length shape <= axis)%nat -> axis_sels shape axis sl = None.
Proof.
  revert axis. induction shape as [|n r IH]; intros [|a] H; cbn [length] in H; try lia; try reflexivity.
  cbn [axis_sels]. now rewrite IH by lia.
Qed.

(* ---- index_axis *)
Theorem index_axis_denotes {A} (s : list A) v axis i v' t :
  denote s v = Some t -> index_axis v axis i = Ok v' -> denote s v' = ref_index_axis t axis i.
Proof.
  intros Ht H. unfold index_axis in H.
  destruct (ndim (v_dims v) <=? axis) eqn:Ea; [discriminate|]. apply N.leb_gt in Ea.
  set (d := nthN (v_dims v) axis (0, 0)) in *.
  destruct (d_size d <=? i) eqn:Ei; [discriminate|]. apply N.leb_gt in Ei.
  injection H as <-.
  unfold ref_index_axis. rewrite (denote_shape _ _ _ Ht), nthN_shape_of. fold d.
  apply N.ltb_lt in Ei as Ei'. rewrite Ei'.
  assert (Hn : nth_error (v_dims v) (N.to_nat axis) = Some d) by (now apply nthN_nth_error).
  destruct (axis_rel (v_dims v) (N.to_nat axis) d ([i], false) (i * d_stride d) None Hn) as (ss & Hss & Hg).
  { now constructor. }
  rewrite Hss. apply (gather_denotes s v t ss (i * d_stride d)); [exact Ht|exact Hg|].
  intros Hne. unfold is_empty. apply N.eqb_neq in Hne. rewrite Hne. lia.
Qed.

Theorem index_axis_error {A} (s : list A) v axis i e t :
  denote s v = Some t -> index_axis v axis i = Err e -> ref_index_axis t axis i = None.
Proof.
  intros Ht H. unfold index_axis in H. unfold ref_index_axis.
  rewrite (denote_shape _ _ _ Ht), nthN_shape_of.
  destruct (ndim (v_dims v) <=? axis) eqn:Ea.
  - apply N.leb_le in Ea. unfold ndim, lenN in Ea.
    destruct (i <? _); [|reflexivity].
    rewrite axis_sels_none; [reflexivity|]. rewrite shape_of_length. lia.
  - destruct (d_size (nthN (v_dims v) axis (0, 0)) <=? i) eqn:Ei; [|discriminate].
    apply N.leb_le in Ei. apply N.ltb_ge in Ei. now rewrite Ei.
Qed.

(* ---- slice_axis *)
Lemma dim_sel_span d a n' :
  a + n' <= d_size d ->
  dim_sel d (map (N.add a) (range n'), true) (a * d_stride d) (Some (mkdim n' (d_stride d))).
Proof.
  intros H. unfold mkdim.
  replace n' with (lenN (map (N.add a) (range n'))) at 2
    by (unfold lenN; now rewrite map_length, range_length, N2Nat.id).
  constructor. intros j x Hj. apply nth_error_map_range in Hj as [Hj ->]. split; lia.
Qed.

Lemma set_size_eq dims k n d :
  nth_error dims k = Some d -> set_size k n dims = replace_at k (mkdim n (d_stride d)) dims.
Proof. intros H. unfold set_size. now rewrite H. Qed.

Theorem slice_axis_denotes {A} (s : list A) v axis a b v' t :
  denote s v = Some t -> slice_axis v axis a b = Ok v' -> denote s v' = ref_slice_axis t axis a b.
Proof.
  intros Ht H. unfold slice_axis in H.
  destruct (ndim (v_dims v) <=? axis) eqn:Ea; [discriminate|]. apply N.leb_gt in Ea.
  set (d := nthN (v_dims v) axis (0, 0)) in *.
  destruct ((b <? a) || (d_size d <? b)) eqn:Eb; [discriminate|].
  injection H as <-. apply orb_false_elim in Eb as [Eb1 Eb2].
  apply N.ltb_ge in Eb1, Eb2.
  unfold ref_slice_axis. rewrite (denote_shape _ _ _ Ht), nthN_shape_of. fold d.
  replace ((a <=? b) && (b <=? d_size d)) with true
    by (symmetry; apply andb_true_intro; split; apply N.leb_le; assumption).
  assert (Hn : nth_error (v_dims v) (N.to_nat axis) = Some d) by (now apply nthN_nth_error).
  destruct (axis_rel (v_dims v) (N.to_nat axis) d (map (N.add a) (range (b - a)), true)
                     (a * d_stride d) (Some (mkdim (b - a) (d_stride d))) Hn) as (ss & Hss & Hg).
  { apply dim_sel_span. lia. }
  rewrite Hss. rewrite (set_size_eq _ _ _ _ Hn).
  apply (gather_denotes s v t ss (a * d_stride d)); [exact Ht|exact Hg|].
  intros Hne. unfold is_empty. apply N.eqb_neq in Hne. rewrite Hne. reflexivity.
Qed.

Theorem slice_axis_error {A} (s : list A) v axis a b e t :
  denote s v = Some t -> slice_axis v axis a b = Err e -> ref_slice_axis t axis a b = None.
Proof.
  intros Ht H. unfold slice_axis in H. unfold ref_slice_axis.
  rewrite (denote_shape _ _ _ Ht), nthN_shape_of.
  destruct (ndim (v_dims v) <=? axis) eqn:Ea.
  - apply N.leb_le in Ea. unfold ndim, lenN in Ea.
    destruct (_ && _); [|reflexivity].
    rewrite axis_sels_none; [reflexivity|]. rewrite shape_of_length. lia.
  - destruct ((b <? a) || (d_size (nthN (v_dims v) axis (0, 0)) <? b)) eqn:Eb; [|discriminate].
    apply orb_prop in Eb as [Eb|Eb]; apply N.ltb_lt in Eb.
    + apply N.leb_gt in Eb. now rewrite Eb.
    + apply N.leb_gt in Eb. now rewrite Eb, andb_false_r.
Qed.

(* ---- split *)
Theorem split_denotes {A} (s : list A) v axis mid rt v' t :
  denote s v = Some t -> split v axis mid rt = Ok v' ->
  exists l r, ref_split t axis mid = Some (l, r) /\ denote s v' = Some (if rt then r else l).
Proof.
  intros Ht H. unfold split in H.
  destruct (ndim (v_dims v) <=? axis) eqn:Ea; [discriminate|]. apply N.leb_gt in Ea.
  set (d := nthN (v_dims v) axis (0, 0)) in *.
  destruct (d_size d <? mid) eqn:Em; [discriminate|]. apply N.ltb_ge in Em.
  assert (Hn : nth_error (v_dims v) (N.to_nat axis) = Some d) by (now apply nthN_nth_error).
  pose proof (denote_wf _ _ _ Ht) as Hw. pose proof (denote_shape _ _ _ Ht) as Hsh.
  (* both halves of the reference split are defined *)
  destruct (axis_rel (v_dims v) (N.to_nat axis) d (map (N.add 0) (range (mid - 0)), true)
                     (0 * d_stride d) (Some (mkdim (mid - 0) (d_stride d))) Hn) as (ssl & Hssl & Hgl).
  { apply dim_sel_span. lia. }
  destruct (axis_rel (v_dims v) (N.to_nat axis) d (map (N.add mid) (range (d_size d - mid)), true)
                     (mid * d_stride d) (Some (mkdim (d_size d - mid) (d_stride d))) Hn) as (ssr & Hssr & Hgr).
  { apply dim_sel_span. lia. }
  destruct (gather_defined t _ _ _ _ Hw Hsh Hgl) as [tl Hl].
  destruct (gather_defined t _ _ _ _ Hw Hsh Hgr) as [tr Hr].
  assert (Hrefl : ref_slice_axis t axis 0 mid = Some tl).
  { unfold ref_slice_axis. rewrite Hsh, nthN_shape_of. fold d.
    replace ((0 <=? mid) && (mid <=? d_size d)) with true
      by (symmetry; apply andb_true_intro; split; apply N.leb_le; lia).
    now rewrite Hssl. }
  assert (Hrefr : ref_slice_axis t axis mid (d_size d) = Some tr).
  { unfold ref_slice_axis. rewrite Hsh, nthN_shape_of. fold d.
    replace ((mid <=? d_size d) && (d_size d <=? d_size d)) with true
      by (symmetry; apply andb_true_intro; split; apply N.leb_le; lia).
    now rewrite Hssr. }
  exists tl, tr. split.
  - unfold ref_split. rewrite Hsh, nthN_shape_of. fold d. now rewrite Hrefl, Hrefr.
  - destruct rt; injection H as <-.
    + rewrite <- Hr. rewrite (set_size_eq _ _ _ _ Hn).
      apply (gather_denotes s v t ssr (mid * d_stride d)); [exact Ht|exact Hgr|].
      intros Hne. unfold is_empty. apply N.eqb_neq in Hne. rewrite Hne. reflexivity.
    + rewrite <- Hl. rewrite (set_size_eq _ _ _ _ Hn).
      replace (mid - 0) with mid in Hgl by lia.
      apply (gather_denotes s v t ssl (0 * d_stride d)); [exact Ht|exact Hgl|].
      intros _. lia.
Qed.

Theorem split_error {A} (s : list A) v axis mid rt e t :
  denote s v = Some t -> split v axis mid rt = Err e -> ref_split t axis mid = None.
Proof.
  intros Ht H. unfold split in H. unfold ref_split, ref_slice_axis.
  rewrite (denote_shape _ _ _ Ht), nthN_shape_of.
  destruct (ndim (v_dims v) <=? axis) eqn:Ea.
  - apply N.leb_le in Ea. unfold ndim, lenN in Ea.
    destruct (_ && _); [|reflexivity].
    rewrite axis_sels_none; [reflexivity|]. rewrite shape_of_length. lia.
  - destruct (d_size (nthN (v_dims v) axis (0, 0)) <? mid) eqn:Em.
    + apply N.ltb_lt in Em. apply N.leb_gt in Em. now rewrite Em, andb_false_r.
    + now destruct rt.
Qed.
