(* C09 -- every operation of the correspondence model (ModelC09.apply_op, exact arithmetic)
   matches the reference operation (ModelC09.ref_apply) on the denoted tensor; chains compose. *)
From RV Require Import Prelude.
From Tensor Require Import Overlap.
From LayoutOps Require Import ArrayModel LayoutOps ModelC09 Array_proofs Denote_proofs
  SliceRange_proofs Gather_proofs Perm_proofs Bcast_proofs Reshape_proofs Copy_proofs
  Defined_proofs Clip_proofs Append_proofs.
From Coq Require Import Permutation.
Open Scope N_scope.


Lemma mdenote_fresh (t : tensor N) : wf_tensor t -> mdenote (fresh t) = Some t.
Proof. intros H. unfold mdenote, fresh. cbn [m_store m_view]. now apply denote_fresh. Qed.

Lemma lift_ok st r st' : lift st r = Ok st' -> exists v', r = Ok v' /\ st' = mkM (m_store st) v'.
Proof. unfold lift. destruct r; [|discriminate]. intros [= <-]. eauto. Qed.

Theorem op_matches_reference o st st' t :
  mdenote st = Some t -> apply_op false o st = Ok st' ->
  mdenote st' = ref_apply o t (result_shape st').
Proof.
  intros Ht H. destruct o; try exact (clip_dim_denotes _ _ _ _ _ _ Ht H).
  all: try (destruct (append_denotes _ _ _ _ _ _ Ht H) as [A1 A2]; rewrite A1, A2; reflexivity).
  all: try (destruct (append_p_denotes _ _ _ _ _ _ _ _ _ Ht H) as [A1 A2]; rewrite A1, A2; reflexivity).
  all: unfold mdenote in *; cbn [apply_op ref_apply] in *.
  - (* slice *)
    destruct (zero_step items); [discriminate|].
    apply lift_ok in H as (v' & Hv & ->). cbn [m_store m_view].
    now apply (slice_denotes _ (m_view st)).
  - apply lift_ok in H as (v' & Hv & ->). now apply (slice_axis_denotes _ (m_view st)).
  - apply lift_ok in H as (v' & Hv & ->). now apply (index_axis_denotes _ (m_view st)).
  - apply lift_ok in H as (v' & Hv & ->). now apply (permuted_denotes _ (m_view st)).
  - injection H as <-. now apply transposed_denotes.
  - apply lift_ok in H as (v' & Hv & ->). now apply (move_axis_denotes _ (m_view st)).
  - apply lift_ok in H as (v' & Hv & ->). now apply (broadcast_denotes _ (m_view st)).
  - apply lift_ok in H as (v' & Hv & ->). now apply (reshaped_for_view_denotes _ (m_view st)).
  - injection H as <-. now apply squeezed_denotes.
  - apply lift_ok in H as (v' & Hv & ->). now apply (insert_axis_denotes _ (m_view st)).
  - apply lift_ok in H as (v' & Hv & ->). now apply (remove_axis_denotes _ (m_view st)).
  - injection H as <-. cbn [m_store m_view result_shape]. now apply merge_axes_denotes.
  - (* split *)
    apply lift_ok in H as (v' & Hv & ->). cbn [m_store m_view].
    destruct (split_denotes _ _ _ _ _ _ _ Ht Hv) as (l & r & -> & Hd). exact Hd.
  - (* slice_copy *)
    destruct (zero_step items); [discriminate|].
    destruct (slice_copy false (m_store st) (m_view st) items) as [t'|e] eqn:E; [|discriminate].
    injection H as <-.
    rewrite (slice_copy_sound _ _ _ _ _ Ht E). apply mdenote_fresh.
    exact (slice_copy_wf _ _ _ _ _ Ht E).
  - (* reshaped: view or copy *)
    destruct (reshaped_for_view false (m_view st) shape) as [v'|e] eqn:E.
    + injection H as <-. now apply (reshaped_for_view_denotes _ (m_view st)).
    + destruct (prodN shape =? prod_sizes (v_dims (m_view st))) eqn:Ep; [|discriminate].
      rewrite <- denote_eq_fast, Ht in H. injection H as <-.
      apply N.eqb_eq in Ep.
      assert (Hlen : lenN (t_elems t) = prodN shape).
      { pose proof (denote_wf _ _ _ Ht) as Hw. unfold wf_tensor in Hw. unfold lenN. rewrite Hw.
        rewrite (denote_shape _ _ _ Ht). now rewrite Ep. }
      unfold ref_reshape. rewrite Hlen, N.eqb_refl.
      apply (mdenote_fresh (mkT shape (t_elems t))). exact Hlen.
  - (* to_contiguous *)
    destruct (is_contiguous false (v_dims (m_view st))).
    + injection H as <-. exact Ht.
    + rewrite <- denote_eq_fast, Ht in H. injection H as <-.
      apply mdenote_fresh. exact (denote_wf _ _ _ Ht).
Qed.

(* an error (or panic) is reported only where the reference operation is undefined, or --
   for the view-only reshape -- where the documented contiguity precondition fails. *)

Theorem op_error_means_undefined o st e t :
  dims_small (v_dims (m_view st)) ->
  mdenote st = Some t -> apply_op false o st = Err e ->
  contract_error o e = true \/ ref_apply o t (t_shape t) = None.
Proof.
  intros Hsm Ht H. destruct o.
  17:{ destruct (clip_dim_error _ _ _ _ _ _ Ht H) as [->|Hn]; [now left|now right]. }
  17:{ destruct (append_error _ _ _ _ _ _ Ht H) as [->|Hn]; [now left|now right]. }
  17:{ destruct (append_p_error _ _ _ _ _ _ _ _ _ Ht H) as [->|Hn]; [now left|now right]. }
  all: unfold mdenote in *; cbn [apply_op ref_apply] in *; try discriminate.
  - right. destruct (zero_step items); [reflexivity|].
    unfold lift in H. destruct (slice false (m_view st) items) eqn:E; [discriminate|].
    eapply slice_error; eassumption.
  - right. unfold lift in H. destruct (slice_axis _ _ _ _) eqn:E; [discriminate|].
    eapply slice_axis_error; eassumption.
  - right. unfold lift in H. destruct (index_axis _ _ _) eqn:E; [discriminate|].
    eapply index_axis_error; eassumption.
  - right. unfold lift in H. destruct (permuted _ _) eqn:E; [discriminate|].
    eapply permuted_error; eassumption.
  - right. unfold lift in H. destruct (move_axis _ _ _) eqn:E; [discriminate|].
    eapply move_axis_error; eassumption.
  - right. unfold lift in H. destruct (broadcast _ _) eqn:E; [discriminate|].
    eapply broadcast_error; eassumption.
  - unfold lift in H. destruct (reshaped_for_view false _ _) eqn:E; [discriminate|].
    injection H as <-.
    destruct (reshaped_for_view_error _ _ _ _ _ Ht E) as [[-> _]|[-> Hn]]; [now left|now right].
  - right. unfold lift in H. destruct (insert_axis _ _) eqn:E; [discriminate|].
    eapply insert_axis_error; eassumption.
  - right. unfold lift in H. destruct (remove_axis _ _) eqn:E; [discriminate|].
    eapply remove_axis_error; eassumption.
  - right. unfold lift in H. destruct (split _ _ _ _) eqn:E; [discriminate|].
    now rewrite (split_error _ _ _ _ _ _ _ Ht E).
  - (* slice_copy *)
    right. destruct (zero_step items); [reflexivity|].
    destruct (slice_copy false (m_store st) (m_view st) items) eqn:E; [discriminate|].
    eapply slice_copy_error; eassumption.
  - (* reshaped panics only on a size mismatch *)
    right. destruct (reshaped_for_view false (m_view st) shape) eqn:E; [discriminate|].
    destruct (prodN shape =? prod_sizes (v_dims (m_view st))) eqn:Ep.
    + rewrite <- denote_eq_fast, Ht in H. discriminate.
    + unfold ref_reshape.
      pose proof (denote_wf _ _ _ Ht) as Hw. unfold wf_tensor in Hw. unfold lenN. rewrite Hw.
      rewrite (denote_shape _ _ _ Ht). unfold prod_sizes in Ep. now rewrite Ep.
  - (* to_contiguous never fails on a view that denotes a tensor *)
    destruct (is_contiguous false _); [discriminate|].
    rewrite <- denote_eq_fast, Ht in H. discriminate.
Qed.

(* ---------------------------------------------------------------- Ok => defined *)
Lemma transposed_as_permuted v :
  permuted v (rev (range (ndim (v_dims v)))) = Ok (transposed v).
Proof.
  unfold permuted, transposed. rewrite is_perm_rev. f_equal. f_equal. symmetry. apply rev_as_map.
Qed.

Lemma move_axis_as_permuted v from to v' :
  move_axis v from to = Ok v' -> permuted v (move_order (ndim (v_dims v)) from to) = Ok v'.
Proof.
  intros H. unfold move_axis in H.
  destruct ((from <? ndim (v_dims v)) && (to <? ndim (v_dims v))) eqn:E; [|discriminate].
  injection H as <-. apply andb_prop in E as [Ef _]. apply N.ltb_lt in Ef.
  unfold permuted. rewrite (is_perm_move_order _ _ _ Ef). f_equal. f_equal.
  unfold move_order. rewrite map_insert_at. f_equal.
  rewrite (remove_at_as_map _ _ (0, 0)). unfold ndim. f_equal.
  apply filter_ext. intros j. now rewrite N2Nat.id.
Qed.

(* a successful operation yields a state that denotes a tensor (so, with
   op_matches_reference, the reference operation is defined and equal) *)
Theorem op_result_defined o st st' t :
  mdenote st = Some t -> apply_op false o st = Ok st' ->
  exists t', mdenote st' = Some t'.
Proof.
  intros Ht H.
  pose proof (op_matches_reference o st st' t Ht H) as Hm.
  destruct o; try exact (clip_dim_defined _ _ _ _ _ _ Ht H).
  all: try (destruct (append_denotes _ _ _ _ _ _ Ht H) as [A1 _]; eexists; exact A1).
  all: try (destruct (append_p_denotes _ _ _ _ _ _ _ _ _ Ht H) as [A1 _]; eexists; exact A1).
  all: unfold mdenote in *; cbn [apply_op ref_apply] in *.
  - destruct (zero_step items); [discriminate|].
    apply lift_ok in H as (v' & Hv & ->). rewrite Hm. exact (slice_defined _ _ _ _ _ Ht Hv).
  - apply lift_ok in H as (v' & Hv & ->). rewrite Hm. exact (slice_axis_defined _ _ _ _ _ _ _ Ht Hv).
  - apply lift_ok in H as (v' & Hv & ->). rewrite Hm. exact (index_axis_defined _ _ _ _ _ _ Ht Hv).
  - apply lift_ok in H as (v' & Hv & ->). rewrite Hm. exact (permuted_defined _ _ _ _ _ Ht Hv).
  - injection H as <-. rewrite Hm. unfold ref_transpose. rewrite (denote_rank _ _ _ Ht).
    exact (permuted_defined _ _ _ _ _ Ht (transposed_as_permuted (m_view st))).
  - apply lift_ok in H as (v' & Hv & ->). rewrite Hm. unfold ref_move_axis.
    rewrite (denote_rank _ _ _ Ht).
    pose proof Hv as Hv0. unfold move_axis in Hv0.
    destruct ((from <? ndim (v_dims (m_view st))) && (to <? ndim (v_dims (m_view st)))); [|discriminate].
    exact (permuted_defined _ _ _ _ _ Ht (move_axis_as_permuted _ _ _ _ Hv)).
  - apply lift_ok in H as (v' & Hv & ->). rewrite Hm. exact (broadcast_defined _ _ _ _ _ Ht Hv).
  - (* reshaped_for_view *)
    apply lift_ok in H as (v' & Hv & ->). cbn [m_store m_view].
    apply (same_offsets_some _ (m_view st) v' t Ht).
    unfold reshaped_for_view in Hv.
    destruct (is_contiguous false (v_dims (m_view st))) eqn:Ec; cbn [negb] in Hv; [|discriminate].
    destruct (prodN shape =? prod_sizes (v_dims (m_view st))) eqn:Ep; cbn [negb] in Hv; [|discriminate].
    injection Hv as <-. apply N.eqb_eq in Ep.
    apply same_offsets; [reflexivity|]. cbn [v_dims].
    rewrite off_list_contiguous_dims, (is_contiguous_offsets _ Ec). now rewrite Ep.
  - injection H as <-. cbn [m_store m_view].
    apply (same_offsets_some _ (m_view st) _ t Ht). apply same_offsets; [reflexivity|].
    apply off_list_squeeze.
  - apply lift_ok in H as (v' & Hv & ->). cbn [m_store m_view].
    apply (same_offsets_some _ (m_view st) v' t Ht). unfold insert_axis in Hv.
    destruct (ndim (v_dims (m_view st)) <? i) eqn:E; [discriminate|]. injection Hv as <-.
    apply N.ltb_ge in E. unfold ndim, lenN in E.
    apply same_offsets; [reflexivity|]. cbn [v_dims]. unfold mkdim.
    apply off_list_insert_unit. lia.
  - apply lift_ok in H as (v' & Hv & ->). cbn [m_store m_view].
    apply (same_offsets_some _ (m_view st) v' t Ht). unfold remove_axis in Hv.
    destruct (ndim (v_dims (m_view st)) <=? i) eqn:E; [discriminate|].
    destruct (d_size (nthN (v_dims (m_view st)) i (0, 0)) =? 1) eqn:E1; [|discriminate].
    cbn [negb] in Hv. injection Hv as <-.
    apply N.leb_gt in E. apply N.eqb_eq in E1. unfold ndim, lenN in E.
    apply same_offsets; [reflexivity|]. cbn [v_dims].
    apply off_list_remove_unit; [exact E1|lia].
  - injection H as <-. cbn [m_store m_view].
    apply (same_offsets_some _ (m_view st) _ t Ht). apply same_offsets; [reflexivity|].
    apply off_list_merge.
  - apply lift_ok in H as (v' & Hv & ->). cbn [m_store m_view].
    destruct (split_denotes _ _ _ _ _ _ _ Ht Hv) as (l & r & _ & Hd). eauto.
  - destruct (zero_step items); [discriminate|].
    destruct (slice_copy false (m_store st) (m_view st) items) as [t'|e] eqn:E; [|discriminate].
    injection H as <-. exists t'. apply mdenote_fresh. exact (slice_copy_wf _ _ _ _ _ Ht E).
  - rewrite Hm. destruct (reshaped_for_view false (m_view st) shape) as [v'|e] eqn:E.
    + rewrite <- Hm. injection H as <-. cbn [m_store m_view].
      apply (same_offsets_some _ (m_view st) v' t Ht). unfold reshaped_for_view in E.
      destruct (is_contiguous false (v_dims (m_view st))) eqn:Ec; cbn [negb] in E; [|discriminate].
      destruct (prodN shape =? prod_sizes (v_dims (m_view st))) eqn:Ep; cbn [negb] in E; [|discriminate].
      injection E as <-. apply N.eqb_eq in Ep.
      apply same_offsets; [reflexivity|]. cbn [v_dims].
      rewrite off_list_contiguous_dims, (is_contiguous_offsets _ Ec). now rewrite Ep.
    + destruct (prodN shape =? prod_sizes (v_dims (m_view st))) eqn:Ep; [|discriminate].
      apply N.eqb_eq in Ep. unfold ref_reshape.
      pose proof (denote_wf _ _ _ Ht) as Hw. unfold wf_tensor in Hw. unfold lenN. rewrite Hw.
      rewrite (denote_shape _ _ _ Ht). unfold prod_sizes in Ep. rewrite Ep, N.eqb_refl. eauto.
  - rewrite Hm. eauto.
Qed.

(* the two directions together: Ok => the reference is defined and the result denotes it *)
Corollary op_correct o st st' t :
  mdenote st = Some t -> apply_op false o st = Ok st' ->
  exists t', ref_apply o t (result_shape st') = Some t' /\ mdenote st' = Some t'.
Proof.
  intros Ht H. destruct (op_result_defined o st st' t Ht H) as [t' Ht'].
  exists t'. split; [|exact Ht']. now rewrite <- (op_matches_reference o st st' t Ht H).
Qed.

(* ---------------------------------------------------------------- chains *)

(* composition: a chain of operations on an arbitrary source view denotes the chain of
   reference operations applied to the source tensor *)
Theorem chain_matches_reference ops st t states :
  mdenote st = Some t ->
  run_chain false ops st = Ok states ->
  exists t', ref_chain ops (map result_shape states) t = Some t' /\ mdenote (last states st) = Some t'.
Proof.
  revert st t states. induction ops as [|o r IH]; intros st t states Ht H.
  - cbn [run_chain] in H. injection H as <-. exists t. split; [reflexivity|exact Ht].
  - cbn [run_chain] in H.
    destruct (apply_op false o st) as [st1|e] eqn:E1; [|discriminate].
    destruct (run_chain false r st1) as [l|e] eqn:E2; [|discriminate]. injection H as <-.
    destruct (op_correct o st st1 t Ht E1) as (t1 & Hr1 & Hd1).
    destruct (IH st1 t1 l Hd1 E2) as (t' & Hc & Hl).
    exists t'. cbn [map ref_chain]. rewrite Hr1. split; [exact Hc|].
    destruct l as [|m l']; [exact Hl|].
    assert (Hlast : forall (l0 : list mstate) x d d', last (x :: l0) d = last (x :: l0) d').
    { induction l0 as [|y r0 IHl]; intros x d d'; [reflexivity|]. cbn [last]. apply (IHl y). }
    change (last (st1 :: m :: l') st) with (last (m :: l') st).
    now rewrite (Hlast l' m st st1).
Qed.

(* never lossy: every tensor denoted along the way has exactly as many elements as its shape,
   and the same count as the reference result (they are equal) *)
Corollary never_lossy o st st' t :
  mdenote st = Some t -> apply_op false o st = Ok st' ->
  exists t', mdenote st' = Some t' /\ ref_apply o t (result_shape st') = Some t'
             /\ lenN (t_elems t') = prodN (t_shape t') /\ t_shape t' = result_shape st'.
Proof.
  intros Ht H. destruct (op_correct o st st' t Ht H) as (t' & Hr & Hd).
  exists t'. repeat split; try assumption.
  - exact (denote_wf _ _ _ Hd).
  - exact (denote_shape _ _ _ Hd).
Qed.
