(* C09 -- clip_dim on an owned tensor (storage window moved to offset 0 and truncated)
   denotes the reference slice along one axis. *)
From RV Require Import Prelude.
From Tensor Require Import Overlap.
From LayoutOps Require Import ArrayModel LayoutOps ModelC09 Array_proofs Denote_proofs
  SliceRange_proofs Gather_proofs Defined_proofs.
Open Scope N_scope.

Lemma nth_error_skipn' {B} (l : list B) o k : nth_error (skipn o l) k = nth_error l (o + k).
Proof.
  revert l. induction o as [|o IH]; intros l; [reflexivity|].
  destruct l as [|x r]; [now destruct k|]. cbn [skipn Nat.add nth_error]. apply IH.
Qed.

Lemma nth_error_firstn' {B} (l : list B) n k : (k < n)%nat -> nth_error (firstn n l) k = nth_error l k.
Proof.
  revert l k. induction n as [|n IH]; intros l k H; [lia|].
  destruct l as [|x r]; [now destruct k|]. destruct k as [|k]; [reflexivity|].
  cbn [firstn nth_error]. apply IH. lia.
Qed.

Lemma nth_error_sublist {B} (l : list B) start len k :
  k < len -> nth_error (sublist start len l) (N.to_nat k) = nth_error l (N.to_nat (start + k)).
Proof.
  intros H. unfold sublist. rewrite nth_error_firstn' by lia. rewrite nth_error_skipn'.
  f_equal. lia.
Qed.

(* every offset of a layout is at most max_off *)
Lemma off_list_le_max dims k : In k (off_list dims) -> k <= max_off dims.
Proof.
  revert k. induction dims as [|d r IH]; intros k H.
  - cbn in H. destruct H as [<-|[]]. cbn. lia.
  - cbn [off_list] in H. apply in_flat_map in H as (i & Hi & H).
    apply in_map_iff in H as (q & <- & Hq). apply In_range in Hi. apply IH in Hq.
    cbn [max_off]. nia.
Qed.

Lemma is_empty_existsb dims : is_empty dims = existsb (fun d => d_size d =? 0) dims.
Proof.
  unfold is_empty, prod_sizes. induction dims as [|d r IH]; [reflexivity|].
  rewrite shape_of_cons. cbn [prodN existsb]. rewrite <- IH.
  destruct (d_size d =? 0) eqn:E1.
  - apply N.eqb_eq in E1. rewrite E1. reflexivity.
  - cbn [orb]. apply N.eqb_neq in E1.
    destruct (prodN (shape_of r) =? 0) eqn:E2.
    + apply N.eqb_eq in E2. rewrite E2. apply N.eqb_eq. lia.
    + apply N.eqb_neq in E2. apply N.eqb_neq. nia.
Qed.

(* moving the window of a view to the front of a truncated storage does not change what it
   denotes *)
Lemma denote_window {A} (s : list A) o dims t :
  denote s (mkV o dims) = Some t ->
  denote (sublist o (if is_empty dims then 0 else min_data_len dims) s) (mkV 0 dims) = Some t.
Proof.
  intros H. rewrite denote_eq_fast in *. unfold denote_fast, view_offsets in *. cbn [v_off v_dims] in *.
  destruct (mapM (fun o0 => nth_error s (N.to_nat o0)) (map (N.add o) (off_list dims))) as [l|] eqn:E; [|discriminate].
  cbn [option_map] in H. injection H as <-.
  rewrite mapM_map in E.
  erewrite map_ext; [rewrite map_id|intros a; apply N.add_0_l].
  erewrite mapM_ext_in; [rewrite E; reflexivity|].
  intros k Hk. cbn beta. apply nth_error_sublist.
  rewrite is_empty_existsb. unfold min_data_len.
  destruct (existsb (fun d => d_size d =? 0) dims) eqn:Ez.
  - exfalso. pose proof (length_off_list dims) as L.
    assert (Hp : prod_sizes dims = 0).
    { pose proof (is_empty_existsb dims) as Hx. rewrite Ez in Hx. unfold is_empty in Hx. now apply N.eqb_eq in Hx. }
    rewrite Hp in L. destruct (off_list dims); [destruct Hk|discriminate].
  - pose proof (off_list_le_max dims k Hk). lia.
Qed.

Theorem clip_dim_denotes st dm a b st' t :
  mdenote st = Some t -> apply_op false (OClipDim dm a b) st = Ok st' ->
  mdenote st' = ref_slice_axis t dm a b.
Proof.
  intros Ht H. unfold mdenote in *. cbn [apply_op] in H.
  destruct (may_have_internal_overlap false _ _); [discriminate|].
  destruct (ndim (v_dims (m_view st)) <=? dm) eqn:Ea; [discriminate|].
  set (d := nthN (v_dims (m_view st)) dm (0, 0)) in *.
  destruct ((b <? a) || (d_size d <? b)) eqn:Eb; [discriminate|].
  injection H as <-. cbn [m_store m_view].
  set (dims' := set_size (N.to_nat dm) (b - a) (v_dims (m_view st))) in *.
  assert (Hsa : slice_axis (m_view st) dm a b
                = Ok (mkV (v_off (m_view st) + (if is_empty dims' then 0 else a * d_stride d)) dims')).
  { unfold slice_axis. rewrite Ea. fold d. rewrite Eb. reflexivity. }
  pose proof (slice_axis_denotes _ _ _ _ _ _ _ Ht Hsa) as Hd.
  destruct (slice_axis_defined _ _ _ _ _ _ _ Ht Hsa) as [t1 Ht1].
  rewrite Ht1 in Hd. rewrite Ht1. now apply denote_window.
Qed.

Corollary clip_dim_defined st dm a b st' t :
  mdenote st = Some t -> apply_op false (OClipDim dm a b) st = Ok st' ->
  exists t', mdenote st' = Some t'.
Proof.
  intros Ht H. rewrite (clip_dim_denotes st dm a b st' t Ht H).
  unfold mdenote in Ht. cbn [apply_op] in H.
  destruct (may_have_internal_overlap false _ _); [discriminate|].
  destruct (ndim (v_dims (m_view st)) <=? dm) eqn:Ea; [discriminate|].
  destruct ((b <? a) || (d_size (nthN (v_dims (m_view st)) dm (0, 0)) <? b)) eqn:Eb; [discriminate|].
  eapply (slice_axis_defined _ (m_view st)); [exact Ht|].
  unfold slice_axis. rewrite Ea, Eb. reflexivity.
Qed.

Theorem clip_dim_error st dm a b e t :
  mdenote st = Some t -> apply_op false (OClipDim dm a b) st = Err e ->
  e = MayOverlap \/ ref_slice_axis t dm a b = None.
Proof.
  intros Ht H. unfold mdenote in *. cbn [apply_op] in H.
  destruct (may_have_internal_overlap false _ _); [injection H as <-; now left|]. right.
  destruct (slice_axis (m_view st) dm a b) as [v'|e'] eqn:Es.
  - exfalso. unfold slice_axis in Es.
    destruct (ndim (v_dims (m_view st)) <=? dm); [discriminate|].
    destruct ((b <? a) || (d_size (nthN (v_dims (m_view st)) dm (0, 0)) <? b)); discriminate.
  - eapply slice_axis_error; eassumption.
Qed.
