(* C09 -- operations that keep the sequence of storage offsets: squeezed, insert_axis,
   remove_axis, merge_axes, reshaped_for_view.  Each denotes a reshape of the source. *)
From RV Require Import Prelude.
From Tensor Require Import Overlap.
From LayoutOps Require Import ArrayModel LayoutOps Array_proofs Denote_proofs.
Open Scope N_scope.

(* ---------------------------------------------------------------- squeezed *)
Lemma off_list_squeeze (dims : list dim) :
  off_list (filter (fun d => negb (d_size d =? 1)) dims) = off_list dims.
Proof.
  induction dims as [|[st sz] r IH]; [reflexivity|].
  cbn [filter d_size snd]. destruct (sz =? 1) eqn:E; cbn [negb].
  - apply N.eqb_eq in E. subst sz. now rewrite off_list_unit.
  - cbn [off_list]. now rewrite IH.
Qed.

Lemma shape_of_filter f dims :
  shape_of (filter (fun d => f (d_size d)) dims) = filter f (shape_of dims).
Proof.
  induction dims as [|d r IH]; [reflexivity|]. cbn [filter shape_of map].
  destruct (f (d_size d)); cbn [shape_of map]; unfold shape_of in IH; now rewrite IH.
Qed.

Theorem squeezed_denotes {A} (s : list A) v t :
  denote s v = Some t -> denote s (squeezed v) = ref_squeeze t.
Proof.
  intros H. unfold ref_squeeze. rewrite (denote_shape _ _ _ H).
  rewrite (denote_same_offsets s v (squeezed v) t H).
  - unfold squeezed. cbn [v_dims].
    now rewrite (shape_of_filter (fun n => negb (n =? 1))).
  - apply same_offsets; [reflexivity|]. apply off_list_squeeze.
Qed.

(* ---------------------------------------------------------------- insert_axis *)
Lemma off_list_insert_unit k st (dims : list dim) :
  (k <= length dims)%nat -> off_list (insert_at k ((st, 1) : dim) dims) = off_list dims.
Proof.
  revert dims. induction k as [|k IH]; intros dims Hk.
  - cbn [insert_at]. apply off_list_unit.
  - destruct dims as [|d r]; cbn [length] in Hk; [lia|].
    cbn [insert_at off_list]. rewrite IH by lia. reflexivity.
Qed.

Lemma shape_of_insert_at k d dims :
  shape_of (insert_at k d dims) = insert_at k (d_size d) (shape_of dims).
Proof.
  revert dims. induction k as [|k IH]; intros dims; [reflexivity|].
  destruct dims as [|x r]; [reflexivity|]. cbn [insert_at shape_of map]. f_equal. apply IH.
Qed.

Theorem insert_axis_denotes {A} (s : list A) v i v' t :
  denote s v = Some t -> insert_axis v i = Ok v' -> denote s v' = ref_insert_axis t i.
Proof.
  intros H Hi. unfold insert_axis in Hi. unfold ref_insert_axis.
  rewrite (denote_rank _ _ _ H), (denote_shape _ _ _ H).
  destruct (ndim (v_dims v) <? i) eqn:E; [discriminate|]. injection Hi as <-.
  apply N.ltb_ge in E. apply N.leb_le in E as E'. rewrite E'.
  unfold ndim, lenN in E.
  erewrite denote_same_offsets; [|exact H|].
  - cbn [v_dims]. rewrite shape_of_insert_at. reflexivity.
  - apply same_offsets; [reflexivity|]. cbn [v_dims]. unfold mkdim.
    apply off_list_insert_unit. lia.
Qed.

Theorem insert_axis_error {A} (t : tensor A) (s : list A) v i e :
  denote s v = Some t -> insert_axis v i = Err e -> ref_insert_axis t i = None.
Proof.
  intros H Hi. unfold insert_axis in Hi. unfold ref_insert_axis.
  rewrite (denote_rank _ _ _ H).
  destruct (ndim (v_dims v) <? i) eqn:E; [|discriminate].
  apply N.ltb_lt in E. apply N.leb_gt in E. now rewrite E.
Qed.

(* ---------------------------------------------------------------- remove_axis *)
Lemma off_list_remove_unit k (dims : list dim) :
  d_size (nth k dims (0, 0)) = 1 -> (k < length dims)%nat -> off_list (remove_at k dims) = off_list dims.
Proof.
  revert dims. induction k as [|k IH]; intros [|[st sz] r] Hs Hk; cbn [length] in Hk; try lia.
  - cbn [nth d_size snd] in Hs. subst sz. cbn [remove_at]. now rewrite off_list_unit.
  - cbn [nth] in Hs. cbn [remove_at off_list]. rewrite IH by (assumption || lia). reflexivity.
Qed.

Lemma shape_of_remove_at k dims : shape_of (remove_at k dims) = remove_at k (shape_of dims).
Proof.
  revert dims. induction k as [|k IH]; intros [|d r]; try reflexivity.
  cbn [remove_at shape_of map]. f_equal. apply IH.
Qed.

Theorem remove_axis_denotes {A} (s : list A) v i v' t :
  denote s v = Some t -> remove_axis v i = Ok v' -> denote s v' = ref_remove_axis t i.
Proof.
  intros H Hi. unfold remove_axis in Hi. unfold ref_remove_axis.
  rewrite (denote_rank _ _ _ H), (denote_shape _ _ _ H), nthN_shape_of.
  destruct (ndim (v_dims v) <=? i) eqn:E; [discriminate|].
  destruct (d_size (nthN (v_dims v) i (0, 0)) =? 1) eqn:E1; [|discriminate].
  cbn [negb] in Hi. injection Hi as <-.
  apply N.leb_gt in E. apply N.ltb_lt in E as E'. rewrite E'. cbn [andb].
  apply N.eqb_eq in E1. unfold ndim, lenN in E.
  erewrite denote_same_offsets; [|exact H|].
  - cbn [v_dims]. now rewrite shape_of_remove_at.
  - apply same_offsets; [reflexivity|]. cbn [v_dims].
    apply off_list_remove_unit; [exact E1|lia].
Qed.

Theorem remove_axis_error {A} (t : tensor A) (s : list A) v i e :
  denote s v = Some t -> remove_axis v i = Err e -> ref_remove_axis t i = None.
Proof.
  intros H Hi. unfold remove_axis in Hi. unfold ref_remove_axis.
  rewrite (denote_rank _ _ _ H), (denote_shape _ _ _ H), nthN_shape_of.
  destruct (ndim (v_dims v) <=? i) eqn:E.
  - apply N.leb_le in E. apply N.ltb_ge in E. now rewrite E.
  - destruct (d_size (nthN (v_dims v) i (0, 0)) =? 1); [discriminate|]. now rewrite andb_false_r.
Qed.

(* ---------------------------------------------------------------- merge_axes *)
(* merging an outer dimension into the dimension inside it *)
Lemma off_list_merge_two sto so sti si r :
  so = 1 \/ sto = sti * si ->
  off_list ((sto, so) :: (sti, si) :: r) = off_list ((sti, si * so) :: r).
Proof.
  intros [H|H]; subst.
  - now rewrite off_list_unit, N.mul_1_r.
  - cbn [off_list d_size d_stride fst snd].
    replace (si * so) with (so * si) by lia. rewrite range_mul, flat_map_flat_map.
    apply flat_map_ext_in. intros a _. rewrite map_flat_map, flat_map_map.
    apply flat_map_ext_in. intros b _. rewrite map_map. apply map_ext. intros q. lia.
Qed.

Lemma merge_loop_offsets rdims acc :
  off_list (merge_loop rdims acc) = off_list (rev rdims ++ acc).
Proof.
  revert acc. induction rdims as [|o r IH]; intros acc; [reflexivity|].
  cbn [merge_loop rev]. rewrite <- app_assoc. cbn [app].
  destruct acc as [|i acc'].
  - apply IH.
  - destruct ((d_size o =? 1) || (d_stride o =? d_stride i * d_size i)) eqn:E.
    + rewrite IH, !(off_list_app (rev r)). apply flat_map_ext_in. intros p _. f_equal.
      destruct o as [sto so], i as [sti si]. cbn [d_size d_stride fst snd] in *. unfold mkdim.
      symmetry. apply off_list_merge_two.
      apply orb_prop in E as [E|E]; apply N.eqb_eq in E; auto.
    + apply IH.
Qed.

Lemma off_list_merge dims : off_list (merge_dims dims) = off_list dims.
Proof. unfold merge_dims. now rewrite merge_loop_offsets, app_nil_r, rev_involutive. Qed.

(* the reference does not prescribe the merged shape: the result is the reshape of the source
   to whatever shape merge_axes produced -- same elements, same order *)
Theorem merge_axes_denotes {A} (s : list A) v t :
  denote s v = Some t ->
  denote s (merge_axes v) = ref_reshape t (shape_of (v_dims (merge_axes v))).
Proof.
  intros H. apply (denote_same_offsets s v); [exact H|].
  apply same_offsets; [reflexivity|]. apply off_list_merge.
Qed.

Corollary merge_axes_preserves_order {A} (s : list A) v t :
  denote s v = Some t ->
  exists t', denote s (merge_axes v) = Some t' /\ t_elems t' = t_elems t.
Proof.
  intros H. rewrite (merge_axes_denotes s v t H). unfold ref_reshape.
  assert (E : prodN (shape_of (v_dims (merge_axes v))) = lenN (t_elems t)).
  { pose proof (denote_wf _ _ _ H) as Hw. unfold wf_tensor in Hw. unfold lenN. rewrite Hw.
    rewrite (denote_shape _ _ _ H).
    pose proof (length_off_list (v_dims (merge_axes v))) as L1.
    pose proof (length_off_list (v_dims v)) as L2.
    cbn [merge_axes v_dims] in *. rewrite off_list_merge in L1. unfold prod_sizes in *. lia. }
  rewrite E, N.eqb_refl. eexists. split; reflexivity.
Qed.

(* ---------------------------------------------------------------- reshaped_for_view *)
Theorem reshaped_for_view_denotes {A} (s : list A) v shape v' t :
  denote s v = Some t -> reshaped_for_view false v shape = Ok v' -> denote s v' = ref_reshape t shape.
Proof.
  intros H Hr. unfold reshaped_for_view in Hr.
  destruct (is_contiguous false (v_dims v)) eqn:Ec; cbn [negb] in Hr; [|discriminate].
  destruct (prodN shape =? prod_sizes (v_dims v)) eqn:Ep; cbn [negb] in Hr; [|discriminate].
  injection Hr as <-. apply N.eqb_eq in Ep.
  erewrite denote_same_offsets; [|exact H|].
  - cbn [v_dims]. now rewrite shape_of_contiguous_dims.
  - apply same_offsets; [reflexivity|]. cbn [v_dims].
    rewrite off_list_contiguous_dims, (is_contiguous_offsets _ Ec). now rewrite Ep.
Qed.

(* LengthMismatch is reported exactly when the reference reshape is undefined (for a
   contiguous source); NotContiguous is the documented precondition of view reshapes *)
Theorem reshaped_for_view_error {A} (s : list A) v shape e t :
  denote s v = Some t -> reshaped_for_view false v shape = Err e ->
  (e = NotContiguous /\ is_contiguous false (v_dims v) = false)
  \/ (e = LengthMismatch /\ ref_reshape t shape = None).
Proof.
  intros H Hr. unfold reshaped_for_view in Hr.
  destruct (is_contiguous false (v_dims v)) eqn:Ec; cbn [negb] in Hr.
  - destruct (prodN shape =? prod_sizes (v_dims v)) eqn:Ep; cbn [negb] in Hr; [discriminate|].
    injection Hr as <-. right. split; [reflexivity|]. unfold ref_reshape.
    pose proof (denote_wf _ _ _ H) as Hw. unfold wf_tensor in Hw. unfold lenN. rewrite Hw.
    rewrite (denote_shape _ _ _ H). unfold prod_sizes in Ep. now rewrite Ep.
  - injection Hr as <-. left. split; reflexivity.
Qed.

Theorem reshape_defined_iff {A} (t : tensor A) shape :
  wf_tensor t -> (ref_reshape t shape <> None <-> prodN shape = prodN (t_shape t)).
Proof.
  intros Hw. unfold ref_reshape, lenN. unfold wf_tensor in Hw. rewrite Hw.
  destruct (prodN shape =? prodN (t_shape t)) eqn:E.
  - apply N.eqb_eq in E. split; [auto|discriminate].
  - apply N.eqb_neq in E. split; [intros C; now contradiction C|intros C; contradiction].
Qed.
