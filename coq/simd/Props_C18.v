(* C18 -- SIMD instruction sets agree and stay within slice bounds: property statements.
   Every theorem is `exact` a lemma of Simd_proofs / Iter_proofs / Prims_proofs / C18_lemmas.
   [lanes] is ANY vector length >= 1 (generic 4/8/16, AVX2 8/16/32, AVX-512 16/32/64, or a
   scalable-vector ISA); the memory model faults on every access outside the slice. *)
From RV Require Import Prelude.
From Simd Require Import SimdModel Simd_proofs Iter_proofs Prims_proofs C18_lemmas.

(* ---- simd_map: result ---- *)
(* in place, lane-wise function: exactly the scalar map; in particular no fault *)
Theorem C18_simd_map_spec :
  forall (E : Type) (pad : E) (lanes : nat), (1 <= lanes)%nat ->
  forall (g : E -> E) (xs : list E), simd_map pad lanes (map g) xs = Done (map g xs).
Proof. exact @simd_map_lanewise. Qed.

(* separate source and destination of equal length *)
Theorem C18_simd_map_src_dst_spec :
  forall (E : Type) (pad : E) (lanes : nat), (1 <= lanes)%nat ->
  forall (g : E -> E) (src dst : list E), length dst = length src ->
  fst (simd_map_tr pad lanes (map g) false src dst) = Done (map g src).
Proof. exact @simd_map_srcdst_lanewise. Qed.

(* arbitrary (cross-lane) vector function: the chunk-wise image, last vector padded then cut *)
Theorem C18_simd_map_general :
  forall (E : Type) (pad : E) (lanes : nat), (1 <= lanes)%nat ->
  forall (op : list E -> list E) (xs : list E),
  (forall x, length x = lanes -> length (op x) = lanes) ->
  simd_map_tr pad lanes op true xs xs
  = (Done (chunk_map pad lanes op (S (length xs)) xs), trace_spec lanes (S (length xs)) 0 (length xs)).
Proof. exact @simd_map_tr_inplace. Qed.

(* ---- simd_map: bounds.  Every load and store index is inside the slice; every index is read
        exactly once and written exactly once, in order (so the destination is fully initialised) ---- *)
Theorem C18_reads_writes_in_bounds :
  forall (E : Type) (pad : E) (lanes : nat), (1 <= lanes)%nat ->
  forall (op : list E -> list E) (inplace : bool) (src dst : list E),
  (forall x, length x = lanes -> length (op x) = lanes) -> length dst = length src ->
  (inplace = true -> dst = src) ->
  let t := snd (simd_map_tr pad lanes op inplace src dst) in
  (forall a, In a t -> (acc_idx a < length src)%nat)
  /\ writes t = seq 0 (length src) /\ reads t = seq 0 (length src).
Proof. exact @simd_map_accesses. Qed.

(* the mask of a partial vector is exactly `i < remaining` *)
Theorem C18_tail_mask_exact :
  forall lanes n i, (i < lanes)%nat -> nth i (first_n_mask lanes n) false = Nat.ltb i n.
Proof. exact first_n_mask_nth. Qed.

(* masked load of a tail that ends the slice: lanes beyond the end hold the pad value and nothing
   at or past the end is indexed; masked store writes only the tail *)
Theorem C18_masked_tail_load :
  forall (E : Type) (pad : E) (lanes : nat), (1 <= lanes)%nat -> forall (pre tail : list E), (length tail <= lanes)%nat ->
  load_ptr_mask pad (pre ++ tail) (length pre) (first_n_mask lanes (length tail))
  = (Done (tail ++ repeat pad (lanes - length tail)), map Rd (seq (length pre) (length tail))).
Proof. exact @masked_tail_load. Qed.

Theorem C18_masked_tail_store :
  forall (E : Type) (lanes : nat), (1 <= lanes)%nat -> forall (pre tail v : list E), (length tail <= lanes)%nat -> length v = lanes ->
  store_ptr_mask (pre ++ tail) (length pre) v (first_n_mask lanes (length tail))
  = (Done (pre ++ firstn (length tail) v), map Wr (seq (length pre) (length tail))).
Proof. exact @masked_tail_store. Qed.

(* the model is not vacuous about bounds: a mask that is one lane too wide DOES fault *)
Theorem C18_off_by_one_mask_faults :
  forall (E : Type) (pad : E) (lanes : nat), (1 <= lanes)%nat -> forall (pre tail : list E), (length tail < lanes)%nat ->
  exists t, load_ptr_mask pad (pre ++ tail) (length pre) (first_n_mask lanes (S (length tail)))
            = (Fault (length pre + length tail), t).
Proof. exact @off_by_one_mask_faults. Qed.

(* ---- simd_apply::<UNROLL> ---- *)
Theorem C18_simd_apply_spec :
  forall (E : Type) (pad : E) (lanes : nat), (1 <= lanes)%nat ->
  forall (g : E -> E) (unroll : nat) (dst : list E),
  exists t, simd_apply_tr pad lanes (map g) unroll dst = (Done (map g dst), t)
            /\ writes t = seq 0 (length dst) /\ reads t = seq 0 (length dst).
Proof. exact @simd_apply_lanewise. Qed.

(* ---- SimdIterable ---- *)
(* simd_iter: the full vectors in order, fewer than [lanes] elements left, len() = n / lanes *)
Theorem C18_iter_chunks :
  forall (E : Type) (lanes : nat), (1 <= lanes)%nat -> forall (fuel : nat) (xs : list E),
  (length xs < fuel)%nat ->
  let '(cs, r) := chunks lanes fuel xs in
  concat cs ++ r = xs /\ Forall (fun c => length c = lanes) cs /\ (length r < lanes)%nat
  /\ length cs = (length xs / lanes)%nat.
Proof. exact @chunks_spec. Qed.

(* simd_iter_pad: the slice followed by fewer than [lanes] pad values; every vector is full *)
Theorem C18_iter_pad_spec :
  forall (E : Type) (pad : E) (lanes : nat), (1 <= lanes)%nat -> forall xs : list E,
  exists k, concat (iter_pad pad lanes xs) = xs ++ repeat pad k /\ (k < lanes)%nat
            /\ Forall (fun c => length c = lanes) (iter_pad pad lanes xs)
            /\ (length xs + k = lanes * length (iter_pad pad lanes xs))%nat.
Proof. exact @iter_pad_spec. Qed.

(* Iter::fold with a lane-wise combiner g: lane j folds the j-th element of every full vector and of
   the tail if the tail reaches lane j; padding never enters the result (fold_n = this per accumulator) *)
Theorem C18_fold_spec :
  forall (E : Type) (pad : E) (lanes : nat), (1 <= lanes)%nat ->
  forall (g : E -> E -> E) (d : E) (xs acc : list E) (j : nat),
  length acc = lanes -> (j < lanes)%nat ->
  let '(cs, r) := iter_chunks lanes xs in
  nth j (iter_fold pad lanes (vzip g) acc xs) d
  = fold_left g (col d j cs ++ (if Nat.ltb j (length r) then [nth j r d] else [])) (nth j acc d).
Proof. exact @iter_fold_spec. Qed.

(* Iter::fold_n (and the tail of fold_n_unroll): N accumulators, accumulator i updated by an arbitrary vector
   function f_i.  The result is, per accumulator, the masked single-accumulator fold of C18_fold_spec: the
   zero-padded lanes of the tail never enter any accumulator, whether the reduction is a sum, a min or a max *)
Theorem C18_fold_n_spec :
  forall (E : Type) (pad : E) (lanes : nat) (fs : list (list E -> list E -> list E)) (accs : list (list E)) (xs : list E),
  length fs = length accs ->
  iter_fold_n pad lanes (cwv fs) accs xs
  = map (fun p : (list E -> list E -> list E) * list E => iter_fold pad lanes (fst p) (snd p) xs) (combine fs accs).
Proof. exact @iter_fold_n_componentwise. Qed.
Theorem C18_fold_n_model :
  forall ty unroll opk lanes xs, model_slice ty 7 unroll opk lanes xs = model_slice ty 5 unroll opk lanes xs.
Proof. exact model_fold_n_is_three_folds. Qed.

(* ---- scalar definitions ---- *)
Theorem C18_lane_ops_in_range :
  forall ty op k x y z, int_ty ty -> value_op op = true ->
  in_ty ty x = true -> in_ty ty y = true -> in_ty ty z = true ->
  in_ty ty (lane_op ty op k x y z) = true.
Proof. exact lane_op_in_range. Qed.

Theorem C18_wrap_is_reduction_mod_2n :
  forall ty z, int_ty ty ->
  in_ty ty (wrap ty z) = true /\ (wrap ty z) mod 2 ^ ty_bits ty = z mod 2 ^ ty_bits ty.
Proof. intros ty z H. split; [exact (wrap_in_range ty z H)|exact (wrap_mod ty z H)]. Qed.

(* ---- instruction recipes used by the AVX2 / AVX-512 back ends equal the scalar definitions ---- *)
(* 8-bit multiply / shifts through 16-bit lanes + truncation *)
Theorem C18_mul_i8_via_i16 : forall x y, wrap 0 (lane_op 2 2 0 x y 0) = lane_op 0 2 0 x y 0.
Proof. exact mul_i8_via_i16. Qed.
Theorem C18_mul_u8_via_u16 : forall x y, wrap 1 (lane_op 3 2 0 x y 0) = lane_op 1 2 0 x y 0.
Proof. exact mul_u8_via_u16. Qed.
Theorem C18_shl_8_via_16 : forall k x,
  wrap 0 (lane_op 2 16 k x 0 0) = lane_op 0 16 k x 0 0 /\ wrap 1 (lane_op 3 16 k x 0 0) = lane_op 1 16 k x 0 0.
Proof. intros k x. split; [exact (shl_i8_via_i16 k x)|exact (shl_u8_via_u16 k x)]. Qed.
Theorem C18_shr_8_via_16 : forall k x,
  (in_ty 0 x = true -> wrap 0 (lane_op 2 17 k x 0 0) = lane_op 0 17 k x 0 0)
  /\ (in_ty 1 x = true -> wrap 1 (lane_op 3 17 k x 0 0) = lane_op 1 17 k x 0 0).
Proof. intros k x. split; [exact (shr_i8_via_i16 k x)|exact (shr_u8_via_u16 k x)]. Qed.
(* AVX2 unsigned compare = signed compare of the sign-flipped operands (all 2^8 / 2^16 values checked) *)
Theorem C18_gt_unsigned_via_signed :
  (forall x y, in_ty 1 x = true -> in_ty 1 y = true -> (flip_sign 0 128 y <? flip_sign 0 128 x)%Z = (y <? x)%Z)
  /\ (forall x y, in_ty 3 x = true -> in_ty 3 y = true -> (flip_sign 2 32768 y <? flip_sign 2 32768 x)%Z = (y <? x)%Z).
Proof. split; [exact gt_u8_via_i8|exact gt_u16_via_i16]. Qed.
(* AVX-512 first_n_mask bit loop *)
Theorem C18_avx512_mask_loop :
  forall n i, (0 <= i)%Z -> Z.testbit (mask_loop n) i = (i <? Z.of_nat n)%Z.
Proof. exact mask_loop_bits. Qed.
(* AVX2 narrow_saturate: pack inside 128-bit halves, then permute 64-bit blocks (0,2,1,3) *)
Theorem C18_avx2_narrow_recipe :
  forall (A : Type) (f : A -> A) (lo hi : list A) (h : nat),
  length lo = (2 * h)%nat -> length hi = (2 * h)%nat ->
  permute_0213 h (pack_halves f lo hi) = map f (lo ++ hi).
Proof. exact @avx2_narrow_recipe. Qed.

(* ---- oracles used by the correspondence check ---- *)
Theorem C18_slice_oracle :
  forall ty fn unroll opk lanes xs out fault,
  prop_ok (CSlice ty fn unroll opk lanes xs out fault) = true
  <-> fault = false /\ out = spec_slice ty fn unroll opk lanes xs.
Proof. exact slice_oracle. Qed.
Theorem C18_prim_oracle :
  forall ty op k x y z rs,
  prop_ok (CPrim ty op k x y z rs) = true <-> rs <> [] /\ forall r, In r rs -> r = lane_op ty op k x y z.
Proof. exact prim_oracle. Qed.
(* for the lane-wise map functions the operational model and the demanded output coincide *)
Theorem C18_model_meets_spec_map :
  forall ty fn unroll lanes xs, (1 <= lanes)%nat -> (fn = 0 \/ fn = 1 \/ fn = 2)%N ->
  model_slice ty fn unroll 0 lanes xs = spec_slice ty fn unroll 0 lanes xs.
Proof. exact model_meets_spec_map. Qed.

(* F52 (known finding, see docs/C18.md): the oracle rejects what is observed for
   to_int_trunc(4294967296.0): generic i32::MAX, AVX2 / AVX-512 0x80000000 *)
Theorem C18_F52_witness :
  exists c, c = CFlt 17 1333788672 0 0 [2147483647; 2147483648; 2147483648]%Z None None /\ prop_ok c = false.
Proof. eexists. split; [reflexivity|vm_compute; reflexivity]. Qed.

(* ---- non-vacuity ---- *)
Example C18_nonvacuous_map :
  simd_map 0%Z 4 (map (g_affine 0)) [100; -128; 3; 4; 5; 6]%Z = Done [45; -127; 10; 13; 16; 19]%Z
  /\ writes (snd (simd_map_tr 0%Z 4 (map (g_affine 0)) true [1; 2; 3; 4; 5; 6]%Z [1; 2; 3; 4; 5; 6]%Z)) = [0; 1; 2; 3; 4; 5]%nat.
Proof. split; vm_compute; reflexivity. Qed.
Example C18_nonvacuous_prims :
  lane_op 0 0 0 127 1 0 = (-128)%Z /\ lane_op 1 2 0 200 3 0 = 88%Z /\ lane_op 0 18 0 (-128) 0 0 = (-128)%Z
  /\ lane_op 2 17 3 (-9) 0 0 = (-2)%Z /\ vec_op 4 6 4 [70000; -70000; 5; -5]%Z [32768; -32769; 0; 1]%Z
     = [32767; -32768; 5; -5; 32767; -32768; 0; 1]%Z.
Proof. repeat split; vm_compute; reflexivity. Qed.
