(* Facts about the scalar definitions (SimdModel.v Part 1) and about the instruction RECIPES the
   AVX2 / AVX-512 back ends use where x86 has no direct instruction: each recipe, with the
   individual instructions modelled by their architectural meaning on Z (trusted), equals the
   scalar definition. *)
From RV Require Import Prelude.
From Simd Require Import SimdModel Simd_proofs.
Require Import ZifyBool Znumtheory.
Open Scope Z_scope.

Definition int_ty (ty : N) : Prop := (ty <= 4)%N.

Lemma int_ty_cases ty : int_ty ty -> ty = 0%N \/ ty = 1%N \/ ty = 2%N \/ ty = 3%N \/ ty = 4%N.
Proof. unfold int_ty. lia. Qed.

Ltac ty_cases H := destruct (int_ty_cases _ H) as [->|[->|[->|[->| ->]]]].

(* wrap lands in the type's range, is the identity there, and preserves the value modulo 2^bits *)
Ltac split_ifs := repeat match goal with |- context [if ?c then _ else _] => destruct c eqn:? end.
Ltac norm_consts :=
  change (5 <=? 0)%N with false; change (5 <=? 1)%N with false; change (5 <=? 2)%N with false;
  change (5 <=? 3)%N with false; change (5 <=? 4)%N with false;
  change (2 ^ (8 - 1)) with 128; change (2 ^ (16 - 1)) with 32768; change (2 ^ (32 - 1)) with 2147483648;
  change (2 ^ 8) with 256; change (2 ^ 16) with 65536; change (2 ^ 32) with 4294967296;
  change (256 / 2) with 128; change (65536 / 2) with 32768; change (4294967296 / 2) with 2147483648;
  rewrite ?andb_true_l, ?andb_false_l.
Ltac wrap_unfold := unfold in_ty, wrap, ty_min, ty_max, ty_exact, ty_signed, ty_bits; norm_consts; cbv iota.

Lemma wrap_in_range ty z : int_ty ty -> in_ty ty (wrap ty z) = true.
Proof.
  intros H. ty_cases H; wrap_unfold;
    match goal with |- context [z mod ?m] => pose proof (Z.mod_pos_bound z m ltac:(reflexivity)) end;
    split_ifs; lia.
Qed.

Lemma mod_neg_small z m : 0 < m -> - m <= z < 0 -> z mod m = z + m.
Proof. intros Hm Hz. symmetry. apply (Z.mod_unique z m (-1)); lia. Qed.

Lemma wrap_id ty z : int_ty ty -> in_ty ty z = true -> wrap ty z = z.
Proof.
  intros H. ty_cases H; wrap_unfold; intros Hr;
    match goal with |- context [z mod ?m] =>
      destruct (Z_lt_ge_dec z 0) as [Hn|Hn];
      [ try (rewrite (mod_neg_small z m) by lia) | rewrite (Z.mod_small z m) by lia ]
    end; split_ifs; lia.
Qed.

Lemma wrap_mod ty z : int_ty ty -> (wrap ty z) mod 2 ^ ty_bits ty = z mod 2 ^ ty_bits ty.
Proof.
  intros H. ty_cases H; wrap_unfold;
    match goal with |- context [z mod ?m] =>
      split_ifs;
      [ replace (z mod m - m) with (z mod m + (-1) * m) by lia; rewrite Z_mod_plus_full; apply Z.mod_mod; lia
      | apply Z.mod_mod; lia ] || (apply Z.mod_mod; lia)
    end.
Qed.

(* every value-producing lane op stays in the element range *)
Definition value_op (op : N) : bool := ((op <=? 21) && negb ((7 <=? op) && (op <=? 11)))%N.

Lemma div_between x d : 0 < d -> (x <= x / d <= 0) \/ (0 <= x / d <= x).
Proof.
  intros Hd. pose proof (Z.mul_div_le x d Hd). pose proof (Z.mul_succ_div_gt x d Hd).
  destruct (Z_lt_ge_dec x 0); [left|right]; nia.
Qed.

Lemma shr_in_range ty k x : int_ty ty -> in_ty ty x = true -> in_ty ty (x / 2 ^ Z.of_N k) = true.
Proof.
  intros H Hx.
  assert (Hp : 0 < 2 ^ Z.of_N k) by (apply Z.pow_pos_nonneg; lia).
  pose proof (div_between x _ Hp) as Hb.
  set (q := x / 2 ^ Z.of_N k) in *. clearbody q.
  ty_cases H; unfold in_ty, ty_min, ty_max, ty_signed, ty_bits in *; norm_consts; lia.
Qed.

Lemma lane_op_in_range ty op k x y z :
  int_ty ty -> value_op op = true ->
  in_ty ty x = true -> in_ty ty y = true -> in_ty ty z = true ->
  in_ty ty (lane_op ty op k x y z) = true.
Proof.
  intros H Hv Hx Hy Hz.
  assert (Hw : forall v, in_ty ty (wrap ty v) = true) by (intros; apply wrap_in_range; exact H).
  assert (Hmin : forall a b, in_ty ty a = true -> in_ty ty b = true -> in_ty ty (Z.min a b) = true).
  { intros a b Ha Hb. unfold Z.min. destruct (a ?= b); assumption. }
  assert (Hmax : forall a b, in_ty ty a = true -> in_ty ty b = true -> in_ty ty (Z.max a b) = true).
  { intros a b Ha Hb. unfold Z.max. destruct (a ?= b); assumption. }
  assert (Hc : (op = 0 \/ op = 1 \/ op = 2 \/ op = 3 \/ op = 4 \/ op = 5 \/ op = 6 \/ op = 12 \/ op = 13 \/ op = 14
               \/ op = 15 \/ op = 16 \/ op = 17 \/ op = 18 \/ op = 19 \/ op = 20 \/ op = 21)%N)
    by (unfold value_op in Hv; lia).
  repeat (destruct Hc as [->|Hc]); try subst op; cbn [lane_op]; try apply Hw; try discriminate Hv;
    try (apply Hmin; [|assumption]); try apply Hmax; try assumption.
  - apply shr_in_range; assumption.
  - destruct (0 <? z); assumption.
Qed.

(* ---- default trait implementations (ops.rs) ---- *)
(* min = select(x, y, le(x, y)); max = select(x, y, ge(x, y)) *)
Lemma default_min x y : (if x <=? y then x else y) = Z.min x y.
Proof. destruct (x <=? y) eqn:E; lia. Qed.
Lemma default_max x y : (if y <=? x then x else y) = Z.max x y.
Proof. destruct (y <=? x) eqn:E; lia. Qed.
(* lt(x, y) = gt(y, x), le(x, y) = ge(y, x): by definition in lane_op.  ge = gt || eq (AVX2): *)
Lemma ge_as_gt_or_eq x y : (y <=? x) = ((y <? x) || (x =? y)).
Proof. lia. Qed.
(* SignedIntOps::abs = select(neg(x), x, lt(x, 0)), neg = sub(zero, x) *)
Lemma default_abs ty x : (if x <? 0 then wrap ty (0 - x) else x) = (if x <? 0 then wrap ty (Z.abs x) else x).
Proof. destruct (x <? 0) eqn:E; [f_equal; lia|reflexivity]. Qed.
Lemma default_abs_ok ty x : int_ty ty -> in_ty ty x = true ->
  (if x <? 0 then wrap ty (0 - x) else x) = lane_op ty 18 0 x 0 0.
Proof.
  intros H Hx. cbn [lane_op]. destruct (x <? 0) eqn:E; [f_equal; lia|].
  rewrite Z.abs_eq by lia. symmetry. apply wrap_id; assumption.
Qed.

(* ---- AVX2 / AVX-512: 8-bit multiply and shifts go through 16-bit lanes and truncate ---- *)
Lemma mod_256_65536 z : (z mod 65536) mod 256 = z mod 256.
Proof. symmetry. apply (Zmod_div_mod 256 65536 z); [lia|lia|exists 256; reflexivity]. Qed.

Lemma wrap_narrow_i8 z : wrap 0 (wrap 2 z) = wrap 0 z.
Proof.
  unfold wrap, ty_exact, ty_signed, ty_bits; norm_consts; cbv iota.
  assert (H2 : (z mod 65536 - 65536) mod 256 = z mod 256).
  { replace (z mod 65536 - 65536) with (z mod 65536 + (-256) * 256) by lia.
    rewrite Z_mod_plus_full. apply mod_256_65536. }
  destruct (32768 <=? z mod 65536) eqn:E; rewrite ?H2, ?mod_256_65536; reflexivity.
Qed.
Lemma wrap_narrow_u8 z : wrap 1 (wrap 3 z) = wrap 1 z.
Proof.
  unfold wrap, ty_exact, ty_signed, ty_bits; norm_consts; cbv iota. apply mod_256_65536.
Qed.
(* the i8 product computed as (sign-extended) i16 product, low byte reinterpreted as i8 *)
Theorem mul_i8_via_i16 x y : wrap 0 (lane_op 2 2 0 x y 0) = lane_op 0 2 0 x y 0.
Proof. cbn [lane_op]. apply wrap_narrow_i8. Qed.
Theorem mul_u8_via_u16 x y : wrap 1 (lane_op 3 2 0 x y 0) = lane_op 1 2 0 x y 0.
Proof. cbn [lane_op]. apply wrap_narrow_u8. Qed.
Theorem shl_i8_via_i16 k x : wrap 0 (lane_op 2 16 k x 0 0) = lane_op 0 16 k x 0 0.
Proof. cbn [lane_op]. apply wrap_narrow_i8. Qed.
Theorem shl_u8_via_u16 k x : wrap 1 (lane_op 3 16 k x 0 0) = lane_op 1 16 k x 0 0.
Proof. cbn [lane_op]. apply wrap_narrow_u8. Qed.
Theorem shr_i8_via_i16 k x : in_ty 0 x = true -> wrap 0 (lane_op 2 17 k x 0 0) = lane_op 0 17 k x 0 0.
Proof. intros H. cbn [lane_op]. apply wrap_id; [unfold int_ty; lia|]. apply shr_in_range; [unfold int_ty; lia|exact H]. Qed.
Theorem shr_u8_via_u16 k x : in_ty 1 x = true -> wrap 1 (lane_op 3 17 k x 0 0) = lane_op 1 17 k x 0 0.
Proof. intros H. cbn [lane_op]. apply wrap_id; [unfold int_ty; lia|]. apply shr_in_range; [unfold int_ty; lia|exact H]. Qed.

(* ---- AVX2: unsigned compare = signed compare after flipping the sign bit ---- *)
Definition flip_sign (ty_signed_of : N) (half : Z) (v : Z) : Z := wrap ty_signed_of (Z.lxor v half).

Fixpoint all_range (f : Z -> bool) (fuel : nat) (i : Z) : bool :=
  match fuel with O => true | S k => f i && all_range f k (i + 1) end.
Lemma all_range_spec f fuel i : all_range f fuel i = true -> forall v, i <= v < i + Z.of_nat fuel -> f v = true.
Proof.
  revert i. induction fuel as [|k IH]; intros i H v Hv; [lia|].
  cbn [all_range] in H. apply andb_true_iff in H. destruct H as [H1 H2].
  destruct (Z.eq_dec v i) as [->|Hne]; [exact H1|]. apply (IH (i + 1) H2). lia.
Qed.

(* finite domains: every 8-bit / 16-bit value is checked (vm_compute), then lifted *)
Lemma flip_u8 v : 0 <= v < 256 -> flip_sign 0 128 v = v - 128.
Proof.
  intros H. apply Z.eqb_eq.
  apply (all_range_spec (fun v => flip_sign 0 128 v =? v - 128) (Pos.to_nat 256) 0); [vm_compute; reflexivity|].
  rewrite positive_nat_Z. lia.
Qed.
Lemma flip_u16 v : 0 <= v < 65536 -> flip_sign 2 32768 v = v - 32768.
Proof.
  intros H. apply Z.eqb_eq.
  apply (all_range_spec (fun v => flip_sign 2 32768 v =? v - 32768) (Pos.to_nat 65536) 0); [vm_compute; reflexivity|].
  rewrite positive_nat_Z. lia.
Qed.
Theorem gt_u8_via_i8 x y : in_ty 1 x = true -> in_ty 1 y = true ->
  (flip_sign 0 128 y <? flip_sign 0 128 x) = (y <? x).
Proof.
  unfold in_ty, ty_min, ty_max, ty_signed, ty_bits. cbn. intros Hx Hy.
  rewrite !flip_u8 by lia. lia.
Qed.
Theorem gt_u16_via_i16 x y : in_ty 3 x = true -> in_ty 3 y = true ->
  (flip_sign 2 32768 y <? flip_sign 2 32768 x) = (y <? x).
Proof.
  unfold in_ty, ty_min, ty_max, ty_signed, ty_bits. cbn. intros Hx Hy.
  rewrite !flip_u16 by lia. lia.
Qed.

(* ---- AVX-512 first_n_mask: `for i in 0..n { mask |= 1 << i }`, bit i set iff i < n ---- *)
Definition mask_loop (n : nat) : Z := fold_left (fun m i => Z.lor m (2 ^ Z.of_nat i)) (seq 0 n) 0.
Theorem mask_loop_bits n i : 0 <= i -> Z.testbit (mask_loop n) i = (i <? Z.of_nat n).
Proof.
  intros Hi. unfold mask_loop.
  assert (H : forall s m, Z.testbit (fold_left (fun m i => Z.lor m (2 ^ Z.of_nat i)) (seq s n) m) i
                          = Z.testbit m i || ((Z.of_nat s <=? i) && (i <? Z.of_nat (s + n)))).
  { induction n as [|n IH]; intros s m; cbn [seq fold_left].
    - rewrite Nat.add_0_r. lia.
    - rewrite IH, Z.lor_spec, Z.pow2_bits_eqb by lia.
      destruct (Z.testbit m i); cbn [orb]; [reflexivity|]. lia. }
  rewrite H. rewrite Z.testbit_0_l. cbn [orb Nat.add]. lia.
Qed.

(* ---- AVX2 narrow_saturate: pack within 128-bit halves, then permute the 64-bit blocks
        (0, 2, 1, 3): the result is the saturated low vector followed by the saturated high vector ---- *)
Definition pack_halves {A} (f : A -> A) (lo hi : list A) : list A :=
  let h := Nat.div2 (length lo) in
  map f (firstn h lo) ++ map f (firstn h hi) ++ map f (skipn h lo) ++ map f (skipn h hi).
Definition permute_0213 {A} (q : nat) (v : list A) : list A :=
  firstn q v ++ firstn q (skipn (2 * q) v) ++ firstn q (skipn q v) ++ skipn (3 * q) v.

Theorem avx2_narrow_recipe {A} (f : A -> A) (lo hi : list A) h :
  length lo = (2 * h)%nat -> length hi = (2 * h)%nat ->
  permute_0213 h (pack_halves f lo hi) = map f (lo ++ hi).
Proof.
  intros Hl Hh. unfold pack_halves, permute_0213. rewrite Hl.
  replace (Nat.div2 (2 * h)) with h by (symmetry; apply Nat.div2_double).
  set (a1 := map f (firstn h lo)). set (b1 := map f (firstn h hi)).
  set (a2 := map f (skipn h lo)). set (b2 := map f (skipn h hi)).
  assert (La1 : length a1 = h) by (subst a1; rewrite map_length, firstn_length; lia).
  assert (Lb1 : length b1 = h) by (subst b1; rewrite map_length, firstn_length; lia).
  assert (La2 : length a2 = h) by (subst a2; rewrite map_length, skipn_length; lia).
  assert (Lb2 : length b2 = h) by (subst b2; rewrite map_length, skipn_length; lia).
  assert (Hf : forall (x y : list A), length x = h -> firstn h (x ++ y) = x).
  { intros x y Hx. rewrite firstn_app, Hx, Nat.sub_diag. cbn [firstn]. rewrite app_nil_r. rewrite <- Hx. apply firstn_all. }
  assert (Hs : forall (x y : list A), length x = h -> skipn h (x ++ y) = y).
  { intros x y Hx. rewrite skipn_app, Hx, Nat.sub_diag. cbn [skipn]. rewrite <- Hx, skipn_all. reflexivity. }
  rewrite (Hf a1) by exact La1.
  replace (2 * h)%nat with (h + h)%nat by lia. replace (3 * h)%nat with (h + (h + h))%nat by lia.
  rewrite !skipn_add.
  rewrite (Hs a1) by exact La1. rewrite (Hs b1) by exact Lb1. rewrite (Hs a2) by exact La2.
  rewrite (Hf a2) by exact La2. rewrite (Hf b1) by exact Lb1.
  subst a1 a2 b1 b2. rewrite map_app.
  rewrite <- (firstn_skipn h lo) at 3. rewrite <- (firstn_skipn h hi) at 3.
  rewrite !map_app, <- !app_assoc. reflexivity.
Qed.
