(* Proofs about the slice-level model (SimdModel.v Part 2): simd_map / simd_apply compute the
   chunk-wise image of the slice for EVERY lane count >= 1, never touch an index outside the slice,
   and write every index exactly once. *)
From RV Require Import Prelude.
From Simd Require Import SimdModel.

(* ---------------------------------------------------------------- masks *)
Lemma first_n_mask_0 l : first_n_mask l 0 = repeat false l.
Proof.
  unfold first_n_mask.
  assert (H : forall s, map (fun i => Nat.ltb i 0) (seq s l) = repeat false l).
  { induction l as [|l IH]; intros s; cbn [seq map repeat]; [reflexivity|]. rewrite IH. reflexivity. }
  apply H.
Qed.

Lemma first_n_mask_S l n : first_n_mask (S l) (S n) = true :: first_n_mask l n.
Proof.
  unfold first_n_mask. cbn [seq map]. f_equal.
  rewrite <- seq_shift, map_map. apply map_ext. intros i. reflexivity.
Qed.

Lemma first_n_mask_split n k : first_n_mask (n + k) n = repeat true n ++ repeat false k.
Proof.
  induction n as [|n IH]; cbn [Nat.add repeat app].
  - apply first_n_mask_0.
  - rewrite first_n_mask_S, IH. reflexivity.
Qed.

(* the mask of a partial vector is exactly "i < remaining" *)
Lemma first_n_mask_nth lanes n i : (i < lanes)%nat -> nth i (first_n_mask lanes n) false = Nat.ltb i n.
Proof.
  intros H. unfold first_n_mask.
  rewrite nth_indep with (d' := Nat.ltb lanes n) by (rewrite map_length, seq_length; exact H).
  rewrite (map_nth (fun i => Nat.ltb i n) (seq 0 lanes) lanes i).
  rewrite seq_nth by exact H. reflexivity.
Qed.

Lemma first_n_mask_length lanes n : length (first_n_mask lanes n) = lanes.
Proof. unfold first_n_mask. rewrite map_length, seq_length. reflexivity. Qed.

Lemma skipn_add {A} (a b : nat) (l : list A) : skipn (a + b) l = skipn b (skipn a l).
Proof.
  revert l. induction a as [|a IH]; intros l; cbn [Nat.add skipn]; [reflexivity|].
  destruct l as [|x l]; [rewrite skipn_nil; reflexivity|]. apply IH.
Qed.

Section MemProofs.
  Context {E : Type}.
  Variable pad : E.

  Lemma nth_error_mid (pre : list E) x r : nth_error (pre ++ x :: r) (length pre) = Some x.
  Proof. rewrite nth_error_app2 by lia. rewrite Nat.sub_diag. reflexivity. Qed.

  Lemma set_nth_mid (pre : list E) x r v : set_nth (pre ++ x :: r) (length pre) v = Some (pre ++ v :: r).
  Proof.
    induction pre as [|p pre IH]; cbn [app length set_nth]; [reflexivity|]. rewrite IH. reflexivity.
  Qed.

  Lemma set_nth_oob (mem : list E) i v : (length mem <= i)%nat -> set_nth mem i v = None.
  Proof.
    revert i; induction mem as [|m mem IH]; intros i H; cbn [set_nth]; [reflexivity|].
    destruct i as [|i]; cbn [length] in H; [lia|]. rewrite IH by lia. reflexivity.
  Qed.

  Lemma load_ptr_app (pre c post : list E) :
    load_ptr (pre ++ c ++ post) (length pre) (length c)
    = (Done c, map Rd (seq (length pre) (length c))).
  Proof.
    revert pre. induction c as [|x c IH]; intros pre; cbn [length load_ptr seq map]; [reflexivity|].
    cbn [app]. rewrite nth_error_mid.
    specialize (IH (pre ++ [x])). rewrite <- app_assoc in IH. cbn [app] in IH.
    rewrite app_length in IH. cbn [length] in IH. rewrite Nat.add_1_r in IH.
    rewrite IH. reflexivity.
  Qed.

  (* a masked load never reads a masked-off lane: with [post = []] the vector extends [k] lanes
     beyond the end of the slice and those lanes hold [pad] *)
  Lemma load_ptr_mask_app (pre c post : list E) k :
    load_ptr_mask pad (pre ++ c ++ post) (length pre) (repeat true (length c) ++ repeat false k)
    = (Done (c ++ repeat pad k), map Rd (seq (length pre) (length c))).
  Proof.
    revert pre. induction c as [|x c IH]; intros pre; cbn [length repeat app].
    - cbn [seq map]. generalize (length pre). induction k as [|k IHk]; intros o; cbn [repeat load_ptr_mask]; [reflexivity|].
      rewrite IHk. reflexivity.
    - cbn [load_ptr_mask seq map]. rewrite nth_error_mid.
      specialize (IH (pre ++ [x])). rewrite <- app_assoc in IH. cbn [app] in IH.
      rewrite app_length in IH. cbn [length] in IH. rewrite Nat.add_1_r in IH.
      rewrite IH. reflexivity.
  Qed.

  Lemma store_ptr_mask_false (mem : list E) off (w : list E) k :
    store_ptr_mask mem off w (repeat false k) = (Done mem, []).
  Proof.
    revert off w. induction k as [|k IH]; intros off w; destruct w as [|y w]; cbn [repeat store_ptr_mask]; try reflexivity.
    apply IH.
  Qed.

  Lemma store_ptr_mask_app (pre c post v w : list E) k :
    length v = length c ->
    store_ptr_mask (pre ++ c ++ post) (length pre) (v ++ w) (repeat true (length c) ++ repeat false k)
    = (Done (pre ++ v ++ post), map Wr (seq (length pre) (length c))).
  Proof.
    revert pre v. induction c as [|x c IH]; intros pre v Hl; destruct v as [|y v]; cbn [length] in Hl; try discriminate.
    - cbn [length repeat app seq map]. apply store_ptr_mask_false.
    - cbn [length repeat app store_ptr_mask seq map]. rewrite set_nth_mid.
      specialize (IH (pre ++ [y]) v). rewrite <- !app_assoc in IH. cbn [app] in IH.
      rewrite app_length in IH. cbn [length] in IH. rewrite Nat.add_1_r in IH.
      rewrite IH by lia. reflexivity.
  Qed.

  Variable lanes : nat.
  Hypothesis lanes_pos : (1 <= lanes)%nat.
  Variable op : list E -> list E.
  Hypothesis op_len : forall x, length x = lanes -> length (op x) = lanes.

  (* the chunk-wise image of a slice: full vectors through [op]; the last partial vector is padded,
     sent through [op], and cut back to the remaining length *)
  Fixpoint chunk_map (fuel : nat) (xs : list E) : list E :=
    match fuel with
    | O => []
    | S f =>
        if Nat.leb lanes (length xs) then op (firstn lanes xs) ++ chunk_map f (skipn lanes xs)
        else if Nat.ltb 0 (length xs) then firstn (length xs) (op (xs ++ repeat pad (lanes - length xs)))
        else []
    end.

  Fixpoint trace_spec (fuel off n : nat) : list access :=
    match fuel with
    | O => []
    | S f =>
        if Nat.leb lanes n then
          map Rd (seq off lanes) ++ map Wr (seq off lanes) ++ trace_spec f (off + lanes) (n - lanes)
        else map Rd (seq off n) ++ map Wr (seq off n)
    end.

  Lemma chunk_map_length fuel xs : (length xs < fuel)%nat -> length (chunk_map fuel xs) = length xs.
  Proof.
    revert xs. induction fuel as [|f IH]; intros xs H; [lia|]. cbn [chunk_map].
    destruct (Nat.leb lanes (length xs)) eqn:El.
    - apply Nat.leb_le in El. rewrite app_length, op_len by (rewrite firstn_length; lia).
      rewrite IH by (rewrite skipn_length; lia). rewrite skipn_length. lia.
    - apply Nat.leb_gt in El. destruct (Nat.ltb 0 (length xs)) eqn:E0.
      + rewrite firstn_length, op_len by (rewrite app_length, repeat_length; lia). lia.
      + apply Nat.ltb_ge in E0. cbn [length]. lia.
  Qed.

  (* functional.rs::simd_map, both the in-place and the source/destination form *)
  Theorem map_loop_spec fuel inplace (spre dpre rest drest : list E) :
    length spre = length dpre -> length rest = length drest ->
    (inplace = true -> drest = rest) ->
    (length rest < fuel)%nat ->
    map_loop pad lanes op fuel inplace (spre ++ rest) (dpre ++ drest) (length dpre) (length rest)
    = (Done (dpre ++ chunk_map fuel rest), trace_spec fuel (length dpre) (length rest)).
  Proof.
    revert spre dpre rest drest.
    induction fuel as [|f IH]; intros spre dpre rest drest Hp Hr Hi Hf; [lia|].
    cbn [map_loop chunk_map trace_spec].
    assert (Hrd : (if inplace then dpre ++ drest else spre ++ rest)
                  = (if inplace then dpre else spre) ++ rest).
    { destruct inplace; [rewrite Hi by reflexivity|]; reflexivity. }
    rewrite Hrd.
    assert (Hlp : length (if inplace then dpre else spre) = length dpre) by (destruct inplace; lia).
    destruct (Nat.leb lanes (length rest)) eqn:El.
    - apply Nat.leb_le in El.
      pose proof (firstn_skipn lanes rest) as Hsplit.
      pose proof (firstn_skipn lanes drest) as Hdsplit.
      set (c := firstn lanes rest) in *. set (r := skipn lanes rest) in *.
      set (dc := firstn lanes drest) in *. set (dr := skipn lanes drest) in *.
      assert (Hc : length c = lanes) by (subst c; rewrite firstn_length; lia).
      assert (Hdc : length dc = lanes) by (subst dc; rewrite firstn_length; lia).
      rewrite <- Hsplit at 1. rewrite <- Hlp at 1.
      replace lanes with (length c) at 1 by exact Hc.
      rewrite load_ptr_app.
      unfold store_ptr. rewrite op_len by exact Hc.
      rewrite <- Hdsplit at 1.
      replace (all_true lanes) with (repeat true (length dc) ++ repeat false 0)
        by (rewrite Hdc; cbn [repeat]; rewrite app_nil_r; reflexivity).
      rewrite <- (app_nil_r (op c)) at 1.
      rewrite store_ptr_mask_app by (rewrite op_len; lia).
      assert (Hlr : length r = (length rest - lanes)%nat) by (subst r; rewrite skipn_length; reflexivity).
      assert (Hldr : length dr = length r) by (subst dr r; rewrite !skipn_length; lia).
      specialize (IH (spre ++ c) (dpre ++ op c) r dr).
      rewrite !app_length, op_len, Hc in IH by exact Hc.
      rewrite <- !app_assoc in IH. rewrite Hsplit in IH.
      rewrite <- Hlr.
      rewrite IH.
      + rewrite Hlp, Hc, Hdc. reflexivity.
      + lia.
      + lia.
      + intros Ht. subst dr r. rewrite Hi by exact Ht. reflexivity.
      + lia.
    - apply Nat.leb_gt in El.
      destruct (Nat.ltb 0 (length rest)) eqn:E0.
      + set (k := (lanes - length rest)%nat).
        set (m := first_n_mask lanes (length rest)).
        assert (Hm : m = repeat true (length rest) ++ repeat false k).
        { subst m k. replace lanes with (length rest + (lanes - length rest))%nat at 1 by lia.
          apply first_n_mask_split. }
        assert (Hm2 : m = repeat true (length drest) ++ repeat false k) by (rewrite <- Hr; exact Hm).
        rewrite Hm at 1. rewrite <- Hlp at 1. rewrite <- (app_nil_r rest) at 1.
        rewrite load_ptr_mask_app.
        set (x := rest ++ repeat pad k).
        assert (Hx : length x = lanes) by (subst x k; rewrite app_length, repeat_length; lia).
        rewrite Hm2.
        rewrite <- (firstn_skipn (length drest) (op x)) at 1.
        rewrite <- (app_nil_r drest) at 1.
        rewrite store_ptr_mask_app by (rewrite firstn_length, op_len by exact Hx; lia).
        rewrite app_nil_r. rewrite <- Hr. rewrite Hlp. reflexivity.
      + apply Nat.ltb_ge in E0. assert (length rest = 0%nat) by lia.
        destruct rest; [|cbn [length] in *; lia]. destruct drest; [|cbn [length] in *; lia].
        cbn [length seq map app]. reflexivity.
  Qed.

  (* lane-wise op: the chunk-wise image is the plain map *)
  Lemma chunk_map_lanewise (g : E -> E) fuel xs :
    (forall v, op v = map g v) -> (length xs < fuel)%nat -> chunk_map fuel xs = map g xs.
  Proof.
    intros Hop. revert xs. induction fuel as [|f IH]; intros xs H; [lia|]. cbn [chunk_map].
    destruct (Nat.leb lanes (length xs)) eqn:El.
    - apply Nat.leb_le in El. rewrite Hop, IH by (rewrite skipn_length; lia).
      rewrite <- map_app, firstn_skipn. reflexivity.
    - apply Nat.leb_gt in El. destruct (Nat.ltb 0 (length xs)) eqn:E0.
      + rewrite Hop, map_app, firstn_app, map_length, Nat.sub_diag. cbn [firstn]. rewrite app_nil_r.
        rewrite <- (map_length g xs) at 1. apply firstn_all.
      + apply Nat.ltb_ge in E0. destruct xs; [reflexivity|cbn [length] in E0; lia].
  Qed.

  (* ---- bounds: every access of the trace is inside [off, off + n) and each index is written once ---- *)
  Definition acc_idx (a : access) : nat := match a with Rd i => i | Wr i => i end.
  Definition writes (t : list access) : list nat :=
    flat_map (fun a => match a with Wr i => [i] | Rd _ => [] end) t.
  Definition reads (t : list access) : list nat :=
    flat_map (fun a => match a with Rd i => [i] | Wr _ => [] end) t.

  Lemma writes_app a b : writes (a ++ b) = writes a ++ writes b.
  Proof. unfold writes. apply flat_map_app. Qed.
  Lemma reads_app a b : reads (a ++ b) = reads a ++ reads b.
  Proof. unfold reads. apply flat_map_app. Qed.
  Lemma writes_Rd l : writes (map Rd l) = [].
  Proof. induction l; cbn; auto. Qed.
  Lemma writes_Wr l : writes (map Wr l) = l.
  Proof. induction l as [|x l IH]; cbn; [reflexivity|]. unfold writes in IH. rewrite IH. reflexivity. Qed.
  Lemma reads_Wr l : reads (map Wr l) = [].
  Proof. induction l; cbn; auto. Qed.
  Lemma reads_Rd l : reads (map Rd l) = l.
  Proof. induction l as [|x l IH]; cbn; [reflexivity|]. unfold reads in IH. rewrite IH. reflexivity. Qed.

  Lemma trace_spec_writes fuel off n : (n < fuel)%nat -> writes (trace_spec fuel off n) = seq off n.
  Proof.
    revert off n. induction fuel as [|f IH]; intros off n H; [lia|]. cbn [trace_spec].
    destruct (Nat.leb lanes n) eqn:El.
    - apply Nat.leb_le in El. rewrite !writes_app, writes_Rd, writes_Wr, IH by lia. cbn [app].
      rewrite <- seq_app. f_equal. lia.
    - rewrite writes_app, writes_Rd, writes_Wr. reflexivity.
  Qed.

  Lemma trace_spec_reads fuel off n : (n < fuel)%nat -> reads (trace_spec fuel off n) = seq off n.
  Proof.
    revert off n. induction fuel as [|f IH]; intros off n H; [lia|]. cbn [trace_spec].
    destruct (Nat.leb lanes n) eqn:El.
    - apply Nat.leb_le in El. rewrite !reads_app, reads_Rd, reads_Wr, IH by lia. cbn [app].
      rewrite <- seq_app. f_equal. lia.
    - rewrite reads_app, reads_Rd, reads_Wr, app_nil_r. reflexivity.
  Qed.

  Lemma trace_spec_bounds fuel off n a :
    In a (trace_spec fuel off n) -> (off <= acc_idx a < off + n)%nat.
  Proof.
    revert off n. induction fuel as [|f IH]; intros off n H; [destruct H|]. cbn [trace_spec] in H.
    destruct (Nat.leb lanes n) eqn:El.
    - apply Nat.leb_le in El. rewrite !in_app_iff in H. destruct H as [H|[H|H]].
      + apply in_map_iff in H. destruct H as [i [<- Hi]]. apply in_seq in Hi. cbn. lia.
      + apply in_map_iff in H. destruct H as [i [<- Hi]]. apply in_seq in Hi. cbn. lia.
      + apply IH in H. lia.
    - rewrite in_app_iff in H. destruct H as [H|H];
        apply in_map_iff in H; destruct H as [i [<- Hi]]; apply in_seq in Hi; cbn; lia.
  Qed.

  (* ---- simd_apply::<UNROLL> ---- *)
  Variable unroll : nat.

  Lemma apply_block_spec u (pre rest : list E) :
    (lanes * u <= length rest)%nat ->
    exists t,
      apply_block lanes op u (pre ++ rest) (length pre)
      = (Done (pre ++ chunk_map u (firstn (lanes * u) rest) ++ skipn (lanes * u) rest), t)
      /\ writes t = seq (length pre) (lanes * u) /\ reads t = seq (length pre) (lanes * u).
  Proof.
    revert pre rest. induction u as [|u IH]; intros pre rest H.
    - rewrite Nat.mul_0_r. cbn [apply_block chunk_map firstn skipn app seq]. eexists; repeat split; reflexivity.
    - cbn [apply_block].
      assert (Hl : (lanes <= length rest)%nat) by nia.
      pose proof (firstn_skipn lanes rest) as Hsplit.
      set (c := firstn lanes rest) in *. set (r := skipn lanes rest) in *.
      assert (Hc : length c = lanes) by (subst c; rewrite firstn_length; lia).
      pose proof (load_ptr_app pre c r) as Hload. rewrite Hsplit, Hc in Hload.
      pose proof (store_ptr_mask_app pre c r (op c) [] 0) as Hst.
      rewrite app_nil_r, Hsplit, Hc in Hst. cbn [repeat] in Hst. rewrite app_nil_r in Hst.
      specialize (Hst (op_len c Hc)).
      rewrite Hload. unfold store_ptr. rewrite op_len by exact Hc. unfold all_true. rewrite Hst.
      destruct (IH (pre ++ op c) r) as [t [Ht [Hw Hrd]]].
      { subst r. rewrite skipn_length. nia. }
      rewrite app_length, op_len in Ht, Hw, Hrd by exact Hc.
      rewrite <- app_assoc in Ht. rewrite Ht.
      eexists. split; [|split].
      + f_equal. rewrite <- app_assoc. f_equal.
        cbn [chunk_map].
        assert (Hfl : length (firstn (lanes * S u) rest) = (lanes * S u)%nat) by (rewrite firstn_length; lia).
        rewrite Hfl. replace (Nat.leb lanes (lanes * S u)) with true by (symmetry; apply Nat.leb_le; nia).
        rewrite firstn_firstn. replace (Nat.min lanes (lanes * S u)) with lanes by nia.
        fold c. rewrite <- app_assoc. f_equal.
        replace (lanes * S u)%nat with (lanes + lanes * u)%nat by lia.
        f_equal. subst r. rewrite firstn_skipn_comm. f_equal.
        symmetry. apply skipn_add.
      + rewrite !writes_app, writes_Rd, writes_Wr, Hw. cbn [app].
        replace (lanes * S u)%nat with (lanes + lanes * u)%nat by lia. rewrite seq_app. reflexivity.
      + rewrite !reads_app, reads_Rd, reads_Wr, Hrd. cbn [app].
        replace (lanes * S u)%nat with (lanes + lanes * u)%nat by lia. rewrite seq_app. reflexivity.
  Qed.

  (* fuel only has to cover the number of vectors *)
  Lemma chunk_map_fuel f1 f2 xs :
    (length xs < f1)%nat -> (length xs < f2)%nat -> chunk_map f1 xs = chunk_map f2 xs.
  Proof.
    revert f2 xs. induction f1 as [|f1 IH]; intros f2 xs H1 H2; [lia|]. destruct f2 as [|f2]; [lia|].
    cbn [chunk_map]. destruct (Nat.leb lanes (length xs)) eqn:El; [|reflexivity].
    apply Nat.leb_le in El. f_equal. apply IH; rewrite skipn_length; lia.
  Qed.

  Lemma chunk_map_exact m fuel xs :
    length xs = (lanes * m)%nat -> (m <= fuel)%nat -> chunk_map fuel xs = chunk_map (S (length xs)) xs.
  Proof.
    revert fuel xs. induction m as [|m IH]; intros fuel xs Hl Hm.
    - rewrite Nat.mul_0_r in Hl. destruct xs; [|discriminate]. cbn [length].
      replace (chunk_map 1 (@nil E)) with (@nil E).
      + destruct fuel; cbn [chunk_map length]; [reflexivity|].
        replace (Nat.leb lanes 0) with false by (symmetry; apply Nat.leb_gt; lia). reflexivity.
      + cbn [chunk_map length]. replace (Nat.leb lanes 0) with false by (symmetry; apply Nat.leb_gt; lia). reflexivity.
    - destruct fuel as [|fuel]; [lia|]. cbn [chunk_map].
      replace (Nat.leb lanes (length xs)) with true by (symmetry; apply Nat.leb_le; nia).
      f_equal.
      assert (Hs : length (skipn lanes xs) = (lanes * m)%nat) by (rewrite skipn_length; nia).
      rewrite (IH fuel) by (assumption || lia).
      apply chunk_map_fuel; rewrite skipn_length; nia.
  Qed.

  Lemma chunk_map_app_full m fuel a b :
    length a = (lanes * m)%nat -> (length (a ++ b) < fuel)%nat ->
    chunk_map fuel (a ++ b) = chunk_map fuel a ++ chunk_map fuel b.
  Proof.
    revert fuel a. induction m as [|m IH]; intros fuel a Hl Hf.
    - rewrite Nat.mul_0_r in Hl. destruct a; [|discriminate]. cbn [app].
      destruct fuel; [cbn [app length] in Hf; lia|]. cbn [chunk_map length].
      replace (Nat.leb lanes 0) with false by (symmetry; apply Nat.leb_gt; lia). reflexivity.
    - destruct fuel as [|fuel]; [lia|]. rewrite app_length in Hf.
      assert (Hla : (lanes <= length a)%nat) by nia.
      assert (Hla2 : (length a - lanes = lanes * m)%nat) by nia.
      rewrite (chunk_map_fuel (S fuel) fuel b) by lia.
      cbn [chunk_map]. rewrite app_length.
      replace (Nat.leb lanes (length a + length b)) with true by (symmetry; apply Nat.leb_le; lia).
      replace (Nat.leb lanes (length a)) with true by (symmetry; apply Nat.leb_le; lia).
      rewrite firstn_app, skipn_app.
      replace (lanes - length a)%nat with 0%nat by lia. cbn [firstn skipn]. rewrite app_nil_r.
      rewrite <- app_assoc. f_equal.
      rewrite (IH fuel) by (rewrite ?app_length, ?skipn_length; lia).
      reflexivity.
  Qed.

  Lemma chunk_map_full_length m fuel xs :
    length xs = (lanes * m)%nat -> (m <= fuel)%nat -> length (chunk_map fuel xs) = length xs.
  Proof.
    intros Hl Hm. rewrite (chunk_map_exact m) by assumption. apply chunk_map_length. lia.
  Qed.

  Lemma apply_unrolled_spec fuel (pre rest : list E) :
    (length rest < fuel)%nat ->
    exists t k,
      apply_unrolled lanes op unroll fuel (pre ++ rest) (length pre) (length rest)
      = (Done (pre ++ chunk_map (S (length rest)) (firstn k rest) ++ skipn k rest,
               (length pre + k)%nat, (length rest - k)%nat), t)
      /\ (k <= length rest)%nat /\ (exists q, k = (lanes * q)%nat)
      /\ writes t = seq (length pre) k /\ reads t = seq (length pre) k.
  Proof.
    revert pre rest. induction fuel as [|f IH]; intros pre rest Hf; [lia|].
    cbn [apply_unrolled].
    destruct (Nat.leb (lanes * unroll) (length rest) && Nat.ltb 0 (lanes * unroll)) eqn:Ec.
    - apply andb_true_iff in Ec. destruct Ec as [E1 E2].
      apply Nat.leb_le in E1. apply Nat.ltb_lt in E2.
      set (L := (lanes * unroll)%nat) in *.
      destruct (apply_block_spec unroll pre rest E1) as [t1 [Hb [Hw1 Hr1]]]. fold L in Hb, Hw1, Hr1.
      rewrite Hb.
      set (done := chunk_map unroll (firstn L rest)) in *.
      assert (Hfl : length (firstn L rest) = L) by (rewrite firstn_length; lia).
      assert (Hdl : length done = L).
      { subst done. rewrite (chunk_map_full_length unroll) by (rewrite ?Hfl; subst L; lia). exact Hfl. }
      destruct (IH (pre ++ done) (skipn L rest)) as [t2 [k [Hu [Hk [[q Hq] [Hw2 Hr2]]]]]].
      { rewrite skipn_length. lia. }
      rewrite app_length, Hdl in Hu, Hw2, Hr2. rewrite skipn_length in Hu, Hk.
      rewrite <- app_assoc in Hu.
      replace (length pre + L)%nat with (length pre + L)%nat in Hu by reflexivity.
      rewrite Hu.
      exists (t1 ++ t2), (L + k)%nat. split; [|split; [|split; [|split]]].
      + assert (Hcm : chunk_map (S (length rest)) (firstn (L + k) rest)
                      = done ++ chunk_map (S (length rest - L)) (firstn k (skipn L rest))).
        { rewrite <- (firstn_skipn L (firstn (L + k) rest)).
          rewrite firstn_firstn. replace (Nat.min L (L + k)) with L by lia.
          rewrite <- firstn_skipn_comm.
          rewrite (chunk_map_app_full unroll) by (rewrite ?app_length, ?firstn_length, ?skipn_length; subst L; lia).
          f_equal.
          - subst done. rewrite (chunk_map_exact unroll unroll (firstn L rest)) by (rewrite ?Hfl; (reflexivity || lia)).
            apply chunk_map_fuel; rewrite Hfl; lia.
          - apply chunk_map_fuel; rewrite firstn_length, skipn_length; lia. }
        rewrite Hcm, skipn_add. rewrite <- !app_assoc.
        replace (length pre + (L + k))%nat with (length pre + L + k)%nat by lia.
        replace (length rest - (L + k))%nat with (length rest - L - k)%nat by lia.
        reflexivity.
      + lia.
      + exists (unroll + q)%nat. subst L. nia.
      + rewrite writes_app, Hw1, Hw2, <- seq_app. reflexivity.
      + rewrite reads_app, Hr1, Hr2, <- seq_app. reflexivity.
    - exists [], 0%nat. cbn [firstn skipn app].
      assert (Hnil : chunk_map (S (length rest)) [] = []).
      { cbn [chunk_map length]. replace (Nat.leb lanes 0) with false by (symmetry; apply Nat.leb_gt; lia). reflexivity. }
      rewrite Hnil, Nat.add_0_r, Nat.sub_0_r. cbn [app].
      split; [reflexivity|split; [lia|split; [exists 0%nat; lia|split; reflexivity]]].
  Qed.

  (* functional.rs::simd_apply::<UNROLL>: same result as simd_map, every index read and written once *)
  Theorem simd_apply_spec (dst : list E) :
    exists t,
      simd_apply_tr pad lanes op unroll dst = (Done (chunk_map (S (length dst)) dst), t)
      /\ writes t = seq 0 (length dst) /\ reads t = seq 0 (length dst).
  Proof.
    unfold simd_apply_tr.
    destruct (apply_unrolled_spec (S (length dst)) [] dst) as [t1 [k [Hu [Hk [[q Hq] [Hw Hr]]]]]]; [lia|].
    cbn [app length Nat.add] in Hu, Hw, Hr. rewrite Hu.
    set (done := chunk_map (S (length dst)) (firstn k dst)) in *.
    assert (Hfl : length (firstn k dst) = k) by (rewrite firstn_length; lia).
    assert (Hdl : length done = k) by (subst done; rewrite chunk_map_length by lia; exact Hfl).
    pose proof (map_loop_spec (S (length dst)) true done done (skipn k dst) (skipn k dst)
                  eq_refl eq_refl (fun _ => eq_refl)) as Hm.
    rewrite skipn_length, Hdl in Hm. rewrite Hm by lia.
    eexists. split; [|split].
    - f_equal. f_equal.
      subst done.
      rewrite <- (chunk_map_app_full q) by (rewrite ?app_length, ?Hfl, ?skipn_length; lia).
      rewrite firstn_skipn. reflexivity.
    - rewrite writes_app, Hw, trace_spec_writes by lia.
      rewrite <- seq_app. f_equal. lia.
    - rewrite reads_app, Hr, trace_spec_reads by lia.
      rewrite <- seq_app. f_equal. lia.
  Qed.
End MemProofs.
