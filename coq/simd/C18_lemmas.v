(* Final-form lemmas for Props_C18.v, derived from Simd_proofs / Iter_proofs / Prims_proofs. *)
From RV Require Import Prelude.
From Simd Require Import SimdModel Simd_proofs Iter_proofs Prims_proofs.

Lemma first_n_mask_succ_split n k :
  first_n_mask (n + S k) (S n) = repeat true n ++ true :: repeat false k.
Proof.
  induction n as [|n IH]; cbn [Nat.add repeat app].
  - rewrite first_n_mask_S, first_n_mask_0. reflexivity.
  - rewrite first_n_mask_S, IH. reflexivity.
Qed.

Section Final.
  Context {E : Type}.
  Variable pad : E.
  Variable lanes : nat.
  Hypothesis lanes_pos : (1 <= lanes)%nat.

  Lemma map_len_pres (g : E -> E) : forall x : list E, length x = lanes -> length (map g x) = lanes.
  Proof. intros x H. rewrite map_length. exact H. Qed.

  (* in-place simd_map with an arbitrary length-preserving vector function *)
  Lemma simd_map_tr_inplace op (xs : list E) :
    (forall x, length x = lanes -> length (op x) = lanes) ->
    simd_map_tr pad lanes op true xs xs
    = (Done (chunk_map pad lanes op (S (length xs)) xs), trace_spec lanes (S (length xs)) 0 (length xs)).
  Proof.
    intros Hop. unfold simd_map_tr.
    exact (map_loop_spec pad lanes lanes_pos op Hop (S (length xs)) true [] [] xs xs
             eq_refl eq_refl (fun _ => eq_refl) (Nat.lt_succ_diag_r _)).
  Qed.

  Lemma simd_map_tr_srcdst op (src dst : list E) :
    (forall x, length x = lanes -> length (op x) = lanes) -> length dst = length src ->
    simd_map_tr pad lanes op false src dst
    = (Done (chunk_map pad lanes op (S (length src)) src), trace_spec lanes (S (length src)) 0 (length src)).
  Proof.
    intros Hop Hl. unfold simd_map_tr.
    exact (map_loop_spec pad lanes lanes_pos op Hop (S (length src)) false [] [] src dst
             eq_refl (eq_sym Hl) (fun H => ltac:(discriminate H)) (Nat.lt_succ_diag_r _)).
  Qed.

  Lemma simd_map_lanewise (g : E -> E) xs : simd_map pad lanes (map g) xs = Done (map g xs).
  Proof.
    unfold simd_map. rewrite (simd_map_tr_inplace (map g) xs (map_len_pres g)). cbn [fst]. f_equal.
    apply (chunk_map_lanewise pad lanes lanes_pos (map g) g); [reflexivity|lia].
  Qed.

  Lemma simd_map_srcdst_lanewise (g : E -> E) src dst :
    length dst = length src ->
    fst (simd_map_tr pad lanes (map g) false src dst) = Done (map g src).
  Proof.
    intros Hl. rewrite (simd_map_tr_srcdst (map g) src dst (map_len_pres g) Hl). cbn [fst]. f_equal.
    apply (chunk_map_lanewise pad lanes lanes_pos (map g) g); [reflexivity|lia].
  Qed.

  (* bounds of the whole trace, both forms *)
  Lemma simd_map_accesses op inplace (src dst : list E) :
    (forall x, length x = lanes -> length (op x) = lanes) -> length dst = length src ->
    (inplace = true -> dst = src) ->
    let t := snd (simd_map_tr pad lanes op inplace src dst) in
    (forall a, In a t -> (acc_idx a < length src)%nat)
    /\ writes t = seq 0 (length src) /\ reads t = seq 0 (length src).
  Proof.
    intros Hop Hl Hi.
    assert (Ht : snd (simd_map_tr pad lanes op inplace src dst) = trace_spec lanes (S (length src)) 0 (length src)).
    { destruct inplace.
      - rewrite (Hi eq_refl), (simd_map_tr_inplace op src Hop). reflexivity.
      - rewrite (simd_map_tr_srcdst op src dst Hop Hl). reflexivity. }
    cbv zeta. rewrite Ht. split; [|split].
    - intros a Ha. pose proof (trace_spec_bounds lanes lanes_pos _ _ _ _ Ha). lia.
    - apply (trace_spec_writes lanes lanes_pos); lia.
    - apply (trace_spec_reads lanes lanes_pos); lia.
  Qed.

  (* a masked load of the last n < lanes elements: lanes beyond the end hold [pad] and no index
     at or beyond the end of the slice is read *)
  Lemma masked_tail_load (pre tail : list E) :
    (length tail <= lanes)%nat ->
    load_ptr_mask pad (pre ++ tail) (length pre) (first_n_mask lanes (length tail))
    = (Done (tail ++ repeat pad (lanes - length tail)), map Rd (seq (length pre) (length tail))).
  Proof.
    intros H. replace lanes with (length tail + (lanes - length tail))%nat at 1 by lia.
    rewrite first_n_mask_split.
    pose proof (load_ptr_mask_app pad pre tail [] (lanes - length tail)) as L.
    rewrite app_nil_r in L. exact L.
  Qed.

  Lemma masked_tail_store (pre tail v : list E) :
    (length tail <= lanes)%nat -> length v = lanes ->
    store_ptr_mask (pre ++ tail) (length pre) v (first_n_mask lanes (length tail))
    = (Done (pre ++ firstn (length tail) v), map Wr (seq (length pre) (length tail))).
  Proof.
    intros H Hv. replace lanes with (length tail + (lanes - length tail))%nat at 1 by lia.
    rewrite first_n_mask_split.
    pose proof (store_ptr_mask_app pre tail [] (firstn (length tail) v) (skipn (length tail) v) (lanes - length tail)) as S.
    rewrite firstn_skipn, !app_nil_r in S. apply S. rewrite firstn_length. lia.
  Qed.

  (* a mask with one lane too many (the `<=` mutation) faults on a slice that ends at the tail *)
  Lemma off_by_one_mask_faults (pre tail : list E) :
    (length tail < lanes)%nat ->
    exists t, load_ptr_mask pad (pre ++ tail) (length pre) (first_n_mask lanes (S (length tail)))
              = (Fault (length pre + length tail), t).
  Proof.
    intros H.
    assert (Hm : first_n_mask lanes (S (length tail))
                 = repeat true (length tail) ++ true :: repeat false (lanes - S (length tail))).
    { replace lanes with (length tail + S (lanes - S (length tail)))%nat at 1 by lia.
      apply first_n_mask_succ_split. }
    rewrite Hm. clear Hm H. generalize (lanes - S (length tail))%nat as k. intros k. revert pre. induction tail as [|x tail IH]; intros pre; cbn [length repeat app].
    - cbn [load_ptr_mask]. rewrite app_nil_r, Nat.add_0_r.
      replace (nth_error pre (length pre)) with (@None E) by (symmetry; apply nth_error_None; lia).
      eexists. reflexivity.
    - cbn [load_ptr_mask]. rewrite nth_error_mid.
      specialize (IH (pre ++ [x])). rewrite <- app_assoc in IH. cbn [app] in IH.
      rewrite app_length in IH. cbn [length] in IH. rewrite Nat.add_1_r in IH.
      destruct IH as [t IHt]. rewrite IHt.
      replace (S (length pre) + length tail)%nat with (length pre + S (length tail))%nat by lia.
      eexists. reflexivity.
  Qed.

  (* simd_apply with a lane-wise function *)
  Lemma simd_apply_lanewise (g : E -> E) unroll (dst : list E) :
    exists t, simd_apply_tr pad lanes (map g) unroll dst = (Done (map g dst), t)
              /\ writes t = seq 0 (length dst) /\ reads t = seq 0 (length dst).
  Proof.
    destruct (simd_apply_spec pad lanes lanes_pos (map g) (map_len_pres g) unroll dst) as [t [H1 H2]].
    exists t. split; [|exact H2]. rewrite H1. f_equal. f_equal.
    apply (chunk_map_lanewise pad lanes lanes_pos (map g) g); [reflexivity|lia].
  Qed.
End Final.

(* list_eqb reflects equality: the slice oracle accepts exactly "no fault and the specified output" *)
Lemma list_eqb_eq a b : list_eqb a b = true <-> a = b.
Proof.
  unfold list_eqb. split.
  - intros H. apply andb_true_iff in H. destruct H as [Hl Hf]. apply Nat.eqb_eq in Hl.
    revert b Hl Hf. induction a as [|x a IH]; intros [|y b] Hl Hf; cbn [length] in Hl; try discriminate; [reflexivity|].
    cbn [combine forallb fst snd] in Hf. apply andb_true_iff in Hf. destruct Hf as [H1 H2].
    apply Z.eqb_eq in H1. subst y. f_equal. apply IH; [lia|exact H2].
  - intros <-. apply andb_true_iff. split; [apply Nat.eqb_refl|].
    induction a as [|x a IH]; cbn [combine forallb fst snd]; [reflexivity|]. rewrite Z.eqb_refl, IH. reflexivity.
Qed.

Lemma slice_oracle ty fn unroll opk lanes xs out fault :
  prop_ok (CSlice ty fn unroll opk lanes xs out fault) = true
  <-> fault = false /\ out = spec_slice ty fn unroll opk lanes xs.
Proof.
  cbn [prop_ok]. rewrite andb_true_iff, negb_true_iff, list_eqb_eq. reflexivity.
Qed.

Lemma prim_oracle ty op k x y z rs :
  prop_ok (CPrim ty op k x y z rs) = true
  <-> rs <> [] /\ forall r, In r rs -> r = lane_op ty op k x y z.
Proof.
  cbn [prop_ok]. unfold prim_ok. rewrite andb_true_iff, negb_true_iff, forallb_forall. split.
  - intros [H1 H2]. split; [destruct rs; [discriminate|discriminate]|].
    intros r Hr. symmetry. apply Z.eqb_eq. apply H2. exact Hr.
  - intros [H1 H2]. split; [destruct rs; [contradiction|reflexivity]|].
    intros r Hr. apply Z.eqb_eq. symmetry. apply H2. exact Hr.
Qed.

(* the operational model of the lane-wise map cases coincides with what the property demands *)
Lemma model_meets_spec_map ty fn unroll lanes xs :
  (1 <= lanes)%nat -> (fn = 0 \/ fn = 1 \/ fn = 2)%N ->
  model_slice ty fn unroll 0 lanes xs = spec_slice ty fn unroll 0 lanes xs.
Proof.
  intros Hl [->|[->| ->]]; cbn [model_slice spec_slice]; change (vop ty 0) with (map (g_affine ty)).
  - rewrite (simd_map_lanewise 0 lanes Hl (g_affine ty) xs). reflexivity.
  - rewrite (simd_map_srcdst_lanewise 0 lanes Hl (g_affine ty) xs (repeat 0 (length xs))) by apply repeat_length.
    reflexivity.
  - unfold simd_apply.
    destruct (simd_apply_lanewise 0 lanes Hl (g_affine ty) (N.to_nat unroll) xs) as [t [H _]].
    rewrite H. reflexivity.
Qed.

(* the three-accumulator fold_n of the harness = the three masked single-accumulator folds *)
Lemma model_fold_n_is_three_folds ty unroll opk lanes xs :
  model_slice ty 7 unroll opk lanes xs = model_slice ty 5 unroll opk lanes xs.
Proof.
  cbn [model_slice]. unfold f3.
  rewrite (iter_fold_n_componentwise 0 lanes [vadd ty; vmin; vmax]) by reflexivity.
  cbn [combine map fst snd concat]. rewrite app_nil_r. reflexivity.
Qed.
