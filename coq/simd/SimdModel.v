(* C18 -- model of rten-simd's slice helpers and scalar definitions of its primitives.

   Part 1  scalar (one-lane) definitions of the integer primitives on Z with explicit wrapping
           per element type, list-level definitions of the cross-lane primitives, and the
           bit-pattern definitions of the f32 primitives that do not round.
   Part 2  an operational model of functional.rs::{simd_map, simd_apply} and iter.rs::{Iter,
           IterPad, fold, fold_unroll, fold_n, fold_n_unroll} over a memory with EXPLICIT bounds:
           every load/store goes through [mem_get]/[mem_set], which fail (distinct outcome
           [Fault]) outside the slice, and is also recorded in an access trace.  The vector
           length [lanes] is a parameter (>= 1): generic = 4/8/16, AVX2 = 8/16/32, AVX-512 = 16/32/64.
   Part 3  the [case] type printed by harness/simd and the executable oracles.

   Executable definitions only; proofs are in Simd_proofs.v / Prims_proofs.v. *)
From RV Require Import Prelude.
Open Scope Z_scope.

(* ------------------------------------------------------------------ Part 1: element types *)
(* type codes shared with harness/simd/src/lib.rs: 0 i8, 1 u8, 2 i16, 3 u16, 4 i32,
   5 = f32 restricted to integer values of magnitude < 2^24 (exact in f32; no wrapping) *)
Definition ty_bits (ty : N) : Z :=
  match ty with 0%N | 1%N => 8 | 2%N | 3%N => 16 | _ => 32 end.
Definition ty_signed (ty : N) : bool :=
  match ty with 0%N | 2%N | 4%N => true | _ => false end.
Definition ty_exact (ty : N) : bool := (5 <=? ty)%N.
Definition ty_min (ty : N) : Z := if ty_signed ty then - 2 ^ (ty_bits ty - 1) else 0.
Definition ty_max (ty : N) : Z := if ty_signed ty then 2 ^ (ty_bits ty - 1) - 1 else 2 ^ ty_bits ty - 1.
Definition in_ty (ty : N) (z : Z) : bool := (ty_min ty <=? z) && (z <=? ty_max ty).

(* the representative of z modulo 2^bits in the value range of the type *)
Definition wrap (ty : N) (z : Z) : Z :=
  if ty_exact ty then z else
  let m := 2 ^ ty_bits ty in
  let r := z mod m in
  if ty_signed ty && (m / 2 <=? r) then r - m else r.

Definition b2z (b : bool) : Z := if b then 1 else 0.

(* lane-wise op codes (harness/simd/src/lib.rs OP_x) *)
Definition lane_op (ty op k : N) (x y z : Z) : Z :=
  match op with
  | 0%N => wrap ty (x + y)                    (* add: wrapping *)
  | 1%N => wrap ty (x - y)                    (* sub *)
  | 2%N => wrap ty (x * y)                    (* mul: low half of the product *)
  | 3%N => wrap ty (x * y + z)                (* mul_add *)
  | 4%N => Z.min x y
  | 5%N => Z.max x y
  | 6%N => Z.min (Z.max x y) z                (* clamp x lo hi = min (max x lo) hi *)
  | 7%N => b2z (x =? y)
  | 8%N => b2z (y <=? x)                      (* ge *)
  | 9%N => b2z (y <? x)                       (* gt *)
  | 10%N => b2z (x <? y)                      (* lt *)
  | 11%N => b2z (x <=? y)                     (* le *)
  | 12%N => wrap ty (Z.land x y)
  | 13%N => wrap ty (Z.lor x y)
  | 14%N => wrap ty (Z.lxor x y)
  | 15%N => wrap ty (Z.lnot x)
  | 16%N => wrap ty (x * 2 ^ Z.of_N k)        (* shift_left *)
  | 17%N => x / 2 ^ Z.of_N k                  (* shift_right: floor = arithmetic (signed) / logical (unsigned) *)
  | 18%N => wrap ty (Z.abs x)                 (* abs: abs(MIN) = MIN *)
  | 19%N => wrap ty (- x)                     (* neg *)
  | 20%N => if 0 <? z then x else y           (* select x y (z > 0) *)
  | 21%N => x                                 (* splat + read back *)
  | _ => 0
  end.

(* ---- whole-vector primitives (harness/simd/src/vecops.rs V_x) ---- *)
Fixpoint interleave (a b : list Z) : list Z :=
  match a, b with
  | x :: a', y :: b' => x :: y :: interleave a' b'
  | _, _ => []
  end.
Definition halfn (l : list Z) : nat := Nat.div2 (length l).
Definition lo_half (l : list Z) : list Z := firstn (halfn l) l.
Definition hi_half (l : list Z) : list Z := skipn (halfn l) l.
Definition sat (ty : N) (z : Z) : Z := Z.max (ty_min ty) (Z.min (ty_max ty) z).
Definition narrow_ty (ty : N) : N := if (ty =? 4)%N then 2%N else 1%N.   (* i32 -> i16, i16 -> u8 *)
Definition first_n_mask (lanes n : nat) : list bool := map (fun i => Nat.ltb i n) (seq 0 lanes).
Definition zpad (lanes : nat) (l : list Z) : list Z := firstn lanes (l ++ repeat 0 lanes).
Definition posm (l : list Z) : list bool := map (fun x => 0 <? x) l.
Definition bz (l : list bool) : list Z := map b2z l.
Definition wsum (ty : N) (init : Z) (l : list Z) : Z := fold_left (fun s x => wrap ty (s + x)) l init.

Definition vec_op (ty v : N) (lanes : nat) (a b : list Z) : list Z :=
  let a := firstn lanes a in
  let bb := firstn lanes b in
  match v with
  | 0%N => lo_half a                                   (* extend_low: values preserved *)
  | 1%N => hi_half a                                   (* extend_high *)
  | 2%N => interleave (lo_half a) (lo_half bb)
  | 3%N => interleave (hi_half a) (hi_half bb)
  | 4%N => lo_half a ++ lo_half bb                     (* concat_low *)
  | 5%N => hi_half a ++ hi_half bb
  | 6%N => map (sat (narrow_ty ty)) (a ++ bb)          (* narrow_saturate low high *)
  | 7%N => [wsum ty 0 a]                               (* sum: wrapping *)
  | 8%N => repeat (nth 0 a 0) lanes                    (* broadcast_lane<0> *)
  | 9%N => repeat (nth 1 a 0) lanes
  | 10%N => repeat (nth 3 a 0) lanes
  | 11%N => repeat (wsum ty (nth 0 b 0) a) lanes       (* fold_splat with wrapping add *)
  | 12%N => bz (first_n_mask lanes (Z.to_nat (nth 0 a 0)))
  | 13%N => let n := Nat.min (Z.to_nat (nth 0 b 0)) (length a) in
            zpad lanes (firstn n a) ++ bz (first_n_mask lanes n)   (* load_pad *)
  | 14%N => bz (map (fun p => andb (fst p) (snd p)) (combine (posm a) (posm bb)))
  | 15%N => [b2z (existsb (fun x => x) (posm a))]      (* any *)
  | 16%N => [b2z (forallb (fun x => x) (posm a))]      (* all *)
  | 17%N => [b2z (negb (existsb (fun x => x) (posm a)))]
  | 18%N => a ++ bb                                    (* load_many / store_many_uninit round trip *)
  | 19%N => repeat 0 lanes ++ repeat 1 lanes
  | _ => []
  end.

(* ---- f32 primitives that do not round, on bit patterns (N < 2^32) ---- *)
Definition two31 : Z := 2147483648.
Definition f_inf : Z := 2139095040.                 (* 0x7F800000 *)
Definition fsign (b : Z) : bool := two31 <=? b.
Definition fmag (b : Z) : Z := if fsign b then b - two31 else b.
Definition fisnan (b : Z) : bool := f_inf <? fmag b.
Definition ford (b : Z) : Z := if fsign b then - fmag b else b.        (* -0 and +0 both map to 0 *)
Definition fcmp_ok (a b : Z) : bool := negb (fisnan a) && negb (fisnan b).
Definition f_lt (a b : Z) : bool := fcmp_ok a b && (ford a <? ford b).
Definition f_le (a b : Z) : bool := fcmp_ok a b && (ford a <=? ford b).
Definition f_eq (a b : Z) : bool := fcmp_ok a b && (ford a =? ford b).
(* results compared up to NaN payload: Rust does not fix the payload bits of a NaN result *)
Definition f_same (a b : Z) : bool := (a =? b) || (fisnan a && fisnan b).

(* float op codes (harness/simd/src/lanes.rs F_x).  [None] = not defined here (rounding ops:
   compared across ISAs and against the Rust scalar definition only). *)
Definition flt_def (op : N) (x y z : Z) : option Z :=
  match op with
  | 6%N => Some (if f_lt x y then x else y)          (* min: second operand unless x < y *)
  | 7%N => Some (if f_lt y x then x else y)          (* max *)
  | 8%N => Some (b2z (f_eq x y))
  | 9%N => Some (b2z (f_le y x))
  | 10%N => Some (b2z (f_lt y x))
  | 11%N => Some (b2z (f_lt x y))
  | 12%N => Some (b2z (f_le x y))
  | 13%N => Some (fmag x)                            (* abs: clear the sign bit *)
  | 14%N => Some (if fsign x then x - two31 else x + two31)
  | 19%N => Some (Z.land x y)
  | 20%N => Some (Z.lor x y)
  | 21%N => Some (Z.lxor x y)
  | 22%N => Some (4294967295 - x)
  | 23%N => Some (if f_lt 0 z then x else y)         (* select x y (z > 0) *)
  | 24%N => Some (let m := if f_lt y x then x else y in if f_lt m z then m else z)   (* clamp *)
  | _ => None
  end.

(* ------------------------------------------------------------------ Part 2: slices *)
(* Outcome of a slice operation: the final destination contents, or a fault (an access outside
   the slice), or fuel exhaustion (cannot happen: see [*_fuel_ok] lemmas). *)
Inductive outcome (A : Type) := Done (a : A) | Fault (idx : nat) | OutOfFuel.
Arguments Done {A}. Arguments Fault {A}. Arguments OutOfFuel {A}.

Inductive access := Rd (i : nat) | Wr (i : nat).

Section Mem.
  Context {E : Type}.
  Variable pad : E.                       (* value of masked-off lanes: zero *)

  Definition vec := list E.

  (* load_ptr: [lanes] consecutive elements starting at [off]; every lane is read *)
  Fixpoint load_ptr (mem : list E) (off lanes : nat) : outcome vec * list access :=
    match lanes with
    | O => (Done [], [])
    | S l =>
        match nth_error mem off with
        | None => (Fault off, [Rd off])
        | Some v =>
            match load_ptr mem (S off) l with
            | (Done vs, t) => (Done (v :: vs), Rd off :: t)
            | (o, t) => (o, Rd off :: t)
            end
        end
    end.

  (* load_ptr_mask: lane i is read only where the mask is set; other lanes hold [pad] *)
  Fixpoint load_ptr_mask (mem : list E) (off : nat) (mask : list bool) : outcome vec * list access :=
    match mask with
    | [] => (Done [], [])
    | false :: m =>
        match load_ptr_mask mem (S off) m with
        | (Done vs, t) => (Done (pad :: vs), t)
        | r => r
        end
    | true :: m =>
        match nth_error mem off with
        | None => (Fault off, [Rd off])
        | Some v =>
            match load_ptr_mask mem (S off) m with
            | (Done vs, t) => (Done (v :: vs), Rd off :: t)
            | (o, t) => (o, Rd off :: t)
            end
        end
    end.

  Fixpoint set_nth (mem : list E) (i : nat) (v : E) : option (list E) :=
    match mem, i with
    | [], _ => None
    | _ :: r, O => Some (v :: r)
    | x :: r, S j => match set_nth r j v with Some r' => Some (x :: r') | None => None end
    end.

  (* store_ptr_mask: lane i is written only where the mask is set.  A mask shorter than the
     vector leaves the remaining lanes unwritten; store_ptr = all-true mask. *)
  Fixpoint store_ptr_mask (mem : list E) (off : nat) (v : vec) (mask : list bool) : outcome (list E) * list access :=
    match v, mask with
    | x :: v', true :: m =>
        match set_nth mem off x with
        | None => (Fault off, [Wr off])
        | Some mem' =>
            match store_ptr_mask mem' (S off) v' m with
            | (o, t) => (o, Wr off :: t)
            end
        end
    | _ :: v', false :: m => store_ptr_mask mem (S off) v' m
    | _, _ => (Done mem, [])
    end.

  Definition all_true (lanes : nat) : list bool := repeat true lanes.
  Definition store_ptr (mem : list E) (off : nat) (v : vec) : outcome (list E) * list access :=
    store_ptr_mask mem off v (all_true (length v)).

  (* functional.rs::simd_map.  [src] is read, [dst] is written (in place: the same contents; the
     model threads the destination only and reads the source from the ORIGINAL slice when
     [inplace = false], from the destination when [inplace = true]).  [n] elements remain at
     offset [off].  [op] is an arbitrary vector function. *)
  Variable lanes : nat.
  Variable op : vec -> vec.

  Fixpoint map_loop (fuel : nat) (inplace : bool) (src dst : list E) (off n : nat)
    : outcome (list E) * list access :=
    match fuel with
    | O => (OutOfFuel, [])
    | S f =>
        let rd := if inplace then dst else src in
        if Nat.leb lanes n then
          match load_ptr rd off lanes with
          | (Done x, t1) =>
              match store_ptr dst off (op x) with
              | (Done dst', t2) =>
                  let '(o, t3) := map_loop f inplace src dst' (off + lanes) (n - lanes) in
                  (o, t1 ++ t2 ++ t3)
              | (Fault i, t2) => (Fault i, t1 ++ t2)
              | (OutOfFuel, t2) => (OutOfFuel, t1 ++ t2)
              end
          | (Fault i, t1) => (Fault i, t1)
          | (OutOfFuel, t1) => (OutOfFuel, t1)
          end
        else if Nat.ltb 0 n then
          let mask := first_n_mask lanes n in
          match load_ptr_mask rd off mask with
          | (Done x, t1) =>
              match store_ptr_mask dst off (op x) mask with
              | (o, t2) => (o, t1 ++ t2)
              end
          | (Fault i, t1) => (Fault i, t1)
          | (OutOfFuel, t1) => (OutOfFuel, t1)
          end
        else (Done dst, [])
    end.

  Definition simd_map_tr (inplace : bool) (src dst : list E) : outcome (list E) * list access :=
    map_loop (S (length src)) inplace src dst 0 (length src).
  Definition simd_map (src : list E) : outcome (list E) := fst (simd_map_tr true src src).

  (* functional.rs::simd_apply::<UNROLL>: chunks_exact_mut(v_len * UNROLL), then
     chunks_exact_mut(v_len) on the remainder, then a masked tail.  Each stage is the same
     load / op / store at a moving offset, so the model is [map_loop]-like with three phases. *)
  Variable unroll : nat.

  Fixpoint apply_block (u : nat) (dst : list E) (off : nat) : outcome (list E) * list access :=
    match u with
    | O => (Done dst, [])
    | S u' =>
        match load_ptr dst off lanes with
        | (Done x, t1) =>
            match store_ptr dst off (op x) with
            | (Done dst', t2) =>
                let '(o, t3) := apply_block u' dst' (off + lanes) in (o, t1 ++ t2 ++ t3)
            | (Fault i, t2) => (Fault i, t1 ++ t2)
            | (OutOfFuel, t2) => (OutOfFuel, t1 ++ t2)
            end
        | (Fault i, t1) => (Fault i, t1)
        | (OutOfFuel, t1) => (OutOfFuel, t1)
        end
    end.

  Fixpoint apply_unrolled (fuel : nat) (dst : list E) (off n : nat) : outcome (list E * nat * nat) * list access :=
    match fuel with
    | O => (OutOfFuel, [])
    | S f =>
        if Nat.leb (lanes * unroll) n && Nat.ltb 0 (lanes * unroll) then
          match apply_block unroll dst off with
          | (Done dst', t1) =>
              let '(o, t2) := apply_unrolled f dst' (off + lanes * unroll) (n - lanes * unroll) in (o, t1 ++ t2)
          | (Fault i, t1) => (Fault i, t1)
          | (OutOfFuel, t1) => (OutOfFuel, t1)
          end
        else (Done (dst, off, n), [])
    end.

  Definition simd_apply_tr (dst : list E) : outcome (list E) * list access :=
    match apply_unrolled (S (length dst)) dst 0 (length dst) with
    | (Done (dst', off, n), t1) =>
        let '(o, t2) := map_loop (S (length dst)) true dst' dst' off n in (o, t1 ++ t2)
    | (Fault i, t1) => (Fault i, t1)
    | (OutOfFuel, t1) => (OutOfFuel, t1)
    end.
  Definition simd_apply (dst : list E) : outcome (list E) := fst (simd_apply_tr dst).
End Mem.

(* ---- iter.rs: pure views (chunks are copies; bounds are those of split_at_checked) ---- *)
Section Iter.
  Context {E : Type}.
  Variable pad : E.
  Variable lanes : nat.

  (* Iter::next repeated: the full chunks, and what is left in self.xs afterwards *)
  Fixpoint chunks (fuel : nat) (xs : list E) : list (list E) * list E :=
    match fuel with
    | O => ([], xs)
    | S f =>
        if Nat.leb lanes (length xs) && Nat.ltb 0 lanes then
          let '(cs, r) := chunks f (skipn lanes xs) in (firstn lanes xs :: cs, r)
        else ([], xs)
    end.
  Definition iter_chunks (xs : list E) := chunks (S (length xs)) xs.

  Definition load_pad (xs : list E) : list E * list bool :=
    let n := Nat.min (length xs) lanes in
    (firstn lanes (firstn n xs ++ repeat pad lanes), first_n_mask lanes n).
  (* Iter::tail *)
  Definition iter_tail (rest : list E) : option (list E * list bool) :=
    match rest with [] => None | _ => Some (load_pad rest) end.
  (* IterPad: the chunks followed by the padded tail if the length is not a multiple of lanes *)
  Definition iter_pad (xs : list E) : list (list E) :=
    let '(cs, r) := iter_chunks xs in
    match iter_tail r with Some (t, _) => cs ++ [t] | None => cs end.

  Definition vselect (m : list bool) (x y : list E) : list E :=
    map (fun p : bool * (E * E) => if fst p then fst (snd p) else snd (snd p)) (combine m (combine x y)).

  (* Iter::fold *)
  Definition iter_fold (f : list E -> list E -> list E) (acc : list E) (xs : list E) : list E :=
    let '(cs, r) := iter_chunks xs in
    let acc := fold_left f cs acc in
    match iter_tail r with
    | Some (t, m) => vselect m (f acc t) acc
    | None => acc
    end.

  (* Iter::fold_n: N accumulators updated together by [f]; after the padded tail every accumulator keeps its
     old value in the lanes that the mask excludes *)
  Definition iter_fold_n (f : list (list E) -> list E -> list (list E)) (accs : list (list E)) (xs : list E)
    : list (list E) :=
    let '(cs, r) := iter_chunks xs in
    let accs := fold_left f cs accs in
    match iter_tail r with
    | Some (t, m) => map (fun p : list E * list E => vselect m (fst p) (snd p)) (combine (f accs t) accs)
    | None => accs
    end.

  (* Iter::fold_n_unroll::<N, UNROLL>: as fold_unroll with lists of accumulators, finishing through fold_n *)
  Fixpoint blocks_n (fuel u : nat) (xs : list E) (accss : list (list (list E)))
           (f : list (list E) -> list E -> list (list E)) : list (list (list E)) * list E :=
    match fuel with
    | O => (accss, xs)
    | S fu =>
        if Nat.leb (lanes * u) (length xs) && Nat.ltb 0 (lanes * u) then
          let blk := firstn (lanes * u) xs in
          let vs := fst (chunks (S u) blk) in
          blocks_n fu u (skipn (lanes * u) xs)
                   (map (fun p : list (list E) * list E => f (fst p) (snd p)) (combine accss vs)) f
        else (accss, xs)
    end.
  Definition iter_fold_n_unroll (u : nat) (f : list (list E) -> list E -> list (list E))
             (facc : list (list E) -> list (list E) -> list (list E)) (accs : list (list E)) (xs : list E)
    : list (list E) :=
    let '(accss, r) := blocks_n (S (length xs)) u xs (repeat accs u) f in
    match accss with
    | [] => iter_fold_n f accs r
    | a0 :: rest => iter_fold_n f (fold_left facc rest a0) r
    end.

  (* Iter::fold_unroll::<UNROLL>: UNROLL accumulators (each starting from [acc]) over blocks of
     UNROLL vectors, combined with [facc], then [iter_fold] on what is left *)
  Fixpoint blocks (fuel u : nat) (xs : list E) (accs : list (list E)) (f : list E -> list E -> list E)
    : list (list E) * list E :=
    match fuel with
    | O => (accs, xs)
    | S fu =>
        if Nat.leb (lanes * u) (length xs) && Nat.ltb 0 (lanes * u) then
          let blk := firstn (lanes * u) xs in
          let vs := fst (chunks (S u) blk) in
          blocks fu u (skipn (lanes * u) xs) (map (fun p => f (fst p) (snd p)) (combine accs vs)) f
        else (accs, xs)
    end.
  Definition iter_fold_unroll (u : nat) (f facc : list E -> list E -> list E) (acc : list E) (xs : list E) : list E :=
    let '(accs, r) := blocks (S (length xs)) u xs (repeat acc u) f in
    match accs with
    | [] => iter_fold f acc r
    | a0 :: rest => iter_fold f (fold_left facc rest a0) r
    end.
End Iter.

(* ---- the concrete lane functions used by the harness ---- *)
Definition g_affine (ty : N) (x : Z) : Z := wrap ty (x * 3 + 1).
Definition vop (ty opk : N) (v : list Z) : list Z :=
  match opk with
  | 0%N => map (g_affine ty) v
  | _ => rev v                       (* a cross-lane op: reverse the vector *)
  end.
Definition vadd (ty : N) (a b : list Z) : list Z := map (fun p => wrap ty (fst p + snd p)) (combine a b).
Definition vmax (a b : list Z) : list Z := map (fun p => Z.max (fst p) (snd p)) (combine a b).
Definition vmin (a b : list Z) : list Z := map (fun p => Z.min (fst p) (snd p)) (combine a b).
(* the three accumulators the harness folds together: wrapping sum, min, max *)
(* accumulator i is updated by the i-th vector function *)
Definition cwv {E} (fs : list (list E -> list E -> list E)) (accs : list (list E)) (x : list E) : list (list E) :=
  map (fun p : (list E -> list E -> list E) * list E => fst p (snd p) x) (combine fs accs).
Definition f3 (ty : N) : list (list Z) -> list Z -> list (list Z) := cwv [vadd ty; vmin; vmax].
Definition g3 (ty : N) (a b : list (list Z)) : list (list Z) :=
  match a, b with
  | [s; mn; mx], [s2; mn2; mx2] => [vadd ty s s2; vmin mn mn2; vmax mx mx2]
  | _, _ => a
  end.

Definition out_list (o : outcome (list Z)) : list Z :=
  match o with Done l => l | Fault i => [-1; Z.of_nat i] | OutOfFuel => [-2] end.

(* slice function codes (harness/simd/src/slices.rs S_x):
   0 simd_map in place   1 simd_map src->dst   2 simd_apply::<unroll>
   3 simd_iter: chunks ++ tail vector ++ tail mask (aux), 4 simd_iter_pad
   5 fold (add, accum = splat c)   6 fold_unroll::<unroll> (add/add)
   7 fold_n::<2> (add, max)        8 fold_n_unroll::<2, unroll>
   where c = 5 is the initial accumulator value used by the harness *)
Definition acc0 : Z := 5.
(* initial accumulators of the min / max folds: not zero, so that a padded lane entering the fold shows *)
Definition acc_min : Z := 120.
Definition acc_max (ty : N) : Z := if ((ty =? 1) || (ty =? 3))%N then 3 else -120.

Definition model_slice (ty fn unroll opk : N) (lanes : nat) (xs : list Z) : list Z :=
  let u := N.to_nat unroll in
  match fn with
  | 0%N => out_list (simd_map 0 lanes (vop ty opk) xs)
  | 1%N => out_list (fst (simd_map_tr 0 lanes (vop ty opk) false xs (repeat 0 (length xs))))
  | 2%N => out_list (simd_apply 0 lanes (vop ty opk) u xs)
  | 3%N => let '(cs, r) := iter_chunks lanes xs in
           concat cs ++ match iter_tail 0 lanes r with Some (t, m) => t ++ bz m | None => [] end
  | 4%N => concat (iter_pad 0 lanes xs)
  | 5%N => iter_fold 0 lanes (vadd ty) (repeat acc0 lanes) xs
           ++ iter_fold 0 lanes vmin (repeat acc_min lanes) xs
           ++ iter_fold 0 lanes vmax (repeat (acc_max ty) lanes) xs
  | 6%N => iter_fold_unroll 0 lanes u (vadd ty) (vadd ty) (repeat acc0 lanes) xs
           ++ iter_fold_unroll 0 lanes u vmin vmin (repeat acc_min lanes) xs
           ++ iter_fold_unroll 0 lanes u vmax vmax (repeat (acc_max ty) lanes) xs
  | 7%N => concat (iter_fold_n 0 lanes (f3 ty)
                     [repeat acc0 lanes; repeat acc_min lanes; repeat (acc_max ty) lanes] xs)
  | 8%N => concat (iter_fold_n_unroll 0 lanes u (f3 ty) (g3 ty)
                     [repeat acc0 lanes; repeat acc_min lanes; repeat (acc_max ty) lanes] xs)
  | _ => []
  end.

(* what the PROPERTY demands of each function, stated without chunking *)
Fixpoint every_nth (lanes j : nat) (i : nat) (xs : list Z) : list Z :=   (* elements whose index = j mod lanes *)
  match xs with
  | [] => []
  | x :: r => if Nat.eqb (Nat.modulo i lanes) j then x :: every_nth lanes j (S i) r else every_nth lanes j (S i) r
  end.
Definition lane_sums (ty : N) (lanes : nat) (init : Z) (xs : list Z) : list Z :=
  map (fun j => wsum ty init (every_nth lanes j 0 xs)) (seq 0 lanes).
Definition lane_mins (lanes : nat) (init : Z) (xs : list Z) : list Z :=
  map (fun j => fold_left Z.min (every_nth lanes j 0 xs) init) (seq 0 lanes).
Definition lane_maxs (lanes : nat) (init : Z) (xs : list Z) : list Z :=
  map (fun j => fold_left Z.max (every_nth lanes j 0 xs) init) (seq 0 lanes).
(* reversal inside each full vector; the padded tail vector reversed then cut to the slice *)
Fixpoint rev_chunks (fuel lanes : nat) (xs : list Z) : list Z :=
  match fuel with
  | O => []
  | S f => match xs with
           | [] => []
           | _ => if Nat.leb lanes (length xs) then rev (firstn lanes xs) ++ rev_chunks f lanes (skipn lanes xs)
                  else firstn (length xs) (rev (zpad lanes xs))
           end
  end.

Definition spec_slice (ty fn unroll opk : N) (lanes : nat) (xs : list Z) : list Z :=
  let u := Z.of_N unroll in
  match fn with
  | 0%N | 1%N | 2%N =>
      match opk with
      | 0%N => map (g_affine ty) xs
      | _ => rev_chunks (S (length xs)) lanes xs
      end
  | 3%N => let full := (length xs / lanes * lanes)%nat in
           let r := skipn full xs in
           firstn full xs ++ match r with [] => [] | _ => zpad lanes r ++ bz (first_n_mask lanes (length r)) end
  | 4%N => let full := (length xs / lanes * lanes)%nat in
           let r := skipn full xs in
           firstn full xs ++ match r with [] => [] | _ => zpad lanes r end
  | 5%N | 7%N => lane_sums ty lanes acc0 xs ++ lane_mins lanes acc_min xs ++ lane_maxs lanes (acc_max ty) xs
  | 6%N | 8%N => lane_sums ty lanes (wrap ty (u * acc0)) xs ++ lane_mins lanes acc_min xs ++ lane_maxs lanes (acc_max ty) xs
  | _ => []
  end.

(* rten-vecmath reducers (harness/simd/src/reducers.rs): the scalar fold over EXACTLY the slice elements.
   Infinities (results for the empty slice) are encoded as +-2^40. *)
Definition inf_code : Z := 2 ^ 40.
Definition reduce_spec (red : N) (xs : list Z) : list Z :=
  match red with
  | 0%N => [fold_left Z.min xs inf_code; fold_left Z.max xs (- inf_code)]     (* MinMax *)
  | 1%N => [fold_left Z.add xs 0]                                             (* Sum *)
  | 2%N => [fold_left (fun s x => s + x * x) xs 0]                            (* SumSquare *)
  | 3%N => [fold_left Z.max xs (- inf_code)]                                  (* MaxNum *)
  | 4%N => [fold_left Z.min xs inf_code]                                      (* MinNum *)
  | _ => [0]                                   (* softmax of a constant vector: no output differs from 1/len *)
  end.

(* ------------------------------------------------------------------ Part 3: cases *)
Definition list_eqb (a b : list Z) : bool :=
  (length a =? length b)%nat && forallb (fun p => fst p =? snd p) (combine a b).

Inductive case :=
  (* one lane-wise integer primitive on one operand triple; rs = result on every available ISA *)
| CPrim (ty op k : N) (x y z : Z) (rs : list Z)
  (* exhaustive / large sweep done in Rust against the Rust scalar definition; the first
     mismatch (if any) is carried so that it is re-judged here against the Coq definition *)
| CSweep (ty op k count : N) (mism : option (Z * Z * Z * list Z))
  (* whole-vector primitive on one ISA; None = the primitive panicked *)
| CVec (ty v : N) (lanes : nat) (a b : list Z) (r : option (list Z))
  (* f32 primitive on bit patterns: per-ISA results and the admissible Rust scalar results *)
| CFlt (op : N) (x y z : Z) (rs : list Z) (r1 r2 : option Z)
| CFSweep (op count : N) (mism : option (Z * Z * Z * list Z * option Z * option Z))
  (* slice helper on one ISA: observed output (see model_slice) and fault flag (guard page hit,
     canary overwritten, or panic) *)
| CSlice (ty fn unroll opk : N) (lanes : nat) (xs : list Z) (out : list Z) (fault : bool)
| CSliceSweep (ty fn unroll opk : N) (lanes : nat) (count : N) (bad : option N)
  (* a vectorised rten-vecmath operation evaluated on every ISA: (uses_fma, bits) per ISA *)
| CVm (fn : N) (x : Z) (rs : list (bool * Z))
  (* a rten-vecmath reducer on small-integer data: result on every ISA *)
| CReduce (red : N) (xs : list Z) (rs : list (list Z))
| CReduceSweep (red family count : N) (bad : option N).

Definition prim_ok (ty op k : N) (x y z : Z) (rs : list Z) : bool :=
  negb (match rs with [] => true | _ => false end) && forallb (Z.eqb (lane_op ty op k x y z)) rs.

Definition flt_in (r : Z) (r1 r2 : option Z) : bool :=
  match r1 with
  | None => false
  | Some a => f_same r a || match r2 with Some b => f_same r b | None => false end
  end.
Definition flt_ok (op : N) (x y z : Z) (rs : list Z) (r1 r2 : option Z) : bool :=
  match rs with
  | [] => false
  | r0 :: _ =>
      match r1 with
      | Some _ => forallb (fun r => flt_in r r1 r2) rs
      | None => forallb (f_same r0) rs       (* no scalar definition: the ISAs must at least agree *)
      end
  end.
(* the Coq-side definition, where there is one, must be among the admissible results *)
Definition flt_agree (op : N) (x y z : Z) (rs : list Z) (r1 r2 : option Z) : bool :=
  match flt_def op x y z with
  | Some d => forallb (f_same d) rs && flt_in d r1 r2
  | None => flt_ok op x y z rs r1 r2
  end.

Fixpoint vm_ok (rs : list (bool * Z)) : bool :=
  match rs with
  | [] => true
  | (fma, r) :: rest =>
      forallb (fun p => if Bool.eqb (fst p) fma then f_same (snd p) r else true) rest && vm_ok rest
  end.

Definition prop_ok (c : case) : bool :=
  match c with
  | CPrim ty op k x y z rs => prim_ok ty op k x y z rs
  | CSweep ty op k _ None => true
  | CSweep ty op k _ (Some (x, y, z, rs)) => prim_ok ty op k x y z rs
  | CVec ty v lanes a b (Some r) => list_eqb r (vec_op ty v lanes a b)
  | CVec _ _ _ _ _ None => false
  | CFlt op x y z rs r1 r2 => flt_ok op x y z rs r1 r2
  | CFSweep _ _ None => true
  | CFSweep op _ (Some (x, y, z, rs, r1, r2)) => flt_ok op x y z rs r1 r2
  | CSlice ty fn unroll opk lanes xs out fault =>
      negb fault && list_eqb out (spec_slice ty fn unroll opk lanes xs)
  | CSliceSweep _ _ _ _ _ _ None => true
  | CSliceSweep _ _ _ _ _ _ (Some _) => false
  | CVm _ _ rs => vm_ok rs
  | CReduce red xs rs =>
      negb (match rs with [] => true | _ => false end) && forallb (fun r => list_eqb r (reduce_spec red xs)) rs
  | CReduceSweep _ _ _ None => true
  | CReduceSweep _ _ _ (Some _) => false
  end.

Definition agree (c : case) : bool :=
  match c with
  | CSlice ty fn unroll opk lanes xs out fault =>
      negb fault && list_eqb out (model_slice ty fn unroll opk lanes xs)
  | CFlt op x y z rs r1 r2 => flt_agree op x y z rs r1 r2
  | CFSweep op _ (Some (x, y, z, rs, r1, r2)) => flt_agree op x y z rs r1 r2
  (* a sweep mismatch that the Coq definition does not confirm = the Rust reference is wrong *)
  | CSweep ty op k _ (Some (x, y, z, rs)) => negb (prim_ok ty op k x y z rs)
  | _ => prop_ok c
  end.

Definition show (c : case) : list Z :=
  match c with
  | CPrim ty op k x y z _ => [lane_op ty op k x y z]
  | CSweep ty op k _ (Some (x, y, z, _)) => [lane_op ty op k x y z]
  | CVec ty v lanes a b _ => vec_op ty v lanes a b
  | CFlt op x y z _ _ _ => match flt_def op x y z with Some d => [d] | None => [] end
  | CSlice ty fn unroll opk lanes xs _ _ => model_slice ty fn unroll opk lanes xs
  | CReduce red xs _ => reduce_spec red xs
  | _ => []
  end.
