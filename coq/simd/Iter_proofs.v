(* Proofs about the iterator model (SimdModel.v Section Iter): SimdIterable chunking, padded
   iteration, and the masked folds, for every lane count >= 1. *)
From RV Require Import Prelude.
From Simd Require Import SimdModel Simd_proofs.

Section IterProofs.
  Context {E : Type}.
  Variable pad : E.
  Variable lanes : nat.
  Hypothesis lanes_pos : (1 <= lanes)%nat.

  (* Iter::next: the full vectors in order, then fewer than [lanes] elements are left *)
  Lemma chunks_spec fuel (xs : list E) :
    (length xs < fuel)%nat ->
    let '(cs, r) := chunks lanes fuel xs in
    concat cs ++ r = xs /\ Forall (fun c => length c = lanes) cs /\ (length r < lanes)%nat
    /\ length cs = (length xs / lanes)%nat.
  Proof.
    revert xs. induction fuel as [|f IH]; intros xs H; [lia|]. cbn [chunks].
    destruct (Nat.leb lanes (length xs) && Nat.ltb 0 lanes) eqn:Ec.
    - apply andb_true_iff in Ec. destruct Ec as [E1 _]. apply Nat.leb_le in E1.
      specialize (IH (skipn lanes xs)). rewrite skipn_length in IH.
      destruct (chunks lanes f (skipn lanes xs)) as [cs r].
      destruct IH as [Hc [Hf [Hr Hn]]]; [lia|].
      cbn [concat]. rewrite <- app_assoc, Hc, firstn_skipn.
      split; [reflexivity|]. split; [|split; [exact Hr|]].
      + constructor; [rewrite firstn_length; lia|exact Hf].
      + cbn [length]. rewrite Hn.
        replace (length xs) with (1 * lanes + (length xs - lanes))%nat at 2 by lia.
        rewrite Nat.div_add_l by lia. reflexivity.
    - apply andb_false_iff in Ec. cbn [concat app].
      assert (Hlt : (length xs < lanes)%nat).
      { destruct Ec as [Ec|Ec]; [apply Nat.leb_gt in Ec; exact Ec|apply Nat.ltb_ge in Ec; lia]. }
      split; [reflexivity|]. split; [constructor|]. split; [exact Hlt|].
      cbn [length]. symmetry. apply Nat.div_small. exact Hlt.
  Qed.

  (* ExactSizeIterator::len of Iter = n_full_chunks = len / lanes is the last conjunct above *)

  Lemma load_pad_spec (r : list E) :
    (length r <= lanes)%nat ->
    load_pad pad lanes r = (r ++ repeat pad (lanes - length r), first_n_mask lanes (length r)).
  Proof.
    intros H. unfold load_pad. replace (Nat.min (length r) lanes) with (length r) by lia.
    rewrite firstn_all. f_equal.
    rewrite firstn_app. rewrite firstn_all2 by lia. f_equal.
    assert (Hrep : forall a b, (a <= b)%nat -> firstn a (repeat pad b) = repeat pad a).
    { induction a as [|a IHa]; intros b Hb; [reflexivity|]. destruct b; [lia|]. cbn [repeat firstn]. rewrite IHa by lia. reflexivity. }
    apply Hrep. lia.
  Qed.

  (* IterPad: the slice followed by padding up to the next multiple of the vector length; every
     yielded vector is full *)
  Theorem iter_pad_spec (xs : list E) :
    exists k, concat (iter_pad pad lanes xs) = xs ++ repeat pad k
              /\ (k < lanes)%nat
              /\ Forall (fun c => length c = lanes) (iter_pad pad lanes xs)
              /\ (length xs + k = lanes * length (iter_pad pad lanes xs))%nat.
  Proof.
    unfold iter_pad, iter_chunks.
    pose proof (chunks_spec (S (length xs)) xs (Nat.lt_succ_diag_r _)) as Hc.
    destruct (chunks lanes (S (length xs)) xs) as [cs r].
    destruct Hc as [Hx [Hf [Hr Hn]]].
    assert (Hlen : length (concat cs) = (lanes * length cs)%nat).
    { clear -Hf. induction Hf as [|c cs Hc Hf IH]; cbn [concat length]; [lia|].
      rewrite app_length, IH, Hc. lia. }
    unfold iter_tail. destruct r as [|x r].
    - exists 0%nat. cbn [repeat]. rewrite app_nil_r in Hx |- *. split; [exact Hx|]. split; [lia|]. split; [exact Hf|].
      rewrite <- Hx, Hlen. lia.
    - rewrite load_pad_spec by lia. exists (lanes - length (x :: r))%nat.
      rewrite concat_app. cbn [concat]. rewrite app_nil_r, app_assoc, Hx.
      split; [reflexivity|]. split; [cbn [length] in *; lia|]. split.
      + apply Forall_app. split; [exact Hf|]. constructor; [|constructor].
        rewrite app_length, repeat_length. lia.
      + rewrite app_length. cbn [length]. rewrite <- Hx, app_length, Hlen. cbn [length] in *. lia.
  Qed.

  (* ---- folds with a lane-wise combining function ---- *)
  Variable g : E -> E -> E.
  Definition vzip (a b : list E) : list E := map (fun p => g (fst p) (snd p)) (combine a b).
  Variable d : E.
  Definition col (j : nat) (cs : list (list E)) : list E := map (fun c => nth j c d) cs.

  Lemma vzip_length a b : length a = lanes -> length b = lanes -> length (vzip a b) = lanes.
  Proof. intros Ha Hb. unfold vzip. rewrite map_length, combine_length. lia. Qed.

  Lemma vzip_nth a b j : length a = lanes -> length b = lanes -> (j < lanes)%nat ->
    nth j (vzip a b) d = g (nth j a d) (nth j b d).
  Proof.
    intros Ha Hb Hj. unfold vzip.
    rewrite nth_indep with (d' := (fun p => g (fst p) (snd p)) (d, d))
      by (rewrite map_length, combine_length; lia).
    rewrite (map_nth (fun p => g (fst p) (snd p))). rewrite combine_nth by lia. reflexivity.
  Qed.

  Lemma fold_chunks_nth cs acc j :
    length acc = lanes -> Forall (fun c => length c = lanes) cs -> (j < lanes)%nat ->
    length (fold_left vzip cs acc) = lanes
    /\ nth j (fold_left vzip cs acc) d = fold_left g (col j cs) (nth j acc d).
  Proof.
    intros Ha Hf Hj. revert acc Ha. induction Hf as [|c cs Hc Hf IH]; intros acc Ha; cbn [fold_left col map].
    - split; [exact Ha|reflexivity].
    - destruct (IH (vzip acc c) (vzip_length _ _ Ha Hc)) as [H1 H2].
      split; [exact H1|]. rewrite H2, vzip_nth by assumption. reflexivity.
  Qed.

  Lemma vselect_nth (m : list bool) (x y : list E) j :
    length m = lanes -> length x = lanes -> length y = lanes -> (j < lanes)%nat ->
    nth j (vselect m x y) d = if nth j m false then nth j x d else nth j y d.
  Proof.
    intros Hm Hx Hy Hj. unfold vselect.
    rewrite nth_indep with (d' := (fun p : bool * (E * E) => if fst p then fst (snd p) else snd (snd p)) (false, (d, d)))
      by (rewrite map_length, !combine_length; lia).
    rewrite (map_nth (fun p : bool * (E * E) => if fst p then fst (snd p) else snd (snd p))).
    rewrite combine_nth by (rewrite combine_length; lia). rewrite combine_nth by lia.
    cbn [fst snd]. destruct (nth j m false); reflexivity.
  Qed.

  (* Iter::fold: lane j accumulates the j-th element of every full vector and, if the tail has
     more than j elements, the j-th tail element; the padding never enters the result *)
  Theorem iter_fold_spec (xs acc : list E) j :
    length acc = lanes -> (j < lanes)%nat ->
    let '(cs, r) := iter_chunks lanes xs in
    nth j (iter_fold pad lanes vzip acc xs) d
    = fold_left g (col j cs ++ (if Nat.ltb j (length r) then [nth j r d] else [])) (nth j acc d).
  Proof.
    intros Ha Hj. unfold iter_fold, iter_chunks.
    pose proof (chunks_spec (S (length xs)) xs (Nat.lt_succ_diag_r _)) as Hc.
    destruct (chunks lanes (S (length xs)) xs) as [cs r].
    destruct Hc as [Hx [Hf [Hr Hn]]].
    destruct (fold_chunks_nth cs acc j Ha Hf Hj) as [Hl Hnth].
    rewrite fold_left_app. unfold iter_tail. destruct r as [|x r].
    - cbn [length]. replace (Nat.ltb j 0) with false by (symmetry; apply Nat.ltb_ge; lia).
      cbn [fold_left]. exact Hnth.
    - rewrite load_pad_spec by lia.
      set (t := (x :: r) ++ repeat pad (lanes - length (x :: r))).
      assert (Ht : length t = lanes) by (subst t; rewrite app_length, repeat_length; lia).
      rewrite vselect_nth; try assumption;
        [|apply first_n_mask_length|apply vzip_length; assumption].
      rewrite first_n_mask_nth by exact Hj.
      destruct (Nat.ltb j (length (x :: r))) eqn:Ej.
      + cbn [fold_left]. rewrite vzip_nth by assumption. rewrite Hnth.
        apply Nat.ltb_lt in Ej. subst t. rewrite app_nth1 by exact Ej. reflexivity.
      + cbn [fold_left]. exact Hnth.
  Qed.
End IterProofs.

(* ---- Iter::fold_n with accumulators updated component-wise ---- *)
Section FoldN.
  Context {E : Type}.
  Variable pad : E.
  Variable lanes : nat.

  Lemma map_snd_combine {A B} (l : list A) (m : list B) : length l = length m -> map snd (combine l m) = m.
  Proof.
    revert m. induction l as [|a l IH]; intros [|b m] H; cbn [length] in H; try discriminate; [reflexivity|].
    cbn [combine map snd]. rewrite IH by lia. reflexivity.
  Qed.

  Lemma combine_map_r {A B C} (h : A * B -> C) (l : list A) (m : list B) :
    combine l (map h (combine l m)) = map (fun p => (fst p, h p)) (combine l m).
  Proof.
    revert m. induction l as [|a l IH]; intros [|b m]; cbn [combine map]; try reflexivity.
    rewrite IH. reflexivity.
  Qed.

  Lemma combine_map_map {A B C} (f : A -> B) (g : A -> C) (l : list A) :
    combine (map f l) (map g l) = map (fun a => (f a, g a)) l.
  Proof. induction l as [|a l IH]; cbn [map combine]; [reflexivity|]. rewrite IH. reflexivity. Qed.

  Notation vfun := (list E -> list E -> list E).

  Lemma cwv_length (fs : list vfun) accs x : length (cwv fs accs x) = length (combine fs accs).
  Proof. unfold cwv. apply map_length. Qed.

  Lemma cwv_fold cs (fs : list vfun) accs :
    length fs = length accs ->
    fold_left (cwv fs) cs accs = map (fun p : vfun * list E => fold_left (fst p) cs (snd p)) (combine fs accs).
  Proof.
    revert accs. induction cs as [|c cs IH]; intros accs Hl; cbn [fold_left].
    - symmetry. apply (map_snd_combine fs accs Hl).
    - rewrite IH by (rewrite cwv_length, combine_length; lia).
      unfold cwv. rewrite combine_map_r, map_map. reflexivity.
  Qed.

  (* fold_n = one masked fold per accumulator: the padding lanes of the tail never enter ANY accumulator,
     whatever the combining functions are (sum, min, max, ...) *)
  Theorem iter_fold_n_componentwise (fs : list vfun) accs (xs : list E) :
    length fs = length accs ->
    iter_fold_n pad lanes (cwv fs) accs xs
    = map (fun p : vfun * list E => iter_fold pad lanes (fst p) (snd p) xs) (combine fs accs).
  Proof.
    intros Hl. unfold iter_fold_n, iter_fold. destruct (iter_chunks lanes xs) as [cs r].
    rewrite (cwv_fold cs fs accs Hl).
    destruct (iter_tail pad lanes r) as [[t m]|]; [|reflexivity].
    unfold cwv. rewrite combine_map_r, map_map. cbn [fst snd].
    rewrite combine_map_map, map_map. reflexivity.
  Qed.
End FoldN.
