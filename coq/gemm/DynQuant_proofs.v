(* C17 -- DynamicQuantizeLinear followed by dequantisation stays within (half) a quantisation
   step, over the rationals with round-half-to-even.  The f32 rounding of scale / zero point /
   x / scale is not modelled (partial). *)
From RV Require Import Prelude.
From Gemm Require Import Int8.
From Coq Require Import QArith Qminmax Qround Qabs Lqa.
Open Scope Q_scope.

Lemma rhe_comp x y : x == y -> round_half_even x = round_half_even y.
Proof.
  intros H. unfold round_half_even. rewrite (Qfloor_comp _ _ H).
  assert (E : (x - inject_Z (Qfloor y) ?= 1 # 2) = (y - inject_Z (Qfloor y) ?= 1 # 2)).
  { apply Qcompare_comp; [rewrite H; reflexivity|reflexivity]. }
  rewrite E. reflexivity.
Qed.

Lemma rhe_near x : x - (1 # 2) <= inject_Z (round_half_even x) /\ inject_Z (round_half_even x) <= x + (1 # 2).
Proof.
  unfold round_half_even.
  pose proof (Qfloor_le x) as F1. pose proof (Qlt_floor x) as F2.
  rewrite inject_Z_plus in F2. change (inject_Z 1) with 1 in F2.
  set (f := Qfloor x) in *.
  destruct (Qcompare (x - inject_Z f) (1 # 2)) eqn:E.
  - apply Qeq_alt in E. destruct (Z.even f).
    + split; lra.
    + rewrite inject_Z_plus. change (inject_Z 1) with 1. split; lra.
  - apply Qlt_alt in E. split; lra.
  - apply Qgt_alt in E. rewrite inject_Z_plus. change (inject_Z 1) with 1. split; lra.
Qed.

(* the core: in units of the step, with any nearest rounding of x/scale and of the zero point *)
Lemma quantize_core (t z0 : Q) (r zp : Z) :
  - z0 <= t -> t <= 255 - z0 -> 0 <= z0 -> z0 <= 255 ->
  t - (1 # 2) <= inject_Z r -> inject_Z r <= t + (1 # 2) ->
  z0 - (1 # 2) <= inject_Z zp -> inject_Z zp <= z0 + (1 # 2) ->
  Qabs (inject_Z (Zclamp 0 255 (r + zp) - zp) - t) <= 1 # 2.
Proof.
  intros T1 T2 Z1 Z2 R1 R2 P1 P2.
  assert (S1 : (-1 <= r + zp)%Z).
  { rewrite Zle_Qle, inject_Z_plus. change (inject_Z (-1)) with (-1). lra. }
  assert (S2 : (r + zp <= 256)%Z).
  { rewrite Zle_Qle, inject_Z_plus. change (inject_Z 256) with 256. lra. }
  apply Qabs_Qle_condition. unfold Zclamp.
  destruct (Z.eq_dec (r + zp) (-1)) as [E|N1].
  - rewrite E. change (Z.max 0 (Z.min 255 (-1))) with 0%Z.
    assert (Er : inject_Z r == -1 - inject_Z zp).
    { assert (r = (-1 - zp)%Z) by lia. subst r. unfold Zminus. rewrite inject_Z_plus, inject_Z_opp.
      change (inject_Z (-1)) with (-1). lra. }
    unfold Zminus. rewrite inject_Z_plus, inject_Z_opp. change (inject_Z 0) with 0. split; lra.
  - destruct (Z.eq_dec (r + zp) 256) as [E|N2].
    + rewrite E. change (Z.max 0 (Z.min 255 256)) with 255%Z.
      assert (Er : inject_Z r == 256 - inject_Z zp).
      { assert (r = (256 - zp)%Z) by lia. subst r. unfold Zminus. rewrite inject_Z_plus, inject_Z_opp.
        change (inject_Z 256) with 256. lra. }
      unfold Zminus. rewrite inject_Z_plus, inject_Z_opp. change (inject_Z 255) with 255. split; lra.
    + replace (Z.max 0 (Z.min 255 (r + zp))) with (r + zp)%Z by lia.
      replace (r + zp - zp)%Z with r by lia. split; lra.
Qed.

Theorem dynamic_quantize_within_step_Q (x_min x_max x : Q) :
  x_min <= x -> x <= x_max -> Qmin x_min 0 < Qmax x_max 0 ->
  let p := dyn_params x_min x_max in
  Qabs (dequantize p (quantize p x) - x) <= (1 # 2) * dq_scale p /\
  (1 # 2) * dq_scale p <= dq_scale p.
Proof.
  intros Hlo Hhi Hrange p.
  set (lo := Qmin x_min 0) in *. set (hi := Qmax x_max 0) in *.
  assert (L0 : lo <= 0) by (subst lo; apply Q.le_min_r).
  assert (L1 : lo <= x_min) by (subst lo; apply Q.le_min_l).
  assert (H0 : 0 <= hi) by (subst hi; apply Q.le_max_r).
  assert (H1 : x_max <= hi) by (subst hi; apply Q.le_max_l).
  set (scale := (hi - lo) / 255).
  assert (Hs : 0 < scale).
  { subst scale. apply Qlt_shift_div_l; [reflexivity|]. lra. }
  assert (Ep : dq_scale p = scale) by reflexivity.
  set (z0 := 0 - lo / scale).
  set (t := x / scale).
  assert (Xt : x == t * scale) by (subst t; field; lra).
  assert (Lz : lo == - z0 * scale) by (subst z0; field; lra).
  assert (Hz : hi == (255 - z0) * scale).
  { assert (hi - lo == 255 * scale) by (subst scale; field). lra. }
  (* bounds in units of the step *)
  assert (Z1 : 0 <= z0).
  { apply (Qmult_le_r _ _ scale Hs). lra. }
  assert (Z2 : z0 <= 255).
  { apply (Qmult_le_r _ _ scale Hs). lra. }
  assert (T1 : - z0 <= t).
  { apply (Qmult_le_r _ _ scale Hs). lra. }
  assert (T2 : t <= 255 - z0).
  { apply (Qmult_le_r _ _ scale Hs). lra. }
  assert (Ezp : dq_zp p = round_half_even z0).
  { unfold p, dyn_params. cbn [dq_zp]. fold lo hi scale z0. apply rhe_comp.
    unfold Qclamp. rewrite Q.min_r by exact Z2. rewrite Q.max_r by exact Z1. reflexivity. }
  destruct (rhe_near t) as [R1 R2]. destruct (rhe_near z0) as [P1 P2].
  pose proof (quantize_core t z0 (round_half_even t) (round_half_even z0) T1 T2 Z1 Z2 R1 R2 P1 P2) as C.
  split; [|rewrite Ep; lra].
  unfold dequantize, quantize. rewrite Ezp, Ep. fold t.
  set (y := inject_Z (Zclamp 0 255 (round_half_even t + round_half_even z0) - round_half_even z0)) in *.
  assert (E : y * scale - x == (y - t) * scale) by lra.
  rewrite E. rewrite Qabs_Qmult. rewrite (Qabs_pos scale) by lra.
  rewrite (Qmult_comm (1 # 2)). rewrite (Qmult_comm (Qabs (y - t))).
  apply Qmult_le_l; [exact Hs|exact C].
Qed.

(* all-zero input: the step is zero and the round trip is exact (scale = 0 branch) *)
Lemma dynamic_quantize_zero_range y : dequantize {| dq_scale := 0; dq_zp := 0 |} y == 0.
Proof. unfold dequantize. cbn. ring. Qed.
