(* C16 -- the im2col gather rule of Im2Col::pack_block applied to the offset tables that
   build_im2col (src/ops/conv/im2col.rs) produces yields exactly the zero-padded convolution
   patch element. *)
From RV Require Import Prelude.
From Gemm Require Import GemmModel.
Open Scope Z_scope.

Lemma valid_iff w h Y X :
  0 < w ->
  ((0 <=? w * Y) && (w * Y <=? (h - 1) * w) && (0 <=? X) && (X <=? w - 1)) =
  ((0 <=? Y) && (Y <? h) && (0 <=? X) && (X <? w)).
Proof.
  intros Hw. apply eq_true_iff_eq.
  rewrite !andb_true_iff, !Z.leb_le, !Z.ltb_lt. split; intros H; repeat split; nia.
Qed.

Definition conv_ok (c : conv) : Prop :=
  (0 < cv_c c /\ 0 < cv_h c /\ 0 < cv_w c /\ 0 < cv_kh c /\ 0 < cv_kw c)%N.

Theorem im2col_get_conv_patch c img r col :
  conv_ok c -> (r < cv_rows c)%N ->
  im2col_get (build_im2col c img) r col = conv_patch c img r col.
Proof.
  intros (Hc & Hh & Hw & Hkh & Hkw) Hr.
  unfold im2col_get, build_im2col, conv_patch, padded_pixel.
  cbn [im_img im_len im_row_chan im_row_y im_row_x im_col_y im_col_x im_max_y im_max_x].
  replace (r <? cv_rows c)%N with true by (symmetry; apply N.ltb_lt; exact Hr).
  set (khw := (cv_kh c * cv_kw c)%N) in *.
  set (ch := (r / khw)%N). set (ky := ((r mod khw) / cv_kw c)%N). set (kx := ((r mod khw) mod cv_kw c)%N).
  set (py := (col / cv_ow c)%N). set (px := (col mod cv_ow c)%N).
  set (w := Z.of_N (cv_w c)). set (h := Z.of_N (cv_h c)).
  set (Y := Z.of_N py * Z.of_N (cv_sh c) - Z.of_N (cv_pad_top c) + Z.of_N ky * Z.of_N (cv_dy c)).
  set (X := Z.of_N px * Z.of_N (cv_sw c) - Z.of_N (cv_pad_left c) + Z.of_N kx * Z.of_N (cv_dx c)).
  assert (Hwp : 0 < w) by (subst w; lia). assert (Hhp : 0 < h) by (subst h; lia).
  replace ((Z.of_N py * Z.of_N (cv_sh c) - Z.of_N (cv_pad_top c)) * w +
           w * Z.of_N ky * Z.of_N (cv_dy c)) with (w * Y) by (subst Y; ring).
  replace (Z.of_N px * Z.of_N (cv_sw c) - Z.of_N (cv_pad_left c) + Z.of_N kx * Z.of_N (cv_dx c))
    with X by reflexivity.
  rewrite (valid_iff w h Y X Hwp).
  destruct ((0 <=? Y) && (Y <? h) && (0 <=? X) && (X <? w)) eqn:E; [|reflexivity].
  rewrite !andb_true_iff, !Z.leb_le, !Z.ltb_lt in E. destruct E as [[[Y0 Y1] X0] X1].
  assert (Hch : (ch < cv_c c)%N).
  { subst ch. apply N.div_lt_upper_bound; [subst khw; nia|]. unfold cv_rows in Hr. subst khw. nia. }
  f_equal.
  assert (Hlo : 0 <= Z.of_N ch * (h * w) + w * Y + X) by nia.
  assert (Hhi : Z.of_N ch * (h * w) + w * Y + X <= Z.of_N (cv_c c) * h * w - 1).
  { assert (Z.of_N ch <= Z.of_N (cv_c c) - 1) by lia.
    assert (Z.of_N ch * (h * w) <= (Z.of_N (cv_c c) - 1) * (h * w)) by (apply Z.mul_le_mono_nonneg_r; nia).
    nia. }
  rewrite Z.max_l by exact Hlo. rewrite Z.min_l by exact Hhi. ring.
Qed.
