(* C37 -- block-quantized matmul = dequantize, then multiply. *)
From RV Require Import Prelude.
From Gemm Require Import GemmModel Gemm_base Gemm_proofs Gemm_readers BlockQuant.
From Coq Require Import Ring.
Open Scope N_scope.

(* shapes of the SIMD code: 8 f32 vectors per vblock; the block size divides the vblock size
   (S = epv / bs scales per vblock, S | 8) or is a multiple of it *)
Definition vec_shape_ok (epv bs : N) : Prop :=
  0 < bs /\ 0 < epv /\ bs mod 2 = 0 /\ epv mod 8 = 0 /\
  ((epv mod bs = 0 /\ 8 mod (epv / bs) = 0) \/ bs mod epv = 0).

Lemma div_exact_mul a b : 0 < b -> a mod b = 0 -> a = (a / b) * b.
Proof. intros Hb H. pose proof (N.div_mod a b ltac:(lia)). lia. Qed.

Lemma div_split a S bs : 0 < bs -> 0 < S -> a / bs = a / (S * bs) * S + a mod (S * bs) / bs.
Proof.
  intros Hb HS. pose proof (N.div_mod a (S * bs) ltac:(nia)) as D.
  rewrite D at 1. replace (S * bs * (a / (S * bs)) + a mod (S * bs)) with (a / (S * bs) * S * bs + a mod (S * bs)) by lia.
  rewrite N.div_add_l by lia. reflexivity.
Qed.

Section VecIdx.
Context (K : ringops).

Theorem vec_scale_idx_correct epv (m : bqmat K) r :
  vec_shape_ok epv (bq_bs m) -> r < bq_rows K m ->
  vec_scale_idx K epv m r = r / bq_bs m.
Proof.
  intros (Hbs & Hepv & Heven & H8 & Hshape) Hr. unfold bq_rows in Hr. unfold vec_scale_idx.
  set (bs := bq_bs m) in *. set (nb := bq_nblocks m) in *. clearbody bs nb.
  destruct Hshape as [[Hdiv HS]|Hmul].
  - (* bs divides epv *)
    set (S := epv / bs) in *.
    assert (ES : epv = S * bs) by (subst S; apply div_exact_mul; assumption).
    clearbody S.
    assert (HS0 : 0 < S) by (destruct (N.eq_dec S 0) as [E|]; [rewrite E in ES; lia|lia]).
    rewrite (N.max_l S 1) by lia.
    assert (Envec : nb * bs / epv = nb / S).
    { rewrite ES. rewrite (N.mul_comm S bs). rewrite <- N.div_div by lia.
      rewrite N.div_mul by lia. reflexivity. }
    rewrite Envec.
    pose proof (N.div_mod nb S ltac:(lia)) as Dnb. pose proof (N.mod_lt nb S ltac:(lia)) as Lnb.
    set (qn := nb / S) in *. set (rn := nb mod S) in *. clearbody qn rn.
    destruct (r <? qn * epv) eqn:Evec.
    + apply N.ltb_lt in Evec.
      destruct (S =? 1) eqn:E1.
      * apply N.eqb_eq in E1. rewrite E1 in ES. rewrite N.mul_1_l in ES. rewrite ES.
        rewrite N.div_same by lia. rewrite N.div_1_r. reflexivity.
      * apply N.eqb_neq in E1.
        (* (o / (epv/8)) / (8/S) = o / bs *)
        assert (E8 : epv = (epv / 8) * 8) by (apply div_exact_mul; lia).
        assert (ES8 : 8 = (8 / S) * S) by (apply div_exact_mul; assumption).
        assert (H8S : 0 < 8 / S) by (destruct (N.eq_dec (8 / S) 0) as [E|]; [rewrite E in ES8; lia|lia]).
        assert (Hv : 0 < epv / 8) by (destruct (N.eq_dec (epv / 8) 0) as [E|]; [rewrite E in E8; lia|lia]).
        assert (Ebs : epv / 8 * (8 / S) = bs).
        { apply (N.mul_cancel_r _ _ S); [lia|]. rewrite <- N.mul_assoc, <- ES8. lia. }
        rewrite N.div_div by lia. rewrite Ebs.
        rewrite ES. symmetry. apply div_split; assumption.
    + apply N.ltb_ge in Evec.
      assert (Esub : nb - rn = S * (qn)) by lia.
      assert (Ebase : qn * epv = (nb - rn) * bs) by (rewrite Esub, ES; lia).
      assert (Hnt : 0 < rn).
      { destruct (N.eq_dec (rn) 0) as [E|]; [|lia]. rewrite E, N.sub_0_r in Ebase. lia. }
      assert (Epairs : (nb * bs - qn * epv) / 2 = rn * (bs / 2)).
      { rewrite Ebase. replace (nb * bs - (nb - rn) * bs) with (rn * bs) by (rewrite Esub; nia).
        rewrite (div_exact_mul bs 2 ltac:(lia) Heven) at 1.
        rewrite N.mul_assoc. rewrite N.div_mul by lia. reflexivity. }
      rewrite Epairs. rewrite (N.mul_comm (rn)). rewrite N.div_mul by lia.
      assert (Hh : 0 < bs / 2).
      { pose proof (div_exact_mul bs 2 ltac:(lia) Heven). destruct (N.eq_dec (bs / 2) 0) as [E|]; [rewrite E in *; lia|lia]. }
      rewrite N.div_div by lia.
      replace (2 * (bs / 2)) with bs by (pose proof (div_exact_mul bs 2 ltac:(lia) Heven); lia).
      rewrite Ebase.
      assert (Er : r = (nb - rn) * bs + (r - (nb - rn) * bs)) by lia.
      rewrite Er at 2. rewrite N.div_add_l by lia. reflexivity.
  - (* bs is a multiple of epv: one scale per vblock, no tail *)
    set (t := bs / epv) in *.
    assert (Et : bs = t * epv) by (subst t; apply div_exact_mul; assumption).
    clearbody t.
    assert (Ht : 0 < t) by (destruct (N.eq_dec t 0) as [E|]; [rewrite E in Et; lia|lia]).
    assert (ES : N.max (epv / bs) 1 = 1).
    { destruct (N.eq_dec t 1) as [E1|N1].
      - rewrite E1 in Et. rewrite N.mul_1_l in Et. rewrite Et, N.div_same by lia. reflexivity.
      - rewrite N.div_small by nia. reflexivity. }
    rewrite ES. rewrite N.eqb_refl.
    assert (Envec : nb * bs / epv * epv = nb * bs).
    { rewrite Et. rewrite N.mul_assoc. rewrite N.div_mul by lia. reflexivity. }
    rewrite Envec. replace (r <? nb * bs) with true by (symmetry; apply N.ltb_lt; exact Hr).
    rewrite N.div_div by lia. rewrite (N.mul_comm epv t), <- Et. reflexivity.
Qed.

End VecIdx.

Section BQMain.
Variable K : ringops.
Hypothesis Kth : ring_theory (r0 K) (r1 K) (radd K) (rmul K) (rsub K) (ropp K) eq.
Hypothesis reqb_spec : forall x y, reqb K x y = true <-> x = y.
Hypothesis K_nontrivial : r1 K <> r0 K.
Add Ring Kring4 : Kth.
Variable w : Z -> K.

(* the vector-matrix path: the SIMD loop with its scale indexing = dot product with the
   dequantized column *)
Theorem vec_dot_eq_dequant epv (m : bqmat K) (lhs : N -> K) j :
  vec_shape_ok epv (bq_bs m) ->
  vec_dot K w epv m lhs j =
  sum_from K (fun r => rmul K (lhs r) (dequant K w m r j)) 0 (N.to_nat (bq_rows K m)).
Proof.
  intros Hs. unfold vec_dot. apply sum_from_ext. intros r _ Hr.
  unfold dequant. rewrite vec_scale_idx_correct; [reflexivity|exact Hs|lia].
Qed.

(* BlockQuantizedGemm (Float mode) = gemm_spec of the dequantized matrix with alpha = 1, beta = 0 *)
Theorem bq_gemm_eq_dequant_gemm epv (m : bqmat K) rows (lhs : mat K) i j :
  vec_shape_ok epv (bq_bs m) ->
  bq_gemm K w epv m rows lhs i j =
  gemm_spec K (r1 K) (r0 K) NoBias lhs (dequant K w m) rows (bq_cols m) (bq_rows K m) (fun _ _ => None) i j.
Proof.
  intros Hs. unfold bq_gemm, gemm_spec, spec_elem.
  destruct ((i <? rows) && (j <? bq_cols m)); [|reflexivity].
  replace (reqb K (r0 K) (r0 K)) with true by (symmetry; apply reqb_spec; reflexivity).
  cbn [bias_at]. unfold dot.
  destruct (bq_rows K m =? 0) eqn:E0.
  - apply N.eqb_eq in E0. rewrite E0. cbn [N.to_nat sum_from]. f_equal. ring.
  - rewrite vec_dot_eq_dequant by exact Hs. f_equal. ring.
Qed.

(* the GEMM path (more than one LHS row): the dequantizing packer delivers the dequantized matrix
   to the kernel, so the C16 driver theorem applies with B := dequant *)
Lemma bq_pack_read (m : bqmat K) r ds de cs ce p kk j :
  0 < r -> j < r -> kk < de - ds ->
  bq_pack K w m r ds de cs ce (p * (r * (de - ds)) + kk * r + j) =
  if cs + p * r + j <? bq_cols m then dequant K w m (ds + kk) (cs + p * r + j)
  else rmul K (w 0%Z) (r0 K).
Proof.
  intros Hr Hj Hk. unfold bq_pack, dequant.
  replace (r * (de - ds)) with ((de - ds) * r) by lia.
  destruct (decode3 p (de - ds) r kk j Hr Hk Hj) as (E1 & E2 & E3).
  rewrite E1, E2, E3. reflexivity.
Qed.

Theorem rhs_bq_ok P (Pok : params_okb P = true) n k (m : bqmat K) :
  n = bq_cols m ->
  rhs_ok K P n k (dequant K w m) (rhs_bq K w P n k m).
Proof.
  intros Hn.
  destruct (Pok_facts P Pok) as (Hmr & Hnr & Hmc & Hnc & Hkc & Dm & Dn).
  intros cidx didx bc kk jj Hci Hdi Hjj Hcol Hkk.
  unfold rhs_bq, col_blk, dep_blk.
  rewrite bq_pack_read by assumption.
  assert (E : (cidx * p_nc P) / p_nr P * p_nr P = cidx * p_nc P).
  { apply div_mul_exact; [exact Hnr|]. apply mul_mod_exact; assumption. }
  replace (cidx * p_nc P + bc * p_nr P + jj) with (((cidx * p_nc P) / p_nr P + bc) * p_nr P + jj) by lia.
  replace (_ <? _) with true by (symmetry; apply N.ltb_lt; lia). reflexivity.
Qed.

Theorem bq_gemm_main_eq_dequant_gemm P (Pok : params_okb P = true) rows k (m : bqmat K)
        (alpha beta : K) bs (A : mat K) lhs (o : omat K) i j :
  lhs_ok K P rows k A lhs -> 0 < k ->
  gemm_main K P rows (bq_cols m) k alpha beta bs lhs (rhs_bq K w P (bq_cols m) k m) o i j =
  gemm_spec K alpha beta bs A (dequant K w m) rows (bq_cols m) k o i j.
Proof.
  intros Hl Hk.
  apply (gemm_main_correct K Kth reqb_spec K_nontrivial P Pok); [exact Hl| |exact Hk].
  apply rhs_bq_ok; [exact Pok|reflexivity].
Qed.

End BQMain.
