(* C37 -- model of 4-bit block-quantized matrix multiplication (rten-gemm/src/block_quant.rs:
   BlockQuantizedMatrix, BlockQuantizedGemm / VecDotMatrix; packing.rs: BlockQuantizedMatrixPacker)
   over an arbitrary commutative ring K for the scales and the LHS.  The quantized elements enter K
   through an arbitrary map [w : Z -> K] (the theorems do not depend on how integers are embedded).
   Executable definitions only. *)
From RV Require Import Prelude.
From Gemm Require Import GemmModel.
Open Scope N_scope.

Section BQ.
Context (K : ringops).

(* BlockQuantizedMatrix: [cols] columns, [nblocks] blocks of [bs] 4-bit elements per column *)
Record bqmat := {
  bq_cols : N;
  bq_nblocks : N;
  bq_bs : N;                       (* elements per block: a power of two >= 16 *)
  bq_byte : N -> N -> N;           (* column, byte index within the column -> packed byte *)
  bq_scale : N -> N -> K           (* column, block -> scale *)
}.
Definition bq_rows (m : bqmat) : N := bq_nblocks m * bq_bs m.
Definition bq_zero_point : Z := 8.      (* nbit_zero_point(4) *)

(* element r of column j: low nibble first, then high nibble of byte r / 2
   (column_data: block * bytes_per_block + k, two rows per byte) *)
Definition nibble (m : bqmat) (r j : N) : Z :=
  let block := r / bq_bs m in
  let within := r mod bq_bs m in
  let byte := bq_byte m j (block * (bq_bs m / 2) + within / 2) in
  Z.of_N (if N.even within then N.land byte 15 else N.shiftr byte 4).

Context (w : Z -> K).

(* the reference: dequantize, then ordinary matrix multiplication *)
Definition dequant (m : bqmat) : mat K :=
  fun r j => rmul K (w (nibble m r j - bq_zero_point)) (bq_scale m j (r / bq_bs m)).

(* ---- VecDotMatrix::eval_impl: which scale the code applies to element r of a column ----
   epv = elements per SIMD vector (2 * u8 lanes: 32 generic/NEON, 64 AVX2, 128 AVX-512) *)
Definition vec_scale_idx (epv : N) (m : bqmat) (r : N) : N :=
  let bs := bq_bs m in let nb := bq_nblocks m in
  let nvec := (nb * bs) / epv in                         (* chunks_exact(elements_per_vec) *)
  let spv := N.max (epv / bs) 1 in                       (* SCALES_PER_VBLOCK *)
  if r <? nvec * epv then
    let v := r / epv in let o := r mod epv in
    if spv =? 1 then v / (bs / epv)                      (* vblock_idx >> log2(vecs_per_block) *)
    else v * spv + (o / (epv / 8)) / (8 / spv)           (* block_idx = vblock_idx * S; scales[i / (8/S)] *)
  else
    (* scalar tail: pairs of elements, tail_scales = last n_tail_scales entries *)
    let ntail := nb mod spv in
    let pairs := (nb * bs - nvec * epv) / 2 in
    let eps := pairs / ntail in
    (nb - ntail) + ((r - nvec * epv) / 2) / eps.

Definition vec_dot (epv : N) (m : bqmat) (lhs : N -> K) (j : N) : K :=
  sum_from K (fun r => rmul K (lhs r)
                         (rmul K (w (nibble m r j - bq_zero_point)) (bq_scale m j (vec_scale_idx epv m r))))
           0 (N.to_nat (bq_rows m)).

(* BlockQuantizedGemm::batched_gemm_uninit, Float mode, one batch member *)
Definition bq_gemm (epv : N) (m : bqmat) (rows : N) (lhs : mat K) : omat K :=
  fun i j => if (i <? rows) && (j <? bq_cols m)
             then (if bq_rows m =? 0 then Some (r0 K) else Some (vec_dot epv m (lhs i) j))
             else None.

(* ---- BlockQuantizedMatrixPacker::pack (the GEMM path): panels of nr columns; within a panel,
   for each block and each byte, a row of low nibbles then a row of high nibbles; columns past
   the matrix use padding data (nibble = zero point, scale = 0) ---- *)
Definition bq_pack (m : bqmat) (nr ds de cs ce : N) : N -> K :=
  fun off =>
    let d := de - ds in
    let p := off / (d * nr) in
    let rem := off mod (d * nr) in
    let r := rem / nr in
    let c := rem mod nr in
    let col := cs + p * nr + c in
    let row := ds + r in
    if col <? bq_cols m
    then rmul K (w (nibble m row col - bq_zero_point)) (bq_scale m col (row / bq_bs m))
    else rmul K (w 0%Z) (r0 K).

Definition rhs_bq (P : params) (n k : N) (m : bqmat) : rhs_reader K :=
  fun cidx didx bc kk j =>
    let '(cs, ce) := col_blk P n cidx in let '(ds, de) := dep_blk P k didx in
    bq_pack m (p_nr P) ds de cs ce (bc * (p_nr P * (de - ds)) + kk * p_nr P + j).

End BQ.

Arguments bq_cols {K}. Arguments bq_nblocks {K}. Arguments bq_bs {K}. Arguments bq_byte {K}. Arguments bq_scale {K}.
