(* C17 -- proofs about the int8 kernel arithmetic. *)
From RV Require Import Prelude.
From Gemm Require Import Int8.
From Coq Require Import ZifyBool.
Open Scope Z_scope.

(* ---- zero-point algebra ---- *)
Lemma zero_point_algebra za zb a b :
  length a = length b ->
  dot_corrected (dotz a b) za zb a b (Z.of_nat (length a)) = dot_zp za zb a b.
Proof.
  unfold dot_corrected. revert b; induction a as [|x a IH]; intros [|y b] H; try discriminate.
  - cbn. ring.
  - cbn [length dotz sumz dot_zp]. injection H as H. rewrite <- (IH b H).
    rewrite Nat2Z.inj_succ. ring.
Qed.

(* zero padding of the depth dimension changes neither the dot product nor the sums *)
Lemma dotz_pad a b n : length a = length b -> dotz (a ++ repeat 0 n) (b ++ repeat 0 n) = dotz a b.
Proof.
  revert b; induction a as [|x a IH]; intros [|y b] H; try discriminate.
  - cbn [app dotz]. induction n as [|n IHn]; cbn [repeat dotz]; [reflexivity|]. rewrite IHn. ring.
  - cbn [app dotz]. injection H as H. rewrite IH by exact H. reflexivity.
Qed.
Lemma sumz_pad a n : sumz (a ++ repeat 0 n) = sumz a.
Proof.
  induction a as [|x a IH]; cbn [app sumz].
  - induction n as [|n IHn]; cbn [repeat sumz]; [reflexivity|]. rewrite IHn. ring.
  - rewrite IH. reflexivity.
Qed.
(* the packed GEMM path: operands padded to a multiple of [t], the true depth in the k*za*zb term *)
Lemma padded_zero_point_algebra t za zb a b :
  length a = length b ->
  dot_corrected (dotz (pad_to t a) (pad_to t b)) za zb (pad_to t a) (pad_to t b) (Z.of_nat (length a)) =
  dot_zp za zb a b.
Proof.
  intros H. unfold pad_to. rewrite <- H. unfold dot_corrected.
  rewrite dotz_pad by exact H. rewrite !sumz_pad. apply zero_point_algebra. exact H.
Qed.

(* ---- saturation ---- *)
Lemma sat16_id x : -32768 <= x <= 32767 -> sat16 x = x.
Proof. unfold sat16. lia. Qed.

Definition reduced_range (a b : list Z) : Prop :=
  Forall (fun x => is_u8 x = true) a /\ Forall (fun y => is_i8 y = true) b /\
  (Forall (fun x => is_u7 x = true) a \/ Forall (fun y => is_i7 y = true) b).

Lemma pair_no_sat x0 x1 y0 y1 :
  is_u8 x0 = true -> is_u8 x1 = true -> is_i8 y0 = true -> is_i8 y1 = true ->
  (is_u7 x0 = true /\ is_u7 x1 = true) \/ (is_i7 y0 = true /\ is_i7 y1 = true) ->
  -32768 <= x0 * y0 + x1 * y1 <= 32767.
Proof. unfold is_u8, is_i8, is_u7, is_i7. intros. nia. Qed.

Lemma single_no_sat x y : is_u8 x = true -> is_i8 y = true -> -32768 <= x * y <= 32767.
Proof. unfold is_u8, is_i8. intros. nia. Qed.

Lemma no_saturation_aux n : forall a b,
  (length a <= n)%nat -> length a = length b -> reduced_range a b -> dot_maddubs a b = dotz a b.
Proof.
  induction n as [|n IH]; intros a b Hn Hl (Ha & Hb & Hr).
  - destruct a; [|cbn in Hn; lia]. destruct b; reflexivity.
  - destruct a as [|x0 [|x1 a]]; destruct b as [|y0 [|y1 b]]; try discriminate; try reflexivity.
    + cbn [dot_maddubs dotz]. inversion Ha; inversion Hb; subst.
      rewrite sat16_id by (apply single_no_sat; assumption). ring.
    + cbn [dot_maddubs dotz].
      inversion Ha as [|? ? A0 Ha']; inversion Ha' as [|? ? A1 Ha'']; subst.
      inversion Hb as [|? ? B0 Hb']; inversion Hb' as [|? ? B1 Hb'']; subst.
      rewrite sat16_id.
      * rewrite (IH a b); [ring| cbn in Hn; lia | cbn in Hl; lia |].
        split; [exact Ha''|split; [exact Hb''|]].
        destruct Hr as [Hr|Hr]; [left|right]; inversion Hr as [|? ? ? Hr']; inversion Hr'; assumption.
      * apply pair_no_sat; try assumption.
        destruct Hr as [Hr|Hr]; [left|right]; inversion Hr as [|? ? ? Hr']; inversion Hr'; split; assumption.
Qed.

Theorem no_saturation_reduced_range a b :
  length a = length b -> reduced_range a b -> dot_maddubs a b = dotz a b.
Proof. intros. apply (no_saturation_aux (length a)); auto. Qed.

(* saturation is real outside the reduced range *)
Lemma saturation_witness : dot_maddubs [255; 255] [127; 127] <> dotz [255; 255] [127; 127].
Proof. vm_compute. discriminate. Qed.

(* ---- i32 range ---- *)
Lemma dot_zp_bound za zb a b :
  is_u8 za = true -> is_i8 zb = true ->
  Forall (fun x => is_u8 x = true) a -> Forall (fun y => is_i8 y = true) b ->
  Z.abs (dot_zp za zb a b) <= 65025 * Z.of_nat (length a).
Proof.
  intros Hza Hzb Ha. revert b. induction Ha as [|x a Hx Ha IH]; intros b Hb.
  - cbn. lia.
  - destruct b as [|y b]; [cbn [dot_zp]; lia|].
    inversion Hb as [|? ? Hy Hb']; subst. cbn [dot_zp length]. specialize (IH b Hb').
    rewrite Nat2Z.inj_succ.
    assert (Z.abs ((x - za) * (y - zb)) <= 65025).
    { unfold is_u8, is_i8 in *. nia. }
    lia.
Qed.

Theorem i32_no_overflow za zb a b :
  is_u8 za = true -> is_i8 zb = true ->
  Forall (fun x => is_u8 x = true) a -> Forall (fun y => is_i8 y = true) b ->
  Z.of_nat (length a) <= 33025 ->
  in_i32 (dot_zp za zb a b) = true.
Proof.
  intros Hza Hzb Ha Hb Hk. pose proof (dot_zp_bound za zb a b Hza Hzb Ha Hb).
  unfold in_i32, i32_min, i32_max. lia.
Qed.

Lemma wrap32_small x : in_i32 x = true -> wrap32 x = x.
Proof.
  unfold in_i32, i32_min, i32_max, wrap32, two32. intros H.
  rewrite Z.mod_small by lia. lia.
Qed.

(* wrapping at intermediate steps is harmless: wrap32 is a ring homomorphism mod 2^32 *)
Lemma wrap32_mod x : (wrap32 x) mod two32 = x mod two32.
Proof.
  unfold wrap32. rewrite Zminus_mod_idemp_l. f_equal. lia.
Qed.
Lemma wrap32_congr x y : x mod two32 = y mod two32 -> wrap32 x = wrap32 y.
Proof.
  intros H. unfold wrap32. f_equal.
  rewrite <- (Z.add_mod_idemp_l x) by (unfold two32; lia).
  rewrite H. rewrite Z.add_mod_idemp_l by (unfold two32; lia). reflexivity.
Qed.
Lemma wrap32_add x y : wrap32 (wrap32 x + wrap32 y) = wrap32 (x + y).
Proof.
  apply wrap32_congr. rewrite Z.add_mod by (unfold two32; lia).
  rewrite !wrap32_mod. rewrite <- Z.add_mod by (unfold two32; lia). reflexivity.
Qed.
Lemma wrap32_sub x y : wrap32 (wrap32 x - wrap32 y) = wrap32 (x - y).
Proof.
  apply wrap32_congr. rewrite Zminus_mod. rewrite !wrap32_mod. rewrite <- Zminus_mod. reflexivity.
Qed.
Lemma wrap32_mul x y : wrap32 (wrap32 x * wrap32 y) = wrap32 (x * y).
Proof.
  apply wrap32_congr. rewrite Z.mul_mod by (unfold two32; lia).
  rewrite !wrap32_mod. rewrite <- Z.mul_mod by (unfold two32; lia). reflexivity.
Qed.

(* ---- one kernel output element ---- *)
Lemma dotz_split v a b :
  length a = length b -> dotz (firstn v a) (firstn v b) + dotz (skipn v a) (skipn v b) = dotz a b.
Proof.
  revert a b; induction v as [|v IH]; intros a b H; [cbn; lia|].
  destruct a as [|x a]; destruct b as [|y b]; try discriminate; [reflexivity|].
  cbn [firstn skipn dotz]. injection H as H. rewrite <- (IH a b H). ring.
Qed.

Lemma Forall_firstn {A} (P : A -> Prop) n l : Forall P l -> Forall P (firstn n l).
Proof.
  revert l; induction n as [|n IH]; intros l H; [constructor|].
  destruct H; cbn [firstn]; [constructor|]. constructor; [assumption|apply IH; assumption].
Qed.

Theorem kernel_elem_exact sat vext za zb a b :
  length a = length b ->
  is_u8 za = true -> is_i8 zb = true ->
  Forall (fun x => is_u8 x = true) a -> Forall (fun y => is_i8 y = true) b ->
  Z.of_nat (length a) <= 33025 ->
  (sat = false \/ reduced_range a b) ->
  kernel_elem sat vext za zb a b = dot_zp za zb a b.
Proof.
  intros Hl Hza Hzb Ha Hb Hk Hs. unfold kernel_elem.
  assert (E : (if sat then dot_maddubs (firstn vext a) (firstn vext b)
               else dotz (firstn vext a) (firstn vext b)) = dotz (firstn vext a) (firstn vext b)).
  { destruct sat; [|reflexivity]. destruct Hs as [Hs|(R1 & R2 & R3)]; [discriminate|].
    apply no_saturation_reduced_range.
    - rewrite !firstn_length, Hl. reflexivity.
    - split; [apply Forall_firstn; exact R1|split; [apply Forall_firstn; exact R2|]].
      destruct R3; [left|right]; apply Forall_firstn; assumption. }
  rewrite E, dotz_split by exact Hl. rewrite zero_point_algebra by exact Hl.
  apply wrap32_small. apply i32_no_overflow; assumption.
Qed.

(* ---- F51 (fixed): the zero points a full panel must use are its own rows' ---- *)
Lemma meta_zero_point_old_refuted :
  exists zp panel mr r, meta_zero_point_old (Some zp) panel mr r true <> meta_zero_point (Some zp) panel mr r.
Proof. exists [1; 2; 3; 4], 1%nat, 2%nat, 0%nat. vm_compute. discriminate. Qed.
