(* C17 (DynamicQuantizeLinear): exact-arithmetic check of the implementation's outputs.  f32 values
   travel as bit patterns and are decoded to (mantissa, exponent) pairs, so the inequality
   |dequantize(y) - x| <= scale is decided in Z without any rounding. *)
From RV Require Import Prelude.
Open Scope Z_scope.

(* finite binary32 -> (m, e) with value m * 2^e; NaN/inf -> None *)
Definition f32_decode (bits : N) : option (Z * Z) :=
  let b := Z.of_N bits in
  let sign := if Z.testbit b 31 then (-1) else 1 in
  let ex := Z.land (Z.shiftr b 23) 255 in
  let frac := Z.land b 8388607 in
  if ex =? 255 then None
  else if ex =? 0 then Some (sign * frac, -149)
  else Some (sign * (8388608 + frac), ex - 150).

Record dq_case := { d_x : list N; d_scale : N; d_zp : N; d_y : option (list N) }.
Definition case := dq_case.

(* |(y - zp) * S - X| <= S with S = ms * 2^es, X = mx * 2^ex, at the common exponent *)
Definition within_step (ms es : Z) (zp : Z) (xbits ybits : N) : bool :=
  match f32_decode xbits with
  | None => false
  | Some (mx, ex) =>
      let e0 := Z.min es ex in
      let S := ms * 2 ^ (es - e0) in
      let X := mx * 2 ^ (ex - e0) in
      Z.abs ((Z.of_N ybits - zp) * S - X) <=? S
  end.

Fixpoint all2 (f : N -> N -> bool) (a b : list N) : bool :=
  match a, b with
  | [], [] => true
  | x :: a', y :: b' => f x y && all2 f a' b'
  | _, _ => false
  end.

(* The returned scale is zero or a subnormal f32 although the inputs are not all zero: the true step
   range/255 is below 2^-126, so the f32 scale's own rounding error is comparable to the step or
   the scale underflows to 0 (the single input 151 * 2^-149 gives scale 2^-149 and a round trip of
   255 * 2^-149; 56 * 2^-149 gives scale 0).  "One step of the f32 scale" is not a meaningful
   tolerance there.  The exemption applies only when every |x| <= 2^-118 (otherwise such a scale
   would itself be wrong and the inequality is required). *)
Definition tiny_input (xbits : N) : bool :=
  match f32_decode xbits with
  | Some (mx, ex) => Z.abs mx * 2 ^ (ex + 149) <=? 2 ^ 31
  | None => false
  end.
Definition subnormal_scale (c : dq_case) : bool :=
  (Z.land (Z.shiftr (Z.of_N (d_scale c)) 23) 255 =? 0) && forallb tiny_input (d_x c).

Definition prop_ok (c : case) : bool :=
  match d_y c, f32_decode (d_scale c) with
  | Some ys, Some (ms, es) =>
      (0 <=? ms) && forallb (fun y => (y <=? 255)%N) ys && (d_zp c <=? 255)%N &&
      (Nat.eqb (length ys) (length (d_x c))) &&
      (subnormal_scale c || all2 (within_step ms es (Z.of_N (d_zp c))) (d_x c) ys)
  | _, _ => false
  end.
Definition agree := prop_ok.
Definition always (c : case) : bool := true.
Definition show (c : case) := (f32_decode (d_scale c), d_zp c).
