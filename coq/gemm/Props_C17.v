(* C17 -- Quantized integer kernels are exact.  Only statements; every proof is `exact <lemma>`. *)
From RV Require Import Prelude.
From Gemm Require Import GemmModel Gemm_base Gemm_proofs Gemm_impl_proofs Int8 Int8_proofs DynQuant_proofs
  ModelC16 C16_oracle ModelC17.
From Coq Require Import QArith Qabs Qminmax.
Open Scope Z_scope.

(* (1) the kernels' correction formula equals the zero-point-shifted dot product *)
Theorem C17_zero_point_algebra : forall za zb a b,
  length a = length b ->
  dot_corrected (dotz a b) za zb a b (Z.of_nat (length a)) = dot_zp za zb a b.
Proof. exact zero_point_algebra. Qed.

(* (2) ... also when both operands are zero-padded to a multiple of the K tile and the true depth is
   used in the k*za*zb term (the packed GEMM path) *)
Theorem C17_padded_zero_point_algebra : forall t za zb a b,
  length a = length b ->
  dot_corrected (dotz (pad_to t a) (pad_to t b)) za zb (pad_to t a) (pad_to t b) (Z.of_nat (length a)) =
  dot_zp za zb a b.
Proof. exact padded_zero_point_algebra. Qed.

(* (3) vpmaddubsw never saturates on the documented reduced range (u7 LHS or i7 RHS) *)
Theorem C17_no_saturation_reduced_range : forall a b,
  length a = length b -> reduced_range a b -> dot_maddubs a b = dotz a b.
Proof. exact no_saturation_reduced_range. Qed.

(* (4) the exact result fits i32 for every depth up to 33025 (kernels block at 1024) *)
Theorem C17_i32_no_overflow : forall za zb a b,
  is_u8 za = true -> is_i8 zb = true ->
  Forall (fun x => is_u8 x = true) a -> Forall (fun y => is_i8 y = true) b ->
  Z.of_nat (length a) <= 33025 ->
  in_i32 (dot_zp za zb a b) = true.
Proof. exact i32_no_overflow. Qed.

(* (5) wrapping i32 arithmetic at intermediate steps cannot change an in-range result *)
Theorem C17_wrapping_is_harmless : forall x y,
  wrap32 (wrap32 x + wrap32 y) = wrap32 (x + y) /\ wrap32 (wrap32 x - wrap32 y) = wrap32 (x - y) /\
  wrap32 (wrap32 x * wrap32 y) = wrap32 (x * y) /\ (in_i32 x = true -> wrap32 x = x).
Proof. intros x y. exact (conj (wrap32_add x y) (conj (wrap32_sub x y) (conj (wrap32_mul x y) (wrap32_small x)))). Qed.

(* (6) one output element of any kernel: exact if the kernel does not saturate, or on every kernel
   when the inputs are in the reduced range *)
Theorem C17_kernel_element_exact : forall sat vext za zb a b,
  length a = length b ->
  is_u8 za = true -> is_i8 zb = true ->
  Forall (fun x => is_u8 x = true) a -> Forall (fun y => is_i8 y = true) b ->
  Z.of_nat (length a) <= 33025 ->
  (sat = false \/ reduced_range a b) ->
  kernel_elem sat vext za zb a b = dot_zp za zb a b.
Proof. exact kernel_elem_exact. Qed.

(* (7) the blocked driver is the C16 driver: with the per-tile contract (6) the whole integer GEMM
   is the ring-level GEMM of the zero-point-shifted operands (alpha = 1, beta in {0, 1}) *)
Theorem C17_integer_gemm_driver : forall P bb kb m n k beta (A B : mat ZK) (za zb : N -> Z) la rb (o : omat ZK) i j,
  (m <> 0%N -> n <> 0%N -> k <> 0%N -> params_okb P = true) -> (0 < bb)%N -> (0 < kb)%N ->
  gemm_impl ZK P bb kb m n k 1 beta NoBias (fun i t => A i t - za i) (fun t j => B t j - zb j) la rb o i j =
  gemm_spec ZK 1 beta NoBias (fun i t => A i t - za i) (fun t j => B t j - zb j) m n k o i j.
Proof.
  intros. apply (gemm_impl_correct ZK ZK_ring ZK_eqb ZK_nontrivial); assumption.
Qed.

(* (8) saturation is real outside the reduced range (why may_saturate exists) *)
Theorem C17_saturation_witness : dot_maddubs [255; 255] [127; 127] <> dotz [255; 255] [127; 127].
Proof. exact saturation_witness. Qed.

(* (9) DynamicQuantizeLinear then dequantisation is within half a step (hence one step) of the
   input, over Q with round-half-to-even.  _partial: the f32 rounding of scale, zero point and
   x/scale is not modelled. *)
Theorem C17_dynamic_quantize_within_step_partial : forall (x_min x_max x : Q),
  (x_min <= x)%Q -> (x <= x_max)%Q -> (Qmin x_min 0 < Qmax x_max 0)%Q ->
  let p := dyn_params x_min x_max in
  (Qabs (dequantize p (quantize p x) - x) <= (1 # 2) * dq_scale p)%Q /\
  ((1 # 2) * dq_scale p <= dq_scale p)%Q.
Proof. exact dynamic_quantize_within_step_Q. Qed.

(* F51 (fixed): a full panel must use its own rows' zero points *)
Theorem C17_F51_old_indexing_refuted :
  exists zp panel mr r, meta_zero_point_old (Some zp) panel mr r true <> meta_zero_point (Some zp) panel mr r.
Proof. exact meta_zero_point_old_refuted. Qed.

Example C17_nonvacuous :
  kernel_elem true 4 3 (-2) [255; 255; 1; 7; 9] [127; 127; -128; 5; 0] <> dot_zp 3 (-2) [255; 255; 1; 7; 9] [127; 127; -128; 5; 0] /\
  kernel_elem false 4 3 (-2) [255; 255; 1; 7; 9] [127; 127; -128; 5; 0] = dot_zp 3 (-2) [255; 255; 1; 7; 9] [127; 127; -128; 5; 0] /\
  kernel_elem true 4 3 (-2) [127; 127; 1; 7; 9] [127; 127; -128; 5; 0] = dot_zp 3 (-2) [127; 127; 1; 7; 9] [127; 127; -128; 5; 0].
Proof. vm_compute. repeat split; discriminate. Qed.
