(* C16 -- Matrix multiplication is correct for every kernel and shape.
   Only statements; every proof is `exact <lemma>`.  K ranges over ARBITRARY commutative rings
   (ring_theory hypothesis), block parameters P/bb/kb over all values with params_okb. *)
From RV Require Import Prelude.
From Gemm Require Import GemmModel Gemm_base Gemm_proofs Gemm_readers Gemm_impl_proofs Im2col_proofs
  ModelC16 C16_oracle.
From Coq Require Import Ring.
Open Scope N_scope.

Definition is_comm_ring (K : ringops) : Prop :=
  ring_theory (r0 K) (r1 K) (radd K) (rmul K) (rsub K) (ropp K) eq /\
  (forall x y, reqb K x y = true <-> x = y) /\ r1 K <> r0 K.

(* (1) blocked_gemm_correct: the whole driver (empty-output exit, zero-depth path, gemv fast
   path, blocked loops with on-the-fly packing / unpacked LHS / prepacked operands / virtual RHS)
   computes alpha*A*B + beta*C + bias at every cell and leaves everything else untouched, for all
   sizes (incl. 0) and all block parameters *)
Theorem C16_blocked_gemm_correct :
  forall K, is_comm_ring K ->
  forall P bb kb m n k (alpha beta : K) bs (A B : mat K) la rb (o : omat K) i j,
    (m <> 0 -> n <> 0 -> k <> 0 -> params_okb P = true) -> 0 < bb -> 0 < kb ->
    gemm_impl K P bb kb m n k alpha beta bs A B la rb o i j =
    gemm_spec K alpha beta bs A B m n k o i j.
Proof. intros K (H1 & H2 & H3). exact (gemm_impl_correct K H1 H2 H3). Qed.

(* (2) the three blocked loops + gemm_block, for ANY source of kernel operands that delivers the
   matrix elements (this is where effective beta, bias-on-first-depth-block, tile ranges and tail
   tiles are) *)
Theorem C16_gemm_main_correct :
  forall K, is_comm_ring K ->
  forall P, params_okb P = true ->
  forall m n k (alpha beta : K) bs (A B : mat K) lhs rhs,
    lhs_ok K P m k A lhs -> rhs_ok K P n k B rhs ->
    forall (o : omat K) i j, 0 < k ->
    gemm_main K P m n k alpha beta bs lhs rhs o i j = gemm_spec K alpha beta bs A B m n k o i j.
Proof. intros K (H1 & H2 & H3). exact (gemm_main_correct K H1 H2 H3). Qed.

(* (3) the packing functions and the prepacked-buffer addressing deliver exactly the matrix
   elements the kernel needs *)
Theorem C16_operand_providers_correct :
  forall K P, params_okb P = true -> forall m n k (A B : mat K),
    lhs_ok K P m k A (lhs_packed K P m k A) /\
    lhs_ok K P m k A (lhs_unpacked K P m k A) /\
    lhs_ok K P m k A (lhs_prepacked K P m k (prepack_a K P m k A)) /\
    rhs_ok K P n k B (rhs_packed K P n k B) /\
    rhs_ok K P n k B (rhs_prepacked K P n k (prepack_b K P n k B)).
Proof.
  intros K P Pok m n k A B.
  exact (conj (lhs_packed_ok K P Pok m k A) (conj (lhs_unpacked_ok K P m k A)
        (conj (lhs_prepacked_ok K P Pok m k A) (conj (rhs_packed_ok K P Pok n k B)
        (rhs_prepacked_ok K P Pok n k B))))).
Qed.

(* (4) gemv fast path *)
Theorem C16_gemv_correct :
  forall K, is_comm_ring K ->
  forall n k bb kb (alpha beta : K) bs (A B : mat K),
    0 < bb -> 0 < kb -> 0 < k ->
    forall (o : omat K) i j,
    gemv K n k bb kb alpha beta bs A B o i j = gemm_spec K alpha beta bs A B 1 n k o i j.
Proof. intros K (H1 & H2 & H3). exact (gemv_correct K H1 H2 H3). Qed.

(* (5) beta = 0: prior output contents (poison included) never influence the result, and every
   cell is written *)
Theorem C16_beta_zero_no_poison :
  forall K, is_comm_ring K ->
  forall P bb kb m n k (alpha beta : K) bs (A B : mat K),
    (m <> 0 -> n <> 0 -> k <> 0 -> params_okb P = true) -> 0 < bb -> 0 < kb ->
    forall la rb (o o' : omat K) i j, beta = r0 K -> i < m -> j < n ->
    gemm_impl K P bb kb m n k alpha beta bs A B la rb o i j =
    gemm_impl K P bb kb m n k alpha beta bs A B la rb o' i j /\
    exists v, gemm_impl K P bb kb m n k alpha beta bs A B la rb o i j = Some v.
Proof. intros K (H1 & H2 & H3). exact (beta_zero_no_poison K H1 H2 H3). Qed.

(* (6) every output element is initialised (for beta <> 0, given an initialised input cell) *)
Theorem C16_every_output_initialised :
  forall K, is_comm_ring K ->
  forall P bb kb m n k (alpha beta : K) bs (A B : mat K),
    (m <> 0 -> n <> 0 -> k <> 0 -> params_okb P = true) -> 0 < bb -> 0 < kb ->
    forall la rb (o : omat K) i j, i < m -> j < n ->
    (reqb K beta (r0 K) = false -> o i j <> None) ->
    gemm_impl K P bb kb m n k alpha beta bs A B la rb o i j <> None.
Proof. intros K (H1 & H2 & H3). exact (every_output_initialised K H1 H2 H3). Qed.

(* (7) no write outside the m x n output *)
Theorem C16_nothing_outside_written :
  forall K, is_comm_ring K ->
  forall P bb kb m n k (alpha beta : K) bs (A B : mat K),
    (m <> 0 -> n <> 0 -> k <> 0 -> params_okb P = true) -> 0 < bb -> 0 < kb ->
    forall la rb (o : omat K) i j, ~ (i < m /\ j < n) ->
    gemm_impl K P bb kb m n k alpha beta bs A B la rb o i j = o i j.
Proof. intros K (H1 & H2 & H3). exact (nothing_outside_written K H1 H2 H3). Qed.

(* (8) prepacked = pack then multiply (any combination of operand forms gives the same output) *)
Theorem C16_prepack_eq :
  forall K, is_comm_ring K ->
  forall P bb kb m n k (alpha beta : K) bs (A B : mat K),
    (m <> 0 -> n <> 0 -> k <> 0 -> params_okb P = true) -> 0 < bb -> 0 < kb ->
    forall la rb la' rb' (o : omat K) i j,
    gemm_impl K P bb kb m n k alpha beta bs A B la rb o i j =
    gemm_impl K P bb kb m n k alpha beta bs A B la' rb' o i j.
Proof. intros K (H1 & H2 & H3). exact (prepack_eq K H1 H2 H3). Qed.

(* (9) im2col: the gather rule on build_im2col's offset tables is the zero-padded convolution
   patch *)
Theorem C16_im2col_spec :
  forall c img r col, conv_ok c -> r < cv_rows c ->
    im2col_get (build_im2col c img) r col = conv_patch c img r col.
Proof. exact im2col_get_conv_patch. Qed.

(* (10) the instance the correspondence run evaluates, and the oracle's reflection *)
Theorem C16_Z_instance : is_comm_ring ZK.
Proof. exact (conj ZK_ring (conj ZK_eqb ZK_nontrivial)). Qed.

Theorem C16_oracle_reflects :
  forall g l, obs_matches_spec g (OFull l) = true <->
              all_cells (g_m g) (g_n g) (spec_out g) = map Some l.
Proof. exact obs_full_spec. Qed.

(* non-vacuity: a 5x7x9 product with tiny blocks (3 depth blocks, 2 row blocks, 2 column blocks,
   tail tiles in both directions), beta = 2, row bias; blocked model = spec = explicit numbers *)
Definition ex_P := {| p_mr := 2; p_nr := 3; p_mc := 4; p_nc := 6; p_kc := 4 |}.
Definition ex_case (la rb : N) (beta : Z) := {|
  g_P := ex_P; g_bb := 3; g_kb := 2; g_m := 5; g_n := 7; g_k := 9; g_alpha := (-1)%Z; g_beta := beta;
  g_bias := 2; g_sbias := 4; g_sa := 1; g_sb := 2; g_sc := 3; g_la := la; g_rb := rb; g_conv := None;
  g_small := true; g_obs := OPanic; g_obs2 := OPanic |}.
Example C16_nonvacuous :
  params_okb ex_P = true /\
  all_cells 5 7 (model_out (ex_case 0 0 2)) = all_cells 5 7 (spec_out (ex_case 0 0 2)) /\
  all_cells 5 7 (model_out (ex_case 2 1 0)) = all_cells 5 7 (spec_out (ex_case 2 1 0)) /\
  nth 0 (all_cells 5 7 (spec_out (ex_case 0 0 2))) None <> None /\
  all_cells 1 7 (model_out (ex_case 1 0 0)) <> all_cells 1 7 (fun _ _ => None).
Proof. vm_compute. repeat split; discriminate. Qed.
