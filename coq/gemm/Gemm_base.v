(* C16 -- basic lemmas: sums over a commutative ring, ranges, pointwise updates. *)
From RV Require Import Prelude.
From Gemm Require Import GemmModel.
From Coq Require Import Ring.
Open Scope N_scope.

(* ---- arithmetic helpers on N ---- *)
Ltac dm x b :=
  let q := fresh "q" in let r := fresh "r" in
  pose proof (N.div_mod x b ltac:(lia)); pose proof (N.mod_lt x b ltac:(lia));
  set (q := x / b) in *; set (r := x mod b) in *; clearbody q r.

Lemma div_ceil_ge a b : 0 < b -> a <= div_ceil a b * b.
Proof. intros Hb. unfold div_ceil. dm (a + b - 1) b. nia. Qed.

Lemma div_ceil_lt a b t : 0 < b -> t * b < a -> t < div_ceil a b.
Proof.
  intros Hb Ht. pose proof (div_ceil_ge a b Hb).
  destruct (N.lt_ge_cases t (div_ceil a b)) as [|G]; [assumption|]. nia.
Qed.

Lemma div_ceil_gt a b t : 0 < b -> t < div_ceil a b -> t * b < a.
Proof.
  intros Hb Ht. unfold div_ceil in Ht.
  set (q := (a + b - 1) / b) in *.
  pose proof (N.div_mod (a + b - 1) b ltac:(lia)) as E. fold q in E.
  pose proof (N.mod_lt (a + b - 1) b ltac:(lia)) as L.
  set (r := (a + b - 1) mod b) in *.
  assert (H1 : (t + 1) * b <= q * b) by (apply N.mul_le_mono_r; lia).
  clearbody q r. nia.
Qed.

Lemma div_ceil_pos a b : 0 < b -> 0 < a -> 0 < div_ceil a b.
Proof. intros Hb Ha. apply (div_ceil_lt a b 0); lia. Qed.

Lemma div_ceil_mul t b : 0 < b -> div_ceil (t * b) b = t.
Proof.
  intros Hb. unfold div_ceil.
  symmetry. apply (N.div_unique _ _ _ (b - 1)); lia.
Qed.

Lemma div_tile i b t : 0 < b -> t * b <= i -> i < t * b + b -> i / b = t.
Proof.
  intros Hb H1 H2. symmetry. apply (N.div_unique _ _ _ (i - t * b)); lia.
Qed.

Lemma div_tile_inv i b : 0 < b -> (i / b) * b <= i /\ i < (i / b) * b + b.
Proof. intros Hb. dm i b. nia. Qed.

Lemma mod_eq_sub i b : 0 < b -> i mod b = i - (i / b) * b.
Proof. intros Hb. dm i b. nia. Qed.

Lemma div_mul_exact a b : 0 < b -> a mod b = 0 -> (a / b) * b = a.
Proof. intros Hb H. dm a b. nia. Qed.

Lemma mul_mod_exact t a b : 0 < b -> a mod b = 0 -> (t * a) mod b = 0.
Proof.
  intros Hb H. rewrite N.mul_mod by lia. rewrite H, N.mul_0_r. apply N.mod_0_l. lia.
Qed.

Lemma andb_range a t b : a <= t -> t < b -> (a <=? t) && (t <? b) = true.
Proof. intros H1 H2. apply andb_true_iff. split; [apply N.leb_le|apply N.ltb_lt]; assumption. Qed.

(* flat offset decoding: p * (r * d) + i * d + kk with i < r, kk < d *)
Lemma decode3 p r d i kk :
  0 < d -> i < r -> kk < d ->
  let off := p * (r * d) + i * d + kk in
  off / (r * d) = p /\ (off mod (r * d)) / d = i /\ (off mod (r * d)) mod d = kk.
Proof.
  intros Hd Hi Hk off.
  assert (Hrd : 0 < r * d) by nia.
  assert (E1 : off / (r * d) = p).
  { symmetry. apply (N.div_unique _ _ _ (i * d + kk)); subst off; nia. }
  assert (E2 : off mod (r * d) = i * d + kk).
  { symmetry. apply (N.mod_unique _ _ p); subst off; nia. }
  rewrite E2. split; [exact E1|]. split.
  - symmetry. apply (N.div_unique _ _ _ kk); lia.
  - symmetry. apply (N.mod_unique _ _ i); lia.
Qed.

Section Base.
Variable K : ringops.
Hypothesis Kth : ring_theory (r0 K) (r1 K) (radd K) (rmul K) (rsub K) (ropp K) eq.
Add Ring Kring : Kth.

Declare Scope ring_scope.
Notation "x + y" := (radd K x y) : ring_scope.
Notation "x * y" := (rmul K x y) : ring_scope.
Delimit Scope ring_scope with R.

(* ---- sums ---- *)
Lemma sum_from_ext (f g : N -> K) s n :
  (forall t, s <= t -> t < s + N.of_nat n -> f t = g t) ->
  sum_from K f s n = sum_from K g s n.
Proof.
  revert s; induction n as [|n IH]; intros s H; cbn [sum_from]; [reflexivity|].
  rewrite (H s) by lia. f_equal. apply IH. intros t H1 H2. apply H; lia.
Qed.

Lemma sum_from_app (f : N -> K) s a b :
  sum_from K f s (a + b)%nat = (sum_from K f s a + sum_from K f (s + N.of_nat a) b)%R.
Proof.
  revert s; induction a as [|a IH]; intros s; cbn [sum_from Nat.add].
  - replace (s + N.of_nat 0) with s by lia. ring.
  - rewrite IH. replace (N.succ s + N.of_nat a) with (s + N.of_nat (S a)) by lia. ring.
Qed.

Lemma sum_from_shift (f : N -> K) c s n :
  sum_from K (fun t => f (c + t)) s n = sum_from K f (c + s) n.
Proof.
  revert s; induction n as [|n IH]; intros s; cbn [sum_from]; [reflexivity|].
  rewrite IH. replace (c + N.succ s) with (N.succ (c + s)) by lia. reflexivity.
Qed.

Lemma sum_from_shift0 (f : N -> K) c n :
  sum_from K f c n = sum_from K (fun t => f (c + t)) 0 n.
Proof. rewrite sum_from_shift. replace (c + 0) with c by lia. reflexivity. Qed.

Lemma sum_from_zero (f : N -> K) s n :
  (forall t, s <= t -> t < s + N.of_nat n -> f t = r0 K) -> sum_from K f s n = r0 K.
Proof.
  revert s; induction n as [|n IH]; intros s H; cbn [sum_from]; [reflexivity|].
  rewrite (H s) by lia. rewrite IH; [ring|]. intros t H1 H2. apply H; lia.
Qed.

Lemma dot_split (A B : mat K) i j s a b :
  dot K A B i j s (a + b) = (dot K A B i j s a + dot K A B i j (s + a) b)%R.
Proof.
  unfold dot. rewrite N2Nat.inj_add, sum_from_app, N2Nat.id. reflexivity.
Qed.

(* ---- ranges ---- *)
Lemma nseq_snoc s n : nseq s (S n) = nseq s n ++ [s + N.of_nat n].
Proof.
  revert s; induction n as [|n IH]; intros s.
  - cbn. replace (s + 0) with s by lia. reflexivity.
  - change (nseq s (S (S n))) with (s :: nseq (N.succ s) (S n)). rewrite IH.
    cbn [nseq app]. replace (N.succ s + N.of_nat n) with (s + N.of_nat (S n)) by lia. reflexivity.
Qed.

Lemma in_nseq t s n : In t (nseq s n) <-> s <= t /\ t < s + N.of_nat n.
Proof.
  revert s; induction n as [|n IH]; intros s; cbn [nseq In].
  - split; [tauto|lia].
  - rewrite IH. lia.
Qed.

Lemma in_nrange t a b : In t (nrange a b) <-> a <= t /\ t < b.
Proof. unfold nrange. rewrite in_nseq. lia. Qed.

(* a fold in which only index [t0] is not the identity *)
Lemma fold_unique_nseq {T} (f : N -> T -> T) t0 s n v :
  (forall t, t <> t0 -> forall v, f t v = v) ->
  fold_left (fun v t => f t v) (nseq s n) v =
  if (s <=? t0) && (t0 <? s + N.of_nat n) then f t0 v else v.
Proof.
  intros H. revert s v; induction n as [|n IH]; intros s v; cbn [nseq fold_left].
  - destruct (s <=? t0) eqn:E1, (t0 <? s + N.of_nat 0) eqn:E2; cbn; try reflexivity.
    apply N.leb_le in E1. apply N.ltb_lt in E2. lia.
  - rewrite IH. destruct (N.eq_dec s t0) as [->|Hne].
    + replace (N.succ t0 <=? t0) with false by (symmetry; apply N.leb_gt; lia). cbn [andb].
      replace (t0 <=? t0) with true by (symmetry; apply N.leb_le; lia).
      replace (t0 <? t0 + N.of_nat (S n)) with true by (symmetry; apply N.ltb_lt; lia).
      reflexivity.
    + rewrite (H s Hne).
      destruct (N.succ s <=? t0) eqn:E1, (s <=? t0) eqn:E3;
        try apply N.leb_le in E1; try apply N.leb_gt in E1;
        try apply N.leb_le in E3; try apply N.leb_gt in E3; try lia; cbn [andb]; try reflexivity.
      replace (N.succ s + N.of_nat n) with (s + N.of_nat (S n)) by lia. reflexivity.
Qed.

Lemma fold_unique {T} (f : N -> T -> T) t0 a b v :
  (forall t, t <> t0 -> forall v, f t v = v) ->
  fold_left (fun v t => f t v) (nrange a b) v =
  if (a <=? t0) && (t0 <? b) then f t0 v else v.
Proof.
  intros H. unfold nrange. rewrite (fold_unique_nseq f t0) by exact H.
  destruct (a <=? t0) eqn:E1; cbn [andb]; [|reflexivity].
  apply N.leb_le in E1.
  destruct (t0 <? b) eqn:E2.
  - apply N.ltb_lt in E2. replace (t0 <? a + N.of_nat (N.to_nat (b - a))) with true; [reflexivity|].
    symmetry. apply N.ltb_lt. lia.
  - apply N.ltb_ge in E2. replace (t0 <? a + N.of_nat (N.to_nat (b - a))) with false; [reflexivity|].
    symmetry. apply N.ltb_ge. lia.
Qed.

Lemma fold_all_id {T} (f : N -> T -> T) l v :
  (forall t, In t l -> forall v, f t v = v) -> fold_left (fun v t => f t v) l v = v.
Proof.
  revert v; induction l as [|x l IH]; intros v H; cbn [fold_left]; [reflexivity|].
  rewrite (H x (or_introl eq_refl)). apply IH. intros t Ht. apply H. right; exact Ht.
Qed.

Lemma fold_left_ext_in {T S} (f g : S -> T -> S) l v :
  (forall t, In t l -> forall v, f v t = g v t) -> fold_left f l v = fold_left g l v.
Proof.
  revert v; induction l as [|x l IH]; intros v H; cbn [fold_left]; [reflexivity|].
  rewrite (H x (or_introl eq_refl)). apply IH. intros t Ht. apply H. right; exact Ht.
Qed.

(* ---- pointwise ("local") output transformers ---- *)
Definition PW (F : omat K -> omat K) (f : option K -> option K) (i j : N) : Prop :=
  forall o, F o i j = f (o i j).

Lemma PW_id i j : PW (fun o => o) (fun v => v) i j.
Proof. intros o; reflexivity. Qed.

Lemma PW_update P g i j :
  PW (pw_update K P g) (fun v => if P i j then g i j v else v) i j.
Proof. intros o; reflexivity. Qed.

Lemma PW_comp F G f g i j :
  PW F f i j -> PW G g i j -> PW (fun o => G (F o)) (fun v => g (f v)) i j.
Proof. intros HF HG o. rewrite HG, HF. reflexivity. Qed.

Lemma PW_ext F f g i j : (forall v, f v = g v) -> PW F f i j -> PW F g i j.
Proof. intros E H o. rewrite H. apply E. Qed.

Lemma PW_fold {T} (upd : T -> omat K -> omat K) (f : T -> option K -> option K) i j l :
  (forall t, In t l -> PW (upd t) (f t) i j) ->
  PW (fun o => fold_left (fun o t => upd t o) l o) (fun v => fold_left (fun v t => f t v) l v) i j.
Proof.
  induction l as [|x l IH]; intros H o; cbn [fold_left]; [reflexivity|].
  rewrite (IH (fun t Ht => H t (or_intror Ht))). rewrite (H x (or_introl eq_refl)). reflexivity.
Qed.

Lemma fold_frame {T} (upd : T -> omat K -> omat K) l i j :
  (forall t o, In t l -> upd t o i j = o i j) ->
  forall o, fold_left (fun o t => upd t o) l o i j = o i j.
Proof.
  induction l as [|x l IH]; intros H o; cbn [fold_left]; [reflexivity|].
  rewrite IH by (intros t o' Ht; apply H; right; exact Ht). apply H. left; reflexivity.
Qed.

End Base.
