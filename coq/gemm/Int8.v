(* C17 -- model of the u8 x i8 -> i32 kernels (rten-gemm/src/kernels/{x86_64,generic,simd_generic}.rs,
   packing/int8.rs): dot products with row/column zero points as the kernels compute them
   (dot(a,b) - za*sum(b) - zb*sum(a) + k*za*zb with packed row/column sums), the AVX2/AVX-512
   `vpmaddubsw` pair sum with i16 saturation, VNNI (exact), zero padding of the depth dimension to
   a multiple of 4, wrapping i32 arithmetic, and DynamicQuantizeLinear over the rationals.
   Executable definitions only. *)
From RV Require Import Prelude.
From Coq Require Import QArith Qminmax Qround.
Open Scope Z_scope.

(* ---- vectors as lists ---- *)
Fixpoint dotz (a b : list Z) : Z :=
  match a, b with x :: a', y :: b' => x * y + dotz a' b' | _, _ => 0 end.
Fixpoint sumz (a : list Z) : Z := match a with x :: a' => x + sumz a' | [] => 0 end.

(* what the property demands: sum (a - za)(b - zb) *)
Fixpoint dot_zp (za zb : Z) (a b : list Z) : Z :=
  match a, b with x :: a', y :: b' => (x - za) * (y - zb) + dot_zp za zb a' b' | _, _ => 0 end.

(* what the kernels compute (simd_int8_gemm_epilogue, int8_gemv, the simd_int8_gemv variants): the plain dot
   product plus correction terms from the row sum, column sum and depth *)
Definition dot_corrected (dotab : Z) (za zb : Z) (a b : list Z) (depth : Z) : Z :=
  depth * za * zb + dotab - sumz a * zb - sumz b * za.

(* ---- vpmaddubsw + vpmaddwd(1): adjacent u8*i8 products are added with i16 saturation ---- *)
Definition sat16 (x : Z) : Z := Z.max (-32768) (Z.min 32767 x).
Fixpoint dot_maddubs (a b : list Z) : Z :=
  match a, b with
  | x0 :: x1 :: a', y0 :: y1 :: b' => sat16 (x0 * y0 + x1 * y1) + dot_maddubs a' b'
  | [x0], y0 :: _ => sat16 (x0 * y0)
  | x0 :: _, [y0] => sat16 (x0 * y0)
  | _, _ => 0
  end.

(* zero padding of the depth dimension to a multiple of 4 (pack_a / pack_b, K_TILE = 4) *)
Definition pad_to (t : nat) (l : list Z) : list Z :=
  l ++ repeat 0 ((t - length l mod t) mod t)%nat.

(* value ranges *)
Definition is_u8 (x : Z) : bool := (0 <=? x) && (x <=? 255).
Definition is_i8 (x : Z) : bool := (-128 <=? x) && (x <=? 127).
Definition is_u7 (x : Z) : bool := (0 <=? x) && (x <=? 127).
Definition is_i7 (x : Z) : bool := (-64 <=? x) && (x <=? 63).

(* wrapping i32 arithmetic *)
Definition two32 : Z := 4294967296.
Definition wrap32 (x : Z) : Z := (x + 2147483648) mod two32 - 2147483648.

(* one output element of a kernel: [sat] = the kernel uses the saturating pair sum (may_saturate),
   [vext] = number of leading depth elements handled by vector code (all of them in the packed
   GEMM path, where the depth is zero-padded to a multiple of 4; a multiple of 4 or of the i8
   vector width in the gemv paths, the rest being scalar i32 code) *)
Definition kernel_elem (sat : bool) (vext : nat) (za zb : Z) (a b : list Z) : Z :=
  let av := firstn vext a in let bv := firstn vext b in
  let at_ := skipn vext a in let bt := skipn vext b in
  let d := (if sat then dot_maddubs av bv else dotz av bv) + dotz at_ bt in
  wrap32 (dot_corrected d za zb a b (Z.of_nat (length a))).

(* ---- int8 packing metadata (packing/int8.rs, after the zero-point indexing fix):
        panel p of a block packed with per-row zero points [zp] (relative to the block) ---- *)
Definition meta_zero_point (zp : option (list Z)) (panel mr r : nat) : Z :=
  match zp with Some l => nth (panel * mr + r) l 0 | None => 0 end.
(* the indexing before the fix: every full panel used the first panel's entries *)
Definition meta_zero_point_old (zp : option (list Z)) (panel mr r : nat) (full : bool) : Z :=
  match zp with Some l => nth (if full then r else panel * mr + r) l 0 | None => 0 end.

(* ---- DynamicQuantizeLinear over Q (src/ops/quantize.rs), for the u8 output type ---- *)
Definition Qclamp (lo hi x : Q) : Q := Qmax lo (Qmin hi x).
Definition Zclamp (lo hi x : Z) : Z := Z.max lo (Z.min hi x).
(* round half to even *)
Definition round_half_even (x : Q) : Z :=
  let f := Qfloor x in
  let d := (x - inject_Z f)%Q in
  match Qcompare d (1 # 2) with
  | Lt => f
  | Gt => f + 1
  | Eq => if Z.even f then f else f + 1
  end.
Record dq := { dq_scale : Q; dq_zp : Z }.
Definition dyn_params (x_min x_max : Q) : dq :=
  let lo := Qmin x_min 0 in let hi := Qmax x_max 0 in
  let scale := ((hi - lo) / 255)%Q in
  {| dq_scale := scale;
     dq_zp := round_half_even (Qclamp 0 255 (0 - lo / scale)%Q) |}.
Definition quantize (p : dq) (x : Q) : Z :=
  Zclamp 0 255 (round_half_even (x / dq_scale p)%Q + dq_zp p).
Definition dequantize (p : dq) (y : Z) : Q := (inject_Z (y - dq_zp p) * dq_scale p)%Q.
