(* C16 -- correspondence cases: inputs are generated from seeds by a formula shared with the
   harness (harness/gemm/src/lib.rs: gen_val), so a case carries sizes, block parameters (read
   from the implementation through the hook), seeds and the implementation's observed output. *)
From RV Require Import Prelude.
From Gemm Require Import GemmModel.
Open Scope N_scope.

(* integer-valued test data in [-8, 7] *)
Definition gen (s i j : N) : Z :=
  (Z.of_N (N.land (s + i * 5 + j * 3 + i * j * 7 + N.shiftr i 4 * 3 + N.shiftr j 4 * 5) 15) - 8)%Z.

Inductive obs :=
| OFull (l : list Z)                      (* the whole output, row-major *)
| OSums (rows cols : list Z) (samples : list (N * N * Z))
                                          (* weighted row / column checksums + sampled entries *)
| OPanic
| OErr.

Record gemm_case := {
  g_P : params; g_bb : N; g_kb : N;       (* block parameters reported by the hook *)
  g_m : N; g_n : N; g_k : N;
  g_alpha : Z; g_beta : Z;
  g_bias : N; g_sbias : N;                (* 0 none, 1 column vector (per row), 2 row vector *)
  g_sa : N; g_sb : N; g_sc : N;
  g_la : N;                               (* 0 packed on the fly, 1 unpacked (unit col stride), 2 prepacked *)
  g_rb : N;                               (* 0 unpacked, 1 prepacked, 2 im2col *)
  g_conv : option conv;                   (* for g_rb = 2 *)
  g_small : bool;                         (* evaluate the blocked model itself *)
  g_obs : obs;
  g_obs2 : obs                            (* small cases: checksums too (cross-check of the oracle) *)
}.

Record pack_case := {
  k_which : N;          (* 0 pack_a, 1 pack_b, 2 prepack_a, 3 prepack_b, 4 pack_im2col *)
  k_P : params;
  k_m : N; k_n : N; k_k : N;              (* matrix sizes (m x k for A, k x n for B) *)
  k_r0 : N; k_r1 : N; k_d0 : N; k_d1 : N; (* row/col range, depth range (which = 0, 1, 4) *)
  k_seed : N;
  k_conv : option conv;
  k_out : option (list Z)                 (* None: the call panicked *)
}.

Inductive case :=
| CG (g : gemm_case)
| CGL (l : list gemm_case)               (* members of one batched_gemm_uninit call *)
| CP (p : pack_case)
| CB (expect_err got_err : bool).        (* batched call with inconsistent members *)

(* ---- inputs ---- *)
Definition matA (g : gemm_case) : mat ZK := fun i t => gen (g_sa g) i t.
Definition img_of (s : N) : Z -> Z := fun off => gen s (Z.to_N off) 0.
Definition matB_of (s rb : N) (cv : option conv) : mat ZK :=
  match rb, cv with
  | 2, Some c => fun t j => im2col_get (build_im2col c (img_of s)) t j
  | _, _ => fun t j => gen s t j
  end.
Definition matB (g : gemm_case) : mat ZK := matB_of (g_sb g) (g_rb g) (g_conv g).
Definition bias_of (g : gemm_case) : bias ZK :=
  match g_bias g with
  | 1 => @ColBias ZK (fun i => gen (g_sbias g) i 0)
  | 2 => @RowBias ZK (fun j => gen (g_sbias g) j 0)
  | _ => @NoBias ZK
  end.
(* beta = 0: the harness pre-fills the output with NaN, i.e. poison *)
Definition initC (g : gemm_case) : omat ZK :=
  if (g_beta g =? 0)%Z then (fun _ _ => None) else (fun i j => Some (gen (g_sc g) i j)).
Definition la_of (x : N) : lhs_src := match x with 0 => LUnpackedStrided | 1 => LUnpackedUnit | _ => LPrepacked end.
Definition rb_of (x : N) : rhs_src := match x with 0 => RUnpacked | 1 => RPrepacked | _ => RVirtual end.

Definition model_out (g : gemm_case) : omat ZK :=
  gemm_impl ZK (g_P g) (g_bb g) (g_kb g) (g_m g) (g_n g) (g_k g) (g_alpha g) (g_beta g)
            (bias_of g) (matA g) (matB g) (la_of (g_la g)) (rb_of (g_rb g)) (initC g).
Definition spec_out (g : gemm_case) : omat ZK :=
  gemm_spec ZK (g_alpha g) (g_beta g) (bias_of g) (matA g) (matB g) (g_m g) (g_n g) (g_k g) (initC g).

Definition all_cells (m n : N) (o : omat ZK) : list (option Z) :=
  flat_map (fun i => map (fun j => o i j) (nrange 0 n)) (nrange 0 m).

Fixpoint eq_cells (l : list (option Z)) (r : list Z) : bool :=
  match l, r with
  | [], [] => true
  | Some x :: l', y :: r' => (x =? y)%Z && eq_cells l' r'
  | _, _ => false
  end.

(* ---- checksum oracle for large cases ----
   weights wc j = 1 + j mod 5 (columns), wr i = 1 + i mod 3 (rows);
   rows[i] = sum_j out[i][j] * wc j,  cols[j] = sum_i out[i][j] * wr i. *)
Definition wc (j : N) : Z := Z.of_N (1 + j mod 5).
Definition wr (i : N) : Z := Z.of_N (1 + i mod 3).
Definition sumZ (f : N -> Z) (n : N) : Z := fold_left (fun acc t => (acc + f t)%Z) (nrange 0 n) 0%Z.
Fixpoint dotl (a b : list Z) : Z :=
  match a, b with x :: a', y :: b' => (x * y + dotl a' b')%Z | _, _ => 0%Z end.

(* x + a * y, element-wise *)
Fixpoint axpy (a : Z) (y x : list Z) : list Z :=
  match y, x with
  | v :: y', u :: x' => (u + a * v)%Z :: axpy a y' x'
  | _, _ => x
  end.
Definition rows_of (f : N -> N -> Z) (r c : N) : list (list Z) :=
  map (fun i => map (f i) (nrange 0 c)) (nrange 0 r).
Definition zeros (n : N) : list Z := map (fun _ => 0%Z) (nrange 0 n).
(* sum_i w_i * row_i *)
Definition wsum_rows (w : N -> Z) (rows : list (list Z)) (len : N) : list Z :=
  snd (fold_left (fun '(i, acc) row => (N.succ i, axpy (w i) row acc)) rows (0, zeros len)).

(* (row checksums, column checksums) of the specified output; every matrix element is generated
   once *)
Definition spec_sums (g : gemm_case) : list Z * list Z :=
  let m := g_m g in let n := g_n g in let k := g_k g in
  let bs := bias_of g in
  let Arows := rows_of (matA g) m k in
  let Brows := rows_of (matB g) k n in
  let wcs := map wc (nrange 0 n) in
  let Bw := map (dotl wcs) Brows in                       (* Bw[t] = sum_j B[t][j] wc j *)
  let Aw := wsum_rows wr Arows k in                       (* Aw[t] = sum_i A[i][t] wr i *)
  let ABr := map (fun arow => dotl arow Bw) Arows in      (* sum_j (AB)[i][j] wc j *)
  let ABc := wsum_rows (fun t => nth (N.to_nat t) Aw 0%Z) Brows n in   (* sum_i (AB)[i][j] wr i *)
  let '(Cr, Cc) :=
    if (g_beta g =? 0)%Z then (zeros m, zeros n)
    else let Crows := rows_of (gen (g_sc g)) m n in
         (map (dotl wcs) Crows, wsum_rows wr Crows n) in
  let biasr := map (fun i => sumZ (fun j => (bias_at ZK bs i j * wc j)%Z) n) (nrange 0 m) in
  let biasc := map (fun j => sumZ (fun i => (bias_at ZK bs i j * wr i)%Z) m) (nrange 0 n) in
  let comb := fun ab c b => (g_alpha g * ab + g_beta g * c + b)%Z in
  (map (fun '(ab, (c, b)) => comb ab c b) (combine ABr (combine Cr biasr)),
   map (fun '(ab, (c, b)) => comb ab c b) (combine ABc (combine Cc biasc))).
Definition spec_row_sums (g : gemm_case) : list Z := fst (spec_sums g).
Definition spec_col_sums (g : gemm_case) : list Z := snd (spec_sums g).

Fixpoint eq_listZ (a b : list Z) : bool :=
  match a, b with
  | [], [] => true
  | x :: a', y :: b' => (x =? y)%Z && eq_listZ a' b'
  | _, _ => false
  end.

Definition sample_ok (g : gemm_case) (s : N * N * Z) : bool :=
  let '(i, j, v) := s in
  (i <? g_m g) && (j <? g_n g) &&
  match spec_out g i j with Some x => (x =? v)%Z | None => false end.

(* the implementation's observation agrees with the specification *)
Definition obs_matches_spec (g : gemm_case) (o : obs) : bool :=
  match o with
  | OFull l => eq_cells (all_cells (g_m g) (g_n g) (spec_out g)) l
  | OSums rows cols samples =>
      (let '(r, c) := spec_sums g in eq_listZ r rows && eq_listZ c cols)
      && forallb (sample_ok g) samples
  | OPanic | OErr => false
  end.

(* ---- packing streams ---- *)
Definition pack_model (p : pack_case) : list Z :=
  let P := k_P p in
  let A : mat ZK := fun i t => gen (k_seed p) i t in
  let B : mat ZK := matB_of (k_seed p) (if k_which p =? 4 then 2 else 0) (k_conv p) in
  match k_which p with
  | 0 => map (pack_a ZK A (p_mr P) (k_r0 p) (k_r1 p) (k_d0 p) (k_d1 p))
             (nrange 0 (pack_a_len (p_mr P) (k_r0 p) (k_r1 p) (k_d0 p) (k_d1 p)))
  | 1 => map (pack_b ZK B (p_nr P) (k_d0 p) (k_d1 p) (k_r0 p) (k_r1 p))
             (nrange 0 (pack_b_len (p_nr P) (k_d0 p) (k_d1 p) (k_r0 p) (k_r1 p)))
  | 2 => map (prepack_a ZK P (k_m p) (k_k p) A) (nrange 0 (prepack_a_len P (k_m p) (k_k p)))
  | 3 => map (prepack_b ZK P (k_n p) (k_k p) B) (nrange 0 (prepack_b_len P (k_n p) (k_k p)))
  | _ => (* pack_im2col: columns up to the next multiple of nr are gathered, not zero-filled *)
         let ce := div_ceil (k_r1 p) (p_nr P) * p_nr P in
         map (pack_b ZK B (p_nr P) (k_d0 p) (k_d1 p) (k_r0 p) ce)
             (nrange 0 (pack_b_len (p_nr P) (k_d0 p) (k_d1 p) (k_r0 p) ce))
  end.

(* ---- agree / prop_ok / show ---- *)
Definition agree_g (g : gemm_case) : bool :=
  ((g_m g =? 0) || (g_n g =? 0) || (g_k g =? 0) || params_okb (g_P g)) && (0 <? g_bb g) && (0 <? g_kb g) &&
  (if g_small g
   then match g_obs g with
        | OFull l => eq_cells (all_cells (g_m g) (g_n g) (model_out g)) l
        | _ => false
        end
   else true).   (* large cases: model = spec by C16_blocked_gemm_correct; spec vs output is [prop_ok] *)
Definition agree (c : case) : bool :=
  match c with
  | CG g => agree_g g
  | CGL l => forallb agree_g l
  | CP p => match k_out p with Some l => eq_listZ (pack_model p) l | None => false end
  | CB e g => Bool.eqb e g
  end.

(* the property oracle: the implementation's output equals alpha*A*B + beta*C + bias computed in Z
   (so it contains none of the NaN poison and does not depend on the prior contents) *)
Definition prop_ok_g (g : gemm_case) : bool :=
  obs_matches_spec g (g_obs g) &&
  match g_obs2 g with OSums _ _ _ => obs_matches_spec g (g_obs2 g) | _ => true end.
Definition prop_ok (c : case) : bool :=
  match c with
  | CG g => prop_ok_g g
  | CGL l => forallb prop_ok_g l
  (* the packed layout is an internal choice the property does not constrain: a packing call must
     only not panic; layout drift from the model is reported as information (see [agree]) *)
  | CP p => match k_out p with Some _ => true | None => false end
  | CB e g => Bool.eqb e g
  end.

(* alarms are raised on the property oracle only (see checks/C16.py) *)
Definition always (c : case) : bool := true.

Definition show (c : case) :=
  match c with
  | CG g => (if g_small g then all_cells (g_m g) (g_n g) (spec_out g) else [],
             if g_small g then [] else spec_row_sums g, [] : list Z)
  | CGL l => ([], flat_map spec_row_sums l, [])
  | CP p => ([], pack_model p, [])
  | CB e g => ([], [], [])
  end.
