(* C37 -- correspondence cases for block-quantized matmul.  Scales are multiples of 1/4 (powers of
   two, zero and a negative value), the LHS holds small integers, so every f32 intermediate is
   exact; outputs are carried as 4 * value in Z. *)
From RV Require Import Prelude.
From Gemm Require Import GemmModel BlockQuant ModelC16.
Open Scope N_scope.

Definition hq (s i j : N) : N := s + i * 11 + j * 7 + i * j * 3 + N.shiftr i 3 * 5 + N.shiftr j 2.
Definition scale4_pal : list Z := [1; 2; 4; 8; 16; -4; 0]%Z.
Definition gscale4 (s col blk : N) : Z := nth (N.to_nat (hq s col blk mod 7)) scale4_pal 0%Z.
Definition gbyte (s col idx : N) : N := N.land (hq s col idx) 255.

Record bq_case := {
  q_mode : N;            (* 0 BlockQuantizedGemm Float; 1 BlockQuantizedGemm Int8; 2 GemmExecutor + BlockQuantized RHS *)
  q_epv : N;             (* 4-bit elements per SIMD vector of the dispatched ISA (modes 0, 1) *)
  q_P : params;          (* mode 2: block parameters reported by the hook *)
  q_rows : N; q_cols : N; q_nblocks : N; q_bs : N;
  q_alpha : Z; q_beta : Z; q_bias : N;       (* mode 2 *)
  q_sl : N; q_sq : N; q_ss : N; q_sc : N; q_sbias : N;
  q_zb : N;              (* whole LHS quantisation blocks forced to zero: 0 none, 1 first, 2 middle, 3 last, 4 all *)
  q_out : option (list Z)      (* modes 0, 2: 4 * output; mode 1: round (1024 * output) *)
}.

Definition bq_of (c : bq_case) : bqmat ZK :=
  Build_bqmat ZK (q_cols c) (q_nblocks c) (q_bs c)
     (fun col idx => gbyte (q_sq c) col idx) (fun col blk => gscale4 (q_ss c) col blk).
Definition zero_block (c : bq_case) (blk : N) : bool :=
  match q_zb c with
  | 0 => false
  | 1 => blk =? 0
  | 2 => blk =? q_nblocks c / 2
  | 3 => blk =? q_nblocks c - 1
  | _ => true
  end.
Definition lhs_of (c : bq_case) : mat ZK :=
  fun i r => if zero_block c (r / q_bs c) then 0%Z else gen (q_sl c) i r.
Definition wz (z : Z) : Z := z.
Definition q_k (c : bq_case) : N := q_nblocks c * q_bs c.

(* 4 * (dequantized matrix): dequantize, then the ordinary specification *)
Definition deq4 (c : bq_case) : mat ZK := dequant ZK wz (bq_of c).
Definition bias4_of (c : bq_case) : bias ZK :=
  match q_bias c with
  | 1 => @ColBias ZK (fun i => (4 * gen (q_sbias c) i 0)%Z)
  | 2 => @RowBias ZK (fun j => (4 * gen (q_sbias c) j 0)%Z)
  | _ => @NoBias ZK
  end.
Definition init4 (c : bq_case) : omat ZK :=
  if (q_beta c =? 0)%Z then (fun _ _ => None) else (fun i j => Some (4 * gen (q_sc c) i j)%Z).
Definition spec4 (c : bq_case) : omat ZK :=
  match q_mode c with
  | 2 => gemm_spec ZK (q_alpha c) (q_beta c) (bias4_of c) (lhs_of c) (deq4 c) (q_rows c) (q_cols c) (q_k c) (init4 c)
  | _ => gemm_spec ZK 1%Z 0%Z NoBias (lhs_of c) (deq4 c) (q_rows c) (q_cols c) (q_k c) (fun _ _ => None)
  end.
(* today's code *)
Definition model4 (c : bq_case) : omat ZK :=
  match q_mode c with
  | 2 => if (q_rows c =? 0) || (q_cols c =? 0) then init4 c
         else if q_k c =? 0 then gemm_k0 ZK (q_rows c) (q_cols c) (q_beta c) (bias4_of c) (init4 c)
         else gemm_main ZK (q_P c) (q_rows c) (q_cols c) (q_k c) (q_alpha c) (q_beta c) (bias4_of c)
                        (lhs_packed ZK (q_P c) (q_rows c) (q_k c) (lhs_of c))
                        (rhs_bq ZK wz (q_P c) (q_cols c) (q_k c) (bq_of c)) (init4 c)
  | _ => bq_gemm ZK wz (q_epv c) (bq_of c) (q_rows c) (lhs_of c)
  end.

(* Int8 compute mode: documented as approximate.  Bound used by the search: per block, the LHS is
   rounded to a multiple of amax/127, so the error is at most sum_blocks bs * 8 * |scale| * amax / 254. *)
Definition amax (c : bq_case) (i blk : N) : Z :=
  fold_left (fun acc t => Z.max acc (Z.abs (lhs_of c i (blk * q_bs c + t)))) (nrange 0 (q_bs c)) 0%Z.
Definition tol1024 (c : bq_case) (i j : N) : Z :=
  (fold_left (fun acc blk =>
     acc + Z.of_N (q_bs c) * 8 * Z.abs (gscale4 (q_ss c) j blk) * amax c i blk * 256)%Z
     (nrange 0 (q_nblocks c)) 0 / 254 + 16)%Z.

Fixpoint within (cells : list (N * N * option Z)) (out : list Z) (tol : N -> N -> Z) : bool :=
  match cells, out with
  | [], [] => true
  | (i, j, Some s) :: cs, o :: os => (Z.abs (o - 256 * s) <=? tol i j)%Z && within cs os tol
  | _, _ => false
  end.
Definition cells_idx (m n : N) (o : omat ZK) : list (N * N * option Z) :=
  flat_map (fun i => map (fun j => (i, j, o i j)) (nrange 0 n)) (nrange 0 m).

Definition case := bq_case.
Definition prop_ok (c : case) : bool :=
  match q_out c with
  | None => false
  | Some l =>
      if q_mode c =? 1 then within (cells_idx (q_rows c) (q_cols c) (spec4 c)) l (tol1024 c)
      else eq_cells (all_cells (q_rows c) (q_cols c) (spec4 c)) l
  end.
Definition agree (c : case) : bool :=
  match q_out c with
  | None => false
  | Some l =>
      if q_mode c =? 1 then true
      else eq_cells (all_cells (q_rows c) (q_cols c) (model4 c)) l
  end.
Definition always (c : case) : bool := true.
Definition show (c : case) := all_cells (q_rows c) (q_cols c) (spec4 c).
