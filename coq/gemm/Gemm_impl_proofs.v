(* C16 -- gemv fast path, zero-depth path, dispatch (gemm_impl), and the corollaries about
   initialisation and beta = 0. *)
From RV Require Import Prelude.
From Gemm Require Import GemmModel Gemm_base Gemm_proofs Gemm_readers.
From Coq Require Import Ring.
Open Scope N_scope.

Section Impl.
Variable K : ringops.
Hypothesis Kth : ring_theory (r0 K) (r1 K) (radd K) (rmul K) (rsub K) (ropp K) eq.
Hypothesis reqb_spec : forall x y, reqb K x y = true <-> x = y.
Hypothesis K_nontrivial : r1 K <> r0 K.
Add Ring Kring3 : Kth.

Declare Scope ring_scope.
Delimit Scope ring_scope with R.
Notation "x + y" := (radd K x y) : ring_scope.
Notation "x * y" := (rmul K x y) : ring_scope.

(* ---- chunks ---- *)
Lemma chunk_unique bb n j cidx :
  0 < bb -> j < n -> (cidx * bb <= j /\ j < N.min (cidx * bb + bb) n) <-> cidx = j / bb.
Proof.
  intros Hb Hj. pose proof (div_tile_inv j bb Hb) as [J1 J2]. split.
  - intros [H1 H2]. symmetry. apply div_tile; lia.
  - intros ->. lia.
Qed.

(* ---- gemv ---- *)
Section Gemv.
Variables (n k bb kb : N) (alpha beta : K) (bs : bias K) (A B : mat K).
Hypothesis Hbb : 0 < bb.
Hypothesis Hkb : 0 < kb.
Hypothesis Hk : 0 < k.

Let P1 : params := {| p_mr := 1; p_nr := 1; p_mc := 1; p_nc := 1; p_kc := kb |}.

Lemma P1_ok : params_okb P1 = true.
Proof.
  unfold params_okb, P1; cbn [p_mr p_nr p_mc p_nc p_kc].
  replace (0 <? kb) with true by (symmetry; apply N.ltb_lt; exact Hkb). reflexivity.
Qed.

Definition gemv_step (j didx : N) (v : option K) : option K :=
  let ds := didx * kb in let de := N.min (ds + kb) k in
  acc_elem K (if didx =? 0 then beta else r1 K) alpha (dot K A B 0 j ds (de - ds)) v.

Lemma gemv_step_eq j didx v :
  gemv_step j didx v = step_f K P1 k alpha beta NoBias A B 0 j didx v.
Proof.
  unfold gemv_step, step_f, tile_res, bias_f. cbn [p_kc P1].
  assert (E : (didx * kb =? 0) = (didx =? 0)).
  { destruct (didx =? 0) eqn:E0.
    - apply N.eqb_eq in E0. subst. reflexivity.
    - apply N.eqb_neq in E0. apply N.eqb_neq. nia. }
  rewrite E. destruct (didx =? 0); reflexivity.
Qed.

Lemma gemv_depth j v :
  fold_left (fun v didx => gemv_step j didx v) (nrange 0 (div_ceil k kb)) v =
  spec_elem K alpha beta NoBias A B k 0 j v.
Proof.
  rewrite <- (depth_fold_spec K Kth reqb_spec K_nontrivial P1 P1_ok k alpha beta NoBias A B 0 j v Hk).
  unfold depth_fold. cbn [p_kc P1].
  apply fold_left_ext_in. intros didx _ v'. apply gemv_step_eq.
Qed.

Definition bias_g (j : N) (v : option K) : option K :=
  match bs with
  | NoBias => v
  | ColBias f => add_elem K (f 0) v
  | RowBias f => add_elem K (f j) v
  end.

Lemma bias_g_spec j v :
  bias_g j (spec_elem K alpha beta NoBias A B k 0 j v) = spec_elem K alpha beta bs A B k 0 j v.
Proof.
  unfold bias_g, spec_elem. destruct (reqb K beta (r0 K)).
  - destruct bs; cbn [add_elem bias_at]; f_equal; ring.
  - destruct v as [c|]; [|destruct bs; reflexivity].
    destruct bs; cbn [add_elem bias_at]; f_equal; ring.
Qed.

Definition chunk_cond (cidx i j : N) : bool :=
  (i =? 0) && (cidx * bb <=? j) && (j <? N.min (cidx * bb + bb) n).

Lemma gemv_chunk_PW cidx i j :
  PW K (gemv_chunk K n k bb kb alpha beta bs A B cidx)
     (fun v => if chunk_cond cidx i j
               then bias_g j (fold_left (fun v didx => gemv_step j didx v) (nrange 0 (div_ceil k kb)) v)
               else v) i j.
Proof.
  unfold gemv_chunk. cbv zeta.
  set (cond := fun i j : N => (i =? 0) && (cidx * bb <=? j) && (j <? N.min (cidx * bb + bb) n)).
  assert (Hin : PW K (fun o => fold_left (fun o didx =>
              pw_update K cond (fun i j v => acc_elem K (if didx =? 0 then beta else r1 K) alpha
                   (dot K A B 0 j (didx * kb) (N.min (didx * kb + kb) k - didx * kb)) v) o)
              (nrange 0 (div_ceil k kb)) o)
            (fun v => if chunk_cond cidx i j
                      then fold_left (fun v didx => gemv_step j didx v) (nrange 0 (div_ceil k kb)) v
                      else v) i j).
  { eapply PW_ext; [|apply (PW_fold K _ (fun didx v => if cond i j then gemv_step j didx v else v))].
    - intros v. change (cond i j) with (chunk_cond cidx i j). destruct (chunk_cond cidx i j).
      + reflexivity.
      + apply (fold_all_id (fun (didx : N) (v : option K) => v)). reflexivity.
    - intros didx _ o. reflexivity. }
  unfold bias_g. destruct bs as [|f|f].
  - eapply PW_ext; [|exact Hin]. intros v. reflexivity.
  - eapply PW_ext; [|apply (PW_comp K _ _ _ _ i j Hin (PW_update K cond _ i j))].
    intros v. cbv beta. change (cond i j) with (chunk_cond cidx i j).
    destruct (chunk_cond cidx i j); reflexivity.
  - eapply PW_ext; [|apply (PW_comp K _ _ _ _ i j Hin (PW_update K cond _ i j))].
    intros v. cbv beta. change (cond i j) with (chunk_cond cidx i j).
    destruct (chunk_cond cidx i j); reflexivity.
Qed.

Theorem gemv_correct o i j :
  gemv K n k bb kb alpha beta bs A B o i j = gemm_spec K alpha beta bs A B 1 n k o i j.
Proof.
  unfold gemv.
  rewrite (PW_fold K _ _ i j _ (fun cidx _ => gemv_chunk_PW cidx i j)).
  unfold gemm_spec.
  destruct ((i <? 1) && (j <? n)) eqn:E.
  - apply andb_true_iff in E. rewrite !N.ltb_lt in E. destruct E as [Ei Ej].
    assert (i = 0) by lia. subst i.
    rewrite (fold_unique (fun cidx v => if chunk_cond cidx 0 j then _ else v) (j / bb)).
    + pose proof (div_tile_inv j bb Hbb) as [J1 J2].
      rewrite (andb_range 0 (j / bb) (div_ceil n bb))
        by (first [apply N.le_0_l | apply div_ceil_lt; [exact Hbb|lia]]).
      assert (Ec : chunk_cond (j / bb) 0 j = true).
      { unfold chunk_cond. rewrite N.eqb_refl. cbn [andb].
        apply andb_range; lia. }
      rewrite Ec, gemv_depth. apply bias_g_spec.
    + intros cidx Hne v. destruct (chunk_cond cidx 0 j) eqn:Ec; [|reflexivity].
      exfalso. apply Hne. unfold chunk_cond in Ec. rewrite N.eqb_refl in Ec. cbn [andb] in Ec.
      apply andb_true_iff in Ec. rewrite N.leb_le, N.ltb_lt in Ec.
      apply (proj1 (chunk_unique bb n j cidx Hbb Ej)). exact Ec.
  - apply (fold_all_id (fun cidx v => if chunk_cond cidx i j then _ else v)).
    intros cidx _ v. destruct (chunk_cond cidx i j) eqn:Ec; [|reflexivity].
    exfalso. unfold chunk_cond in Ec. apply andb_true_iff in Ec. destruct Ec as [Ec E3].
    apply andb_true_iff in Ec. destruct Ec as [E1 E2].
    apply N.eqb_eq in E1. apply N.ltb_lt in E3.
    assert ((i <? 1) && (j <? n) = true); [|congruence].
    apply andb_true_iff. rewrite !N.ltb_lt. lia.
Qed.

End Gemv.

(* ---- zero-depth path ---- *)
Lemma gemm_k0_correct m n alpha beta bs A B o i j :
  gemm_k0 K m n beta bs o i j = gemm_spec K alpha beta bs A B m n 0 o i j.
Proof.
  unfold gemm_k0, pw_update, gemm_spec, spec_elem, dot. cbn [N.to_nat sum_from].
  destruct ((i <? m) && (j <? n)); [|reflexivity].
  destruct (reqb K beta (r0 K)).
  - destruct bs; cbn [add_elem bias_at]; f_equal; ring.
  - destruct (o i j) as [c|]; [|destruct bs; reflexivity].
    destruct bs; cbn [add_elem bias_at]; f_equal; ring.
Qed.

(* ---- the whole of gemm_impl ---- *)
Theorem gemm_impl_correct P bb kb m n k alpha beta bs A B la rb o i j :
  (m <> 0 -> n <> 0 -> k <> 0 -> params_okb P = true) -> 0 < bb -> 0 < kb ->
  gemm_impl K P bb kb m n k alpha beta bs A B la rb o i j =
  gemm_spec K alpha beta bs A B m n k o i j.
Proof.
  intros Pok0 Hbb Hkb. unfold gemm_impl.
  destruct ((m =? 0) || (n =? 0)) eqn:E0.
  { unfold gemm_spec. apply orb_true_iff in E0. rewrite !N.eqb_eq in E0.
    replace ((i <? m) && (j <? n)) with false; [reflexivity|].
    symmetry. apply andb_false_iff. rewrite !N.ltb_ge. lia. }
  destruct (k =? 0) eqn:Ek.
  { apply N.eqb_eq in Ek. subst k. apply gemm_k0_correct. }
  apply N.eqb_neq in Ek. assert (Hk : 0 < k) by lia.
  assert (Pok : params_okb P = true).
  { apply orb_false_iff in E0. rewrite !N.eqb_neq in E0. apply Pok0; tauto. }
  match goal with |- (if ?c then _ else _) i j = _ => destruct c eqn:Ev end.
  { apply andb_true_iff in Ev. destruct Ev as [Ev _]. apply andb_true_iff in Ev.
    destruct Ev as [Em _]. apply N.eqb_eq in Em. subst m.
    apply gemv_correct; assumption. }
  apply (gemm_main_correct K Kth reqb_spec K_nontrivial P Pok); [| |exact Hk].
  - destruct la.
    + apply lhs_packed_ok; exact Pok.
    + apply lhs_unpacked_ok.
    + apply lhs_prepacked_ok; exact Pok.
  - destruct rb.
    + apply rhs_packed_ok; exact Pok.
    + apply rhs_prepacked_ok; exact Pok.
    + apply rhs_packed_ok; exact Pok.
Qed.

Section Corollaries.
Variables (P : params) (bb kb m n k : N) (alpha beta : K) (bs : bias K) (A B : mat K).
Hypothesis Pok : m <> 0 -> n <> 0 -> k <> 0 -> params_okb P = true.
Hypothesis Hbb : 0 < bb.
Hypothesis Hkb : 0 < kb.

(* beta = 0: every output element is written, and the prior contents do not matter *)
Theorem beta_zero_no_poison la rb o o' i j :
  beta = r0 K -> i < m -> j < n ->
  gemm_impl K P bb kb m n k alpha beta bs A B la rb o i j =
  gemm_impl K P bb kb m n k alpha beta bs A B la rb o' i j /\
  exists v, gemm_impl K P bb kb m n k alpha beta bs A B la rb o i j = Some v.
Proof.
  intros Hb Hi Hj. rewrite !gemm_impl_correct by assumption.
  unfold gemm_spec, spec_elem.
  replace ((i <? m) && (j <? n)) with true
    by (symmetry; apply andb_true_iff; rewrite !N.ltb_lt; lia).
  replace (reqb K beta (r0 K)) with true by (symmetry; apply reqb_spec; exact Hb).
  split; [reflexivity|eexists; reflexivity].
Qed.

(* beta <> 0: initialised in, initialised out *)
Theorem every_output_initialised la rb o i j :
  i < m -> j < n ->
  (reqb K beta (r0 K) = false -> o i j <> None) ->
  gemm_impl K P bb kb m n k alpha beta bs A B la rb o i j <> None.
Proof.
  intros Hi Hj Hinit. rewrite gemm_impl_correct by assumption.
  unfold gemm_spec, spec_elem.
  replace ((i <? m) && (j <? n)) with true
    by (symmetry; apply andb_true_iff; rewrite !N.ltb_lt; lia).
  destruct (reqb K beta (r0 K)); [discriminate|].
  destruct (o i j); [discriminate|]. exfalso. apply Hinit; reflexivity.
Qed.

(* nothing outside the m x n output is written *)
Theorem nothing_outside_written la rb o i j :
  ~ (i < m /\ j < n) ->
  gemm_impl K P bb kb m n k alpha beta bs A B la rb o i j = o i j.
Proof.
  intros H. rewrite gemm_impl_correct by assumption. unfold gemm_spec.
  replace ((i <? m) && (j <? n)) with false; [reflexivity|].
  symmetry. apply andb_false_iff. rewrite !N.ltb_ge. lia.
Qed.

(* prepacked / unpacked / virtual operands give the same result *)
Theorem prepack_eq la rb la' rb' o i j :
  gemm_impl K P bb kb m n k alpha beta bs A B la rb o i j =
  gemm_impl K P bb kb m n k alpha beta bs A B la' rb' o i j.
Proof. rewrite !gemm_impl_correct by assumption. reflexivity. Qed.

End Corollaries.

End Impl.
