(* C16 -- model of rten-gemm's GEMM driver (rten-gemm/src/lib.rs: gemm_impl, gemm_block, gemv;
   packing.rs: pack_a_block / pack_b_block; prepack.rs; tiles.rs; im2col.rs) over an arbitrary
   commutative ring.  Executable definitions only; proofs are in Gemm_proofs.v etc.

   Conventions
   - indices and sizes are [N]; a matrix is a function [N -> N -> K] (logical element access,
     i.e. what `get_unchecked([row, col])` returns); sizes are passed separately.
   - the output buffer is [N -> N -> option K]: [None] is an element that was never written
     ("uninitialised", poison).  Reading poison yields poison.
   - packed buffers are flat functions [N -> K] from the element offset inside the packing
     buffer; the closed forms below are what the sequential `SliceWriter` loops of
     pack_a_block / pack_b_block produce (checked against the real packing functions of every
     f32 kernel by the correspondence run, stream "pack").
   - block sizes (mr, nr, mc, nc, kc, and the gemv chunk sizes) are PARAMETERS: the model never
     fixes them, the theorems quantify over them. *)
From RV Require Import Prelude.
Open Scope N_scope.

(* ---- ring operations (laws are hypotheses of the proofs, not of the model) ---- *)
Record ringops := {
  car :> Type;
  r0 : car; r1 : car;
  radd : car -> car -> car; rmul : car -> car -> car; rsub : car -> car -> car;
  ropp : car -> car;
  reqb : car -> car -> bool
}.

Definition ZK : ringops :=
  {| car := Z; r0 := 0%Z; r1 := 1%Z; radd := Z.add; rmul := Z.mul; rsub := Z.sub;
     ropp := Z.opp; reqb := Z.eqb |}.

Section Model.
Context (K : ringops).

Definition mat := N -> N -> K.
Definition omat := N -> N -> option K.

(* Σ_{t < n} f (s + t) *)
Fixpoint sum_from (f : N -> K) (s : N) (n : nat) : K :=
  match n with
  | O => r0 K
  | S n' => radd K (f s) (sum_from f (N.succ s) n')
  end.

(* [s; s+1; ...; s+n-1] *)
Fixpoint nseq (s : N) (n : nat) : list N :=
  match n with O => [] | S n' => s :: nseq (N.succ s) n' end.
Definition nrange (a b : N) : list N := nseq a (N.to_nat (b - a)).

Definition div_ceil (a b : N) : N := (a + b - 1) / b.

(* ---- specification: alpha * A*B + beta * C + bias ---- *)
Inductive bias :=
| NoBias
| ColBias (f : N -> K)     (* BiasVector::Column: one value per output ROW *)
| RowBias (f : N -> K).    (* BiasVector::Row: one value per output COLUMN *)

Definition bias_at (b : bias) (i j : N) : K :=
  match b with NoBias => r0 K | ColBias f => f i | RowBias f => f j end.

Definition dot (A B : mat) (i j : N) (s : N) (len : N) : K :=
  sum_from (fun t => rmul K (A i t) (B t j)) s (N.to_nat len).

(* value of output element (i,j) given its previous content [c] *)
Definition spec_elem (alpha beta : K) (b : bias) (A B : mat) (k : N) (i j : N)
           (c : option K) : option K :=
  let ab := rmul K alpha (dot A B i j 0 k) in
  if reqb K beta (r0 K) then Some (radd K ab (bias_at b i j))
  else match c with
       | Some c => Some (radd K (radd K ab (rmul K beta c)) (bias_at b i j))
       | None => None
       end.

Definition gemm_spec (alpha beta : K) (b : bias) (A B : mat) (m n k : N) (C : omat) : omat :=
  fun i j => if (i <? m) && (j <? n) then spec_elem alpha beta b A B k i j (C i j) else C i j.

(* ---- packing (packing.rs) ---- *)
(* pack_a_block::<T, MR>(out, a, rows = rs..re, cols = ds..de): ceil((re-rs)/MR) row panels,
   each MR * (de-ds) elements in row-major order; rows past [re] are zero. *)
Definition pack_a (A : mat) (mr rs re ds de : N) : N -> K :=
  fun off =>
    let d := de - ds in
    let p := off / (mr * d) in
    let rem := off mod (mr * d) in
    let r := rem / d in
    let c := rem mod d in
    let row := rs + p * mr + r in
    if row <? re then A row (ds + c) else r0 K.
Definition pack_a_len (mr rs re ds de : N) : N := div_ceil (re - rs) mr * mr * (de - ds).

(* pack_b_block::<T, NR>(out, b, rows = ds..de, cols = cs..ce): ceil((ce-cs)/NR) column panels,
   each (de-ds) * NR elements in row-major order; columns past [ce] are zero. *)
Definition pack_b (B : mat) (nr ds de cs ce : N) : N -> K :=
  fun off =>
    let d := de - ds in
    let p := off / (d * nr) in
    let rem := off mod (d * nr) in
    let r := rem / nr in
    let c := rem mod nr in
    let col := cs + p * nr + c in
    if col <? ce then B (ds + r) col else r0 K.
Definition pack_b_len (nr ds de cs ce : N) : N := div_ceil (ce - cs) nr * (de - ds) * nr.

(* ---- the micro-kernel and bias epilogue as pointwise updates of a tile ---- *)
Definition in_tile (row0 col0 ur uc i j : N) : bool :=
  (row0 <=? i) && (i <? row0 + ur) && (col0 <=? j) && (j <? col0 + uc).

Definition pw_update (P : N -> N -> bool) (g : N -> N -> option K -> option K) (o : omat) : omat :=
  fun i j => if P i j then g i j (o i j) else o i j.

(* C = beta * C + alpha * acc; C is not read when beta == 0 (Kernel::kernel contract) *)
Definition acc_elem (beta alpha acc : K) (v : option K) : option K :=
  if reqb K beta (r0 K) then Some (rmul K alpha acc)
  else match v with
       | Some c => Some (radd K (rmul K beta c) (rmul K alpha acc))
       | None => None
       end.
Definition add_elem (b : K) (v : option K) : option K :=
  match v with Some c => Some (radd K c b) | None => None end.

(* Kernel::kernel on the output tile at (row0, col0) with used_rows x used_cols valid cells.
   [a i kk] / [b kk j] are the kernel's reads relative to the tile. *)
Definition kernel (row0 col0 ur uc : N) (a : N -> N -> K) (b : N -> N -> K) (d : N)
           (alpha beta : K) : omat -> omat :=
  pw_update (in_tile row0 col0 ur uc)
    (fun i j v =>
       acc_elem beta alpha
         (sum_from (fun kk => rmul K (a (i - row0) kk) (b kk (j - col0))) 0 (N.to_nat d)) v).

Definition add_bias (row0 col0 ur uc : N) (bs : bias) : omat -> omat :=
  match bs with
  | NoBias => fun o => o
  | _ => pw_update (in_tile row0 col0 ur uc) (fun i j v => add_elem (bias_at bs i j) v)
  end.

Record params := { p_mr : N; p_nr : N; p_mc : N; p_nc : N; p_kc : N }.

(* the facts about the block sizes that the driver relies on (row_block_size / col_block_size
   round up to a multiple of mr / nr; all sizes positive when m, n, k > 0) *)
Definition params_okb (P : params) : bool :=
  (0 <? p_mr P) && (0 <? p_nr P) && (0 <? p_mc P) && (0 <? p_nc P) && (0 <? p_kc P)
  && (p_mc P mod p_mr P =? 0) && (p_nc P mod p_nr P =? 0).

(* What the kernel reads for the LHS / RHS of one (block, depth block):
   [lhs ridx didx br i kk]: row-block index, depth-block index, row tile within the block,
   row within the tile, depth offset within the depth block.
   [rhs cidx didx bc kk j] likewise for the column block / column tile. *)
Definition lhs_reader := N -> N -> N -> N -> N -> K.
Definition rhs_reader := N -> N -> N -> N -> N -> K.

Section Driver.
Context (P : params) (m n k : N) (alpha beta : K) (bs : bias).
Let mr := p_mr P. Let nr := p_nr P. Let mc := p_mc P. Let nc := p_nc P. Let kc := p_kc P.

(* OutputTiles::tile *)
Definition used_rows (rt : N) : N := N.min (m - rt * mr) mr.
Definition used_cols (ct : N) : N := N.min (n - ct * nr) nr.

(* gemm_block: loop over column tiles, then row tiles; kernel, then bias on the first depth block *)
Definition gemm_block (ct0 ct1 rt0 rt1 : N) (ds de : N) (a : N -> N -> N -> K) (b : N -> N -> N -> K)
           (eb : K) (o : omat) : omat :=
  fold_left (fun o bc =>
    fold_left (fun o br =>
      let rt := rt0 + br in let ct := ct0 + bc in
      let o1 := kernel (rt * mr) (ct * nr) (used_rows rt) (used_cols ct) (a br) (b bc) (de - ds)
                       alpha eb o in
      if ds =? 0 then add_bias (rt * mr) (ct * nr) (used_rows rt) (used_cols ct) bs o1 else o1)
      (nrange 0 (rt1 - rt0)) o)
    (nrange 0 (ct1 - ct0)) o.

(* the three outer loops of gemm_impl *)
Definition gemm_main (lhs : lhs_reader) (rhs : rhs_reader) (o : omat) : omat :=
  fold_left (fun o cidx =>
    let cs := cidx * nc in let ce := N.min (cs + nc) n in
    fold_left (fun o didx =>
      let ds := didx * kc in let de := N.min (ds + kc) k in
      let eb := if ds =? 0 then beta else r1 K in
      fold_left (fun o ridx =>
        let rs := ridx * mc in let re := N.min (rs + mc) m in
        gemm_block (cs / nr) (div_ceil ce nr) (rs / mr) (div_ceil re mr) ds de
                   (lhs ridx didx) (rhs cidx didx) eb o)
        (nrange 0 (div_ceil m mc)) o)
      (nrange 0 (div_ceil k kc)) o)
    (nrange 0 (div_ceil n nc)) o.

(* ---- LHS / RHS providers ---- *)
Definition row_blk (ridx : N) : N * N := (ridx * mc, N.min (ridx * mc + mc) m).
Definition col_blk (cidx : N) : N * N := (cidx * nc, N.min (cidx * nc + nc) n).
Definition dep_blk (didx : N) : N * N := (didx * kc, N.min (didx * kc + kc) k).

(* LhsBlock::Packed from the thread-local packing buffer *)
Definition lhs_packed (A : mat) : lhs_reader :=
  fun ridx didx br i kk =>
    let '(rs, re) := row_blk ridx in let '(ds, de) := dep_blk didx in
    pack_a A mr rs re ds de (br * (mr * (de - ds)) + i * (de - ds) + kk).
(* LhsBlock::Unpacked (A has unit column stride; must_pack = false) *)
Definition lhs_unpacked (A : mat) : lhs_reader :=
  fun ridx didx br i kk =>
    let '(rs, _) := row_blk ridx in let '(ds, _) := dep_blk didx in
    A ((rs / mr + br) * mr + i) (ds + kk).
Definition rhs_packed (B : mat) : rhs_reader :=
  fun cidx didx bc kk j =>
    let '(cs, ce) := col_blk cidx in let '(ds, de) := dep_blk didx in
    pack_b B nr ds de cs ce (bc * (nr * (de - ds)) + kk * nr + j).

(* prepack.rs: the whole matrix packed once, one region per depth block (all rows / all
   columns), and PackedMatrixBase::block to find the panels of a block. *)
Definition prepack_a (A : mat) : N -> K :=
  fun off =>
    let bsz := div_ceil m mr * mr * kc in          (* layout.size() in elements *)
    let didx := off / bsz in
    let '(ds, de) := dep_blk didx in
    pack_a A mr 0 m ds de (off mod bsz).
Definition prepack_a_len : N := (k / kc) * (div_ceil m mr * mr * kc) + div_ceil m mr * mr * (k mod kc).
Definition prepack_b (B : mat) : N -> K :=
  fun off =>
    let bsz := div_ceil n nr * nr * kc in
    let didx := off / bsz in
    let '(ds, de) := dep_blk didx in
    pack_b B nr ds de 0 n (off mod bsz).
Definition prepack_b_len : N := (k / kc) * (div_ceil n nr * nr * kc) + div_ceil n nr * nr * (k mod kc).

(* PackedMatrixBase::block: panel stride is the tail stride in the last depth block *)
Definition pre_panel_stride (panel : N) (didx : N) : N :=
  if didx =? div_ceil k kc - 1 then (if k mod kc =? 0 then panel * kc else panel * (k mod kc))
  else panel * kc.
Definition lhs_prepacked (buf : N -> K) : lhs_reader :=
  fun ridx didx br i kk =>
    let '(rs, _) := row_blk ridx in let '(ds, de) := dep_blk didx in
    let ps := pre_panel_stride mr didx in
    buf (didx * (div_ceil m mr * mr * kc) + (rs / mr) * ps + br * ps + i * (de - ds) + kk).
Definition rhs_prepacked (buf : N -> K) : rhs_reader :=
  fun cidx didx bc kk j =>
    let '(cs, _) := col_blk cidx in
    let ps := pre_panel_stride nr didx in
    buf (didx * (div_ceil n nr * nr * kc) + (cs / nr) * ps + bc * ps + kk * nr + j).

End Driver.

(* ---- zero-depth path of gemm_impl (a.cols() == 0) ---- *)
Definition gemm_k0 (m n : N) (beta : K) (bs : bias) (o : omat) : omat :=
  pw_update (fun i j => (i <? m) && (j <? n))
    (fun i j v =>
       let base := if reqb K beta (r0 K) then Some (r0 K)
                   else match v with Some c => Some (rmul K c beta) | None => None end in
       match bs with NoBias => base | _ => add_elem (bias_at bs i j) base end) o.

(* ---- gemv (vector-matrix fast path; a.rows() == 1, both operands unpacked) ----
   out_data.par_chunks_mut(b_block_size): column chunks; inside, depth chunks of k_block_size
   with effective_beta; bias after all depth chunks. *)
Definition gemv_chunk (n k bb kb : N) (alpha beta : K) (bs : bias) (A B : mat) (cidx : N)
           (o : omat) : omat :=
  let cs := cidx * bb in let ce := N.min (cs + bb) n in
  let o1 :=
    fold_left (fun o didx =>
      let ds := didx * kb in let de := N.min (ds + kb) k in
      let eb := if didx =? 0 then beta else r1 K in
      pw_update (fun i j => (i =? 0) && (cs <=? j) && (j <? ce))
        (fun i j v => acc_elem eb alpha (dot A B 0 j ds (de - ds)) v) o)
      (nrange 0 (div_ceil k kb)) o in
  match bs with
  | NoBias => o1
  | ColBias f => pw_update (fun i j => (i =? 0) && (cs <=? j) && (j <? ce))
                   (fun i j v => add_elem (f 0) v) o1
  | RowBias f => pw_update (fun i j => (i =? 0) && (cs <=? j) && (j <? ce))
                   (fun i j v => add_elem (f j) v) o1
  end.
Definition gemv (n k bb kb : N) (alpha beta : K) (bs : bias) (A B : mat) (o : omat) : omat :=
  fold_left (fun o cidx => gemv_chunk n k bb kb alpha beta bs A B cidx o)
            (nrange 0 (div_ceil n bb)) o.

(* ---- gemm_impl: dispatch ---- *)
Inductive lhs_src := LUnpackedStrided | LUnpackedUnit | LPrepacked.
Inductive rhs_src := RUnpacked | RPrepacked | RVirtual.   (* RVirtual: Im2Col, packed on the fly *)

Definition gemm_impl (P : params) (bb kb : N) (m n k : N) (alpha beta : K) (bs : bias)
           (A B : mat) (la : lhs_src) (rb : rhs_src) (o : omat) : omat :=
  if (m =? 0) || (n =? 0) then o
  else if k =? 0 then gemm_k0 m n beta bs o
  else if (m =? 1) && (match la with LPrepacked => false | _ => true end)
                   && (match rb with RUnpacked => true | _ => false end)
       then gemv n k bb kb alpha beta bs A B o
  else
    let lhs := match la with
               | LUnpackedStrided => lhs_packed P m k A
               | LUnpackedUnit => lhs_unpacked P m k A
               | LPrepacked => lhs_prepacked P m k (prepack_a P m k A)
               end in
    let rhs := match rb with
               | RPrepacked => rhs_prepacked P n k (prepack_b P n k B)
               | _ => rhs_packed P n k B
               end in
    gemm_main P m n k alpha beta bs lhs rhs o.

End Model.

Arguments NoBias {K}.
Arguments ColBias {K} f.
Arguments RowBias {K} f.

(* ---- im2col (im2col.rs: Im2Col::pack_block's element rule; src/ops/conv/im2col.rs: the
        offset tables).  Offsets are i32 in the code; [Z] here. ---- *)
Record im2col := {
  im_img : Z -> Z;              (* image storage, by storage offset *)
  im_len : Z;                   (* storage length (> 0) *)
  im_row_chan : N -> Z; im_row_y : N -> Z; im_row_x : N -> Z;
  im_col_y : N -> Z; im_col_x : N -> Z;
  im_max_y : Z; im_max_x : Z
}.
(* element (r, c) of the virtual matrix, as pack_block gathers it *)
Definition im2col_get (im : im2col) (r c : N) : Z :=
  let y := (im_col_y im c + im_row_y im r)%Z in
  let x := (im_col_x im c + im_row_x im r)%Z in
  let off := (im_row_chan im r + y + x)%Z in
  let off := Z.min (Z.max off 0) (im_len im - 1) in
  let valid := ((0 <=? y) && (y <=? im_max_y im) && (0 <=? x) && (x <=? im_max_x im))%Z in
  if valid then im_img im off else 0%Z.

(* build_im2col for a contiguous [chans, h, w] image *)
Record conv := {
  cv_c : N; cv_h : N; cv_w : N; cv_kh : N; cv_kw : N;
  cv_pad_top : N; cv_pad_left : N; cv_pad_bottom : N; cv_pad_right : N;
  cv_sh : N; cv_sw : N; cv_dy : N; cv_dx : N
}.
Definition out_size (inp k pad0 pad1 s d : N) : N :=
  (* calc_output_size_and_padding, fixed padding, floor rounding *)
  (inp + pad0 + pad1 - (d * (k - 1) + 1)) / s + 1.
Definition cv_oh (c : conv) := out_size (cv_h c) (cv_kh c) (cv_pad_top c) (cv_pad_bottom c) (cv_sh c) (cv_dy c).
Definition cv_ow (c : conv) := out_size (cv_w c) (cv_kw c) (cv_pad_left c) (cv_pad_right c) (cv_sw c) (cv_dx c).
Definition cv_rows (c : conv) := cv_c c * cv_kh c * cv_kw c.
Definition cv_cols (c : conv) := cv_oh c * cv_ow c.

Definition build_im2col (c : conv) (img : Z -> Z) : im2col :=
  let w := Z.of_N (cv_w c) in let h := Z.of_N (cv_h c) in
  let khw := cv_kh c * cv_kw c in
  let n_rows := cv_rows c in
  {| im_img := img;
     im_len := (Z.of_N (cv_c c) * h * w)%Z;
     im_row_chan := fun r => if r <? n_rows then (Z.of_N (r / khw) * (h * w))%Z else 0%Z;
     im_row_y := fun r => if r <? n_rows
                          then (w * Z.of_N ((r mod khw) / cv_kw c) * Z.of_N (cv_dy c))%Z
                          else ((h - 1) * w + 1)%Z;
     im_row_x := fun r => if r <? n_rows
                          then (Z.of_N ((r mod khw) mod cv_kw c) * Z.of_N (cv_dx c))%Z
                          else ((w - 1) + 1)%Z;
     im_col_y := fun cidx =>
       ((Z.of_N (cidx / cv_ow c) * Z.of_N (cv_sh c) - Z.of_N (cv_pad_top c)) * w)%Z;
     im_col_x := fun cidx =>
       (Z.of_N (cidx mod cv_ow c) * Z.of_N (cv_sw c) - Z.of_N (cv_pad_left c))%Z;
     im_max_y := ((h - 1) * w)%Z;
     im_max_x := (w - 1)%Z |}.

(* the convolution patch element this must equal: zero-padded image *)
Definition padded_pixel (c : conv) (img : Z -> Z) (ch : N) (y x : Z) : Z :=
  if ((0 <=? y) && (y <? Z.of_N (cv_h c)) && (0 <=? x) && (x <? Z.of_N (cv_w c)))%Z
  then img ((Z.of_N ch * Z.of_N (cv_h c) + y) * Z.of_N (cv_w c) + x)%Z else 0%Z.
Definition conv_patch (c : conv) (img : Z -> Z) (r col : N) : Z :=
  let khw := cv_kh c * cv_kw c in
  let ch := r / khw in let ky := (r mod khw) / cv_kw c in let kx := (r mod khw) mod cv_kw c in
  let py := col / cv_ow c in let px := col mod cv_ow c in
  padded_pixel c img ch
    (Z.of_N py * Z.of_N (cv_sh c) - Z.of_N (cv_pad_top c) + Z.of_N ky * Z.of_N (cv_dy c))
    (Z.of_N px * Z.of_N (cv_sw c) - Z.of_N (cv_pad_left c) + Z.of_N kx * Z.of_N (cv_dx c)).
