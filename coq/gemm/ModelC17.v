(* C17 -- correspondence cases for the u8 x i8 -> i32 kernels.  Operand values come from seeded
   formulas shared with the harness (harness/gemm/src/bin/c17.rs), with palettes of extreme
   values. *)
From RV Require Import Prelude.
From Gemm Require Import GemmModel Int8.
Open Scope N_scope.

Definition hsh (s i j : N) : N := s + i * 7 + j * 13 + i * j * 5 + N.shiftr i 2 * 3 + N.shiftr j 3.
Definition pal (l : list Z) (h : N) : Z := nth (N.to_nat (h mod 5)) l 0%Z.

(* u8 operand / zero point *)
Definition genA (mode s i j : N) : Z :=
  match mode with
  | 0 => Z.of_N (N.land (hsh s i j) 255)
  | 1 => pal [0; 1; 127; 128; 255]%Z (hsh s i j)
  | 2 => Z.of_N (N.land (hsh s i j) 127)
  | _ => 255%Z
  end.
(* i8 operand / zero point *)
Definition genB (mode s i j : N) : Z :=
  match mode with
  | 0 => (Z.of_N (N.land (hsh s i j) 255) - 128)%Z
  | 1 => pal [-128; -1; 0; 1; 127]%Z (hsh s i j)
  | 2 => (Z.of_N (N.land (hsh s i j) 127) - 64)%Z
  | 3 => 127%Z
  | _ => (-128)%Z
  end.
(* zero points: mode 0 none, 1 one value for all rows/columns, 2 per row/column, 3 extremes *)
Definition genZA (mode s i : N) : Z :=
  match mode with 0 => 0%Z | 1 => genA 0 s 0 0 | 2 => genA 0 s i 1 | _ => genA 1 s i 2 end.
Definition genZB (mode s j : N) : Z :=
  match mode with 0 => 0%Z | 1 => genB 0 s 0 0 | 2 => genB 0 s j 1 | _ => genB 1 s j 2 end.
Definition genC (s i j : N) : Z := (Z.of_N (N.land (hsh s i j) 1023) - 512)%Z.

Record i8_case := {
  i_sat : bool;                 (* GemmExecutor::may_saturate() *)
  i_m : N; i_n : N; i_k : N;
  i_amode : N; i_bmode : N; i_sa : N; i_sb : N;
  i_zamode : N; i_zbmode : N; i_sza : N; i_szb : N;
  i_beta : Z; i_sc : N;
  i_vext : N;                   (* depth elements handled by vector (dot-product) code ... *)
  i_vcols : N;                  (* ... in the first i_vcols columns (the others use scalar code) *)
  i_out : option (list Z)       (* row-major output; None = panic / error *)
}.

Definition rowA (c : i8_case) (i : N) : list Z := map (fun t => genA (i_amode c) (i_sa c) i t) (nrange 0 (i_k c)).
Definition colB (c : i8_case) (j : N) : list Z := map (fun t => genB (i_bmode c) (i_sb c) t j) (nrange 0 (i_k c)).

Definition base (c : i8_case) (i j : N) : Z :=
  if (i_beta c =? 0)%Z then 0%Z else (i_beta c * genC (i_sc c) i j)%Z.

(* the specified output: beta*C + sum (a - za)(b - zb), in wrapping i32 *)
Definition spec_cell (c : i8_case) (cols : list (list Z)) (i : N) (arow : list Z) (j : N) (bcol : list Z) : Z :=
  wrap32 (base c i j + dot_zp (genZA (i_zamode c) (i_sza c) i) (genZB (i_zbmode c) (i_szb c) j) arow bcol).
(* what today's kernels compute (saturating pair sums when may_saturate) *)
Definition model_cell (c : i8_case) (i : N) (arow : list Z) (j : N) (bcol : list Z) : Z :=
  wrap32 (base c i j + kernel_elem (i_sat c) (if j <? i_vcols c then N.to_nat (i_vext c) else O)
                         (genZA (i_zamode c) (i_sza c) i) (genZB (i_zbmode c) (i_szb c) j) arow bcol).

Definition table (c : i8_case) (f : N -> list Z -> N -> list Z -> Z) : list Z :=
  let cols := map (fun j => (j, colB c j)) (nrange 0 (i_n c)) in
  flat_map (fun i => let arow := rowA c i in map (fun '(j, bcol) => f i arow j bcol) cols) (nrange 0 (i_m c)).

Fixpoint eqlz (a b : list Z) : bool :=
  match a, b with
  | [], [] => true
  | x :: a', y :: b' => (x =? y)%Z && eqlz a' b'
  | _, _ => false
  end.

(* inputs are in the reduced range the kernels document (u7 LHS or i7 RHS) *)
Definition reduced (c : i8_case) : bool := (i_amode c =? 2) || (i_bmode c =? 2).

Definition case := i8_case.
(* today's kernels, saturation included *)
Definition agree (c : case) : bool :=
  match i_out c with Some l => eqlz (table c (model_cell c)) l | None => false end.
(* the property: exact whenever the kernel cannot saturate or the inputs are in the reduced range;
   a saturating kernel on full-range inputs is outside the statement (but must not panic) *)
Definition prop_ok (c : case) : bool :=
  match i_out c with
  | Some l => if i_sat c && negb (reduced c) then true else eqlz (table c (spec_cell c [])) l
  | None => false
  end.
Definition always (c : case) : bool := true.
Definition show (c : case) := (table c (spec_cell c []), table c (model_cell c)).
