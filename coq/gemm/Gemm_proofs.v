(* C16 -- correctness of the blocked GEMM driver: gemm_main = gemm_spec for all sizes and all
   positive block parameters with mr | mc and nr | nc, over any commutative ring. *)
From RV Require Import Prelude.
From Gemm Require Import GemmModel Gemm_base.
From Coq Require Import Ring.
Open Scope N_scope.

Ltac case_in_tile E :=
  match goal with |- context [in_tile ?a ?b ?c ?d ?i ?j] => destruct (in_tile a b c d i j) eqn:E end.

(* ---- a tile index lies in the tile range of block [bidx] iff bidx = x / c ---- *)
Lemma tile_block r c total x bidx :
  0 < r -> 0 < c -> c mod r = 0 -> x < total ->
  ((bidx * c) / r <= x / r /\ x / r < div_ceil (N.min (bidx * c + c) total) r) <-> bidx = x / c.
Proof.
  intros Hr Hc Hdiv Hx.
  pose proof (div_mul_exact c r Hr Hdiv) as Ec.
  set (q := c / r) in *.
  assert (Hq : 0 < q) by nia.
  assert (Ebs : (bidx * c) / r = bidx * q).
  { symmetry. apply (N.div_unique _ _ _ 0); nia. }
  pose proof (div_tile_inv x r Hr) as [X1 X2].
  split.
  - intros [H1 H2]. rewrite Ebs in H1.
    apply div_ceil_gt in H2; [|exact Hr].
    symmetry. apply div_tile; [exact Hc| |].
    + nia.
    + assert (x / r * r < bidx * c + c) by lia.
      assert (x / r < (bidx + 1) * q) by nia.
      assert ((x / r + 1) * r <= (bidx + 1) * q * r) by (apply N.mul_le_mono_r; lia).
      nia.
  - intros ->. pose proof (div_tile_inv x c Hc) as [Y1 Y2]. split.
    + apply N.div_le_mono; lia.
    + apply div_ceil_lt; [exact Hr|]. lia.
Qed.

Section Main.
Variable K : ringops.
Hypothesis Kth : ring_theory (r0 K) (r1 K) (radd K) (rmul K) (rsub K) (ropp K) eq.
Hypothesis reqb_spec : forall x y, reqb K x y = true <-> x = y.
Hypothesis K_nontrivial : r1 K <> r0 K.
Add Ring Kring2 : Kth.

Declare Scope ring_scope.
Delimit Scope ring_scope with R.
Notation "x + y" := (radd K x y) : ring_scope.
Notation "x * y" := (rmul K x y) : ring_scope.

Variable P : params.
Let mr := p_mr P. Let nr := p_nr P. Let mc := p_mc P. Let nc := p_nc P. Let kc := p_kc P.
Hypothesis Pok : params_okb P = true.

Lemma Pok_facts :
  0 < mr /\ 0 < nr /\ 0 < mc /\ 0 < nc /\ 0 < kc /\ mc mod mr = 0 /\ nc mod nr = 0.
Proof.
  pose proof Pok as H0. unfold params_okb in H0. subst mr nr mc nc kc.
  repeat (apply andb_prop in H0; destruct H0 as [H0 ?]).
  repeat match goal with
         | H : (_ <? _) = true |- _ => apply N.ltb_lt in H
         | H : (_ =? _) = true |- _ => apply N.eqb_eq in H
         end.
  repeat split; assumption.
Qed.

Variables (m n k : N) (alpha beta : K) (bs : bias K).

Definition bias_f (i j : N) (v : option K) : option K :=
  match bs with NoBias => v | _ => add_elem K (bias_at K bs i j) v end.

Lemma in_tile_char rt ct i j :
  in_tile (rt * mr) (ct * nr) (used_rows P m rt) (used_cols P n ct) i j = true <->
  i < m /\ j < n /\ rt = i / mr /\ ct = j / nr.
Proof.
  destruct Pok_facts as (Hmr & Hnr & _).
  unfold in_tile, used_rows, used_cols. fold mr nr.
  rewrite !andb_true_iff, !N.leb_le, !N.ltb_lt.
  pose proof (div_tile_inv i mr Hmr) as [I1 I2]. pose proof (div_tile_inv j nr Hnr) as [J1 J2].
  split.
  - intros [[[H1 H2] H3] H4].
    assert (i < m) by lia. assert (j < n) by lia.
    repeat split; try assumption.
    + symmetry; apply div_tile; lia.
    + symmetry; apply div_tile; lia.
  - intros (Hi & Hj & -> & ->). lia.
Qed.

(* element function of one kernel call + bias epilogue *)
Definition tile_res (ds : N) (eb : K) (acc : K) (i j : N) (v : option K) : option K :=
  let v1 := acc_elem K eb alpha acc v in
  if ds =? 0 then bias_f i j v1 else v1.

Lemma PW_add_bias row0 col0 ur uc i j :
  PW K (add_bias K row0 col0 ur uc bs)
     (fun v => if in_tile row0 col0 ur uc i j then bias_f i j v else v) i j.
Proof.
  intros o. unfold add_bias, bias_f. destruct bs; [destruct (in_tile _ _ _ _ _ _); reflexivity| |];
    reflexivity.
Qed.

Definition blk_cond (ct0 ct1 rt0 rt1 i j : N) : bool :=
  (i <? m) && (j <? n) && (rt0 <=? i / mr) && (i / mr <? rt1) && (ct0 <=? j / nr) && (j / nr <? ct1).

Lemma blk_cond_true ct0 ct1 rt0 rt1 i j :
  blk_cond ct0 ct1 rt0 rt1 i j = true <->
  i < m /\ j < n /\ rt0 <= i / mr /\ i / mr < rt1 /\ ct0 <= j / nr /\ j / nr < ct1.
Proof.
  unfold blk_cond. rewrite !andb_true_iff, !N.ltb_lt, !N.leb_le. tauto.
Qed.

Section Block.
Variables (ct0 ct1 rt0 rt1 ds de : N) (a : N -> N -> N -> K) (b : N -> N -> N -> K) (eb : K).

Definition f_tile (i j : N) (br bc : N) (v : option K) : option K :=
  if in_tile ((rt0 + br) * mr) ((ct0 + bc) * nr) (used_rows P m (rt0 + br)) (used_cols P n (ct0 + bc)) i j
  then tile_res ds eb
         (sum_from K (fun kk => (a br (i - (rt0 + br) * mr) kk * b bc kk (j - (ct0 + bc) * nr))%R) 0
                   (N.to_nat (de - ds))) i j v
  else v.

Lemma gemm_block_fold o i j :
  gemm_block K P m n alpha bs ct0 ct1 rt0 rt1 ds de a b eb o i j =
  fold_left (fun v bc => fold_left (fun v br => f_tile i j br bc v) (nrange 0 (rt1 - rt0)) v)
            (nrange 0 (ct1 - ct0)) (o i j).
Proof.
  unfold gemm_block. fold mr nr.
  apply (PW_fold K (fun bc o => fold_left _ (nrange 0 (rt1 - rt0)) o)
                 (fun bc v => fold_left (fun v br => f_tile i j br bc v) (nrange 0 (rt1 - rt0)) v)).
  intros bc _.
  apply (PW_fold K _ (fun br v => f_tile i j br bc v)).
  intros br _ o'. unfold f_tile, tile_res.
  destruct (ds =? 0).
  - rewrite (PW_add_bias _ _ _ _ i j). unfold kernel, pw_update.
    destruct (in_tile _ _ _ _ i j); reflexivity.
  - unfold kernel, pw_update. destruct (in_tile _ _ _ _ i j); reflexivity.
Qed.

Lemma gemm_block_out o i j :
  blk_cond ct0 ct1 rt0 rt1 i j = false ->
  gemm_block K P m n alpha bs ct0 ct1 rt0 rt1 ds de a b eb o i j = o i j.
Proof.
  intros Hc. rewrite gemm_block_fold.
  apply (fold_all_id (fun bc v => fold_left (fun v br => f_tile i j br bc v) (nrange 0 (rt1 - rt0)) v)).
  intros bc Hbc v. apply (fold_all_id (fun br v => f_tile i j br bc v)).
  intros br Hbr v'. unfold f_tile.
  case_in_tile E; [|reflexivity].
  exfalso. apply in_tile_char in E. destruct E as (Hi & Hj & E1 & E2).
  apply in_nrange in Hbc. apply in_nrange in Hbr.
  assert (blk_cond ct0 ct1 rt0 rt1 i j = true); [|congruence].
  apply blk_cond_true. lia.
Qed.

Lemma gemm_block_in o i j :
  blk_cond ct0 ct1 rt0 rt1 i j = true ->
  gemm_block K P m n alpha bs ct0 ct1 rt0 rt1 ds de a b eb o i j =
  tile_res ds eb
    (sum_from K (fun kk => (a (i / mr - rt0) (i - (i / mr) * mr) kk *
                            b (j / nr - ct0) kk (j - (j / nr) * nr))%R) 0 (N.to_nat (de - ds)))
    i j (o i j).
Proof.
  intros Hc. apply blk_cond_true in Hc. destruct Hc as (Hi & Hj & R1 & R2 & C1 & C2).
  rewrite gemm_block_fold.
  set (br0 := i / mr - rt0). set (bc0 := j / nr - ct0).
  assert (Hin : in_tile ((rt0 + br0) * mr) ((ct0 + bc0) * nr) (used_rows P m (rt0 + br0))
                        (used_cols P n (ct0 + bc0)) i j = true).
  { apply in_tile_char. subst br0 bc0. repeat split; try assumption; lia. }
  rewrite (fold_unique (fun bc v => fold_left (fun v br => f_tile i j br bc v) (nrange 0 (rt1 - rt0)) v) bc0).
  - replace ((0 <=? bc0) && (bc0 <? ct1 - ct0)) with true
      by (symmetry; apply andb_true_iff; rewrite N.leb_le, N.ltb_lt; subst bc0; lia).
    rewrite (fold_unique (fun br v => f_tile i j br bc0 v) br0).
    + replace ((0 <=? br0) && (br0 <? rt1 - rt0)) with true
        by (symmetry; apply andb_true_iff; rewrite N.leb_le, N.ltb_lt; subst br0; lia).
      unfold f_tile. rewrite Hin.
      replace (rt0 + br0) with (i / mr) by (subst br0; lia).
      replace (ct0 + bc0) with (j / nr) by (subst bc0; lia). reflexivity.
    + intros br Hne v. unfold f_tile.
      case_in_tile E; [|reflexivity].
      exfalso. apply in_tile_char in E. destruct E as (_ & _ & E1 & _). subst br0. lia.
  - intros bc Hne v.
    apply (fold_all_id (fun br v => f_tile i j br bc v)). intros br _ v'. unfold f_tile.
    case_in_tile E; [|reflexivity].
    exfalso. apply in_tile_char in E. destruct E as (_ & _ & _ & E2). subst bc0. lia.
Qed.

End Block.

(* ---- what the kernel's reads must deliver (proved per provider in Gemm_readers.v) ---- *)
Definition lhs_ok (A : mat K) (lhs : lhs_reader K) : Prop :=
  forall ridx didx br ii kk,
    ridx < div_ceil m mc -> didx < div_ceil k kc ->
    ii < mr -> ((ridx * mc) / mr + br) * mr + ii < N.min (ridx * mc + mc) m ->
    kk < N.min (didx * kc + kc) k - didx * kc ->
    lhs ridx didx br ii kk = A (((ridx * mc) / mr + br) * mr + ii) (didx * kc + kk).
Definition rhs_ok (B : mat K) (rhs : rhs_reader K) : Prop :=
  forall cidx didx bc kk jj,
    cidx < div_ceil n nc -> didx < div_ceil k kc ->
    jj < nr -> ((cidx * nc) / nr + bc) * nr + jj < N.min (cidx * nc + nc) n ->
    kk < N.min (didx * kc + kc) k - didx * kc ->
    rhs cidx didx bc kk jj = B (didx * kc + kk) (((cidx * nc) / nr + bc) * nr + jj).

Section Loops.
Variables (A B : mat K) (lhs : lhs_reader K) (rhs : rhs_reader K).
Hypothesis Hl : lhs_ok A lhs.
Hypothesis Hr : rhs_ok B rhs.

Definition step_f (i j didx : N) (v : option K) : option K :=
  let ds := didx * kc in let de := N.min (ds + kc) k in
  tile_res ds (if ds =? 0 then beta else r1 K) (dot K A B i j ds (de - ds)) i j v.

Definition col_cond (cidx j : N) : bool :=
  ((cidx * nc) / nr <=? j / nr) && (j / nr <? div_ceil (N.min (cidx * nc + nc) n) nr).

Lemma row_loop cidx didx o i j :
  i < m -> j < n -> cidx < div_ceil n nc -> didx < div_ceil k kc ->
  fold_left (fun o ridx =>
      gemm_block K P m n alpha bs ((cidx * nc) / nr) (div_ceil (N.min (cidx * nc + nc) n) nr)
                 ((ridx * mc) / mr) (div_ceil (N.min (ridx * mc + mc) m) mr)
                 (didx * kc) (N.min (didx * kc + kc) k) (lhs ridx didx) (rhs cidx didx)
                 (if didx * kc =? 0 then beta else r1 K) o)
    (nrange 0 (div_ceil m mc)) o i j =
  if col_cond cidx j then step_f i j didx (o i j) else o i j.
Proof.
  intros Hi Hj Hcidx Hdidx.
  destruct Pok_facts as (Hmr & Hnr & Hmc & Hnc & Hkc & Dm & Dn).
  set (ct0 := (cidx * nc) / nr). set (ct1 := div_ceil (N.min (cidx * nc + nc) n) nr).
  set (ds := didx * kc). set (de := N.min (ds + kc) k).
  set (eb := if ds =? 0 then beta else r1 K).
  set (res := fun ridx v =>
     tile_res ds eb
       (sum_from K (fun kk => (lhs ridx didx (i / mr - (ridx * mc) / mr) (i - (i / mr) * mr) kk *
                               rhs cidx didx (j / nr - ct0) kk (j - (j / nr) * nr))%R) 0
                 (N.to_nat (de - ds))) i j v).
  set (f := fun ridx v =>
     if blk_cond ct0 ct1 ((ridx * mc) / mr) (div_ceil (N.min (ridx * mc + mc) m) mr) i j
     then res ridx v else v).
  rewrite (PW_fold K _ f i j).
  2:{ intros ridx _ o'. unfold f, res.
      destruct (blk_cond ct0 ct1 _ _ i j) eqn:E.
      - rewrite gemm_block_in by exact E. reflexivity.
      - rewrite gemm_block_out by exact E. reflexivity. }
  rewrite (fold_unique f (i / mc)).
  2:{ intros ridx Hne v. unfold f.
      destruct (blk_cond ct0 ct1 _ _ i j) eqn:E; [|reflexivity].
      exfalso. apply blk_cond_true in E. destruct E as (_ & _ & R1 & R2 & _).
      apply Hne. apply (proj1 (tile_block mr mc m i ridx Hmr Hmc Dm Hi)). split; assumption. }
  pose proof (div_tile_inv i mc Hmc) as [I1 I2].
  assert (Hridx : i / mc < div_ceil m mc) by (apply div_ceil_lt; [exact Hmc|lia]).
  rewrite (andb_range 0 (i / mc) (div_ceil m mc)) by (try apply N.le_0_l; exact Hridx).
  destruct (proj2 (tile_block mr mc m i (i / mc) Hmr Hmc Dm Hi) eq_refl) as [R1 R2].
  unfold f.
  assert (Ec : blk_cond ct0 ct1 ((i / mc * mc) / mr) (div_ceil (N.min (i / mc * mc + mc) m) mr) i j
               = col_cond cidx j).
  { unfold blk_cond, col_cond. fold ct0 ct1.
    replace (i <? m) with true by (symmetry; apply N.ltb_lt; exact Hi).
    replace (j <? n) with true by (symmetry; apply N.ltb_lt; exact Hj).
    replace ((i / mc * mc) / mr <=? i / mr) with true by (symmetry; apply N.leb_le; exact R1).
    replace (i / mr <? div_ceil (N.min (i / mc * mc + mc) m) mr) with true
      by (symmetry; apply N.ltb_lt; exact R2).
    reflexivity. }
  rewrite Ec. destruct (col_cond cidx j) eqn:Ecc; [|reflexivity].
  unfold res, step_f. fold ds de eb. f_equal.
  unfold dot. rewrite (sum_from_shift0 K (fun t => (A i t * B t j)%R) ds (N.to_nat (de - ds))).
  apply sum_from_ext. intros kk _ Hkk.
  pose proof (div_tile_inv i mr Hmr) as [M1 M2]. pose proof (div_tile_inv j nr Hnr) as [N1 N2].
  unfold col_cond in Ecc. apply andb_true_iff in Ecc. rewrite N.leb_le, N.ltb_lt in Ecc.
  destruct Ecc as [C1 C2]. fold ct0 ct1 in C1, C2.
  assert (Hjre : j < N.min (cidx * nc + nc) n).
  { pose proof (proj1 (tile_block nr nc n j cidx Hnr Hnc Dn Hj) (conj C1 C2)) as Ej.
    pose proof (div_tile_inv j nc Hnc) as [J1 J2]. rewrite <- Ej in J1, J2. lia. }
  assert (Hire : i < N.min (i / mc * mc + mc) m) by lia.
  rewrite Hl; try assumption; try lia.
  2:{ replace ((i / mc * mc) / mr + (i / mr - (i / mc * mc) / mr)) with (i / mr) by lia. lia. }
  rewrite Hr; try assumption; try lia.
  2:{ fold ct0. replace (ct0 + (j / nr - ct0)) with (j / nr) by lia. lia. }
  fold ct0.
  replace ((i / mc * mc) / mr + (i / mr - (i / mc * mc) / mr)) with (i / mr) by lia.
  replace (ct0 + (j / nr - ct0)) with (j / nr) by lia.
  replace (i / mr * mr + (i - i / mr * mr)) with i by lia.
  replace (j / nr * nr + (j - j / nr * nr)) with j by lia.
  fold ds. reflexivity.
Qed.

Definition depth_fold (i j : N) (v : option K) : option K :=
  fold_left (fun v didx => step_f i j didx v) (nrange 0 (div_ceil k kc)) v.

Lemma depth_loop cidx o i j :
  i < m -> j < n -> cidx < div_ceil n nc ->
  fold_left (fun o didx =>
    fold_left (fun o ridx =>
      gemm_block K P m n alpha bs ((cidx * nc) / nr) (div_ceil (N.min (cidx * nc + nc) n) nr)
                 ((ridx * mc) / mr) (div_ceil (N.min (ridx * mc + mc) m) mr)
                 (didx * kc) (N.min (didx * kc + kc) k) (lhs ridx didx) (rhs cidx didx)
                 (if didx * kc =? 0 then beta else r1 K) o)
      (nrange 0 (div_ceil m mc)) o)
    (nrange 0 (div_ceil k kc)) o i j =
  if col_cond cidx j then depth_fold i j (o i j) else o i j.
Proof.
  intros Hi Hj Hcidx.
  set (f := fun didx v => if col_cond cidx j then step_f i j didx v else v).
  rewrite (PW_fold K _ f i j).
  2:{ intros didx Hd o'. apply in_nrange in Hd. unfold f.
      rewrite row_loop by (try assumption; lia). reflexivity. }
  unfold f, depth_fold. destruct (col_cond cidx j).
  - reflexivity.
  - apply (fold_all_id (fun (didx : N) (v : option K) => v)). reflexivity.
Qed.

Lemma gemm_main_elem o i j :
  i < m -> j < n ->
  gemm_main K P m n k alpha beta bs lhs rhs o i j = depth_fold i j (o i j).
Proof.
  intros Hi Hj.
  destruct Pok_facts as (Hmr & Hnr & Hmc & Hnc & Hkc & Dm & Dn).
  unfold gemm_main. fold mr nr mc nc kc. cbv zeta.
  set (f := fun cidx v => if col_cond cidx j then depth_fold i j v else v).
  rewrite (PW_fold K _ f i j).
  2:{ intros cidx Hc o'. apply in_nrange in Hc. unfold f.
      rewrite depth_loop by (try assumption; lia). reflexivity. }
  rewrite (fold_unique f (j / nc)).
  2:{ intros cidx Hne v. unfold f. destruct (col_cond cidx j) eqn:E; [|reflexivity].
      exfalso. apply Hne. unfold col_cond in E. apply andb_true_iff in E.
      rewrite N.leb_le, N.ltb_lt in E.
      apply (proj1 (tile_block nr nc n j cidx Hnr Hnc Dn Hj)). exact E. }
  pose proof (div_tile_inv j nc Hnc) as [J1 J2].
  assert (Hcidx : j / nc < div_ceil n nc) by (apply div_ceil_lt; [exact Hnc|lia]).
  rewrite (andb_range 0 (j / nc) (div_ceil n nc)) by (try apply N.le_0_l; exact Hcidx).
  unfold f.
  destruct (proj2 (tile_block nr nc n j (j / nc) Hnr Hnc Dn Hj) eq_refl) as [C1 C2].
  unfold col_cond. rewrite (andb_range _ _ _ C1 C2). reflexivity.
Qed.

Lemma gemm_main_frame o i j :
  ~ (i < m /\ j < n) ->
  gemm_main K P m n k alpha beta bs lhs rhs o i j = o i j.
Proof.
  intros Hout. unfold gemm_main. cbv zeta.
  apply fold_frame. intros cidx o1 _.
  apply fold_frame. intros didx o2 _.
  apply fold_frame. intros ridx o3 _.
  apply gemm_block_out. unfold blk_cond.
  destruct (i <? m) eqn:E1; [|reflexivity]. destruct (j <? n) eqn:E2; [|reflexivity].
  apply N.ltb_lt in E1. apply N.ltb_lt in E2. tauto.
Qed.

(* ---- the depth loop: effective beta, bias on the first block, partial sums ---- *)
Lemma reqb_false x y : x <> y -> reqb K x y = false.
Proof.
  intros H. destruct (reqb K x y) eqn:E; [|reflexivity]. apply reqb_spec in E. contradiction.
Qed.

Lemma depth_steps i j v t :
  N.of_nat (S t) <= div_ceil k kc ->
  fold_left (fun v didx => step_f i j didx v) (nseq 0 (S t)) v =
  spec_elem K alpha beta bs A B (N.min (N.of_nat (S t) * kc) k) i j v.
Proof.
  destruct Pok_facts as (Hmr & Hnr & Hmc & Hnc & Hkc & Dm & Dn).
  induction t as [|t IH]; intros Ht.
  - cbn [nseq fold_left]. unfold step_f, tile_res, spec_elem.
    replace (0 * kc) with 0 by lia. rewrite !N.eqb_refl. replace (N.of_nat 1 * kc) with kc by lia.
    replace (0 + kc) with kc by lia. replace (N.min kc k - 0) with (N.min kc k) by lia.
    unfold acc_elem, bias_f. destruct (reqb K beta (r0 K)) eqn:Eb.
    + destruct bs; cbn [add_elem bias_at]; f_equal; ring.
    + destruct v as [c|]; [|destruct bs; reflexivity].
      destruct bs; cbn [add_elem bias_at]; f_equal; ring.
  - rewrite nseq_snoc, fold_left_app. rewrite IH by lia. cbn [fold_left].
    replace (0 + N.of_nat (S t)) with (N.of_nat (S t)) by lia.
    set (d := N.of_nat (S t)) in *.
    assert (Hd : d * kc < k) by (apply div_ceil_gt; [exact Hkc|lia]).
    replace (N.of_nat (S (S t))) with (d + 1) by lia.
    rewrite (N.min_l (d * kc) k) by lia.
    unfold step_f, tile_res.
    assert (Ez : (d * kc =? 0) = false) by (apply N.eqb_neq; subst d; nia).
    rewrite Ez.
    set (e := N.min ((d + 1) * kc) k).
    replace (N.min (d * kc + kc) k) with e by (subst e; f_equal; lia).
    assert (He : dot K A B i j 0 e =
                 (dot K A B i j 0 (d * kc) + dot K A B i j (d * kc) (e - d * kc))%R).
    { replace (dot K A B i j (d * kc) (e - d * kc)) with (dot K A B i j (0 + d * kc) (e - d * kc))
        by (f_equal; lia).
      rewrite <- (dot_split K Kth). f_equal. subst e. lia. }
    unfold spec_elem. rewrite He.
    unfold acc_elem. rewrite (reqb_false _ _ K_nontrivial).
    destruct (reqb K beta (r0 K)).
    + f_equal. ring.
    + destruct v as [c|]; [|reflexivity]. f_equal. ring.
Qed.

Lemma depth_fold_spec i j v :
  0 < k -> depth_fold i j v = spec_elem K alpha beta bs A B k i j v.
Proof.
  intros Hk. destruct Pok_facts as (Hmr & Hnr & Hmc & Hnc & Hkc & Dm & Dn).
  unfold depth_fold, nrange. rewrite N.sub_0_r.
  pose proof (div_ceil_pos k kc Hkc Hk) as Hnd.
  destruct (N.to_nat (div_ceil k kc)) as [|t] eqn:E; [lia|].
  rewrite depth_steps by lia.
  replace (N.of_nat (S t)) with (div_ceil k kc) by lia.
  rewrite N.min_r by (apply div_ceil_ge; exact Hkc). reflexivity.
Qed.

Theorem gemm_main_correct o i j :
  0 < k ->
  gemm_main K P m n k alpha beta bs lhs rhs o i j = gemm_spec K alpha beta bs A B m n k o i j.
Proof.
  intros Hk. unfold gemm_spec.
  destruct (i <? m) eqn:E1; [destruct (j <? n) eqn:E2|]; cbn [andb].
  - apply N.ltb_lt in E1. apply N.ltb_lt in E2.
    rewrite gemm_main_elem by assumption. apply depth_fold_spec. exact Hk.
  - apply gemm_main_frame. apply N.ltb_ge in E2. lia.
  - apply gemm_main_frame. apply N.ltb_ge in E1. lia.
Qed.

End Loops.

End Main.
