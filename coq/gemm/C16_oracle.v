(* C16 -- reflection of the executable oracle and the Z instance of the ring hypotheses. *)
From RV Require Import Prelude.
From Gemm Require Import GemmModel ModelC16.
From Coq Require Import Ring.
Open Scope N_scope.

Lemma ZK_ring : ring_theory (r0 ZK) (r1 ZK) (radd ZK) (rmul ZK) (rsub ZK) (ropp ZK) eq.
Proof. exact InitialRing.Zth. Qed.
Lemma ZK_eqb x y : reqb ZK x y = true <-> x = y.
Proof. apply Z.eqb_eq. Qed.
Lemma ZK_nontrivial : r1 ZK <> r0 ZK.
Proof. discriminate. Qed.

Lemma eq_cells_spec l r : eq_cells l r = true <-> l = map Some r.
Proof.
  revert r; induction l as [|x l IH]; intros [|y r]; cbn [eq_cells map].
  - tauto.
  - split; discriminate.
  - destruct x; split; discriminate.
  - destruct x as [x|].
    + rewrite andb_true_iff, Z.eqb_eq, IH. split.
      * intros [-> ->]. reflexivity.
      * intros H. injection H as -> ->. tauto.
    + split; discriminate.
Qed.

Lemma eq_listZ_spec a b : eq_listZ a b = true <-> a = b.
Proof.
  revert b; induction a as [|x a IH]; intros [|y b]; cbn [eq_listZ]; try (split; [discriminate|discriminate]).
  - tauto.
  - rewrite andb_true_iff, Z.eqb_eq, IH. split.
    + intros [-> ->]. reflexivity.
    + intros H. injection H as -> ->. tauto.
Qed.

(* a full observation passes the oracle iff it is, cell for cell, the specified output, and
   every cell is initialised *)
Lemma obs_full_spec g l :
  obs_matches_spec g (OFull l) = true <->
  all_cells (g_m g) (g_n g) (spec_out g) = map Some l.
Proof. apply eq_cells_spec. Qed.
