(* C16 -- every LHS/RHS provider of gemm_impl delivers the right matrix elements to the kernel:
   on-the-fly packing (pack_a_block / pack_b_block), the unpacked fast path, and prepacked
   buffers addressed through PackedMatrixBase::block. *)
From RV Require Import Prelude.
From Gemm Require Import GemmModel Gemm_base Gemm_proofs.
Open Scope N_scope.

Section Readers.
Variable K : ringops.
Variable P : params.
Let mr := p_mr P. Let nr := p_nr P. Let mc := p_mc P. Let nc := p_nc P. Let kc := p_kc P.
Hypothesis Pok : params_okb P = true.

Lemma pack_a_read (A : mat K) r rs re ds de p i kk :
  0 < r -> i < r -> kk < de - ds ->
  pack_a K A r rs re ds de (p * (r * (de - ds)) + i * (de - ds) + kk) =
  if rs + p * r + i <? re then A (rs + p * r + i) (ds + kk) else r0 K.
Proof.
  intros Hr Hi Hk. unfold pack_a.
  destruct (decode3 p r (de - ds) i kk ltac:(lia) Hi Hk) as (E1 & E2 & E3).
  rewrite E1, E2, E3. reflexivity.
Qed.

Lemma pack_b_read (B : mat K) r ds de cs ce p kk j :
  0 < r -> j < r -> kk < de - ds ->
  pack_b K B r ds de cs ce (p * (r * (de - ds)) + kk * r + j) =
  if cs + p * r + j <? ce then B (ds + kk) (cs + p * r + j) else r0 K.
Proof.
  intros Hr Hj Hk. unfold pack_b.
  replace (r * (de - ds)) with ((de - ds) * r) by lia.
  destruct (decode3 p (de - ds) r kk j Hr Hk Hj) as (E1 & E2 & E3).
  rewrite E1, E2, E3. reflexivity.
Qed.

Variables (m n k : N).

Lemma lhs_unpacked_ok (A : mat K) : lhs_ok K P m k A (lhs_unpacked K P m k A).
Proof. intros ridx didx br ii kk _ _ _ _ _. reflexivity. Qed.

Lemma lhs_packed_ok (A : mat K) : lhs_ok K P m k A (lhs_packed K P m k A).
Proof.
  destruct (Pok_facts P Pok) as (Hmr & Hnr & Hmc & Hnc & Hkc & Dm & Dn).
  intros ridx didx br ii kk Hri Hdi Hii Hrow Hkk.
  unfold lhs_packed, row_blk, dep_blk. fold mr mc kc.
  rewrite pack_a_read by assumption.
  assert (E : (ridx * mc) / mr * mr = ridx * mc).
  { apply div_mul_exact; [exact Hmr|]. apply mul_mod_exact; assumption. }
  replace (ridx * mc + br * mr + ii) with (((ridx * mc) / mr + br) * mr + ii) by lia.
  fold mr mc in Hrow.
  replace (_ <? _) with true by (symmetry; apply N.ltb_lt; exact Hrow). reflexivity.
Qed.

Lemma rhs_packed_ok (B : mat K) : rhs_ok K P n k B (rhs_packed K P n k B).
Proof.
  destruct (Pok_facts P Pok) as (Hmr & Hnr & Hmc & Hnc & Hkc & Dm & Dn).
  intros cidx didx bc kk jj Hci Hdi Hjj Hcol Hkk.
  unfold rhs_packed, col_blk, dep_blk. fold nr nc kc.
  rewrite pack_b_read by assumption.
  assert (E : (cidx * nc) / nr * nr = cidx * nc).
  { apply div_mul_exact; [exact Hnr|]. apply mul_mod_exact; assumption. }
  replace (cidx * nc + bc * nr + jj) with (((cidx * nc) / nr + bc) * nr + jj) by lia.
  fold nr nc in Hcol.
  replace (_ <? _) with true by (symmetry; apply N.ltb_lt; exact Hcol). reflexivity.
Qed.

(* ---- prepacked buffers ---- *)
(* depth extent of block [didx], and PackedMatrixBase::block's choice of panel stride *)
Lemma depth_len didx :
  didx < div_ceil k kc ->
  let d := N.min (didx * kc + kc) k - didx * kc in
  0 < d /\ d <= kc /\ forall panel, pre_panel_stride P k panel didx = panel * d.
Proof.
  destruct (Pok_facts P Pok) as (Hmr & Hnr & Hmc & Hnc & Hkc & Dm & Dn).
  intros Hd d. pose proof (div_ceil_gt k kc didx Hkc Hd) as H1.
  split; [subst d; lia|]. split; [subst d; lia|].
  intros panel. unfold pre_panel_stride. fold kc.
  destruct (didx =? div_ceil k kc - 1) eqn:E.
  - apply N.eqb_eq in E.
    pose proof (div_ceil_ge k kc Hkc) as G.
    assert (End : div_ceil k kc = didx + 1) by lia. rewrite End in G.
    assert (Hk : k <= didx * kc + kc) by lia.
    assert (Ed : d = k - didx * kc) by (subst d; lia).
    destruct (k mod kc =? 0) eqn:Em.
    + apply N.eqb_eq in Em. f_equal.
      pose proof (div_mul_exact k kc Hkc Em) as X.
      assert (k / kc = didx + 1); [|nia].
      assert (didx < k / kc) by nia. assert (k / kc <= didx + 1) by nia. lia.
    + apply N.eqb_neq in Em. f_equal. rewrite Ed.
      assert (Hne : k <> (didx + 1) * kc).
      { intros ->. apply Em. apply N.mod_mul. lia. }
      symmetry. apply (N.mod_unique _ _ didx); lia.
  - apply N.eqb_neq in E. f_equal.
    assert (didx + 1 < div_ceil k kc) by lia.
    pose proof (div_ceil_gt k kc (didx + 1) Hkc H). subst d. lia.
Qed.

Lemma lhs_prepacked_ok (A : mat K) :
  lhs_ok K P m k A (lhs_prepacked K P m k (prepack_a K P m k A)).
Proof.
  destruct (Pok_facts P Pok) as (Hmr & Hnr & Hmc & Hnc & Hkc & Dm & Dn).
  intros ridx didx br ii kk Hri Hdi Hii Hrow Hkk.
  unfold lhs_prepacked, row_blk, dep_blk. fold mr mc kc.
  fold mr mc in Hrow. fold kc in Hkk.
  destruct (depth_len didx Hdi) as (Hd0 & Hdk & Hps). fold kc in Hd0, Hdk.
  rewrite (Hps mr).
  set (d := N.min (didx * kc + kc) k - didx * kc) in *.
  set (p := (ridx * mc) / mr + br) in *.
  set (np := div_ceil m mr).
  assert (Hp : p < np).
  { apply div_ceil_lt; [exact Hmr|]. lia. }
  set (off2 := p * (mr * d) + ii * d + kk).
  replace (didx * (np * mr * kc) + (ridx * mc) / mr * (mr * d) + br * (mr * d) + ii * d + kk)
    with (didx * (np * mr * kc) + off2) by (subst off2 p; lia).
  assert (Hoff : off2 < np * mr * kc).
  { subst off2. assert ((p + 1) * (mr * d) <= np * (mr * d)) by (apply N.mul_le_mono_r; lia).
    assert (np * (mr * d) <= np * (mr * kc)) by (apply N.mul_le_mono_l, N.mul_le_mono_l; lia).
    nia. }
  unfold prepack_a. fold mr kc np.
  assert (E1 : (didx * (np * mr * kc) + off2) / (np * mr * kc) = didx).
  { symmetry. apply (N.div_unique _ _ _ off2); lia. }
  assert (E2 : (didx * (np * mr * kc) + off2) mod (np * mr * kc) = off2).
  { symmetry. apply (N.mod_unique _ _ didx); lia. }
  rewrite E1, E2. unfold dep_blk. fold kc. subst off2.
  rewrite pack_a_read by (try assumption; subst d; lia).
  replace (0 + p * mr + ii) with (p * mr + ii) by lia.
  replace (p * mr + ii <? m) with true by (symmetry; apply N.ltb_lt; lia).
  reflexivity.
Qed.

Lemma rhs_prepacked_ok (B : mat K) :
  rhs_ok K P n k B (rhs_prepacked K P n k (prepack_b K P n k B)).
Proof.
  destruct (Pok_facts P Pok) as (Hmr & Hnr & Hmc & Hnc & Hkc & Dm & Dn).
  intros cidx didx bc kk jj Hci Hdi Hjj Hcol Hkk.
  unfold rhs_prepacked, col_blk. fold nr nc kc.
  fold nr nc in Hcol. fold kc in Hkk.
  destruct (depth_len didx Hdi) as (Hd0 & Hdk & Hps). fold kc in Hd0, Hdk.
  rewrite (Hps nr).
  set (d := N.min (didx * kc + kc) k - didx * kc) in *.
  set (p := (cidx * nc) / nr + bc) in *.
  set (np := div_ceil n nr).
  assert (Hp : p < np).
  { apply div_ceil_lt; [exact Hnr|]. lia. }
  set (off2 := p * (nr * d) + kk * nr + jj).
  replace (didx * (np * nr * kc) + (cidx * nc) / nr * (nr * d) + bc * (nr * d) + kk * nr + jj)
    with (didx * (np * nr * kc) + off2) by (subst off2 p; lia).
  assert (Hoff : off2 < np * nr * kc).
  { subst off2. assert ((p + 1) * (nr * d) <= np * (nr * d)) by (apply N.mul_le_mono_r; lia).
    assert (np * (nr * d) <= np * (nr * kc)) by (apply N.mul_le_mono_l, N.mul_le_mono_l; lia).
    nia. }
  unfold prepack_b. fold nr kc np.
  assert (E1 : (didx * (np * nr * kc) + off2) / (np * nr * kc) = didx).
  { symmetry. apply (N.div_unique _ _ _ off2); lia. }
  assert (E2 : (didx * (np * nr * kc) + off2) mod (np * nr * kc) = off2).
  { symmetry. apply (N.mod_unique _ _ didx); lia. }
  rewrite E1, E2. unfold dep_blk. fold kc. subst off2.
  rewrite pack_b_read by (try assumption; subst d; lia).
  replace (0 + p * nr + jj) with (p * nr + jj) by lia.
  replace (p * nr + jj <? n) with true by (symmetry; apply N.ltb_lt; lia).
  reflexivity.
Qed.

End Readers.
