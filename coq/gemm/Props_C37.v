(* C37 -- Block-quantized matrix multiplication equals dequantize-then-multiply.
   Only statements; every proof is `exact <lemma>`. *)
From RV Require Import Prelude.
From Gemm Require Import GemmModel Gemm_base Gemm_proofs Gemm_readers BlockQuant BlockQuant_proofs
  ModelC16 C16_oracle ModelC37.
From Coq Require Import Ring.
Open Scope N_scope.

Definition is_comm_ring (K : ringops) : Prop :=
  ring_theory (r0 K) (r1 K) (radd K) (rmul K) (rsub K) (ropp K) eq /\
  (forall x y, reqb K x y = true <-> x = y) /\ r1 K <> r0 K.

(* (1) the scale that the SIMD loop of VecDotMatrix applies to element r of a column -- through
   vblocks of [epv] elements with 1, 2, 4 or 8 scales per vblock, or several vblocks per block, and
   the scalar tail with its own scale indexing -- is the scale of r's block, for every block size,
   vector width and block count *)
Theorem C37_scale_index_correct : forall (K : ringops) epv (m : bqmat K) r,
  vec_shape_ok epv (bq_bs m) -> r < bq_rows K m ->
  vec_scale_idx K epv m r = r / bq_bs m.
Proof. exact vec_scale_idx_correct. Qed.

(* (2) BlockQuantizedGemm in Float mode = dequantize, then ordinary GEMM (alpha = 1, beta = 0), for
   every shape incl. zero blocks; every output cell is written *)
Theorem C37_bq_gemm_eq_dequant_gemm : forall K, is_comm_ring K -> forall (w : Z -> K)
    epv (m : bqmat K) rows (lhs : mat K) i j,
  vec_shape_ok epv (bq_bs m) ->
  bq_gemm K w epv m rows lhs i j =
  gemm_spec K (r1 K) (r0 K) NoBias lhs (dequant K w m) rows (bq_cols m) (bq_rows K m) (fun _ _ => None) i j.
Proof. intros K (H1 & H2 & H3) w. exact (bq_gemm_eq_dequant_gemm K H1 H2 w). Qed.

(* (3) the GEMM path (GemmInputB::BlockQuantized): the dequantizing packer hands the kernel the
   dequantized matrix (padding columns contribute zero), so the blocked driver computes
   alpha * A * dequant(B) + beta * C + bias *)
Theorem C37_packer_delivers_dequantized : forall (K : ringops) (w : Z -> K) P, params_okb P = true ->
  forall n k (m : bqmat K), n = bq_cols m ->
  rhs_ok K P n k (dequant K w m) (rhs_bq K w P n k m).
Proof. intros K w P Pok n k m. exact (rhs_bq_ok K w P Pok n k m). Qed.

Theorem C37_gemm_path_eq_dequant_gemm : forall K, is_comm_ring K -> forall (w : Z -> K)
    P, params_okb P = true -> forall rows k (m : bqmat K) (alpha beta : K) bs (A : mat K) lhs (o : omat K) i j,
  lhs_ok K P rows k A lhs -> 0 < k ->
  gemm_main K P rows (bq_cols m) k alpha beta bs lhs (rhs_bq K w P (bq_cols m) k m) o i j =
  gemm_spec K alpha beta bs A (dequant K w m) rows (bq_cols m) k o i j.
Proof.
  intros K (H1 & H2 & H3) w P Pok rows k m alpha beta bs A lhs o i j.
  exact (bq_gemm_main_eq_dequant_gemm K H1 H2 H3 w P Pok rows k m alpha beta bs A lhs o i j).
Qed.

(* the shapes the code supports satisfy the hypothesis: block sizes 16..256 (powers of two) with
   32, 64 or 128 elements per vector *)
Example C37_shapes_ok :
  forallb (fun epv => forallb (fun bs =>
     (0 <? bs) && (0 <? epv) && (bs mod 2 =? 0) && (epv mod 8 =? 0) &&
     (((epv mod bs =? 0) && (8 mod (epv / bs) =? 0)) || (bs mod epv =? 0)))
     [16; 32; 64; 128; 256; 512]) [32; 64; 128] = true.
Proof. vm_compute. reflexivity. Qed.

(* non-vacuity: a 40-element column with 16-element blocks and 32-element vectors has a scalar
   tail (one vblock + half a vblock); model = specification, and the nibble order matters *)
Definition ex_c := {| q_mode := 0; q_epv := 32; q_P := {| p_mr := 1; p_nr := 1; p_mc := 1; p_nc := 1; p_kc := 1 |};
  q_rows := 2; q_cols := 3; q_nblocks := 3; q_bs := 16; q_alpha := 1%Z; q_beta := 0%Z; q_bias := 0;
  q_sl := 5; q_sq := 7; q_ss := 9; q_sc := 0; q_sbias := 0; q_zb := 0; q_out := None |}.
Example C37_nonvacuous :
  all_cells 2 3 (model4 ex_c) = all_cells 2 3 (spec4 ex_c) /\
  nth 0 (all_cells 2 3 (spec4 ex_c)) None <> Some 0%Z /\
  nibble ZK (bq_of ex_c) 0 0 <> nibble ZK (bq_of ex_c) 1 0.
Proof. vm_compute. repeat split; discriminate. Qed.
