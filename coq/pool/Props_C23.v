(* C23 -- The buffer pool hands out each buffer once with adequate capacity.
   Statements only.  [run m init ops] ranges over every finite sequence of the pool's atomic
   operations, i.e. over every interleaving of any number of threads (see PoolModel.v). *)
From RV Require Import Prelude.
From Pool Require Import PoolModel Pool_proofs.
From Coq Require Import Permutation.
Open Scope N_scope.

(* (1) a buffer served from the pool has at least the requested capacity, and the memory layout
       it was allocated with equals Layout::array::<T>(capacity) for the requested T *)
Theorem C23_reused_capacity_and_layout : forall m s esize align cap fc s' id c,
  step m s (OAlloc esize align cap fc) = (s', Reused id c) ->
  exists b, In b (pooled s) /\ b_id b = id /\
    c * esize = b_cap b * b_esize b /\ align = b_align b /\ c * esize <= isize_max /\ cap <= c.
Proof. exact reused_layout_valid. Qed.

(* (2) in every reachable state each buffer ever created is in exactly one place
       (pool, some holder, or freed): no double hand-out, no double free, nothing lost *)
Theorem C23_conservation : forall m ops,
  let s := fst (run m init ops) in
  Permutation (ids (pooled s ++ held s ++ freed s)) (nseq (next_id s)).
Proof. exact reachable_conserved. Qed.

Theorem C23_exclusive : forall m ops,
  let s := fst (run m init ops) in
  NoDup (ids (held s)) /\ forall b, In b (held s) -> ~ In (b_id b) (ids (pooled s)).
Proof. exact reachable_exclusive. Qed.

(* (3) a returned buffer is kept for reuse or freed, exactly one of the two, decided by min_size *)
Theorem C23_add_kept_or_freed : forall m s id s' kept,
  step m s (OAdd id) = (s', Added kept) ->
  exists b h', take_id id (held s) = Some (b, h') /\ held s' = h' /\
    (kept = true  -> m <= b_cap b * b_esize b /\ pooled s' = pooled s ++ [b] /\ freed s' = freed s) /\
    (kept = false -> b_cap b * b_esize b < m /\ pooled s' = pooled s /\ freed s' = b :: freed s).
Proof. exact add_kept_or_freed. Qed.

(* (4) best fit: the buffer handed out has the least capacity among the fitting ones, and the
       global allocator is used only when nothing in the pool fits (or below min_size) *)
Theorem C23_best_fit_minimal : forall m s esize align cap fc s' id c,
  step m s (OAlloc esize align cap fc) = (s', Reused id c) ->
  exists b, In b (pooled s) /\ b_id b = id /\ b_cap b = c /\ cap <= c /\
            layout_match b esize align = true /\ m <= cap * esize /\
            (forall b', In b' (pooled s) -> can_fit b' esize align cap = true -> c <= b_cap b') /\
            held s' = b :: held s /\ Permutation (pooled s) (b :: pooled s').
Proof. exact alloc_reused_ok. Qed.

Theorem C23_fresh_only_if_no_fit : forall m s esize align cap fc s' id c,
  step m s (OAlloc esize align cap fc) = (s', Fresh id c) ->
  c = fc /\ id = next_id s /\
  (cap * esize < m \/ forall b', In b' (pooled s) -> can_fit b' esize align cap = false).
Proof. exact alloc_fresh_only_if_no_fit. Qed.

(* ---- the same guarantees for ANY implementation whose observable trace is accepted by the
   abstract specification [spec_run] (this is what the correspondence check tests on every
   run: policy choices such as best fit or the min_size threshold are not constrained) ---- *)
From Pool Require Import Pool_spec_proofs.

Theorem C23_spec_conservation : forall l s', spec_run init l = Some s' ->
  Permutation (ids (pooled s' ++ held s' ++ freed s')) (nseq (next_id s')).
Proof. exact spec_trace_conserved. Qed.

Theorem C23_spec_exclusive : forall l s', spec_run init l = Some s' ->
  NoDup (ids (held s')) /\ (forall b, In b (held s') -> ~ In (b_id b) (ids (pooled s'))).
Proof. exact spec_trace_exclusive. Qed.

Theorem C23_spec_reused_ok : forall s esize align cap fc id c len' s',
  spec_step s (OAlloc esize align cap fc) (ObsAlloc (Some id) c len') = Some s' ->
  exists b, In b (pooled s) /\ b_id b = id /\ b_cap b = c /\ cap <= c /\
    c * esize = b_cap b * b_esize b /\ align = b_align b /\ c * esize <= isize_max /\
    held s' = b :: held s.
Proof. exact spec_reused_ok. Qed.

Theorem C23_spec_add_once : forall s id len' s',
  spec_step s (OAdd id) (ObsAdd len') = Some s' ->
  exists b h', take_id id (held s) = Some (b, h') /\ held s' = h' /\
    ((pooled s' = pooled s ++ [b] /\ freed s' = freed s) \/ (pooled s' = pooled s /\ freed s' = b :: freed s)).
Proof. exact spec_add_once. Qed.

(* the model of the code as it is today only produces accepted traces *)
Theorem C23_model_refines_spec : forall c,
  Forall (fun p => fresh_ok (fst p)) (c_ops c) -> agree c = true -> prop_ok c = true.
Proof. exact agree_implies_prop_ok. Qed.

(* non-vacuity: a run in which a buffer is reused by a different type of equal layout *)
Example C23_nonvacuous :
  snd (run 128 init [OAlloc 4 4 100 100; OAdd 0; OAlloc 4 4 50 50; OAlloc 4 4 10 10; OAdd 1])
  = [Fresh 0 100; Added true; Reused 0 100; Fresh 1 10; Added false].
Proof. vm_compute. reflexivity. Qed.
