From RV Require Import Prelude.
From Pool Require Import PoolModel.
From Coq Require Import Permutation.
Open Scope N_scope.

Definition all (s : state) : list buf := pooled s ++ held s ++ freed s.
Definition ids (l : list buf) : list N := map b_id l.
Definition nseq (n : N) : list N := map N.of_nat (seq 0 (N.to_nat n)).

(* ---------------------------------------------------------------- helpers *)
Lemma take_id_spec id l b l' : take_id id l = Some (b, l') ->
  Permutation l (b :: l') /\ b_id b = id /\ In b l.
Proof.
  revert b l'; induction l as [|x r IH]; intros b l' H; cbn [take_id] in H; [discriminate|].
  destruct (b_id x =? id) eqn:E.
  - inversion H; subst. apply N.eqb_eq in E. repeat split; auto. left; reflexivity.
  - destruct (take_id id r) as [[y r']|] eqn:T; [|discriminate].
    inversion H; subst. destruct (IH _ _ eq_refl) as (P & I & J).
    repeat split; auto.
    + rewrite P. apply perm_swap.
    + right; exact J.
Qed.

Lemma remove_nth_perm {A} (l : list A) i b : nth_error l i = Some b ->
  Permutation l (b :: remove_nth i l).
Proof.
  revert i; induction l as [|x r IH]; intros [|i] H; cbn in H; try discriminate.
  - inversion H; subst. reflexivity.
  - cbn [remove_nth]. rewrite (IH _ H) at 1. apply perm_swap.
Qed.

Lemma nseq_succ n : Permutation (nseq (n + 1)) (n :: nseq n).
Proof.
  unfold nseq. replace (N.to_nat (n + 1)) with (S (N.to_nat n)) by lia.
  rewrite seq_S, map_app. cbn [map plus]. rewrite N2Nat.id.
  rewrite Permutation_app_comm. reflexivity.
Qed.

Lemma nseq_NoDup n : NoDup (nseq n).
Proof.
  unfold nseq. apply FinFun.Injective_map_NoDup; [|apply seq_NoDup].
  intros a b H. lia.
Qed.

(* ------------------------------------------------------------- best fit *)
(* accumulator invariant of the fold *)
Definition acc_ok (bs : list buf) (esize align cap : N) (best : option (nat * N)) : Prop :=
  match best with
  | None => True
  | Some (i, sz) => exists b, nth_error bs i = Some b /\ b_cap b = sz /\ can_fit b esize align cap = true
  end.

Definition acc_min (seen : list buf) (esize align cap : N) (best : option (nat * N)) : Prop :=
  forall b', In b' seen -> can_fit b' esize align cap = true ->
    match best with Some (_, sz) => sz <= b_cap b' | None => False end.

Lemma best_fit_from_spec : forall rest pre esize align cap best,
  acc_ok (pre ++ rest) esize align cap best ->
  acc_min pre esize align cap best ->
  let r := best_fit_from rest (length pre) esize align cap best in
  acc_ok (pre ++ rest) esize align cap r /\ acc_min (pre ++ rest) esize align cap r.
Proof.
  induction rest as [|b r IH]; intros pre esize align cap best Hok Hmin.
  - cbn [best_fit_from]. rewrite app_nil_r in *. split; assumption.
  - cbn [best_fit_from].
    replace (pre ++ b :: r) with ((pre ++ [b]) ++ r) in * by (rewrite <- app_assoc; reflexivity).
    replace (S (length pre)) with (length (pre ++ [b])) by (rewrite app_length; cbn; lia).
    apply IH.
    + destruct (can_fit b esize align cap) eqn:F; cbn [negb]; [|exact Hok].
      assert (Hnth : nth_error ((pre ++ [b]) ++ r) (length pre) = Some b).
      { rewrite <- app_assoc. rewrite nth_error_app2 by lia. rewrite Nat.sub_diag. reflexivity. }
      destruct best as [[bi bsz]|]; [destruct (bsz <=? b_cap b); [exact Hok|]|];
        cbn [acc_ok]; exists b; auto.
    + intros b' Hin Hfit. apply in_app_iff in Hin as [Hin|[Eb|[]]]; [|subst b'].
      * specialize (Hmin b' Hin Hfit).
        destruct (can_fit b esize align cap); cbn [negb]; [|exact Hmin].
        destruct best as [[bi bsz]|]; [|contradiction].
        destruct (bsz <=? b_cap b) eqn:E; [exact Hmin|]. apply N.leb_gt in E. lia.
      * rewrite Hfit. cbn [negb].
        destruct best as [[bi bsz]|]; [|lia].
        destruct (bsz <=? b_cap b) eqn:E; [apply N.leb_le in E; exact E|lia].
Qed.

Lemma best_fit_spec bs esize align cap i : best_fit bs esize align cap = Some i ->
  exists b, nth_error bs i = Some b /\ can_fit b esize align cap = true /\
            forall b', In b' bs -> can_fit b' esize align cap = true -> b_cap b <= b_cap b'.
Proof.
  unfold best_fit. intros H.
  destruct (best_fit_from_spec bs [] esize align cap None I) as [Hok Hmin].
  { intros b' []. }
  cbn [app length] in *.
  destruct (best_fit_from bs 0 esize align cap None) as [[j sz]|]; [|discriminate].
  cbn in H. inversion H; subst j.
  destruct Hok as (b & Hn & Hc & Hf). exists b. repeat split; auto.
  intros b' Hin Hfit. specialize (Hmin b' Hin Hfit). cbn in Hmin. lia.
Qed.

Lemma best_fit_none bs esize align cap : best_fit bs esize align cap = None ->
  forall b', In b' bs -> can_fit b' esize align cap = false.
Proof.
  unfold best_fit. intros H b' Hin.
  destruct (best_fit_from_spec bs [] esize align cap None I) as [_ Hmin].
  { intros ? []. }
  cbn [app length] in Hmin.
  destruct (best_fit_from bs 0 esize align cap None) as [[j sz]|]; [discriminate|].
  destruct (can_fit b' esize align cap) eqn:F; [|reflexivity].
  exfalso. exact (Hmin b' Hin F).
Qed.

(* layout_match means: reconstructing a Vec<T> from the buffer uses exactly the layout it
   was allocated with *)
Lemma layout_match_sound b esize align : layout_match b esize align = true ->
  b_cap b * esize = b_cap b * b_esize b /\ align = b_align b /\ b_cap b * esize <= isize_max.
Proof.
  unfold layout_match, layout_array, b_layout. cbn [fst snd].
  destruct (b_cap b * esize <=? isize_max - (align - 1)) eqn:E; [|discriminate].
  intros H. apply andb_true_iff in H as [H1 H2].
  apply N.eqb_eq in H1, H2. apply N.leb_le in E. repeat split; auto. lia.
Qed.

(* -------------------------------------------------------- one step *)
Definition conserved (s : state) : Prop := Permutation (ids (all s)) (nseq (next_id s)).

Lemma ids_app l1 l2 : ids (l1 ++ l2) = ids l1 ++ ids l2.
Proof. apply map_app. Qed.

Lemma conserved_init : conserved init.
Proof. unfold conserved, all, init, nseq. cbn. constructor. Qed.

Lemma fresh_conserved s esize align cap : conserved s -> conserved (fst (fresh s esize align cap)).
Proof.
  unfold conserved, fresh, all. cbv zeta. cbn [fst pooled held freed next_id]. intros H.
  rewrite nseq_succ. rewrite !ids_app. rewrite !ids_app in H. cbn [ids map b_id].
  rewrite <- H. symmetry. apply Permutation_cons_app. reflexivity.
Qed.

Lemma step_conserved m s o : conserved s -> conserved (fst (step m s o)).
Proof.
  intros H. destruct o as [esize align cap fc|esize align cap|id|id]; cbn [step].
  2: { apply fresh_conserved; exact H. }
  - destruct (cap * esize <? m); [apply fresh_conserved; exact H|].
    destruct (best_fit (pooled s) esize align cap) as [i|] eqn:B; [|apply fresh_conserved; exact H].
    destruct (nth_error (pooled s) i) as [b|] eqn:Nt; [|apply fresh_conserved; exact H].
    unfold conserved, all in *. cbn [fst pooled held freed next_id].
    rewrite <- H. rewrite !ids_app. cbn [ids map].
    rewrite (Permutation_map b_id (remove_nth_perm _ _ _ Nt)). cbn [map].
    fold (ids (remove_nth i (pooled s))). fold (ids (held s)).
    symmetry. apply Permutation_cons_app. reflexivity.
  - destruct (take_id id (held s)) as [[b h']|] eqn:T; [|exact H].
    destruct (take_id_spec _ _ _ _ T) as (P & _ & _).
    destruct (m <=? fst (b_layout b)); unfold conserved, all in *; cbn [fst pooled held freed next_id];
      rewrite <- H; rewrite !ids_app; rewrite (Permutation_map b_id P); cbn [ids map].
    + rewrite <- !app_assoc. apply Permutation_app_head. cbn [app].
      reflexivity.
    + apply Permutation_app_head. symmetry. apply Permutation_cons_app. reflexivity.
  - destruct (take_id id (held s)) as [[b h']|] eqn:T; [|exact H].
    destruct (take_id_spec _ _ _ _ T) as (P & _ & _).
    unfold conserved, all in *; cbn [fst pooled held freed next_id].
    rewrite <- H; rewrite !ids_app; rewrite (Permutation_map b_id P); cbn [ids map].
    apply Permutation_app_head. symmetry. apply Permutation_cons_app. reflexivity.
Qed.

Lemma run_conserved m : forall ops s, conserved s -> conserved (fst (run m s ops)).
Proof.
  induction ops as [|o r IH]; intros s H; [exact H|].
  cbn [run]. pose proof (step_conserved m s o H) as H1.
  destruct (step m s o) as [s1 x]. cbn [fst] in H1.
  specialize (IH s1 H1). destruct (run m s1 r) as [s2 xs]. exact IH.
Qed.

(* every reachable state: each buffer ever created is in exactly one place *)
Theorem reachable_conserved m ops : conserved (fst (run m init ops)).
Proof. apply run_conserved, conserved_init. Qed.

Theorem reachable_nodup m ops : NoDup (ids (all (fst (run m init ops)))).
Proof.
  eapply Permutation_NoDup; [symmetry; apply reachable_conserved|apply nseq_NoDup].
Qed.

Lemma NoDup_app_inv {A} (l1 l2 : list A) : NoDup (l1 ++ l2) ->
  NoDup l1 /\ NoDup l2 /\ forall x, In x l1 -> In x l2 -> False.
Proof.
  induction l1 as [|x r IH]; cbn [app]; intros H.
  - repeat split; [constructor|exact H|intros ? []].
  - inversion H as [|? ? Hn Hr]; subst. destruct (IH Hr) as (N1 & N2 & D).
    repeat split; [constructor; [|exact N1]|exact N2|].
    + intros Hin. apply Hn. apply in_app_iff. left; exact Hin.
    + intros y [<-|Hy] Hy2; [apply Hn; apply in_app_iff; right; exact Hy2|exact (D y Hy Hy2)].
Qed.

(* no buffer is with two holders, nor with a holder and in the pool *)
Corollary reachable_exclusive m ops :
  let s := fst (run m init ops) in
  NoDup (ids (held s)) /\ forall b, In b (held s) -> ~ In (b_id b) (ids (pooled s)).
Proof.
  cbn zeta. pose proof (reachable_nodup m ops) as H. unfold all in H.
  rewrite !ids_app in H. apply NoDup_app_inv in H as (_ & H2 & D).
  apply NoDup_app_inv in H2 as (Hh & _ & _). split; [exact Hh|].
  intros b Hb Hp. apply (D _ Hp). apply in_app_iff. left. apply in_map. exact Hb.
Qed.

(* ------------------------------------------------ what alloc hands out *)
Theorem alloc_reused_ok m s esize align cap fc s' id c :
  step m s (OAlloc esize align cap fc) = (s', Reused id c) ->
  exists b, In b (pooled s) /\ b_id b = id /\ b_cap b = c /\ cap <= c /\
            layout_match b esize align = true /\ m <= cap * esize /\
            (forall b', In b' (pooled s) -> can_fit b' esize align cap = true -> c <= b_cap b') /\
            held s' = b :: held s /\ Permutation (pooled s) (b :: pooled s').
Proof.
  cbn [step]. destruct (cap * esize <? m) eqn:Em; [unfold fresh; intros H; inversion H|].
  apply N.ltb_ge in Em.
  destruct (best_fit (pooled s) esize align cap) as [i|] eqn:B; [|unfold fresh; intros H; inversion H].
  destruct (best_fit_spec _ _ _ _ _ B) as (b & Hn & Hf & Hmin).
  rewrite Hn. intros H. inversion H; subst. clear H.
  unfold can_fit in Hf. apply andb_true_iff in Hf as [Hl Hc]. apply N.leb_le in Hc.
  exists b. repeat split; auto.
  - eapply nth_error_In; exact Hn.
  - apply remove_nth_perm. exact Hn.
Qed.

Theorem alloc_fresh_only_if_no_fit m s esize align cap fc s' id c :
  step m s (OAlloc esize align cap fc) = (s', Fresh id c) ->
  c = fc /\ id = next_id s /\
  (cap * esize < m \/ forall b', In b' (pooled s) -> can_fit b' esize align cap = false).
Proof.
  cbn [step]. destruct (cap * esize <? m) eqn:Em.
  - unfold fresh. intros H; inversion H; subst. apply N.ltb_lt in Em. auto.
  - destruct (best_fit (pooled s) esize align cap) as [i|] eqn:B.
    + destruct (best_fit_spec _ _ _ _ _ B) as (b & Hn & _). rewrite Hn. intros H; inversion H.
    + unfold fresh. intros H; inversion H; subst. repeat split; auto. right.
      apply best_fit_none. exact B.
Qed.

Theorem add_kept_or_freed m s id s' kept :
  step m s (OAdd id) = (s', Added kept) ->
  exists b h', take_id id (held s) = Some (b, h') /\ held s' = h' /\
    (kept = true  -> m <= b_cap b * b_esize b /\ pooled s' = pooled s ++ [b] /\ freed s' = freed s) /\
    (kept = false -> b_cap b * b_esize b < m /\ pooled s' = pooled s /\ freed s' = b :: freed s).
Proof.
  cbn [step]. destruct (take_id id (held s)) as [[b h']|] eqn:T; [|intros H; inversion H].
  unfold b_layout. cbn [fst].
  destruct (m <=? b_cap b * b_esize b) eqn:E; intros H; inversion H; subst; clear H;
    exists b, h'; repeat split; auto; try discriminate.
  - apply N.leb_le in E. exact E.
  - apply N.leb_gt in E. exact E.
Qed.

(* a reused buffer's allocation layout is exactly Layout::array::<T>(capacity) for the requested T *)
Corollary reused_layout_valid m s esize align cap fc s' id c :
  step m s (OAlloc esize align cap fc) = (s', Reused id c) ->
  exists b, In b (pooled s) /\ b_id b = id /\
    c * esize = b_cap b * b_esize b /\ align = b_align b /\ c * esize <= isize_max /\ cap <= c.
Proof.
  intros H. destruct (alloc_reused_ok _ _ _ _ _ _ _ _ _ H) as (b & Hin & Hid & Hc & Hle & Hl & _).
  destruct (layout_match_sound _ _ _ Hl) as (E1 & E2 & E3).
  exists b. subst c. repeat split; auto.
Qed.
