(* Model of src/buffer_pool.rs: Buffer, BufferPool::{alloc, add}.
   A buffer is identified by a ghost id; its allocation layout is
   Layout::array::<T0>(capacity) = (capacity * size_of T0, align_of T0).
   Every operation below is atomic in the implementation (the pool's mutex is held for
   the whole find+remove in `alloc` and for the push in `add`), so the executions of any
   number of threads are exactly the sequences of these operations. *)
From RV Require Import Prelude.
Open Scope N_scope.

Record buf := { b_id : N; b_cap : N; b_esize : N; b_align : N }.

Definition isize_max : N := 9223372036854775807.

(* Layout::array::<T>(n): Err on overflow of n * size_of T beyond isize::MAX (rounded to align) *)
Definition layout_array (esize align n : N) : option (N * N) :=
  if n * esize <=? isize_max - (align - 1) then Some (n * esize, align) else None.

Definition b_layout (b : buf) : N * N := (b_cap b * b_esize b, b_align b).

(* Buffer::layout_match::<T> *)
Definition layout_match (b : buf) (esize align : N) : bool :=
  match layout_array esize align (b_cap b) with
  | Some (sz, al) => (sz =? fst (b_layout b)) && (al =? snd (b_layout b))
  | None => false
  end.

(* Buffer::can_fit::<T>(capacity) *)
Definition can_fit (b : buf) (esize align cap : N) : bool :=
  layout_match b esize align && (cap <=? b_cap b).

(* the fold in BufferPool::alloc: index and capacity of the best fit so far *)
Fixpoint best_fit_from (bs : list buf) (idx : nat) (esize align cap : N) (best : option (nat * N))
  : option (nat * N) :=
  match bs with
  | [] => best
  | b :: r =>
      let best' :=
        if negb (can_fit b esize align cap) then best
        else match best with
             | Some (bi, bsz) => if bsz <=? b_cap b then Some (bi, bsz) else Some (idx, b_cap b)
             | None => Some (idx, b_cap b)
             end in
      best_fit_from r (S idx) esize align cap best'
  end.
Definition best_fit (bs : list buf) (esize align cap : N) : option nat :=
  option_map fst (best_fit_from bs 0 esize align cap None).

Fixpoint remove_nth {A} (n : nat) (l : list A) : list A :=
  match l, n with
  | [], _ => []
  | _ :: r, O => r
  | x :: r, S k => x :: remove_nth k r
  end.

(* ghost state: where every buffer ever created currently is *)
Record state := { pooled : list buf; held : list buf; freed : list buf; next_id : N }.
Definition init : state := {| pooled := []; held := []; freed := []; next_id := 0 |}.

Inductive op :=
| OAlloc (esize align cap fresh_cap : N)   (* alloc::<T>(cap); fresh_cap = capacity the global
                                              allocator returns if the pool is bypassed/misses *)
| OFresh (esize align cap : N)             (* holder obtains a Vec straight from the global allocator
                                              (not through the pool), e.g. a Vec<()> it built itself *)
| OAdd (id : N)                            (* holder returns buffer [id] to the pool *)
| ODrop (id : N).                          (* holder frees buffer [id] itself *)

Inductive out :=
| Fresh (id cap : N)       (* served by the global allocator *)
| Reused (id cap : N)      (* served from the pool *)
| Added (kept : bool)      (* add: pooled (true) or freed because below min_size (false) *)
| Dropped
| NotHeld.                 (* add/drop of a buffer the caller does not hold: impossible in Rust
                              (ownership); the model makes it a distinct, state-preserving outcome *)

Fixpoint take_id (id : N) (l : list buf) : option (buf * list buf) :=
  match l with
  | [] => None
  | b :: r => if b_id b =? id then Some (b, r)
              else match take_id id r with Some (x, r') => Some (x, b :: r') | None => None end
  end.

Definition fresh (s : state) (esize align cap : N) : state * out :=
  let b := {| b_id := next_id s; b_cap := cap; b_esize := esize; b_align := align |} in
  ({| pooled := pooled s; held := b :: held s; freed := freed s; next_id := next_id s + 1 |},
   Fresh (next_id s) cap).

Definition step (min_size : N) (s : state) (o : op) : state * out :=
  match o with
  | OAlloc esize align cap fresh_cap =>
      if cap * esize <? min_size then fresh s esize align fresh_cap
      else match best_fit (pooled s) esize align cap with
           | Some i =>
               match nth_error (pooled s) i with
               | Some b => ({| pooled := remove_nth i (pooled s); held := b :: held s;
                               freed := freed s; next_id := next_id s |}, Reused (b_id b) (b_cap b))
               | None => fresh s esize align fresh_cap  (* unreachable: best_fit_in_range *)
               end
           | None => fresh s esize align fresh_cap
           end
  | OFresh esize align cap => fresh s esize align cap
  | OAdd id =>
      match take_id id (held s) with
      | Some (b, h') =>
          if min_size <=? fst (b_layout b)
          then ({| pooled := pooled s ++ [b]; held := h'; freed := freed s; next_id := next_id s |}, Added true)
          else ({| pooled := pooled s; held := h'; freed := b :: freed s; next_id := next_id s |}, Added false)
      | None => (s, NotHeld)
      end
  | ODrop id =>
      match take_id id (held s) with
      | Some (b, h') => ({| pooled := pooled s; held := h'; freed := b :: freed s; next_id := next_id s |}, Dropped)
      | None => (s, NotHeld)
      end
  end.

Fixpoint run (min_size : N) (s : state) (ops : list op) : state * list out :=
  match ops with
  | [] => (s, [])
  | o :: r => let '(s1, x) := step min_size s o in
              let '(s2, xs) := run min_size s1 r in (s2, x :: xs)
  end.

(* ---- correspondence case ----
   The harness replays a sequence of operations on a real BufferPool and records, per operation,
   what it observed: for alloc (was the returned pointer one of the buffers sitting in the pool =
   Some id / a new allocation = None, the Vec's capacity), and pool.len() afterwards. *)
Inductive obs :=
| ObsAlloc (reused : option N) (cap : N) (len_after : N)
| ObsAdd (len_after : N)
| ObsDrop (len_after : N)
| ObsPanic.   (* the pool operation panicked; the sequence ends there. alloc/add are infallible
                 by contract, so this disagrees with the model and fails the property oracle *)

Record case := { c_min_size : N; c_ops : list (op * obs) }.

Definition out_obs_agree (s_after : state) (x : out) (o : obs) : bool :=
  let len := N.of_nat (length (pooled s_after)) in
  match x, o with
  | Fresh _ cap, ObsAlloc None cap' len' => (cap =? cap') && (len =? len')
  | Reused id cap, ObsAlloc (Some id') cap' len' => (id =? id') && (cap =? cap') && (len =? len')
  | Added _, ObsAdd len' => len =? len'
  | Dropped, ObsDrop len' => len =? len'
  | _, _ => false
  end.

Fixpoint agree_from (m : N) (s : state) (l : list (op * obs)) : bool :=
  match l with
  | [] => true
  | (o, ob) :: r => let '(s1, x) := step m s o in out_obs_agree s1 x ob && agree_from m s1 r
  end.
Definition agree (c : case) : bool := agree_from (c_min_size c) init (c_ops c).

(* ---- the abstract specification (what the property demands, and nothing about policy) ----
   [spec_step] consumes the implementation's own answer and checks that it is an allowed
   transition: an alloc served from the pool must hand out a buffer that is in the pool (hence
   held by nobody) with adequate capacity and a layout valid for T; a new allocation must have
   adequate capacity and leave the pool alone; add must either keep the buffer (pool grows by
   one) or free it (pool unchanged).  WHICH fitting buffer is chosen, and the min_size policy,
   are deliberately not part of the specification.  The implementation's trace being accepted
   ([prop_ok]) is the property oracle; Pool_spec_proofs.v proves every accepted trace safe and
   every trace of the deterministic model above accepted. *)
Definition spec_step (s : state) (o : op) (ob : obs) : option state :=
  let len := N.of_nat (length (pooled s)) in
  match o, ob with
  | OAlloc esize align cap _, ObsAlloc None cap' len' =>
      if (cap <=? cap') && (len' =? len)
      then Some {| pooled := pooled s;
                   held := {| b_id := next_id s; b_cap := cap'; b_esize := esize; b_align := align |} :: held s;
                   freed := freed s; next_id := next_id s + 1 |}
      else None
  | OFresh esize align cap, ObsAlloc None cap' len' =>
      if (cap <=? cap') && (len' =? len)
      then Some {| pooled := pooled s;
                   held := {| b_id := next_id s; b_cap := cap'; b_esize := esize; b_align := align |} :: held s;
                   freed := freed s; next_id := next_id s + 1 |}
      else None
  | OAlloc esize align cap _, ObsAlloc (Some id) cap' len' =>
      match take_id id (pooled s) with
      | Some (b, p') =>
          if (cap <=? cap') && (cap' =? b_cap b) && layout_match b esize align
             && (len' =? N.of_nat (length p'))
          then Some {| pooled := p'; held := b :: held s; freed := freed s; next_id := next_id s |}
          else None
      | None => None
      end
  | OAdd id, ObsAdd len' =>
      match take_id id (held s) with
      | Some (b, h') =>
          if len' =? len + 1
          then Some {| pooled := pooled s ++ [b]; held := h'; freed := freed s; next_id := next_id s |}
          else if len' =? len
               then Some {| pooled := pooled s; held := h'; freed := b :: freed s; next_id := next_id s |}
               else None
      | None => None
      end
  | ODrop id, ObsDrop len' =>
      match take_id id (held s) with
      | Some (b, h') => if len' =? len
                        then Some {| pooled := pooled s; held := h'; freed := b :: freed s; next_id := next_id s |}
                        else None
      | None => None
      end
  | _, _ => None
  end.

Fixpoint spec_run (s : state) (l : list (op * obs)) : option state :=
  match l with
  | [] => Some s
  | (o, ob) :: r => match spec_step s o ob with Some s1 => spec_run s1 r | None => None end
  end.
Definition prop_ok (c : case) : bool :=
  match spec_run init (c_ops c) with Some _ => true | None => false end.

Definition show (c : case) := snd (run (c_min_size c) init (map fst (c_ops c))).
