(* Every trace accepted by the abstract specification is safe, and the deterministic model of
   the current code only produces accepted traces. *)
From RV Require Import Prelude.
From Pool Require Import PoolModel Pool_proofs.
From Coq Require Import Permutation.
Open Scope N_scope.

Lemma spec_step_conserved s o ob s' : conserved s -> spec_step s o ob = Some s' -> conserved s'.
Proof.
  intros H. destruct o as [esize align cap fc|esize align cap|id|id], ob as [[rid|] c len'|len'|len'|]; cbn [spec_step]; try discriminate.
  3: { destruct ((cap <=? c) && (len' =? N.of_nat (length (pooled s)))); [|discriminate].
       intros E; inversion E; subst; clear E.
       unfold conserved, all in *. cbn [pooled held freed next_id].
       rewrite nseq_succ. rewrite !ids_app. rewrite !ids_app in H. cbn [ids map b_id].
       rewrite <- H. symmetry. apply Permutation_cons_app. reflexivity. }
  - destruct (take_id rid (pooled s)) as [[b p']|] eqn:T; [|discriminate].
    destruct ((cap <=? c) && (c =? b_cap b) && layout_match b esize align && (len' =? N.of_nat (length p'))); [|discriminate].
    intros E; inversion E; subst; clear E.
    destruct (take_id_spec _ _ _ _ T) as (P & _ & _).
    unfold conserved, all in *. cbn [pooled held freed next_id]. rewrite <- H.
    rewrite !ids_app. rewrite (Permutation_map b_id P). cbn [ids map].
    symmetry. apply Permutation_cons_app. reflexivity.
  - destruct ((cap <=? c) && (len' =? N.of_nat (length (pooled s)))); [|discriminate].
    intros E; inversion E; subst; clear E.
    unfold conserved, all in *. cbn [pooled held freed next_id].
    rewrite nseq_succ. rewrite !ids_app. rewrite !ids_app in H. cbn [ids map b_id].
    rewrite <- H. symmetry. apply Permutation_cons_app. reflexivity.
  - destruct (take_id id (held s)) as [[b h']|] eqn:T; [|discriminate].
    destruct (take_id_spec _ _ _ _ T) as (P & _ & _).
    destruct (len' =? N.of_nat (length (pooled s)) + 1).
    + intros E; inversion E; subst; clear E.
      unfold conserved, all in *; cbn [pooled held freed next_id].
      rewrite <- H; rewrite !ids_app; rewrite (Permutation_map b_id P); cbn [ids map].
      rewrite <- !app_assoc. apply Permutation_app_head. reflexivity.
    + destruct (len' =? N.of_nat (length (pooled s))); [|discriminate].
      intros E; inversion E; subst; clear E.
      unfold conserved, all in *; cbn [pooled held freed next_id].
      rewrite <- H; rewrite !ids_app; rewrite (Permutation_map b_id P); cbn [ids map].
      apply Permutation_app_head. symmetry. apply Permutation_cons_app. reflexivity.
  - destruct (take_id id (held s)) as [[b h']|] eqn:T; [|discriminate].
    destruct (take_id_spec _ _ _ _ T) as (P & _ & _).
    destruct (len' =? N.of_nat (length (pooled s))); [|discriminate].
    intros E; inversion E; subst; clear E.
    unfold conserved, all in *; cbn [pooled held freed next_id].
    rewrite <- H; rewrite !ids_app; rewrite (Permutation_map b_id P); cbn [ids map].
    apply Permutation_app_head. symmetry. apply Permutation_cons_app. reflexivity.
Qed.

Lemma spec_run_conserved : forall l s s', conserved s -> spec_run s l = Some s' -> conserved s'.
Proof.
  induction l as [|[o ob] r IH]; intros s s' H E; cbn [spec_run] in E.
  - inversion E; subst; exact H.
  - destruct (spec_step s o ob) as [s1|] eqn:S; [|discriminate].
    eapply IH; [eapply spec_step_conserved; eassumption|exact E].
Qed.

(* after any accepted trace (and after any prefix of it, since prefixes of accepted traces are
   accepted): each buffer ever created is in exactly one of pool / holders / freed *)
Theorem spec_trace_conserved l s' : spec_run init l = Some s' ->
  Permutation (ids (pooled s' ++ held s' ++ freed s')) (nseq (next_id s')).
Proof. intros E. exact (spec_run_conserved _ _ _ conserved_init E). Qed.

Theorem spec_trace_exclusive l s' : spec_run init l = Some s' ->
  NoDup (ids (held s')) /\ (forall b, In b (held s') -> ~ In (b_id b) (ids (pooled s'))).
Proof.
  intros E. pose proof (spec_trace_conserved _ _ E) as C.
  assert (H : NoDup (ids (pooled s' ++ held s' ++ freed s'))).
  { eapply Permutation_NoDup; [symmetry; exact C|apply nseq_NoDup]. }
  rewrite !ids_app in H. apply NoDup_app_inv in H as (_ & H2 & D).
  apply NoDup_app_inv in H2 as (Hh & _ & _). split; [exact Hh|].
  intros b Hb Hp. apply (D _ Hp). apply in_app_iff. left. apply in_map. exact Hb.
Qed.

Lemma spec_run_app : forall l1 l2 s s', spec_run s (l1 ++ l2) = Some s' ->
  exists s1, spec_run s l1 = Some s1 /\ spec_run s1 l2 = Some s'.
Proof.
  induction l1 as [|[o ob] r IH]; intros l2 s s' E; cbn [app spec_run] in *.
  - exists s. split; [reflexivity|exact E].
  - destruct (spec_step s o ob) as [s1|]; [|discriminate]. apply IH. exact E.
Qed.

(* what an accepted "served from the pool" answer guarantees: the buffer was in the pool --
   so, by exclusivity, with no holder -- has the capacity reported, at least the capacity
   requested, and was allocated with exactly Layout::array::<T>(capacity) *)
Theorem spec_reused_ok s esize align cap fc id c len' s' :
  spec_step s (OAlloc esize align cap fc) (ObsAlloc (Some id) c len') = Some s' ->
  exists b, In b (pooled s) /\ b_id b = id /\ b_cap b = c /\ cap <= c /\
    c * esize = b_cap b * b_esize b /\ align = b_align b /\ c * esize <= isize_max /\
    held s' = b :: held s.
Proof.
  cbn [spec_step]. destruct (take_id id (pooled s)) as [[b p']|] eqn:T; [|discriminate].
  destruct (take_id_spec _ _ _ _ T) as (_ & Hid & Hin).
  destruct ((cap <=? c) && (c =? b_cap b) && layout_match b esize align && (len' =? N.of_nat (length p'))) eqn:G; [|discriminate].
  intros E; inversion E; subst; clear E.
  apply andb_true_iff in G as [G _]. apply andb_true_iff in G as [G L]. apply andb_true_iff in G as [G1 G2].
  apply N.leb_le in G1. apply N.eqb_eq in G2. subst c.
  destruct (layout_match_sound _ _ _ L) as (E1 & E2 & E3).
  exists b. repeat split; auto.
Qed.

Theorem spec_fresh_ok s esize align cap fc c len' s' :
  spec_step s (OAlloc esize align cap fc) (ObsAlloc None c len') = Some s' ->
  cap <= c /\ pooled s' = pooled s.
Proof.
  cbn [spec_step]. destruct ((cap <=? c) && (len' =? N.of_nat (length (pooled s)))) eqn:G; [|discriminate].
  intros E; inversion E; subst. apply andb_true_iff in G as [G _]. apply N.leb_le in G. auto.
Qed.

Theorem spec_add_once s id len' s' :
  spec_step s (OAdd id) (ObsAdd len') = Some s' ->
  exists b h', take_id id (held s) = Some (b, h') /\ held s' = h' /\
    ((pooled s' = pooled s ++ [b] /\ freed s' = freed s) \/ (pooled s' = pooled s /\ freed s' = b :: freed s)).
Proof.
  cbn [spec_step]. destruct (take_id id (held s)) as [[b h']|]; [|discriminate].
  destruct (len' =? N.of_nat (length (pooled s)) + 1).
  - intros E; inversion E; subst. exists b, h'. auto.
  - destruct (len' =? N.of_nat (length (pooled s))); [|discriminate].
    intros E; inversion E; subst. exists b, h'. auto.
Qed.

(* ---------------- the deterministic model of the current code refines the specification *)
Lemma take_id_nth : forall l i b, NoDup (ids l) -> nth_error l i = Some b ->
  take_id (b_id b) l = Some (b, remove_nth i l).
Proof.
  induction l as [|x r IH]; intros [|i] b Hn Hi; cbn in Hi; try discriminate.
  - inversion Hi; subst. cbn [take_id remove_nth]. rewrite N.eqb_refl. reflexivity.
  - cbn [ids map] in Hn. inversion Hn as [|? ? Hx Hr]; subst.
    cbn [take_id remove_nth].
    destruct (b_id x =? b_id b) eqn:E.
    + apply N.eqb_eq in E. exfalso. apply Hx. rewrite E. apply in_map. eapply nth_error_In; exact Hi.
    + rewrite (IH _ _ Hr Hi). reflexivity.
Qed.

Lemma conserved_pooled_nodup s : conserved s -> NoDup (ids (pooled s)).
Proof.
  intros C. assert (H : NoDup (ids (all s))).
  { eapply Permutation_NoDup; [symmetry; exact C|apply nseq_NoDup]. }
  unfold all in H. rewrite ids_app in H. apply NoDup_app_inv in H as (H & _). exact H.
Qed.

Definition fresh_ok (o : op) : Prop :=
  match o with OAlloc _ _ cap fc => cap <= fc | _ => True end.

Lemma remove_nth_length {A} (l : list A) i b : nth_error l i = Some b ->
  S (length (remove_nth i l)) = length l.
Proof.
  revert i; induction l as [|x r IH]; intros [|i] H; cbn in H; try discriminate; cbn [remove_nth length].
  - reflexivity.
  - rewrite (IH _ H). reflexivity.
Qed.

Theorem det_refines_spec m s o ob s' x :
  conserved s -> fresh_ok o ->
  step m s o = (s', x) -> out_obs_agree s' x ob = true -> spec_step s o ob = Some s'.
Proof.
  intros C F St Ag. destruct o as [esize align cap fc|esize align cap|id|id]; cbn [step] in St; cbn [fresh_ok] in F.
  2: { unfold fresh in St. inversion St; subst; clear St.
       destruct ob as [[rid|] c len'|len'|len'|]; cbn [out_obs_agree pooled] in Ag; try discriminate.
       apply andb_true_iff in Ag as [A1 A2]. apply N.eqb_eq in A1, A2. subst c len'.
       cbn [spec_step]. rewrite N.leb_refl, N.eqb_refl. reflexivity. }
  - assert (Hfresh : forall s'' x', fresh s esize align fc = (s'', x') -> s'' = s' -> x' = x ->
                     spec_step s (OAlloc esize align cap fc) ob = Some s').
    { unfold fresh. intros s'' x' E <- <-. inversion E; subst; clear E.
      destruct ob as [[rid|] c len'|len'|len'|]; cbn [out_obs_agree pooled] in Ag; try discriminate.
      apply andb_true_iff in Ag as [A1 A2]. apply N.eqb_eq in A1, A2. subst c len'.
      cbn [spec_step]. replace (cap <=? fc) with true by (symmetry; apply N.leb_le; exact F).
      rewrite N.eqb_refl. reflexivity. }
    destruct (cap * esize <? m); [eapply Hfresh; [exact St|reflexivity|reflexivity]|].
    destruct (best_fit (pooled s) esize align cap) as [i|] eqn:B; [|eapply Hfresh; [exact St|reflexivity|reflexivity]].
    destruct (best_fit_spec _ _ _ _ _ B) as (b & Hn & Hf & _).
    rewrite Hn in St. inversion St; subst; clear St.
    destruct ob as [[rid|] c len'|len'|len'|]; cbn [out_obs_agree pooled] in Ag; try discriminate.
    apply andb_true_iff in Ag as [A A3]. apply andb_true_iff in A as [A1 A2].
    apply N.eqb_eq in A1, A2, A3. subst rid c len'.
    cbn [spec_step]. rewrite (take_id_nth _ _ _ (conserved_pooled_nodup _ C) Hn).
    unfold can_fit in Hf. apply andb_true_iff in Hf as [Hl Hc]. rewrite Hc, Hl, !N.eqb_refl.
    reflexivity.
  - destruct (take_id id (held s)) as [[b h']|] eqn:T.
    + destruct (m <=? fst (b_layout b)); inversion St; subst; clear St;
        destruct ob as [[rid|] c len'|len'|len'|]; cbn [out_obs_agree pooled] in Ag; try discriminate;
        apply N.eqb_eq in Ag; subst len'; cbn [spec_step]; rewrite T.
      * rewrite app_length. cbn [length].
        replace (N.of_nat (length (pooled s) + 1) =? N.of_nat (length (pooled s)) + 1) with true
          by (symmetry; apply N.eqb_eq; lia). reflexivity.
      * replace (N.of_nat (length (pooled s)) =? N.of_nat (length (pooled s)) + 1) with false
          by (symmetry; apply N.eqb_neq; lia). rewrite N.eqb_refl. reflexivity.
    + inversion St; subst. destruct ob; cbn in Ag; discriminate.
  - destruct (take_id id (held s)) as [[b h']|] eqn:T.
    + inversion St; subst; clear St.
      destruct ob as [[rid|] c len'|len'|len'|]; cbn [out_obs_agree pooled] in Ag; try discriminate.
      apply N.eqb_eq in Ag; subst len'; cbn [spec_step]; rewrite T, N.eqb_refl. reflexivity.
    + inversion St; subst. destruct ob; cbn in Ag; discriminate.
Qed.

Lemma agree_from_spec_run m : forall l s, conserved s ->
  Forall (fun p => fresh_ok (fst p)) l ->
  agree_from m s l = true -> exists s', spec_run s l = Some s'.
Proof.
  induction l as [|[o ob] r IH]; intros s C F A; cbn [agree_from spec_run] in *.
  - eexists; reflexivity.
  - inversion F as [|? ? Fo Fr]; subst. cbn [fst] in Fo.
    destruct (step m s o) as [s1 x] eqn:St.
    apply andb_true_iff in A as [A1 A2].
    rewrite (det_refines_spec _ _ _ _ _ _ C Fo St A1).
    apply IH; [|exact Fr|exact A2].
    pose proof (step_conserved m s o C) as H. rewrite St in H. exact H.
Qed.

(* whenever the implementation behaves like the deterministic model of the current code (and
   the global allocator honours with_capacity), its trace is accepted by the specification *)
Theorem agree_implies_prop_ok c :
  Forall (fun p => fresh_ok (fst p)) (c_ops c) -> agree c = true -> prop_ok c = true.
Proof.
  unfold agree, prop_ok. intros F A.
  destruct (agree_from_spec_run _ _ _ conserved_init F A) as (s' & ->). reflexivity.
Qed.
