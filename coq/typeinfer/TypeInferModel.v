(* Model of the operator output-type rule language (src/operator.rs: OutputType, OutputTypeList,
   OutputTypesContext) and of the graph-level type propagation in src/infer_shapes.rs
   (infer_shapes, "Perform type inference").  Executable definitions only. *)
From Coq Require Import String.
From RV Require Import Prelude.

Inductive dtype := DFloat | DInt32 | DInt8 | DUInt8.
Inductive vtype := VTensor (d : dtype) | VSeq (d : dtype).

Definition dtype_eqb (a b : dtype) : bool :=
  match a, b with
  | DFloat, DFloat | DInt32, DInt32 | DInt8, DInt8 | DUInt8, DUInt8 => true
  | _, _ => false
  end.
Definition vtype_eqb (a b : vtype) : bool :=
  match a, b with
  | VTensor x, VTensor y | VSeq x, VSeq y => dtype_eqb x y
  | _, _ => false
  end.

(* ValueType::to_tensor_type / to_sequence_type *)
Definition to_tensor_type (t : vtype) : vtype := match t with VTensor d | VSeq d => VTensor d end.
Definition to_sequence_type (t : vtype) : vtype := match t with VTensor d | VSeq d => VSeq d end.

(* enum OutputType *)
Inductive rule :=
| Fixed (t : vtype)
| CopyFromInput (i : nat)
| ElementTypeOfInputSequence (i : nat)
| SequenceWithElementTypeOfInput (i : nat).

(* the `match output_type` of infer_shapes: [get] = get_input_type *)
Definition eval_rule (r : rule) (get : nat -> option vtype) : option vtype :=
  match r with
  | Fixed t => Some t
  | CopyFromInput i => get i
  | ElementTypeOfInputSequence i => option_map to_tensor_type (get i)
  | SequenceWithElementTypeOfInput i => option_map to_sequence_type (get i)
  end.

(* ------------------------------------------------------------- graph propagation *)
Definition nid := N.
(* an operator node of the plan: its declared rules for the number of connected outputs
   (None = the operator declares no rules), its input and output value ids (None = omitted) *)
Record node := { n_rules : option (list rule); n_in : list (option nid); n_out : list (option nid) }.

Definition tymap := list (nid * vtype).
Fixpoint lookup (m : tymap) (id : nid) : option vtype :=
  match m with
  | [] => None
  | (k, t) :: r => if N.eqb k id then Some t else lookup r id
  end.
Definition insert (m : tymap) (id : nid) (t : vtype) : tymap := (id, t) :: m.

(* get_input_type: the label computed so far, else the dtype declared on the graph node *)
Definition get_input_type (decl : nid -> option vtype) (types : tymap) (n : node) (idx : nat) : option vtype :=
  match nth_error (n_in n) idx with
  | Some (Some id) => match lookup types id with Some t => Some t | None => decl id end
  | _ => None
  end.

(* `for (id, output_type) in op.output_ids().iter().zip(output_type_list)`; get_input_type reads
   the map that is being extended, exactly as the Rust closure does *)
Fixpoint label_outputs_lit (decl : nid -> option vtype) (n : node)
         (outs : list (option nid)) (rules : list rule) (types : tymap) : tymap :=
  match outs, rules with
  | o :: ro, r :: rr =>
      let types' := match o with
                    | Some id => match eval_rule r (get_input_type decl types n) with
                                 | Some t => insert types id t
                                 | None => types
                                 end
                    | None => types
                    end in
      label_outputs_lit decl n ro rr types'
  | _, _ => types
  end.

Definition step (decl : nid -> option vtype) (types : tymap) (n : node) : tymap :=
  match n_rules n with
  | Some rs => label_outputs_lit decl n (n_out n) rs types
  | None => types
  end.
Definition propagate (decl : nid -> option vtype) (plan : list node) : tymap :=
  fold_left (step decl) plan [].

(* ------------------------------------------------------- correspondence cases *)
(* the table regenerated from the live registry: OpTypeRules.op_type_rules *)
Definition rules_table := list (string * (nat * option (list rule))).
Fixpoint table_lookup (tb : rules_table) (key : string) (nout : nat) : option (option (list rule)) :=
  match tb with
  | [] => None
  | (k, (n, r)) :: rest => if String.eqb k key && Nat.eqb n nout then Some r else table_lookup rest key nout
  end.

(* one execution of one operator: key of the operator instance (op type + attributes), number of
   outputs requested, run-time types of the inputs (None = omitted), run-time types of the produced
   outputs (None = execution failed) *)
Record ocase := { k_key : string; k_nout : nat; k_in : list (option vtype); k_out : option (list vtype) }.

Fixpoint rules_hold (rs : list rule) (its : list (option vtype)) (ots : list vtype) : bool :=
  match rs, ots with
  | r :: rr, t :: rt =>
      match eval_rule r (fun i => match nth_error its i with Some x => x | None => None end) with
      | Some t' => vtype_eqb t' t
      | None => true          (* the rule makes no prediction (input omitted) *)
      end && rules_hold rr its rt
  | _, _ => true
  end.

(* graph-level cases: plan, declared dtypes, labels computed by the implementation, run-time types *)
Record gcase := { g_plan : list node; g_decl : list (nid * vtype);
                  g_labels : list (nid * vtype); g_rt : list (nid * vtype) }.
Inductive case := COp (c : ocase) | CGraph (g : gcase).

Definition labels_eq (a b : tymap) (ids : list nid) : bool :=
  forallb (fun id => match lookup a id, lookup b id with
                     | Some x, Some y => vtype_eqb x y
                     | None, None => true
                     | _, _ => false
                     end) ids.
Definition plan_ids (p : list node) : list nid :=
  flat_map (fun n => flat_map (fun o => match o with Some i => [i] | None => [] end) (n_out n ++ n_in n)) p.

Section WithTable.
  Variable tb : rules_table.
  (* the operator's key is in the regenerated table (translator tie); for graphs: the model's
     propagation computes the implementation's labels *)
  Definition agree (c : case) : bool :=
    match c with
    | COp c => match table_lookup tb (k_key c) (k_nout c) with Some _ => true | None => false end
    | CGraph g => labels_eq (propagate (lookup (g_decl g)) (g_plan g)) (g_labels g) (plan_ids (g_plan g))
    end.
  (* property oracle: every produced output has the declared type; every label computed for a
     graph value equals its run-time type *)
  Definition prop_ok (c : case) : bool :=
    match c with
    | COp c => match table_lookup tb (k_key c) (k_nout c), k_out c with
               | Some (Some rs), Some ots => rules_hold rs (k_in c) ots
               | _, _ => true
               end
    | CGraph g => forallb (fun p => match lookup (g_rt g) (fst p) with
                                    | Some t => vtype_eqb (snd p) t
                                    | None => true
                                    end) (g_labels g)
    end.
  Definition show (c : case) :=
    match c with
    | COp c => (table_lookup tb (k_key c) (k_nout c), @nil (nid * vtype))
    | CGraph g => (None, propagate (lookup (g_decl g)) (g_plan g))
    end.
End WithTable.
