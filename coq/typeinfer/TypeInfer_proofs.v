(* C12: soundness of graph-level type propagation, given sound per-operator rules. *)
From Coq Require Import String.
From RV Require Import Prelude.
From TypeInfer Require Import TypeInferModel.

Lemma dtype_eqb_eq a b : dtype_eqb a b = true <-> a = b.
Proof. destruct a, b; cbn; split; intros H; try discriminate; auto. Qed.
Lemma vtype_eqb_eq a b : vtype_eqb a b = true <-> a = b.
Proof.
  destruct a, b; cbn [vtype_eqb]; split; intros H; try discriminate.
  all: try (apply dtype_eqb_eq in H; subst; reflexivity).
  all: inversion H; subst; apply dtype_eqb_eq; reflexivity.
Qed.

Section Propagation.
  (* run-time type of every value in one successful run (None = the value was not computed) *)
  Variable rt : nid -> option vtype.
  (* dtypes declared on graph nodes (model inputs, constants, value_info) *)
  Variable decl : nid -> option vtype.

  (* the run-time input types of a node, by input position (None = omitted or not computed) *)
  Definition rt_in (n : node) (idx : nat) : option vtype :=
    match nth_error (n_in n) idx with Some (Some id) => rt id | _ => None end.

  (* [rule_sound n]: the per-operator hypothesis, discharged by SAMPLING in the check: whenever
     the node produced output k in this run with type t', and its k-th declared rule evaluated on
     the run-time input types predicts t, then t = t'. *)
  Definition rule_sound (n : node) : Prop :=
    forall rs k r id t t',
      n_rules n = Some rs -> nth_error rs k = Some r -> nth_error (n_out n) k = Some (Some id) ->
      eval_rule r (rt_in n) = Some t -> rt id = Some t' -> t = t'.

  (* a produced output implies that the node's present inputs were available in the run *)
  Definition inputs_available (n : node) : Prop :=
    forall k id t', nth_error (n_out n) k = Some (Some id) -> rt id = Some t' ->
      forall idx iid, nth_error (n_in n) idx = Some (Some iid) -> rt iid <> None.

  (* declared dtypes are right (run inputs are checked against them by Graph::run, constants
     carry their own type) *)
  Definition decl_ok : Prop := forall id t t', decl id = Some t -> rt id = Some t' -> t = t'.

  Definition labels_ok (m : tymap) : Prop :=
    forall id t t', lookup m id = Some t -> rt id = Some t' -> t = t'.

  Lemma labels_ok_insert m id t :
    labels_ok m -> (forall t', rt id = Some t' -> t = t') -> labels_ok (insert m id t).
  Proof.
    intros H Ht id' t1 t2 L R. unfold insert in L. cbn [lookup] in L.
    destruct (N.eqb id id') eqn:E.
    - apply N.eqb_eq in E. subst. inversion L; subst. auto.
    - eauto.
  Qed.

  (* labels only under-approximate the run-time input types *)
  Lemma get_input_type_le m n idx t :
    labels_ok m -> decl_ok -> get_input_type decl m n idx = Some t ->
    forall t', rt_in n idx = Some t' -> t = t'.
  Proof.
    intros Hm Hd G t' R. unfold get_input_type in G. unfold rt_in in R.
    destruct (nth_error (n_in n) idx) as [[id|]|]; try discriminate.
    destruct (lookup m id) eqn:L.
    - inversion G; subst. eauto.
    - eauto.
  Qed.

  Lemma eval_rule_mono r (g1 g2 : nat -> option vtype) t :
    (forall i x, g1 i = Some x -> g2 i = Some x) -> eval_rule r g1 = Some t -> eval_rule r g2 = Some t.
  Proof.
    intros H E. destruct r; cbn [eval_rule] in *; auto.
    - destruct (g1 i) eqn:G; [|discriminate]. rewrite (H _ _ G). exact E.
    - destruct (g1 i) eqn:G; [|discriminate]. rewrite (H _ _ G). exact E.
  Qed.

  Lemma label_outputs_ok n (RS : rule_sound n) (AV : inputs_available n) (D : decl_ok) rs0 :
    n_rules n = Some rs0 ->
    forall outs rs k m,
      (forall j, nth_error outs j = nth_error (n_out n) (k + j)) ->
      (forall j, nth_error rs j = nth_error rs0 (k + j)) ->
      labels_ok m -> labels_ok (label_outputs_lit decl n outs rs m).
  Proof.
    intros HR. induction outs as [|o outs IH]; intros rs k m Ho Hr Hm; cbn [label_outputs_lit]; auto.
    destruct rs as [|r rs]; auto.
    assert (Ho' : forall j, nth_error outs j = nth_error (n_out n) (S k + j)).
    { intros j. specialize (Ho (S j)). cbn [nth_error] in Ho. rewrite Ho. f_equal. lia. }
    assert (Hr' : forall j, nth_error rs j = nth_error rs0 (S k + j)).
    { intros j. specialize (Hr (S j)). cbn [nth_error] in Hr. rewrite Hr. f_equal. lia. }
    apply (IH rs (S k)); auto.
    destruct o as [id|]; auto.
    destruct (eval_rule r (get_input_type decl m n)) as [t|] eqn:E; auto.
    apply labels_ok_insert; auto. intros t' R.
    assert (Hk : nth_error (n_out n) k = Some (Some id)).
    { specialize (Ho 0%nat). cbn [nth_error] in Ho. rewrite Nat.add_0_r in Ho. auto. }
    assert (Hrk : nth_error rs0 k = Some r).
    { specialize (Hr 0%nat). cbn [nth_error] in Hr. rewrite Nat.add_0_r in Hr. auto. }
    (* every label the rule reads is the run-time type of an available input *)
    eapply (RS rs0 k r id t t'); eauto.
    eapply eval_rule_mono; [|exact E].
    intros i x G. unfold rt_in.
    pose proof G as G'. unfold get_input_type in G'.
    destruct (nth_error (n_in n) i) as [[iid|]|] eqn:Ei; try discriminate.
    destruct (rt iid) as [ti|] eqn:Ri.
    - f_equal. symmetry. eapply (get_input_type_le m n i x Hm D G). unfold rt_in. rewrite Ei. exact Ri.
    - exfalso. exact (AV k id t' Hk R i iid Ei Ri).
  Qed.

  Lemma step_ok m n : rule_sound n -> inputs_available n -> decl_ok -> labels_ok m -> labels_ok (step decl m n).
  Proof.
    intros RS AV D Hm. unfold step. destruct (n_rules n) as [rs|] eqn:E; auto.
    eapply (label_outputs_ok n RS AV D rs E (n_out n) rs 0%nat); auto.
  Qed.

  Theorem type_propagation_sound plan :
    (forall n, In n plan -> rule_sound n) -> (forall n, In n plan -> inputs_available n) -> decl_ok ->
    labels_ok (propagate decl plan).
  Proof.
    intros RS AV D. unfold propagate.
    assert (G : forall m, labels_ok m -> labels_ok (fold_left (step decl) plan m)).
    { induction plan as [|n p IH]; intros m Hm; cbn [fold_left]; auto.
      apply IH.
      - intros. apply RS. right; auto.
      - intros. apply AV. right; auto.
      - apply step_ok; auto; [apply RS|apply AV]; left; auto. }
    apply G. intros id t t' L. discriminate.
  Qed.

  (* CastElimination (src/optimize/fusions.rs) replaces Cast{to} by Identity when the label of its
     input is Tensor(to): then the input has that type in every successful run. *)
  Corollary cast_elimination_sound plan x to :
    (forall n, In n plan -> rule_sound n) -> (forall n, In n plan -> inputs_available n) -> decl_ok ->
    lookup (propagate decl plan) x = Some (VTensor to) ->
    forall t, rt x = Some t -> t = VTensor to.
  Proof.
    intros RS AV D L t R. symmetry. eapply (type_propagation_sound plan RS AV D); eauto.
  Qed.
End Propagation.

(* ----------------------------------------------------------- oracle reflection *)
Lemma rules_hold_spec rs its ots :
  rules_hold rs its ots = true ->
  forall k r t t', nth_error rs k = Some r -> nth_error ots k = Some t' ->
    eval_rule r (fun i => match nth_error its i with Some x => x | None => None end) = Some t -> t = t'.
Proof.
  revert ots; induction rs as [|r0 rs IH]; intros [|t0 ots] H k r t t' Hr Ho E; cbn [rules_hold] in H;
    try (destruct k; discriminate).
  apply andb_prop in H as [H1 H2]. destruct k as [|k]; cbn [nth_error] in *.
  - inversion Hr; inversion Ho; subst. rewrite E in H1. apply vtype_eqb_eq in H1. exact H1.
  - eauto.
Qed.

Lemma rules_hold_reject rs its ots :
  rules_hold rs its ots = false ->
  exists k r t t', nth_error rs k = Some r /\ nth_error ots k = Some t' /\
    eval_rule r (fun i => match nth_error its i with Some x => x | None => None end) = Some t /\ t <> t'.
Proof.
  revert ots; induction rs as [|r0 rs IH]; intros [|t0 ots] H; cbn [rules_hold] in H; try discriminate.
  apply andb_false_iff in H as [H|H].
  - destruct (eval_rule r0 _) as [t|] eqn:E; [|discriminate].
    exists 0%nat, r0, t, t0. cbn [nth_error]. repeat split; auto.
    intros ->. assert (vtype_eqb t0 t0 = true) by (apply vtype_eqb_eq; reflexivity). congruence.
  - destruct (IH _ H) as (k & r & t & t' & A & B & C & D). exists (S k), r, t, t'. auto.
Qed.
