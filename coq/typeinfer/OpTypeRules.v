(* GENERATED on every run by checks/C12.py from the live operators of /tmp/wt-shapeinfer -- do not edit *)
From Coq Require Import String List.
From RV Require Import Prelude.
From TypeInfer Require Import TypeInferModel.
Import ListNotations.
Open Scope string_scope.

Definition op_type_rules : rules_table := [
  ("QuantizeLinear#-", (1%nat, (Some [CopyFromInput 2])))
].
