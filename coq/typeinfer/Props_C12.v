(* C12 -- Declared operator output types match produced types.  Statements only.

   What is PROVED (for all graphs, plans, runs): if every operator node's declared rule is sound
   for the run (hypothesis [rule_sound], see TypeInfer_proofs.v) then every label that the graph
   driver computes for a value equals the value's run-time type in every successful run.
   What is NOT proved: [rule_sound] itself -- it is discharged by SAMPLING in the check
   (every operator instance of the table OpTypeRules.v x input dtype vectors, executed). *)
From Coq Require Import String.
From RV Require Import Prelude.
From TypeInfer Require Import TypeInferModel TypeInfer_proofs OpTypeRules.

Theorem C12_type_propagation_sound :
  forall (rt decl : nid -> option vtype) (plan : list node),
    (forall n, In n plan -> rule_sound rt n) ->
    (forall n, In n plan -> inputs_available rt n) ->
    decl_ok rt decl ->
    forall id t t', lookup (propagate decl plan) id = Some t -> rt id = Some t' -> t = t'.
Proof. intros rt decl plan RS AV D. exact (type_propagation_sound rt decl plan RS AV D). Qed.

Theorem C12_cast_elimination_sound :
  forall (rt decl : nid -> option vtype) (plan : list node) x to,
    (forall n, In n plan -> rule_sound rt n) ->
    (forall n, In n plan -> inputs_available rt n) ->
    decl_ok rt decl ->
    lookup (propagate decl plan) x = Some (VTensor to) ->
    forall t, rt x = Some t -> t = VTensor to.
Proof. exact cast_elimination_sound. Qed.

(* the executable oracle of the check: accepted => every prediction of the declared rules holds of
   the produced types; rejected => a concrete output whose produced type differs from the prediction *)
Theorem C12_oracle_accept : forall rs its ots,
  rules_hold rs its ots = true ->
  forall k r t t', nth_error rs k = Some r -> nth_error ots k = Some t' ->
    eval_rule r (fun i => match nth_error its i with Some x => x | None => None end) = Some t -> t = t'.
Proof. exact rules_hold_spec. Qed.
Theorem C12_oracle_reject_is_counterexample : forall rs its ots,
  rules_hold rs its ots = false ->
  exists k r t t', nth_error rs k = Some r /\ nth_error ots k = Some t' /\
    eval_rule r (fun i => match nth_error its i with Some x => x | None => None end) = Some t /\ t <> t'.
Proof. exact rules_hold_reject. Qed.

(* over the table regenerated from the live operators on every run: every rule that refers to an
   input refers to one of the first 16 inputs and every operator instance declares at most as many
   rules as... (well-formedness only; the table's content is what the sampled check runs against) *)
Definition rule_wf (r : rule) : bool :=
  match r with
  | Fixed _ => true
  | CopyFromInput i | ElementTypeOfInputSequence i | SequenceWithElementTypeOfInput i => Nat.ltb i 16
  end.
Definition entry_wf (e : string * (nat * option (list rule))) : bool :=
  match snd (snd e) with Some rs => forallb rule_wf rs | None => true end.
Theorem C12_table_wellformed : forallb entry_wf op_type_rules = true.
Proof. vm_compute. reflexivity. Qed.

(* finding F81 (repaired): the rule QuantizeLinear declared before the fix is refuted by an execution
   with a uint8 zero point *)
Theorem C12_F81_quantize_rule_refuted :
  rules_hold [Fixed (VTensor DInt8)] [Some (VTensor DFloat); Some (VTensor DFloat); Some (VTensor DUInt8)]
             [VTensor DUInt8] = false /\
  rules_hold [CopyFromInput 2] [Some (VTensor DFloat); Some (VTensor DFloat); Some (VTensor DUInt8)]
             [VTensor DUInt8] = true.
Proof. split; reflexivity. Qed.

Example C12_nonvacuous :
  let plan := [ {| n_rules := Some [Fixed (VTensor DInt32)]; n_in := [Some 0%N]; n_out := [Some 1%N] |};
                {| n_rules := Some [CopyFromInput 1]; n_in := [Some 1%N; Some 2%N; Some 3%N]; n_out := [Some 4%N] |} ] in
  let decl := lookup [(0%N, VTensor DFloat); (2%N, VTensor DFloat); (3%N, VTensor DFloat)] in
  lookup (propagate decl plan) 4%N = Some (VTensor DFloat) /\ lookup (propagate decl plan) 1%N = Some (VTensor DInt32).
Proof. vm_compute. split; reflexivity. Qed.
