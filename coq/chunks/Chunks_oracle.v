(* Soundness of the executable property oracle [judge] (ModelChunks.v): if it reports no
   failure code for an observed non-empty list of chunks, the chunks satisfy the property as
   stated in Prop -- without any reference to the model. *)
From RV Require Import Prelude.
From Chunks Require Import ModelChunks.
From Coq Require Import ZifyBool.

(* ------------------------------------------------------------------ the property, in Prop *)
Definition window_ok (T : list N) (W : N) (p : nat * nat) : Prop :=
  (1 <= snd p)%nat /\ (fst p + snd p <= length T)%nat /\ (N.of_nat (snd p) <= W)%N.

Definition chunk_ok (pair : bool) (head : list N) (sep : special) (T : list N) (limit : option N)
           (c : chunk) (p : nat * nat) : Prop :=
  fst c = head ++ slice T p ++ sp_toks sep
  /\ snd c = (if pair then nlen head else nlen (fst c))
  /\ (forall m, limit = Some m -> (nlen (fst c) <= m)%N).

Fixpoint chain_ok (ov : N) (ws : list (nat * nat)) : Prop :=
  match ws with
  | p :: ((q :: _) as tl) =>
      (fst p < fst q)%nat /\ (fst p + snd p < fst q + snd q)%nat
      /\ (N.of_nat (fst p + snd p) = N.of_nat (fst q) + ov)%N
      /\ chain_ok ov tl
  | _ => True
  end.

(* the requested window: what the limit leaves after the special tokens (and, for a pair, the
   whole first sequence) *)
Definition requested_window (pair : bool) (first : list N) (limit : option N) (cls sep : special) : N :=
  if pair then (max_tokens pair limit cls sep - nlen first)%N else max_tokens pair limit cls sep.

Definition observed_ok (pair : bool) (first second : list N) (limit : option N) (ov : N)
           (cls sep : special) (chs : list chunk) : Prop :=
  let T := windowed pair first second in
  exists ws,
    Forall2 (chunk_ok pair (full_head pair first cls sep) sep T limit) chs ws
    /\ Forall (window_ok T (requested_window pair first limit cls sep)) ws
    /\ (forall p, hd_error ws = Some p -> fst p = 0%nat)
    /\ chain_ok ov ws
    /\ (forall p, hd_error (rev ws) = Some p -> (fst p + snd p = length T)%nat).

(* ------------------------------------------------------------------ helper specs *)
Lemma strip_prefix_spec p : forall l r, strip_prefix p l = Some r -> l = p ++ r.
Proof.
  induction p as [|a p IH]; intros l r H; cbn [strip_prefix] in H.
  - now injection H as ->.
  - destruct l as [|b l]; [discriminate|].
    destruct (N.eqb_spec a b) as [->|]; [|discriminate]. cbn [app]. f_equal. now apply IH.
Qed.

Lemma strip_suffix_spec s l w : strip_suffix s l = Some w -> l = w ++ s.
Proof.
  unfold strip_suffix. destruct (strip_prefix (rev s) (rev l)) as [r|] eqn:E; [|discriminate].
  intros H; injection H as <-. apply strip_prefix_spec in E.
  rewrite <- (rev_involutive l), E, rev_app_distr, rev_involutive. reflexivity.
Qed.

Lemma list_eqb_spec a : forall b, list_eqb a b = true -> a = b.
Proof.
  induction a as [|x a IH]; intros [|y b] H; cbn [list_eqb] in H; try discriminate; [reflexivity|].
  apply andb_prop in H as [H1 H2]. apply N.eqb_eq in H1 as ->. f_equal. now apply IH.
Qed.

Lemma find_window_spec w : forall l pos st, find_window w l pos = Some st ->
  exists j, st = (pos + j)%nat /\ firstn (length w) (skipn j l) = w.
Proof.
  induction l as [|x t IH]; intros pos st H; cbn [find_window] in H.
  - destruct (list_eqb (firstn (length w) []) w) eqn:E; [|discriminate].
    injection H as <-. exists 0%nat. split; [lia|]. now apply list_eqb_spec.
  - destruct (list_eqb (firstn (length w) (x :: t)) w) eqn:E.
    + injection H as <-. exists 0%nat. split; [lia|]. now apply list_eqb_spec.
    + destruct (IH _ _ H) as (j & -> & Hj). exists (S j). split; [lia|exact Hj].
Qed.

Lemma window_in_range {A} (w T : list A) j :
  w <> [] -> firstn (length w) (skipn j T) = w -> (j + length w <= length T)%nat.
Proof.
  intros Hne H. assert (L : length (firstn (length w) (skipn j T)) = length w) by now rewrite H.
  rewrite firstn_length, skipn_length in L.
  destruct w; [contradiction|]. cbn [length] in *. lia.
Qed.

(* ------------------------------------------------------------------ one chunk *)
Lemma judge_chunk_none pair head sep T limit W c cs :
  judge_chunk pair head sep T limit W c = (cs, None) -> cs <> [].
Proof.
  unfold judge_chunk. intros H.
  destruct (strip_prefix head (fst c)) as [r|].
  2:{ injection H as <-. intros E. apply app_eq_nil in E as [_ E]. discriminate. }
  destruct (strip_suffix (sp_toks sep) r) as [w|].
  2:{ injection H as <-. intros E. apply app_eq_nil in E as [_ E]. discriminate. }
  destruct w as [|x w].
  - injection H as <-. intros E. apply app_eq_nil in E as [_ E]. apply app_eq_nil in E as [_ E].
    discriminate.
  - destruct (find_window (x :: w) T 0); [discriminate|]. injection H as <-.
    intros E. apply app_eq_nil in E as [_ E]. apply app_eq_nil in E as [_ E].
    apply app_eq_nil in E as [_ E]. discriminate.
Qed.

Lemma judge_chunk_ok pair head sep T limit W c p :
  judge_chunk pair head sep T limit W c = ([], Some p) ->
  chunk_ok pair head sep T limit c p /\ window_ok T W p.
Proof.
  unfold judge_chunk. intros H.
  destruct (strip_prefix head (fst c)) as [r|] eqn:E1; [|discriminate].
  destruct (strip_suffix (sp_toks sep) r) as [w|] eqn:E2; [|discriminate].
  apply strip_prefix_spec in E1. apply strip_suffix_spec in E2. subst r.
  destruct w as [|x w]; [discriminate|].
  destruct (find_window (x :: w) T 0) as [st|] eqn:E3; [|discriminate].
  injection H as Hcodes <-.
  apply app_eq_nil in Hcodes as [C1 Hcodes]. apply app_eq_nil in Hcodes as [C2 C9].
  apply find_window_spec in E3 as (j & -> & Hj). cbn [Nat.add] in *.
  pose proof (window_in_range (x :: w) T j ltac:(discriminate) Hj) as Hr.
  split; [split; [|split]|].
  - rewrite E1. unfold slice; cbn [fst snd length]. cbn [length] in Hj. now rewrite Hj.
  - destruct (N.eqb_spec (snd c) (if pair then nlen head else nlen (fst c))); [assumption|discriminate].
  - intros m ->. destruct (N.leb_spec (nlen (fst c)) m); [assumption|discriminate].
  - unfold window_ok; cbn [fst snd]. repeat split.
    + cbn [length]. lia.
    + exact Hr.
    + unfold nlen in C9. destruct (N.leb_spec (N.of_nat (length (x :: w))) W); [assumption|discriminate].
Qed.

(* ------------------------------------------------------------------ all chunks *)
Lemma collect_ok {X} (l : list (list N * option X)) :
  (forall cs, In (cs, None) l -> cs <> []) ->
  fst (collect l) = [] ->
  exists ws, snd (collect l) = Some ws /\ Forall2 (fun x w => x = ([], Some w)) l ws.
Proof.
  induction l as [|[cs w] r IH]; intros Hn H.
  - exists []. split; [reflexivity|constructor].
  - cbn [collect] in *. destruct (collect r) as [cr wr] eqn:E. cbn [fst snd] in *.
    apply app_eq_nil in H as [-> ->].
    destruct (IH (fun cs Hi => Hn cs (or_intror Hi)) eq_refl) as (ws & -> & F).
    destruct w as [x|].
    + exists (x :: ws). split; [reflexivity|]. constructor; [reflexivity|exact F].
    + exfalso. apply (Hn []); [now left|reflexivity].
Qed.

Lemma judge_pairs_cons2 ov W st n st' n' rest :
  judge_pairs ov W ((st, n) :: (st', n') :: rest) =
    (if (N.of_nat st <? N.of_nat st')%N && (N.of_nat (st + n) <? N.of_nat (st' + n'))%N
        && (N.of_nat st' <=? N.of_nat (st + n))%N then [] else [5])
    ++ (if (N.of_nat (st + n) =? N.of_nat st' + ov)%N then []
        else match rest with
             | [] => if (N.of_nat n' <? W)%N && (N.of_nat (st + n) =? N.of_nat st')%N then [7] else [6]
             | _ => [6]
             end)
    ++ judge_pairs ov W ((st', n') :: rest).
Proof. reflexivity. Qed.

Lemma chain_ok_cons2 ov p q rest :
  chain_ok ov (p :: q :: rest) =
    ((fst p < fst q)%nat /\ (fst p + snd p < fst q + snd q)%nat
     /\ (N.of_nat (fst p + snd p) = N.of_nat (fst q) + ov)%N /\ chain_ok ov (q :: rest)).
Proof. reflexivity. Qed.

Lemma judge_pairs_ok ov W : forall ws, judge_pairs ov W ws = [] -> chain_ok ov ws.
Proof.
  induction ws as [|[st n] tl IH]; intros H; [exact I|].
  destruct tl as [|[st' n'] rest]; [exact I|].
  rewrite judge_pairs_cons2 in H. rewrite chain_ok_cons2. cbn [fst snd].
  apply app_eq_nil in H as [H1 H]. apply app_eq_nil in H as [H2 H3].
  destruct ((N.of_nat st <? N.of_nat st')%N && (N.of_nat (st + n) <? N.of_nat (st' + n'))%N
            && (N.of_nat st' <=? N.of_nat (st + n))%N) eqn:Eo; [|discriminate].
  apply andb_prop in Eo as [Eo _]. apply andb_prop in Eo as [Ea Eb].
  apply N.ltb_lt in Ea. apply N.ltb_lt in Eb.
  destruct (N.eqb_spec (N.of_nat (st + n)) (N.of_nat st' + ov)) as [Ee|].
  - repeat split; try lia. apply IH. exact H3.
  - destruct rest; [destruct ((N.of_nat n' <? W)%N && (N.of_nat (st + n) =? N.of_nat st')%N)|];
      discriminate.
Qed.

(* ------------------------------------------------------------------ the reflection lemma *)
Theorem judge_sound (pair : bool) first second t2 limit ov cls sep chs :
  sp_err cls = false -> sp_err sep = false ->
  (if pair then t2 else Some (@nil N)) = Some second ->
  chs <> [] ->
  judge pair (Some first) t2 limit ov cls sep (Chunks chs) = [] ->
  observed_ok pair first second limit ov cls sep chs.
Proof.
  intros Hc Hs Ht Hne H. unfold judge in H. rewrite Ht, Hc, Hs in H. cbn [orb] in H.
  destruct chs as [|c0 chs0]; [contradiction|].
  set (chs := c0 :: chs0) in *.
  set (T := windowed pair first second) in *.
  set (W := if pair then (max_tokens pair limit cls sep - nlen first)%N else max_tokens pair limit cls sep) in *.
  set (head := if pair then sp_toks cls ++ first ++ sp_toks sep else sp_toks cls) in *.
  destruct (collect (map (judge_chunk pair head sep T limit W) chs)) as [codes wins] eqn:Ec.
  assert (Hcodes : codes = []).
  { destruct wins; [apply app_eq_nil in H as [? _]|]; assumption. }
  subst codes.
  destruct (collect_ok (map (judge_chunk pair head sep T limit W) chs)) as (ws & Ew & F).
  { intros cs Hi. apply in_map_iff in Hi as (c & Hj & _). exact (judge_chunk_none _ _ _ _ _ _ _ _ Hj). }
  { now rewrite Ec. }
  rewrite Ec in Ew. cbn [snd] in Ew. subst wins. cbn [app] in H.
  apply app_eq_nil in H as [Hhd H]. apply app_eq_nil in H as [Hpairs Hlast].
  exists ws. fold T. change (full_head pair first cls sep) with head.
  change (requested_window pair first limit cls sep) with W.
  assert (F' : Forall2 (fun c p => chunk_ok pair head sep T limit c p /\ window_ok T W p) chs ws).
  { clear -F. revert ws F. induction chs as [|c r IH]; intros ws F; inversion F; subst; constructor.
    - now apply judge_chunk_ok.
    - now apply IH. }
  split; [|split; [|split; [|split]]].
  - clear -F'. induction F' as [|c p r ws [A _] _ IH]; constructor; assumption.
  - clear -F'. induction F' as [|c p r ws [_ B] _ IH]; constructor; assumption.
  - intros [st n] Hp. destruct ws as [|[st0 n0] ws']; [discriminate|]. injection Hp as -> ->.
    cbn [fst]. destruct (Nat.eqb_spec st 0); [assumption|discriminate].
  - exact (judge_pairs_ok ov W ws Hpairs).
  - intros [st n] Hp. destruct (rev ws) as [|[st0 n0] rw]; [discriminate|]. injection Hp as -> ->.
    cbn [fst snd]. destruct (Nat.eqb_spec (st + n) (length T)); [assumption|discriminate].
Qed.
