(* Model of rten-text/src/split.rs::chunks_with_overlap and of
   rten-text/src/tokenizer.rs::Tokenizer::encode_chunks (single Item and Pair inputs).

   Executable definitions only.  Lengths, limits and overlaps are [N] (usize values as large as
   usize::MAX occur in the correspondence cases); [N.to_nat] is applied only to values that
   are already known to be bounded by a list length, so every case evaluates in microseconds.

   Sizes never wrap in this code: the only additions are `tokens.len()`-bounded; the
   subtractions are `saturating_sub` / guarded, which is exactly [N.sub]. *)
From RV Require Import Prelude.
Open Scope N_scope.

Definition usize_max : N := u64_max.
Definition nlen {A} (l : list A) : N := N.of_nat (length l).

(* ---------------------------------------------------------------- std iterators *)
Section Core.
  Context {A : Type}.

  (* <[T]>::windows(size) for size >= 1: every contiguous sub-slice of length size, in order
     (none when size > len).  size = 0 panics in std; unreachable here because the assertion
     overlap < chunk_size runs first. *)
  Fixpoint windows (cs : nat) (l : list A) : list (list A) :=
    match l with
    | [] => []
    | _ :: t => if (cs <=? length l)%nat then firstn cs l :: windows cs t else []
    end.
End Core.

Section StepBy.
  Context {B : Type}.
  (* Iterator::step_by(step), step >= 1: the first element, then every step-th one.
     [skip] = number of elements still to be dropped before the next one is yielded. *)
  Fixpoint step_by_aux (step skip : nat) (l : list B) : list B :=
    match l with
    | [] => []
    | x :: t =>
        match skip with
        | O => x :: step_by_aux step (step - 1) t
        | S k => step_by_aux step k t
        end
    end.
  Definition step_by (step : nat) (l : list B) : list B := step_by_aux step 0 l.
End StepBy.

(* ---------------------------------------------------------------- split.rs *)
(* fn chunks_with_overlap(&self, chunk_size, overlap) -> OverlappingChunks
     assert!(overlap < chunk_size);                          => None (panic)
     let stride = chunk_size - overlap;
     let remainder_size = if self.len() < chunk_size { self.len() }
                          else { self.len().saturating_sub(chunk_size) % stride };
     inner: self.windows(chunk_size).step_by(stride),
     remainder: if remainder_size > 0 { Some(&self[self.len() - remainder_size..]) } else { None }
   The iterator yields all of `inner`, then `remainder`.
   (The guard [len <? cs] around [windows] only avoids converting a huge chunk size to unary:
    std's windows(size) is empty when size > len.) *)
Definition chunks_with_overlap {A} (l : list A) (cs ov : N) : option (list (list A)) :=
  if cs <=? ov then None
  else
    let len := nlen l in
    let stride := cs - ov in
    let rem := if len <? cs then len else (len - cs) mod stride in
    let full := if len <? cs then []
                else step_by (N.to_nat stride) (windows (N.to_nat cs) l) in
    Some (full ++ (if 0 <? rem then [skipn (N.to_nat (len - rem)) l] else [])).

(* ---------------------------------------------------------------- tokenizer.rs *)
(* A configured special token: absent, configured but not in the vocabulary (get_token_id
   fails -> Err), or present with its id. *)
Inductive special := SpNone | SpUnknown | SpTok (id : N).
Definition sp_err (s : special) : bool := match s with SpUnknown => true | _ => false end.
Definition sp_toks (s : special) : list N := match s with SpTok id => [id] | _ => [] end.
Definition sp_count (s : special) : N := match s with SpTok _ => 1 | _ => 0 end.

(* One output chunk: its token ids and the number of tokens with token_type_id 0
   (`Encoded::first_seq_tokens`). *)
Definition chunk := (list N * N)%type.
Inductive outcome := Chunks (l : list chunk) | ErrOut | PanicOut.

(* non_content_tokens_per_chunk *)
Definition overhead (pair : bool) (cls sep : special) : N :=
  sp_count cls + (if pair then 2 * sp_count sep else sp_count sep).

(* max_tokens_per_chunk = max_chunk_len.unwrap_or(usize::MAX).saturating_sub(non_content) *)
Definition max_tokens (pair : bool) (limit : option N) (cls sep : special) : N :=
  (match limit with Some m => m | None => usize_max end) - overhead pair cls sep.

(* first_len = first_tokens.len().min(max_tokens_per_chunk) *)
Definition first_len (first : list N) (mt : N) : N := N.min (nlen first) mt.

(* the window handed to chunks_with_overlap: max_tokens_per_chunk for Item,
   second_max_len = max_tokens_per_chunk - first_len for Pair *)
Definition budget (pair : bool) (first : list N) (limit : option N) (cls sep : special) : N :=
  let mt := max_tokens pair limit cls sep in
  if pair then mt - first_len first mt else mt.

(* tokens placed before the window in every chunk *)
Definition chunk_head (pair : bool) (first : list N) (mt : N) (cls sep : special) : list N :=
  if pair then sp_toks cls ++ firstn (N.to_nat (first_len first mt)) first ++ sp_toks sep
  else sp_toks cls.

(* one chunk from one window *)
Definition assemble (pair : bool) (head : list N) (sep : special) (w : list N) : chunk :=
  let ids := head ++ w ++ sp_toks sep in
  (ids, if pair then nlen head else nlen ids).

(* Tokenizer::encode_chunks.  [t1]/[t2]: result of Model::encode on the first / second
   sequence (None = the model returned an error); [t2] is ignored for Item inputs. *)
Definition encode_chunks (pair : bool) (t1 t2 : option (list N)) (limit : option N) (ov : N)
           (cls sep : special) : outcome :=
  if sp_err cls || sp_err sep then ErrOut            (* self.cls_token()?, self.sep_token()? *)
  else
    match t1, (if pair then t2 else Some []) with
    | None, _ | _, None => ErrOut                    (* self.encode_str(..)? *)
    | Some first, Some second =>
        let mt := max_tokens pair limit cls sep in
        if mt =? 0 then Chunks []                    (* if max_tokens_per_chunk == 0 *)
        else
          let head := chunk_head pair first mt cls sep in
          if pair then
            let second_max := mt - first_len first mt in
            let second_len := N.min (nlen second) second_max in
            if second_len =? 0 then Chunks []        (* if second_len == 0 *)
            else
              match chunks_with_overlap second second_max ov with
              | None => PanicOut
              | Some ws => Chunks (map (assemble pair head sep) ws)
              end
          else
            match chunks_with_overlap first mt ov with
            | None => PanicOut
            | Some ws => Chunks (map (assemble pair head sep) ws)
            end
    end.

(* ---------------------------------------------------------------- specification side *)
(* A window is (start, length) into the chunked sequence. *)
Definition slice {A} (l : list A) (p : nat * nat) : list A := firstn (snd p) (skipn (fst p) l).

Definition n_full (len cs s : nat) : nat := if (cs <=? len)%nat then (len - cs) / s + 1 else 0%nat.
Definition rem_size (len cs s : nat) : nat :=
  if (len <? cs)%nat then len else ((len - cs) mod s)%nat.
(* the windows produced for a sequence of [len] items, chunk size [cs], stride [s] *)
Definition layout (len cs s : nat) : list (nat * nat) :=
  map (fun k => ((k * s)%nat, cs)) (seq 0 (n_full len cs s))
  ++ (if (0 <? rem_size len cs s)%nat
      then [((len - rem_size len cs s)%nat, rem_size len cs s)] else []).

(* the sequence that is cut into windows *)
Definition windowed (pair : bool) (first second : list N) : list N := if pair then second else first.

(* what precedes the window in every emitted chunk: the *whole* first sequence for a pair *)
Definition full_head (pair : bool) (first : list N) (cls sep : special) : list N :=
  if pair then sp_toks cls ++ first ++ sp_toks sep else sp_toks cls.

(* the windows of one encode_chunks call *)
Definition ec_layout (pair : bool) (first second : list N) (limit : option N) (ov : N)
           (cls sep : special) : list (nat * nat) :=
  let W := budget pair first limit cls sep in
  layout (length (windowed pair first second)) (N.to_nat W) (N.to_nat (W - ov)).

(* the two encoded sequences, if the model encoded them (Item: second = []) *)
Definition ec_inputs (pair : bool) (t1 t2 : option (list N)) : option (list N * list N) :=
  match t1, (if pair then t2 else Some []) with
  | Some f, Some s => Some (f, s)
  | _, _ => None
  end.

(* totality: the decision table for the kind of outcome *)
Inductive oclass := CErr | CPanic | CNoChunks | CChunks.
Definition class_of (o : outcome) : oclass :=
  match o with
  | ErrOut => CErr
  | PanicOut => CPanic
  | Chunks [] => CNoChunks
  | Chunks (_ :: _) => CChunks
  end.
Definition expected_class (pair : bool) (t1 t2 : option (list N)) (limit : option N) (ov : N)
           (cls sep : special) : oclass :=
  if sp_err cls || sp_err sep then CErr
  else match ec_inputs pair t1 t2 with
       | None => CErr
       | Some (first, second) =>
           let W := budget pair first limit cls sep in
           let T := windowed pair first second in
           if W =? 0 then CNoChunks                       (* no room for a content token *)
           else if pair && (nlen T =? 0) then CNoChunks   (* pair with an empty second sequence *)
           else if W <=? ov then CPanic                   (* assert!(overlap < chunk_size) *)
           else if nlen T =? 0 then CNoChunks             (* nothing to encode *)
           else CChunks
       end.

(* ---------------------------------------------------------------- property oracle *)
(* Judges an observed outcome against the property, without using the model above.
   Failure codes (the check classifies a failing case by the set of codes):
     1 chunk longer than max_chunk_len          2 special tokens / first sequence / type ids wrong
     3 content is not a (non-empty) contiguous window of the encoding
     4 first window does not start at token 0   5 windows out of order, not advancing, or a gap
     6 consecutive windows do not overlap by exactly `overlap`
     7 same, but only for the final chunk when it is a partial chunk that starts exactly where
       the previous window ended (finding F15)
     8 last window does not end at the last token   9 window longer than the requested window
    10 no chunks although there are tokens and room for them
    11 panic although overlap < requested window   12 error without cause *)
Fixpoint strip_prefix (p l : list N) : option (list N) :=
  match p, l with
  | [], _ => Some l
  | a :: p', b :: l' => if a =? b then strip_prefix p' l' else None
  | _ :: _, [] => None
  end.
Definition strip_suffix (s l : list N) : option (list N) :=
  match strip_prefix (rev s) (rev l) with Some r => Some (rev r) | None => None end.

Fixpoint list_eqb (a b : list N) : bool :=
  match a, b with
  | [], [] => true
  | x :: a', y :: b' => (x =? y) && list_eqb a' b'
  | _, _ => false
  end.

(* first position at which [w] occurs in [l] as a contiguous block *)
Fixpoint find_window (w l : list N) (pos : nat) : option nat :=
  if list_eqb (firstn (length w) l) w then Some pos
  else match l with [] => None | _ :: t => find_window w t (S pos) end.

Record obs := { o_codes : list N; o_wins : list (nat * nat) }.

(* decode one chunk: codes and, if it could be located, its window *)
Definition judge_chunk (pair : bool) (head : list N) (sep : special) (T : list N)
           (limit : option N) (W : N) (c : chunk) : list N * option (nat * nat) :=
  let ids := fst c in
  let c1 := match limit with Some m => if nlen ids <=? m then [] else [1] | None => [] end in
  match strip_prefix head ids with
  | None => (c1 ++ [2], None)
  | Some r =>
      match strip_suffix (sp_toks sep) r with
      | None => (c1 ++ [2], None)
      | Some w =>
          let c2 := if snd c =? (if pair then nlen head else nlen ids) then [] else [2] in
          let c9 := if nlen w <=? W then [] else [9] in
          match w with
          | [] => (c1 ++ c2 ++ [3], None)
          | _ => match find_window w T 0 with
                 | None => (c1 ++ c2 ++ c9 ++ [3], None)
                 | Some st => (c1 ++ c2 ++ c9, Some (st, length w))
                 end
          end
      end
  end.

(* consecutive windows *)
Fixpoint judge_pairs (ov W : N) (ws : list (nat * nat)) : list N :=
  match ws with
  | (st, n) :: (((st', n') :: rest) as tl) =>
      let e := N.of_nat (st + n) in
      let e' := N.of_nat (st' + n') in
      let s' := N.of_nat st' in
      let order := if (N.of_nat st <? s') && (e <? e') && (s' <=? e) then [] else [5] in
      let exact :=
        if e =? s' + ov then []
        else match rest with
             | [] => if (N.of_nat n' <? W) && (e =? s') then [7] else [6]
             | _ => [6]
             end in
      order ++ exact ++ judge_pairs ov W tl
  | _ => []
  end.

Fixpoint collect {X} (l : list (list N * option X)) : list N * option (list X) :=
  match l with
  | [] => ([], Some [])
  | (cs, w) :: r =>
      let (cr, wr) := collect r in
      (cs ++ cr, match w, wr with Some x, Some xs => Some (x :: xs) | _, _ => None end)
  end.

Definition judge (pair : bool) (t1 t2 : option (list N)) (limit : option N) (ov : N)
           (cls sep : special) (out : outcome) : list N :=
  let err_expected := sp_err cls || sp_err sep ||
                      match t1 with None => true | _ => false end ||
                      (pair && match t2 with None => true | _ => false end) in
  match out with
  | ErrOut => if err_expected then [] else [12]
  | _ =>
      match t1, (if pair then t2 else Some []) with
      | Some first, Some second =>
          if sp_err cls || sp_err sep then [] (* Ok/Panic where an error is due: only [agree] objects *)
          else
          let T := windowed pair first second in
          let mt := max_tokens pair limit cls sep in
          (* the requested window: room left by the limit after the special tokens (and, for a
             pair, after the whole first sequence) *)
          let W := if pair then mt - nlen first else mt in
          match out with
          | PanicOut => if W <=? ov then [] else [11]
          | ErrOut => []
          | Chunks [] => if (W =? 0) || (nlen T =? 0) then [] else [10]
          | Chunks chs =>
              let head := if pair then sp_toks cls ++ first ++ sp_toks sep else sp_toks cls in
              let (codes, wins) := collect (map (judge_chunk pair head sep T limit W) chs) in
              match wins with
              | None => codes
              | Some ws =>
                  codes
                  ++ match ws with (st, _) :: _ => if (st =? 0)%nat then [] else [4] | [] => [] end
                  ++ judge_pairs ov W ws
                  ++ match rev ws with
                     | (st, n) :: _ => if (st + n =? length T)%nat then [] else [8]
                     | [] => []
                     end
              end
          end
      | _, _ => []
      end
  end.

(* ---------------------------------------------------------------- correspondence case *)
Record case := {
  c_pair : bool;
  c_t1 : option (list N);
  c_t2 : option (list N);
  c_limit : option N;
  c_overlap : N;
  c_cls : special;
  c_sep : special;
  c_impl : outcome
}.

(* compact notation used by the harness to print cases (keeps cases_*.v small):
   [iota a n] = a, a+1, .., a+n-1;  [ck segs n0] = a chunk whose ids are the concatenation of
   the runs [segs];  [mkc ..] = a case whose sequences are iota 256 n1 / iota 4096 n2. *)
Definition iota (a n : N) : list N := map (fun i => a + N.of_nat i) (seq 0 (N.to_nat n)).
Definition ck (segs : list (N * N)) (n0 : N) : chunk :=
  (flat_map (fun p => iota (fst p) (snd p)) segs, n0).
Definition mkc (pair : bool) (n1 n2 : option N) (limit : option N) (ov : N) (cls sep : special)
           (impl : outcome) : case :=
  {| c_pair := pair;
     c_t1 := match n1 with Some n => Some (iota 256 n) | None => None end;
     c_t2 := match n2 with Some n => Some (iota 4096 n) | None => None end;
     c_limit := limit; c_overlap := ov; c_cls := cls; c_sep := sep; c_impl := impl |}.

Definition chunk_eqb (a b : chunk) : bool := list_eqb (fst a) (fst b) && (snd a =? snd b).
Fixpoint chunks_eqb (a b : list chunk) : bool :=
  match a, b with
  | [], [] => true
  | x :: a', y :: b' => chunk_eqb x y && chunks_eqb a' b'
  | _, _ => false
  end.
Definition outcome_eqb (a b : outcome) : bool :=
  match a, b with
  | Chunks x, Chunks y => chunks_eqb x y
  | ErrOut, ErrOut => true
  | PanicOut, PanicOut => true
  | _, _ => false
  end.

Definition model_of (c : case) : outcome :=
  encode_chunks (c_pair c) (c_t1 c) (c_t2 c) (c_limit c) (c_overlap c) (c_cls c) (c_sep c).
Definition codes_of (c : case) : list N :=
  judge (c_pair c) (c_t1 c) (c_t2 c) (c_limit c) (c_overlap c) (c_cls c) (c_sep c) (c_impl c).

Definition agree (c : case) : bool := outcome_eqb (model_of c) (c_impl c).
Definition prop_ok (c : case) : bool := match codes_of c with [] => true | _ => false end.
(* the implementation's outcome is the one the model predicts and fails the property in
   exactly one way: the final partial chunk does not overlap its predecessor (F15) *)
Definition only_f15 (c : case) : bool :=
  agree c && match codes_of c with [7] => true | _ => false end.
Definition show (c : case) := (model_of c, codes_of c).
