(* C29 -- Chunked encoding respects limits and partitions the token stream.
   Only statements; every proof is `exact <lemma>` (or vm_compute for concrete witnesses).

   Vocabulary (ModelChunks.v):
     encode_chunks pair t1 t2 limit ov cls sep   model of Tokenizer::encode_chunks; t1/t2 are the
                                                 model's encodings of the two sequences
     ec_inputs pair t1 t2 = Some (first, second) both encodings succeeded (Item: second = [])
     windowed pair first second                  T, the sequence that is cut into windows
                                                 (Item: first; Pair: second)
     budget pair first limit cls sep             W, the window: limit (None = usize::MAX) minus
                                                 the special tokens, minus |first| for a pair
     ec_layout ...                               the list of (start, length) windows
     full_head pair first cls sep                what precedes the window in every chunk *)
From RV Require Import Prelude.
From Chunks Require Import ModelChunks Chunks_core Chunks_layout Chunks_encode Chunks_oracle.
Open Scope N_scope.

(* (0) the private helper: chunks_with_overlap panics iff overlap >= chunk_size and otherwise
       yields exactly the windows of [layout], in order *)
Theorem C29_chunks_with_overlap_layout : forall (A : Type) (l : list A) (cs ov : N),
  (cs <= ov -> chunks_with_overlap l cs ov = None) /\
  (ov < cs -> chunks_with_overlap l cs ov =
              Some (map (slice l) (layout (length l) (N.to_nat cs) (N.to_nat (cs - ov))))).
Proof. intros A l cs ov. split; [apply cwo_panic|apply cwo_layout]. Qed.

(* (1) totality: exactly which parameter combinations give an error, a panic, no chunks, or
       chunks -- [expected_class] is the decision table *)
Theorem C29_totality : forall pair t1 t2 limit ov cls sep,
  class_of (encode_chunks pair t1 t2 limit ov cls sep) = expected_class pair t1 t2 limit ov cls sep.
Proof. exact ec_totality. Qed.

(* (2) windows_contiguous: the k-th chunk is  head ++ T[st .. st+n) ++ [SEP]  for the k-th
       window (st, n) of the layout; the window is non-empty, inside T and at most W long;
       for a pair the head contains the whole first sequence *)
Theorem C29_windows_contiguous : forall pair t1 t2 limit ov cls sep chs first second,
  encode_chunks pair t1 t2 limit ov cls sep = Chunks chs ->
  ec_inputs pair t1 t2 = Some (first, second) ->
  forall k c, nth_error chs k = Some c ->
  exists st n,
    nth_error (ec_layout pair first second limit ov cls sep) k = Some (st, n)
    /\ fst c = full_head pair first cls sep ++ slice (windowed pair first second) (st, n) ++ sp_toks sep
    /\ snd c = (if pair then nlen (full_head pair first cls sep) else nlen (fst c))
    /\ length (slice (windowed pair first second) (st, n)) = n
    /\ (1 <= n)%nat /\ N.of_nat n <= budget pair first limit cls sep
    /\ (st + n <= length (windowed pair first second))%nat.
Proof. exact ok_contiguous. Qed.

Theorem C29_one_chunk_per_window : forall pair t1 t2 limit ov cls sep chs first second,
  encode_chunks pair t1 t2 limit ov cls sep = Chunks chs ->
  ec_inputs pair t1 t2 = Some (first, second) -> chs <> [] ->
  length chs = length (ec_layout pair first second limit ov cls sep).
Proof. exact ok_length. Qed.

(* (3) chunk_len_bound: no chunk is longer than max_chunk_len, special tokens included *)
Theorem C29_chunk_len_bound : forall pair t1 t2 limit ov cls sep chs first second,
  encode_chunks pair t1 t2 limit ov cls sep = Chunks chs ->
  ec_inputs pair t1 t2 = Some (first, second) ->
  forall m c, limit = Some m -> In c chs -> nlen (fst c) <= m.
Proof. exact ok_len_bound. Qed.

(* (4) consecutive_overlap_exact, under the hypothesis that excludes exactly the known class
       F15 (the second window of the pair is the final partial chunk and overlap > 0): *)
Theorem C29_consecutive_overlap_exact : forall pair t1 t2 limit ov cls sep chs first second,
  encode_chunks pair t1 t2 limit ov cls sep = Chunks chs ->
  ec_inputs pair t1 t2 = Some (first, second) ->
  forall k st n st' n',
    nth_error (ec_layout pair first second limit ov cls sep) k = Some (st, n) ->
    nth_error (ec_layout pair first second limit ov cls sep) (S k) = Some (st', n') ->
    chs <> [] ->
    (N.of_nat n' = budget pair first limit cls sep \/ ov = 0) ->
    N.of_nat (st + n) = N.of_nat st' + ov.
Proof. exact ok_overlap_exact. Qed.

(* (4') the hypothesis is necessary: the overlap is exact iff the pair is outside that class *)
Theorem C29_consecutive_overlap_iff : forall pair t1 t2 limit ov cls sep chs first second,
  encode_chunks pair t1 t2 limit ov cls sep = Chunks chs ->
  ec_inputs pair t1 t2 = Some (first, second) ->
  forall k st n st' n',
    nth_error (ec_layout pair first second limit ov cls sep) k = Some (st, n) ->
    nth_error (ec_layout pair first second limit ov cls sep) (S k) = Some (st', n') ->
    chs <> [] ->
    (N.of_nat (st + n) = N.of_nat st' + ov <->
     (N.of_nat n' = budget pair first limit cls sep \/ ov = 0)).
Proof. exact ok_overlap_iff. Qed.

(* (4'') what happens inside the class: a window shorter than W is the last chunk and starts
        exactly where its predecessor ended (observed overlap 0 whatever was requested) *)
Theorem C29_remainder_chunk_adjacent : forall pair t1 t2 limit ov cls sep chs first second,
  encode_chunks pair t1 t2 limit ov cls sep = Chunks chs ->
  ec_inputs pair t1 t2 = Some (first, second) ->
  forall k st n st' n',
    nth_error (ec_layout pair first second limit ov cls sep) k = Some (st, n) ->
    nth_error (ec_layout pair first second limit ov cls sep) (S k) = Some (st', n') ->
    chs <> [] ->
    N.of_nat n' < budget pair first limit cls sep ->
    st' = (st + n)%nat /\ length chs = S (S k).
Proof. exact ok_remainder_adjacent. Qed.

(* (4-) F15: the unconditional statement is false.  split.rs's own unit-test input
        [3,4,5,6,7,8], chunk size 3, overlap 1 gives windows (0,3) (2,3) (5,1): the last two
        overlap by 0, not 1.  Same through a pair with [CLS]/[SEP]. *)
Theorem C29_consecutive_overlap_refuted :
  exists pair t1 t2 limit ov cls sep chs first second k st n st' n',
    encode_chunks pair t1 t2 limit ov cls sep = Chunks chs /\
    ec_inputs pair t1 t2 = Some (first, second) /\
    nth_error (ec_layout pair first second limit ov cls sep) k = Some (st, n) /\
    nth_error (ec_layout pair first second limit ov cls sep) (S k) = Some (st', n') /\
    nth_error chs (S k) <> None /\
    N.of_nat (st + n) <> N.of_nat st' + ov.
Proof.
  exists false, (Some [3; 4; 5; 6; 7; 8]), None, (Some 3), 1, SpNone, SpNone,
         [([3; 4; 5], 3); ([5; 6; 7], 3); ([8], 1)], [3; 4; 5; 6; 7; 8], [],
         1%nat, 2%nat, 3%nat, 5%nat, 1%nat.
  vm_compute. repeat split; discriminate.
Qed.

Theorem C29_consecutive_overlap_refuted_pair :
  encode_chunks true (Some [10; 11]) (Some [3; 4; 5; 6; 7; 8]) (Some 8) 1 (SpTok 1) (SpTok 2)
  = Chunks [([1; 10; 11; 2; 3; 4; 5; 2], 4); ([1; 10; 11; 2; 5; 6; 7; 2], 4); ([1; 10; 11; 2; 8; 2], 4)].
Proof. vm_compute. reflexivity. Qed.

(* (5) windows_cover_in_order *)
(* (5a) consecutive windows advance (starts and ends strictly increase) and leave no gap *)
Theorem C29_windows_in_order : forall pair t1 t2 limit ov cls sep chs first second,
  encode_chunks pair t1 t2 limit ov cls sep = Chunks chs ->
  ec_inputs pair t1 t2 = Some (first, second) ->
  forall k st n st' n',
    nth_error (ec_layout pair first second limit ov cls sep) k = Some (st, n) ->
    nth_error (ec_layout pair first second limit ov cls sep) (S k) = Some (st', n') ->
    chs <> [] ->
    (st < st')%nat /\ (st + n < st' + n')%nat /\ (st' <= st + n)%nat.
Proof. exact ok_in_order. Qed.

(* (5b) the first window starts at token 0 and the last window ends at the last token *)
Theorem C29_windows_span : forall pair t1 t2 limit ov cls sep chs first second,
  encode_chunks pair t1 t2 limit ov cls sep = Chunks chs ->
  ec_inputs pair t1 t2 = Some (first, second) -> chs <> [] ->
  (forall st n, nth_error (ec_layout pair first second limit ov cls sep) 0 = Some (st, n) -> st = 0%nat)
  /\ (forall st n, nth_error (ec_layout pair first second limit ov cls sep) (length chs - 1) = Some (st, n) ->
                   (st + n = length (windowed pair first second))%nat).
Proof. exact ok_ends. Qed.

(* (5c) whenever the limit leaves room for one content token (W > 0) and the call returns
        chunks, every token of the chunked sequence is inside the window of an emitted chunk *)
Theorem C29_windows_cover : forall pair t1 t2 limit ov cls sep chs first second,
  encode_chunks pair t1 t2 limit ov cls sep = Chunks chs ->
  ec_inputs pair t1 t2 = Some (first, second) ->
  forall i, 0 < budget pair first limit cls sep -> (i < length (windowed pair first second))%nat ->
  exists k c st n,
    nth_error chs k = Some c
    /\ nth_error (ec_layout pair first second limit ov cls sep) k = Some (st, n)
    /\ (st <= i)%nat /\ (i < st + n)%nat.
Proof. exact ok_cover. Qed.

(* (6) reflection (soundness) of the executable oracle used by the correspondence check: when
       [judge] reports no failure code for an observed non-empty list of chunks, those chunks
       satisfy the property stated in Prop without reference to the model ([observed_ok],
       Chunks_oracle.v): there are windows ws, one per chunk, with
         chunk = head ++ T[window] ++ [SEP] (whole first sequence in the head for a pair),
         type-id count right, length <= max_chunk_len,
         each window non-empty, inside T, no longer than the requested window,
         first start = 0, consecutive windows advance and overlap by exactly `overlap`,
         last end = |T|. *)
Theorem C29_oracle_sound : forall (pair : bool) first second t2 limit ov cls sep chs,
  sp_err cls = false -> sp_err sep = false ->
  (if pair then t2 else Some (@nil N)) = Some second ->
  chs <> [] ->
  judge pair (Some first) t2 limit ov cls sep (Chunks chs) = [] ->
  observed_ok pair first second limit ov cls sep chs.
Proof. exact judge_sound. Qed.

(* non-vacuity: a call with several full windows, a remainder, special tokens, and each of the
   four outcome classes *)
Example C29_nonvacuous :
  encode_chunks false (Some [10; 11; 12; 13; 14; 15; 16]) None (Some 5) 1 (SpTok 1) (SpTok 2)
    = Chunks [([1; 10; 11; 12; 2], 5); ([1; 12; 13; 14; 2], 5); ([1; 14; 15; 16; 2], 5)]
  /\ ec_layout false [10; 11; 12; 13; 14; 15; 16] [] (Some 5) 1 (SpTok 1) (SpTok 2)
       = [(0, 3); (2, 3); (4, 3)]%nat
  /\ expected_class false (Some [10]) None (Some 2) 0 (SpTok 1) (SpTok 2) = CNoChunks
  /\ expected_class false (Some [10]) None (Some 4) 2 (SpTok 1) (SpTok 2) = CPanic
  /\ expected_class true (Some [10]) None (Some 4) 2 (SpTok 1) (SpTok 2) = CErr
  /\ expected_class true (Some [10]) (Some [20; 21]) (Some 100) 2 (SpTok 1) (SpTok 2) = CChunks.
Proof. vm_compute. repeat split; reflexivity. Qed.
