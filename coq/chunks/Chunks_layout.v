(* Properties of the window layout produced by chunks_with_overlap: bounds, order, exact
   overlap (and where it fails: finding F15), coverage. *)
From RV Require Import Prelude.
From Chunks Require Import ModelChunks Chunks_core.
From Coq Require Import ZifyBool.

Section LayoutProps.
  Variables (len cs s : nat).
  Hypothesis Hs : (1 <= s)%nat.
  Hypothesis Hsc : (s <= cs)%nat.

  Let L := layout len cs s.
  Let nf := n_full len cs s.
  Let rm := rem_size len cs s.

  Lemma layout_bounds k st n : nth_error L k = Some (st, n) ->
    (1 <= n)%nat /\ (n <= cs)%nat /\ (st + n <= len)%nat.
  Proof.
    intros H. apply (layout_nth_inv len cs s Hs Hsc) in H.
    destruct H as [(_ & -> & -> & Hle)|(_ & -> & -> & H1 & H2 & H3 & _)]; lia.
  Qed.

  Lemma layout_first st n : nth_error L 0 = Some (st, n) -> st = 0%nat.
  Proof.
    intros H. apply (layout_nth_inv len cs s Hs Hsc) in H.
    destruct H as [(_ & -> & _)|(E & -> & -> & H1 & H2 & H3 & Hge & Hlt)]; [lia|].
    destruct (Nat.lt_ge_cases len cs) as [Hl|Hl].
    - destruct (Hlt Hl) as [_ ->]. lia.
    - destruct (Hge Hl) as [? _]. lia.
  Qed.

  Lemma layout_last m st n : length L = S m -> nth_error L m = Some (st, n) -> (st + n = len)%nat.
  Proof.
    intros Hlen H. unfold L in Hlen. rewrite layout_length in Hlen.
    apply (layout_nth_inv len cs s Hs Hsc) in H.
    destruct H as [(Hk & -> & -> & Hle)|(E & -> & -> & H1 & H2 & H3 & _)]; [|lia].
    (* the last window is a full one: then there is no remainder *)
    destruct (Nat.ltb_spec 0 (rem_size len cs s)) as [Hr|Hr]; [lia|].
    assert (Hcl : (cs <= len)%nat) by lia.
    pose proof (last_full_end len cs s Hs Hcl) as (E1 & E2 & E3).
    replace m with (n_full len cs s - 1)%nat by lia. lia.
  Qed.

  (* consecutive windows k, k+1 *)
  Lemma layout_consecutive k st n st' n' :
    nth_error L k = Some (st, n) -> nth_error L (S k) = Some (st', n') ->
    n = cs /\ (st < st')%nat /\ (st + n < st' + n')%nat /\ (st' <= st + n)%nat
    /\ (n' = cs -> st' = (st + s)%nat)
    /\ ((n' < cs)%nat -> st' = (st + n)%nat /\ length L = S (S k)).
  Proof.
    intros H1 H2.
    apply (layout_nth_inv len cs s Hs Hsc) in H1. apply (layout_nth_inv len cs s Hs Hsc) in H2.
    destruct H1 as [(Hk & -> & -> & Hle)|(E & _)];
      [|destruct H2 as [(Hk2 & _)|(E2 & _)]; lia].
    destruct H2 as [(Hk2 & -> & -> & Hle2)|(E2 & -> & -> & R1 & R2 & R3 & Hge & _)].
    - (* two full windows *)
      repeat split; try lia.
    - (* last full window, then the remainder *)
      assert (Hcl : (cs <= len)%nat) by lia.
      destruct (Hge Hcl) as (N1 & N2 & N3).
      assert (k = n_full len cs s - 1)%nat by lia. subst k.
      repeat split; try lia.
      unfold L. rewrite layout_length. destruct (Nat.ltb_spec 0 (rem_size len cs s)); lia.
  Qed.

  (* the overlap between consecutive windows is exactly cs - s, unless the second one is the
     final partial chunk -- which starts where its predecessor ended *)
  Lemma layout_overlap_exact k st n st' n' :
    nth_error L k = Some (st, n) -> nth_error L (S k) = Some (st', n') ->
    (n' = cs \/ s = cs) -> (st + n = st' + (cs - s))%nat.
  Proof.
    intros H1 H2 Hc. destruct (layout_consecutive _ _ _ _ _ H1 H2) as (-> & A & B & C & D & E).
    pose proof (layout_bounds _ _ _ H2) as (? & ? & ?).
    destruct (Nat.eq_dec n' cs) as [Hn|Hn]; [rewrite (D Hn); lia|].
    destruct Hc as [?|Hc]; [contradiction|]. destruct E as [-> _]; lia.
  Qed.

  Lemma layout_overlap_iff k st n st' n' :
    nth_error L k = Some (st, n) -> nth_error L (S k) = Some (st', n') ->
    ((st + n = st' + (cs - s))%nat <-> (n' = cs \/ s = cs)).
  Proof.
    intros H1 H2. split; [|apply (layout_overlap_exact _ _ _ _ _ H1 H2)].
    intros E. destruct (layout_consecutive _ _ _ _ _ H1 H2) as (-> & A & B & C & D & F).
    pose proof (layout_bounds _ _ _ H2) as (? & ? & ?).
    destruct (Nat.eq_dec n' cs); [now left|right]. destruct F as [-> _]; lia.
  Qed.

  Lemma layout_empty_iff : L = [] <-> len = 0%nat.
  Proof.
    split.
    - intros E. assert (Hl : length L = 0%nat) by now rewrite E.
      unfold L in Hl. rewrite layout_length in Hl.
      destruct (Nat.lt_ge_cases len cs) as [Hc|Hc].
      + unfold rem_size in Hl. destruct (Nat.ltb_spec len cs); [|lia].
        destruct (Nat.ltb_spec 0 len); lia.
      + pose proof (last_full_end len cs s Hs Hc). lia.
    - intros ->. apply length_zero_iff_nil. unfold L. rewrite layout_length.
      unfold n_full, rem_size. destruct (Nat.leb_spec cs 0); [lia|].
      destruct (Nat.ltb_spec 0 cs); [|lia]. reflexivity.
  Qed.

  (* every position is inside some window *)
  Lemma layout_cover i : (i < len)%nat ->
    exists k st n, nth_error L k = Some (st, n) /\ (st <= i)%nat /\ (i < st + n)%nat.
  Proof.
    intros Hi. destruct (Nat.lt_ge_cases len cs) as [Hc|Hc].
    - (* a single short chunk *)
      assert (E : n_full len cs s = 0%nat /\ rem_size len cs s = len).
      { unfold n_full, rem_size. destruct (Nat.leb_spec cs len); [lia|].
        destruct (Nat.ltb_spec len cs); [auto|lia]. }
      destruct E as [E1 E2]. exists 0%nat, 0%nat, len. split; [|lia].
      unfold L. rewrite (layout_nth_rem len cs s Hs Hsc) by lia. rewrite E1, E2.
      destruct (Nat.ltb_spec 0 len); [|lia]. cbn. f_equal. f_equal. lia.
    - pose proof (last_full_end len cs s Hs Hc) as (E1 & E2 & E3). fold nf rm in E1, E2, E3.
      destruct (Nat.lt_ge_cases i (len - rm)) as [Hlo|Hhi].
      + (* inside the full windows: window min(i / s, nf - 1) *)
        pose proof (Nat.div_mod i s ltac:(lia)) as D.
        pose proof (Nat.mod_upper_bound i s ltac:(lia)) as R.
        set (q := (i / s)%nat) in *. set (r := (i mod s)%nat) in *.
        destruct (Nat.lt_ge_cases q nf) as [Hq|Hq].
        * exists q, (q * s)%nat, cs. split; [apply (layout_nth_full len cs s Hs Hsc); exact Hq|]. lia.
        * exists (nf - 1)%nat, ((nf - 1) * s)%nat, cs.
          split; [apply (layout_nth_full len cs s Hs Hsc); fold nf; lia|].
          assert ((nf - 1) * s <= q * s)%nat by (apply Nat.mul_le_mono_r; lia). lia.
      + (* inside the remainder *)
        exists nf, (len - rm)%nat, rm. split; [|lia].
        unfold L. rewrite (layout_nth_rem len cs s Hs Hsc) by (fold nf; lia). fold nf rm.
        rewrite Nat.eqb_refl. destruct (Nat.ltb_spec 0 rm); [reflexivity|lia].
  Qed.
End LayoutProps.
