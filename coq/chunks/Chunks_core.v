(* Lemmas about the std-iterator models (windows, step_by) and the representation of
   chunks_with_overlap's output as an explicit list of (start, length) windows. *)
From RV Require Import Prelude.
From Chunks Require Import ModelChunks.
From Coq Require Import ZifyBool.
Ltac Zify.zify_post_hook ::= Z.div_mod_to_equations.

(* ------------------------------------------------------------------ list helpers *)
Lemma skipn_skipn {A} (a b : nat) (l : list A) : skipn a (skipn b l) = skipn (b + a) l.
Proof.
  revert l; induction b as [|b IH]; intros l; [reflexivity|].
  destruct l as [|x t]; [now rewrite !skipn_nil|]. cbn [skipn Nat.add]. apply IH.
Qed.

Lemma nth_error_ext {A} (l1 l2 : list A) :
  (forall k, nth_error l1 k = nth_error l2 k) -> l1 = l2.
Proof.
  revert l2; induction l1 as [|x t IH]; intros [|y u] H; try reflexivity.
  - specialize (H 0%nat); discriminate.
  - specialize (H 0%nat); discriminate.
  - pose proof (H 0%nat) as H0; cbn in H0; injection H0 as ->. f_equal.
    apply IH; intros k; exact (H (S k)).
Qed.

Lemma nth_error_map_seq {B} (f : nat -> B) (n k : nat) :
  nth_error (map f (seq 0 n)) k = if (k <? n)%nat then Some (f k) else None.
Proof.
  destruct (Nat.ltb_spec k n) as [Hk|Hk].
  - rewrite nth_error_map. rewrite nth_error_nth' with (d := 0%nat) by (now rewrite seq_length).
    cbn [option_map]. now rewrite seq_nth.
  - apply nth_error_None. now rewrite map_length, seq_length.
Qed.

(* ------------------------------------------------------------------ windows *)
Section WithA.
  Context {A : Type}.
  Implicit Types (l t : list A) (x : A).

  Lemma windows_short cs l : (length l < cs)%nat -> windows cs l = [].
  Proof.
    destruct l as [|x t]; [reflexivity|]. intros H. cbn [windows].
    destruct (Nat.leb_spec cs (length (x :: t))); [lia|reflexivity].
  Qed.

  Lemma windows_cons cs x t :
    (cs <= length (x :: t))%nat -> windows cs (x :: t) = firstn cs (x :: t) :: windows cs t.
  Proof.
    intros H. cbn [windows]. destruct (Nat.leb_spec cs (length (x :: t))); [reflexivity|lia].
  Qed.

  Lemma skipn_windows cs k l : skipn k (windows cs l) = windows cs (skipn k l).
  Proof.
    revert k; induction l as [|x t IH]; intros k.
    - cbn [windows]. now rewrite !skipn_nil.
    - destruct k as [|k]; [reflexivity|]. change (skipn (S k) (x :: t)) with (skipn k t).
      destruct (Nat.leb_spec cs (length (x :: t))) as [H|H].
      + rewrite windows_cons by exact H. rewrite skipn_cons. apply IH.
      + rewrite windows_short by exact H. rewrite skipn_nil. symmetry. apply windows_short.
        rewrite skipn_length. cbn [length] in H. lia.
  Qed.
End WithA.

(* ------------------------------------------------------------------ step_by *)
Section WithB.
  Context {B : Type}.
  Implicit Types (l t : list B) (x : B).

  Lemma step_by_aux_skip s k l : step_by_aux s k l = step_by_aux s 0 (skipn k l).
  Proof.
    revert k; induction l as [|x t IH]; intros k.
    - now rewrite skipn_nil.
    - destruct k as [|k]; [reflexivity|]. cbn [step_by_aux skipn]. apply IH.
  Qed.

  Lemma step_by_cons s x t : (1 <= s)%nat -> step_by s (x :: t) = x :: step_by s (skipn s (x :: t)).
  Proof.
    intros Hs. unfold step_by. cbn [step_by_aux]. f_equal.
    rewrite step_by_aux_skip. destruct s as [|s]; [lia|]. cbn [skipn].
    now replace (S s - 1)%nat with s by lia.
  Qed.
End WithB.

(* ------------------------------------------------------------------ full windows *)
Section FullWindows.
  Context {A : Type}.
  Implicit Types (l t : list A) (x : A).

  Definition fw (cs s : nat) l : list (list A) := step_by s (windows cs l).

  (* the loop that windows(cs).step_by(s) performs *)
  Lemma fw_unfold cs s l : (1 <= cs)%nat -> (1 <= s)%nat ->
    fw cs s l = if (cs <=? length l)%nat then firstn cs l :: fw cs s (skipn s l) else [].
  Proof.
    intros Hcs Hs. unfold fw. destruct l as [|x t].
    - cbn [windows length]. destruct (Nat.leb_spec cs 0); [lia|reflexivity].
    - destruct (Nat.leb_spec cs (length (x :: t))) as [H|H].
      + rewrite windows_cons by exact H. rewrite step_by_cons by exact Hs. f_equal.
        rewrite <- (windows_cons cs x t H). now rewrite skipn_windows.
      + now rewrite windows_short by exact H.
  Qed.

  Lemma fw_nth cs s : (1 <= cs)%nat -> (1 <= s)%nat -> forall k l,
    nth_error (fw cs s l) k =
      if (k * s + cs <=? length l)%nat then Some (firstn cs (skipn (k * s) l)) else None.
  Proof.
    intros Hcs Hs. induction k as [|k IH]; intros l; rewrite fw_unfold by assumption.
    - cbn [Nat.mul Nat.add]. destruct (Nat.leb_spec cs (length l)); reflexivity.
    - destruct (Nat.leb_spec cs (length l)) as [H|H].
      + cbn [nth_error]. rewrite IH, skipn_length, skipn_skipn.
        replace (s + k * s)%nat with (S k * s)%nat by lia.
        destruct (Nat.leb_spec (k * s + cs) (length l - s)), (Nat.leb_spec (S k * s + cs) (length l));
          try reflexivity; lia.
      + cbn [nth_error]. destruct (Nat.leb_spec (S k * s + cs) (length l)); [lia|reflexivity].
  Qed.
End FullWindows.

(* ------------------------------------------------------------------ layout arithmetic *)
Lemma n_full_spec len cs s k : (1 <= s)%nat ->
  (k <? n_full len cs s)%nat = (k * s + cs <=? len)%nat.
Proof.
  intros Hs. unfold n_full. destruct (Nat.leb_spec cs len) as [H|H].
  - pose proof (Nat.div_mod (len - cs) s ltac:(lia)) as E.
    pose proof (Nat.mod_upper_bound (len - cs) s ltac:(lia)) as R.
    set (q := ((len - cs) / s)%nat) in *. set (r := ((len - cs) mod s)%nat) in *.
    destruct (Nat.ltb_spec k (q + 1)) as [Hk|Hk], (Nat.leb_spec (k * s + cs) len) as [Hl|Hl];
      try reflexivity; exfalso.
    + assert (k * s <= q * s)%nat by (apply Nat.mul_le_mono_r; lia). lia.
    + assert ((q + 1) * s <= k * s)%nat by (apply Nat.mul_le_mono_r; lia). lia.
  - destruct (Nat.leb_spec (k * s + cs) len); [lia|]. reflexivity.
Qed.

(* end of the last full window = start of the remainder *)
Lemma last_full_end len cs s : (1 <= s)%nat -> (cs <= len)%nat ->
  ((n_full len cs s - 1) * s + cs = len - rem_size len cs s)%nat
  /\ (1 <= n_full len cs s)%nat /\ (rem_size len cs s < s)%nat.
Proof.
  intros Hs H. unfold n_full, rem_size.
  destruct (Nat.leb_spec cs len); [|lia]. destruct (Nat.ltb_spec len cs); [lia|].
  pose proof (Nat.div_mod (len - cs) s ltac:(lia)) as E.
  pose proof (Nat.mod_upper_bound (len - cs) s ltac:(lia)) as R.
  set (q := ((len - cs) / s)%nat) in *. set (r := ((len - cs) mod s)%nat) in *.
  replace (q + 1 - 1)%nat with q by lia.
  split; [|split]; lia.
Qed.

(* ------------------------------------------------------------------ representation *)
Section Repr.
  Context {A : Type}.
  Implicit Types (l t : list A) (x : A).

  Lemma slice_all l n : (length l <= n)%nat -> slice l (0%nat, n) = l.
  Proof. intros H. unfold slice; cbn [fst snd skipn]. now apply firstn_all2. Qed.

  (* chunks_with_overlap yields exactly the windows of [layout], in that order *)
  Theorem cwo_layout l (cs ov : N) : (ov < cs)%N ->
    chunks_with_overlap l cs ov =
      Some (map (slice l) (layout (length l) (N.to_nat cs) (N.to_nat (cs - ov)))).
  Proof.
    intros Hov. unfold chunks_with_overlap, nlen.
    destruct (N.leb_spec cs ov) as [?|_]; [lia|]. f_equal.
    set (len := length l). set (c := N.to_nat cs). set (s := N.to_nat (cs - ov)).
    assert (Hs : (1 <= s)%nat) by (unfold s; lia).
    assert (Hc : (1 <= c)%nat) by (unfold c; lia).
    unfold layout. rewrite map_app.
    destruct (N.ltb_spec (N.of_nat len) cs) as [Hlt|Hge].
    - (* one short chunk, or nothing *)
      assert (Hlt' : (len < c)%nat) by (unfold c; lia).
      assert (Hn : n_full len c s = 0%nat).
      { unfold n_full. destruct (Nat.leb_spec c len); [lia|reflexivity]. }
      assert (Hr : rem_size len c s = len).
      { unfold rem_size. destruct (Nat.ltb_spec len c); [reflexivity|lia]. }
      rewrite Hn, Hr. cbn [seq map app].
      destruct (N.ltb_spec 0 (N.of_nat len)), (Nat.ltb_spec 0 len); try lia; [|reflexivity].
      cbn [map]. f_equal. replace (len - len)%nat with 0%nat by lia.
      replace (N.to_nat (N.of_nat len - N.of_nat len)) with 0%nat by lia.
      rewrite slice_all by (unfold len; lia). reflexivity.
    - assert (Hge' : (c <= len)%nat) by (unfold c; lia).
      assert (Hr : N.to_nat ((N.of_nat len - cs) mod (cs - ov)) = rem_size len c s).
      { unfold rem_size. destruct (Nat.ltb_spec len c); [lia|].
        rewrite N2Nat.inj_mod, N2Nat.inj_sub, Nat2N.id. reflexivity. }
      f_equal.
      + (* the full windows *)
        change (step_by s (windows c l)) with (fw c s l).
        apply nth_error_ext; intros k. rewrite fw_nth by assumption.
        rewrite map_map, nth_error_map_seq, n_full_spec by assumption. reflexivity.
      + (* the remainder *)
        set (r := ((N.of_nat len - cs) mod (cs - ov))%N) in *.
        destruct (N.ltb_spec 0 r), (Nat.ltb_spec 0 (rem_size len c s)); try lia; [|reflexivity].
        cbn [map]. f_equal. unfold slice; cbn [fst snd].
        replace (N.to_nat (N.of_nat len - r)) with (len - rem_size len c s)%nat by lia.
        symmetry. apply firstn_all2. rewrite skipn_length. fold len.
        pose proof (last_full_end len c s Hs Hge'). lia.
  Qed.
End Repr.

(* ------------------------------------------------------------------ facts about layout *)
Section Layout.
  Variables (len cs s : nat).
  Hypothesis Hs : (1 <= s)%nat.
  Hypothesis Hsc : (s <= cs)%nat.

  Let nf := n_full len cs s.
  Let rm := rem_size len cs s.

  Lemma layout_length : length (layout len cs s) = (nf + if (0 <? rm)%nat then 1 else 0)%nat.
  Proof.
    unfold layout. rewrite app_length, map_length, seq_length. fold rm nf.
    destruct (0 <? rm)%nat; reflexivity.
  Qed.

  Lemma layout_nth_full k : (k < nf)%nat -> nth_error (layout len cs s) k = Some ((k * s)%nat, cs).
  Proof.
    intros Hk. unfold layout. rewrite nth_error_app1 by (now rewrite map_length, seq_length).
    rewrite nth_error_map_seq. fold nf. destruct (Nat.ltb_spec k nf); [reflexivity|lia].
  Qed.

  Lemma layout_nth_rem k : (nf <= k)%nat ->
    nth_error (layout len cs s) k =
      if ((k =? nf) && (0 <? rm))%nat then Some ((len - rm)%nat, rm) else None.
  Proof.
    intros Hk. unfold layout. rewrite nth_error_app2 by (now rewrite map_length, seq_length).
    rewrite map_length, seq_length. fold nf rm.
    destruct (Nat.eqb_spec k nf) as [->|Hne].
    - rewrite Nat.sub_diag. destruct (0 <? rm)%nat; reflexivity.
    - destruct (k - nf)%nat as [|j] eqn:E; [lia|]. cbn [andb].
      destruct (0 <? rm)%nat; cbn [nth_error]; [destruct j|]; reflexivity.
  Qed.

  (* every window: which one it is, and its bounds *)
  Lemma layout_nth_inv k st n : nth_error (layout len cs s) k = Some (st, n) ->
    ((k < nf)%nat /\ st = (k * s)%nat /\ n = cs /\ (k * s + cs <= len)%nat)
    \/ (k = nf /\ st = (len - rm)%nat /\ n = rm /\ (0 < rm)%nat /\ (rm < cs)%nat /\ (rm <= len)%nat
        /\ ((cs <= len)%nat -> (1 <= nf)%nat /\ ((nf - 1) * s + cs = len - rm)%nat /\ (rm < s)%nat)
        /\ ((len < cs)%nat -> nf = 0%nat /\ rm = len)).
  Proof.
    intros H. destruct (Nat.lt_ge_cases k nf) as [Hk|Hk].
    - left. rewrite layout_nth_full in H by exact Hk. injection H as <- <-.
      pose proof (n_full_spec len cs s k Hs) as E. fold nf in E.
      destruct (Nat.ltb_spec k nf); [|lia]. destruct (Nat.leb_spec (k * s + cs) len); [|discriminate].
      auto.
    - right. rewrite layout_nth_rem in H by exact Hk.
      destruct (Nat.eqb_spec k nf) as [->|]; [|discriminate].
      destruct (Nat.ltb_spec 0 rm) as [Hr|]; [|discriminate]. cbn [andb] in H. injection H as <- <-.
      split; [reflexivity|]. split; [reflexivity|]. split; [reflexivity|]. split; [exact Hr|].
      destruct (Nat.lt_ge_cases len cs) as [Hl|Hl].
      + assert (nf = 0%nat /\ rm = len).
        { unfold nf, rm, n_full, rem_size.
          destruct (Nat.leb_spec cs len); [lia|]. destruct (Nat.ltb_spec len cs); [auto|lia]. }
        repeat split; try lia.
      + pose proof (last_full_end len cs s Hs Hl) as (E1 & E2 & E3). fold nf rm in E1, E2, E3.
        assert (rm <= len)%nat.
        { unfold rm, rem_size. destruct (Nat.ltb_spec len cs); [lia|].
          pose proof (Nat.mod_le (len - cs) s). lia. }
        repeat split; try lia.
  Qed.
End Layout.
