(* encode_chunks in closed form, and the property-level consequences. *)
From RV Require Import Prelude.
From Chunks Require Import ModelChunks Chunks_core Chunks_layout.
From Coq Require Import ZifyBool.

Lemma cwo_panic {A} (l : list A) cs ov : (cs <= ov)%N -> chunks_with_overlap l cs ov = None.
Proof. intros H. unfold chunks_with_overlap. destruct (N.leb_spec cs ov); [reflexivity|lia]. Qed.

Lemma nlen_zero {A} (l : list A) : (nlen l =? 0)%N = true <-> l = [].
Proof.
  unfold nlen. destruct l; cbn [length]; split; intros H; try reflexivity; try discriminate.
Qed.

(* ------------------------------------------------------------------ closed form *)
Definition chunk_of (pair : bool) (first T : list N) (cls sep : special) (p : nat * nat) : chunk :=
  assemble pair (full_head pair first cls sep) sep (slice T p).

Theorem ec_eval pair t1 t2 limit ov cls sep first second :
  sp_err cls = false -> sp_err sep = false -> ec_inputs pair t1 t2 = Some (first, second) ->
  encode_chunks pair t1 t2 limit ov cls sep =
    (let W := budget pair first limit cls sep in
     let T := windowed pair first second in
     if (W =? 0)%N then Chunks []
     else if pair && (nlen T =? 0)%N then Chunks []
     else if (W <=? ov)%N then PanicOut
     else Chunks (map (chunk_of pair first T cls sep) (ec_layout pair first second limit ov cls sep))).
Proof.
  intros Hc Hs Hin. unfold encode_chunks, ec_inputs in *. rewrite Hc, Hs. cbn [orb].
  destruct t1 as [f|]; [|destruct (if pair then t2 else Some []); discriminate].
  destruct (if pair then t2 else Some []) as [s2|] eqn:E2; [|discriminate].
  injection Hin as -> ->.
  unfold ec_layout, budget, windowed, chunk_of, full_head, chunk_head.
  set (mt := max_tokens pair limit cls sep).
  destruct pair.
  - (* Pair *)
    unfold first_len.
    destruct (N.eqb_spec mt 0) as [Hm|Hm].
    + destruct (N.eqb_spec (mt - N.min (nlen first) mt) 0); [reflexivity|lia].
    + destruct (N.eqb_spec (mt - N.min (nlen first) mt) 0) as [HW|HW].
      * destruct (N.eqb_spec (N.min (nlen second) (mt - N.min (nlen first) mt)) 0); [reflexivity|lia].
      * cbn [andb].
        destruct (N.eqb_spec (nlen second) 0) as [H2|H2].
        -- destruct (N.eqb_spec (N.min (nlen second) (mt - N.min (nlen first) mt)) 0); [reflexivity|lia].
        -- destruct (N.eqb_spec (N.min (nlen second) (mt - N.min (nlen first) mt)) 0); [lia|].
           destruct (N.leb_spec (mt - N.min (nlen first) mt) ov) as [Ho|Ho].
           ++ now rewrite cwo_panic.
           ++ rewrite cwo_layout by exact Ho. rewrite map_map. f_equal.
              assert (Hf : N.to_nat (N.min (nlen first) mt) = length first)
                by (unfold nlen in *; lia).
              rewrite Hf, firstn_all. reflexivity.
  - (* Item *)
    cbn [andb].
    destruct (N.eqb_spec mt 0) as [Hm|Hm]; [reflexivity|].
    destruct (N.leb_spec mt ov) as [Ho|Ho].
    + now rewrite cwo_panic.
    + rewrite cwo_layout by exact Ho. rewrite map_map. reflexivity.
Qed.

Lemma ec_err pair t1 t2 limit ov cls sep :
  sp_err cls || sp_err sep = true \/ ec_inputs pair t1 t2 = None ->
  encode_chunks pair t1 t2 limit ov cls sep = ErrOut.
Proof.
  unfold encode_chunks, ec_inputs. intros [H|H]; [now rewrite H|].
  destruct (sp_err cls || sp_err sep); [reflexivity|].
  destruct t1; [|destruct (if pair then t2 else Some []); reflexivity].
  destruct (if pair then t2 else Some []); [discriminate|reflexivity].
Qed.

(* ------------------------------------------------------------------ totality *)
Theorem ec_totality pair t1 t2 limit ov cls sep :
  class_of (encode_chunks pair t1 t2 limit ov cls sep) = expected_class pair t1 t2 limit ov cls sep.
Proof.
  unfold expected_class.
  destruct (sp_err cls || sp_err sep) eqn:He; [now rewrite ec_err by (now left)|].
  destruct (ec_inputs pair t1 t2) as [[first second]|] eqn:Hi; [|now rewrite ec_err by (now right)].
  apply orb_false_elim in He as [Hc Hs].
  rewrite (ec_eval _ _ _ _ _ _ _ _ _ Hc Hs Hi). cbv zeta.
  set (W := budget pair first limit cls sep). set (T := windowed pair first second).
  destruct (N.eqb_spec W 0) as [HW|HW]; [reflexivity|].
  destruct (pair && (nlen T =? 0)%N); [reflexivity|].
  destruct (N.leb_spec W ov) as [Ho|Ho]; [reflexivity|].
  assert (Hs1 : (1 <= N.to_nat (W - ov))%nat) by lia.
  assert (Hs2 : (N.to_nat (W - ov) <= N.to_nat W)%nat) by lia.
  pose proof (layout_empty_iff (length T) _ _ Hs1 Hs2) as LE.
  unfold ec_layout. fold W T.
  destruct (N.eqb_spec (nlen T) 0) as [HT|HT].
  - assert (E : length T = 0%nat) by (unfold nlen in HT; lia).
    apply LE in E. rewrite E. reflexivity.
  - destruct (layout (length T) (N.to_nat W) (N.to_nat (W - ov))) eqn:EL; [|reflexivity].
    exfalso. assert (length T = 0%nat) by (now apply LE). unfold nlen in HT. lia.
Qed.

(* ------------------------------------------------------------------ Ok outcomes *)
(* If the outcome is a non-empty list of chunks, the parameters are in the "regular" region and
   the chunks are exactly the windows of ec_layout, in order. *)
Theorem ec_chunks_repr pair t1 t2 limit ov cls sep chs :
  encode_chunks pair t1 t2 limit ov cls sep = Chunks chs ->
  exists first second,
    ec_inputs pair t1 t2 = Some (first, second) /\
    let W := budget pair first limit cls sep in
    let T := windowed pair first second in
    (chs = [] /\ (W = 0%N \/ T = []))
    \/ ((0 < W)%N /\ (ov < W)%N /\ T <> [] /\
        chs = map (chunk_of pair first T cls sep) (ec_layout pair first second limit ov cls sep)).
Proof.
  intros H.
  destruct (sp_err cls || sp_err sep) eqn:He; [rewrite ec_err in H by (now left); discriminate|].
  destruct (ec_inputs pair t1 t2) as [[first second]|] eqn:Hi;
    [|rewrite ec_err in H by (now right); discriminate].
  apply orb_false_elim in He as [Hc Hs].
  rewrite (ec_eval _ _ _ _ _ _ _ _ _ Hc Hs Hi) in H. cbv zeta in H.
  exists first, second. split; [reflexivity|]. cbv zeta.
  set (W := budget pair first limit cls sep) in *. set (T := windowed pair first second) in *.
  destruct (N.eqb_spec W 0) as [HW|HW]; [injection H as <-; left; auto|].
  destruct (N.eqb_spec (nlen T) 0) as [HT|HT].
  - (* nothing to window: no chunks either way *)
    assert (ET : T = []) by (apply nlen_zero; now apply N.eqb_eq).
    left. split; [|now right].
    destruct pair; cbn [andb] in H; [now injection H as <-|].
    destruct (N.leb_spec W ov); [discriminate|]. injection H as <-.
    unfold ec_layout. fold W T. rewrite ET. cbn [length].
    assert (Hs1 : (1 <= N.to_nat (W - ov))%nat) by lia.
    assert (Hs2 : (N.to_nat (W - ov) <= N.to_nat W)%nat) by lia.
    now rewrite (proj2 (layout_empty_iff 0 _ _ Hs1 Hs2) eq_refl).
  - rewrite andb_false_r in H.
    destruct (N.leb_spec W ov); [discriminate|]. injection H as <-.
    right. repeat split; try lia. intros ->. now apply HT.
Qed.

(* ------------------------------------------------------------------ property-level theorems *)
Lemma sp_toks_length s : length (sp_toks s) = N.to_nat (sp_count s).
Proof. destruct s; reflexivity. Qed.

Lemma slice_length {A} (l : list A) st n : (st + n <= length l)%nat -> length (slice l (st, n)) = n.
Proof. intros H. unfold slice; cbn [fst snd]. rewrite firstn_length, skipn_length. lia. Qed.

Section Ok.
  Variables (pair : bool) (t1 t2 : option (list N)) (limit : option N) (ov : N) (cls sep : special).
  Variables (chs : list chunk) (first second : list N).
  Hypothesis HR : encode_chunks pair t1 t2 limit ov cls sep = Chunks chs.
  Hypothesis Hin : ec_inputs pair t1 t2 = Some (first, second).

  Let W := budget pair first limit cls sep.
  Let T := windowed pair first second.
  Let L := ec_layout pair first second limit ov cls sep.

  Lemma ok_cases :
    (chs = [] /\ (W = 0%N \/ T = []))
    \/ ((0 < W)%N /\ (ov < W)%N /\ T <> [] /\ chs = map (chunk_of pair first T cls sep) L).
  Proof.
    destruct (ec_chunks_repr _ _ _ _ _ _ _ _ HR) as (f & s2 & Hi & H).
    rewrite Hin in Hi. injection Hi as <- <-. exact H.
  Qed.

  Lemma ok_regular : chs <> [] ->
    (0 < W)%N /\ (ov < W)%N /\ T <> [] /\ chs = map (chunk_of pair first T cls sep) L
    /\ (1 <= N.to_nat (W - ov))%nat /\ (N.to_nat (W - ov) <= N.to_nat W)%nat.
  Proof.
    intros Hne. destruct ok_cases as [[E _]|(A & B & C & D)]; [contradiction|].
    repeat split; try assumption; lia.
  Qed.

  Lemma ok_length : chs <> [] -> length chs = length L.
  Proof. intros H. destruct (ok_regular H) as (_ & _ & _ & -> & _). now rewrite map_length. Qed.

  (* windows_contiguous + chunk structure: the k-th chunk is  head ++ window_k ++ sep  where
     window_k is the contiguous block [st, st+n) of the chunked sequence *)
  Theorem ok_contiguous k c : nth_error chs k = Some c ->
    exists st n,
      nth_error L k = Some (st, n)
      /\ fst c = full_head pair first cls sep ++ slice T (st, n) ++ sp_toks sep
      /\ snd c = (if pair then nlen (full_head pair first cls sep) else nlen (fst c))
      /\ length (slice T (st, n)) = n
      /\ (1 <= n)%nat /\ (N.of_nat n <= W)%N /\ (st + n <= length T)%nat.
  Proof.
    intros Hk. assert (Hne : chs <> []) by (intros ->; destruct k; discriminate).
    destruct (ok_regular Hne) as (HW & Ho & HT & E & S1 & S2).
    rewrite E, nth_error_map in Hk.
    destruct (nth_error L k) as [[st n]|] eqn:EL; [|discriminate]. injection Hk as <-.
    unfold L, ec_layout in EL. fold W T in EL.
    pose proof (layout_bounds _ _ _ S1 S2 _ _ _ EL) as (B1 & B2 & B3).
    exists st, n. split; [reflexivity|]. split; [reflexivity|]. split; [reflexivity|].
    split; [now apply slice_length|]. repeat split; try lia.
  Qed.

  (* chunk_len_bound *)
  Theorem ok_len_bound m c : limit = Some m -> In c chs -> (nlen (fst c) <= m)%N.
  Proof.
    intros Hl Hc. apply In_nth_error in Hc as [k Hk].
    destruct (ok_contiguous _ _ Hk) as (st & n & _ & E & _ & Hn & _ & Hw & _).
    assert (Hne : chs <> []) by (intros ->; destruct k; discriminate).
    destruct (ok_regular Hne) as (HW & _).
    unfold nlen. rewrite E, !app_length, Hn, sp_toks_length.
    unfold W, budget, max_tokens, overhead, first_len, full_head, nlen in *. rewrite Hl in *.
    destruct pair; rewrite ?app_length, ?sp_toks_length; lia.
  Qed.

  (* consecutive_overlap_exact: for every pair of consecutive chunks except
     (last full window, final partial chunk) -- finding F15 *)
  Theorem ok_overlap_exact k st n st' n' :
    nth_error L k = Some (st, n) -> nth_error L (S k) = Some (st', n') -> chs <> [] ->
    (N.of_nat n' = W \/ ov = 0%N) -> (N.of_nat (st + n) = N.of_nat st' + ov)%N.
  Proof.
    intros H1 H2 Hne Hc. destruct (ok_regular Hne) as (HW & Ho & _ & _ & S1 & S2).
    unfold L, ec_layout in H1, H2. fold W T in H1, H2.
    pose proof (layout_overlap_exact _ _ _ S1 S2 _ _ _ _ _ H1 H2) as E.
    assert ((st + n = st' + (N.to_nat W - N.to_nat (W - ov)))%nat) by (apply E; lia). lia.
  Qed.

  (* ... and the excluded class is exactly the class on which it fails *)
  Theorem ok_overlap_iff k st n st' n' :
    nth_error L k = Some (st, n) -> nth_error L (S k) = Some (st', n') -> chs <> [] ->
    ((N.of_nat (st + n) = N.of_nat st' + ov)%N <-> (N.of_nat n' = W \/ ov = 0%N)).
  Proof.
    intros H1 H2 Hne. destruct (ok_regular Hne) as (HW & Ho & _ & _ & S1 & S2).
    unfold L, ec_layout in H1, H2. fold W T in H1, H2.
    pose proof (layout_overlap_iff _ _ _ S1 S2 _ _ _ _ _ H1 H2) as E. split.
    - intros X. assert (Y : (st + n = st' + (N.to_nat W - N.to_nat (W - ov)))%nat) by lia.
      apply E in Y. lia.
    - intros X. assert (Y : (st + n = st' + (N.to_nat W - N.to_nat (W - ov)))%nat) by (apply E; lia).
      lia.
  Qed.

  (* the final partial chunk starts where its predecessor ends (overlap 0) and is the last *)
  Theorem ok_remainder_adjacent k st n st' n' :
    nth_error L k = Some (st, n) -> nth_error L (S k) = Some (st', n') -> chs <> [] ->
    (N.of_nat n' < W)%N -> st' = (st + n)%nat /\ length chs = S (S k).
  Proof.
    intros H1 H2 Hne Hc. destruct (ok_regular Hne) as (HW & Ho & _ & _ & S1 & S2).
    rewrite (ok_length Hne).
    unfold L, ec_layout in *. fold W T in H1, H2 |- *.
    destruct (layout_consecutive _ _ _ S1 S2 _ _ _ _ _ H1 H2) as (_ & _ & _ & _ & _ & F).
    apply F. lia.
  Qed.

  (* windows_cover_in_order, part 1: order, progress, no gaps between consecutive windows *)
  Theorem ok_in_order k st n st' n' :
    nth_error L k = Some (st, n) -> nth_error L (S k) = Some (st', n') -> chs <> [] ->
    (st < st')%nat /\ (st + n < st' + n')%nat /\ (st' <= st + n)%nat.
  Proof.
    intros H1 H2 Hne. destruct (ok_regular Hne) as (HW & Ho & _ & _ & S1 & S2).
    unfold L, ec_layout in H1, H2. fold W T in H1, H2.
    destruct (layout_consecutive _ _ _ S1 S2 _ _ _ _ _ H1 H2) as (_ & A & B & C & _). auto.
  Qed.

  (* part 2: the first window starts at token 0, the last one ends at the last token *)
  Theorem ok_ends : chs <> [] ->
    (forall st n, nth_error L 0 = Some (st, n) -> st = 0%nat)
    /\ (forall st n, nth_error L (length chs - 1) = Some (st, n) -> (st + n = length T)%nat).
  Proof.
    intros Hne. destruct (ok_regular Hne) as (HW & Ho & _ & _ & S1 & S2).
    pose proof (ok_length Hne) as El. unfold L, ec_layout in *. fold W T in El |- *. split.
    - intros st n H. exact (layout_first _ _ _ S1 S2 _ _ H).
    - intros st n H. rewrite El in H.
      destruct (length (layout (length T) (N.to_nat W) (N.to_nat (W - ov)))) as [|m] eqn:E.
      + destruct chs; [contradiction|discriminate].
      + apply (layout_last _ _ _ S1 S2 m); [exact E|].
        now replace (S m - 1)%nat with m in H by lia.
  Qed.

  (* part 3: whenever there is room for at least one content token, every token of the chunked
     sequence lies in the window of some emitted chunk *)
  Theorem ok_cover i : (0 < W)%N -> (i < length T)%nat ->
    exists k c st n, nth_error chs k = Some c /\ nth_error L k = Some (st, n)
                     /\ (st <= i)%nat /\ (i < st + n)%nat.
  Proof.
    intros HW Hi.
    destruct ok_cases as [[_ [E|E]]|(_ & Ho & _ & E)]; [lia|rewrite E in Hi; cbn in Hi; lia|].
    assert (S1 : (1 <= N.to_nat (W - ov))%nat) by lia.
    assert (S2 : (N.to_nat (W - ov) <= N.to_nat W)%nat) by lia.
    destruct (layout_cover _ _ _ S1 S2 _ Hi) as (k & st & n & Hk & A & B).
    exists k, (chunk_of pair first T cls sep (st, n)), st, n.
    unfold L, ec_layout. fold W T. rewrite E, nth_error_map. unfold L, ec_layout. fold W T.
    rewrite Hk. auto.
  Qed.
End Ok.
