(* Model of rten-text/src/normalizers.rs (Bert, Replace, Sequence, Unicode) at the level the
   offset-map property talks about.

   A text is the list of its chars (code points, [N]); [len8] is UTF-8 length, so byte
   positions are sums of [len8].  Offsets are byte positions ([nat]: they are bounded by the
   text length).  Everything Unicode-table- or regex-shaped is an ORACLE ([oracles] record):
   char::to_lowercase, decompose_canonical, decompose_compatible, is_mark_nonspacing,
   compose and fancy_regex::Regex::find_iter.  The correspondence harness supplies, per
   case, the finite part of these functions that the Rust run used (as tables).

   This file contains executable definitions and the specification predicates only. *)
From RV Require Import Prelude.
Open Scope N_scope.

(* ---------- UTF-8 geometry ---------- *)
(* char::len_utf8 *)
Definition len8 (c : N) : nat :=
  if c <? 128 then 1%nat else if c <? 2048 then 2%nat else if c <? 65536 then 3%nat else 4%nat.

(* str::len of the text whose chars are t *)
Fixpoint blen (t : list N) : nat :=
  match t with [] => 0%nat | c :: r => (len8 c + blen r)%nat end.

(* text.char_indices(), starting at byte position pos *)
Fixpoint indexed_from (pos : nat) (t : list N) : list (nat * N) :=
  match t with [] => [] | c :: r => (pos, c) :: indexed_from (pos + len8 c) r end.
Definition indexed (t : list N) := indexed_from 0 t.

(* ---------- oracles ---------- *)
Record oracles := {
  o_lower : N -> list N;                 (* char::to_lowercase *)
  o_canon : N -> list N;                 (* decompose_canonical, in emission order *)
  o_compat : N -> list N;                (* decompose_compatible *)
  o_is_mn : N -> bool;                   (* is_mark_nonspacing *)
  o_compose : N -> N -> option N;        (* unicode_normalization::char::compose *)
  (* regex.find_iter(text): Some matches (byte ranges, in order), None = a match attempt
     returned Err.  First argument identifies the pattern. *)
  o_find : N -> list N -> option (list (nat * nat));
}.

(* ---------- Bert ---------- *)
(* CharNormalizer: set_char; strip_accents (if enabled); lower_case (if enabled) *)
Definition bert_char (O : oracles) (lower strip : bool) (c : N) : list N :=
  let n0 := [c] in
  let n1 := if strip
            then flat_map (fun x => filter (fun d => negb (o_is_mn O d)) (o_canon O x)) n0
            else n0 in
  if lower then flat_map (o_lower O) n1 else n1.

(* for ch in normalized { for _ in 0..ch.len_utf8() { offsets.push(offset) } } *)
Definition rep_offsets (o : nat) (cs : list N) : list nat :=
  flat_map (fun c => repeat o (len8 c)) cs.

Definition bert (O : oracles) (lower strip : bool) (t : list N) : list N * list nat :=
  if negb lower && negb strip
  then (t, seq 0 (blen t))                              (* is_noop fast path: (0..text.len()) *)
  else
    let per := map (fun oc => (fst oc, bert_char O lower strip (snd oc))) (indexed t) in
    (flat_map snd per, flat_map (fun p => rep_offsets (fst p) (snd p)) per).

(* ---------- Replace ---------- *)
Definition boundaryb (t : list N) (o : nat) : bool :=
  existsb (fun p => Nat.eqb (fst p) o) (indexed t) || Nat.eqb o (blen t).

(* &text[a..b] for char boundaries a <= b: the chars starting in [a, b) *)
Definition slice (t : list N) (a b : nat) : list N :=
  map snd (filter (fun p => Nat.leb a (fst p) && Nat.ltb (fst p) b) (indexed t)).
(* &text[a..b] panics unless a <= b and both are char boundaries (b <= len is implied) *)
Definition slice_ok (t : list N) (a b : nat) : bool :=
  Nat.leb a b && boundaryb t a && boundaryb t b.

(* the body of Replace::normalize after find_iter has produced [ms]; None = slicing panic *)
Fixpoint replace_go (t content : list N) (ms : list (nat * nat)) (last : nat)
  : option (list N * list nat) :=
  match ms with
  | [] =>
      if slice_ok t last (blen t)
      then Some (slice t last (blen t), seq last (blen t - last))
      else None
  | (s, e) :: r =>
      if slice_ok t last s then
        match replace_go t content r e with
        | Some (u, offs) =>
            Some (slice t last s ++ content ++ u,
                  seq last (s - last) ++ repeat s (blen content) ++ offs)
        | None => None
        end
      else None
  end.

(* ---------- Unicode (UnicodeBuf) ---------- *)
Inductive uform := Nfc | Nfd | Nfkc | Nfkd.

(* the buffer as a stack: head = last pushed (char, source offset) *)
Definition ubuf := list (N * nat).

Definition push_compose (O : oracles) (buf : ubuf) (ch : N) (o : nat) : ubuf :=
  match buf with
  | (pc, po) :: r =>
      match o_compose O pc ch with
      | Some cc => (cc, po) :: r
      | None => (ch, o) :: (pc, po) :: r
      end
  | [] => [(ch, o)]
  end.

Definition uni_step (O : oracles) (f : uform) (buf : ubuf) (oc : nat * N) : ubuf :=
  let o := fst oc in
  let c := snd oc in
  match f with
  | Nfc => push_compose O buf c o
  | Nfd => fold_left (fun b d => (d, o) :: b) (o_canon O c) buf
  | Nfkc => fold_left (fun b d => push_compose O b d o) (o_compat O c) buf
  | Nfkd => fold_left (fun b d => (d, o) :: b) (o_compat O c) buf
  end.

(* into_string_with_byte_offsets *)
Definition unicode (O : oracles) (f : uform) (t : list N) : list N * list nat :=
  let buf := rev (fold_left (uni_step O f) (indexed t) []) in
  (map fst buf, flat_map (fun p => repeat (snd p) (len8 (fst p))) buf).

(* ---------- Sequence and the normalizer type ---------- *)
Inductive norm :=
| NBert (lower strip : bool)
| NReplace (pat : N) (content : list N)
| NUnicode (f : uform)
| NSeq (l : list norm).

Inductive result :=
| Ok (u : list N) (offs : list nat)
| Err                                   (* NormalizeError::RegexError *)
| Panic.

(* for each o in next_offsets: o := offsets.get(o).copied().unwrap_or(text.len())
   (the code after the fix for F20; before it: offsets[o], which panics when a stage
   reports the end-of-text offset) *)
Definition remap (offs : list nat) (tlen : nat) (next : list nat) : list nat :=
  map (fun o => nth o offs tlen) next.

Fixpoint normalize (O : oracles) (n : norm) (t : list N) : result :=
  match n with
  | NBert lower strip => let r := bert O lower strip t in Ok (fst r) (snd r)
  | NReplace pat content =>
      match o_find O pat t with
      | None => Err
      | Some ms =>
          match replace_go t content ms 0 with
          | Some r => Ok (fst r) (snd r)
          | None => Panic
          end
      end
  | NUnicode f => let r := unicode O f t in Ok (fst r) (snd r)
  | NSeq l =>
      fold_left
        (fun acc n' =>
           match acc with
           | Ok m offs =>
               match normalize O n' m with
               | Ok u next => Ok u (remap offs (blen t) next)
               | Err => Err
               | Panic => Panic
               end
           | Err => Err
           | Panic => Panic
           end)
        l (Ok t (seq 0 (blen t)))
  end.

(* the loop body of Sequence::normalize, named (normalize_seq in the proofs file shows that
   [normalize O (NSeq l) t] is the left fold of this step) *)
Definition seq_step (O : oracles) (tlen : nat) (acc : result) (n' : norm) : result :=
  match acc with
  | Ok m offs =>
      match normalize O n' m with
      | Ok u next => Ok u (remap offs tlen next)
      | Err => Err
      | Panic => Panic
      end
  | Err => Err
  | Panic => Panic
  end.

(* ---------- specification side ---------- *)
(* o is a char boundary of t: the start of a char, or the end of the text *)
Definition boundary (t : list N) (o : nat) : Prop :=
  (exists c, In (o, c) (indexed t)) \/ o = blen t.

(* one normalized char's worth of offsets: either every byte carries one boundary offset, or
   the char was copied verbatim from source offset o and byte k carries o + k (identity paths) *)
Inductive chunk (t : list N) (c : N) : list nat -> Prop :=
| chunk_rep o : boundary t o -> chunk t c (repeat o (len8 c))
| chunk_id o : In (o, c) (indexed t) -> chunk t c (seq o (len8 c)).

Inductive chunks (t : list N) : list N -> list nat -> Prop :=
| chunks_nil : chunks t [] []
| chunks_cons c u ch offs :
    chunk t c ch -> chunks t u offs -> chunks t (c :: u) (ch ++ offs).

(* the known class F16: normalized byte p is continuation byte k of a normalized char c (at
   q) that is a verbatim copy of the source char at offs[q], and carries offset offs[q] + k *)
Definition F16_class (t u : list N) (offs : list nat) (p : nat) : Prop :=
  exists q c k, In (q, c) (indexed u) /\ (0 < k < len8 c)%nat /\ p = (q + k)%nat /\
                nth p offs 0%nat = (nth q offs 0%nat + k)%nat /\
                In (nth q offs 0%nat, c) (indexed t).

(* non-decreasing along the normalized text *)
Definition monotone (l : list nat) : Prop :=
  forall i j, (i <= j)%nat -> (j < length l)%nat -> (nth i l 0 <= nth j l 0)%nat.

(* regex matches are ranges (start <= end); needed for monotonicity only *)
Definition find_ranges (O : oracles) : Prop :=
  forall p t ms, o_find O p t = Some ms -> Forall (fun m => (fst m <= snd m)%nat) ms.
(* ... in order, inside the text and on char boundaries; needed for panic-freedom only *)
Fixpoint matches_wf (t : list N) (last : nat) (ms : list (nat * nat)) : Prop :=
  match ms with
  | [] => (last <= blen t)%nat
  | (s, e) :: r => (last <= s)%nat /\ (s <= e)%nat /\ boundary t s /\ boundary t e /\ matches_wf t e r
  end.
Definition find_wf (O : oracles) : Prop :=
  forall p t ms, o_find O p t = Some ms -> matches_wf t 0 ms.

(* configurations in which some stage maps every byte to the start of its source char *)
Fixpoint anchored (n : norm) : bool :=
  match n with
  | NBert lower strip => lower || strip
  | NReplace _ _ => false
  | NUnicode _ => true
  | NSeq l => existsb anchored l
  end.

(* ---------- executable oracles for the property ---------- *)
Fixpoint sortedb (l : list nat) : bool :=
  match l with
  | [] => true
  | x :: r => match r with [] => true | y :: _ => Nat.leb x y && sortedb r end
  end.

Fixpoint list_eqb {A} (eqb : A -> A -> bool) (a b : list A) : bool :=
  match a, b with
  | [], [] => true
  | x :: ra, y :: rb => eqb x y && list_eqb eqb ra rb
  | _, _ => false
  end.

Definition char_atb (t : list N) (o : nat) (c : N) : bool :=
  existsb (fun p => Nat.eqb (fst p) o && (snd p =? c)) (indexed t).

Definition chunk_okb (t : list N) (c : N) (ch : list nat) : bool :=
  match ch with
  | [] => false
  | o :: _ =>
      Nat.eqb (length ch) (len8 c) &&
      ((boundaryb t o && forallb (Nat.eqb o) ch) ||
       (char_atb t o c && list_eqb Nat.eqb ch (seq o (len8 c))))
  end.

Fixpoint chunksb (t u : list N) (offs : list nat) : bool :=
  match u with
  | [] => match offs with [] => true | _ => false end
  | c :: r => chunk_okb t c (firstn (len8 c) offs) && chunksb t r (skipn (len8 c) offs)
  end.

(* ---------- correspondence case ---------- *)
Inductive impl_outcome :=
| IOk (u : list N) (offs : list nat) (nbytes : nat) (utf8_valid : bool)
| IErr
| IPanic.

Record case := {
  c_text : list N;
  c_norm : norm;
  (* tables: the part of each oracle the Rust run could consult; entries absent from a table
     mean "maps to itself" / "not Mn" / "does not compose" / (regex) "error" *)
  c_lower : list (N * list N);
  c_canon : list (N * list N);
  c_compat : list (N * list N);
  c_mn : list N;
  c_compose : list (N * N * N);
  c_regex : list (N * list N * option (list (nat * nat)));
  c_impl : impl_outcome;
}.

Fixpoint assoc_def (k : N) (l : list (N * list N)) : list N :=
  match l with
  | [] => [k]
  | (k', v) :: r => if k' =? k then v else assoc_def k r
  end.
Fixpoint compose_tab (a b : N) (l : list (N * N * N)) : option N :=
  match l with
  | [] => None
  | (a', b', v) :: r => if (a' =? a) && (b' =? b) then Some v else compose_tab a b r
  end.
Fixpoint regex_tab (p : N) (t : list N) (l : list (N * list N * option (list (nat * nat))))
  : option (list (nat * nat)) :=
  match l with
  | [] => None
  | (p', t', v) :: r => if (p' =? p) && list_eqb N.eqb t' t then v else regex_tab p t r
  end.

Definition case_oracles (c : case) : oracles := {|
  o_lower := fun k => assoc_def k (c_lower c);
  o_canon := fun k => assoc_def k (c_canon c);
  o_compat := fun k => assoc_def k (c_compat c);
  o_is_mn := fun k => existsb (N.eqb k) (c_mn c);
  o_compose := fun a b => compose_tab a b (c_compose c);
  o_find := fun p t => regex_tab p t (c_regex c);
|}.

Definition model_of (c : case) : result := normalize (case_oracles c) (c_norm c) (c_text c).

(* the supplied regex tables satisfy the structural hypothesis of the monotonicity theorem *)
Definition tables_ok (c : case) : bool :=
  forallb (fun e => match snd e with
                    | None => true
                    | Some ms => forallb (fun m => Nat.leb (fst m) (snd m)) ms
                    end) (c_regex c).

Definition agree (c : case) : bool :=
  tables_ok c &&
  match model_of c, c_impl c with
  | Ok u offs, IOk u' offs' _ _ => list_eqb N.eqb u u' && list_eqb Nat.eqb offs offs'
  | Err, IErr => true
  | Panic, IPanic => true
  | _, _ => false
  end.

(* the property, evaluated on the IMPLEMENTATION's outcome: valid UTF-8 (as reported by the
   Rust side, together with the byte length, which must equal the model's UTF-8 geometry),
   one offset per normalized byte, non-decreasing, every offset a char boundary of the input *)
Definition prop_ok (c : case) : bool :=
  match c_impl c with
  | IOk u offs nbytes valid =>
      valid && Nat.eqb nbytes (blen u) && Nat.eqb (length offs) nbytes &&
      sortedb offs && forallb (boundaryb (c_text c)) offs
  | IErr => true
  | IPanic => false
  end.

(* the same with the boundary clause weakened by exactly the known class F16 *)
Definition prop_ok_modF16 (c : case) : bool :=
  match c_impl c with
  | IOk u offs nbytes valid =>
      valid && Nat.eqb nbytes (blen u) && Nat.eqb (length offs) nbytes &&
      sortedb offs && chunksb (c_text c) u offs
  | IErr => true
  | IPanic => false
  end.

(* a case is an instance of the known finding F16, and of nothing else: the model (which has
   the identity paths) predicts the implementation's outcome exactly, the strict oracle fails,
   and the oracle weakened by exactly the F16 class passes *)
Definition known_f16 (c : case) : bool := agree c && negb (prop_ok c) && prop_ok_modF16 c.

Definition show (c : case) := model_of c.
