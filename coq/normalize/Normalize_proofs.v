(* Proofs about the normalizer model: geometry of UTF-8 positions, the chunk invariant for
   every normalizer, its preservation by Sequence's composition, sortedness. *)
From RV Require Import Prelude.
From Normalize Require Import Model.
From Coq Require Import Sorted.
Open Scope nat_scope.

(* ------------------------------------------------------------------ geometry *)
Lemma len8_pos c : 1 <= len8 c.
Proof. unfold len8. repeat destruct (_ <? _)%N; lia. Qed.

Lemma len8_le4 c : len8 c <= 4.
Proof. unfold len8. repeat destruct (_ <? _)%N; lia. Qed.

Lemma blen_app a b : blen (a ++ b) = blen a + blen b.
Proof. induction a as [|c a IH]; cbn [blen app]; [reflexivity|rewrite IH; lia]. Qed.

Lemma indexed_from_app p a b :
  indexed_from p (a ++ b) = indexed_from p a ++ indexed_from (p + blen a) b.
Proof.
  revert p; induction a as [|c a IH]; intros p; cbn [indexed_from blen app].
  - rewrite Nat.add_0_r. reflexivity.
  - rewrite IH. do 3 f_equal. lia.
Qed.

Lemma indexed_from_bounds p t o c :
  In (o, c) (indexed_from p t) -> p <= o /\ o + len8 c <= p + blen t.
Proof.
  revert p; induction t as [|c0 r IH]; intros p H; cbn [indexed_from blen In] in *.
  - tauto.
  - destruct H as [H|H].
    + inversion H; subst. lia.
    + apply IH in H. pose proof (len8_pos c0). lia.
Qed.

Lemma boundary_start t o c : In (o, c) (indexed t) -> boundary t o.
Proof. intros H. left. exists c. exact H. Qed.

Lemma boundary_end t : boundary t (blen t).
Proof. right. reflexivity. Qed.

Lemma boundary_le t o : boundary t o -> o <= blen t.
Proof.
  intros [[c H]|H]; [|lia]. apply indexed_from_bounds in H. pose proof (len8_pos c). lia.
Qed.

Lemma boundary_zero t : boundary t 0.
Proof.
  destruct t as [|c r]; [right; reflexivity|]. left. exists c. left. reflexivity.
Qed.

(* ------------------------------------------------------------------ sortedness toolkit *)
Lemma SS_app {A} (R : A -> A -> Prop) a b :
  StronglySorted R a -> StronglySorted R b ->
  (forall x y, In x a -> In y b -> R x y) -> StronglySorted R (a ++ b).
Proof.
  induction a as [|x a IH]; intros Ha Hb Hab; cbn [app]; [exact Hb|].
  inversion Ha as [|? ? Ha' Hx]; subst. constructor.
  - apply IH; auto. intros; apply Hab; cbn; auto.
  - apply Forall_app; split; [exact Hx|].
    apply Forall_forall. intros y Hy. apply Hab; cbn; auto.
Qed.

Lemma SS_map {A B} (R : B -> B -> Prop) (F : A -> B) l :
  StronglySorted (fun x y => R (F x) (F y)) l -> StronglySorted R (map F l).
Proof.
  induction 1 as [|x l Hl IH Hx]; cbn [map]; constructor; [exact IH|].
  apply Forall_forall. intros y Hy. apply in_map_iff in Hy. destruct Hy as [z [<- Hz]].
  rewrite Forall_forall in Hx. apply Hx. exact Hz.
Qed.

Lemma SS_rev {A} (R : A -> A -> Prop) l :
  StronglySorted (fun x y => R y x) l -> StronglySorted R (rev l).
Proof.
  induction 1 as [|x l Hl IH Hx]; cbn [rev]; [constructor|].
  apply SS_app; [exact IH|repeat constructor|].
  intros a b Ha Hb. destruct Hb as [<-|[]]. rewrite Forall_forall in Hx. apply Hx.
  apply in_rev. exact Ha.
Qed.

Lemma ss_seq a n : StronglySorted le (seq a n).
Proof.
  revert a; induction n as [|n IH]; intros a; cbn [seq]; constructor; [apply IH|].
  apply Forall_forall. intros x Hx. apply in_seq in Hx. lia.
Qed.

Lemma ss_const x l : Forall (eq x) l -> StronglySorted le l.
Proof.
  induction 1 as [|y l Hy Hl IH]; constructor; [exact IH|].
  subst y. apply Forall_forall. intros z Hz. rewrite Forall_forall in Hl. apply Hl in Hz. lia.
Qed.

Lemma Forall_eq_repeat (x : nat) n : Forall (eq x) (repeat x n).
Proof. apply Forall_forall. intros y Hy. apply repeat_spec in Hy. congruence. Qed.

Lemma ss_flat_map_const {A} (key : A -> nat) (g : A -> list nat) l :
  StronglySorted (fun x y => key x <= key y) l ->
  (forall x, Forall (eq (key x)) (g x)) ->
  StronglySorted le (flat_map g l).
Proof.
  intros Hl Hg. induction Hl as [|x l Hl IH Hx]; cbn [flat_map]; [constructor|].
  apply SS_app; [eapply ss_const; apply Hg|exact IH|].
  intros a b Ha Hb. specialize (Hg x) as Hgx. rewrite Forall_forall in Hgx.
  apply Hgx in Ha. subst a. apply in_flat_map in Hb. destruct Hb as [y [Hy Hb]].
  specialize (Hg y). rewrite Forall_forall in Hg. apply Hg in Hb. subst b.
  rewrite Forall_forall in Hx. apply Hx. exact Hy.
Qed.

Lemma ss_nth l : StronglySorted le l ->
  forall i j d, i <= j -> j < length l -> nth i l d <= nth j l d.
Proof.
  induction 1 as [|x l Hl IH Hx]; intros i j d Hij Hj; cbn [length] in Hj; [lia|].
  destruct i as [|i], j as [|j]; cbn [nth]; try lia.
  - rewrite Forall_forall in Hx. apply Hx. apply nth_In. lia.
  - apply IH; lia.
Qed.

(* looking up in a sorted table bounded by its default is monotone *)
Lemma nth_mono offs tlen : StronglySorted le offs -> Forall (fun o => o <= tlen) offs ->
  forall x y, x <= y -> nth x offs tlen <= nth y offs tlen.
Proof.
  intros Hs Hb x y Hxy.
  destruct (Nat.lt_ge_cases y (length offs)) as [Hy|Hy].
  - apply ss_nth; auto.
  - rewrite (nth_overflow offs tlen Hy).
    destruct (Nat.lt_ge_cases x (length offs)) as [Hx|Hx].
    + rewrite Forall_forall in Hb. apply Hb. apply nth_In. exact Hx.
    + rewrite nth_overflow; auto.
Qed.

Lemma ss_map_mono f l : (forall x y, x <= y -> f x <= f y) ->
  StronglySorted le l -> StronglySorted le (map f l).
Proof.
  intros Hf Hl. apply SS_map. induction Hl as [|x l Hl IH Hx]; constructor; [exact IH|].
  eapply Forall_impl; [|exact Hx]. intros; apply Hf; assumption.
Qed.

Lemma indexed_from_sorted p t :
  StronglySorted (fun x y => fst x <= fst y) (indexed_from p t).
Proof.
  revert p; induction t as [|c r IH]; intros p; cbn [indexed_from]; constructor; [apply IH|].
  apply Forall_forall. intros [o c'] H. apply indexed_from_bounds in H. cbn [fst]. lia.
Qed.

(* ------------------------------------------------------------------ chunks: basic facts *)
Lemma chunk_length t c ch : chunk t c ch -> length ch = len8 c.
Proof. intros [o H|o H]; [apply repeat_length|apply seq_length]. Qed.

Lemma chunks_length t u offs : chunks t u offs -> length offs = blen u.
Proof.
  induction 1 as [|c u ch offs Hc Hu IH]; cbn [blen]; [reflexivity|].
  rewrite app_length, IH, (chunk_length _ _ _ Hc). reflexivity.
Qed.

Lemma chunks_app t u1 o1 u2 o2 :
  chunks t u1 o1 -> chunks t u2 o2 -> chunks t (u1 ++ u2) (o1 ++ o2).
Proof.
  induction 1 as [|c u ch offs Hc Hu IH]; intros H2; cbn [app]; [exact H2|].
  rewrite <- app_assoc. constructor; auto.
Qed.

Lemma chunks_rep t o cs : boundary t o -> chunks t cs (rep_offsets o cs).
Proof.
  intros Hb. induction cs as [|c cs IH]; cbn [rep_offsets flat_map]; [constructor|].
  constructor; [constructor; exact Hb|exact IH].
Qed.

Lemma repeat_blen o cs : repeat o (blen cs) = rep_offsets o cs.
Proof.
  induction cs as [|c cs IH]; cbn [blen rep_offsets flat_map]; [reflexivity|].
  rewrite repeat_app. f_equal. exact IH.
Qed.

Lemma Forall_eq_rep_offsets o cs : Forall (eq o) (rep_offsets o cs).
Proof.
  apply Forall_forall. intros x Hx. apply in_flat_map in Hx. destruct Hx as [c [_ Hx]].
  apply repeat_spec in Hx. congruence.
Qed.

Lemma chunk_head t c ch : chunk t c ch -> exists o rest, ch = o :: rest /\ boundary t o.
Proof.
  intros [o H|o H]; pose proof (len8_pos c) as Hp; destruct (len8 c) as [|n] eqn:E; try lia.
  - exists o, (repeat o n). split; [reflexivity|exact H].
  - exists o, (seq (S o) n). split; [reflexivity|]. eapply boundary_start; exact H.
Qed.

Lemma chunk_bounded t c ch : chunk t c ch -> Forall (fun o => o <= blen t) ch.
Proof.
  intros [o H|o H]; apply Forall_forall; intros x Hx.
  - apply repeat_spec in Hx. subst. apply boundary_le. exact H.
  - apply in_seq in Hx. apply indexed_from_bounds in H. lia.
Qed.

Lemma chunks_bounded t u offs : chunks t u offs -> Forall (fun o => o <= blen t) offs.
Proof.
  induction 1 as [|c u ch offs Hc Hu IH]; [constructor|].
  apply Forall_app; split; [eapply chunk_bounded; exact Hc|exact IH].
Qed.

(* the offsets of the char of the normalized text starting at byte o form a chunk *)
Lemma chunks_lookup_from t m offs : chunks t m offs ->
  forall pos o c, In (o, c) (indexed_from pos m) ->
    pos <= o /\ exists ch, chunk t c ch /\
      forall k d, k < len8 c -> nth (o - pos + k) offs d = nth k ch d.
Proof.
  induction 1 as [|c0 u ch0 offs0 Hc Hu IH]; intros pos o c Hin; cbn [indexed_from In] in Hin.
  - destruct Hin.
  - destruct Hin as [Hin|Hin].
    + inversion Hin; subst. split; [lia|]. exists ch0. split; [exact Hc|].
      intros k d Hk. rewrite Nat.sub_diag. cbn [Nat.add].
      apply app_nth1. rewrite (chunk_length _ _ _ Hc). exact Hk.
    + apply IH in Hin. destruct Hin as [Hle [ch [Hch Hn]]]. split; [lia|].
      exists ch. split; [exact Hch|]. intros k d Hk.
      rewrite app_nth2; rewrite (chunk_length _ _ _ Hc); [|lia].
      rewrite <- (Hn k d Hk). f_equal. lia.
Qed.

Lemma chunks_lookup t m offs : chunks t m offs ->
  forall o c, In (o, c) (indexed m) ->
    exists ch, chunk t c ch /\ forall k d, k < len8 c -> nth (o + k) offs d = nth k ch d.
Proof.
  intros H o c Hin. destruct (chunks_lookup_from _ _ _ H 0 o c Hin) as [_ [ch [Hch Hn]]].
  exists ch. split; [exact Hch|]. intros k d Hk. rewrite <- (Hn k d Hk). f_equal. lia.
Qed.

(* ------------------------------------------------------------------ composition (Sequence) *)
Lemma map_repeat' {A B} (f : A -> B) x n : map f (repeat x n) = repeat (f x) n.
Proof. induction n as [|n IH]; cbn [repeat map]; [reflexivity|rewrite IH; reflexivity]. Qed.

Lemma remap_boundary t m offs1 o :
  chunks t m offs1 -> boundary m o -> boundary t (nth o offs1 (blen t)).
Proof.
  intros H [[c Hin]|He].
  - destruct (chunks_lookup _ _ _ H o c Hin) as [ch [Hch Hn]].
    specialize (Hn 0 (blen t) (len8_pos c)). rewrite Nat.add_0_r in Hn. rewrite Hn.
    destruct (chunk_head _ _ _ Hch) as [o1 [rest [-> Hb]]]. exact Hb.
  - rewrite nth_overflow; [apply boundary_end|]. rewrite (chunks_length _ _ _ H). lia.
Qed.

Lemma chunk_compose t m offs1 c ch :
  chunks t m offs1 -> chunk m c ch -> chunk t c (map (fun o => nth o offs1 (blen t)) ch).
Proof.
  intros H [o Hb|o Hin].
  - rewrite map_repeat'. constructor. eapply remap_boundary; eauto.
  - destruct (chunks_lookup _ _ _ H o c Hin) as [ch1 [Hch Hn]].
    set (f := fun o0 => nth o0 offs1 (blen t)).
    assert (E : map f (seq o (len8 c)) = ch1).
    { apply (nth_ext _ _ (f 0) 0).
      - rewrite map_length, seq_length, (chunk_length _ _ _ Hch). reflexivity.
      - intros n Hlt. rewrite map_length, seq_length in Hlt.
        rewrite map_nth. rewrite seq_nth by exact Hlt. unfold f. rewrite (Hn n (blen t) Hlt).
        apply nth_indep. rewrite (chunk_length _ _ _ Hch). exact Hlt. }
    rewrite E. exact Hch.
Qed.

Lemma chunks_compose t m offs1 u offs2 :
  chunks t m offs1 -> chunks m u offs2 -> chunks t u (remap offs1 (blen t) offs2).
Proof.
  intros H1. induction 1 as [|c u ch offs Hc Hu IH]; unfold remap in *; cbn [map]; [constructor|].
  rewrite map_app. constructor; [eapply chunk_compose; eauto|exact IH].
Qed.

Lemma remap_sorted t m offs1 next :
  chunks t m offs1 -> StronglySorted le offs1 -> StronglySorted le next ->
  StronglySorted le (remap offs1 (blen t) next).
Proof.
  intros Hc Hs Hn. unfold remap. apply ss_map_mono; [|exact Hn].
  apply nth_mono; [exact Hs|]. eapply chunks_bounded; exact Hc.
Qed.

(* ------------------------------------------------------------------ identity map *)
Lemma chunks_identity_from t pre suf post :
  t = pre ++ suf ++ post -> chunks t suf (seq (blen pre) (blen suf)).
Proof.
  revert pre; induction suf as [|c r IH]; intros pre Ht; cbn [blen seq]; [constructor|].
  rewrite seq_app. constructor.
  - apply chunk_id. subst t. unfold indexed. rewrite indexed_from_app. apply in_or_app. right.
    cbn [app indexed_from Nat.add]. left. reflexivity.
  - specialize (IH (pre ++ [c])). rewrite blen_app in IH. cbn [blen] in IH.
    rewrite Nat.add_0_r in IH. apply IH. subst t. rewrite <- app_assoc. reflexivity.
Qed.

Lemma chunks_identity t : chunks t t (seq 0 (blen t)).
Proof. apply (chunks_identity_from t [] t []). rewrite app_nil_r. reflexivity. Qed.

(* ------------------------------------------------------------------ Bert *)
Lemma bert_chunks_gen t (f : N -> list N) l :
  Forall (fun oc => In oc (indexed t)) l ->
  chunks t (flat_map snd (map (fun oc => (fst oc, f (snd oc))) l))
           (flat_map (fun p => rep_offsets (fst p) (snd p)) (map (fun oc => (fst oc, f (snd oc))) l)).
Proof.
  induction 1 as [|[o c] l Hin Hl IH]; cbn [map flat_map fst snd]; [constructor|].
  apply chunks_app; [|exact IH]. apply chunks_rep. eapply boundary_start; exact Hin.
Qed.

Lemma Forall_In_self {A} (l : list A) : Forall (fun x => In x l) l.
Proof. apply Forall_forall. auto. Qed.

Lemma bert_inv O lower strip t :
  chunks t (fst (bert O lower strip t)) (snd (bert O lower strip t)) /\
  StronglySorted le (snd (bert O lower strip t)).
Proof.
  unfold bert. destruct (negb lower && negb strip); cbn [fst snd].
  - split; [apply chunks_identity|apply ss_seq].
  - split; [apply bert_chunks_gen; apply Forall_In_self|].
    apply (ss_flat_map_const fst).
    + apply SS_map. cbn [fst]. apply indexed_from_sorted.
    + intros [o cs]. cbn [fst snd]. apply Forall_eq_rep_offsets.
Qed.

(* ------------------------------------------------------------------ Replace: slices *)
Definition bnd_from (pos : nat) (t : list N) (a : nat) : Prop :=
  In a (map fst (indexed_from pos t)) \/ a = pos + blen t.

Lemma bnd_range pos t a : bnd_from pos t a -> pos <= a <= pos + blen t.
Proof.
  intros [H|H]; [|lia]. apply in_map_iff in H. destruct H as [[o c] [<- H]].
  apply indexed_from_bounds in H. cbn [fst]. pose proof (len8_pos c). lia.
Qed.

Lemma bnd_cons pos c r a : bnd_from pos (c :: r) a -> a = pos \/ bnd_from (pos + len8 c) r a.
Proof.
  intros [H|H]; cbn [indexed_from map fst In blen] in H.
  - destruct H as [H|H]; [left; congruence|right; left; exact H].
  - right. right. lia.
Qed.

Lemma bnd_start pos t : bnd_from pos t pos.
Proof.
  destruct t as [|c r]; [right; cbn [blen]; lia|left; cbn [indexed_from map fst In]; auto].
Qed.

Definition in_range (a b : nat) (p : nat * N) : bool := Nat.leb a (fst p) && Nat.ltb (fst p) b.
Definition id_offs (p : nat * N) : list nat := seq (fst p) (len8 (snd p)).

Lemma filter_none {A} (P : A -> bool) l : (forall x, In x l -> P x = false) -> filter P l = [].
Proof.
  induction l as [|x l IH]; intros H; cbn [filter]; [reflexivity|].
  rewrite (H x) by (cbn; auto). apply IH. intros; apply H; cbn; auto.
Qed.

Lemma slice_offsets t : forall pos a b,
  bnd_from pos t a -> bnd_from pos t b -> a <= b ->
  flat_map id_offs (filter (in_range a b) (indexed_from pos t)) = seq a (b - a).
Proof.
  induction t as [|c r IH]; intros pos a b Ha Hb Hab.
  - apply bnd_range in Ha, Hb. cbn [blen] in *. replace (b - a) with 0 by lia. reflexivity.
  - pose proof (bnd_range _ _ _ Ha) as Ra. pose proof (bnd_range _ _ _ Hb) as Rb.
    pose proof (len8_pos c) as Hp.
    cbn [indexed_from filter]. unfold in_range at 1. cbn [fst].
    destruct (bnd_cons _ _ _ _ Ha) as [Ea|Ha'].
    + subst a. destruct (bnd_cons _ _ _ _ Hb) as [Eb|Hb'].
      * subst b. replace (Nat.ltb pos pos) with false by (symmetry; apply Nat.ltb_ge; lia).
        rewrite andb_false_r. rewrite filter_none; [rewrite Nat.sub_diag; reflexivity|].
        intros [o c'] Hin. apply indexed_from_bounds in Hin. unfold in_range. cbn [fst].
        replace (Nat.ltb o pos) with false by (symmetry; apply Nat.ltb_ge; lia).
        apply andb_false_r.
      * pose proof (bnd_range _ _ _ Hb') as Rb'.
        replace (Nat.leb pos pos) with true by (symmetry; apply Nat.leb_le; lia).
        replace (Nat.ltb pos b) with true by (symmetry; apply Nat.ltb_lt; lia).
        cbn [andb flat_map]. unfold id_offs at 1. cbn [fst snd].
        rewrite (filter_ext_in (in_range pos b) (in_range (pos + len8 c) b)).
        -- rewrite (IH (pos + len8 c) (pos + len8 c) b (bnd_start _ _) Hb') by lia.
           replace (b - pos) with (len8 c + (b - (pos + len8 c))) by lia.
           rewrite seq_app. reflexivity.
        -- intros [o c'] Hin. apply indexed_from_bounds in Hin. unfold in_range. cbn [fst].
           f_equal. replace (Nat.leb pos o) with true by (symmetry; apply Nat.leb_le; lia).
           symmetry. apply Nat.leb_le. lia.
    + pose proof (bnd_range _ _ _ Ha') as Ra'.
      replace (Nat.leb a pos) with false by (symmetry; apply Nat.leb_gt; lia).
      cbn [andb]. apply IH; [exact Ha'| |exact Hab].
      destruct (bnd_cons _ _ _ _ Hb) as [Eb|Hb']; [lia|exact Hb'].
Qed.

Lemma boundaryb_bnd t o : boundaryb t o = true -> bnd_from 0 t o.
Proof.
  unfold boundaryb. intros H. apply orb_true_iff in H. destruct H as [H|H].
  - apply existsb_exists in H. destruct H as [p [Hin Hp]]. apply Nat.eqb_eq in Hp.
    left. apply in_map_iff. exists p. split; [exact Hp|exact Hin].
  - apply Nat.eqb_eq in H. right. lia.
Qed.

Lemma boundaryb_true t o : boundaryb t o = true <-> boundary t o.
Proof.
  unfold boundaryb, boundary. rewrite orb_true_iff, existsb_exists, Nat.eqb_eq. split.
  - intros [[[o' c] [Hin Hp]]|H]; [|right; exact H]. cbn [fst] in Hp. apply Nat.eqb_eq in Hp.
    subst o'. left. exists c. exact Hin.
  - intros [[c Hin]|H]; [|right; exact H]. left. exists (o, c). split; [exact Hin|].
    cbn [fst]. apply Nat.eqb_refl.
Qed.

Lemma slice_ok_spec t a b : slice_ok t a b = true <-> a <= b /\ boundary t a /\ boundary t b.
Proof.
  unfold slice_ok. rewrite !andb_true_iff, Nat.leb_le, !boundaryb_true. tauto.
Qed.

Lemma sub_chunks t F : Forall (fun oc => In oc (indexed t)) F ->
  chunks t (map snd F) (flat_map id_offs F).
Proof.
  induction 1 as [|[o c] F Hin HF IH]; cbn [map flat_map snd]; [constructor|].
  constructor; [|exact IH]. unfold id_offs. cbn [fst snd]. apply chunk_id. exact Hin.
Qed.

Lemma slice_chunks t a b : slice_ok t a b = true -> chunks t (slice t a b) (seq a (b - a)).
Proof.
  intros H. apply slice_ok_spec in H. destruct H as [Hab [Ha Hb]].
  apply boundaryb_true, boundaryb_bnd in Ha. apply boundaryb_true, boundaryb_bnd in Hb.
  rewrite <- (slice_offsets t 0 a b Ha Hb Hab). unfold slice.
  apply sub_chunks. apply Forall_forall. intros x Hx. apply filter_In in Hx. apply Hx.
Qed.

Lemma replace_go_chunks t content : forall ms last u offs,
  replace_go t content ms last = Some (u, offs) -> chunks t u offs.
Proof.
  induction ms as [|[s e] r IH]; intros last u offs H; cbn [replace_go] in H.
  - destruct (slice_ok t last (blen t)) eqn:E; [|discriminate]. inversion H; subst.
    apply slice_chunks. exact E.
  - destruct (slice_ok t last s) eqn:E; [|discriminate].
    destruct (replace_go t content r e) as [[u' offs']|] eqn:R; [|discriminate].
    inversion H; subst. apply chunks_app; [apply slice_chunks; exact E|].
    apply chunks_app; [|eapply IH; exact R].
    rewrite repeat_blen. apply chunks_rep. apply slice_ok_spec in E. tauto.
Qed.

Lemma replace_go_sorted t content : forall ms last u offs,
  Forall (fun m => fst m <= snd m) ms ->
  replace_go t content ms last = Some (u, offs) ->
  StronglySorted le offs /\ Forall (le last) offs.
Proof.
  induction ms as [|[s e] r IH]; intros last u offs Hr H; cbn [replace_go] in H.
  - destruct (slice_ok t last (blen t)) eqn:E; [|discriminate]. inversion H; subst.
    split; [apply ss_seq|]. apply Forall_forall. intros x Hx. apply in_seq in Hx. lia.
  - destruct (slice_ok t last s) eqn:E; [|discriminate].
    destruct (replace_go t content r e) as [[u' offs']|] eqn:R; [|discriminate].
    inversion H; subst. inversion Hr as [|? ? Hse Hr']; subst. cbn [fst snd] in Hse.
    apply slice_ok_spec in E. destruct E as [Hls _].
    destruct (IH e u' offs' Hr' R) as [Hs Hlb]. rewrite Forall_forall in Hlb.
    split.
    + apply SS_app; [apply ss_seq| |].
      * apply SS_app; [eapply ss_const; apply Forall_eq_repeat|exact Hs|].
        intros x y Hx Hy. apply repeat_spec in Hx. apply Hlb in Hy. lia.
      * intros x y Hx Hy. apply in_seq in Hx. apply in_app_or in Hy. destruct Hy as [Hy|Hy].
        -- apply repeat_spec in Hy. lia.
        -- apply Hlb in Hy. lia.
    + apply Forall_forall. intros x Hx. apply in_app_or in Hx. destruct Hx as [Hx|Hx].
      * apply in_seq in Hx. lia.
      * apply in_app_or in Hx. destruct Hx as [Hx|Hx].
        -- apply repeat_spec in Hx. lia.
        -- apply Hlb in Hx. lia.
Qed.

(* ------------------------------------------------------------------ Unicode *)
Definition buf_inv (t : list N) (hi : nat) (buf : ubuf) : Prop :=
  Forall (fun p => (exists c0, In (snd p, c0) (indexed t)) /\ snd p <= hi) buf /\
  StronglySorted (fun x y => snd y <= snd x) buf.

Lemma buf_inv_weaken t hi hi' buf : buf_inv t hi buf -> hi <= hi' -> buf_inv t hi' buf.
Proof.
  intros [Hf Hs] Hle. split; [|exact Hs]. eapply Forall_impl; [|exact Hf].
  cbn beta. intros p [H1 H2]. split; [exact H1|lia].
Qed.

Lemma buf_inv_push t hi buf d o c0 :
  buf_inv t hi buf -> hi <= o -> In (o, c0) (indexed t) -> buf_inv t o ((d, o) :: buf).
Proof.
  intros Hb Hle Hin. destruct (buf_inv_weaken _ _ _ _ Hb Hle) as [Hf Hs]. split.
  - constructor; [|exact Hf]. cbn [snd]. split; [exists c0; exact Hin|lia].
  - constructor; [exact Hs|]. eapply Forall_impl; [|exact Hf]. cbn beta. cbn [snd]. tauto.
Qed.

Lemma buf_inv_push_compose O t hi buf d o c0 :
  buf_inv t hi buf -> hi <= o -> In (o, c0) (indexed t) -> buf_inv t o (push_compose O buf d o).
Proof.
  intros Hb Hle Hin. unfold push_compose. destruct buf as [|[pc po] r].
  - eapply buf_inv_push; eauto.
  - destruct (o_compose O pc d) as [cc|]; [|eapply buf_inv_push; eauto].
    destruct (buf_inv_weaken _ _ _ _ Hb Hle) as [Hf Hs]. split.
    + inversion Hf as [|? ? Hh Hr]; subst. constructor; [exact Hh|exact Hr].
    + inversion Hs as [|? ? Hs' Hh]; subst. constructor; [exact Hs'|exact Hh].
Qed.

Lemma buf_inv_fold t o c0 (stepf : ubuf -> N -> ubuf) :
  (forall hi buf d, buf_inv t hi buf -> hi <= o -> buf_inv t o (stepf buf d)) ->
  In (o, c0) (indexed t) ->
  forall ds hi buf, buf_inv t hi buf -> hi <= o -> buf_inv t o (fold_left stepf ds buf).
Proof.
  intros Hstep Hin. induction ds as [|d ds IH]; intros hi buf Hb Hle; cbn [fold_left].
  - eapply buf_inv_weaken; eauto.
  - apply (IH o); [|lia]. apply (Hstep hi); assumption.
Qed.

Lemma uni_step_inv O f t hi buf oc :
  buf_inv t hi buf -> hi <= fst oc -> In oc (indexed t) -> buf_inv t (fst oc) (uni_step O f buf oc).
Proof.
  destruct oc as [o c]. cbn [fst]. intros Hb Hle Hin. unfold uni_step. cbn [fst snd].
  destruct f.
  - eapply buf_inv_push_compose; eauto.
  - eapply (buf_inv_fold t o c); eauto. intros; eapply buf_inv_push; eauto.
  - eapply (buf_inv_fold t o c); eauto. intros; eapply buf_inv_push_compose; eauto.
  - eapply (buf_inv_fold t o c); eauto. intros; eapply buf_inv_push; eauto.
Qed.

Lemma uni_fold_inv O f t : forall l hi buf,
  StronglySorted (fun x y => fst x <= fst y) l ->
  Forall (fun oc => In oc (indexed t) /\ hi <= fst oc) l ->
  buf_inv t hi buf -> exists hi', buf_inv t hi' (fold_left (uni_step O f) l buf).
Proof.
  induction l as [|oc l IH]; intros hi buf Hs Hf Hb; cbn [fold_left]; [exists hi; exact Hb|].
  inversion Hs as [|? ? Hs' Hh]; subst. inversion Hf as [|? ? [Hin Hle] Hf']; subst.
  apply (IH (fst oc)); [exact Hs'| |apply (uni_step_inv O f t hi); assumption].
  rewrite Forall_forall in *. intros x Hx. split; [apply Hf'; exact Hx|apply Hh; exact Hx].
Qed.

Lemma unicode_inv O f t :
  chunks t (fst (unicode O f t)) (snd (unicode O f t)) /\
  StronglySorted le (snd (unicode O f t)).
Proof.
  unfold unicode. cbn [fst snd].
  destruct (uni_fold_inv O f t (indexed t) 0 []) as [hi [Hf Hs]].
  - apply indexed_from_sorted.
  - apply Forall_forall. intros x Hx. split; [exact Hx|lia].
  - split; constructor.
  - set (B := fold_left (uni_step O f) (indexed t) []) in *. split.
    + assert (Hb : Forall (fun p => boundary t (snd p)) (rev B)).
      { apply Forall_rev. eapply Forall_impl; [|exact Hf]. cbn beta.
        intros p [[c0 Hin] _]. eapply boundary_start; exact Hin. }
      induction Hb as [|[c o] l Hbo Hl IH]; cbn [map flat_map fst snd]; [constructor|].
      constructor; [constructor; exact Hbo|exact IH].
    + apply (ss_flat_map_const snd).
      * apply SS_rev. exact Hs.
      * intros [c o]. cbn [fst snd]. apply Forall_eq_repeat.
Qed.

(* ------------------------------------------------------------------ the whole normalizer *)
Lemma normalize_seq O l t :
  normalize O (NSeq l) t = fold_left (seq_step O (blen t)) l (Ok t (seq 0 (blen t))).
Proof. reflexivity. Qed.

(* induction principle for the nested type *)
Fixpoint norm_ind' (P : norm -> Prop)
  (Hb : forall l s, P (NBert l s)) (Hr : forall p c, P (NReplace p c))
  (Hu : forall f, P (NUnicode f)) (Hs : forall l, Forall P l -> P (NSeq l)) (n : norm) : P n :=
  match n with
  | NBert l s => Hb l s
  | NReplace p c => Hr p c
  | NUnicode f => Hu f
  | NSeq l => Hs l ((fix go (l : list norm) : Forall P l :=
                       match l with
                       | [] => Forall_nil P
                       | x :: r => Forall_cons x (norm_ind' P Hb Hr Hu Hs x) (go r)
                       end) l)
  end.

Definition good (O : oracles) (t : list N) (r : result) : Prop :=
  match r with
  | Ok u offs => chunks t u offs /\ (find_ranges O -> StronglySorted le offs)
  | _ => True
  end.

Lemma seq_fold_good O t (l : list norm) :
  Forall (fun n => forall t', good O t' (normalize O n t')) l ->
  forall acc, good O t acc -> good O t (fold_left (seq_step O (blen t)) l acc).
Proof.
  induction 1 as [|n l Hn Hl IH]; intros acc Hacc; cbn [fold_left]; [exact Hacc|].
  apply IH. unfold seq_step. destruct acc as [m offs1| |]; cbn [good]; auto.
  specialize (Hn m). destruct (normalize O n m) as [u next| |]; cbn [good] in *; auto.
  destruct Hacc as [Hc1 Hs1]. destruct Hn as [Hc2 Hs2]. split.
  - eapply chunks_compose; eauto.
  - intros HR. eapply remap_sorted; eauto.
Qed.

Theorem normalize_good O n : forall t, good O t (normalize O n t).
Proof.
  induction n as [lower strip|pat content|f|l IH] using norm_ind'; intros t.
  - cbn [normalize good]. destruct (bert_inv O lower strip t). split; auto.
  - cbn [normalize]. destruct (o_find O pat t) as [ms|] eqn:Ef; [|exact I].
    destruct (replace_go t content ms 0) as [[u offs]|] eqn:Er; [|exact I].
    cbn [good fst snd]. split; [eapply replace_go_chunks; exact Er|].
    intros HR. eapply replace_go_sorted; [|exact Er]. eapply HR; exact Ef.
  - cbn [normalize good]. destruct (unicode_inv O f t). split; auto.
  - rewrite normalize_seq. apply seq_fold_good; [exact IH|].
    cbn [good]. split; [apply chunks_identity|intros _; apply ss_seq].
Qed.

Corollary normalize_chunks O n t u offs : normalize O n t = Ok u offs -> chunks t u offs.
Proof. intros H. pose proof (normalize_good O n t) as G. rewrite H in G. apply G. Qed.

Corollary normalize_sorted O n t u offs :
  find_ranges O -> normalize O n t = Ok u offs -> StronglySorted le offs.
Proof. intros HR H. pose proof (normalize_good O n t) as G. rewrite H in G. apply G, HR. Qed.

(* ------------------------------------------------------------------ consequences of chunks *)
Lemma byte_in_char_from u : forall pos p, pos <= p < pos + blen u ->
  exists q c k, In (q, c) (indexed_from pos u) /\ k < len8 c /\ p = q + k.
Proof.
  induction u as [|c0 r IH]; intros pos p Hp; cbn [blen indexed_from] in *; [lia|].
  destruct (Nat.lt_ge_cases p (pos + len8 c0)) as [Hlt|Hge].
  - exists pos, c0, (p - pos). split; [left; reflexivity|lia].
  - destruct (IH (pos + len8 c0) p) as [q [c [k [Hin Hk]]]]; [lia|].
    exists q, c, k. split; [right; exact Hin|exact Hk].
Qed.

Lemma nth_repeat_lt (o : nat) n k d : k < n -> nth k (repeat o n) d = o.
Proof.
  intros H. apply (repeat_spec n o). apply nth_In. rewrite repeat_length. exact H.
Qed.

Lemma chunks_char_start t u offs q c :
  chunks t u offs -> In (q, c) (indexed u) -> boundary t (nth q offs 0).
Proof.
  intros H Hin. destruct (chunks_lookup _ _ _ H q c Hin) as [ch [Hch Hn]].
  specialize (Hn 0 0 (len8_pos c)). rewrite Nat.add_0_r in Hn. rewrite Hn.
  destruct (chunk_head _ _ _ Hch) as [o1 [rest [-> Hb]]]. exact Hb.
Qed.

Lemma chunks_excluding_F16 t u offs : chunks t u offs ->
  forall p, p < length offs -> boundary t (nth p offs 0) \/ F16_class t u offs p.
Proof.
  intros H p Hp. rewrite (chunks_length _ _ _ H) in Hp.
  destruct (byte_in_char_from u 0 p) as [q [c [k [Hin [Hk ->]]]]]; [lia|].
  fold (indexed u) in Hin.
  destruct (chunks_lookup _ _ _ H q c Hin) as [ch [Hch Hn]].
  pose proof (Hn k 0 Hk) as Hnk. pose proof (Hn 0 0 (len8_pos c)) as Hn0.
  rewrite Nat.add_0_r in Hn0. destruct Hch as [o Hb|o Ho].
  - left. rewrite Hnk, nth_repeat_lt by exact Hk. exact Hb.
  - rewrite seq_nth in Hnk by exact Hk. rewrite seq_nth in Hn0 by apply len8_pos.
    rewrite Nat.add_0_r in Hn0. destruct k as [|k].
    + left. rewrite Nat.add_0_r. rewrite Hn0. eapply boundary_start; exact Ho.
    + right. exists q, c, (S k). split; [exact Hin|]. split; [lia|]. split; [reflexivity|].
      split; [rewrite Hnk, Hn0; reflexivity|rewrite Hn0; exact Ho].
Qed.

Lemma indexed_disjoint t : forall p o c o' c',
  In (o, c) (indexed_from p t) -> In (o', c') (indexed_from p t) ->
  o' <= o \/ o + len8 c <= o'.
Proof.
  induction t as [|c0 r IH]; intros p o c o' c' H H'; cbn [indexed_from In] in *; [tauto|].
  destruct H as [H|H], H' as [H'|H'].
  - inversion H; inversion H'; subst. lia.
  - inversion H; subst. apply indexed_from_bounds in H'. lia.
  - inversion H'; subst. apply indexed_from_bounds in H. lia.
  - eapply IH; eauto.
Qed.

Lemma inside_char_not_boundary t o c k :
  In (o, c) (indexed t) -> 0 < k < len8 c -> ~ boundary t (o + k).
Proof.
  intros Hin Hk [[c' Hin']|He].
  - destruct (indexed_disjoint t 0 o c (o + k) c' Hin Hin'); lia.
  - apply indexed_from_bounds in Hin. lia.
Qed.

Lemma F16_class_not_boundary t u offs p : F16_class t u offs p -> ~ boundary t (nth p offs 0).
Proof.
  intros [q [c [k [_ [Hk [_ [E Hin]]]]]]]. rewrite E. eapply inside_char_not_boundary; eauto.
Qed.

Lemma indexed_from_In pos u q c : In (q, c) (indexed_from pos u) -> In c u.
Proof.
  revert pos; induction u as [|c0 r IH]; intros pos H; cbn [indexed_from In] in *; [tauto|].
  destruct H as [H|H]; [inversion H; auto|right; eapply IH; exact H].
Qed.

Lemma chunks_ascii_output t u offs : chunks t u offs ->
  (forall c, In c u -> len8 c = 1) -> Forall (boundary t) offs.
Proof.
  intros H Hasc. apply Forall_forall. intros x Hx.
  destruct (In_nth _ _ 0 Hx) as [p [Hp <-]].
  destruct (chunks_excluding_F16 _ _ _ H p Hp) as [Hb|[q [c [k [Hin [Hk _]]]]]]; [exact Hb|].
  apply indexed_from_In in Hin. apply Hasc in Hin. lia.
Qed.

Lemma mono_idx l : StronglySorted le l -> monotone l.
Proof. intros H i j Hij Hj. apply ss_nth; assumption. Qed.

Lemma mono_idx_inv l : monotone l -> StronglySorted le l.
Proof.
  induction l as [|x l IH]; intros H; constructor.
  - apply IH. intros i j Hij Hj. apply (H (S i) (S j)); cbn [length]; lia.
  - apply Forall_forall. intros y Hy. destruct (In_nth _ _ 0 Hy) as [k [Hk <-]].
    apply (H 0 (S k)); cbn [length]; lia.
Qed.

(* ------------------------------------------------------------------ anchored configurations *)
Lemma bert_anchored O lower strip t : lower || strip = true ->
  Forall (boundary t) (snd (bert O lower strip t)).
Proof.
  intros Ha. unfold bert.
  replace (negb lower && negb strip) with false by (destruct lower, strip; cbn in *; congruence).
  cbn [snd]. apply Forall_forall. intros x Hx. apply in_flat_map in Hx.
  destruct Hx as [[o cs] [Hp Hx]]. apply in_map_iff in Hp. destruct Hp as [[o' c] [E Hin]].
  cbn [fst snd] in *. inversion E; subst.
  pose proof (Forall_eq_rep_offsets o (bert_char O lower strip c)) as F.
  rewrite Forall_forall in F. apply F in Hx. subst x. eapply boundary_start; exact Hin.
Qed.

Lemma unicode_anchored O f t : Forall (boundary t) (snd (unicode O f t)).
Proof.
  unfold unicode. cbn [snd].
  destruct (uni_fold_inv O f t (indexed t) 0 []) as [hi [Hf _]].
  - apply indexed_from_sorted.
  - apply Forall_forall. intros x Hx. split; [exact Hx|lia].
  - split; constructor.
  - apply Forall_forall. intros x Hx. apply in_flat_map in Hx. destruct Hx as [[c o] [Hp Hx]].
    cbn [fst snd] in Hx. apply repeat_spec in Hx. subst x. apply in_rev in Hp.
    rewrite Forall_forall in Hf. destruct (Hf _ Hp) as [[c0 Hin] _]. cbn [snd] in Hin.
    eapply boundary_start; exact Hin.
Qed.

Lemma seq_step_good O t acc n : good O t acc -> good O t (seq_step O (blen t) acc n).
Proof.
  intros Hacc. apply (seq_fold_good O t [n]); [|exact Hacc].
  constructor; [|constructor]. intros t'. apply normalize_good.
Qed.

Definition all_bnd (t : list N) (r : result) : Prop :=
  match r with Ok _ offs => Forall (boundary t) offs | _ => True end.

Lemma seq_fold_anchored O t (l : list norm) :
  Forall (fun n => forall t', anchored n = true -> all_bnd t' (normalize O n t')) l ->
  forall acc, good O t acc -> existsb anchored l = true \/ all_bnd t acc ->
  all_bnd t (fold_left (seq_step O (blen t)) l acc).
Proof.
  induction 1 as [|n l Hn Hl IH]; intros acc Hacc Hor; cbn [fold_left existsb] in *.
  - destruct Hor as [Hor|Hor]; [discriminate|exact Hor].
  - apply IH; [apply seq_step_good; exact Hacc|].
    destruct (existsb anchored l) eqn:El; [left; reflexivity|right].
    rewrite orb_false_r in Hor. unfold seq_step.
    destruct acc as [m offs1| |]; cbn [all_bnd]; auto.
    specialize (Hn m). pose proof (normalize_good O n m) as Gn.
    destruct (normalize O n m) as [u next| |]; cbn [all_bnd good] in *; auto.
    destruct Hacc as [Hc1 _]. unfold remap. apply Forall_forall. intros x Hx.
    apply in_map_iff in Hx. destruct Hx as [o [<- Ho]].
    destruct Hor as [Han|Hall].
    + specialize (Hn Han). rewrite Forall_forall in Hn. eapply remap_boundary; eauto.
    + destruct (nth_in_or_default o offs1 (blen t)) as [Hi|Hd].
      * rewrite Forall_forall in Hall. apply Hall. exact Hi.
      * rewrite Hd. apply boundary_end.
Qed.

Theorem normalize_anchored O n : forall t, anchored n = true -> all_bnd t (normalize O n t).
Proof.
  induction n as [lower strip|pat content|f|l IH] using norm_ind'; intros t Ha; cbn [anchored] in Ha.
  - cbn [normalize all_bnd]. apply bert_anchored. exact Ha.
  - discriminate.
  - cbn [normalize all_bnd]. apply unicode_anchored.
  - rewrite normalize_seq. apply seq_fold_anchored; [exact IH| |left; exact Ha].
    cbn [good]. split; [apply chunks_identity|intros _; apply ss_seq].
Qed.

(* ------------------------------------------------------------------ panic freedom *)
Lemma replace_go_total t content : forall ms last,
  boundary t last -> matches_wf t last ms -> replace_go t content ms last <> None.
Proof.
  induction ms as [|[s e] r IH]; intros last Hb Hwf; cbn [replace_go matches_wf] in *.
  - replace (slice_ok t last (blen t)) with true; [discriminate|].
    symmetry. apply slice_ok_spec. split; [exact Hwf|]. split; [exact Hb|apply boundary_end].
  - destruct Hwf as [Hls [Hse [Hbs [Hbe Hr]]]].
    replace (slice_ok t last s) with true by (symmetry; apply slice_ok_spec; tauto).
    specialize (IH e Hbe Hr). destruct (replace_go t content r e) as [[u offs]|]; [discriminate|].
    congruence.
Qed.

Lemma seq_fold_no_panic O t (l : list norm) :
  Forall (fun n => forall t', normalize O n t' <> Panic) l ->
  forall acc, acc <> Panic -> fold_left (seq_step O (blen t)) l acc <> Panic.
Proof.
  induction 1 as [|n l Hn Hl IH]; intros acc Hacc; cbn [fold_left]; [exact Hacc|].
  apply IH. unfold seq_step. destruct acc as [m offs1| |]; try congruence.
  specialize (Hn m). destruct (normalize O n m); congruence.
Qed.

Theorem normalize_no_panic O n : find_wf O -> forall t, normalize O n t <> Panic.
Proof.
  intros Hwf. induction n as [lower strip|pat content|f|l IH] using norm_ind'; intros t.
  - cbn [normalize]. discriminate.
  - cbn [normalize]. destruct (o_find O pat t) as [ms|] eqn:Ef; [|discriminate].
    pose proof (replace_go_total t content ms 0 (boundary_zero t) (Hwf _ _ _ Ef)) as Ht.
    destruct (replace_go t content ms 0); [discriminate|congruence].
  - cbn [normalize]. discriminate.
  - rewrite normalize_seq. apply seq_fold_no_panic; [exact IH|discriminate].
Qed.

(* ------------------------------------------------------------------ Sequence = composition *)
Lemma normalize_seq_snoc O l n t :
  normalize O (NSeq (l ++ [n])) t = seq_step O (blen t) (normalize O (NSeq l) t) n.
Proof. rewrite !normalize_seq, fold_left_app. reflexivity. Qed.

(* ------------------------------------------------------------------ executable oracles *)
Lemma sortedb_true l : sortedb l = true <-> StronglySorted le l.
Proof.
  split.
  - intros H. apply Sorted_StronglySorted; [intros x y z; apply Nat.le_trans|].
    induction l as [|x l IH]; [constructor|]. cbn [sortedb] in H. destruct l as [|y l'].
    + repeat constructor.
    + apply andb_true_iff in H. destruct H as [Hxy Hr]. apply Nat.leb_le in Hxy.
      constructor; [apply IH; exact Hr|constructor; exact Hxy].
  - intros H. apply StronglySorted_Sorted in H.
    induction H as [|x l Hl IH Hx]; [reflexivity|]. cbn [sortedb]. destruct l as [|y l'].
    + reflexivity.
    + inversion Hx; subst. apply andb_true_iff. split; [apply Nat.leb_le; assumption|exact IH].
Qed.

Lemma list_eqb_nat_true a b : list_eqb Nat.eqb a b = true <-> a = b.
Proof.
  revert b; induction a as [|x a IH]; intros [|y b]; cbn [list_eqb]; split; try congruence; try discriminate.
  - intros H. apply andb_true_iff in H. destruct H as [H1 H2]. apply Nat.eqb_eq in H1.
    apply IH in H2. congruence.
  - intros H. inversion H; subst. rewrite Nat.eqb_refl. cbn [andb]. apply IH. reflexivity.
Qed.

Lemma forallb_eq_repeat o ch : forallb (Nat.eqb o) ch = true -> ch = repeat o (length ch).
Proof.
  induction ch as [|x ch IH]; cbn [forallb length repeat]; intros H; [reflexivity|].
  apply andb_true_iff in H. destruct H as [H1 H2]. apply Nat.eqb_eq in H1. subst x.
  f_equal. apply IH. exact H2.
Qed.

Lemma char_atb_true t o c : char_atb t o c = true <-> In (o, c) (indexed t).
Proof.
  unfold char_atb. rewrite existsb_exists. split.
  - intros [[o' c'] [Hin H]]. cbn [fst snd] in H. apply andb_true_iff in H.
    destruct H as [H1 H2]. apply Nat.eqb_eq in H1. apply N.eqb_eq in H2. subst. exact Hin.
  - intros H. exists (o, c). split; [exact H|]. cbn [fst snd].
    rewrite Nat.eqb_refl, N.eqb_refl. reflexivity.
Qed.

Lemma chunk_okb_sound t c ch : chunk_okb t c ch = true -> chunk t c ch.
Proof.
  unfold chunk_okb. destruct ch as [|o rest]; [discriminate|]. intros H.
  apply andb_true_iff in H. destruct H as [Hlen H]. apply Nat.eqb_eq in Hlen.
  apply orb_true_iff in H. destruct H as [H|H]; apply andb_true_iff in H; destruct H as [H1 H2].
  - apply forallb_eq_repeat in H2. rewrite H2, Hlen. constructor. apply boundaryb_true. exact H1.
  - apply list_eqb_nat_true in H2. rewrite H2. apply chunk_id. apply char_atb_true. exact H1.
Qed.

Lemma chunk_okb_complete t c ch : chunk t c ch -> chunk_okb t c ch = true.
Proof.
  intros H. pose proof (chunk_length _ _ _ H) as Hl. pose proof (len8_pos c) as Hp.
  destruct H as [o Hb|o Hin]; destruct (len8 c) as [|n] eqn:E; try lia; unfold chunk_okb.
  - cbn [repeat]. change (o :: repeat o n) with (repeat o (S n)). rewrite E.
    rewrite repeat_length, Nat.eqb_refl. cbn [andb].
    apply orb_true_iff. left. apply andb_true_iff. split; [apply boundaryb_true; exact Hb|].
    apply forallb_forall. intros x Hx. apply repeat_spec in Hx. subst. apply Nat.eqb_refl.
  - cbn [seq]. change (o :: seq (S o) n) with (seq o (S n)). rewrite E.
    rewrite seq_length, Nat.eqb_refl. cbn [andb].
    apply orb_true_iff. right. apply andb_true_iff. split; [apply char_atb_true; exact Hin|].
    apply list_eqb_nat_true. reflexivity.
Qed.

Lemma chunksb_true t u offs : chunksb t u offs = true <-> chunks t u offs.
Proof.
  split.
  - revert offs; induction u as [|c r IH]; intros offs H; cbn [chunksb] in H.
    + destruct offs; [constructor|discriminate].
    + apply andb_true_iff in H. destruct H as [H1 H2].
      rewrite <- (firstn_skipn (len8 c) offs). constructor; [apply chunk_okb_sound; exact H1|].
      apply IH. exact H2.
  - induction 1 as [|c u ch offs Hc Hu IH]; cbn [chunksb]; [reflexivity|].
    pose proof (chunk_length _ _ _ Hc) as Hl.
    rewrite <- Hl, firstn_app, Nat.sub_diag, firstn_all, firstn_O, app_nil_r.
    rewrite skipn_app, Nat.sub_diag, skipn_all, skipn_O. cbn [app].
    rewrite (chunk_okb_complete _ _ _ Hc), IH. reflexivity.
Qed.

Lemma forallb_boundaryb t offs : forallb (boundaryb t) offs = true <-> Forall (boundary t) offs.
Proof.
  rewrite forallb_forall, Forall_forall. split; intros H x Hx; apply boundaryb_true, H, Hx.
Qed.

(* ------------------------------------------------------------------ the check's oracles *)
Definition impl_spec (t : list N) (bnd_clause : list N -> list nat -> Prop) (o : impl_outcome) : Prop :=
  match o with
  | IOk u offs nbytes valid =>
      valid = true /\ nbytes = blen u /\ length offs = nbytes /\ monotone offs /\ bnd_clause u offs
  | IErr => True
  | IPanic => False
  end.

Lemma prop_ok_reflects c :
  prop_ok c = true <->
  impl_spec (c_text c) (fun _ offs => Forall (boundary (c_text c)) offs) (c_impl c).
Proof.
  unfold prop_ok, impl_spec. destruct (c_impl c) as [u offs nbytes valid| |]; [|tauto|split; [discriminate|tauto]].
  rewrite !andb_true_iff, !Nat.eqb_eq, sortedb_true, forallb_boundaryb.
  split.
  - intros [[[[H1 H2] H3] H4] H5]. repeat split; auto using mono_idx.
  - intros [H1 [H2 [H3 [H4 H5]]]]. repeat split; auto using mono_idx_inv.
Qed.

Lemma prop_ok_modF16_sound c :
  prop_ok_modF16 c = true ->
  impl_spec (c_text c)
    (fun u offs => forall p, p < length offs ->
       boundary (c_text c) (nth p offs 0) \/ F16_class (c_text c) u offs p) (c_impl c).
Proof.
  unfold prop_ok_modF16, impl_spec. destruct (c_impl c) as [u offs nbytes valid| |]; [|tauto|discriminate].
  rewrite !andb_true_iff, !Nat.eqb_eq, sortedb_true, chunksb_true.
  intros [[[[H1 H2] H3] H4] H5]. repeat split; auto using mono_idx.
  apply chunks_excluding_F16. exact H5.
Qed.

Lemma regex_tab_ranges tab : 
  forallb (fun e => match snd e with
                    | None => true
                    | Some ms => forallb (fun m => Nat.leb (fst m) (snd m)) ms
                    end) tab = true ->
  forall p t ms, regex_tab p t tab = Some ms -> Forall (fun m => fst m <= snd m) ms.
Proof.
  induction tab as [|[[p' t'] v] tab IH]; intros H p t ms Hl; cbn [regex_tab forallb snd] in *; [discriminate|].
  apply andb_true_iff in H. destruct H as [H1 H2].
  destruct ((p' =? p)%N && list_eqb N.eqb t' t).
  - subst v. apply Forall_forall. intros m Hm. rewrite forallb_forall in H1.
    apply Nat.leb_le. apply H1. exact Hm.
  - eapply IH; eauto.
Qed.

Lemma tables_ok_find_ranges c : tables_ok c = true -> find_ranges (case_oracles c).
Proof. intros H p t ms Hl. exact (regex_tab_ranges (c_regex c) H p t ms Hl). Qed.

(* an implementation outcome equal to the model's passes the oracle weakened by F16 *)
Lemma model_passes_modF16 c u offs :
  tables_ok c = true -> model_of c = Ok u offs -> c_impl c = IOk u offs (blen u) true ->
  prop_ok_modF16 c = true.
Proof.
  intros Ht Hm Hi. unfold prop_ok_modF16. rewrite Hi. unfold model_of in Hm.
  pose proof (normalize_chunks _ _ _ _ _ Hm) as Hc.
  pose proof (normalize_sorted _ _ _ _ _ (tables_ok_find_ranges c Ht) Hm) as Hs.
  rewrite (chunks_length _ _ _ Hc), !Nat.eqb_refl. cbn [andb].
  apply andb_true_iff. split; [apply sortedb_true; exact Hs|apply chunksb_true; exact Hc].
Qed.
