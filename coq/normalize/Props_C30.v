(* C30 -- Text normalizers keep an exact offset map.
   Only statements; every proof is `exact <lemma>` (or a closed computation for witnesses).
   All theorems quantify over ALL oracles O (lowercase / decomposition / composition / Mn
   tables and regex matches are arbitrary functions), all configurations n (incl. nested
   sequences) and all texts t. *)
From RV Require Import Prelude.
From Normalize Require Import Model Normalize_proofs.
Open Scope nat_scope.

(* (1) one source offset per normalized byte *)
Theorem C30_offsets_len_eq_bytes : forall O n t u offs,
  normalize O n t = Ok u offs -> length offs = blen u.
Proof. intros O n t u offs H. exact (chunks_length _ _ _ (normalize_chunks _ _ _ _ _ H)). Qed.

(* (2) non-decreasing along the normalized text (regex matches must be ranges start <= end) *)
Theorem C30_offsets_monotone : forall O n t u offs,
  find_ranges O -> normalize O n t = Ok u offs -> monotone offs.
Proof. intros O n t u offs HR H. exact (mono_idx _ (normalize_sorted _ _ _ _ _ HR H)). Qed.

(* every offset is at most the input length (so Sequence's lookups are in range, below) *)
Theorem C30_offsets_bounded : forall O n t u offs,
  normalize O n t = Ok u offs -> Forall (fun o => o <= blen t) offs.
Proof. intros O n t u offs H. exact (chunks_bounded _ _ _ (normalize_chunks _ _ _ _ _ H)). Qed.

(* (3) the boundary clause as stated in the property is FALSE for the code as it is
       (known finding F16), at each of the three identity-map sites: "é" = [233] (2 bytes),
       offset 1 is not a char boundary *)
Definition witness_oracles : oracles := {|
  o_lower := fun c => [c]; o_canon := fun c => [c]; o_compat := fun c => [c];
  o_is_mn := fun _ => false; o_compose := fun _ _ => None;
  o_find := fun _ _ => Some [(2, 3)]       (* the match of "x" in "éx" *)
|}.
Theorem C30_offsets_are_boundaries_refuted :
  (normalize witness_oracles (NBert false false) [233%N] = Ok [233%N] [0; 1] /\ ~ boundary [233%N] 1) /\
  (normalize witness_oracles (NReplace 0 [121%N]) [233%N; 120%N] = Ok [233%N; 121%N] [0; 1; 2] /\
     ~ boundary [233%N; 120%N] 1) /\
  (normalize witness_oracles (NSeq []) [233%N] = Ok [233%N] [0; 1] /\ ~ boundary [233%N] 1).
Proof.
  repeat split; try (vm_compute; reflexivity);
    intros H; apply boundaryb_true in H; vm_compute in H; discriminate.
Qed.

(* (3a) what does hold everywhere: at the first byte of every normalized char the offset is a
        char boundary of the input *)
Theorem C30_offsets_are_boundaries_at_char_starts_partial : forall O n t u offs,
  normalize O n t = Ok u offs ->
  forall q c, In (q, c) (indexed u) -> boundary t (nth q offs 0).
Proof. intros O n t u offs H q c. exact (chunks_char_start _ _ _ q c (normalize_chunks _ _ _ _ _ H)). Qed.

(* (3b) the full clause with exactly the known class excluded: every normalized byte carries a
        boundary offset, or it is continuation byte k of a char copied verbatim from source
        offset o and carries o + k *)
Theorem C30_offsets_are_boundaries_excluding_F16 : forall O n t u offs,
  normalize O n t = Ok u offs ->
  forall p, p < length offs -> boundary t (nth p offs 0) \/ F16_class t u offs p.
Proof. intros O n t u offs H. exact (chunks_excluding_F16 _ _ _ (normalize_chunks _ _ _ _ _ H)). Qed.

(* ... and that class consists of violations only (the disjunction above is exclusive) *)
Theorem C30_F16_class_is_never_a_boundary : forall t u offs p,
  F16_class t u offs p -> ~ boundary t (nth p offs 0).
Proof. exact F16_class_not_boundary. Qed.

(* (3c) the full clause for configurations with an anchoring stage (Bert with an option set,
        any Unicode form, any sequence containing one) ... *)
Theorem C30_offsets_are_boundaries_anchored : forall O n t u offs,
  anchored n = true -> normalize O n t = Ok u offs -> Forall (boundary t) offs.
Proof.
  intros O n t u offs Ha H. pose proof (normalize_anchored O n t Ha) as G. rewrite H in G. exact G.
Qed.

(* ... and for any configuration when the normalized text is ASCII *)
Theorem C30_offsets_are_boundaries_ascii_output : forall O n t u offs,
  normalize O n t = Ok u offs -> (forall c, In c u -> len8 c = 1) -> Forall (boundary t) offs.
Proof. intros O n t u offs H. exact (chunks_ascii_output _ _ _ (normalize_chunks _ _ _ _ _ H)). Qed.

(* (4) Sequence's offset map is the composition of its stages' maps *)
Theorem C30_sequence_nil : forall O t, normalize O (NSeq []) t = Ok t (seq 0 (blen t)).
Proof. reflexivity. Qed.

Theorem C30_sequence_composes : forall O l n t,
  normalize O (NSeq (l ++ [n])) t =
  match normalize O (NSeq l) t with
  | Ok m offs1 =>
      match normalize O n m with
      | Ok u next => Ok u (map (fun o => nth o offs1 (blen t)) next)
      | Err => Err
      | Panic => Panic
      end
  | Err => Err
  | Panic => Panic
  end.
Proof. exact normalize_seq_snoc. Qed.

(* the composition only ever looks up positions of the previous table, or the position just
   past its end (mapped to the end of the source text) *)
Theorem C30_sequence_lookups_in_range : forall O l n t m offs1 u next,
  normalize O (NSeq l) t = Ok m offs1 -> normalize O n m = Ok u next ->
  Forall (fun o => o <= length offs1) next.
Proof.
  intros O l n t m offs1 u next H1 H2.
  rewrite (chunks_length _ _ _ (normalize_chunks _ _ _ _ _ H1)).
  exact (chunks_bounded _ _ _ (normalize_chunks _ _ _ _ _ H2)).
Qed.

(* (5) no panic (slicing, indexing) when the regex engine returns well-formed matches *)
Theorem C30_no_panic : forall O n t, find_wf O -> normalize O n t <> Panic.
Proof. intros O n t H. exact (normalize_no_panic O n H t). Qed.

(* (6) the executable oracles used by the check *)
Theorem C30_prop_ok_reflects : forall c,
  prop_ok c = true <->
  match c_impl c with
  | IOk u offs nbytes valid =>
      valid = true /\ nbytes = blen u /\ length offs = nbytes /\ monotone offs /\
      Forall (boundary (c_text c)) offs
  | IErr => True
  | IPanic => False
  end.
Proof. exact prop_ok_reflects. Qed.

Theorem C30_prop_ok_modF16_sound : forall c,
  prop_ok_modF16 c = true ->
  match c_impl c with
  | IOk u offs nbytes valid =>
      valid = true /\ nbytes = blen u /\ length offs = nbytes /\ monotone offs /\
      forall p, p < length offs ->
        boundary (c_text c) (nth p offs 0) \/ F16_class (c_text c) u offs p
  | IErr => True
  | IPanic => False
  end.
Proof. exact prop_ok_modF16_sound. Qed.

Theorem C30_model_passes_modF16 : forall c u offs,
  tables_ok c = true -> model_of c = Ok u offs -> c_impl c = IOk u offs (blen u) true ->
  prop_ok_modF16 c = true.
Proof. exact model_passes_modF16. Qed.

(* non-vacuity: the CLIP-style sequence of the crate's own test (NFC, lowercase, whitespace
   simplification) on "İ  x" with the relevant table entries; an anchored configuration; the
   hypotheses find_ranges / find_wf are satisfiable *)
Definition example_oracles : oracles := {|
  o_lower := fun c => if (c =? 304)%N then [105%N; 775%N] else [c];
  o_canon := fun c => [c]; o_compat := fun c => [c];
  o_is_mn := fun _ => false; o_compose := fun _ _ => None;
  o_find := fun _ t => if list_eqb N.eqb t [105%N; 775%N; 32%N; 32%N; 120%N] then Some [(3, 5)] else Some []
|}.
Example C30_nonvacuous :
  normalize example_oracles (NSeq [NUnicode Nfc; NBert true false; NReplace 0 [32%N]])
            [304%N; 32%N; 32%N; 120%N]
  = Ok [105%N; 775%N; 32%N; 120%N] [0; 0; 0; 2; 4] /\
  anchored (NSeq [NUnicode Nfc; NBert true false; NReplace 0 [32%N]]) = true /\
  find_ranges witness_oracles /\
  normalize witness_oracles (NReplace 0 [121%N]) [233%N; 120%N] <> Panic.
Proof.
  split; [vm_compute; reflexivity|]. split; [reflexivity|]. split.
  - intros p t ms H. inversion H; subst. repeat constructor.
  - vm_compute. discriminate.
Qed.
