From RV Require Import Prelude.
From Normalize Require Import Model.
Open Scope N_scope.
