(* Shared definitions: machine-integer helpers and the case-evaluation driver used by
   the correspondence checks. Stdlib only. *)
From Coq Require Export List Arith ZArith NArith Lia Bool.
Export ListNotations.

Arguments N.add : simpl never.
Arguments N.sub : simpl never.
Arguments N.mul : simpl never.
Arguments N.eqb : simpl never.
Arguments N.ltb : simpl never.
Arguments N.leb : simpl never.
Arguments Z.add : simpl never.
Arguments Z.sub : simpl never.
Arguments Z.mul : simpl never.

(* ---- machine integers (usize/u64 on the 64-bit targets the checks run on) ---- *)
Definition two64 : N := 18446744073709551616%N.
Definition wrap64 (x : N) : N := (x mod two64)%N.
Definition u64_max : N := 18446744073709551615%N.
Definition fits64 (x : N) : bool := (x <? two64)%N.

Definition two63Z : Z := 9223372036854775808%Z.
Definition i32_min : Z := (-2147483648)%Z.
Definition i32_max : Z := 2147483647%Z.
Definition in_i32 (z : Z) : bool := ((i32_min <=? z) && (z <=? i32_max))%Z.
Definition i64_min : Z := (-9223372036854775808)%Z.
Definition i64_max : Z := 9223372036854775807%Z.
Definition in_i64 (z : Z) : bool := ((i64_min <=? z) && (z <=? i64_max))%Z.

Lemma wrap64_small x : (x < two64)%N -> wrap64 x = x.
Proof. intros H. unfold wrap64. apply N.mod_small. exact H. Qed.

Lemma wrap64_lt x : (wrap64 x < two64)%N.
Proof. unfold wrap64. apply N.mod_lt. discriminate. Qed.

(* ---- evaluation driver: indices (0-based) of the cases on which [f] is false ---- *)
Fixpoint bad_idx_from {A} (f : A -> bool) (i : N) (cs : list A) : list N :=
  match cs with
  | [] => []
  | c :: r => if f c then bad_idx_from f (N.succ i) r else i :: bad_idx_from f (N.succ i) r
  end.
Definition bad_idx {A} (f : A -> bool) (cs : list A) : list N := bad_idx_from f 0%N cs.

Lemma bad_idx_from_nil {A} (f : A -> bool) cs i :
  bad_idx_from f i cs = [] <-> forallb f cs = true.
Proof.
  revert i; induction cs as [|c r IH]; intros i; cbn [bad_idx_from forallb].
  - tauto.
  - destruct (f c); cbn [andb]; [apply IH|]. split; discriminate.
Qed.
