(* ModelTestOps.v -- the executable instance used by the correspondence checks of C02 / C25:
   the table-driven TEST OPERATORS of the hook `rten::verif::exec` (src/verif/exec.rs), the
   top-level run (`Graph::run`: distribution of owned / borrowed inputs), and the `case` record
   printed by harness/exec.  Definitions only. *)
From RV Require Import Prelude.
From Planner Require Import Graph.
From Exec Require Import ExecModel.
Open Scope N_scope.

(* ---------------------------------------------------------------- test operators *)
Record opspec := {
  o_nout : nat;          (* number of outputs produced *)
  o_ip : list nat;       (* in_place_inputs() *)
  o_comm : bool;         (* is_commutative(); the hash is then symmetric in the inputs *)
  o_mut : bool;          (* run_in_place overwrites the first owned buffer (if lengths match) *)
  o_det : bool;          (* is_deterministic() *)
  o_len : option N;      (* fixed output length; None = longest input (1 without inputs) *)
  o_mod : option Z       (* reduce every element modulo this *)
}.

Definition HM : Z := 1000000007.
Definition HA : Z := 1000003.
Definition HABSENT : Z := 777777.
Definition mix (h x : Z) : Z := ((h * HA + (x mod HM) + 12345) mod HM)%Z.

Definition elem_at (a : V) (j : nat) : Z :=
  match a with [] => HABSENT | _ => nth (j mod (length a))%nat a 0%Z end.

Fixpoint present (args : list (option V)) : list V :=
  match args with [] => [] | Some a :: r => a :: present r | None :: r => present r end.

Definition test_elem (uid : N) (sp : opspec) (nonce : Z) (args : list (option V)) (k j : nat) : Z :=
  let seed := mix (mix (mix 17 (Z.of_N uid)) (Z.of_nat k)) nonce in
  let h :=
    if o_comm sp then
      mix (fold_left (fun acc a => ((acc + mix seed (elem_at a j)) mod HM)%Z) (present args) seed)
          (Z.of_nat j)
    else
      fold_left (fun h a => match a with
                            | Some a => mix (mix h 1) (elem_at a j)
                            | None => mix (mix h 2) HABSENT
                            end) args (mix seed (Z.of_nat j)) in
  match o_mod sp with
  | Some m => if (0 <? m)%Z then (h mod m)%Z else h
  | None => h
  end.

Definition out_len (sp : opspec) (args : list (option V)) : nat :=
  match o_len sp with
  | Some n => N.to_nat n
  | None => match present args with
            | [] => 1%nat
            | l => fold_left (fun m a => Nat.max m (length a)) l 0%nat
            end
  end.

Definition test_run (uid : N) (sp : opspec) (nonce : Z) (args : list (option V)) : list V :=
  map (fun k => map (fun j => test_elem uid sp nonce args k j) (seq 0 (out_len sp args)))
      (seq 0 (o_nout sp)).

(* run_in_place of the test operator puts the owned values back at their positions *)
Fixpoint fill_from (tk : list (nat * V)) (p : nat) (rest : list (option V)) : list (option V) :=
  match rest with
  | [] => []
  | a :: r => (match assocn tk p with Some x => Some x | None => a end) :: fill_from tk (Datatypes.S p) r
  end.

Definition test_sem (ops : list (id * opspec)) (nonce : Z) : sem :=
  let sp o := assoc ops o in
  {| s_run := fun o args => match sp o with
                            | Some p => Some (test_run o p (if o_det p then 0%Z else nonce) args)
                            | None => None
                            end;
     s_run_ip := fun o tk rest => match sp o with
                                  | Some p => Some (test_run o p (if o_det p then 0%Z else nonce)
                                                             (fill_from tk 0 rest))
                                  | None => None
                                  end;
     s_ip := fun o => match sp o with Some p => o_ip p | None => [] end;
     s_comm := fun o => match sp o with Some p => o_comm p | None => false end;
     s_reuse := fun o old new => match sp o with
                                 | Some p => o_mut p && (length old =? length new)%nat
                                 | None => false
                                 end;
     s_sub := fun _ => false |}.

(* ---------------------------------------------------------------- Graph::run *)
Record input := { i_id : id; i_val : V; i_owned : bool }.

Fixpoint find_input (ins : list input) (v : id) : option input :=
  match ins with [] => None | i :: r => if i_id i =? v then Some i else find_input r v end.

(* buffers that exist before the run: constant c lives in buffer 2c, the value passed for run
   input v in buffer 2v+1 *)
Definition cbuf (c : id) : bid := 2 * c.
Definition ibuf (v : id) : bid := 2 * v + 1.

Definition top_heap (consts : list (id * V)) (ins : list input) : bid -> option V :=
  fun b => if N.even b then assoc consts (b / 2)
           else match find_input ins (b / 2) with Some i => Some (i_val i) | None => None end.

Definition max_id (g : graph) (ins : list input) : N :=
  fold_left N.max (map fst (g_nodes g) ++ map i_id ins) 0.

Definition top_state (g : graph) (consts : list (id * V)) (ins : list input) : st :=
  {| heap := top_heap consts ins;
     temp := fun v => match find_input ins v with
                      | Some i => if i_owned i then Some (ibuf v) else None
                      | None => None
                      end;
     caps := fun _ => None; rcs := fun _ => 0; pool := [];
     next := 2 * max_id g ins + 2; trace := [] |}.

(* get_value_from_constant_or_input *)
Definition top_ext (g : graph) (consts : list (id * V)) (ins : list input) : id -> option bid :=
  fun v => if is_constant g v then match assoc consts v with Some _ => Some (cbuf v) | None => None end
           else match find_input ins v with
                | Some i => if i_owned i then None else Some (ibuf v)
                | None => None
                end.

(* what the caller supplied, however it was passed *)
Definition top_xv (g : graph) (consts : list (id * V)) (ins : list input) : id -> option V :=
  fun v => if is_constant g v then assoc consts v
           else match find_input ins v with Some i => Some (i_val i) | None => None end.

Definition run_top (g : graph) (S : sem) (y : strategy) (consts : list (id * V)) (ins : list input)
           (plan outs : list id) :=
  exec_from g S y (top_ext g consts ins)
            (fun v => match find_input ins v with Some _ => true | None => false end)
            (top_state g consts ins) plan outs.

Definition naive_top (g : graph) (S : sem) (consts : list (id * V)) (ins : list input)
           (plan outs : list id) : res (list V) :=
  naive_eval g S (top_xv g consts ins) plan outs.

(* ---------------------------------------------------------------- correspondence case *)
(* run-input / constant data generated from a seed (the harness uses the same generator):
   keeps case terms small *)
Definition gv (seed : Z) (len : nat) : V :=
  map (fun i => (((seed * 1103515245 + 12345 + Z.of_nat i * 2654435761) mod 2147483648) mod 2001 - 1000)%Z)
      (seq 0 len).

(* outputs are compared through (length, checksum) *)
Definition vsig (x : V) : nat * Z := (length x, fold_left mix x 0%Z).

Inductive ires :=
| IOk (outs : list (nat * Z))   (* per output: length and checksum [vsig] of its elements *)
| IErr             (* Graph::run returned Err *)
| IPanic | ITimeout.

Record run_obs := {
  r_owned : list bool;         (* per run input (in c_ins order): passed as an owned value *)
  r_pool : bool;               (* RTEN_USE_POOL *)
  r_noip : bool;               (* graph built in "never in place" reference mode *)
  r_threads : N;               (* 0 = global thread pool *)
  r_res : ires;
  r_trace : list (id * list nat * bool);  (* per test-operator call: op, positions passed by
                                             value, first owned buffer overwritten *)
  r_borrowed_ok : bool;        (* every borrowed input read back bit-identical after the run *)
  r_consts_ok : bool           (* every constant read back bit-identical after the run *)
}.

Record case := {
  c_graph : graph;
  c_ops : list (id * opspec);
  c_consts : list (id * V);
  c_ins : list (id * V);
  c_outs : list id;
  c_plan : option (list id);   (* Graph::execution_plan for this request (None = planning error) *)
  c_plan_noip : option (list id); (* the same for the "never in place" build of the graph (the
                                     planner's tie-break looks at in_place_inputs) *)
  c_runs : list run_obs
}.

Definition sig_eqb (a b : nat * Z) : bool := (fst a =? fst b)%nat && (snd a =? snd b)%Z.
Definition sigs_eqb (a b : list (nat * Z)) : bool :=
  (length a =? length b)%nat && forallb (fun p => sig_eqb (fst p) (snd p)) (combine a b).
Definition Vs_eqb (a : list V) (b : list (nat * Z)) : bool := sigs_eqb (map vsig a) b.

Definition mk_inputs (ins : list (id * V)) (owned : list bool) : list input :=
  map (fun p => {| i_id := fst (fst p); i_val := snd (fst p); i_owned := snd p |})
      (combine ins (owned ++ repeat false (length ins))).

Definition c_sem (c : case) : sem := test_sem (c_ops c) 0.

Definition strategy_of (r : run_obs) : strategy :=
  let t := today (r_pool r) in
  {| y_pool := y_pool t; y_policy := fun _ => negb (r_noip r); y_pick := y_pick t; y_choose := y_choose t |}.

Definition model_run (c : case) (plan : list id) (r : run_obs) :=
  run_top (c_graph c) (c_sem c) (strategy_of r) (c_consts c) (mk_inputs (c_ins c) (r_owned r))
          plan (c_outs c).

Definition naive_of (c : case) (plan : list id) : res (list V) :=
  naive_top (c_graph c) (c_sem c) (c_consts c) (mk_inputs (c_ins c) []) plan (c_outs c).

Definition res_matches (m : res (list V)) (i : ires) : bool :=
  match m, i with
  | ROk a, IOk b => Vs_eqb a b
  | RFail FPlan, IErr | RFail (FOp _), IErr | RFail (FOutputs _), IErr => true
  | RFail (FMissing _), IPanic | RFail (FTake _), IPanic | RFail (FNoOutput _), IPanic => true
  | _, _ => false
  end.

Definition trace_eqb (a b : list (id * list nat * bool)) : bool :=
  (length a =? length b)%nat &&
  forallb (fun p => let '(o1, p1, f1) := fst p in let '(o2, p2, f2) := snd p in
                    (o1 =? o2) && (length p1 =? length p2)%nat
                    && forallb (fun q => (fst q =? snd q)%nat) (combine p1 p2) && Bool.eqb f1 f2)
          (combine a b).

(* informational: the implementation follows the deterministic model of today's executor
   (same outputs, same in-place decisions per step) *)
Definition agree (c : case) : bool :=
  match c_plan c with
  | None => forallb (fun r => match r_res r with IErr => true | _ => false end) (c_runs c)
  | Some plan =>
      forallb (fun r => let plan := if r_noip r then match c_plan_noip c with Some p => p | None => plan end
                                        else plan in
                        let '(m, tr) := model_run c plan r in
                        res_matches m (r_res r) &&
                        match m with ROk _ => trace_eqb tr (r_trace r) | _ => true end) (c_runs c)
  end.

(* C02 oracle: under EVERY strategy that was run, the implementation returned the outputs of the
   naive evaluation (every operator on fresh copies, plan order) *)
Definition prop_ok (c : case) : bool :=
  match c_plan c with
  | None => forallb (fun r => match r_res r with IErr => true | _ => false end) (c_runs c)
  | Some plan =>
      let nv := naive_of c plan in
      forallb (fun r => match nv, r_res r with
                        | ROk a, IOk b => Vs_eqb a b
                        | RFail FPlan, IErr | RFail (FOp _), IErr | RFail (FOutputs _), IErr => true
                        | _, _ => false
                        end) (c_runs c)
  end.

(* C25 oracle: deterministic (all runs of the case -- they repeat strategies and differ only in
   strategy -- return identical results), borrowed inputs and constants bit-identical after
   every run *)
Definition ires_eqb (a b : ires) : bool :=
  match a, b with
  | IOk x, IOk z => sigs_eqb x z
  | IErr, IErr => true
  | _, _ => false
  end.
Definition prop_ok25 (c : case) : bool :=
  forallb (fun r => r_borrowed_ok r && r_consts_ok r) (c_runs c) &&
  match c_runs c with
  | [] => true
  | r0 :: rs => forallb (fun r => ires_eqb (r_res r0) (r_res r)) (r0 :: rs)
  end.

Definition show (c : case) :=
  match c_plan c with
  | None => (RFail FPlan, [])
  | Some plan => (naive_of c plan, map (fun r => model_run c plan r) (c_runs c))
  end.
