(* SeqModel.v -- C25, run-sequence family (harness/exec/src/bin/c25s.rs): several different
   requests (varying input sets incl. overridden intermediates, varying output subsets,
   owned/borrowed mixes) are run one after another on ONE graph instance; each outcome is compared
   with the outcome of the same request on a FRESH instance of the graph.  Definitions only. *)
From RV Require Import Prelude.
From Planner Require Import Graph.
From Exec Require Import ExecModel ModelTestOps.
Open Scope N_scope.

Record scase := {
  sq_steps : list (ires * ires);   (* per request: outcome in the sequence, outcome on a fresh graph *)
  sq_intact : bool                 (* constants and borrowed inputs bit-identical after every run *)
}.

Definition outcome_eqb (a b : ires) : bool :=
  match a, b with
  | IOk x, IOk z => sigs_eqb x z
  | IErr, IErr => true
  | IPanic, IPanic => true
  | _, _ => false
  end.

(* "a run cannot affect later runs" *)
Definition prop_okS (c : scase) : bool :=
  sq_intact c && forallb (fun p => outcome_eqb (fst p) (snd p)) (sq_steps c).

Definition showS (c : scase) := (sq_intact c, sq_steps c).
