(* Props_C02.v -- C02 "Run results are independent of execution strategy": statements only. *)
From RV Require Import Prelude.
From Planner Require Import Graph.
From Exec Require Import ExecModel Exec_base Exec_sim Exec_top Exec_order ModelTestOps.
Open Scope N_scope.

(* The heap executor (model of Graph::run_plan) started in any state that satisfies the buffer
   invariant -- caller-owned buffers [ext] hold the supplied values [xv], owned inputs sit in
   temp_values, nothing is shared -- returns EXACTLY the outcome of the naive evaluation (every
   operator on fresh copies of its inputs, in plan order): the same outputs, or the same operator
   error / missing-value failure.  For EVERY strategy y: pool on or off, any subset of operators
   allowed to run in place, any operand choice for commutative operators, any recycled buffer
   handed out by the pool.  Hypotheses: the run_in_place contract (C13), requested outputs are
   distinct (the planner rejects duplicates), planned operators write value nodes. *)
Theorem C02_run_plan_refines_naive :
  forall (g : graph) (S : sem) (y : strategy) (ext : id -> option bid) (is_in : id -> bool)
         (xv : id -> option V) (outs : list id),
    (forall o ps args, s_run_ip S o (pick_vals ps args) (blank ps args) = s_run S o args) ->
    (forall o, NoDup (s_ip S o)) ->
    (forall v, is_in v = true -> xv v <> None) ->
    forall plan s0,
      binv g ext xv (val xv (fun _ => None)) [] s0 ->
      (forall v, xv v <> None -> locate ext s0 v <> None) ->
      NoDup outs -> plan_wf g is_in xv plan ->
      fst (exec_from g S y ext is_in s0 plan outs) = naive_eval g S xv plan outs.
Proof. exact exec_refines_naive. Qed.

(* "read of a released or moved buffer" and the expect("input is available") panic are distinct
   outcomes of the model; they are unreachable *)
Theorem C02_no_use_after_free :
  forall (g : graph) (S : sem) (y : strategy) (ext : id -> option bid) (is_in : id -> bool)
         (xv : id -> option V) (outs : list id),
    (forall o ps args, s_run_ip S o (pick_vals ps args) (blank ps args) = s_run S o args) ->
    (forall o, NoDup (s_ip S o)) ->
    (forall v, is_in v = true -> xv v <> None) ->
    forall s0 plan,
      binv g ext xv (val xv (fun _ => None)) [] s0 ->
      (forall v, xv v <> None -> locate ext s0 v <> None) ->
      NoDup outs -> plan_wf g is_in xv plan ->
      forall f, fst (exec_from g S y ext is_in s0 plan outs) = RFail f ->
                match f with FFreed _ | FTake _ => False | _ => True end.
Proof. exact exec_no_use_after_free. Qed.

(* Graph::run: inputs distributed into owned values and borrowed views in any way *)
Theorem C02_run_refines_naive :
  forall (g : graph) (S : sem) (consts : list (id * V)),
    (forall o ps args, s_run_ip S o (pick_vals ps args) (blank ps args) = s_run S o args) ->
    (forall o, NoDup (s_ip S o)) ->
    forall y ins plan outs,
      inputs_ok g ins -> outputs_ok g plan -> NoDup outs ->
      fst (run_top g S y consts ins plan outs) = naive_top g S consts ins plan outs.
Proof. exact run_top_refines_naive. Qed.

Theorem C02_strategy_irrelevant :
  forall (g : graph) (S : sem) (consts : list (id * V)),
    (forall o ps args, s_run_ip S o (pick_vals ps args) (blank ps args) = s_run S o args) ->
    (forall o, NoDup (s_ip S o)) ->
    forall y1 y2 ins1 ins2 plan outs,
      same_inputs ins1 ins2 -> inputs_ok g ins1 -> outputs_ok g plan -> NoDup outs ->
      fst (run_top g S y1 consts ins1 plan outs) = fst (run_top g S y2 consts ins2 plan outs).
Proof. exact strategy_irrelevant. Qed.

(* the three named corollaries *)
Theorem C02_in_place_choice_irrelevant :
  forall (g : graph) (S : sem) (consts : list (id * V)),
    (forall o ps args, s_run_ip S o (pick_vals ps args) (blank ps args) = s_run S o args) ->
    (forall o, NoDup (s_ip S o)) ->
    forall y policy pick ins plan outs,
      inputs_ok g ins -> outputs_ok g plan -> NoDup outs ->
      fst (run_top g S y consts ins plan outs) =
      fst (run_top g S {| y_pool := y_pool y; y_policy := policy; y_pick := pick; y_choose := y_choose y |}
                   consts ins plan outs).
Proof. intros. apply strategy_irrelevant; auto. reflexivity. Qed.

Theorem C02_pool_irrelevant :
  forall (g : graph) (S : sem) (consts : list (id * V)),
    (forall o ps args, s_run_ip S o (pick_vals ps args) (blank ps args) = s_run S o args) ->
    (forall o, NoDup (s_ip S o)) ->
    forall y use_pool choose ins plan outs,
      inputs_ok g ins -> outputs_ok g plan -> NoDup outs ->
      fst (run_top g S y consts ins plan outs) =
      fst (run_top g S {| y_pool := use_pool; y_policy := y_policy y; y_pick := y_pick y; y_choose := choose |}
                   consts ins plan outs).
Proof. intros. apply strategy_irrelevant; auto. reflexivity. Qed.

Theorem C02_owned_vs_borrowed_irrelevant :
  forall (g : graph) (S : sem) (consts : list (id * V)),
    (forall o ps args, s_run_ip S o (pick_vals ps args) (blank ps args) = s_run S o args) ->
    (forall o, NoDup (s_ip S o)) ->
    forall y ins1 ins2 plan outs,
      same_inputs ins1 ins2 ->   (* same ids and values, owned flags arbitrary *)
      inputs_ok g ins1 -> outputs_ok g plan -> NoDup outs ->
      fst (run_top g S y consts ins1 plan outs) = fst (run_top g S y consts ins2 plan outs).
Proof. intros. apply strategy_irrelevant; auto. Qed.

(* "in any topological order": two duplicate-free plans over operators with unique producers on
   which the naive evaluation succeeds give the same outputs *)
Theorem C02_naive_eval_order_independent :
  forall (g : graph) (S : sem) (xv : id -> option V) plan1 plan2 outs r1 r2,
    NoDup plan1 -> NoDup plan2 -> single_producer g (plan1 ++ plan2) ->
    naive_eval g S xv plan1 outs = ROk r1 -> naive_eval g S xv plan2 outs = ROk r2 -> r1 = r2.
Proof. exact naive_eval_order_independent. Qed.

(* the test operators of the hook satisfy the run_in_place contract, so the theorems above apply
   to the instance that is compared with the implementation *)
Theorem C02_test_operators_meet_contract :
  forall ops nonce o ps args,
    s_run_ip (test_sem ops nonce) o (pick_vals ps args) (blank ps args) = s_run (test_sem ops nonce) o args.
Proof. exact test_sem_contract. Qed.

(* what the property oracle of the check says *)
Lemma sigs_eqb_eq : forall a b, sigs_eqb a b = true -> a = b.
Proof.
  unfold sigs_eqb. induction a as [|x l IH]; intros [|z b] H; cbn in H; try discriminate; [reflexivity|].
  apply andb_true_iff in H. destruct H as (Hl & Hf). apply andb_true_iff in Hf. destruct Hf as (Hx & Hf).
  unfold sig_eqb in Hx. cbn in Hx. apply andb_true_iff in Hx. destruct Hx as (A & B).
  apply Nat.eqb_eq in A. apply Z.eqb_eq in B. destruct x, z. cbn in *. subst. f_equal.
  apply IH. rewrite Hl, Hf. reflexivity.
Qed.

Theorem C02_prop_ok_reflect :
  forall c plan, c_plan c = Some plan -> prop_ok c = true ->
    forall r, In r (c_runs c) ->
      match naive_of c plan, r_res r with
      | ROk a, IOk b => map vsig a = b
      | ROk _, _ => False
      | RFail _, IOk _ => False
      | _, _ => True
      end.
Proof.
  intros c plan Hp H r Hr. unfold prop_ok in H. rewrite Hp in H. rewrite forallb_forall in H.
  specialize (H r Hr). destruct (naive_of c plan) as [a|f]; destruct (r_res r) as [b| | |]; try discriminate; auto.
  - apply sigs_eqb_eq. exact H.
  - destruct f; discriminate.
Qed.

(* non-vacuity: a graph in which an owned input is overwritten in place (operator 2, mutating),
   its result consumed twice by a commutative operator, then released to the pool: the model
   executor and the naive evaluation agree under different strategies *)
Definition ex_graph : graph :=
  mk_graph [(0, Value); (1, Constant);
            (2, Op (mkop [Some 0] [Some 3] [] true)); (3, Value);
            (4, Op (mkop [Some 3; Some 1; Some 3] [Some 5; Some 6] [] true)); (5, Value); (6, Value);
            (7, Op (mkop [Some 5] [Some 8] [] true)); (8, Value)] [].
Definition ex_ops : list (id * opspec) :=
  [(2, {| o_nout := 1; o_ip := [0%nat]; o_comm := false; o_mut := true; o_det := true; o_len := None; o_mod := None |});
   (4, {| o_nout := 2; o_ip := [0%nat]; o_comm := true; o_mut := true; o_det := true; o_len := None; o_mod := None |});
   (7, {| o_nout := 1; o_ip := [0%nat]; o_comm := false; o_mut := true; o_det := true; o_len := None; o_mod := None |})].
Definition ex_in (owned : bool) : list input := [{| i_id := 0; i_val := [5; 6; 7]%Z; i_owned := owned |}].

Example C02_nonvacuous :
  let S := test_sem ex_ops 0 in
  let consts := [(1, [1; 2; 3]%Z)] in
  inputs_ok ex_graph (ex_in true) /\ outputs_ok ex_graph [2; 4; 7] /\ NoDup [8; 6] /\
  (* in-place really happens under today's strategy with an owned input ... *)
  snd (run_top ex_graph S (today true) consts (ex_in true) [2; 4; 7] [8; 6])
    = [(2, [0%nat], true); (4, [], false); (7, [0%nat], true)] /\
  (* ... and not with a borrowed one; outputs equal the naive ones either way *)
  snd (run_top ex_graph S (today false) consts (ex_in false) [2; 4; 7] [8; 6])
    = [(2, [], false); (4, [], false); (7, [0%nat], true)] /\
  fst (run_top ex_graph S (today true) consts (ex_in true) [2; 4; 7] [8; 6])
    = naive_top ex_graph S consts (ex_in false) [2; 4; 7] [8; 6] /\
  (exists r, naive_top ex_graph S consts (ex_in false) [2; 4; 7] [8; 6] = ROk r).
Proof.
  cbv zeta. split; [|split; [|split; [|split; [|split; [|split]]]]].
  - intros i [<-|[]]. reflexivity.
  - intros o n v [<-|[<-|[<-|[]]]] Hn Hv; vm_compute in Hn; injection Hn as <-; cbn in Hv;
      repeat (destruct Hv as [<-|Hv]; [reflexivity|]); destruct Hv.
  - repeat constructor; cbn; intuition discriminate.
  - vm_compute. reflexivity.
  - vm_compute. reflexivity.
  - vm_compute. reflexivity.
  - eexists. vm_compute. reflexivity.
Qed.
