(* FanModel.v -- C02, fan-out family: one value (a run input or an intermediate) consumed 255 / 256 /
   257 / ~300 times (u8 reference count at and beyond saturation) by a chain of operators, some of
   which consume it several times, followed by a later in-place capable consumer.  The plans are
   long, so the case terms are built by these functions from a few parameters (repeat-encoding);
   the harness (harness/exec/src/bin/c02.rs, lines `F ...`) builds the same graph.  Definitions only. *)
From RV Require Import Prelude.
From Planner Require Import Graph.
From Exec Require Import ExecModel ModelTestOps.
Open Scope N_scope.

(* s, s+d, ..., k elements *)
Fixpoint arith (s d : N) (k : nat) : list N :=
  match k with O => [] | Datatypes.S k' => s :: arith (s + d) d k' end.

Definition rep_trace (s d : N) (k : nat) (ps : list nat) (f : bool) : list (id * list nat * bool) :=
  map (fun o => (o, ps, f)) (arith s d k).

Definition spec_consumer : opspec :=
  {| o_nout := 1; o_ip := [0%nat]; o_comm := false; o_mut := true; o_det := true; o_len := None; o_mod := None |}.
Definition spec_plain : opspec :=
  {| o_nout := 1; o_ip := []; o_comm := false; o_mut := false; o_det := true; o_len := None; o_mod := None |}.
Definition spec_last : opspec :=
  {| o_nout := 1; o_ip := [1%nat]; o_comm := false; o_mut := true; o_det := true; o_len := None; o_mod := None |}.

(* layout: 0 = run input x; with [interm]: 1 = operator P(x), 2 = its output v, consumers from 3;
   otherwise v = x, consumers from 1.  Consumer j: operator base+2j (inputs: v repeated r times,
   then the previous consumer's output), output base+2j+1.  Last: operator base+2n with inputs
   (output of the last consumer, v), output base+2n+1. *)
Definition fan_v (interm : bool) : id := if interm then 2 else 0.
Definition fan_base (interm : bool) : N := if interm then 3 else 1.

Fixpoint fan_consumers (v : id) (r : nat) (o : N) (prev : option id) (n : nat) : list (id * node) :=
  match n with
  | O => []
  | Datatypes.S n' =>
      (o, Op (mkop (repeat (Some v) r ++ match prev with Some p => [Some p] | None => [] end) [Some (o + 1)] [] true))
      :: (o + 1, Value) :: fan_consumers v r (o + 2) (Some (o + 1)) n'
  end.

Definition fan_graph (interm : bool) (n r : nat) : graph :=
  let v := fan_v interm in
  let base := fan_base interm in
  let e := base + 2 * N.of_nat n in
  mk_graph ((0, Value)
            :: (if interm then [(1, Op (mkop [Some 0] [Some 2] [] false)); (2, Value)] else [])
            ++ fan_consumers v r base None n
            ++ [(e, Op (mkop [Some (e - 1); Some v] [Some (e + 1)] [] true)); (e + 1, Value)]) [].

Definition fan_ops (interm : bool) (n : nat) : list (id * opspec) :=
  let base := fan_base interm in
  (if interm then [(1, spec_plain)] else [])
  ++ map (fun o => (o, spec_consumer)) (arith base 2 n)
  ++ [(base + 2 * N.of_nat n, spec_last)].

Definition fan_case (interm : bool) (n r : nat) (vout : bool) (data : V)
           (plan plan_noip : option (list id)) (runs : list run_obs) : case :=
  let e := fan_base interm + 2 * N.of_nat n in
  {| c_graph := fan_graph interm n r; c_ops := fan_ops interm n; c_consts := [];
     c_ins := [(0, data)]; c_outs := (e + 1) :: (if vout then [fan_v interm] else []);
     c_plan := plan; c_plan_noip := plan_noip; c_runs := runs |}.
