(* Exec_order.v -- the naive evaluation does not depend on the order of the plan: two plans
   (duplicate-free, over operators with unique producers) on which the evaluation succeeds
   yield the same values for every node they both define, hence the same outputs. *)
From RV Require Import Prelude.
From Planner Require Import Graph.
From Exec Require Import ExecModel Exec_base.
Open Scope N_scope.

Section Order.
  Variable g : graph.
  Variable S : sem.
  Variable xv : id -> option V.

  Definition produces (o v : id) : Prop := exists n, get_op g o = Some n /\ In v (op_outs n).

  (* among the operators considered, a value is an output of at most one operator and is listed
     at most once among its outputs (`Graph::add_op` keeps one source per value; C03's
     unique_producers) *)
  Definition single_producer (ops : list id) : Prop :=
    (forall o o' v, In o ops -> In o' ops -> produces o v -> produces o' v -> o = o') /\
    (forall o n, In o ops -> get_op g o = Some n -> NoDup (op_outs n)).

  Local Notation nl := (nlookup xv).

  Lemma nbind_dom : forall oids vals env v,
    nbind env oids vals v <> None -> env v <> None \/ In v (somes oids).
  Proof.
    induction oids as [|e r IH]; intros vals env v H; [destruct vals; left; exact H|].
    destruct e as [w|]; destruct vals as [|x xs]; cbn [nbind] in H; try (left; exact H).
    - destruct (IH _ _ _ H) as [H'|H'].
      + unfold upd in H'. destruct (v =? w) eqn:E.
        * apply N.eqb_eq in E. subst. right. cbn [somes]. left. reflexivity.
        * left. exact H'.
      + right. cbn [somes]. right. exact H'.
    - destruct (IH _ _ _ H) as [H'|H']; [left; exact H'|right; exact H'].
  Qed.

  Lemma nbind_other : forall oids vals env v, ~ In v (somes oids) -> nbind env oids vals v = env v.
  Proof.
    induction oids as [|e r IH]; intros vals env v H; [destruct vals; reflexivity|].
    destruct e as [w|]; destruct vals as [|x xs]; cbn [nbind]; try reflexivity.
    - rewrite IH by (intros Hin; apply H; cbn [somes]; right; exact Hin).
      apply upd_other. intros ->. apply H. cbn [somes]. left. reflexivity.
    - apply IH. exact H.
  Qed.

  Lemma nbind_nth : forall oids vals env k v,
    NoDup (somes oids) -> nth_error oids k = Some (Some v) -> (length oids <= length vals)%nat ->
    nbind env oids vals v = nth_error vals k /\ nth_error vals k <> None.
  Proof.
    induction oids as [|e r IH]; intros vals env k v Hnd Hk Hlen; [destruct k; discriminate|].
    destruct vals as [|x xs]; [cbn in Hlen; lia|]. cbn [length] in Hlen.
    destruct k as [|k]; cbn [nth_error] in Hk |- *.
    - injection Hk as ->. cbn [nbind somes] in *. inversion Hnd; subst.
      rewrite nbind_other by assumption. rewrite upd_same. split; [reflexivity|discriminate].
    - destruct e as [w|]; cbn [nbind somes] in *.
      + inversion Hnd; subst. apply IH; [assumption|assumption|lia].
      + apply IH; [assumption|assumption|lia].
  Qed.

  Lemma ngather_mono env env' : (forall v x, nl env v = Some x -> nl env' v = Some x) ->
    forall es args, ngather xv env es = ROk args -> ngather xv env' es = ROk args.
  Proof.
    intros H. induction es as [|e r IH]; intros args; cbn [ngather]; [auto|].
    destruct e as [v|].
    - destruct (nl env v) as [x|] eqn:E; [|discriminate]. rewrite (H v x E).
      destruct (ngather xv env r) as [l|]; [|discriminate]. rewrite (IH l eq_refl). auto.
    - destruct (ngather xv env r) as [l|]; [|discriminate]. rewrite (IH l eq_refl). auto.
  Qed.

  Lemma ngather_agree env env' : (forall v x x', nl env v = Some x -> nl env' v = Some x' -> x = x') ->
    forall es args args', ngather xv env es = ROk args -> ngather xv env' es = ROk args' -> args = args'.
  Proof.
    intros H. induction es as [|e r IH]; intros args args'; cbn [ngather].
    - intros E E'. injection E as <-. injection E' as <-. reflexivity.
    - destruct e as [v|].
      + destruct (nl env v) as [x|] eqn:E1; [|discriminate]. destruct (nl env' v) as [x'|] eqn:E2; [|discriminate].
        destruct (ngather xv env r) as [l|]; [|discriminate]. destruct (ngather xv env' r) as [l'|]; [|discriminate].
        intros E E'. injection E as <-. injection E' as <-. rewrite (H v x x' E1 E2), (IH l l' eq_refl eq_refl). reflexivity.
      + destruct (ngather xv env r) as [l|]; [|discriminate]. destruct (ngather xv env' r) as [l'|]; [|discriminate].
        intros E E'. injection E as <-. injection E' as <-. rewrite (IH l l' eq_refl eq_refl). reflexivity.
  Qed.

  (* what the final environment of a successful duplicate-free plan looks like *)
  Definition op_equation (envF : id -> option V) (o : id) (n : op_node) : Prop :=
    exists args vals,
      ngather xv envF (all_args g n) = ROk args /\ s_run S o args = Some vals /\
      (length (op_outputs n) <= length vals)%nat /\
      forall k v, nth_error (op_outputs n) k = Some (Some v) -> envF v = nth_error vals k.

  Lemma nstep_inv env o env1 : nstep g S xv env o = ROk env1 ->
    exists n args vals, get_op g o = Some n /\ ngather xv env (all_args g n) = ROk args /\
      s_run S o args = Some vals /\ (length (op_outputs n) <= length vals)%nat /\
      env1 = nbind env (op_outputs n) vals.
  Proof.
    unfold nstep. destruct (get_op g o) as [n|]; [|discriminate].
    destruct (ngather xv env (all_args g n)) as [args|] eqn:Eg; [|discriminate].
    destruct (s_run S o args) as [vals|] eqn:Er; [|discriminate].
    destruct (length vals <? length (op_outputs n))%nat eqn:E; [discriminate|].
    apply Nat.ltb_ge in E. intros H. injection H as <-. exists n, args, vals.
    split; [reflexivity|]. split; [exact Eg|]. split; [exact Er|]. split; [exact E|reflexivity].
  Qed.

  Lemma nth_somes l : forall k v, nth_error l k = Some (Some v) -> In v (somes l).
  Proof.
    induction l as [|e r IH]; intros [|k] v H; cbn in H; try discriminate.
    - injection H as ->. cbn. left. reflexivity.
    - destruct e; cbn; [right|]; eapply IH; eauto.
  Qed.

  Lemma plan_equations : forall plan done env0 envF,
    NoDup (done ++ plan) -> single_producer (done ++ plan) ->
    (forall v, env0 v <> None -> exists o, In o done /\ produces o v) ->
    nsteps g S xv env0 plan = ROk envF ->
    (forall v, envF v <> None -> exists o, In o (done ++ plan) /\ produces o v) /\
    (forall v x, env0 v = Some x -> envF v = Some x) /\
    (forall o n, In o plan -> get_op g o = Some n -> op_equation envF o n).
  Proof.
    induction plan as [|o r IH]; intros done env0 envF Hnd (HU & HD) H0 Hs.
    - cbn in Hs. injection Hs as <-. rewrite app_nil_r. split; [exact H0|]. split; [auto|intros o n []].
    - cbn [nsteps] in Hs. destruct (nstep g S xv env0 o) as [env1|] eqn:E1; [|discriminate].
      destruct (nstep_inv _ _ _ E1) as (n & args & vals & En & Eg & Er & Hlen & ->).
      assert (Hperm : forall x, In x ((done ++ [o]) ++ r) <-> In x (done ++ o :: r)).
      { intros x. rewrite <- app_assoc. reflexivity. }
      assert (Hnd' : NoDup ((done ++ [o]) ++ r)) by (rewrite <- app_assoc; exact Hnd).
      assert (Hsp' : single_producer ((done ++ [o]) ++ r)).
      { split.
        - intros a b v Ha Hb. apply HU; apply Hperm; assumption.
        - intros a m Ha. apply HD. apply Hperm. exact Ha. }
      assert (Ho_in : In o (done ++ o :: r)) by (apply in_or_app; right; left; reflexivity).
      assert (Ho_notdone : ~ In o done).
      { intros Hin. apply NoDup_remove_2 in Hnd. apply Hnd. apply in_or_app. left. exact Hin. }
      (* values bound before this step are not rebound by it *)
      assert (Hkeep : forall v x, env0 v = Some x -> nbind env0 (op_outputs n) vals v = Some x).
      { intros v x Hv. rewrite nbind_other; [exact Hv|]. intros Hin.
        destruct (H0 v) as (o' & Ho' & Hp'); [congruence|].
        assert (o' = o).
        { apply (HU o' o v); [apply in_or_app; left; exact Ho'|exact Ho_in|exact Hp'|exists n; split; assumption]. }
        subst o'. contradiction. }
      destruct (IH (done ++ [o]) (nbind env0 (op_outputs n) vals) envF Hnd' Hsp') as (I1 & I2 & I3).
      + intros v Hv. destruct (nbind_dom _ _ _ _ Hv) as [Hv'|Hv'].
        * destruct (H0 v Hv') as (o' & Ho' & Hp'). exists o'. split; [apply in_or_app; left; exact Ho'|exact Hp'].
        * exists o. split; [apply in_or_app; right; left; reflexivity|exists n; split; assumption].
      + exact Hs.
      + split; [|split].
        * intros v Hv. destruct (I1 v Hv) as (o' & Ho' & Hp'). exists o'. split; [apply Hperm; exact Ho'|exact Hp'].
        * intros v x Hv. apply I2. apply Hkeep. exact Hv.
        * intros o' n' [<-|Hin] En'; [|apply I3; assumption].
          assert (n' = n) by congruence. subst n'.
          exists args, vals. split; [|split; [exact Er|split; [exact Hlen|]]].
          -- eapply ngather_mono; [|exact Eg]. intros v x. unfold nlookup.
             destruct (xv v); [auto|]. intros Hv. apply I2. apply Hkeep. exact Hv.
          -- intros k v Hk.
             destruct (nbind_nth (op_outputs n) vals env0 k v (HD o n Ho_in En) Hk Hlen) as (Hb & Hne).
             destruct (nth_error vals k) as [x|] eqn:Ex; [|congruence].
             apply I2. exact Hb.
  Qed.

  Definition agree (e e' : id -> option V) : Prop :=
    forall v x x', e v = Some x -> e' v = Some x' -> xv v = None -> x = x'.

  Lemma agree_nl e e' : agree e e' -> forall v x x', nl e v = Some x -> nl e' v = Some x' -> x = x'.
  Proof. intros H v x x'. unfold nlookup. destruct (xv v) eqn:E; [congruence|]. intros A B. eapply H; eauto. Qed.

  Lemma order_agree env2 plan2 : NoDup plan2 ->
    nsteps g S xv (fun _ => None) plan2 = ROk env2 ->
    forall plan1, single_producer (plan1 ++ plan2) ->
    forall e0 e1, nsteps g S xv e0 plan1 = ROk e1 -> agree e0 env2 -> agree e1 env2.
  Proof.
    intros Hnd2 Hs2 plan1. induction plan1 as [|o r IH]; intros Hsp e0 e1 Hs Hag.
    - cbn in Hs. injection Hs as <-. exact Hag.
    - cbn [nsteps] in Hs. destruct (nstep g S xv e0 o) as [e'|] eqn:E1; [|discriminate].
      destruct Hsp as (HU & HD).
      assert (Hsp_r : single_producer (r ++ plan2)).
      { split; [intros a b v Ha Hb; apply HU; right; assumption|intros a m Ha; apply HD; right; exact Ha]. }
      apply (IH Hsp_r e' e1 Hs).
      destruct (nstep_inv _ _ _ E1) as (n & args & vals & En & Eg & Er & Hlen & ->).
      assert (Hsp2 : single_producer ([] ++ plan2)).
      { split; [intros a b v Ha Hb; apply HU; right; apply in_or_app; right; assumption
               |intros a m Ha; apply HD; right; apply in_or_app; right; exact Ha]. }
      destruct (plan_equations plan2 [] (fun _ => None) env2 Hnd2 Hsp2) as (P1 & _ & P3); [intros v Hv; congruence|exact Hs2|].
      intros v x x' Hv Hv' Hx.
      destruct (in_dec N.eq_dec v (op_outs n)) as [Hin|Hnin].
      + (* v is an output of o: plan2 computed it with the same operator on equal arguments *)
        destruct (P1 v) as (o2 & Ho2 & Hp2); [congruence|]. cbn [app] in Ho2.
        assert (o2 = o).
        { apply (HU o2 o v); [right; apply in_or_app; right; exact Ho2|left; reflexivity|exact Hp2|exists n; split; assumption]. }
        subst o2. destruct (P3 o n Ho2 En) as (args2 & vals2 & Eg2 & Er2 & Hlen2 & Hout2).
        assert (args = args2) by (eapply ngather_agree; [apply agree_nl; exact Hag|exact Eg|exact Eg2]).
        subst args2. assert (vals2 = vals) by congruence. subst vals2.
        assert (Hk : exists k, nth_error (op_outputs n) k = Some (Some v)).
        { unfold op_outs in Hin. clear - Hin. induction (op_outputs n) as [|e l IHl]; [contradiction|].
          destruct e as [w|]; cbn [somes] in Hin.
          - destruct Hin as [->|Hin]; [exists O; reflexivity|]. destruct (IHl Hin) as (k & Hk). exists (Datatypes.S k). exact Hk.
          - destruct (IHl Hin) as (k & Hk). exists (Datatypes.S k). exact Hk. }
        destruct Hk as (k & Hk).
        destruct (nbind_nth (op_outputs n) vals e0 k v (HD o n (or_introl eq_refl) En) Hk Hlen) as (Hb & _).
        rewrite Hb in Hv. rewrite (Hout2 k v Hk) in Hv'. congruence.
      + rewrite nbind_other in Hv by exact Hnin. eapply Hag; eauto.
  Qed.

  (* two plans, same outputs *)
  Theorem naive_eval_order_independent plan1 plan2 outs r1 r2 :
    NoDup plan1 -> NoDup plan2 -> single_producer (plan1 ++ plan2) ->
    naive_eval g S xv plan1 outs = ROk r1 -> naive_eval g S xv plan2 outs = ROk r2 -> r1 = r2.
  Proof.
    intros _ Hnd2 Hsp. unfold naive_eval.
    destruct (ops_exist g plan1); [|discriminate]. destruct (ops_exist g plan2); [|discriminate].
    destruct (nsteps g S xv (fun _ => None) plan1) as [e1|] eqn:E1; [|discriminate].
    destruct (nsteps g S xv (fun _ => None) plan2) as [e2|] eqn:E2; [|discriminate].
    assert (Hag : agree e1 e2).
    { eapply (order_agree e2 plan2 Hnd2 E2 plan1 Hsp); [exact E1|]. intros v x x' Hv. discriminate. }
    revert r1 r2. induction outs as [|v r IH]; intros r1 r2; cbn [nextract].
    - congruence.
    - destruct (nl e1 v) as [x|] eqn:A1; [|discriminate]. destruct (nl e2 v) as [x'|] eqn:A2; [|discriminate].
      destruct (nextract xv e1 r) as [l|]; [|discriminate]. destruct (nextract xv e2 r) as [l'|]; [|discriminate].
      intros H H'. injection H as <-. injection H' as <-.
      rewrite (agree_nl _ _ Hag v x x' A1 A2), (IH l l' eq_refl eq_refl). reflexivity.
  Qed.
End Order.
