(* PartialModel.v -- model of `Planner::prune_plan` (src/graph/planner.rs) and `Graph::partial_run`
   (src/graph.rs), on top of the executor model.  Definitions only. *)
From RV Require Import Prelude.
From Planner Require Import Graph.
From Exec Require Import ExecModel ModelTestOps.
Open Scope N_scope.

(* ResolvedValueSet::contains *)
Definition rcontains (g : graph) (res : list id) (v : id) : bool := mem v res || is_constant g v.

Record pstate := { p_res : list id;      (* resolved_values *)
                   p_plan : list id;     (* pruned_plan (in order) *)
                   p_cand : list id;     (* candidate_outputs *)
                   p_pri : list id }.    (* pruned_ops_resolved_inputs *)

(* the body of `for &node_id in plan` *)
Definition prune_step (g : graph) (det : id -> bool) (st : pstate) (o : id) : pstate :=
  match get_op g o with
  | None => st
  | Some n =>
      let all := deps g n in
      let avail := forallb (rcontains g (p_res st)) all in
      if negb (det o) || negb avail
      then {| p_res := p_res st; p_plan := p_plan st; p_cand := p_cand st;
              p_pri := p_pri st ++ filter (rcontains g (p_res st)) all |}
      else {| p_res := p_res st ++ op_outs n; p_plan := p_plan st ++ [o];
              p_cand := p_cand st ++ op_outs n; p_pri := p_pri st |}
  end.

Definition prune_walk (g : graph) (det : id -> bool) (plan ins : list id) : pstate :=
  fold_left (prune_step g det) plan {| p_res := ins; p_plan := []; p_cand := ins; p_pri := [] |}.

(* Planner::prune_plan: (pruned_plan, new_outputs) *)
Definition prune_plan (g : graph) (det : id -> bool) (plan ins outs : list id) : list id * list id :=
  let st := prune_walk g det plan ins in
  (p_plan st, filter (fun v => mem v outs || mem v (p_pri st)) (p_cand st)).

(* Graph::partial_run on a plan created with allow_missing_inputs: ids and values of the leaves *)
Definition partial_run (g : graph) (S : sem) (det : id -> bool) (consts : list (id * V)) (ins : list input)
           (am_plan outs : list id) : list id * res (list V) :=
  let '(pruned, leaves) := prune_plan g det am_plan (map i_id ins) outs in
  (leaves, naive_top g S consts ins pruned leaves).

(* ---------------------------------------------------------------- correspondence case (C04) *)
Record subset_obs := {
  u_mask : list bool;              (* which run inputs (in c4_ins order) are given to partial_run *)
  u_am_plan : option (list id);    (* Graph::execution_plan(I0, O, allow_missing_inputs) *)
  u_leaves : option (list (id * (nat * Z)));  (* partial_run result: leaf id, (length, checksum); None = Err/panic *)
  u_partial_ops : list id;         (* operators that ran during partial_run *)
  u_plan2 : option (list id);      (* plan of the completing run *)
  u_final : ires                   (* run((I \ I0) + leaves, O) *)
}.

Record case4 := {
  c4_graph : graph;
  c4_ops : list (id * opspec);
  c4_consts : list (id * V);
  c4_ins : list (id * V);
  c4_outs : list id;
  c4_nonce : Z;                    (* counter value seen by the non-deterministic operator in the
                                      full run and in every completing run *)
  c4_full : ires;                  (* run(I, O) *)
  c4_subsets : list subset_obs
}.

Definition det_of (ops : list (id * opspec)) (o : id) : bool :=
  match assoc ops o with Some p => o_det p | None => true end.

Fixpoint select {A} (mask : list bool) (l : list A) : list A :=
  match mask, l with
  | true :: m, x :: r => x :: select m r
  | false :: m, _ :: r => select m r
  | _, _ => []
  end.
Fixpoint unselect {A} (mask : list bool) (l : list A) : list A :=
  match mask, l with
  | true :: m, _ :: r => unselect m r
  | false :: m, x :: r => x :: unselect m r
  | [], r => r
  | _, [] => []
  end.

Definition borrowed (l : list (id * V)) : list input :=
  map (fun p => {| i_id := fst p; i_val := snd p; i_owned := false |}) l.

Definition leaf_sigs_eqb (a : list (id * (nat * Z))) (b : list (id * (nat * Z))) : bool :=
  (length a =? length b)%nat &&
  forallb (fun p => (fst (fst p) =? fst (snd p)) && sig_eqb (snd (fst p)) (snd (snd p))) (combine a b).

(* model of one subset: prune the implementation's own allow-missing plan, evaluate the pruned
   plan naively on I0: leaf ids and values *)
Definition model_leaves (c : case4) (u : subset_obs) : option (list (id * (nat * Z))) :=
  match u_am_plan u with
  | None => None
  | Some amp =>
      let i0 := borrowed (select (u_mask u) (c4_ins c)) in
      let '(ids, r) := partial_run (c4_graph c) (test_sem (c4_ops c) 0) (det_of (c4_ops c)) (c4_consts c) i0
                                   amp (c4_outs c) in
      match r with
      | ROk vals => Some (combine ids (map vsig vals))
      | RFail _ => None
      end
  end.

Definition agree4 (c : case4) : bool :=
  forallb (fun u => match model_leaves c u, u_leaves u with
                    | Some a, Some b => leaf_sigs_eqb a b
                    | None, None => true
                    | _, _ => false
                    end) (c4_subsets c).

Definition ires_same (a b : ires) : bool :=
  match a, b with
  | IOk x, IOk z => sigs_eqb x z
  | IErr, IErr => true
  | _, _ => false
  end.

(* C04 oracle, on the implementation's own observations: for every subset, completing the
   partial run gives the result of the single full run, and no non-deterministic operator ran
   during partial evaluation.  (A planning error of the full request must be reported for every
   subset as well.) *)
Definition prop_ok4 (c : case4) : bool :=
  forallb (fun u => forallb (det_of (c4_ops c)) (u_partial_ops u) &&
                    match c4_full c with
                    | IOk _ => match u_leaves u with Some _ => ires_same (c4_full c) (u_final u) | None => false end
                    | IErr => match u_final u with IErr => true | _ => match u_leaves u with None => true | _ => false end end
                    | _ => false
                    end) (c4_subsets c).

Definition show4 (c : case4) := map (fun u => (u_mask u, model_leaves c u)) (c4_subsets c).
