(* Exec_sim.v -- the heap executor simulates naive evaluation, step by step. *)
From RV Require Import Prelude.
From Planner Require Import Graph.
From Exec Require Import ExecModel Exec_base.
From Coq Require Import Permutation.
Open Scope N_scope.

Ltac splits := repeat match goal with |- _ /\ _ => split end.

Section Sim.
  Variable g : graph.
  Variable S : sem.
  Variable y : strategy.
  Variable ext : id -> option bid.
  Variable is_in : id -> bool.
  Variable xv : id -> option V.
  Variable outs : list id.

  (* the contract of Operator::run_in_place: it computes what run computes on the same inputs
     (for a commutative operator that is handed an operand other than the declared one this
     includes commutativity) -- property C13 *)
  Hypothesis H_ip : forall o ps args, s_run_ip S o (pick_vals ps args) (blank ps args) = s_run S o args.
  (* in_place_inputs() is a bit set *)
  Hypothesis H_ipi : forall o, NoDup (s_ip S o).
  (* run inputs have a value *)
  Hypothesis H_in_xv : forall v, is_in v = true -> xv v <> None.

  Local Notation is_value := (is_value g).
  Local Notation binv := (binv g ext xv).

  Definition depsof (o : id) : list id := match get_op g o with Some n => deps g n | None => [] end.
  Definition uses (rest : list id) (v : id) : nat := (cnt v (flat_map depsof rest) + cnt v outs)%nat.

  (* operator outputs are value nodes, and only run inputs among them have a value supplied
     from outside (i.e. no operator writes a constant) *)
  Definition op_wf (n : op_node) : Prop :=
    forall v, In v (op_outs n) -> is_value v = true /\ (is_in v = false -> xv v = None).

  Definition val (env : id -> option V) : id -> option V := nlookup xv env.

  Record cinv (env : id -> option V) (rest : list id) (s : st) : Prop := {
    c_rc : forall v, is_value v = true -> rc_rel (rcs s v) (uses rest v);
    c_avail : forall v, val env v <> None -> (0 < uses rest v)%nat -> locate ext s v <> None
  }.

  Lemma uses_cons o n rest v : get_op g o = Some n ->
    uses (o :: rest) v = (cnt v (deps g n) + uses rest v)%nat.
  Proof. intros H. unfold uses. cbn [flat_map]. unfold depsof at 1. rewrite H, cnt_app. lia. Qed.

  (* ------------------------------------------------------------ small state facts *)
  Lemma binv_set_rcs vl L s r : binv vl L s -> binv vl L (set_rcs s r).
  Proof. intros [H1 H2 H3 H4 H5 H6 H7 H8]. constructor; cbn; auto. Qed.
  Lemma binv_add_trace vl L s e : binv vl L s -> binv vl L (add_trace s e).
  Proof. intros [H1 H2 H3 H4 H5 H6 H7 H8]. constructor; cbn; auto. Qed.

  Lemma locate_none vl L s v : binv vl L s -> vl v = None -> (forall w x, xv w = Some x -> vl w = Some x) ->
    locate ext s v = None.
  Proof.
    intros B Hv Hxv. unfold locate.
    destruct (ext v) as [b|] eqn:Ee.
    - destruct (b_ext _ _ _ _ _ _ B v b Ee) as (_ & x & _ & Hx). rewrite (Hxv v x Hx) in Hv. discriminate.
    - destruct (temp s v) as [b|] eqn:Et.
      + destruct (b_temp _ _ _ _ _ _ B v b Et) as (_ & _ & _ & _ & _ & x & _ & Hx). congruence.
      + rewrite (b_caps _ _ _ _ _ _ B v). reflexivity.
  Qed.

  Lemma locate_sound vl L s v b : binv vl L s -> (forall w x, xv w = Some x -> vl w = Some x) ->
    locate ext s v = Some b -> exists x, heap s b = Some x /\ vl v = Some x.
  Proof.
    intros B Hxv. unfold locate.
    destruct (ext v) as [b'|] eqn:Ee.
    - intros E. injection E as <-. destruct (b_ext _ _ _ _ _ _ B v b' Ee) as (_ & x & Hh & Hx).
      exists x. split; [exact Hh|apply Hxv; exact Hx].
    - destruct (temp s v) as [b'|] eqn:Et.
      + intros E. injection E as <-.
        destruct (b_temp _ _ _ _ _ _ B v b' Et) as (_ & _ & _ & _ & _ & x & Hh & Hx). eauto.
      + rewrite (b_caps _ _ _ _ _ _ B v). discriminate.
  Qed.

  Lemma val_xv env w x : xv w = Some x -> val env w = Some x.
  Proof. intros H. unfold val, nlookup. rewrite H. reflexivity. Qed.

  (* ------------------------------------------------------------ positions and counting *)
  Lemma cnt_somes_nth l : forall p v, nth_error l p = Some (Some v) -> (1 <= cnt v (somes l))%nat.
  Proof.
    induction l as [|e r IH]; intros [|p] v H; cbn in H; try discriminate.
    - injection H as ->. cbn [somes]. rewrite cnt_cons_eq. lia.
    - specialize (IH p v H). destruct e as [w|]; cbn [somes]; [|exact IH].
      destruct (N.eq_dec w v) as [->|Hn]; [rewrite cnt_cons_eq; lia|rewrite cnt_cons_neq by exact Hn; exact IH].
  Qed.

  Lemma cnt_somes_two l : forall p q v, p <> q ->
    nth_error l p = Some (Some v) -> nth_error l q = Some (Some v) -> (2 <= cnt v (somes l))%nat.
  Proof.
    induction l as [|e r IH]; intros [|p] [|q] v Hpq Hp Hq; cbn in Hp, Hq; try discriminate; try congruence.
    - injection Hp as ->. cbn [somes]. rewrite cnt_cons_eq. pose proof (cnt_somes_nth r q v Hq). lia.
    - injection Hq as ->. cbn [somes]. rewrite cnt_cons_eq. pose proof (cnt_somes_nth r p v Hp). lia.
    - assert (Hpq' : p <> q) by congruence. specialize (IH p q v Hpq' Hp Hq).
      destruct e as [w|]; cbn [somes]; [|exact IH].
      destruct (N.eq_dec w v) as [->|Hn]; [rewrite cnt_cons_eq; lia|rewrite cnt_cons_neq by exact Hn; exact IH].
  Qed.

  Lemma enum_somes_spec l : forall i p v, In (p, v) (enum_somes l i) ->
    exists q, p = (i + q)%nat /\ nth_error l q = Some (Some v).
  Proof.
    induction l as [|e r IH]; intros i p v H; cbn in H; [contradiction|].
    destruct e as [w|].
    - destruct H as [H|H].
      + injection H as <- <-. exists O. split; [lia|reflexivity].
      + destruct (IH _ _ _ H) as (q & -> & Hq). exists (Datatypes.S q). split; [lia|exact Hq].
    - destruct (IH _ _ _ H) as (q & -> & Hq). exists (Datatypes.S q). split; [lia|exact Hq].
  Qed.

  Lemma in_cands_In c l : in_cands c l = true -> In c l.
  Proof.
    unfold in_cands. rewrite existsb_exists. intros ((p', v') & Hin & E).
    destruct c as (p, v). cbn in E. apply andb_true_iff in E. destruct E as (E1 & E2).
    apply Nat.eqb_eq in E1. apply N.eqb_eq in E2. subst. exact Hin.
  Qed.

  (* in_place_candidates: positions of the operator's inputs, pairwise different *)
  Lemma cands_spec s o n :
    (forall p v, In (p, v) (cands S y s o n) -> nth_error (op_inputs n) p = Some (Some v)) /\
    NoDup (map fst (cands S y s o n)).
  Proof.
    unfold cands. destruct (s_ip S o) as [|i0 ipi] eqn:Ei.
    - split; [intros p v []|constructor].
    - destruct (s_comm S o).
      + destruct (y_pick y _) as [c|]; [|split; [intros p v []|constructor]].
        destruct (in_cands c (enum_somes (op_inputs n) 0)) eqn:Ec; [|split; [intros p v []|constructor]].
        apply in_cands_In in Ec. split.
        * intros p v [H|[]]. subst c. destruct (enum_somes_spec _ _ _ _ Ec) as (q & -> & Hq). exact Hq.
        * cbn. constructor; [intros []|constructor].
      + pose proof (H_ipi o) as Hnd. rewrite Ei in Hnd.
        generalize dependent (i0 :: ipi). intros l _ Hnd. split.
        * intros p v Hin. apply in_flat_map in Hin. destruct Hin as (pos & _ & Hin).
          destruct (nth_error (op_inputs n) pos) as [[w|]|] eqn:En; try contradiction.
          destruct Hin as [Hin|[]]. injection Hin as <- <-. exact En.
        * induction l as [|pos r IH]; cbn; [constructor|]. inversion Hnd; subst.
          destruct (nth_error (op_inputs n) pos) as [[w|]|] eqn:En; cbn; try (apply IH; assumption).
          constructor; [|apply IH; assumption].
          intros Hin. apply in_map_iff in Hin. destruct Hin as ((p', v') & E & Hin). cbn in E. subst p'.
          apply in_flat_map in Hin. destruct Hin as (pos' & Hpos' & Hin).
          destruct (nth_error (op_inputs n) pos') as [[w'|]|]; try contradiction.
          destruct Hin as [Hin|[]]. injection Hin as -> _. contradiction.
  Qed.

  (* ------------------------------------------------------------ taking values *)
  Lemma takeable_temp vl L s v : binv vl L s -> takeable g s v = true ->
    rcs s v = 1 /\ exists b, temp s v = Some b.
  Proof.
    intros B H. unfold takeable in H. apply andb_true_iff in H. destruct H as (H1 & H2).
    apply N.eqb_eq in H1. split; [exact H1|].
    destruct (temp s v) as [b|]; [eauto|].
    rewrite (b_caps _ _ _ _ _ _ B v) in H2. rewrite andb_false_r in H2. discriminate.
  Qed.

  Lemma take_inv vl L s v s' b : binv vl L s -> take g s v = Some (s', b) ->
    s' = set_temp s (upd (temp s) v None) /\ temp s v = Some b /\ rcs s v = 1.
  Proof.
    intros B H. unfold take in H. destruct (rcs s v =? 1) eqn:E1; [|discriminate].
    apply N.eqb_eq in E1. destruct (temp s v) as [b'|] eqn:Et.
    - injection H as <- <-. auto.
    - rewrite (b_caps _ _ _ _ _ _ B v) in H. destruct (mem v (g_captures g)); discriminate.
  Qed.

  Lemma take_all_ok vl : forall cs L s,
    binv vl L s -> (forall c, In c cs -> takeable g s (snd c) = true) -> NoDup (map snd cs) ->
    exists s' taken,
      take_all g s cs = ROk (s', taken) /\
      binv vl (map snd taken ++ L) s' /\ heap s' = heap s /\ rcs s' = rcs s /\ trace s' = trace s /\
      (forall w, temp s' w = if mem w (map snd cs) then None else temp s w) /\
      Forall2 (fun c t => fst c = fst t /\ temp s (snd c) = Some (snd t)) cs taken.
  Proof.
    induction cs as [|(p, v) r IH]; intros L s B Ht Hnd.
    - exists s, []. cbn. splits; auto.
    - cbn [take_all]. inversion Hnd as [|? ? Hv Hr]; subst.
      destruct (takeable_temp _ _ _ _ B (Ht (p, v) (or_introl eq_refl))) as (Hrc & b & Hb).
      cbn [snd] in Hrc, Hb.
      assert (Htk : take g s v = Some (set_temp s (upd (temp s) v None), b)).
      { unfold take. rewrite Hrc, Hb. reflexivity. }
      rewrite Htk.
      pose proof (untemp_ok _ _ _ _ _ _ _ _ B Hb) as B1.
      destruct (IH (b :: L) _ B1) as (s' & taken & E & B' & Hh & Hr' & Htr & Htemp & F2).
      + intros c Hc. specialize (Ht c (or_intror Hc)). unfold takeable in *. cbn [rcs temp caps set_temp].
        assert (snd c <> v).
        { intros <-. apply Hv. apply in_map_iff. exists c. split; [reflexivity|exact Hc]. }
        rewrite upd_other by exact H. exact Ht.
      + exact Hr.
      + rewrite E. exists s', ((p, b) :: taken). split; [reflexivity|]. cbn [map snd fst app].
        split; [eapply binv_perm; [|exact B']; apply Permutation_sym; apply Permutation_middle|].
        split; [exact Hh|split; [exact Hr'|split; [exact Htr|split]]].
        * intros w. rewrite Htemp. cbn [temp set_temp]. cbn [mem existsb]. unfold mem.
          destruct (w =? v) eqn:Ew.
          -- apply N.eqb_eq in Ew. subst w. cbn. rewrite upd_same. destruct (existsb _ _); reflexivity.
          -- cbn. apply N.eqb_neq in Ew. rewrite upd_other by exact Ew. reflexivity.
        * constructor; [split; [reflexivity|exact Hb]|].
          eapply Forall2_impl; [|exact F2]. intros c t (A1 & A2). split; [exact A1|].
          cbn [temp set_temp] in A2. unfold upd in A2. destruct (snd c =? v); [discriminate|exact A2].
  Qed.

  Lemma take_caps_ok vl : forall cs L s,
    binv vl L s ->
    exists s' moved,
      take_caps g s cs = (s', moved) /\
      binv vl (map snd moved ++ L) s' /\ heap s' = heap s /\ rcs s' = rcs s /\ trace s' = trace s /\
      (forall w, temp s' w = if mem w (map fst moved) then None else temp s w) /\
      (forall v b, In (v, b) moved -> In v cs /\ temp s v = Some b /\ rcs s v = 1) /\
      (forall v b, assoc moved v = Some b -> In (v, b) moved).
  Proof.
    induction cs as [|v r IH]; intros L s B.
    - exists s, []. cbn. splits; auto; try contradiction. discriminate.
    - cbn [take_caps]. destruct (take g s v) as [(s1, b)|] eqn:Etk.
      + destruct (take_inv _ _ _ _ _ _ B Etk) as (-> & Hb & Hrc).
        pose proof (untemp_ok _ _ _ _ _ _ _ _ B Hb) as B1.
        destruct (IH (b :: L) _ B1) as (s' & moved & E & B' & Hh & Hr' & Htr & Htemp & Hm & Ha).
        rewrite E. exists s', ((v, b) :: moved). split; [reflexivity|]. cbn [map snd fst app].
        split; [eapply binv_perm; [|exact B']; apply Permutation_sym; apply Permutation_middle|].
        split; [exact Hh|split; [exact Hr'|split; [exact Htr|split; [|split]]]].
        * intros w. rewrite Htemp. cbn [temp set_temp]. unfold mem. cbn [existsb].
          destruct (w =? v) eqn:Ew.
          -- apply N.eqb_eq in Ew. subst w. cbn. rewrite upd_same. destruct (existsb _ _); reflexivity.
          -- cbn. apply N.eqb_neq in Ew. rewrite upd_other by exact Ew. reflexivity.
        * intros v' b' [Hin|Hin].
          -- injection Hin as <- <-. split; [left; reflexivity|split; assumption].
          -- destruct (Hm v' b' Hin) as (A1 & A2 & A3). cbn [temp set_temp rcs] in A2, A3.
             split; [right; exact A1|split; [|exact A3]].
             unfold upd in A2. destruct (v' =? v); [discriminate|exact A2].
        * intros v' b'. cbn [assoc]. destruct (v =? v') eqn:Ev.
          -- apply N.eqb_eq in Ev. subst v'. intros E'. injection E' as <-. left. reflexivity.
          -- intros E'. right. apply Ha. exact E'.
      + destruct (IH L s B) as (s' & moved & E & B' & Hh & Hr' & Htr & Htemp & Hm & Ha).
        exists s', moved. split; [exact E|]. split; [exact B'|].
        split; [exact Hh|split; [exact Hr'|split; [exact Htr|split; [exact Htemp|split; [|exact Ha]]]]].
        intros v' b' Hin. destruct (Hm v' b' Hin) as (A1 & A2 & A3). split; [right; exact A1|split; assumption].
  Qed.

  (* ------------------------------------------------------------ gathering arguments *)
  Lemma gather_sim env s taken : forall es p,
    (forall q v, nth_error es q = Some (Some v) ->
       match assocn taken (p + q) with
       | Some b => exists x, heap s b = Some x /\ val env v = Some x
       | None => match val env v with
                 | Some x => exists b, locate ext s v = Some b /\ heap s b = Some x
                 | None => locate ext s v = None
                 end
       end) ->
    gather ext s taken p es = ngather xv env es.
  Proof.
    induction es as [|e r IH]; intros p H; [reflexivity|].
    cbn [gather ngather].
    assert (IH' : gather ext s taken (Datatypes.S p) r = ngather xv env r).
    { apply IH. intros q v Hq. specialize (H (Datatypes.S q) v Hq).
      replace (Datatypes.S p + q)%nat with (p + Datatypes.S q)%nat by lia. exact H. }
    destruct e as [v|]; cbn [arg_at].
    - specialize (H O v eq_refl). rewrite Nat.add_0_r in H. fold (val env v).
      destruct (assocn taken p) as [b|].
      + destruct H as (x & Hh & Hv). unfold rd. rewrite Hh, Hv, IH'. reflexivity.
      + destruct (val env v) as [x|].
        * destruct H as (b & Hl & Hh). rewrite Hl. unfold rd. rewrite Hh, IH'. reflexivity.
        * rewrite H. reflexivity.
    - rewrite IH'. reflexivity.
  Qed.

  Lemma gather_caps_sim env s moved : forall cs,
    (forall v, In v cs ->
       match assoc moved v with
       | Some b => exists x, heap s b = Some x /\ val env v = Some x
       | None => match val env v with
                 | Some x => exists b, locate ext s v = Some b /\ heap s b = Some x
                 | None => locate ext s v = None
                 end
       end) ->
    gather_caps ext s moved cs = ngather xv env (map Some cs).
  Proof.
    induction cs as [|v r IH]; intros H; [reflexivity|].
    cbn [gather_caps ngather map]. fold (val env v).
    assert (IH' := IH (fun w Hw => H w (or_intror Hw))).
    specialize (H v (or_introl eq_refl)).
    destruct (assoc moved v) as [b|].
    - destruct H as (x & Hh & Hv). unfold rd. rewrite Hh, Hv, IH'. reflexivity.
    - destruct (val env v) as [x|].
      + destruct H as (b & Hl & Hh). rewrite Hl. unfold rd. rewrite Hh, IH'. reflexivity.
      + rewrite H. reflexivity.
  Qed.

  Lemma ngather_app env a b :
    ngather xv env (a ++ b) =
    match ngather xv env a with
    | ROk l => match ngather xv env b with ROk l' => ROk (l ++ l') | RFail f => RFail f end
    | RFail f => RFail f
    end.
  Proof.
    induction a as [|e r IH]; cbn [app ngather].
    - destruct (ngather xv env b); reflexivity.
    - destruct e as [v|].
      + destruct (nlookup xv env v); [|reflexivity]. rewrite IH.
        destruct (ngather xv env r); [|reflexivity]. destruct (ngather xv env b); reflexivity.
      + rewrite IH. destruct (ngather xv env r); [|reflexivity]. destruct (ngather xv env b); reflexivity.
  Qed.

  (* ------------------------------------------------------------ releasing / allocating *)
  Lemma releases_ok vl : forall bs L s, binv vl (bs ++ L) s ->
    binv vl L (fold_left release bs s) /\ temp (fold_left release bs s) = temp s /\
    rcs (fold_left release bs s) = rcs s /\ trace (fold_left release bs s) = trace s /\
    (forall b, ~ In b bs -> heap (fold_left release bs s) b = heap s b).
  Proof.
    induction bs as [|b r IH]; intros L s B; cbn [fold_left app] in *.
    - auto.
    - destruct (IH L (release s b) (release_ok _ _ _ _ _ _ _ B)) as (B' & Ht & Hr & Htr & Hh).
      splits; auto. intros b' Hn. rewrite Hh by (intros Hin; apply Hn; right; exact Hin).
      cbn. apply upd_other. intros ->. apply Hn. left. reflexivity.
  Qed.

  Lemma drops_ok vl : forall bs L s, binv vl (bs ++ L) s ->
    binv vl L (fold_left drop bs s) /\ temp (fold_left drop bs s) = temp s /\
    rcs (fold_left drop bs s) = rcs s /\ trace (fold_left drop bs s) = trace s.
  Proof.
    induction bs as [|b r IH]; intros L s B; cbn [fold_left app] in *.
    - auto.
    - destruct (IH L (drop s b) (drop_ok _ _ _ _ _ _ _ B)) as (B' & Ht & Hr & Htr). auto.
  Qed.

  Lemma alloc_outs_ok vl : forall vals s L first,
    binv vl (match first with Some b0 => b0 :: L | None => L end) s ->
    (first <> None -> vals <> []) ->
    exists s' bufs, alloc_outs y s first vals = (s', bufs) /\
      binv vl (bufs ++ L) s' /\ Forall2 (fun b x => heap s' b = Some x) bufs vals /\
      temp s' = temp s /\ rcs s' = rcs s /\ trace s' = trace s /\
      (forall b', In b' L -> heap s' b' = heap s b').
  Proof.
    induction vals as [|x r IH]; intros s L first B Hf.
    - destruct first; [exfalso; apply Hf; [discriminate|reflexivity]|].
      exists s, []. cbn. splits; auto.
    - cbn [alloc_outs].
      assert (Step : exists s1 b, (match first with
                                   | Some b0 => (set_heap s (upd (heap s) b0 (Some x)), b0)
                                   | None => alloc y s x end) = (s1, b) /\
                       binv vl (b :: L) s1 /\ heap s1 b = Some x /\ temp s1 = temp s /\ rcs s1 = rcs s /\
                       trace s1 = trace s /\ (forall b', In b' L -> heap s1 b' = heap s b')).
      { destruct first as [b0|].
        - exists (set_heap s (upd (heap s) b0 (Some x))), b0. split; [reflexivity|].
          split; [apply write_ok; [exact B|left; reflexivity]|].
          cbn. split; [apply upd_same|]. splits; auto.
          intros b' Hb'. apply upd_other. intros ->.
          destruct B as [_ _ _ _ _ _ H7 _]. inversion H7; contradiction.
        - destruct (alloc y s x) as (s1, b) eqn:Ea.
          destruct (alloc_ok _ _ _ _ _ _ _ _ _ _ B Ea) as (B1 & Hh & Ho & Ht & Hr & Htr & HnL).
          exists s1, b. splits; auto. intros b' Hb'. apply Ho. intros ->. contradiction. }
      destruct Step as (s1 & b & E & B1 & Hh1 & Ht1 & Hr1 & Htr1 & HL1). rewrite E.
      destruct (IH s1 (b :: L) None B1) as (s' & bufs & E' & B' & F2 & Ht' & Hr' & Htr' & HL').
      { intros H. contradiction. }
      rewrite E'. exists s', (b :: bufs). split; [reflexivity|]. cbn [app].
      split; [eapply binv_perm; [|exact B']; apply Permutation_sym; apply Permutation_middle|].
      split; [constructor; [rewrite HL' by (left; reflexivity); exact Hh1|exact F2]|].
      splits; try congruence.
      intros b' Hb'. rewrite HL' by (right; exact Hb'). apply HL1. exact Hb'.
  Qed.

  Lemma val_upd_in env v x : is_in v = true -> forall w, val (upd env v (Some x)) w = val env w.
  Proof.
    intros Hi w. unfold val, nlookup. destruct (xv w) eqn:E; [reflexivity|].
    unfold upd. destruct (w =? v) eqn:Ew; [|reflexivity].
    apply N.eqb_eq in Ew. subst. exfalso. exact (H_in_xv v Hi E).
  Qed.
  Lemma val_upd_out env v x : xv v = None -> forall w, val (upd env v (Some x)) w = upd (val env) v (Some x) w.
  Proof.
    intros Hx w. unfold val, nlookup, upd. destruct (w =? v) eqn:Ew.
    - apply N.eqb_eq in Ew. subst. rewrite Hx. reflexivity.
    - reflexivity.
  Qed.

  Lemma Forall2_heap_keep (h h' : bid -> option V) bs xs :
    (forall b, In b bs -> h' b = h b) ->
    Forall2 (fun b x => h b = Some x) bs xs -> Forall2 (fun b x => h' b = Some x) bs xs.
  Proof.
    intros H F. induction F; constructor.
    - rewrite H by (left; reflexivity). assumption.
    - apply IHF. intros b Hb. apply H. right. exact Hb.
  Qed.

  (* saving the operator's outputs = binding them in the naive environment *)
  Lemma save_ok : forall oids bufs vals env s L,
    binv (val env) (bufs ++ L) s -> Forall2 (fun b x => heap s b = Some x) bufs vals ->
    (forall v, In v (somes oids) -> is_value v = true /\ (is_in v = false -> xv v = None)) ->
    (length oids <= length bufs)%nat ->
    binv (val (nbind env oids vals)) L (save is_in s oids bufs) /\
    rcs (save is_in s oids bufs) = rcs s /\ trace (save is_in s oids bufs) = trace s /\
    (forall w, temp s w <> None -> temp (save is_in s oids bufs) w <> None) /\
    (forall v, In v (somes oids) -> is_in v = false -> temp (save is_in s oids bufs) v <> None).
  Proof.
    induction oids as [|e r IH]; intros bufs vals env s L B F2 Hwf Hlen.
    - destruct (drops_ok _ bufs L s B) as (B' & Ht & Hr & Htr).
      assert (Hs : save is_in s [] bufs = fold_left drop bufs s) by (destruct bufs; reflexivity).
      rewrite Hs. assert (Hn : nbind env [] vals = env) by (destruct vals; reflexivity). rewrite Hn.
      split; [exact B'|]. split; [exact Hr|]. split; [exact Htr|]. split; [rewrite Ht; auto|intros v []].
    - destruct bufs as [|b bs]; [cbn in Hlen; lia|].
      inversion F2 as [|? x ? xs Hb Hbs]; subst. cbn [length] in Hlen.
      assert (Hnd : ~ In b (bs ++ L)).
      { destruct B as [_ _ _ _ _ _ H7 _]. cbn [app] in H7. inversion H7; assumption. }
      destruct e as [v|]; cbn [save nbind].
      + destruct (Hwf v) as (Hval & Hxv); [cbn [somes]; left; reflexivity|].
        assert (Hwf' : forall w, In w (somes r) -> is_value w = true /\ (is_in w = false -> xv w = None)).
        { intros w Hw. apply Hwf. cbn [somes]. right. exact Hw. }
        destruct (is_in v) eqn:Ei.
        * (* a run input: the computed value is discarded *)
          pose proof (drop_ok _ _ _ _ _ _ _ B) as B1.
          apply (binv_val_ext _ _ _ _ (val (upd env v (Some x)))) in B1;
            [|intros w; symmetry; apply val_upd_in; exact Ei].
          destruct (IH bs xs (upd env v (Some x)) (drop s b) L B1) as (B' & Hr & Htr & Hm & Hbd).
          { eapply Forall2_heap_keep; [|exact Hbs]. intros b' Hb'. cbn. apply upd_other.
            intros ->. apply Hnd. apply in_or_app. left. exact Hb'. }
          { exact Hwf'. } { lia. }
          splits; auto.
          intros w [Hw|Hw] Hiw; [subst w; congruence|apply Hbd; assumption].
        * destruct (bind_ok _ _ _ _ _ _ _ _ _ B Hb Hval) as (B1 & Hh1 & Hr1 & Htr1 & Ht1).
          apply (binv_val_ext _ _ _ _ (val (upd env v (Some x)))) in B1;
            [|intros w; symmetry; apply val_upd_out; apply Hxv; reflexivity].
          destruct (IH bs xs (upd env v (Some x)) (bind s v b) L B1) as (B' & Hr & Htr & Hm & Hbd).
          { eapply Forall2_heap_keep; [|exact Hbs]. intros b' Hb'. apply Hh1. apply in_or_app. left. exact Hb'. }
          { exact Hwf'. } { lia. }
          splits; auto; try congruence.
          -- intros w Hw. apply Hm. rewrite Ht1. unfold upd. destruct (w =? v); [discriminate|exact Hw].
          -- intros w [Hw|Hw] Hiw.
             ++ subst w. apply Hm. rewrite Ht1, upd_same. discriminate.
             ++ apply Hbd; assumption.
      + pose proof (drop_ok _ _ _ _ _ _ _ B) as B1.
        destruct (IH bs xs env (drop s b) L B1) as (B' & Hr & Htr & Hm & Hbd).
        { eapply Forall2_heap_keep; [|exact Hbs]. intros b' Hb'. cbn. apply upd_other.
          intros ->. apply Hnd. apply in_or_app. left. exact Hb'. }
        { intros w Hw. apply Hwf. cbn [somes]. exact Hw. } { lia. }
        splits; auto.
  Qed.

  (* ------------------------------------------------------------ decrementing reference counts *)
  Lemma dec_all_ok vl rest : forall ds s,
    binv vl [] s ->
    (forall v, is_value v = true -> rc_rel (rcs s v) (cnt v ds + uses rest v)) ->
    (forall v, vl v <> None -> (0 < uses rest v)%nat -> locate ext s v <> None) ->
    binv vl [] (dec_all y s ds) /\
    (forall v, is_value v = true -> rc_rel (rcs (dec_all y s ds) v) (uses rest v)) /\
    (forall v, vl v <> None -> (0 < uses rest v)%nat -> locate ext (dec_all y s ds) v <> None).
  Proof.
    induction ds as [|d r IH]; intros s B Hrc Hav.
    - cbn [dec_all]. splits; auto.
    - cbn [dec_all]. destruct (rc_dec (rcs s d)) as (c, ret) eqn:Ed.
      set (s1 := set_rcs s (upd (rcs s) d c)).
      assert (B1 : binv vl [] s1) by (apply binv_set_rcs; exact B).
      (* the count of d after the decrement *)
      assert (Hrc1 : forall v, is_value v = true -> rc_rel (rcs s1 v) (cnt v r + uses rest v)).
      { intros v Hv. unfold s1. cbn [rcs set_rcs]. destruct (N.eq_dec v d) as [->|Hn].
        - rewrite upd_same. specialize (Hrc d Hv). rewrite cnt_cons_eq in Hrc. cbn [Nat.add] in Hrc.
          destruct (rc_dec_rel _ _ Hrc) as (A & _). rewrite Ed in A. exact A.
        - rewrite upd_other by exact Hn. specialize (Hrc v Hv). rewrite cnt_cons_neq in Hrc by congruence. exact Hrc. }
      assert (Hzero : ret = Some 0 -> is_value d = true -> (cnt d r + uses rest d = 0)%nat).
      { intros Hr Hv. specialize (Hrc d Hv). rewrite cnt_cons_eq in Hrc. cbn [Nat.add] in Hrc.
        destruct (rc_dec_rel _ _ Hrc) as (_ & A). rewrite Ed in A. cbn in A. destruct (A Hr). assumption. }
      assert (Hav1 : forall v, vl v <> None -> (0 < uses rest v)%nat -> locate ext s1 v <> None).
      { intros v H1 H2. exact (Hav v H1 H2). }
      assert (Keep : binv vl [] s1 ->
                     (forall v, is_value v = true -> rc_rel (rcs s1 v) (cnt v r + uses rest v)) ->
                     (forall v, vl v <> None -> (0 < uses rest v)%nat -> locate ext s1 v <> None) ->
                     binv vl [] (dec_all y s1 r) /\
                     (forall v, is_value v = true -> rc_rel (rcs (dec_all y s1 r) v) (uses rest v)) /\
                     (forall v, vl v <> None -> (0 < uses rest v)%nat -> locate ext (dec_all y s1 r) v <> None))
        by (intros; apply IH; assumption).
      destruct ret as [k|]; [|apply Keep; assumption].
      destruct k as [|k']; [|apply Keep; assumption].
      destruct (y_pool y); [|apply Keep; assumption].
      destruct (temp s1 d) as [b|] eqn:Et; [|apply Keep; assumption].
      (* the value is released to the pool *)
      destruct (b_temp _ _ _ _ _ _ B1 d b Et) as (_ & _ & _ & _ & Hvd & _).
      specialize (Hzero eq_refl Hvd).
      apply IH.
      + apply release_ok. apply untemp_ok; assumption.
      + intros v Hv. cbn [rcs release set_pool set_heap set_temp]. apply Hrc1. exact Hv.
      + intros v H1 H2. assert (v <> d) by (intros ->; lia).
        specialize (Hav1 v H1 H2). unfold locate in *. cbn [temp caps release set_pool set_heap set_temp].
        rewrite upd_other by exact H. exact Hav1.
  Qed.

  (* ------------------------------------------------------------ the four parts of a step *)
  Lemma nodup_snd (cs : list (nat * id)) :
    NoDup (map fst cs) -> (forall p1 p2 v, In (p1, v) cs -> In (p2, v) cs -> p1 = p2) -> NoDup (map snd cs).
  Proof.
    induction cs as [|(p, v) r IH]; intros Hnd Hu; cbn; [constructor|].
    inversion Hnd; subst. constructor.
    - intros Hin. apply in_map_iff in Hin. destruct Hin as ((p', v') & E & Hin). cbn in E. subst v'.
      assert (p = p') by (apply (Hu p p' v); [left; reflexivity|right; exact Hin]). subst p'.
      apply H1. apply in_map_iff. exists (p, v). split; [reflexivity|exact Hin].
    - apply IH; [assumption|]. intros p1 p2 w H1' H2'. apply (Hu p1 p2 w); right; assumption.
  Qed.

  Lemma deps_split n : deps g n = somes (op_inputs n) ++ cap_deps g n.
  Proof. reflexivity. Qed.

  Lemma takeable_uses env rest o s v : binv (val env) [] s -> cinv env (o :: rest) s ->
    rcs s v = 1 -> temp s v <> None -> uses (o :: rest) v = 1%nat.
  Proof.
    intros B C Hrc Ht. destruct (temp s v) as [b|] eqn:E; [|congruence].
    destruct (b_temp _ _ _ _ _ _ B v b E) as (_ & _ & _ & _ & Hv & _).
    eapply rc_one; [apply (c_rc _ _ _ C v Hv)|exact Hrc].
  Qed.

  Lemma step_take_ok env rest o n s :
    binv (val env) [] s -> cinv env (o :: rest) s -> get_op g o = Some n ->
    exists s2 taken moved cs',
      step_take g S y s o n = ROk (s2, taken, moved) /\
      binv (val env) (map snd moved ++ map snd taken) s2 /\
      heap s2 = heap s /\ rcs s2 = rcs s /\ trace s2 = trace s /\
      (forall w, temp s2 w = if mem w (map fst moved) || mem w (map snd cs') then None else temp s w) /\
      Forall2 (fun c t => fst c = fst t /\ temp s (snd c) = Some (snd t)) cs' taken /\
      (forall p v, In (p, v) cs' -> nth_error (op_inputs n) p = Some (Some v) /\ uses (o :: rest) v = 1%nat) /\
      NoDup (map fst cs') /\
      (forall v b, In (v, b) moved -> In v (cap_deps g n) /\ temp s v = Some b /\ uses (o :: rest) v = 1%nat) /\
      (forall v b, assoc moved v = Some b -> In (v, b) moved).
  Proof.
    intros B C En. unfold step_take.
    destruct (cands_spec s o n) as (Hnth & Hnd).
    set (cs := cands S y s o n) in *.
    set (ip := negb match cs with [] => true | _ :: _ => false end
               && forallb (fun c => takeable g s (snd c)) cs && y_policy y o).
    (* part A: in-place inputs *)
    assert (PA : exists s1 taken cs',
               (if ip then take_all g s cs else ROk (s, [])) = ROk (s1, taken) /\
               binv (val env) (map snd taken) s1 /\ heap s1 = heap s /\ rcs s1 = rcs s /\ trace s1 = trace s /\
               (forall w, temp s1 w = if mem w (map snd cs') then None else temp s w) /\
               Forall2 (fun c t => fst c = fst t /\ temp s (snd c) = Some (snd t)) cs' taken /\
               (forall p v, In (p, v) cs' -> nth_error (op_inputs n) p = Some (Some v) /\ uses (o :: rest) v = 1%nat) /\
               NoDup (map fst cs')).
    { destruct ip eqn:Eip.
      - unfold ip in Eip. apply andb_true_iff in Eip. destruct Eip as (Eip & _).
        apply andb_true_iff in Eip. destruct Eip as (_ & Hall). rewrite forallb_forall in Hall.
        assert (Hu : forall p v, In (p, v) cs -> uses (o :: rest) v = 1%nat).
        { intros p v Hin. destruct (takeable_temp _ _ _ _ B (Hall _ Hin)) as (Hrc & b & Hb). cbn [snd] in *.
          eapply takeable_uses; eauto. congruence. }
        assert (Hnds : NoDup (map snd cs)).
        { apply nodup_snd; [exact Hnd|]. intros p1 p2 v H1 H2.
          destruct (Nat.eq_dec p1 p2) as [|Hne]; [assumption|exfalso].
          pose proof (cnt_somes_two _ _ _ _ Hne (Hnth _ _ H1) (Hnth _ _ H2)) as H2c.
          pose proof (Hu _ _ H1) as Hu1. rewrite (uses_cons _ _ _ _ En), deps_split, cnt_app in Hu1. lia. }
        destruct (take_all_ok (val env) cs [] s B Hall Hnds) as (s1 & taken & E & B1 & Hh & Hr & Htr & Ht & F2).
        exists s1, taken, cs. rewrite app_nil_r in B1. splits; auto.
        intros p v Hin. split; [apply Hnth; exact Hin|eapply Hu; exact Hin].
      - exists s, [], []. cbn. splits; auto; try (intros; contradiction); constructor. }
    destruct PA as (s1 & taken & cs' & E1 & B1 & Hh1 & Hr1 & Htr1 & Ht1 & F2 & Hcs' & Hnd').
    rewrite E1.
    (* part B: by-value captures *)
    assert (PB : exists s2 moved,
               (if s_sub S o then take_caps g s1 (cap_deps g n) else (s1, [])) = (s2, moved) /\
               binv (val env) (map snd moved ++ map snd taken) s2 /\ heap s2 = heap s1 /\ rcs s2 = rcs s1 /\
               trace s2 = trace s1 /\
               (forall w, temp s2 w = if mem w (map fst moved) then None else temp s1 w) /\
               (forall v b, In (v, b) moved -> In v (cap_deps g n) /\ temp s1 v = Some b /\ rcs s1 v = 1) /\
               (forall v b, assoc moved v = Some b -> In (v, b) moved)).
    { destruct (s_sub S o).
      - destruct (take_caps_ok (val env) (cap_deps g n) _ s1 B1) as (s2 & moved & E & B2 & Hh & Hr & Htr & Ht & Hm & Ha).
        exists s2, moved. splits; auto.
      - exists s1, []. cbn. splits; auto; try (intros; contradiction). discriminate. }
    destruct PB as (s2 & moved & E2 & B2 & Hh2 & Hr2 & Htr2 & Ht2 & Hm & Ha).
    rewrite E2. exists s2, taken, moved, cs'.
    split; [reflexivity|]. split; [exact B2|]. splits; try congruence; auto.
    - intros w. rewrite Ht2, Ht1. destruct (mem w (map fst moved)); reflexivity.
    - intros v b Hin. destruct (Hm v b Hin) as (A1 & A2 & A3). split; [exact A1|].
      rewrite Ht1 in A2. destruct (mem v (map snd cs')); [discriminate|].
      split; [exact A2|]. eapply takeable_uses; eauto; congruence.
  Qed.

  Lemma assocn_taken (s : st) cs' taken q :
    Forall2 (fun (c : nat * id) (t : nat * bid) => fst c = fst t /\ temp s (snd c) = Some (snd t)) cs' taken ->
    match assocn taken q with
    | Some b => exists v, In (q, v) cs' /\ temp s v = Some b
    | None => forall v, ~ In (q, v) cs'
    end.
  Proof.
    intros F. induction F as [|(p, v) (p', b) cs1 tk (E1 & E2) F IH]; cbn [assocn].
    - intros v [].
    - cbn in E1, E2. subst p'. destruct (p =? q)%nat eqn:Ep.
      + apply Nat.eqb_eq in Ep. subst q. exists v. split; [left; reflexivity|exact E2].
      + apply Nat.eqb_neq in Ep. destruct (assocn tk q) as [b'|].
        * destruct IH as (v' & Hin & Ht). exists v'. split; [right; exact Hin|exact Ht].
        * intros v' [Hin|Hin]; [injection Hin as -> _; congruence|exact (IH v' Hin)].
  Qed.

  Lemma assoc_none {A} (l : list (id * A)) v : assoc l v = None -> ~ In v (map fst l).
  Proof.
    induction l as [|(k, a) r IH]; cbn; [tauto|]. destruct (k =? v) eqn:E; [discriminate|].
    apply N.eqb_neq in E. intros H [H'|H']; [congruence|exact (IH H H')].
  Qed.

  Lemma mem_false x l : mem x l = false <-> ~ In x l.
  Proof. rewrite <- mem_In. destruct (mem x l); split; congruence. Qed.

  Lemma cap_deps_not_input n v : In v (cap_deps g n) -> ~ In v (somes (op_inputs n)).
  Proof.
    unfold cap_deps. rewrite filter_In. intros (_ & H). apply andb_true_iff in H. destruct H as (_ & H).
    apply negb_true_iff in H. apply mem_false. exact H.
  Qed.

  Lemma nth_somes_In l : forall p v, nth_error l p = Some (Some v) -> In v (somes l).
  Proof. intros p v H. apply cnt_pos_In. pose proof (cnt_somes_nth l p v H). unfold cnt in *. lia. Qed.

  Lemma xv_val env : forall w x, xv w = Some x -> val env w = Some x.
  Proof. intros. apply val_xv. assumption. Qed.

  Lemma step_args_ok env rest o n s s2 taken moved cs' :
    binv (val env) [] s -> cinv env (o :: rest) s -> get_op g o = Some n ->
    binv (val env) (map snd moved ++ map snd taken) s2 -> heap s2 = heap s ->
    (forall w, temp s2 w = if mem w (map fst moved) || mem w (map snd cs') then None else temp s w) ->
    Forall2 (fun c t => fst c = fst t /\ temp s (snd c) = Some (snd t)) cs' taken ->
    (forall p v, In (p, v) cs' -> nth_error (op_inputs n) p = Some (Some v) /\ uses (o :: rest) v = 1%nat) ->
    (forall v b, In (v, b) moved -> In v (cap_deps g n) /\ temp s v = Some b /\ uses (o :: rest) v = 1%nat) ->
    (forall v b, assoc moved v = Some b -> In (v, b) moved) ->
    step_args g ext s2 n taken moved = ngather xv env (all_args g n).
  Proof.
    intros B C En B2 Hh Ht2 F2 Hcs' Hm Ha.
    (* a dependency that is not handed over by value is found where it was before the step *)
    assert (Hloc : forall v, In v (deps g n) -> ~ In v (map fst moved) -> ~ In v (map snd cs') ->
               match val env v with
               | Some x => exists b, locate ext s2 v = Some b /\ heap s2 b = Some x
               | None => locate ext s2 v = None
               end).
    { intros v Hd Hnm Hnc. destruct (val env v) as [x|] eqn:Ev.
      - assert (Hl : locate ext s v <> None).
        { apply (c_avail _ _ _ C v); [congruence|]. rewrite (uses_cons _ _ _ _ En).
          apply cnt_pos_In in Hd. lia. }
        assert (Hl2 : locate ext s2 v = locate ext s v).
        { unfold locate. rewrite Ht2.
          apply mem_false in Hnm. apply mem_false in Hnc. rewrite Hnm, Hnc. cbn [orb].
          rewrite (b_caps _ _ _ _ _ _ B v), (b_caps _ _ _ _ _ _ B2 v). reflexivity. }
        destruct (locate ext s v) as [b|] eqn:El; [|congruence].
        destruct (locate_sound _ _ _ _ _ B (xv_val env) El) as (x' & Hx' & Hv').
        exists b. split; [exact Hl2|]. rewrite Hh. congruence.
      - eapply locate_none; [exact B2|exact Ev|apply xv_val]. }
    unfold step_args, all_args. rewrite ngather_app.
    rewrite (gather_sim env s2 taken (op_inputs n) 0).
    2:{ intros q v Hq. cbn [Nat.add]. pose proof (assocn_taken s cs' taken q F2) as Hat.
        destruct (assocn taken q) as [b|].
        - destruct Hat as (v' & Hin & Hb). destruct (Hcs' _ _ Hin) as (Hn' & _).
          assert (v' = v) by congruence. subst v'.
          destruct (b_temp _ _ _ _ _ _ B v b Hb) as (_ & _ & _ & _ & _ & x & Hx & Hv).
          exists x. split; [rewrite Hh; exact Hx|exact Hv].
        - apply Hloc.
          + rewrite deps_split. apply in_or_app. left. eapply nth_somes_In; eauto.
          + intros Hin. apply in_map_iff in Hin. destruct Hin as ((v', b') & E & Hin). cbn in E. subst v'.
            destruct (Hm _ _ Hin) as (Hc & _). apply (cap_deps_not_input _ _ Hc). eapply nth_somes_In; eauto.
          + intros Hin. apply in_map_iff in Hin. destruct Hin as ((p', v') & E & Hin). cbn in E. subst v'.
            destruct (Hcs' _ _ Hin) as (Hn' & Hu).
            assert (p' <> q) by (intros ->; exact (Hat v Hin)).
            pose proof (cnt_somes_two _ _ _ _ H Hn' Hq) as H2c.
            rewrite (uses_cons _ _ _ _ En), deps_split, cnt_app in Hu. lia. }
    rewrite (gather_caps_sim env s2 moved (cap_deps g n)).
    2:{ intros v Hv. destruct (assoc moved v) as [b|] eqn:Ea.
        - destruct (Hm _ _ (Ha _ _ Ea)) as (_ & Hb & _).
          destruct (b_temp _ _ _ _ _ _ B v b Hb) as (_ & _ & _ & _ & _ & x & Hx & Hvx).
          exists x. split; [rewrite Hh; exact Hx|exact Hvx].
        - apply Hloc.
          + rewrite deps_split. apply in_or_app. right. exact Hv.
          + apply assoc_none. exact Ea.
          + intros Hin. apply in_map_iff in Hin. destruct Hin as ((p', v') & E & Hin). cbn in E. subst v'.
            destruct (Hcs' _ _ Hin) as (Hn' & _). apply (cap_deps_not_input _ _ Hv). eapply nth_somes_In; eauto. }
    destruct (ngather xv env (op_inputs n)); [|reflexivity].
    destruct (ngather xv env (map Some (cap_deps g n))); reflexivity.
  Qed.

  Lemma val_nbind_other : forall oids vals env v,
    (~ In v (somes oids) \/ is_in v = true) -> val (nbind env oids vals) v = val env v.
  Proof.
    induction oids as [|e r IH]; intros vals env v H; [destruct vals; reflexivity|].
    destruct e as [w|]; destruct vals as [|x xs]; cbn [nbind]; try reflexivity.
    - rewrite IH.
      + destruct (N.eq_dec w v) as [->|Hn].
        * destruct H as [H|H]; [exfalso; apply H; cbn [somes]; left; reflexivity|]. apply val_upd_in. exact H.
        * unfold val, nlookup. rewrite upd_other by congruence. reflexivity.
      + destruct H as [H|H]; [left; intros Hin; apply H; cbn [somes]; right; exact Hin|right; exact H].
    - apply IH. destruct H as [H|H]; [left; exact H|right; exact H].
  Qed.

  Lemma reuse_choice_spec s2 o taken vals first rel :
    reuse_choice S s2 o taken vals = (first, rel) ->
    (match first with Some b0 => b0 :: rel | None => rel end) = map snd taken /\ (first <> None -> vals <> []).
  Proof.
    unfold reuse_choice. intros E.
    destruct taken as [|(p0, b0) tk].
    - injection E as <- <-. split; [reflexivity|congruence].
    - destruct vals as [|x0 xs].
      + injection E as <- <-. split; [reflexivity|congruence].
      + destruct (heap s2 b0) as [old|].
        * destruct (s_reuse S o old x0); injection E as <- <-; (split; [reflexivity|congruence]).
        * injection E as <- <-. split; [reflexivity|congruence].
  Qed.

  Lemma step_finish_ok env rest o n s s2 taken moved cs' vals :
    binv (val env) [] s -> cinv env (o :: rest) s -> get_op g o = Some n -> op_wf n ->
    binv (val env) (map snd moved ++ map snd taken) s2 -> rcs s2 = rcs s ->
    (forall w, temp s2 w = if mem w (map fst moved) || mem w (map snd cs') then None else temp s w) ->
    (forall p v, In (p, v) cs' -> nth_error (op_inputs n) p = Some (Some v) /\ uses (o :: rest) v = 1%nat) ->
    (forall v b, In (v, b) moved -> In v (cap_deps g n) /\ temp s v = Some b /\ uses (o :: rest) v = 1%nat) ->
    (length (op_outputs n) <= length vals)%nat ->
    binv (val (nbind env (op_outputs n) vals)) [] (step_finish g S y is_in s2 o n taken moved vals) /\
    cinv (nbind env (op_outputs n) vals) rest (step_finish g S y is_in s2 o n taken moved vals).
  Proof.
    intros B C En Hwf B2 Hr2 Ht2 Hcs' Hm Hlen. unfold step_finish.
    destruct (reuse_choice S s2 o taken vals) as (first, rel) eqn:Er.
    destruct (reuse_choice_spec _ _ _ _ _ _ Er) as (Hfr & Hfv).
    set (M := map snd moved) in *.
    (* release the buffers run_in_place does not keep *)
    assert (B2' : binv (val env) (rel ++ match first with Some b0 => b0 :: M | None => M end) s2).
    { eapply binv_perm; [|exact B2]. rewrite <- Hfr. destruct first as [b0|].
      - eapply Permutation_trans; [apply Permutation_app_comm|]. cbn [app]. apply Permutation_middle.
      - apply Permutation_app_comm. }
    destruct (releases_ok _ _ _ _ B2') as (B3 & Ht3 & Hr3 & Htr3 & _).
    set (s3 := fold_left release rel s2) in *.
    destruct (alloc_outs_ok (val env) vals s3 M first B3 Hfv) as (s4 & bufs & Ea & B4 & F4 & Ht4 & Hr4 & Htr4 & _).
    rewrite Ea.
    assert (B4' : binv (val env) (M ++ bufs) s4) by (eapply binv_perm; [apply Permutation_app_comm|exact B4]).
    destruct (releases_ok _ _ _ _ B4') as (B5 & Ht5 & Hr5 & Htr5 & Hh5).
    set (s5 := fold_left release M s4) in *.
    assert (F5 : Forall2 (fun b x => heap s5 b = Some x) bufs vals).
    { eapply Forall2_heap_keep; [|exact F4]. intros b Hb. apply Hh5. intros HbM.
      pose proof (b_limbo_nodup _ _ _ _ _ _ B4) as Hnd. clear - Hnd Hb HbM.
      induction bufs as [|z r IH]; [contradiction|]. cbn [app] in Hnd. inversion Hnd; subst.
      destruct Hb as [->|Hb]; [apply H1; apply in_or_app; right; exact HbM|apply IH; assumption]. }
    assert (B5' : binv (val env) (bufs ++ []) s5) by (rewrite app_nil_r; exact B5).
    assert (Hlen' : (length (op_outputs n) <= length bufs)%nat).
    { rewrite (Forall2_len _ _ _ F4). exact Hlen. }
    destruct (save_ok (op_outputs n) bufs vals env s5 [] B5' F5) as (B6 & Hr6 & Htr6 & Hmono & Hbound).
    { intros v Hv. apply Hwf. exact Hv. } { exact Hlen'. }
    set (s6 := save is_in s5 (op_outputs n) bufs) in *.
    set (env' := nbind env (op_outputs n) vals) in *.
    set (s7 := add_trace s6 (o, map fst taken, match first with Some _ => true | None => false end)).
    assert (B7 : binv (val env') [] s7) by (apply binv_add_trace; exact B6).
    assert (Hrc7 : rcs s7 = rcs s).
    { unfold s7. cbn [rcs add_trace]. rewrite Hr6, Hr5, Hr4, Hr3. exact Hr2. }
    assert (Htemp7 : forall w, temp s2 w <> None -> temp s7 w <> None).
    { intros w Hw. unfold s7. cbn [temp add_trace]. apply Hmono. rewrite Ht5, Ht4, Ht3. exact Hw. }
    destruct (dec_all_ok (val env') rest (deps g n) s7 B7) as (B8 & Hrc8 & Hav8).
    - intros v Hv. rewrite Hrc7. rewrite <- (uses_cons _ _ _ _ En). apply (c_rc _ _ _ C v Hv).
    - intros v Hv Hu.
      assert (Hnn : forall b, temp s7 v = Some b -> locate ext s7 v <> None).
      { intros b Hb. unfold locate. destruct (ext v); [discriminate|]. rewrite Hb. discriminate. }
      destruct (in_dec N.eq_dec v (op_outs n)) as [Hin|Hnin].
      + destruct (is_in v) eqn:Ei.
        * (* a run input among the outputs: as before the step *)
          assert (Hv' : val env v <> None) by (unfold env' in Hv; rewrite val_nbind_other in Hv; auto).
          assert (Hl : locate ext s v <> None).
          { apply (c_avail _ _ _ C v Hv'). rewrite (uses_cons _ _ _ _ En). lia. }
          unfold locate in Hl |- *. destruct (ext v); [discriminate|].
          destruct (temp s v) as [b|] eqn:Et; [|rewrite (b_caps _ _ _ _ _ _ B v) in Hl; congruence].
          assert (Hk : temp s2 v <> None).
          { rewrite Ht2. destruct (mem v (map fst moved)) eqn:E1.
            - apply mem_In in E1. apply in_map_iff in E1. destruct E1 as ((v', b') & E & Hin'). cbn in E. subst v'.
              destruct (Hm _ _ Hin') as (Hc & _ & Hu1). rewrite (uses_cons _ _ _ _ En), deps_split, cnt_app in Hu1.
              apply cnt_pos_In in Hc. lia.
            - destruct (mem v (map snd cs')) eqn:E2; [|cbn; congruence].
              apply mem_In in E2. apply in_map_iff in E2. destruct E2 as ((p', v') & E & Hin'). cbn in E. subst v'.
              destruct (Hcs' _ _ Hin') as (Hn' & Hu1). rewrite (uses_cons _ _ _ _ En), deps_split, cnt_app in Hu1.
              pose proof (cnt_somes_nth _ _ _ Hn'). lia. }
          specialize (Htemp7 v Hk). destruct (temp s7 v); [discriminate|congruence].
        * specialize (Hbound v Hin Ei). unfold s7 in *. cbn [temp add_trace] in *.
          unfold locate. destruct (ext v); [discriminate|]. cbn [temp add_trace].
          destruct (temp s6 v); [discriminate|congruence].
      + assert (Hv' : val env v <> None) by (unfold env' in Hv; rewrite val_nbind_other in Hv; auto).
        assert (Hl : locate ext s v <> None).
        { apply (c_avail _ _ _ C v Hv'). rewrite (uses_cons _ _ _ _ En). lia. }
        unfold locate in Hl |- *. destruct (ext v); [discriminate|].
        destruct (temp s v) as [b|] eqn:Et; [|rewrite (b_caps _ _ _ _ _ _ B v) in Hl; congruence].
        assert (Hk : temp s2 v <> None).
        { rewrite Ht2. destruct (mem v (map fst moved)) eqn:E1.
          - apply mem_In in E1. apply in_map_iff in E1. destruct E1 as ((v', b') & E & Hin'). cbn in E. subst v'.
            destruct (Hm _ _ Hin') as (Hc & _ & Hu1). rewrite (uses_cons _ _ _ _ En), deps_split, cnt_app in Hu1.
            apply cnt_pos_In in Hc. lia.
          - destruct (mem v (map snd cs')) eqn:E2; [|cbn; congruence].
            apply mem_In in E2. apply in_map_iff in E2. destruct E2 as ((p', v') & E & Hin'). cbn in E. subst v'.
            destruct (Hcs' _ _ Hin') as (Hn' & Hu1). rewrite (uses_cons _ _ _ _ En), deps_split, cnt_app in Hu1.
            pose proof (cnt_somes_nth _ _ _ Hn'). lia. }
        specialize (Htemp7 v Hk). destruct (temp s7 v); [discriminate|congruence].
    - split; [exact B8|]. constructor; assumption.
  Qed.

  (* ------------------------------------------------------------ one step *)
  Theorem step_sim env rest o s :
    binv (val env) [] s -> cinv env (o :: rest) s ->
    (forall n, get_op g o = Some n -> op_wf n) ->
    match nstep g S xv env o with
    | ROk env' => exists s', step g S y ext is_in s o = ROk s' /\ binv (val env') [] s' /\ cinv env' rest s'
    | RFail f => step g S y ext is_in s o = RFail f
    end.
  Proof.
    intros B C Hwf. unfold nstep, step.
    destruct (get_op g o) as [n|] eqn:En; [|reflexivity].
    specialize (Hwf n eq_refl).
    destruct (step_take_ok env rest o n s B C En)
      as (s2 & taken & moved & cs' & Etk & B2 & Hh2 & Hr2 & Htr2 & Ht2 & F2 & Hcs' & Hnd' & Hm & Ha).
    rewrite Etk.
    rewrite (step_args_ok env rest o n s s2 taken moved cs' B C En B2 Hh2 Ht2 F2 Hcs' Hm Ha).
    destruct (ngather xv env (all_args g n)) as [args|f]; [|reflexivity].
    assert (Hrun : step_run S o taken args = s_run S o args).
    { unfold step_run. destruct taken; [reflexivity|apply H_ip]. }
    rewrite Hrun. destruct (s_run S o args) as [vals|]; [|reflexivity].
    destruct (length vals <? length (op_outputs n))%nat eqn:El; [reflexivity|].
    apply Nat.ltb_ge in El.
    destruct (step_finish_ok env rest o n s s2 taken moved cs' vals B C En Hwf B2 Hr2 Ht2 Hcs' Hm El) as (B' & C').
    eexists. split; [reflexivity|]. split; assumption.
  Qed.

  (* ------------------------------------------------------------ the whole plan *)
  Definition plan_wf (plan : list id) : Prop := forall o n, In o plan -> get_op g o = Some n -> op_wf n.

  Lemma steps_sim rest : forall plan env s,
    binv (val env) [] s -> cinv env (plan ++ rest) s -> plan_wf plan ->
    match nsteps g S xv env plan with
    | ROk env' => exists s', steps g S y ext is_in s plan = ROk s' /\ binv (val env') [] s' /\ cinv env' rest s'
    | RFail f => steps g S y ext is_in s plan = RFail f
    end.
  Proof.
    induction plan as [|o r IH]; intros env s B C Hwf; cbn [nsteps steps app] in *.
    - exists s. auto.
    - pose proof (step_sim env (r ++ rest) o s B C (fun n Hn => Hwf o n (or_introl eq_refl) Hn)) as H1.
      destruct (nstep g S xv env o) as [env1|f].
      + destruct H1 as (s1 & E & B1 & C1). rewrite E. apply IH; [assumption|assumption|].
        intros o' n' Hin. apply Hwf. right. exact Hin.
      + rewrite H1. reflexivity.
  Qed.

  Lemma extract_sim env : forall os L s,
    binv (val env) L s -> NoDup os ->
    (forall v, In v os -> val env v <> None -> locate ext s v <> None) ->
    extract ext s os = nextract xv env os.
  Proof.
    induction os as [|v r IH]; intros L s B Hnd Hav; [reflexivity|].
    inversion Hnd as [|? ? Hv Hr]; subst. cbn [extract nextract]. fold (val env v).
    assert (Hav' : forall w, In w r -> val env w <> None -> locate ext s w <> None)
      by (intros w Hw; apply Hav; right; exact Hw).
    destruct (ext v) as [b|] eqn:Ee.
    - destruct (b_ext _ _ _ _ _ _ B v b Ee) as (_ & x & Hx & Hxv).
      rewrite (val_xv env v x Hxv). unfold rd. rewrite Hx. rewrite (IH L s B Hr Hav'). reflexivity.
    - rewrite (b_caps _ _ _ _ _ _ B v).
      destruct (temp s v) as [b|] eqn:Et.
      + destruct (b_temp _ _ _ _ _ _ B v b Et) as (_ & _ & _ & _ & _ & x & Hx & Hvx).
        rewrite Hvx. unfold rd. rewrite Hx.
        rewrite (IH (b :: L) _ (untemp_ok _ _ _ _ _ _ _ _ B Et) Hr); [reflexivity|].
        intros w Hw Hvw. specialize (Hav' w Hw Hvw). unfold locate in *. cbn [temp caps set_temp].
        assert (w <> v) by (intros ->; contradiction). rewrite upd_other by exact H. exact Hav'.
      + destruct (val env v) as [x|] eqn:Evv; [|reflexivity].
        exfalso. apply (Hav v (or_introl eq_refl)); [congruence|].
        unfold locate. rewrite Ee, Et, (b_caps _ _ _ _ _ _ B v). reflexivity.
  Qed.

  Lemma cnt_plan_deps v plan : is_value v = true ->
    cnt v (plan_deps g plan) = cnt v (flat_map depsof plan).
  Proof.
    intros Hv. induction plan as [|o r IH]; [reflexivity|].
    unfold plan_deps in *. cbn [flat_map]. rewrite !cnt_app, IH. f_equal.
    unfold depsof. destruct (get_op g o); [apply cnt_filter_true; exact Hv|reflexivity].
  Qed.

  (* the executor's result is the result of the naive evaluation, whatever the strategy *)
  Theorem exec_refines_naive plan s0 :
    binv (val (fun _ => None)) [] s0 ->
    (forall v, xv v <> None -> locate ext s0 v <> None) ->
    NoDup outs -> plan_wf plan ->
    fst (exec_from g S y ext is_in s0 plan outs) = naive_eval g S xv plan outs.
  Proof.
    intros B0 Hav0 Hnd Hwf. unfold exec_from, naive_eval.
    destruct (ops_exist g plan); [|reflexivity].
    set (s := set_rcs s0 (init_rc g plan outs)).
    assert (B : binv (val (fun _ => None)) [] s) by (apply binv_set_rcs; exact B0).
    assert (C : cinv (fun _ => None) plan s).
    { constructor.
      - intros v Hv. unfold s, init_rc. cbn [rcs set_rcs].
        rewrite (inc_all_cnt outs (fun w => cnt w (plan_deps g plan))).
        + unfold uses. rewrite <- (cnt_plan_deps v plan Hv). apply rc_rel_sat.
        + intros w. rewrite (inc_all_cnt (plan_deps g plan) (fun _ => O)); [reflexivity|intros; reflexivity].
      - intros v Hv _. unfold locate in *. cbn [temp caps set_rcs]. apply Hav0.
        unfold val, nlookup in Hv. destruct (xv v); congruence. }
    rewrite <- (app_nil_r plan) in C.
    pose proof (steps_sim [] plan _ s B C Hwf) as H.
    destruct (nsteps g S xv (fun _ => None) plan) as [env|f].
    - destruct H as (s' & E & B' & C'). rewrite E. cbn [fst].
      apply (extract_sim env outs [] s' B' Hnd).
      intros v Hv Hvv. apply (c_avail _ _ _ C' v Hvv). unfold uses. cbn [flat_map]. apply cnt_pos_In in Hv.
      unfold cnt in *. cbn. lia.
    - rewrite H. reflexivity.
  Qed.

  (* C25: what is handed to Operator::run_in_place (and moved into a subgraph's capture
     environment) are buffers owned by temp_values -- never a view of the caller's data *)
  Lemma taken_buffers_owned env rest o n s s2 taken moved :
    binv (val env) [] s -> cinv env (o :: rest) s -> get_op g o = Some n ->
    step_take g S y s o n = ROk (s2, taken, moved) ->
    forall b, In b (map snd taken ++ map snd moved) ->
      (exists v, temp s v = Some b) /\ forall w, ext w <> Some b.
  Proof.
    intros B C En Etk b Hb.
    destruct (step_take_ok env rest o n s B C En)
      as (s2' & taken' & moved' & cs' & E & _ & _ & _ & _ & _ & F2 & _ & _ & Hm & _).
    rewrite Etk in E. injection E as <- <- <-.
    assert (Hv : exists v, temp s v = Some b).
    { apply in_app_or in Hb. destruct Hb as [Hb|Hb].
      - apply in_map_iff in Hb. destruct Hb as ((p, b') & E & Hin). cbn in E. subst b'.
        clear - F2 Hin. induction F2 as [|c t cs1 tk (E1 & E2) F IH]; [contradiction|].
        destruct Hin as [->|Hin]; [exists (snd c); exact E2|apply IH; exact Hin].
      - apply in_map_iff in Hb. destruct Hb as ((v, b') & E & Hin). cbn in E. subst b'.
        destruct (Hm _ _ Hin) as (_ & Ht & _). exists v. exact Ht. }
    split; [exact Hv|]. destruct Hv as (v & Hv).
    destruct (b_temp _ _ _ _ _ _ B v b Hv) as (_ & He & _). exact He.
  Qed.

  (* C24 (parent side): a value that is moved into a subgraph's capture environment (captured by
     value) has no remaining use: no later operator reads it and it is not a requested output *)
  Lemma moved_not_needed env rest o n s s2 taken moved :
    binv (val env) [] s -> cinv env (o :: rest) s -> get_op g o = Some n ->
    step_take g S y s o n = ROk (s2, taken, moved) ->
    forall v b, In (v, b) moved -> In v (cap_deps g n) /\ uses rest v = 0%nat.
  Proof.
    intros B C En Etk v b Hin.
    destruct (step_take_ok env rest o n s B C En)
      as (s2' & taken' & moved' & cs' & E & _ & _ & _ & _ & _ & _ & _ & _ & Hm & _).
    rewrite Etk in E. injection E as <- <- <-.
    destruct (Hm v b Hin) as (Hc & _ & Hu). split; [exact Hc|].
    rewrite (uses_cons _ _ _ _ En), deps_split, cnt_app in Hu. apply cnt_pos_In in Hc. lia.
  Qed.

  (* C24 (parent side): in a state satisfying the invariants -- in particular after any step,
     including the step of a subgraph operator -- every value that is still needed is found,
     and its buffer holds the value the naive evaluation assigns to it *)
  Lemma needed_values_intact env rest s :
    binv (val env) [] s -> cinv env rest s ->
    forall v x, val env v = Some x -> (0 < uses rest v)%nat ->
      exists b, locate ext s v = Some b /\ heap s b = Some x.
  Proof.
    intros B C v x Hv Hu.
    assert (Hl : locate ext s v <> None) by (apply (c_avail _ _ _ C v); [congruence|exact Hu]).
    destruct (locate ext s v) as [b|] eqn:El; [|congruence].
    destruct (locate_sound _ _ _ _ _ B (xv_val env) El) as (x' & Hx' & Hv'). exists b. split; [reflexivity|congruence].
  Qed.
End Sim.
