(* SubgraphModel.v -- C24: graphs with nested `If` / `Loop` operators (src/ops/control_flow.rs) and
   their INLINED meaning: a demand-driven evaluator in which an `If` is the selected branch and a
   `Loop` is the iteration of its body, both reading captured parent values directly.  There are
   no buffers, no reference counts, no capture environments here: this is the reference that the
   executor's subgraph machinery (CaptureEnv, by-value captures, in-place inside bodies) is
   compared with.  Definitions only. *)
From RV Require Import Prelude.
From Planner Require Import Graph.
From Exec Require Import ExecModel ModelTestOps.
Open Scope N_scope.

Inductive xnode :=
| XV                                               (* value node *)
| XC (data : V)                                    (* constant *)
| XCap (up : nat) (pid : id)                       (* capture placeholder: node [pid] of the graph
                                                      [up]+1 levels above (resolved by name in rten) *)
| XT (uid : N) (sp : opspec) (ins outs : list (option id))        (* test operator *)
| XIf (ins outs : list (option id)) (gthen gelse : xgraph)
| XLoop (ins outs : list (option id)) (body : xgraph)
with xgraph := XG (nodes : list xnode) (gins gouts : list id).    (* node id = position *)

Definition g_nodes' (G : xgraph) := match G with XG n _ _ => n end.
Definition g_ins (G : xgraph) := match G with XG _ i _ => i end.
Definition g_outs (G : xgraph) := match G with XG _ _ o => o end.

Definition node_outs (nd : xnode) : list (option id) :=
  match nd with XT _ _ _ o | XIf _ o _ _ | XLoop _ o _ => o | _ => [] end.

Fixpoint index_of (v : id) (l : list (option id)) (k : nat) : option nat :=
  match l with
  | [] => None
  | Some w :: r => if w =? v then Some k else index_of v r (Datatypes.S k)
  | None :: r => index_of v r (Datatypes.S k)
  end.

(* the operator node that lists v among its outputs, and the output position *)
Fixpoint find_producer (nodes : list xnode) (v : id) (o : nat) : option (xnode * nat) :=
  match nodes with
  | [] => None
  | nd :: r => match index_of v (node_outs nd) 0 with
               | Some k => Some (nd, k)
               | None => find_producer r v (Datatypes.S o)
               end
  end.

Fixpoint all_some {A} (l : list (option A)) : option (list A) :=
  match l with
  | [] => Some []
  | Some x :: r => match all_some r with Some l' => Some (x :: l') | None => None end
  | None :: _ => None
  end.

(* Tensor::item(): the single element *)
Definition item (x : V) : option Z := match x with [z] => Some z | _ => None end.

Definition FUEL0 : nat := 16.

Fixpoint transpose_scans (nscan : nat) (iters : list (list V)) : list (list V) :=
  (* iters: per iteration, the list of scan values -> per scan output, the list over iterations *)
  match nscan with
  | O => []
  | Datatypes.S k => map (fun it => hd [] it) iters :: transpose_scans k (map (fun it => tl it) iters)
  end.

(* concatenation of the scan values of all iterations; they must have equal lengths *)
Definition concat_scan (vals : list V) : option V :=
  match vals with
  | [] => Some []
  | x :: r => if forallb (fun z => (length z =? length x)%nat) r then Some (concat vals) else None
  end.

Fixpoint nodup_ids (l : list id) : bool :=
  match l with [] => true | x :: r => negb (mem x r) && nodup_ids r end.

(* values of the graph [lvl]+1 levels above that the subgraphs nested in [G] capture (these are
   dependencies of the control-flow operator: `OperatorNode::capture_names`, transitive) *)
Fixpoint caps_at (lvl : nat) (G : xgraph) {struct G} : list id :=
  match G with
  | XG nodes _ _ =>
      (fix go (l : list xnode) : list id :=
         match l with
         | [] => []
         | nd :: r =>
             (match nd with
              | XCap k pid => if (k =? lvl)%nat then [pid] else []
              | XIf _ _ a b => caps_at (Datatypes.S lvl) a ++ caps_at (Datatypes.S lvl) b
              | XLoop _ _ b => caps_at (Datatypes.S lvl) b
              | _ => []
              end) ++ go r
         end) nodes
  end.

Definition node_caps (nd : xnode) : list id :=
  match nd with
  | XIf _ _ a b => caps_at 0 a ++ caps_at 0 b
  | XLoop _ _ b => caps_at 0 b
  | _ => []
  end.

Definition env := list (id * V).
Definition frame := (xgraph * env)%type.   (* a graph and the values known in it (inputs, computed) *)

(* a captured value: already present in the ancestor (it is a dependency of the control-flow
   operator, so it was computed before the subgraph started) *)
Fixpoint lookup_up (fuel : nat) (up : list frame) (v : id) : option V :=
  match fuel with
  | O => None
  | Datatypes.S f =>
      match up with
      | [] => None
      | (G, e) :: r =>
          match assoc e v with
          | Some x => Some x
          | None => match nth_error (g_nodes' G) (N.to_nat v) with
                    | Some (XC d) => Some d
                    | Some (XCap k pid) => lookup_up f (skipn k r) pid
                    | _ => None
                    end
          end
      end
  end.

Fixpoint bind_outs (e : env) (outs : list (option id)) (vals : list V) : env :=
  match outs, vals with
  | Some v :: r, x :: xs => bind_outs ((v, x) :: e) r xs
  | None :: r, _ :: xs => bind_outs e r xs
  | _, _ => e
  end.

(* the outputs of a Loop once it stops: final carried values, then the concatenated scan outputs.
   [iters]: the scan values of the iterations that ran (latest first).  [spec] = false models
   today's Loop::run_subgraph: `if output_seq.is_empty() { continue }` *)
Definition loop_finish (spec : bool) (nscan : nat) (carried : list V) (iters : list (list V)) : option (list V) :=
  match all_some (map concat_scan (transpose_scans nscan (rev iters))) with
  | Some scans =>
      if spec then Some (carried ++ scans)
      else Some (carried ++ filter (fun _ => negb (match iters with [] => true | _ => false end)) scans)
  | None => None
  end.

(* [spec]: true = the inlined meaning (a loop that never iterates has EMPTY scan outputs);
   false = today's Loop::run_subgraph, which leaves the scan outputs out in that case, so that the
   executor reports OutputMismatch (finding F19).
   Demand-driven with a cache per graph: the value of node v in graph G (ancestors [up]), and the
   extended cache.  An `If` is its selected branch, a `Loop` the iteration of its body. *)
Fixpoint den (spec : bool) (fuel : nat) (up : list frame) (G : xgraph) (e : env) (v : id) {struct fuel}
  : option (V * env) :=
  match fuel with
  | O => None
  | Datatypes.S f =>
      match assoc e v with
      | Some x => Some (x, e)
      | None =>
          match nth_error (g_nodes' G) (N.to_nat v) with
          | Some (XC d) => Some (d, e)
          | Some (XCap k pid) => option_map (fun x => (x, e)) (lookup_up FUEL0 (skipn k up) pid)
          | Some XV =>
              match find_producer (g_nodes' G) v 0 with
              | None => None
              | Some (nd, k) =>
                  (* evaluate a list of wanted values, threading the cache *)
                  let many (G' : xgraph) (up' : list frame) :=
                    fix many (e0 : env) (ws : list id) : option (list V * env) :=
                      match ws with
                      | [] => Some ([], e0)
                      | w :: r => match den spec f up' G' e0 w with
                                  | Some (x, e1) => match many e1 r with
                                                    | Some (xs, e2) => Some (x :: xs, e2)
                                                    | None => None
                                                    end
                                  | None => None
                                  end
                      end in
                  let args :=
                    fix args (e0 : env) (es : list (option id)) : option (list (option V) * env) :=
                      match es with
                      | [] => Some ([], e0)
                      | None :: r => match args e0 r with Some (xs, e2) => Some (None :: xs, e2) | None => None end
                      | Some w :: r => match den spec f up G e0 w with
                                       | Some (x, e1) => match args e1 r with
                                                         | Some (xs, e2) => Some (Some x :: xs, e2)
                                                         | None => None
                                                         end
                                       | None => None
                                       end
                      end in
                  (* Graph::run_subgraph: the planner rejects duplicate outputs *)
                  let run_graph (B : xgraph) (here : env) (binp : env) : option (list V) :=
                    if nodup_ids (g_outs B)
                    then option_map fst (many B ((G, here) :: up) binp (g_outs B))
                    else None in
                  let res : option (list V * env) :=
                    match nd with
                    | XT uid sp ins _ =>
                        match args e ins with
                        | Some (a, e1) => Some (test_run uid sp 0 a, e1)
                        | None => None
                        end
                    | XIf ins _ gt ge =>
                        match args e ins with
                        | Some (Some c :: _, e1) =>
                            match many G up e1 (node_caps nd) with
                            | Some (_, e2) =>
                                match item c with
                                | Some z => option_map (fun l => (l, e2))
                                                       (if (z =? 0)%Z then run_graph ge e2 [] else run_graph gt e2 [])
                                | None => None
                                end
                            | None => None
                            end
                        | _ => None
                        end
                    | XLoop ins _ body =>
                        match args e ins with
                        | Some (otrip :: ocond :: ocar, e1) =>
                            match many G up e1 (node_caps nd), all_some ocar with
                            | Some (_, e2), Some carried0 =>
                                let trip := match otrip with Some t => option_map Z.to_nat (item t) | None => Some 1000%nat end in
                                let cond0 := match ocond with Some c => item c | None => Some 1%Z end in
                                let nc := length carried0 in
                                let nscan := (length (g_outs body) - 1 - nc)%nat in
                                match trip, cond0 with
                                | Some n, Some c0 =>
                                    if negb ((length (g_ins body) =? 2 + nc)%nat) then None
                                    else if (length (g_outs body) <? 1 + nc)%nat then None
                                    else
                                      option_map (fun l => (l, e2))
                                      ((fix loop (n : nat) (i : Z) (cond : Z) (carried : list V) (iters : list (list V))
                                          : option (list V) :=
                                          let finish := loop_finish spec nscan carried iters in
                                          match n with
                                          | O => finish
                                          | Datatypes.S n' =>
                                              if (cond =? 0)%Z then finish
                                              else
                                                match run_graph body e2 (combine (g_ins body) ([i] :: [cond] :: carried)) with
                                                | Some (c' :: rest) =>
                                                    match item c' with
                                                    | Some cz => loop n' (i + 1)%Z cz (firstn nc rest) (skipn nc rest :: iters)
                                                    | None => None
                                                    end
                                                | _ => None
                                                end
                                          end) n 0%Z c0 carried0 [])
                                | _, _ => None
                                end
                            | _, _ => None
                            end
                        | _ => None
                        end
                    | _ => None
                    end in
                  match res with
                  | Some (l, e3) =>
                      if (length l <? length (node_outs nd))%nat then None
                      else match nth_error l k with
                           | Some x => Some (x, bind_outs e3 (node_outs nd) l)
                           | None => None
                           end
                  | None => None
                  end
              end
          | _ => None
          end
      end
  end.

Definition FUEL : nat := 60.

Fixpoint den_many (spec : bool) (G : xgraph) (e : env) (ws : list id) : option (list V) :=
  match ws with
  | [] => Some []
  | w :: r => match den spec FUEL [] G e w with
              | Some (x, e1) => match den_many spec G e1 r with Some xs => Some (x :: xs) | None => None end
              | None => None
              end
  end.

Definition eval_top (spec : bool) (G : xgraph) (inp : list (id * V)) (outs : list id) : option (list V) :=
  if nodup_ids outs then den_many spec G inp outs else None.

(* ---------------------------------------------------------------- correspondence case (C24) *)
Record run24 := { q_owned : list bool; q_pool : bool; q_res : ires }.
Record case24 := {
  k_graph : xgraph;
  k_ins : list (id * V);
  k_outs : list id;
  k_runs : list run24
}.

Definition matches (m : option (list V)) (i : ires) : bool :=
  match m, i with
  | Some a, IOk b => Vs_eqb a b
  | None, IErr => true
  | _, _ => false
  end.

(* the implementation follows today's code (incl. F19) *)
Definition agree24 (c : case24) : bool :=
  let m := eval_top false (k_graph c) (k_ins c) (k_outs c) in
  forallb (fun r => matches m (q_res r)) (k_runs c).

(* C24 oracle: every run returns the outputs of the inlined evaluation *)
Definition prop_ok24 (c : case24) : bool :=
  let m := eval_top true (k_graph c) (k_ins c) (k_outs c) in
  forallb (fun r => matches m (q_res r)) (k_runs c).

(* the known class F19: the inlined evaluation succeeds, today's Loop (zero iterations, scan
   outputs omitted) makes the executor fail with OutputMismatch, and that is what was observed *)
Definition f19_class (c : case24) : bool :=
  match eval_top true (k_graph c) (k_ins c) (k_outs c), eval_top false (k_graph c) (k_ins c) (k_outs c) with
  | Some _, None => forallb (fun r => match q_res r with IErr => true | _ => false end) (k_runs c)
  | _, _ => false
  end.

Definition show24 (c : case24) :=
  (eval_top true (k_graph c) (k_ins c) (k_outs c), eval_top false (k_graph c) (k_ins c) (k_outs c)).
