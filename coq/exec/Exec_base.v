(* Exec_base.v -- basic lemmas: functional maps, occurrence counting, the u8 reference count,
   and the buffer-level invariant of the heap executor with its primitive operations. *)
From RV Require Import Prelude.
From Planner Require Import Graph.
From Exec Require Import ExecModel.
From Coq Require Import Permutation.
Open Scope N_scope.

Lemma upd_same {A} (f : N -> A) k a : upd f k a k = a.
Proof. unfold upd. rewrite N.eqb_refl. reflexivity. Qed.
Lemma upd_other {A} (f : N -> A) k a x : x <> k -> upd f k a x = f x.
Proof. intros H. unfold upd. destruct (x =? k) eqn:E; [apply N.eqb_eq in E; congruence|reflexivity]. Qed.

Lemma mem_In x l : mem x l = true <-> In x l.
Proof.
  unfold mem. rewrite existsb_exists. split.
  - intros (y & Hy & E). apply N.eqb_eq in E. subst. exact Hy.
  - intros H. exists x. split; [exact H|apply N.eqb_refl].
Qed.

Lemma NoDup_app_one {A} (l : list A) b : NoDup l -> ~ In b l -> NoDup (l ++ [b]).
Proof.
  intros Hl Hb. induction l as [|x r IH]; cbn.
  - constructor; [intros []|constructor].
  - inversion Hl; subst. constructor.
    + intros Hin. apply in_app_or in Hin. destruct Hin as [Hin|[Hin|[]]]; [contradiction|].
      subst. apply Hb. left. reflexivity.
    + apply IH; [assumption|]. intros Hin. apply Hb. right. exact Hin.
Qed.

Lemma Forall2_impl {A B} (P Q : A -> B -> Prop) l l' :
  (forall a b, P a b -> Q a b) -> Forall2 P l l' -> Forall2 Q l l'.
Proof. intros H F. induction F; constructor; auto. Qed.

Lemma Forall2_len {A B} (P : A -> B -> Prop) l l' : Forall2 P l l' -> length l = length l'.
Proof. intros F. induction F; cbn; congruence. Qed.

(* ---------------------------------------------------------------- counting *)
Definition cnt (v : id) (l : list id) : nat := count_occ N.eq_dec l v.

Lemma cnt_app v a b : cnt v (a ++ b) = (cnt v a + cnt v b)%nat.
Proof. apply count_occ_app. Qed.
Lemma cnt_cons_eq v l : cnt v (v :: l) = Datatypes.S (cnt v l).
Proof. unfold cnt. apply count_occ_cons_eq. reflexivity. Qed.
Lemma cnt_cons_neq v w l : w <> v -> cnt v (w :: l) = cnt v l.
Proof. intros H. unfold cnt. apply count_occ_cons_neq. exact H. Qed.
Lemma cnt_pos_In v l : (0 < cnt v l)%nat <-> In v l.
Proof. unfold cnt. symmetry. apply count_occ_In. Qed.
Lemma cnt_filter_true (f : id -> bool) v l : f v = true -> cnt v (filter f l) = cnt v l.
Proof.
  intros Hf. induction l as [|w r IH]; [reflexivity|]. cbn [filter].
  destruct (N.eq_dec w v) as [->|Hn].
  - rewrite Hf, !cnt_cons_eq, IH. reflexivity.
  - destruct (f w); [rewrite !cnt_cons_neq by exact Hn; exact IH|rewrite cnt_cons_neq by exact Hn; exact IH].
Qed.

(* ---------------------------------------------------------------- reference counts *)
(* the count after [k] increments from 0 *)
Definition sat (k : nat) : N := if (N.of_nat k <? 255) then N.of_nat k else 255.

Lemma rc_inc_sat k : rc_inc (sat k) = sat (Datatypes.S k).
Proof.
  unfold rc_inc, sat. rewrite Nat2N.inj_succ.
  destruct (N.of_nat k <? 255) eqn:E.
  - rewrite E. apply N.ltb_lt in E.
    destruct (N.succ (N.of_nat k) <? 255) eqn:E2.
    + lia.
    + apply N.ltb_ge in E2. lia.
  - assert (H255 : (255 <? 255) = false) by reflexivity. rewrite H255.
    apply N.ltb_ge in E.
    destruct (N.succ (N.of_nat k) <? 255) eqn:E2; [apply N.ltb_lt in E2; lia|reflexivity].
Qed.

Lemma inc_all_cnt l : forall (base : id -> nat) rc,
  (forall w, rc w = sat (base w)) ->
  forall v, inc_all rc l v = sat (base v + cnt v l).
Proof.
  induction l as [|x r IH]; intros base rc Hrc v.
  - cbn. rewrite Nat.add_0_r. apply Hrc.
  - cbn [inc_all fold_left].
    change (fold_left (fun rc0 v0 => upd rc0 v0 (rc_inc (rc0 v0))) r (upd rc x (rc_inc (rc x))) v)
      with (inc_all (upd rc x (rc_inc (rc x))) r v).
    rewrite (IH (fun w => if N.eq_dec w x then Datatypes.S (base w) else base w)).
    + destruct (N.eq_dec v x) as [->|Hn].
      * rewrite cnt_cons_eq. f_equal. lia.
      * rewrite cnt_cons_neq by congruence. reflexivity.
    + intros w. destruct (N.eq_dec w x) as [->|Hn].
      * rewrite upd_same, Hrc. apply rc_inc_sat.
      * rewrite upd_other by exact Hn. apply Hrc.
Qed.

Lemma sat_cases k : sat k = 255 \/ (sat k = N.of_nat k /\ N.of_nat k < 255).
Proof. unfold sat. destruct (N.of_nat k <? 255) eqn:E; [right; split; [reflexivity|apply N.ltb_lt; exact E]|left; reflexivity]. Qed.

(* the refcount relation kept by the executor: sticky at 255, otherwise exact *)
Definition rc_rel (r : N) (k : nat) : Prop := r = 255 \/ r = N.of_nat k.

Lemma rc_rel_sat k : rc_rel (sat k) k.
Proof. destruct (sat_cases k) as [H|[H _]]; [left|right]; exact H. Qed.

Lemma rc_dec_rel r k : rc_rel r (Datatypes.S k) ->
  rc_rel (fst (rc_dec r)) k /\ (snd (rc_dec r) = Some 0 -> k = O /\ r <> 255).
Proof.
  intros [H|H]; unfold rc_dec.
  - subst. cbn. split; [left; reflexivity|discriminate].
  - destruct (r =? 255) eqn:E1.
    + cbn. apply N.eqb_eq in E1. split; [left; exact E1|discriminate].
    + destruct (r =? 0) eqn:E0; [apply N.eqb_eq in E0; lia|].
      cbn. apply N.eqb_neq in E1. split.
      * right. lia.
      * intros Hs. injection Hs as Hs. split; [lia|exact E1].
Qed.

Lemma rc_one r k : rc_rel r k -> r = 1 -> k = 1%nat.
Proof. intros [H|H] E; subst; [discriminate|]. lia. Qed.

(* ---------------------------------------------------------------- buffer invariant *)
Section Buffers.
  Variable g : graph.
  Variable ext : id -> option bid.
  Variable xv : id -> option V.

  Local Notation is_value := (is_value g).

  (* [val]: the value every node id denotes (naive evaluation so far); [L]: buffers currently
     held by the running operator (taken from temp_values / freshly allocated), owned by nobody
     else *)
  Record binv (val : id -> option V) (L : list bid) (s : st) : Prop := {
    b_caps : forall v, caps s v = None;
    b_ext : forall v b, ext v = Some b -> b < next s /\ exists x, heap s b = Some x /\ xv v = Some x;
    b_temp : forall v b, temp s v = Some b ->
               b < next s /\ (forall w, ext w <> Some b) /\ ~ In b (pool s) /\ ~ In b L /\
               is_value v = true /\ exists x, heap s b = Some x /\ val v = Some x;
    b_inj : forall v w b, temp s v = Some b -> temp s w = Some b -> v = w;
    b_pool_nodup : NoDup (pool s);
    b_pool : forall b, In b (pool s) -> b < next s /\ (forall w, ext w <> Some b) /\ ~ In b L;
    b_limbo_nodup : NoDup L;
    b_limbo : forall b, In b L -> b < next s /\ (forall w, ext w <> Some b)
  }.

  Lemma binv_val_ext val val' L s : (forall v, val v = val' v) -> binv val L s -> binv val' L s.
  Proof.
    intros E [H1 H2 H3 H4 H5 H6 H7 H8]. constructor; auto.
    intros v b Hv. destruct (H3 v b Hv) as (A & B & C & D & F & x & Hx & Hval).
    repeat split; auto. exists x. split; [exact Hx|rewrite <- E; exact Hval].
  Qed.

  Lemma binv_perm val L L' s : Permutation L L' -> binv val L s -> binv val L' s.
  Proof.
    intros P [H1 H2 H3 H4 H5 H6 H7 H8]. constructor; auto.
    - intros v b Hv. destruct (H3 v b Hv) as (A & B & C & D & F & G). repeat split; auto.
      intros Hin. apply D. eapply Permutation_in; [apply Permutation_sym; exact P|exact Hin].
    - intros b Hb. destruct (H6 b Hb) as (A & B & C). repeat split; auto.
      intros Hin. apply C. eapply Permutation_in; [apply Permutation_sym; exact P|exact Hin].
    - eapply Permutation_NoDup; eauto.
    - intros b Hb. apply H8. eapply Permutation_in; [apply Permutation_sym; exact P|exact Hb].
  Qed.

  (* removing a value from temp_values: its buffer is now held by the operator *)
  Lemma untemp_ok val L s v b :
    binv val L s -> temp s v = Some b ->
    binv val (b :: L) (set_temp s (upd (temp s) v None)).
  Proof.
    intros [H1 H2 H3 H4 H5 H6 H7 H8] Hv.
    destruct (H3 v b Hv) as (A & B & C & D & F & G).
    constructor; cbn [caps heap temp pool next set_temp]; auto.
    - intros w bw Hw. unfold upd in Hw. destruct (w =? v) eqn:E; [discriminate|].
      apply N.eqb_neq in E.
      destruct (H3 w bw Hw) as (A' & B' & C' & D' & F' & G'). repeat split; auto.
      intros [Hin|Hin]; [|exact (D' Hin)]. subst bw. apply E. eapply H4; eauto.
    - intros w1 w2 b' Hw1 Hw2. unfold upd in Hw1, Hw2.
      destruct (w1 =? v); [discriminate|]. destruct (w2 =? v); [discriminate|]. eapply H4; eauto.
    - intros b' Hb'. destruct (H6 b' Hb') as (A' & B' & C'). repeat split; auto.
      intros [Hin|Hin]; [|exact (C' Hin)]. subst b'. exact (C Hb').
    - constructor; assumption.
    - intros b' [Hb'|Hb']; [subst b'; split; assumption|apply H8; exact Hb'].
  Qed.

  Lemma release_ok val L s b : binv val (b :: L) s -> binv val L (release s b).
  Proof.
    intros [H1 H2 H3 H4 H5 H6 H7 H8].
    assert (HbL : ~ In b L) by (inversion H7; assumption).
    assert (HL : NoDup L) by (inversion H7; assumption).
    destruct (H8 b (or_introl eq_refl)) as (Hbn & Hbe).
    constructor; cbn [caps heap temp pool next release set_pool set_heap]; auto.
    - intros v b' Hv. destruct (H2 v b' Hv) as (A & x & Hx & Hxv). split; [exact A|].
      exists x. split; [|exact Hxv]. rewrite upd_other; [exact Hx|]. intros ->. exact (Hbe v Hv).
    - intros v b' Hv. destruct (H3 v b' Hv) as (A & B & C & D & F & x & Hx & Hval).
      assert (b' <> b) by (intros ->; apply D; left; reflexivity).
      repeat split; auto.
      + intros Hin. apply in_app_or in Hin. destruct Hin as [Hin|[Hin|[]]]; [exact (C Hin)|congruence].
      + intros Hin. apply D. right. exact Hin.
      + exists x. split; [rewrite upd_other by exact H; exact Hx|exact Hval].
    - apply NoDup_app_one; [exact H5|].
      intros Hin. destruct (H6 b Hin) as (_ & _ & C). apply C. left. reflexivity.
    - intros b' Hin. apply in_app_or in Hin. destruct Hin as [Hin|[Hin|[]]].
      + destruct (H6 b' Hin) as (A & B & C). repeat split; auto. intros HL'. apply C. right. exact HL'.
      + subst b'. repeat split; auto.
    - intros b' Hb'. apply H8. right. exact Hb'.
  Qed.

  Lemma drop_ok val L s b : binv val (b :: L) s -> binv val L (drop s b).
  Proof.
    intros [H1 H2 H3 H4 H5 H6 H7 H8].
    assert (HbL : ~ In b L) by (inversion H7; assumption).
    assert (HL : NoDup L) by (inversion H7; assumption).
    destruct (H8 b (or_introl eq_refl)) as (Hbn & Hbe).
    constructor; cbn [caps heap temp pool next drop set_heap]; auto.
    - intros v b' Hv. destruct (H2 v b' Hv) as (A & x & Hx & Hxv). split; [exact A|].
      exists x. split; [|exact Hxv]. rewrite upd_other; [exact Hx|]. intros ->. exact (Hbe v Hv).
    - intros v b' Hv. destruct (H3 v b' Hv) as (A & B & C & D & F & x & Hx & Hval).
      assert (b' <> b) by (intros ->; apply D; left; reflexivity).
      repeat split; auto.
      + intros Hin. apply D. right. exact Hin.
      + exists x. split; [rewrite upd_other by exact H; exact Hx|exact Hval].
    - intros b' Hin. destruct (H6 b' Hin) as (A & B & C). repeat split; auto.
      intros HL'. apply C. right. exact HL'.
    - intros b' Hb'. apply H8. right. exact Hb'.
  Qed.

  (* writing into a buffer the operator holds *)
  Lemma write_ok val L s b x : binv val L s -> In b L ->
    binv val L (set_heap s (upd (heap s) b (Some x))).
  Proof.
    intros [H1 H2 H3 H4 H5 H6 H7 H8] Hb.
    destruct (H8 b Hb) as (Hbn & Hbe).
    constructor; cbn [caps heap temp pool next set_heap]; auto.
    - intros v b' Hv. destruct (H2 v b' Hv) as (A & x' & Hx & Hxv). split; [exact A|].
      exists x'. split; [|exact Hxv]. rewrite upd_other; [exact Hx|]. intros ->. exact (Hbe v Hv).
    - intros v b' Hv. destruct (H3 v b' Hv) as (A & B & C & D & F & x' & Hx & Hval).
      assert (b' <> b) by (intros ->; exact (D Hb)).
      repeat split; auto. exists x'. split; [rewrite upd_other by exact H; exact Hx|exact Hval].
  Qed.

  Lemma In_remove1 b x l : In x (remove1 b l) -> In x l.
  Proof.
    induction l as [|z r IH]; cbn; [tauto|]. destruct (z =? b); [tauto|].
    cbn. intros [H|H]; [left; exact H|right; apply IH; exact H].
  Qed.
  Lemma NoDup_remove1 b l : NoDup l -> NoDup (remove1 b l) /\ ~ In b (remove1 b l).
  Proof.
    induction l as [|z r IH]; cbn; intros Hnd.
    - split; [constructor|tauto].
    - inversion Hnd; subst. destruct (z =? b) eqn:E.
      + apply N.eqb_eq in E. subst. split; assumption.
      + apply N.eqb_neq in E. destruct (IH H2) as (A & B). split.
        * constructor; [|exact A]. intros Hin. apply H1. eapply In_remove1; eauto.
        * intros [Hin|Hin]; [congruence|exact (B Hin)].
  Qed.

  (* pool.alloc: a recycled or a fresh buffer, now held by the operator *)
  Lemma alloc_ok (y : strategy) val L s x s' b :
    binv val L s -> alloc y s x = (s', b) ->
    binv val (b :: L) s' /\ heap s' b = Some x /\ (forall b', b' <> b -> heap s' b' = heap s b') /\
    temp s' = temp s /\ rcs s' = rcs s /\ trace s' = trace s /\ ~ In b L.
  Proof.
    intros Hinv Ha. pose proof Hinv as [H1 H2 H3 H4 H5 H6 H7 H8].
    unfold alloc in Ha.
    assert (Fresh : forall s1 b1,
               (set_next (set_heap s (upd (heap s) (next s) (Some x))) (next s + 1), next s) = (s1, b1) ->
               binv val (b1 :: L) s1 /\ heap s1 b1 = Some x /\ (forall b', b' <> b1 -> heap s1 b' = heap s b') /\
               temp s1 = temp s /\ rcs s1 = rcs s /\ trace s1 = trace s /\ ~ In b1 L).
    { intros s1 b1 E. injection E as <- <-.
      cbn [caps heap temp pool next set_next set_heap rcs trace].
      assert (HnL : ~ In (next s) L) by (intros Hin; destruct (H8 _ Hin); lia).
      split; [|split; [apply upd_same|split; [intros; apply upd_other; assumption|auto]]].
      constructor; cbn [caps heap temp pool next set_next set_heap]; auto.
      - intros v b' Hv. destruct (H2 v b' Hv) as (A & x' & Hx & Hxv). split; [lia|].
        exists x'. split; [|exact Hxv]. rewrite upd_other; [exact Hx|lia].
      - intros v b' Hv. destruct (H3 v b' Hv) as (A & B & C & D & F & x' & Hx & Hval).
        repeat split; auto; try lia.
        + intros [Hin|Hin]; [lia|exact (D Hin)].
        + exists x'. split; [rewrite upd_other by lia; exact Hx|exact Hval].
      - intros b' Hin. destruct (H6 b' Hin) as (A & B & C). repeat split; auto; try lia.
        intros [Hin'|Hin']; [lia|exact (C Hin')].
      - constructor; assumption.
      - intros b' [Hb'|Hb'].
        + subst b'. split; [lia|]. intros w Hw. destruct (H2 w _ Hw). lia.
        + destruct (H8 b' Hb'). split; [lia|assumption]. }
    destruct (y_choose y (pool s)) as [b0|]; [|apply Fresh; exact Ha].
    destruct (mem b0 (pool s)) eqn:Em; [|apply Fresh; exact Ha].
    apply mem_In in Em. injection Ha as <- <-.
    cbn [caps heap temp pool next set_pool set_heap rcs trace].
    destruct (H6 b0 Em) as (Pn & Pe & PL).
    destruct (NoDup_remove1 b0 (pool s) H5) as (Hnd & Hnin).
    split; [|split; [apply upd_same|split; [intros; apply upd_other; assumption|auto]]].
    constructor; cbn [caps heap temp pool next set_pool set_heap]; auto.
    - intros v b' Hv. destruct (H2 v b' Hv) as (A & x' & Hx & Hxv). split; [exact A|].
      exists x'. split; [|exact Hxv]. rewrite upd_other; [exact Hx|]. intros ->. exact (Pe v Hv).
    - intros v b' Hv. destruct (H3 v b' Hv) as (A & B & C & D & F & x' & Hx & Hval).
      assert (b' <> b0) by (intros ->; exact (C Em)).
      repeat split; auto.
      + intros Hin. apply C. eapply In_remove1; eauto.
      + intros [Hin|Hin]; [congruence|exact (D Hin)].
      + exists x'. split; [rewrite upd_other by exact H; exact Hx|exact Hval].
    - intros b' Hin. assert (Hin' := In_remove1 _ _ _ Hin).
      destruct (H6 b' Hin') as (A & B & C). repeat split; auto.
      intros [E|HL']; [subst b'; exact (Hnin Hin)|exact (C HL')].
    - constructor; assumption.
    - intros b' [Hb'|Hb']; [subst b'; split; assumption|apply H8; exact Hb'].
  Qed.

  (* temp_values.insert(v, value in buffer b) *)
  Lemma bind_ok val L s v b x :
    binv val (b :: L) s -> heap s b = Some x -> is_value v = true ->
    binv (upd val v (Some x)) L (bind s v b) /\
    (forall b', In b' L -> heap (bind s v b) b' = heap s b') /\
    rcs (bind s v b) = rcs s /\ trace (bind s v b) = trace s /\
    temp (bind s v b) = upd (temp s) v (Some b).
  Proof.
    intros Hinv Hx Hval. unfold bind.
    assert (HbL : ~ In b L) by (destruct Hinv as [_ _ _ _ _ _ H7 _]; inversion H7; assumption).
    (* after dropping an older value *)
    set (s1 := match temp s v with Some old => drop s old | None => s end).
    assert (Hs1 : binv val (b :: L) (set_temp s1 (upd (temp s1) v None)) /\ heap s1 b = Some x /\
                  (forall b', In b' L -> heap s1 b' = heap s b') /\ rcs s1 = rcs s /\ trace s1 = trace s
                  /\ temp s1 = temp s).
    { unfold s1. destruct (temp s v) as [old|] eqn:Eo.
      - pose proof (untemp_ok _ _ _ _ _ Hinv Eo) as H1.
        pose proof H1 as H1'.
        assert (Hob : old <> b /\ ~ In old L).
        { destruct Hinv as [_ _ H3 _ _ _ _ _]. destruct (H3 v old Eo) as (_ & _ & _ & D & _).
          split; [intros ->; apply D; left; reflexivity|intros Hin; apply D; right; exact Hin]. }
        split; [|split; [|split; [|auto]]].
        + pose proof (drop_ok _ _ _ _ H1') as H2. exact H2.
        + cbn. rewrite upd_other; [exact Hx|]. intros E. apply (proj1 Hob). symmetry. exact E.
        + intros b' Hb'. cbn. apply upd_other. intros ->. exact (proj2 Hob Hb').
      - split; [|auto].
        destruct Hinv as [H1 H2 H3 H4 H5 H6 H7 H8].
        constructor; cbn [caps heap temp pool next set_temp]; auto.
        + intros w bw Hw. unfold upd in Hw. destruct (w =? v); [discriminate|]. apply H3. exact Hw.
        + intros w1 w2 b' Hw1 Hw2. unfold upd in Hw1, Hw2.
          destruct (w1 =? v); [discriminate|]. destruct (w2 =? v); [discriminate|]. eapply H4; eauto. }
    destruct Hs1 as (Hinv1 & Hx1 & Hh1 & Hr1 & Ht1 & Htemp1).
    cbn [heap rcs trace temp set_temp].
    split; [|split; [exact Hh1|split; [exact Hr1|split; [exact Ht1|rewrite Htemp1; reflexivity]]]].
    destruct Hinv1 as [H1 H2 H3 H4 H5 H6 H7 H8].
    cbn [caps heap temp pool next set_temp] in *.
    assert (HL : NoDup L) by (inversion H7; assumption).
    destruct (H8 b (or_introl eq_refl)) as (Hbn & Hbe).
    constructor; cbn [caps heap temp pool next set_temp]; auto.
    - intros w bw Hw. unfold upd in Hw. destruct (w =? v) eqn:E.
      + injection Hw as <-. apply N.eqb_eq in E. subst w. repeat split; auto.
        * intros Hin. destruct (H6 b Hin) as (_ & _ & C). apply C. left. reflexivity.
        * exists x. split; [exact Hx1|apply upd_same].
      + assert (Hw' : upd (temp s1) v None w = Some bw) by (unfold upd; rewrite E; exact Hw).
        destruct (H3 w bw Hw') as (A & B & C & D & F & x' & Hx' & Hv').
        repeat split; auto.
        * intros Hin. apply D. right. exact Hin.
        * exists x'. split; [exact Hx'|]. apply N.eqb_neq in E. rewrite upd_other by exact E. exact Hv'.
    - intros w1 w2 b' Hw1 Hw2. unfold upd in Hw1, Hw2.
      destruct (w1 =? v) eqn:E1; destruct (w2 =? v) eqn:E2.
      + apply N.eqb_eq in E1, E2. congruence.
      + injection Hw1 as <-. exfalso.
        assert (Hw' : upd (temp s1) v None w2 = Some b) by (unfold upd; rewrite E2; exact Hw2).
        destruct (H3 w2 b Hw') as (_ & _ & _ & D & _). apply D. left. reflexivity.
      + injection Hw2 as <-. exfalso.
        assert (Hw' : upd (temp s1) v None w1 = Some b) by (unfold upd; rewrite E1; exact Hw1).
        destruct (H3 w1 b Hw') as (_ & _ & _ & D & _). apply D. left. reflexivity.
      + apply (H4 w1 w2 b'); unfold upd; [rewrite E1|rewrite E2]; assumption.
    - intros b' Hin. destruct (H6 b' Hin) as (A & B & C). repeat split; auto.
      intros HL'. apply C. right. exact HL'.
    - intros b' Hb'. apply H8. right. exact Hb'.
  Qed.
End Buffers.
