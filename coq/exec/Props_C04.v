(* Props_C04.v -- C04 "Partial evaluation composes with full evaluation": statements only. *)
From RV Require Import Prelude.
From Planner Require Import Graph.
From Exec Require Import ExecModel Exec_base Exec_order Exec_partial ModelTestOps PartialModel.
Open Scope N_scope.

(* Planner::prune_plan never keeps an operator whose is_deterministic() is false: such an
   operator is never run by partial_run, hence never folded by constant propagation *)
Theorem C04_nondeterministic_never_partial :
  forall g det plan ins outs o, In o (fst (prune_plan g det plan ins outs)) -> det o = true.
Proof. exact prune_plan_deterministic. Qed.

(* run((I \ I0) + partial_run(I0, O), O) = run(I, O), on the level of the naive evaluation (to
   which Graph::run is tied by C02): whenever the partial evaluation of the pruned plan P on the
   subset xv0, the full evaluation on xvI and the completing evaluation on the leaves + remaining
   inputs all succeed, the last two return the same outputs.  The partial run may use a different
   operator semantics Sp (fresh random state) as long as it agrees with S on deterministic
   operators, and P contains deterministic operators only (previous theorem). *)
Theorem C04_partial_then_run :
  forall (g : graph) (S Sp : sem) (det : id -> bool),
    (forall o args, det o = true -> s_run Sp o args = s_run S o args) ->
    forall (xvI xv0 xvR : id -> option V),
      (forall v x, xv0 v = Some x -> xvI v = Some x) ->
      (forall v x, xvR v = Some x -> xvI v = Some x) ->
      forall (P L : list id) (lvals : list V) (planF plan2 O : list id),
        (forall o, In o P -> det o = true) ->
        single_producer g ((P ++ plan2) ++ planF) -> NoDup planF ->
        (forall o n v, In o (P ++ plan2) -> get_op g o = Some n -> In v (op_outs n) -> xvI v = None) ->
        forall rF r2,
          naive_eval g Sp xv0 P L = ROk lvals ->
          naive_eval g S xvI planF O = ROk rF ->
          naive_eval g S (xv2 xvR L lvals) plan2 O = ROk r2 ->
          r2 = rF.
Proof. exact partial_then_run. Qed.

(* the returned leaves are sufficient *)
Theorem C04_leaves_sufficient :
  forall g det plan ins outs pre o post n,
    plan = pre ++ o :: post -> get_op g o = Some n ->
    let st := prune_walk g det pre ins in
    negb (det o) || negb (forallb (rcontains g (p_res st)) (deps g n)) = true ->
    forall d, In d (deps g n) -> rcontains g (p_res st) d = true -> In d (p_cand st) ->
      In d (snd (prune_plan g det plan ins outs)).
Proof. exact prune_leaves_sufficient. Qed.

Theorem C04_outputs_returned :
  forall g det plan ins outs v,
    In v outs -> In v (p_cand (prune_walk g det plan ins)) -> In v (snd (prune_plan g det plan ins outs)).
Proof. exact prune_outputs_returned. Qed.

(* edge cases *)
Lemma C04_empty_plan :
  forall g det ins outs, prune_plan g det [] ins outs = ([], filter (fun v => mem v outs || mem v []) ins).
Proof. intros. reflexivity. Qed.

(* the oracle of the check *)
Theorem C04_prop_ok_reflect :
  forall c, prop_ok4 c = true ->
    forall u, In u (c4_subsets c) ->
      (forall o, In o (u_partial_ops u) -> det_of (c4_ops c) o = true) /\
      match c4_full c with
      | IOk a => exists b, u_final u = IOk b /\ sigs_eqb a b = true
      | IErr => True
      | _ => False
      end.
Proof.
  intros c H u Hu. unfold prop_ok4 in H. rewrite forallb_forall in H. specialize (H u Hu).
  apply andb_true_iff in H. destruct H as (H1 & H2). rewrite forallb_forall in H1. split; [exact H1|].
  destruct (c4_full c) as [a| | |]; try discriminate; [|exact I].
  destruct (u_leaves u); [|discriminate]. unfold ires_same in H2.
  destruct (u_final u) as [b| | |]; try discriminate. exists b. auto.
Qed.

(* non-vacuity: inputs 0,1; operator 2 (deterministic) folds input 0; operator 4 is
   non-deterministic; operator 6 needs input 1.  Given I0 = {0}: pruned plan [2], leaves [3];
   the completing evaluation on {1, 3} equals the full one *)
Definition ex4_graph : graph :=
  mk_graph [(0, Value); (1, Value);
            (2, Op (mkop [Some 0] [Some 3] [] false)); (3, Value);
            (4, Op (mkop [Some 3] [Some 5] [] false)); (5, Value);
            (6, Op (mkop [Some 5; Some 1] [Some 7] [] false)); (7, Value)] [].
Definition ex4_ops : list (id * opspec) :=
  [(2, {| o_nout := 1; o_ip := []; o_comm := false; o_mut := false; o_det := true; o_len := None; o_mod := None |});
   (4, {| o_nout := 1; o_ip := []; o_comm := false; o_mut := false; o_det := false; o_len := None; o_mod := None |});
   (6, {| o_nout := 1; o_ip := []; o_comm := false; o_mut := false; o_det := true; o_len := None; o_mod := None |})].

Example C04_nonvacuous :
  let det := det_of ex4_ops in
  let i0 := [{| i_id := 0; i_val := [5]%Z; i_owned := false |}] in
  let iR := [{| i_id := 1; i_val := [9]%Z; i_owned := false |}] in
  prune_plan ex4_graph det [2; 4; 6] [0] [7] = ([2], [3]) /\
  exists lv rF,
    naive_top ex4_graph (test_sem ex4_ops 1) [] i0 [2] [3] = ROk lv /\
    naive_top ex4_graph (test_sem ex4_ops 1000) [] (i0 ++ iR) [2; 4; 6] [7] = ROk rF /\
    naive_eval ex4_graph (test_sem ex4_ops 1000) (xv2 (top_xv ex4_graph [] iR) [3] lv) [4; 6] [7] = ROk rF.
Proof.
  cbv zeta. split; [vm_compute; reflexivity|].
  eexists. eexists. split; [vm_compute; reflexivity|]. split; vm_compute; reflexivity.
Qed.
