(* RealOpsModel.v -- C02, real-operator strategy family (harness/exec/src/bin/c02r.rs): the case
   record and its oracle.  The reference outputs are computed by a plain triple loop in the
   harness (integer-valued data, exact); here they are only compared.  Definitions only. *)
From RV Require Import Prelude.
From Planner Require Import Graph.
From Exec Require Import ExecModel ModelTestOps.
Open Scope N_scope.

Record rcase := {
  rr_ref : ires;                 (* naive reference: per output (length, checksum of shape and elements) *)
  rr_runs : list (N * ires)      (* strategy code (prepack + 2*optimize + 4*owned + 8*threads), result *)
}.

(* every strategy returned exactly the reference outputs *)
Definition prop_okR (c : rcase) : bool :=
  match rr_ref c with
  | IOk s => forallb (fun r => match snd r with IOk t => sigs_eqb t s | _ => false end) (rr_runs c)
  | _ => false
  end.

Definition showR (c : rcase) := (rr_ref c, rr_runs c).
