(* Exec_top.v -- corollaries of the simulation, and its instantiation for `Graph::run`
   (ModelTestOps.run_top): the initial state built from owned / borrowed inputs and constants
   satisfies the invariant; the test operators satisfy the run_in_place contract. *)
From RV Require Import Prelude.
From Planner Require Import Graph.
From Exec Require Import ExecModel Exec_base Exec_sim ModelTestOps.
Open Scope N_scope.

(* ---------------------------------------------------------------- generic corollaries *)
Section Corollaries.
  Variable g : graph.
  Variable S : sem.
  Variable xv : id -> option V.

  Lemma ngather_fail env es f : ngather xv env es = RFail f -> exists v, f = FMissing v.
  Proof.
    induction es as [|e r IH]; cbn [ngather]; [discriminate|].
    destruct e as [v|].
    - destruct (nlookup xv env v); [|intros E; injection E as <-; eauto].
      destruct (ngather xv env r); [discriminate|]. intros E. injection E as <-. apply IH. reflexivity.
    - destruct (ngather xv env r); [discriminate|]. intros E. injection E as <-. apply IH. reflexivity.
  Qed.

  Definition benign (f : fail) : Prop :=
    match f with FFreed _ | FTake _ => False | _ => True end.

  Lemma nstep_fail env o f : nstep g S xv env o = RFail f -> benign f.
  Proof.
    unfold nstep. destruct (get_op g o) as [n|]; [|intros E; injection E as <-; exact I].
    destruct (ngather xv env (all_args g n)) eqn:Eg.
    - destruct (s_run S o a); [|intros E; injection E as <-; exact I].
      destruct (_ <? _)%nat; [intros E; injection E as <-; exact I|discriminate].
    - intros E. injection E as <-. destruct (ngather_fail _ _ _ Eg) as (v & ->). exact I.
  Qed.

  Lemma nsteps_fail plan : forall env f, nsteps g S xv env plan = RFail f -> benign f.
  Proof.
    induction plan as [|o r IH]; intros env f; cbn [nsteps]; [discriminate|].
    destruct (nstep g S xv env o) eqn:E1; [apply IH|].
    intros E. injection E as <-. eapply nstep_fail; eauto.
  Qed.

  Lemma nextract_fail env os : forall f, nextract xv env os = RFail f -> benign f.
  Proof.
    induction os as [|v r IH]; intros f; cbn [nextract]; [discriminate|].
    destruct (nlookup xv env v); [|intros E; injection E as <-; exact I].
    destruct (nextract xv env r); [discriminate|]. intros E. injection E as <-. apply IH. reflexivity.
  Qed.

  (* the naive evaluation never fails with "read of a released buffer" or the
     expect("input is available") panic: those outcomes only exist in the heap executor *)
  Lemma naive_benign plan outs f : naive_eval g S xv plan outs = RFail f -> benign f.
  Proof.
    unfold naive_eval. destruct (ops_exist g plan); [|intros E; injection E as <-; exact I].
    destruct (nsteps g S xv (fun _ => None) plan) eqn:E1.
    - apply nextract_fail.
    - intros E. injection E as <-. eapply nsteps_fail; eauto.
  Qed.
End Corollaries.

Section Safety.
  Variable g : graph.
  Variable S : sem.
  Variable y : strategy.
  Variable ext : id -> option bid.
  Variable is_in : id -> bool.
  Variable xv : id -> option V.
  Variable outs : list id.
  Hypothesis H_ip : forall o ps args, s_run_ip S o (pick_vals ps args) (blank ps args) = s_run S o args.
  Hypothesis H_ipi : forall o, NoDup (s_ip S o).
  Hypothesis H_in_xv : forall v, is_in v = true -> xv v <> None.

  Variable s0 : st.
  Variable plan : list id.
  Hypothesis H_init : binv g ext xv (val xv (fun _ => None)) [] s0.
  Hypothesis H_avail : forall v, xv v <> None -> locate ext s0 v <> None.
  Hypothesis H_outs : NoDup outs.
  Hypothesis H_wf : plan_wf g is_in xv plan.

  (* no read of a freed / moved buffer, no failed take *)
  Theorem exec_no_use_after_free :
    forall f, fst (exec_from g S y ext is_in s0 plan outs) = RFail f -> benign f.
  Proof.
    intros f. rewrite (exec_refines_naive g S y ext is_in xv outs H_ip H_ipi H_in_xv plan s0 H_init H_avail H_outs H_wf).
    apply naive_benign.
  Qed.

  (* the buffers behind constants and borrowed inputs hold their original contents in every
     state the executor passes through *)
  Theorem ext_buffers_never_written :
    forall p1 p2 s', plan = p1 ++ p2 ->
      steps g S y ext is_in (set_rcs s0 (init_rc g plan outs)) p1 = ROk s' ->
      forall v b, ext v = Some b -> heap s' b = heap s0 b.
  Proof.
    intros p1 p2 s' Hp Hs v b Hv.
    set (s := set_rcs s0 (init_rc g plan outs)) in *.
    assert (B : binv g ext xv (val xv (fun _ => None)) [] s) by (apply binv_set_rcs; exact H_init).
    assert (C : cinv g ext xv outs (fun _ => None) (p1 ++ p2) s).
    { rewrite <- Hp. constructor.
      - intros w Hw. unfold s, init_rc. cbn [rcs set_rcs].
        rewrite (inc_all_cnt outs (fun w => cnt w (plan_deps g plan))).
        + unfold uses. rewrite <- (cnt_plan_deps g w plan Hw). apply rc_rel_sat.
        + intros w'. rewrite (inc_all_cnt (plan_deps g plan) (fun _ => O)); [reflexivity|intros; reflexivity].
      - intros w Hw _. unfold locate in *. cbn [temp caps set_rcs]. apply H_avail.
        unfold val, nlookup in Hw. destruct (xv w); congruence. }
    assert (Hwf1 : plan_wf g is_in xv p1).
    { intros o n Hin. apply H_wf. rewrite Hp. apply in_or_app. left. exact Hin. }
    pose proof (steps_sim g S y ext is_in xv outs H_ip H_ipi H_in_xv p2 p1 _ s B C Hwf1) as H.
    destruct (nsteps g S xv (fun _ => None) p1) as [env|f].
    - destruct H as (s1 & E & B1 & _). rewrite E in Hs. injection Hs as <-.
      destruct (b_ext _ _ _ _ _ _ B1 v b Hv) as (_ & x & Hx & Hxv).
      destruct (b_ext _ _ _ _ _ _ H_init v b Hv) as (_ & x0 & Hx0 & Hxv0). congruence.
    - rewrite H in Hs. discriminate.
  Qed.
End Safety.

(* ---------------------------------------------------------------- the test operators *)
Lemma assocn_app {A} (a b : list (nat * A)) k :
  assocn (a ++ b) k = match assocn a k with Some x => Some x | None => assocn b k end.
Proof.
  induction a as [|(k', x) r IH]; cbn [app assocn]; [reflexivity|].
  destruct (k' =? k)%nat; [reflexivity|exact IH].
Qed.

Lemma assocn_pick args : forall ps k,
  assocn (pick_vals ps args) k =
  if memn k ps then match nth_error args k with Some (Some x) => Some x | _ => None end else None.
Proof.
  induction ps as [|p r IH]; intros k; [reflexivity|].
  unfold pick_vals in *. cbn [flat_map]. rewrite assocn_app, IH. unfold memn. cbn [existsb].
  destruct (Nat.eqb k p) eqn:E.
  - apply Nat.eqb_eq in E. subst p. cbn [orb].
    destruct (nth_error args k) as [[x|]|]; cbn [assocn].
    + rewrite Nat.eqb_refl. reflexivity.
    + destruct (existsb (Nat.eqb k) r); reflexivity.
    + destruct (existsb (Nat.eqb k) r); reflexivity.
  - cbn [orb]. destruct (nth_error args p) as [[x|]|]; cbn [assocn]; try reflexivity.
    rewrite Nat.eqb_sym, E. reflexivity.
Qed.

Lemma fill_blank_pick ps args : fill_from (pick_vals ps args) 0 (blank ps args) = args.
Proof.
  unfold blank.
  assert (G : forall r p, (forall q, nth_error r q = nth_error args (p + q)) ->
                fill_from (pick_vals ps args) p (blank_from ps p r) = r).
  { induction r as [|a r IH]; intros p H; [reflexivity|].
    cbn [blank_from fill_from]. rewrite assocn_pick. f_equal.
    - specialize (H O). rewrite Nat.add_0_r in H. cbn in H. rewrite <- H.
      destruct (memn p ps); [destruct a; reflexivity|reflexivity].
    - apply IH. intros q. specialize (H (Datatypes.S q)). cbn in H. rewrite H. f_equal. lia. }
  apply G. intros q. reflexivity.
Qed.

Lemma test_sem_contract ops nonce :
  (forall o ps args, s_run_ip (test_sem ops nonce) o (pick_vals ps args) (blank ps args)
                     = s_run (test_sem ops nonce) o args).
Proof.
  intros o ps args. cbn [test_sem s_run_ip s_run]. destruct (assoc ops o); [|reflexivity].
  rewrite fill_blank_pick. reflexivity.
Qed.

(* ---------------------------------------------------------------- Graph::run *)
Section Top.
  Variable g : graph.
  Variable S : sem.
  Variable consts : list (id * V).
  Hypothesis H_ip : forall o ps args, s_run_ip S o (pick_vals ps args) (blank ps args) = s_run S o args.
  Hypothesis H_ipi : forall o, NoDup (s_ip S o).

  Definition inputs_ok (ins : list input) : Prop := forall i, In i ins -> is_value g (i_id i) = true.
  (* operators of the plan write value nodes only *)
  Definition outputs_ok (plan : list id) : Prop :=
    forall o n v, In o plan -> get_op g o = Some n -> In v (op_outs n) -> is_value g v = true.

  Lemma find_input_In ins v i : find_input ins v = Some i -> In i ins /\ i_id i = v.
  Proof.
    induction ins as [|j r IH]; cbn; [discriminate|]. destruct (i_id j =? v) eqn:E.
    - intros H. injection H as <-. apply N.eqb_eq in E. auto.
    - intros H. destruct (IH H). auto.
  Qed.

  Lemma fold_max_ge l : forall a x, (x <= a \/ In x l) -> x <= fold_left N.max l a.
  Proof.
    induction l as [|z r IH]; intros a x H; cbn.
    - destruct H as [H|[]]. exact H.
    - apply IH. destruct H as [H|[H|H]]; [left; lia|left; subst; lia|right; exact H].
  Qed.

  Lemma is_value_not_const v : is_value g v = true -> is_constant g v = false.
  Proof. unfold is_value, is_constant. destruct (get_node g v) as [[]|]; congruence. Qed.

  Lemma is_const_node v : is_constant g v = true -> In v (map fst (g_nodes g)).
  Proof.
    unfold is_constant, get_node. intros H.
    assert (G : forall l, match assoc l v with Some Constant => true | _ => false end = true -> In v (map fst l)).
    { induction l as [|(k, a) r IH]; cbn; [discriminate|]. destruct (k =? v) eqn:E.
      - apply N.eqb_eq in E. auto.
      - intros H'. right. apply IH. exact H'. }
    apply G. exact H.
  Qed.

  Definition in_ids (ins : list input) : id -> bool :=
    fun v => match find_input ins v with Some _ => true | None => false end.

  Lemma top_init ins : inputs_ok ins ->
    binv g (top_ext g consts ins) (top_xv g consts ins) (val (top_xv g consts ins) (fun _ => None)) []
         (top_state g consts ins) /\
    (forall v, top_xv g consts ins v <> None -> locate (top_ext g consts ins) (top_state g consts ins) v <> None) /\
    (forall v, in_ids ins v = true -> top_xv g consts ins v <> None).
  Proof.
    intros Hin.
    assert (Hid : forall v i, find_input ins v = Some i -> is_constant g v = false /\ v <= max_id g ins).
    { intros v i Hf. destruct (find_input_In _ _ _ Hf) as (Hi & <-). split.
      - apply is_value_not_const. apply Hin. exact Hi.
      - unfold max_id. apply fold_max_ge. right. apply in_or_app. right.
        apply in_map_iff. exists i. auto. }
    assert (Hheap_i : forall v i, find_input ins v = Some i -> top_heap consts ins (ibuf v) = Some (i_val i)).
    { intros v i Hf. unfold top_heap, ibuf.
      assert (E1 : N.even (2 * v + 1) = false).
      { replace (2 * v + 1) with (1 + 2 * v) by lia. rewrite N.even_add_mul_2. reflexivity. }
      assert (E2 : (2 * v + 1) / 2 = v).
      { symmetry. apply (N.div_unique (2 * v + 1) 2 v 1); lia. }
      rewrite E1, E2, Hf. reflexivity. }
    assert (Hheap_c : forall c, top_heap consts ins (cbuf c) = assoc consts c).
    { intros c. unfold top_heap, cbuf.
      assert (E1 : N.even (2 * c) = true).
      { replace (2 * c) with (0 + 2 * c) by lia. rewrite N.even_add_mul_2. reflexivity. }
      assert (E2 : 2 * c / 2 = c).
      { symmetry. apply (N.div_unique (2 * c) 2 c 0); lia. }
      rewrite E1, E2. reflexivity. }
    split; [|split].
    - constructor; cbn [top_state caps heap temp pool next].
      + reflexivity.
      + intros v b. unfold top_ext, top_xv. destruct (is_constant g v) eqn:Ec.
        * destruct (assoc consts v) as [x|] eqn:Ea; [|discriminate]. intros E. injection E as <-. split.
          -- pose proof (is_const_node v Ec) as Hn. unfold cbuf, max_id.
             assert (v <= fold_left N.max (map fst (g_nodes g) ++ map i_id ins) 0).
             { apply fold_max_ge. right. apply in_or_app. left. exact Hn. } lia.
          -- exists x. rewrite Hheap_c. auto.
        * destruct (find_input ins v) as [i|] eqn:Ef; [|discriminate].
          destruct (i_owned i); [discriminate|]. intros E. injection E as <-.
          destruct (Hid v i Ef) as (_ & Hle). split; [unfold ibuf; lia|].
          exists (i_val i). rewrite (Hheap_i v i Ef). auto.
      + intros v b. destruct (find_input ins v) as [i|] eqn:Ef; [|discriminate].
        destruct (i_owned i) eqn:Eo; [|discriminate]. intros E. injection E as <-.
        destruct (Hid v i Ef) as (Hc & Hle).
        split; [unfold ibuf; lia|]. split; [|split; [tauto|split; [tauto|split]]].
        * intros w. unfold top_ext. destruct (is_constant g w).
          -- destruct (assoc consts w); [|discriminate]. unfold cbuf, ibuf. intros E. injection E as E. lia.
          -- destruct (find_input ins w) as [j|] eqn:Ej; [|discriminate].
             destruct (i_owned j) eqn:Eoj; [discriminate|]. unfold ibuf. intros E. injection E as E.
             assert (w = v) by lia. subst w. congruence.
        * destruct (find_input_In _ _ _ Ef) as (Hi & <-). apply Hin. exact Hi.
        * exists (i_val i). rewrite (Hheap_i v i Ef). split; [reflexivity|].
          unfold val, nlookup, top_xv. rewrite Hc, Ef. reflexivity.
      + intros v w b. destruct (find_input ins v) as [i|]; [|discriminate].
        destruct (i_owned i); [|discriminate]. intros E. injection E as <-.
        destruct (find_input ins w) as [j|]; [|discriminate].
        destruct (i_owned j); [|discriminate]. unfold ibuf. intros E. injection E as E. lia.
      + constructor.
      + intros b [].
      + constructor.
      + intros b [].
    - intros v. unfold top_xv, locate, top_ext. cbn [top_state temp caps].
      destruct (is_constant g v).
      + destruct (assoc consts v); [discriminate|congruence].
      + destruct (find_input ins v) as [i|]; [|congruence]. destruct (i_owned i); discriminate.
    - intros v. unfold in_ids, top_xv. destruct (find_input ins v) as [i|] eqn:Ef; [|discriminate].
      destruct (Hid v i Ef) as (Hc & _). rewrite Hc. discriminate.
  Qed.

  Lemma top_plan_wf ins plan : outputs_ok plan ->
    plan_wf g (in_ids ins) (top_xv g consts ins) plan.
  Proof.
    intros Ho o n Hin Hn v Hv. pose proof (Ho o n v Hin Hn Hv) as Hval. split; [exact Hval|].
    unfold in_ids, top_xv. rewrite (is_value_not_const v Hval).
    destruct (find_input ins v); [discriminate|reflexivity].
  Qed.

  Lemma run_top_unfold y ins plan outs :
    run_top g S y consts ins plan outs =
    exec_from g S y (top_ext g consts ins) (in_ids ins) (top_state g consts ins) plan outs.
  Proof. reflexivity. Qed.

  (* Graph::run returns the outputs of the naive evaluation: every strategy, every way of
     passing the inputs *)
  Theorem run_top_refines_naive y ins plan outs :
    inputs_ok ins -> outputs_ok plan -> NoDup outs ->
    fst (run_top g S y consts ins plan outs) = naive_top g S consts ins plan outs.
  Proof.
    intros Hi Ho Hnd. rewrite run_top_unfold. unfold naive_top.
    destruct (top_init ins Hi) as (B & Hav & Hx).
    apply (exec_refines_naive g S y (top_ext g consts ins) (in_ids ins) (top_xv g consts ins) outs
             H_ip H_ipi Hx plan _ B Hav Hnd (top_plan_wf ins plan Ho)).
  Qed.

  (* the naive evaluation does not depend on how inputs are passed *)
  Definition same_inputs (a b : list input) : Prop :=
    map (fun i => (i_id i, i_val i)) a = map (fun i => (i_id i, i_val i)) b.

  Lemma find_input_same a : forall b v, same_inputs a b ->
    option_map i_val (find_input a v) = option_map i_val (find_input b v).
  Proof.
    unfold same_inputs. induction a as [|i r IH]; intros [|j r'] v H; cbn in H; try discriminate; [reflexivity|].
    injection H as H1 H2 H3. cbn [find_input]. rewrite H1.
    destruct (i_id j =? v); [cbn; congruence|apply IH; exact H3].
  Qed.

  Lemma naive_top_same a b plan outs : same_inputs a b ->
    naive_top g S consts a plan outs = naive_top g S consts b plan outs.
  Proof.
    intros H. unfold naive_top.
    assert (E : forall v, top_xv g consts a v = top_xv g consts b v).
    { intros v. unfold top_xv. destruct (is_constant g v); [reflexivity|].
      pose proof (find_input_same a b v H) as F.
      destruct (find_input a v), (find_input b v); cbn in F; congruence. }
    (* naive_eval only uses xv through nlookup *)
    unfold naive_eval. destruct (ops_exist g plan); [|reflexivity].
    assert (NG : forall env es, ngather (top_xv g consts a) env es = ngather (top_xv g consts b) env es).
    { intros env es. induction es as [|e r IH]; [reflexivity|].
      destruct e as [v|]; cbn [ngather]; [unfold nlookup; rewrite E, IH|rewrite IH]; reflexivity. }
    assert (NS : forall p env, nsteps g S (top_xv g consts a) env p = nsteps g S (top_xv g consts b) env p).
    { induction p as [|o r IH]; intros env; [reflexivity|]. cbn [nsteps]. unfold nstep.
      destruct (get_op g o) as [n|]; [|reflexivity]. rewrite NG.
      destruct (ngather _ env _); [|reflexivity].
      destruct (s_run S o a0); [|reflexivity]. destruct (_ <? _)%nat; [reflexivity|apply IH]. }
    rewrite NS. destruct (nsteps g S (top_xv g consts b) (fun _ => None) plan); [|reflexivity].
    induction outs as [|v r IH]; [reflexivity|]. cbn [nextract]. unfold nlookup. rewrite E, IH. reflexivity.
  Qed.

  Lemma same_inputs_ok a b : same_inputs a b -> inputs_ok a -> inputs_ok b.
  Proof.
    unfold same_inputs, inputs_ok. revert b. induction a as [|i r IH]; intros [|j r'] H Ha k Hk; cbn in H; try discriminate.
    - destruct Hk.
    - injection H as H1 H2 H3. destruct Hk as [<-|Hk].
      + rewrite <- H1. apply Ha. left. reflexivity.
      + apply (IH r' H3); [intros z Hz; apply Ha; right; exact Hz|exact Hk].
  Qed.

  (* C02: two runs that differ in strategy (pool, in-place policy, operand choice, buffer
     recycling) and in how each input is passed (owned / borrowed) return the same result *)
  Theorem strategy_irrelevant y1 y2 ins1 ins2 plan outs :
    same_inputs ins1 ins2 -> inputs_ok ins1 -> outputs_ok plan -> NoDup outs ->
    fst (run_top g S y1 consts ins1 plan outs) = fst (run_top g S y2 consts ins2 plan outs).
  Proof.
    intros Hs Hi Ho Hnd.
    rewrite (run_top_refines_naive y1 ins1 plan outs Hi Ho Hnd).
    rewrite (run_top_refines_naive y2 ins2 plan outs (same_inputs_ok _ _ Hs Hi) Ho Hnd).
    apply naive_top_same. exact Hs.
  Qed.

  (* ------------------------------------------------------------ C25: the caller's buffers *)
  Definition run_state y ins plan outs : res st :=
    steps g S y (top_ext g consts ins) (in_ids ins)
          (set_rcs (top_state g consts ins) (init_rc g plan outs)) plan.

  Lemma top_heap_const c : top_heap consts ([] : list input) (cbuf c) = assoc consts c.
  Proof.
    unfold top_heap, cbuf.
    assert (E1 : N.even (2 * c) = true).
    { replace (2 * c) with (0 + 2 * c) by lia. rewrite N.even_add_mul_2. reflexivity. }
    assert (E2 : 2 * c / 2 = c) by (symmetry; apply (N.div_unique (2 * c) 2 c 0); lia).
    rewrite E1, E2. reflexivity.
  Qed.

  Theorem caller_buffers_never_written y ins plan outs p1 p2 s' :
    inputs_ok ins -> outputs_ok plan -> NoDup outs -> plan = p1 ++ p2 ->
    steps g S y (top_ext g consts ins) (in_ids ins)
          (set_rcs (top_state g consts ins) (init_rc g plan outs)) p1 = ROk s' ->
    (forall c x, is_constant g c = true -> assoc consts c = Some x -> heap s' (cbuf c) = Some x) /\
    (forall v i, find_input ins v = Some i -> i_owned i = false -> heap s' (ibuf v) = Some (i_val i)).
  Proof.
    intros Hi Ho Hnd Hp Hs.
    destruct (top_init ins Hi) as (B & Hav & Hx).
    pose proof (ext_buffers_never_written g S y (top_ext g consts ins) (in_ids ins) (top_xv g consts ins) outs
                  H_ip H_ipi Hx _ plan B Hav (top_plan_wf ins plan Ho) p1 p2 s' Hp Hs) as Hext.
    split.
    - intros c x Hc Ha.
      assert (E : top_ext g consts ins c = Some (cbuf c)) by (unfold top_ext; rewrite Hc, Ha; reflexivity).
      rewrite (Hext c _ E).
      destruct (b_ext _ _ _ _ _ _ B c _ E) as (_ & x' & Hh & Hxv).
      unfold top_xv in Hxv. rewrite Hc, Ha in Hxv. congruence.
    - intros v i Hf Hb.
      assert (Hc : is_constant g v = false).
      { destruct (find_input_In _ _ _ Hf) as (Hin & <-). apply is_value_not_const. apply Hi. exact Hin. }
      assert (E : top_ext g consts ins v = Some (ibuf v)) by (unfold top_ext; rewrite Hc, Hf, Hb; reflexivity).
      rewrite (Hext v _ E).
      destruct (b_ext _ _ _ _ _ _ B v _ E) as (_ & x' & Hh & Hxv).
      unfold top_xv in Hxv. rewrite Hc, Hf in Hxv. congruence.
  Qed.
End Top.

(* a later run that re-reads the constants from the heap the earlier run left behind *)
Definition reread (consts : list (id * V)) (h : bid -> option V) : list (id * V) :=
  map (fun p => (fst p, match h (cbuf (fst p)) with Some x => x | None => snd p end)) consts.

Lemma reread_assoc consts h c :
  (forall x, assoc consts c = Some x -> h (cbuf c) = Some x) ->
  assoc (reread consts h) c = assoc consts c.
Proof.
  induction consts as [|(k, x) r IH]; intros H; [reflexivity|].
  cbn [reread map assoc fst snd] in *. destruct (k =? c) eqn:E.
  - apply N.eqb_eq in E. subst k. rewrite (H x eq_refl). reflexivity.
  - apply IH. exact H.
Qed.

Lemma naive_eval_xv_ext g S xv1 xv2 plan outs : (forall v, xv1 v = xv2 v) ->
  naive_eval g S xv1 plan outs = naive_eval g S xv2 plan outs.
Proof.
  intros E. unfold naive_eval. destruct (ops_exist g plan); [|reflexivity].
  assert (NG : forall env es, ngather xv1 env es = ngather xv2 env es).
  { intros env es. induction es as [|e r IH]; [reflexivity|].
    destruct e as [v|]; cbn [ngather]; [unfold nlookup; rewrite E, IH|rewrite IH]; reflexivity. }
  assert (NS : forall p env, nsteps g S xv1 env p = nsteps g S xv2 env p).
  { induction p as [|o r IH]; intros env; [reflexivity|]. cbn [nsteps]. unfold nstep.
    destruct (get_op g o) as [n|]; [|reflexivity]. rewrite NG.
    destruct (ngather _ env _); [|reflexivity].
    destruct (s_run S o a); [|reflexivity]. destruct (_ <? _)%nat; [reflexivity|apply IH]. }
  rewrite NS. destruct (nsteps g S xv2 (fun _ => None) plan); [|reflexivity].
  induction outs as [|v r IH]; [reflexivity|]. cbn [nextract]. unfold nlookup. rewrite E, IH. reflexivity.
Qed.

(* C25: a run cannot affect a later run.  The only state that survives a run is the content of
   the constants' buffers; a second run that reads the constants back from the heap left by a
   first (arbitrary) run returns what the naive evaluation over the ORIGINAL constants returns *)
Theorem runs_independent g S consts :
  (forall o ps args, s_run_ip S o (pick_vals ps args) (blank ps args) = s_run S o args) ->
  (forall o, NoDup (s_ip S o)) ->
  forall y1 ins1 plan1 outs1 s1 y2 ins2 plan2 outs2,
    inputs_ok g ins1 -> outputs_ok g plan1 -> NoDup outs1 ->
    run_state g S consts y1 ins1 plan1 outs1 = ROk s1 ->
    inputs_ok g ins2 -> outputs_ok g plan2 -> NoDup outs2 ->
    fst (run_top g S y2 (reread consts (heap s1)) ins2 plan2 outs2) = naive_top g S consts ins2 plan2 outs2.
Proof.
  intros H_ip H_ipi y1 ins1 plan1 outs1 s1 y2 ins2 plan2 outs2 Hi1 Ho1 Hn1 Hs1 Hi2 Ho2 Hn2.
  rewrite (run_top_refines_naive g S (reread consts (heap s1)) H_ip H_ipi y2 ins2 plan2 outs2 Hi2 Ho2 Hn2).
  unfold naive_top. apply naive_eval_xv_ext. intros v. unfold top_xv.
  destruct (is_constant g v) eqn:Ec; [|reflexivity].
  apply reread_assoc. intros x Hx.
  destruct (caller_buffers_never_written g S consts H_ip H_ipi y1 ins1 plan1 outs1 plan1 [] s1 Hi1 Ho1 Hn1
              (eq_sym (app_nil_r plan1)) Hs1) as (Hc & _).
  apply Hc; assumption.
Qed.

Lemma sigs_eqb_true_eq : forall a b, sigs_eqb a b = true -> a = b.
Proof.
  unfold sigs_eqb. induction a as [|x l IH]; intros [|z b] H; cbn in H; try discriminate; [reflexivity|].
  apply andb_true_iff in H. destruct H as (Hl & Hf). apply andb_true_iff in Hf. destruct Hf as (Hx & Hf).
  unfold sig_eqb in Hx. cbn in Hx. apply andb_true_iff in Hx. destruct Hx as (A & B).
  apply Nat.eqb_eq in A. apply Z.eqb_eq in B. destruct x, z. cbn in *. subst. f_equal.
  apply IH. rewrite Hl, Hf. reflexivity.
Qed.
