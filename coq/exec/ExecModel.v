(* ExecModel.v -- model of the executor `Graph::run_plan` (src/graph.rs) over a HEAP, and of the
   strategy-free reference evaluation `naive_eval`.

   Why a heap: the properties C02/C25/C24 are about aliasing -- which buffers the executor hands
   to `Operator::run_in_place`, when buffers go back to the pool, whether the caller's buffers
   (borrowed inputs, constants, captured parent values) can be written.  Values therefore live in
   buffers ([bid] |-> contents); `temp_values` maps node ids to the buffer they OWN; borrowed
   inputs / constants / by-reference captures are views of buffers owned by somebody else.
   Reading a released (or never allocated) buffer is a distinct outcome ([FFreed]); the panics of
   the Rust code (`expect("input is available")`, "Invalid plan did not produce input value",
   `expect("missing output value")`) are distinct outcomes as well.

   Graph type: `Planner.Graph` (b-planner's model of `Graph`): `deps g n` is
   `Graph::operator_dependencies`.

   What is policy (NOT constrained by the properties) is a parameter ([strategy]): whether the
   pool is used, which operators may run in place, which operand of a commutative operator is
   chosen, which recycled buffer an allocation receives.  [today] is the strategy of the current
   source.  Definitions only; proofs are in Exec_*.v. *)
From RV Require Import Prelude.
From Planner Require Import Graph.
Open Scope N_scope.

Definition V := list Z.          (* contents of a (flattened) tensor *)
Definition bid := N.             (* buffer id *)

Definition upd {A} (f : N -> A) (k : N) (a : A) : N -> A := fun x => if x =? k then a else f x.

Fixpoint assocn {A} (l : list (nat * A)) (k : nat) : option A :=
  match l with
  | [] => None
  | (k', a) :: r => if (k' =? k)%nat then Some a else assocn r k
  end.

Definition memn (x : nat) (l : list nat) : bool := existsb (Nat.eqb x) l.

(* ---------------------------------------------------------------- NodeRefCount (u8) *)
Definition rc_inc (r : N) : N := if r <? 255 then r + 1 else 255.
(* new count and the value `dec` returns *)
Definition rc_dec (r : N) : N * option N :=
  if r =? 255 then (r, Some 255) else if r =? 0 then (r, None) else (r - 1, Some (r - 1)).

(* ---------------------------------------------------------------- outcomes *)
Inductive fail :=
| FPlan                 (* PlanningError("operator node not found") *)
| FOp (o : id)          (* the operator returned an error *)
| FOutputs (o : id)     (* OutputMismatch: fewer outputs than the node declares *)
| FMissing (v : id)     (* panic "Invalid plan did not produce input value" *)
| FTake (v : id)        (* panic expect("input is available") *)
| FFreed (b : bid)      (* model only: read of a released / unallocated buffer *)
| FNoOutput (v : id).   (* panic expect("missing output value") *)

Inductive res (A : Type) := ROk (a : A) | RFail (f : fail).
Arguments ROk {A} a.
Arguments RFail {A} f.

(* ---------------------------------------------------------------- operators *)
Record sem := {
  s_run : id -> list (option V) -> option (list V);          (* Operator::run; None = Err *)
  s_run_ip : id -> list (nat * V) -> list (option V) -> option (list V);
                                                             (* Operator::run_in_place: owned
                                                                (position, value)s + the other
                                                                inputs with None at those positions *)
  s_ip : id -> list nat;                                     (* in_place_inputs(), ascending *)
  s_comm : id -> bool;                                       (* is_commutative() *)
  s_reuse : id -> V -> V -> bool;                            (* run_in_place writes output 0 into the
                                                                first owned buffer (old, new contents) *)
  s_sub : id -> bool                                         (* as_subgraph_op().is_some() *)
}.

Record strategy := {
  y_pool : bool;                                    (* RTEN_USE_POOL *)
  y_policy : id -> bool;                            (* may this operator be run in place at all *)
  y_pick : list (nat * id * N) -> option (nat * id);(* operand choice for commutative operators *)
  y_choose : list bid -> option bid                 (* which pooled buffer an allocation reuses *)
}.

(* max_by_key: the LAST element with the maximal key *)
Fixpoint max_last (l : list (nat * id * N)) (best : option (nat * id * N)) : option (nat * id * N) :=
  match l with
  | [] => best
  | (p, v, k) :: r =>
      match best with
      | Some (_, _, kb) => if kb <=? k then max_last r (Some (p, v, k)) else max_last r best
      | None => max_last r (Some (p, v, k))
      end
  end.
Definition pick_today (l : list (nat * id * N)) : option (nat * id) :=
  match max_last l None with Some (p, v, _) => Some (p, v) | None => None end.

Definition today (use_pool : bool) : strategy :=
  {| y_pool := use_pool; y_policy := fun _ => true; y_pick := pick_today;
     y_choose := fun p => match p with b :: _ => Some b | [] => None end |}.

(* ---------------------------------------------------------------- state *)
Record st := mkst {
  heap : bid -> option V;           (* None: released or never allocated *)
  temp : id -> option bid;          (* temp_values: node id -> the buffer it owns *)
  caps : id -> option (bid * bool); (* capture environment as seen from this graph: buffer of the
                                       captured value, and whether it is a by-value capture of the
                                       immediate environment (can_take_input) *)
  rcs : id -> N;                    (* temp_value_refcount *)
  pool : list bid;                  (* buffers in the BufferPool *)
  next : bid;                       (* allocator: next fresh buffer *)
  trace : list (id * list nat * bool)  (* ghost, reversed: operator, positions run in place,
                                          output 0 written into the first taken buffer *)
}.

Definition set_heap s h := mkst h (temp s) (caps s) (rcs s) (pool s) (next s) (trace s).
Definition set_temp s t := mkst (heap s) t (caps s) (rcs s) (pool s) (next s) (trace s).
Definition set_caps s c := mkst (heap s) (temp s) c (rcs s) (pool s) (next s) (trace s).
Definition set_rcs s r := mkst (heap s) (temp s) (caps s) r (pool s) (next s) (trace s).
Definition set_pool s p := mkst (heap s) (temp s) (caps s) (rcs s) p (next s) (trace s).
Definition set_next s n := mkst (heap s) (temp s) (caps s) (rcs s) (pool s) n (trace s).
Definition add_trace s e := mkst (heap s) (temp s) (caps s) (rcs s) (pool s) (next s) (e :: trace s).

Definition rd (s : st) (b : bid) : res V :=
  match heap s b with Some x => ROk x | None => RFail (FFreed b) end.

(* tensor.add_to_pool(pool) *)
Definition release (s : st) (b : bid) : st :=
  set_pool (set_heap s (upd (heap s) b None)) (pool s ++ [b]).
(* a value is dropped without going to the pool *)
Definition drop (s : st) (b : bid) : st := set_heap s (upd (heap s) b None).

Fixpoint remove1 (b : bid) (l : list bid) : list bid :=
  match l with [] => [] | x :: r => if x =? b then r else x :: remove1 b r end.

(* pool.alloc + fill *)
Definition alloc (y : strategy) (s : st) (x : V) : st * bid :=
  let fresh := (set_next (set_heap s (upd (heap s) (next s) (Some x))) (next s + 1), next s) in
  match y_choose y (pool s) with
  | Some b => if mem b (pool s)
              then (set_pool (set_heap s (upd (heap s) b (Some x))) (remove1 b (pool s)), b)
              else fresh
  | None => fresh
  end.

Section Exec.
  Variable g : graph.
  Variable S : sem.
  Variable y : strategy.
  (* read-only views: constants and borrowed inputs (get_value_from_constant_or_input) *)
  Variable ext : id -> option bid.
  (* the ids of the run inputs, however passed *)
  Variable is_in : id -> bool.

  Definition is_value (v : id) : bool :=
    match get_node g v with Some Value => true | _ => false end.

  Definition locate (s : st) (v : id) : option bid :=
    match ext v with
    | Some b => Some b
    | None => match temp s v with
              | Some b => Some b
              | None => match caps s v with Some (b, _) => Some b | None => None end
              end
    end.

  (* the condition inside `run_in_place = ... all(...)` *)
  Definition takeable (s : st) (v : id) : bool :=
    (rcs s v =? 1) &&
    match temp s v with
    | Some _ => true
    | None => mem v (g_captures g) && match caps s v with Some (_, true) => true | _ => false end
    end.

  (* the `take_value` closure *)
  Definition take (s : st) (v : id) : option (st * bid) :=
    if rcs s v =? 1 then
      match temp s v with
      | Some b => Some (set_temp s (upd (temp s) v None), b)
      | None => if mem v (g_captures g)
                then match caps s v with
                     | Some (b, true) => Some (set_caps s (upd (caps s) v None), b)
                     | _ => None
                     end
                else None
      end
    else None.

  Fixpoint enum_somes (l : list (option id)) (i : nat) : list (nat * id) :=
    match l with
    | [] => []
    | Some v :: r => (i, v) :: enum_somes r (Datatypes.S i)
    | None :: r => enum_somes r (Datatypes.S i)
    end.

  (* temp_values.get(id).map(|v| v.len()).unwrap_or(0) *)
  Definition tlen (s : st) (v : id) : N :=
    match temp s v with
    | Some b => match heap s b with Some x => N.of_nat (length x) | None => 0 end
    | None => 0
    end.

  Definition in_cands (c : nat * id) (l : list (nat * id)) : bool :=
    existsb (fun c' => (fst c =? fst c')%nat && (snd c =? snd c')) l.

  (* in_place_candidates *)
  Definition cands (s : st) (o : id) (n : op_node) : list (nat * id) :=
    match s_ip S o with
    | [] => []
    | ipi =>
        if s_comm S o then
          let ps := enum_somes (op_inputs n) 0 in
          match y_pick y (map (fun c => (fst c, snd c, tlen s (snd c))) ps) with
          | Some c => if in_cands c ps then [c] else []
          | None => []
          end
        else flat_map (fun pos => match nth_error (op_inputs n) pos with
                                  | Some (Some v) => [(pos, v)]
                                  | _ => []
                                  end) ipi
    end.

  Fixpoint take_all (s : st) (cs : list (nat * id)) : res (st * list (nat * bid)) :=
    match cs with
    | [] => ROk (s, [])
    | (p, v) :: r =>
        match take s v with
        | None => RFail (FTake v)
        | Some (s1, b) =>
            match take_all s1 r with
            | ROk (s2, l) => ROk (s2, (p, b) :: l)
            | RFail f => RFail f
            end
        end
    end.

  (* dependencies that are captures of the operator's subgraphs and not also inputs *)
  Definition cap_deps (n : op_node) : list id :=
    filter (fun c => node_exists g c && negb (mem c (somes (op_inputs n)))) (op_captures n).

  (* by_value_captures *)
  Fixpoint take_caps (s : st) (cs : list id) : st * list (id * bid) :=
    match cs with
    | [] => (s, [])
    | v :: r =>
        match take s v with
        | Some (s1, b) => let '(s2, l) := take_caps s1 r in (s2, (v, b) :: l)
        | None => take_caps s r
        end
    end.

  Definition arg_at (s : st) (taken : list (nat * bid)) (p : nat) (e : option id) : res (option V) :=
    match e with
    | None => ROk None
    | Some v =>
        match assocn taken p with
        | Some b => match rd s b with ROk x => ROk (Some x) | RFail f => RFail f end
        | None => match locate s v with
                  | Some b => match rd s b with ROk x => ROk (Some x) | RFail f => RFail f end
                  | None => RFail (FMissing v)
                  end
        end
    end.

  Fixpoint gather (s : st) (taken : list (nat * bid)) (p : nat) (es : list (option id))
    : res (list (option V)) :=
    match es with
    | [] => ROk []
    | e :: r =>
        match arg_at s taken p e with
        | RFail f => RFail f
        | ROk a => match gather s taken (Datatypes.S p) r with
                   | ROk l => ROk (a :: l)
                   | RFail f => RFail f
                   end
        end
    end.

  (* captured values a subgraph operator reads (through the CaptureEnv) *)
  Fixpoint gather_caps (s : st) (moved : list (id * bid)) (cs : list id) : res (list (option V)) :=
    match cs with
    | [] => ROk []
    | v :: r =>
        let ob := match assoc moved v with Some b => Some b | None => locate s v end in
        match ob with
        | None => RFail (FMissing v)
        | Some b =>
            match rd s b with
            | RFail f => RFail f
            | ROk x => match gather_caps s moved r with
                       | ROk l => ROk (Some x :: l)
                       | RFail f => RFail f
                       end
            end
        end
    end.

  Fixpoint blank_from (ps : list nat) (p : nat) (args : list (option V)) : list (option V) :=
    match args with
    | [] => []
    | a :: r => (if memn p ps then None else a) :: blank_from ps (Datatypes.S p) r
    end.
  Definition blank (ps : list nat) (args : list (option V)) := blank_from ps 0 args.
  Definition pick_vals (ps : list nat) (args : list (option V)) : list (nat * V) :=
    flat_map (fun p => match nth_error args p with Some (Some x) => [(p, x)] | _ => [] end) ps.

  (* temp_values.insert(id, value): an older value under the same id is dropped *)
  Definition bind (s : st) (v : id) (b : bid) : st :=
    let s1 := match temp s v with Some old => drop s old | None => s end in
    set_temp s1 (upd (temp s1) v (Some b)).

  (* temp_values.extend(output_ids.zip(outputs)...filter(not a run input)): [bufs] are the
     buffers the operator returned.  (The filter is the `fix:` for finding F11b: a value supplied
     by the caller is never replaced by a computed one.) *)
  Fixpoint save (s : st) (oids : list (option id)) (bufs : list bid) : st :=
    match oids, bufs with
    | Some v :: r, b :: bs => save (if is_in v then drop s b else bind s v b) r bs
    | None :: r, b :: bs => save (drop s b) r bs
    | [], bs => fold_left drop bs s
    | _ :: _, [] => s
    end.

  (* the operator allocates its outputs: [first] = buffer to write output 0 into, if any *)
  Fixpoint alloc_outs (s : st) (first : option bid) (vals : list V) : st * list bid :=
    match vals with
    | [] => (s, [])
    | x :: r =>
        let '(s1, b) := match first with
                        | Some b0 => (set_heap s (upd (heap s) b0 (Some x)), b0)
                        | None => alloc y s x
                        end in
        let '(s2, bs) := alloc_outs s1 None r in (s2, b :: bs)
    end.

  (* "Remove temporary values that are no longer needed" *)
  Fixpoint dec_all (s : st) (ds : list id) : st :=
    match ds with
    | [] => s
    | d :: r =>
        let '(c, ret) := rc_dec (rcs s d) in
        let s1 := set_rcs s (upd (rcs s) d c) in
        let s2 := match ret with
                  | Some 0 => if y_pool y
                              then match temp s1 d with
                                   | Some b => release (set_temp s1 (upd (temp s1) d None)) b
                                   | None => s1
                                   end
                              else s1
                  | _ => s1
                  end in
        dec_all s2 r
    end.

  (* one iteration of `for (step, &op_node_id) in plan.iter().enumerate()`, in four parts *)

  (* 1. the in-place decision, taking the in-place inputs and the by-value captures *)
  Definition step_take (s : st) (o : id) (n : op_node) : res (st * list (nat * bid) * list (id * bid)) :=
    let cs := cands s o n in
    let ip := negb (match cs with [] => true | _ => false end)
              && forallb (fun c => takeable s (snd c)) cs && y_policy y o in
    match (if ip then take_all s cs else ROk (s, [])) with
    | RFail f => RFail f
    | ROk (s1, taken) =>
        let '(s2, moved) := if s_sub S o then take_caps s1 (cap_deps n) else (s1, []) in
        ROk (s2, taken, moved)
    end.

  (* 2. collecting the inputs (and, for a subgraph operator, the captured values it reads) *)
  Definition step_args (s2 : st) (n : op_node) (taken : list (nat * bid)) (moved : list (id * bid))
    : res (list (option V)) :=
    match gather s2 taken 0 (op_inputs n) with
    | RFail f => RFail f
    | ROk args =>
        match gather_caps s2 moved (cap_deps n) with
        | RFail f => RFail f
        | ROk cargs => ROk (args ++ cargs)
        end
    end.

  (* 3. running the operator *)
  Definition step_run (o : id) (taken : list (nat * bid)) (all : list (option V)) : option (list V) :=
    let ps := map fst taken in
    match taken with
    | [] => s_run S o all
    | _ => s_run_ip S o (pick_vals ps all) (blank ps all)
    end.

  (* run_in_place: reuse the first owned buffer for output 0, or hand it back to the pool *)
  Definition reuse_choice (s2 : st) (o : id) (taken : list (nat * bid)) (vals : list V)
    : option bid * list bid :=
    match taken, vals with
    | (_, b0) :: tk, x0 :: _ =>
        match heap s2 b0 with
        | Some old => if s_reuse S o old x0 then (Some b0, map snd tk) else (None, b0 :: map snd tk)
        | None => (None, b0 :: map snd tk)
        end
    | _, _ => (None, map snd taken)
    end.

  (* 4. buffers of the outputs, saving them, releasing what is no longer needed *)
  Definition step_finish (s2 : st) (o : id) (n : op_node) (taken : list (nat * bid))
             (moved : list (id * bid)) (vals : list V) : st :=
    let '(first, rest) := reuse_choice s2 o taken vals in
    let s3 := fold_left release rest s2 in
    let '(s4, bufs) := alloc_outs s3 first vals in
    let s5 := fold_left release (map snd moved) s4 in
    let s6 := save s5 (op_outputs n) bufs in
    let s7 := add_trace s6 (o, map fst taken, match first with Some _ => true | None => false end) in
    dec_all s7 (deps g n).

  Definition step (s : st) (o : id) : res st :=
    match get_op g o with
    | None => RFail FPlan
    | Some n =>
        match step_take s o n with
        | RFail f => RFail f
        | ROk (s2, taken, moved) =>
            match step_args s2 n taken moved with
            | RFail f => RFail f
            | ROk all =>
                match step_run o taken all with
                | None => RFail (FOp o)
                | Some vals =>
                    if (length vals <? length (op_outputs n))%nat then RFail (FOutputs o)
                    else ROk (step_finish s2 o n taken moved vals)
                end
            end
        end
    end.

  Fixpoint steps (s : st) (plan : list id) : res st :=
    match plan with
    | [] => ROk s
    | o :: r => match step s o with ROk s1 => steps s1 r | RFail f => RFail f end
    end.

  (* "Return the requested outputs" *)
  Fixpoint extract (s : st) (outs : list id) : res (list V) :=
    match outs with
    | [] => ROk []
    | v :: r =>
        let rest s' x := match extract s' r with ROk l => ROk (x :: l) | RFail f => RFail f end in
        match ext v with
        | Some b => match rd s b with ROk x => rest s x | RFail f => RFail f end
        | None =>
            match caps s v with
            | Some (b, _) => match rd s b with ROk x => rest s x | RFail f => RFail f end
            | None =>
                match temp s v with
                | Some b => match rd s b with
                            | ROk x => rest (set_temp s (upd (temp s) v None)) x
                            | RFail f => RFail f
                            end
                | None => RFail (FNoOutput v)
                end
            end
        end
    end.

  (* refcount initialisation *)
  Definition inc_all (rc : id -> N) (l : list id) : id -> N :=
    fold_left (fun rc v => upd rc v (rc_inc (rc v))) l rc.
  Definition plan_deps (plan : list id) : list id :=
    flat_map (fun o => match get_op g o with Some n => filter is_value (deps g n) | None => [] end) plan.
  Definition init_rc (plan outs : list id) : id -> N :=
    inc_all (inc_all (fun _ => 0) (plan_deps plan)) outs.

  Definition ops_exist (plan : list id) : bool :=
    forallb (fun o => match get_op g o with Some _ => true | None => false end) plan.

  (* Graph::run_plan from a state in which the inputs have been distributed *)
  Definition exec_from (s0 : st) (plan outs : list id) : res (list V) * list (id * list nat * bool) :=
    if ops_exist plan then
      match steps (set_rcs s0 (init_rc plan outs)) plan with
      | ROk s => (extract s outs, rev (trace s))
      | RFail f => (RFail f, [])
      end
    else (RFail FPlan, []).

  (* ------------------------------------------------------------ naive evaluation *)
  (* every operator on fresh copies of its inputs, in plan order.  [xv]: the values given from
     outside (constants, run inputs however passed, captured values) *)
  Variable xv : id -> option V.

  Definition nlookup (env : id -> option V) (v : id) : option V :=
    match xv v with Some x => Some x | None => env v end.

  Fixpoint ngather (env : id -> option V) (es : list (option id)) : res (list (option V)) :=
    match es with
    | [] => ROk []
    | None :: r => match ngather env r with ROk l => ROk (None :: l) | RFail f => RFail f end
    | Some v :: r =>
        match nlookup env v with
        | None => RFail (FMissing v)
        | Some x => match ngather env r with ROk l => ROk (Some x :: l) | RFail f => RFail f end
        end
    end.

  Fixpoint nbind (env : id -> option V) (oids : list (option id)) (vals : list V) : id -> option V :=
    match oids, vals with
    | Some v :: r, x :: xs => nbind (upd env v (Some x)) r xs
    | None :: r, _ :: xs => nbind env r xs
    | _, _ => env
    end.

  Definition all_args (n : op_node) : list (option id) := op_inputs n ++ map Some (cap_deps n).

  Definition nstep (env : id -> option V) (o : id) : res (id -> option V) :=
    match get_op g o with
    | None => RFail FPlan
    | Some n =>
        match ngather env (all_args n) with
        | RFail f => RFail f
        | ROk args =>
            match s_run S o args with
            | None => RFail (FOp o)
            | Some vals =>
                if (length vals <? length (op_outputs n))%nat then RFail (FOutputs o)
                else ROk (nbind env (op_outputs n) vals)
            end
        end
    end.

  Fixpoint nsteps (env : id -> option V) (plan : list id) : res (id -> option V) :=
    match plan with
    | [] => ROk env
    | o :: r => match nstep env o with ROk e1 => nsteps e1 r | RFail f => RFail f end
    end.

  Fixpoint nextract (env : id -> option V) (outs : list id) : res (list V) :=
    match outs with
    | [] => ROk []
    | v :: r => match nlookup env v with
                | None => RFail (FNoOutput v)
                | Some x => match nextract env r with ROk l => ROk (x :: l) | RFail f => RFail f end
                end
    end.

  Definition naive_eval (plan outs : list id) : res (list V) :=
    if ops_exist plan then
      match nsteps (fun _ => None) plan with
      | ROk env => nextract env outs
      | RFail f => RFail f
      end
    else RFail FPlan.
End Exec.
