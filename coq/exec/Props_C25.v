(* Props_C25.v -- C25 "Model runs are deterministic and leave model and inputs unchanged":
   statements only.  Everything here is a consequence of the buffer invariant of the C02
   simulation (Exec_base.binv). *)
From RV Require Import Prelude.
From Planner Require Import Graph.
From Exec Require Import ExecModel Exec_base Exec_sim Exec_top ModelTestOps.
Open Scope N_scope.

(* In every state the executor passes through (after any prefix p1 of the plan), the buffer of
   every constant still holds the constant's data ... *)
Theorem C25_constants_never_written :
  forall (g : graph) (S : sem) (consts : list (id * V)),
    (forall o ps args, s_run_ip S o (pick_vals ps args) (blank ps args) = s_run S o args) ->
    (forall o, NoDup (s_ip S o)) ->
    forall y ins plan outs p1 p2 s',
      inputs_ok g ins -> outputs_ok g plan -> NoDup outs -> plan = p1 ++ p2 ->
      steps g S y (top_ext g consts ins) (in_ids ins)
            (set_rcs (top_state g consts ins) (init_rc g plan outs)) p1 = ROk s' ->
      forall c x, is_constant g c = true -> assoc consts c = Some x -> heap s' (cbuf c) = Some x.
Proof.
  intros g S consts H1 H2 y ins plan outs p1 p2 s' Hi Ho Hn Hp Hs.
  exact (proj1 (caller_buffers_never_written g S consts H1 H2 y ins plan outs p1 p2 s' Hi Ho Hn Hp Hs)).
Qed.

(* ... and so does the buffer behind every input that was passed as a borrowed view, even when
   its consumers are in-place capable, mutating, and it is requested as an output *)
Theorem C25_borrowed_inputs_never_written :
  forall (g : graph) (S : sem) (consts : list (id * V)),
    (forall o ps args, s_run_ip S o (pick_vals ps args) (blank ps args) = s_run S o args) ->
    (forall o, NoDup (s_ip S o)) ->
    forall y ins plan outs p1 p2 s',
      inputs_ok g ins -> outputs_ok g plan -> NoDup outs -> plan = p1 ++ p2 ->
      steps g S y (top_ext g consts ins) (in_ids ins)
            (set_rcs (top_state g consts ins) (init_rc g plan outs)) p1 = ROk s' ->
      forall v i, find_input ins v = Some i -> i_owned i = false -> heap s' (ibuf v) = Some (i_val i).
Proof.
  intros g S consts H1 H2 y ins plan outs p1 p2 s' Hi Ho Hn Hp Hs.
  exact (proj2 (caller_buffers_never_written g S consts H1 H2 y ins plan outs p1 p2 s' Hi Ho Hn Hp Hs)).
Qed.

(* the mechanism: in a state satisfying the invariants, every buffer handed to run_in_place or
   moved into a subgraph's capture environment is owned by temp_values and is not a view of
   caller data *)
Theorem C25_only_owned_buffers_run_in_place :
  forall (g : graph) (S : sem) (y : strategy) (ext : id -> option bid) (xv : id -> option V) (outs : list id),
    (forall o, NoDup (s_ip S o)) ->
    forall env rest o n s s2 taken moved,
      binv g ext xv (val xv env) [] s -> cinv g ext xv outs env (o :: rest) s -> get_op g o = Some n ->
      step_take g S y s o n = ROk (s2, taken, moved) ->
      forall b, In b (map snd taken ++ map snd moved) ->
        (exists v, temp s v = Some b) /\ forall w, ext w <> Some b.
Proof. intros g S y ext xv outs H. exact (taken_buffers_owned g S y ext xv outs H). Qed.

(* outputs are a function of inputs and constants only *)
Theorem C25_run_is_function :
  forall (g : graph) (S : sem) (consts : list (id * V)),
    (forall o ps args, s_run_ip S o (pick_vals ps args) (blank ps args) = s_run S o args) ->
    (forall o, NoDup (s_ip S o)) ->
    forall y1 y2 ins1 ins2 plan outs,
      same_inputs ins1 ins2 -> inputs_ok g ins1 -> outputs_ok g plan -> NoDup outs ->
      fst (run_top g S y1 consts ins1 plan outs) = fst (run_top g S y2 consts ins2 plan outs).
Proof. exact strategy_irrelevant. Qed.

(* a run cannot affect later runs: whatever an earlier run did, a later run that reads the
   constants back from the heap it left behind returns the naive evaluation over the original
   constants (in particular, running the same request twice gives identical results) *)
Theorem C25_runs_independent :
  forall (g : graph) (S : sem) (consts : list (id * V)),
    (forall o ps args, s_run_ip S o (pick_vals ps args) (blank ps args) = s_run S o args) ->
    (forall o, NoDup (s_ip S o)) ->
    forall y1 ins1 plan1 outs1 s1 y2 ins2 plan2 outs2,
      inputs_ok g ins1 -> outputs_ok g plan1 -> NoDup outs1 ->
      run_state g S consts y1 ins1 plan1 outs1 = ROk s1 ->
      inputs_ok g ins2 -> outputs_ok g plan2 -> NoDup outs2 ->
      fst (run_top g S y2 (reread consts (heap s1)) ins2 plan2 outs2) = naive_top g S consts ins2 plan2 outs2.
Proof. exact runs_independent. Qed.

(* the oracle of the check *)
Theorem C25_prop_ok_reflect :
  forall c, prop_ok25 c = true ->
    (forall r, In r (c_runs c) -> r_borrowed_ok r = true /\ r_consts_ok r = true) /\
    (forall r r', In r (c_runs c) -> In r' (c_runs c) ->
       match r_res r, r_res r' with
       | IOk a, IOk b => sigs_eqb a b = true
       | IErr, IErr => True
       | _, _ => False
       end).
Proof.
  intros c H. unfold prop_ok25 in H. apply andb_true_iff in H. destruct H as (H1 & H2).
  rewrite forallb_forall in H1. split.
  - intros r Hr. specialize (H1 r Hr). apply andb_true_iff in H1. exact H1.
  - destruct (c_runs c) as [|r0 rs] eqn:E; [intros r r' []|].
    rewrite forallb_forall in H2. intros r r' Hr Hr'.
    pose proof (H2 r Hr) as A. pose proof (H2 r' Hr') as A'. unfold ires_eqb in A, A'.
    destruct (r_res r0) as [x0| | |]; try discriminate.
    + destruct (r_res r) as [x| | |]; try discriminate. destruct (r_res r') as [x'| | |]; try discriminate.
      assert (Es : forall a b, sigs_eqb a b = true -> a = b).
      { unfold sigs_eqb. induction a as [|p l IH]; intros [|q b] H; cbn in H; try discriminate; [reflexivity|].
        apply andb_true_iff in H. destruct H as (Hl & Hf). apply andb_true_iff in Hf. destruct Hf as (Hx & Hf).
        unfold sig_eqb in Hx. cbn in Hx. apply andb_true_iff in Hx. destruct Hx as (P & Q).
        apply Nat.eqb_eq in P. apply Z.eqb_eq in Q. destruct p, q. cbn in *. subst. f_equal.
        apply IH. rewrite Hl, Hf. reflexivity. }
      rewrite <- (Es _ _ A), <- (Es _ _ A'). clear. unfold sigs_eqb. rewrite Nat.eqb_refl. cbn.
      induction x0 as [|p l IH]; [reflexivity|]. cbn. unfold sig_eqb at 1. cbn. rewrite Nat.eqb_refl, Z.eqb_refl. exact IH.
    + destruct (r_res r) as [x| | |]; try discriminate. destruct (r_res r') as [x'| | |]; try discriminate. exact I.
Qed.

(* non-vacuity: a constant and a borrowed input feeding in-place-capable mutating operators and
   requested as outputs; after the run both buffers hold their original contents *)
Definition ex25_graph : graph :=
  mk_graph [(0, Value); (1, Constant);
            (2, Op (mkop [Some 1] [Some 3] [] true)); (3, Value);
            (4, Op (mkop [Some 0; Some 3] [Some 5] [] true)); (5, Value)] [].
Definition ex25_ops : list (id * opspec) :=
  [(2, {| o_nout := 1; o_ip := [0%nat]; o_comm := false; o_mut := true; o_det := true; o_len := None; o_mod := None |});
   (4, {| o_nout := 1; o_ip := [0%nat]; o_comm := true; o_mut := true; o_det := true; o_len := None; o_mod := None |})].

Example C25_nonvacuous :
  let S := test_sem ex25_ops 0 in
  let consts := [(1, [1; 2; 3]%Z)] in
  let ins := [{| i_id := 0; i_val := [5; 6; 7]%Z; i_owned := false |}] in
  inputs_ok ex25_graph ins /\ outputs_ok ex25_graph [2; 4] /\ NoDup [5; 0; 1] /\
  exists s', run_state ex25_graph S consts (today true) ins [2; 4] [5; 0; 1] = ROk s' /\
             heap s' (cbuf 1) = Some [1; 2; 3]%Z /\ heap s' (ibuf 0) = Some [5; 6; 7]%Z /\
             trace s' = [(4, [1%nat], true); (2, [], false)].
Proof.
  cbv zeta. split; [|split; [|split]].
  - intros i [<-|[]]. reflexivity.
  - intros o n v [<-|[<-|[]]] Hn Hv; vm_compute in Hn; injection Hn as <-; cbn in Hv;
      repeat (destruct Hv as [<-|Hv]; [reflexivity|]); destruct Hv.
  - repeat constructor; cbn; intuition discriminate.
  - eexists. split; [vm_compute; reflexivity|]. split; [vm_compute; reflexivity|].
    split; vm_compute; reflexivity.
Qed.
