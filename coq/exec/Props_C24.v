(* Props_C24.v -- C24 "Control-flow subgraphs behave like the equivalent inlined graph":
   statements.  What is proved for all inputs: the parent-graph side of the capture bookkeeping
   (which values may be moved into a subgraph, that every value still needed survives a subgraph
   operator intact), the subgraph run itself when its capture environment is presented as run
   inputs, and the local fact separating finding F19.  The run through the real CaptureEnv lookup
   chain is tied to the inlined evaluation [SubgraphModel.eval_top] by correspondence only. *)
From RV Require Import Prelude.
From Planner Require Import Graph.
From Exec Require Import ExecModel Exec_base Exec_sim Exec_top ModelTestOps SubgraphModel.
Open Scope N_scope.

(* by-value capture extraction (run_plan: `take_value` at refcount 1 for the captures of a subgraph
   operator): a moved value is a capture dependency of the operator with NO remaining use -- no
   later operator reads it, it is not a requested output *)
Theorem C24_by_value_captures_have_no_later_use :
  forall (g : graph) (S : sem) (y : strategy) (ext : id -> option bid) (xv : id -> option V) (outs : list id),
    (forall o, NoDup (s_ip S o)) ->
    forall env rest o n s s2 taken moved,
      binv g ext xv (val xv env) [] s -> cinv g ext xv outs env (o :: rest) s -> get_op g o = Some n ->
      step_take g S y s o n = ROk (s2, taken, moved) ->
      forall v b, In (v, b) moved -> In v (cap_deps g n) /\ uses g outs rest v = 0%nat.
Proof. intros g S y ext xv outs H. exact (moved_not_needed g S y ext xv outs H). Qed.

(* parent_values_preserved: the executor's invariants are re-established after EVERY operator
   step, a subgraph operator (with captures read by reference and moved by value) included ... *)
Theorem C24_step_preserves_invariants :
  forall (g : graph) (S : sem) (y : strategy) (ext : id -> option bid) (is_in : id -> bool)
         (xv : id -> option V) (outs : list id),
    (forall o ps args, s_run_ip S o (pick_vals ps args) (blank ps args) = s_run S o args) ->
    (forall o, NoDup (s_ip S o)) ->
    (forall v, is_in v = true -> xv v <> None) ->
    forall env rest o s,
      binv g ext xv (val xv env) [] s -> cinv g ext xv outs env (o :: rest) s ->
      (forall n, get_op g o = Some n -> op_wf g is_in xv n) ->
      match nstep g S xv env o with
      | ROk env' => exists s', step g S y ext is_in s o = ROk s' /\
                               binv g ext xv (val xv env') [] s' /\ cinv g ext xv outs env' rest s'
      | RFail f => step g S y ext is_in s o = RFail f
      end.
Proof. exact step_sim. Qed.

(* ... and under these invariants every value that is still needed afterwards is found, in a
   buffer that holds exactly the value the (inlined) naive evaluation assigns to it: nothing a
   subgraph did -- in place or not -- changed it *)
Theorem C24_parent_values_preserved :
  forall (g : graph) (ext : id -> option bid) (xv : id -> option V) (outs : list id) env rest s,
    binv g ext xv (val xv env) [] s -> cinv g ext xv outs env rest s ->
    forall v x, val xv env v = Some x -> (0 < uses g outs rest v)%nat ->
      exists b, locate ext s v = Some b /\ heap s b = Some x.
Proof. intros g ext xv outs. exact (needed_values_intact g ext xv outs). Qed.

(* subgraph_refines_inline, FULL statement (not proved): a subgraph run started with an arbitrary
   capture environment [caps] (by-reference and by-value entries, resolved through the parent
   chain) returns the naive evaluation of the subgraph in which captured values are read directly. *)
Definition C24_subgraph_refines_inline_statement : Prop :=
  forall (g : graph) (S : sem) (y : strategy) (ext : id -> option bid) (is_in : id -> bool)
         (xv : id -> option V) (outs : list id),
    (forall o ps args, s_run_ip S o (pick_vals ps args) (blank ps args) = s_run S o args) ->
    (forall o, NoDup (s_ip S o)) ->
    (forall v, is_in v = true -> xv v <> None) ->
    forall plan s0,
      (* the state may hold captures: each captured buffer holds the captured value; by-value
         captures are owned by the environment and shared with nobody *)
      (forall v b t, caps s0 v = Some (b, t) -> exists x, heap s0 b = Some x /\ xv v = Some x) ->
      (forall v b, caps s0 v = Some (b, true) -> In v (g_captures g) /\
                   (forall w, ext w <> Some b) /\ (forall w, temp s0 w <> Some b) /\
                   (forall w b' t', w <> v -> caps s0 w = Some (b', t') -> b' <> b)) ->
      NoDup outs -> plan_wf g is_in xv plan ->
      fst (exec_from g S y ext is_in s0 plan outs) = naive_eval g S xv plan outs.

(* what is proved: the same subgraph run with its capture environment presented as run inputs --
   by-reference captures as borrowed views ([ext]), by-value captures as owned values (in
   temp_values) -- for every strategy.  (This is the C02 refinement theorem; `If` then is this
   run on the selected branch, `Loop` its iteration with a per-iteration copy of the by-value
   captures.) *)
Theorem C24_subgraph_refines_inline_partial :
  forall (g : graph) (S : sem) (y : strategy) (ext : id -> option bid) (is_in : id -> bool)
         (xv : id -> option V) (outs : list id),
    (forall o ps args, s_run_ip S o (pick_vals ps args) (blank ps args) = s_run S o args) ->
    (forall o, NoDup (s_ip S o)) ->
    (forall v, is_in v = true -> xv v <> None) ->
    forall plan s0,
      binv g ext xv (val xv (fun _ => None)) [] s0 ->       (* includes: caps s0 = none *)
      (forall v, xv v <> None -> locate ext s0 v <> None) ->
      NoDup outs -> plan_wf g is_in xv plan ->
      fst (exec_from g S y ext is_in s0 plan outs) = naive_eval g S xv plan outs.
Proof. exact exec_refines_naive. Qed.

(* F19 (known finding): today's Loop omits the scan outputs of a loop that never iterates; the
   inlined meaning has empty scan outputs.  Exactly that class separates the two: *)
Theorem C24_loop_outputs_agree_outside_F19 :
  forall nscan carried iters,
    (iters <> [] \/ nscan = O) ->
    loop_finish false nscan carried iters = loop_finish true nscan carried iters.
Proof.
  intros nscan carried iters H. unfold loop_finish.
  destruct (all_some (map concat_scan (transpose_scans nscan (rev iters)))) as [scans|] eqn:E; [|reflexivity].
  destruct H as [H|H].
  - destruct iters as [|it its]; [congruence|]. cbn [negb]. f_equal. f_equal.
    clear. induction scans as [|z l IH]; cbn [filter]; [reflexivity|]. rewrite IH. reflexivity.
  - subst nscan. cbn in E. injection E as <-. reflexivity.
Qed.

Theorem C24_F19_refuted :
  exists G inp outs, eval_top true G inp outs = Some [[]] /\ eval_top false G inp outs = None.
Proof.
  (* v;k:0;W:1,_:3:(v;v;o:0:3::-:-:-;v~0,1~1,3);v : trip count 0, one scan output *)
  exists (XG [XV; XC [0%Z];
              XLoop [Some 1; None] [Some 3]
                    (XG [XV; XV; XT 102 (Build_opspec 1 [] false false true None None) [Some 0] [Some 3]; XV] [0; 1] [1; 3]);
              XV] [0] [3]),
         [(0, [5%Z])], [3].
  split; vm_compute; reflexivity.
Qed.

(* the oracle of the check *)
Theorem C24_prop_ok_reflect :
  forall c, prop_ok24 c = true ->
    forall r, In r (k_runs c) ->
      match eval_top true (k_graph c) (k_ins c) (k_outs c), q_res r with
      | Some a, IOk b => map vsig a = b
      | None, IErr => True
      | _, _ => False
      end.
Proof.
  intros c H r Hr. unfold prop_ok24 in H. rewrite forallb_forall in H. specialize (H r Hr).
  unfold matches in H. destruct (eval_top true (k_graph c) (k_ins c) (k_outs c)) as [a|];
    destruct (q_res r) as [b| | |]; try discriminate; auto.
  apply sigs_eqb_true_eq. exact H.
Qed.

(* non-vacuity: a value captured by an If branch that overwrites it in place is used again
   afterwards in the parent; the inlined evaluation gives values for both outputs, and a loop
   with two iterations has a scan output of two rows *)
Example C24_nonvacuous :
  (exists r, eval_top true
     (XG [XV; XT 1 (Build_opspec 1 [0%nat] false true true None None) [Some 0] [Some 2]; XV;
          XT 3 (Build_opspec 1 [] false false true (Some 1) (Some 2%Z)) [Some 2] [Some 4]; XV;
          XIf [Some 4] [Some 6]
              (XG [XCap 0 2; XT 501 (Build_opspec 1 [0%nat] false true true None None) [Some 0] [Some 2]; XV] [] [2])
              (XG [XCap 0 2; XT 601 (Build_opspec 1 [0%nat] false true true None None) [Some 0; Some 0] [Some 2]; XV] [] [2]);
          XV;
          XT 7 (Build_opspec 1 [0%nat] true true true None None) [Some 2; Some 6] [Some 8]; XV] [0] [8; 2])
     [(0, [3; 4; 5]%Z)] [8; 2] = Some r /\ length r = 2%nat) /\
  (exists x, eval_top true
     (XG [XV; XC [2%Z];
          XLoop [Some 1; None] [Some 3]
                (XG [XV; XV; XT 102 (Build_opspec 1 [] false false true None None) [Some 0] [Some 3]; XV] [0; 1] [1; 3]);
          XV] [0] [3]) [(0, [5%Z])] [3] = Some [x] /\ length x = 2%nat).
Proof.
  split.
  - eexists. split; [vm_compute; reflexivity|reflexivity].
  - eexists. split; [vm_compute; reflexivity|reflexivity].
Qed.
