(* Exec_partial.v -- C04: partial evaluation composes with full evaluation (model level). *)
From RV Require Import Prelude.
From Planner Require Import Graph.
From Exec Require Import ExecModel Exec_base Exec_order ModelTestOps PartialModel.
Open Scope N_scope.

(* ---------------------------------------------------------------- prune_plan keeps deterministic operators only *)
Lemma prune_walk_det g det : forall plan st,
  (forall o, In o (p_plan st) -> det o = true) ->
  forall o, In o (p_plan (fold_left (prune_step g det) plan st)) -> det o = true.
Proof.
  induction plan as [|x r IH]; intros st H; cbn [fold_left]; [exact H|].
  apply IH. unfold prune_step. destruct (get_op g x) as [n|]; [|exact H].
  destruct (negb (det x) || negb _) eqn:E; cbn [p_plan]; [exact H|].
  intros o Ho. apply in_app_or in Ho. destruct Ho as [Ho|[<-|[]]]; [apply H; exact Ho|].
  apply orb_false_iff in E. destruct E as (E & _). apply negb_false_iff in E. exact E.
Qed.

Theorem prune_plan_deterministic g det plan ins outs :
  forall o, In o (fst (prune_plan g det plan ins outs)) -> det o = true.
Proof. unfold prune_plan, prune_walk. cbn [fst]. apply prune_walk_det. intros o []. Qed.

(* ---------------------------------------------------------------- two evaluations that agree *)
Section Agree.
  Variable g : graph.
  Variables SA SB : sem.
  Variables xvA xvB : id -> option V.

  Definition agreeG (envB eA : id -> option V) : Prop :=
    forall v x x', nlookup xvA eA v = Some x -> nlookup xvB envB v = Some x' -> x = x'.

  Lemma ngather_agree2 envB eA : agreeG envB eA ->
    forall es a b, ngather xvA eA es = ROk a -> ngather xvB envB es = ROk b -> a = b.
  Proof.
    intros H. induction es as [|e r IH]; intros a b; cbn [ngather].
    - intros E E'. injection E as <-. injection E' as <-. reflexivity.
    - destruct e as [v|].
      + destruct (nlookup xvA eA v) as [x|] eqn:E1; [|discriminate].
        destruct (nlookup xvB envB v) as [x'|] eqn:E2; [|discriminate].
        destruct (ngather xvA eA r) as [l|]; [|discriminate]. destruct (ngather xvB envB r) as [l'|]; [|discriminate].
        intros E E'. injection E as <-. injection E' as <-. rewrite (H v x x' E1 E2), (IH l l' eq_refl eq_refl). reflexivity.
      + destruct (ngather xvA eA r) as [l|]; [|discriminate]. destruct (ngather xvB envB r) as [l'|]; [|discriminate].
        intros E E'. injection E as <-. injection E' as <-. rewrite (IH l l' eq_refl eq_refl). reflexivity.
  Qed.

  Lemma steps_agree planB envB : NoDup planB ->
    nsteps g SB xvB (fun _ => None) planB = ROk envB ->
    forall planA,
      single_producer g (planA ++ planB) ->
      (forall o args, In o planA -> s_run SA o args = s_run SB o args) ->
      (forall o n v, In o planA -> get_op g o = Some n -> In v (op_outs n) -> xvB v = None) ->
      (forall v x x', xvA v = Some x -> nlookup xvB envB v = Some x' -> x = x') ->
      forall e0 e1, nsteps g SA xvA e0 planA = ROk e1 -> agreeG envB e0 -> agreeG envB e1.
  Proof.
    intros HndB HsB planA. induction planA as [|o r IH]; intros Hsp Hsem Hout Hbase e0 e1 Hs Hag.
    - cbn in Hs. injection Hs as <-. exact Hag.
    - cbn [nsteps] in Hs. destruct (nstep g SA xvA e0 o) as [e'|] eqn:E1; [|discriminate].
      destruct Hsp as (HU & HD).
      assert (Hsp_r : single_producer g (r ++ planB)).
      { split; [intros a b v Ha Hb; apply HU; right; assumption|intros a m Ha; apply HD; right; exact Ha]. }
      apply (IH Hsp_r (fun o' a Hin => Hsem o' a (or_intror Hin))
                (fun o' n' v Hin => Hout o' n' v (or_intror Hin)) Hbase e' e1 Hs).
      destruct (nstep_inv _ _ _ _ _ _ E1) as (n & args & vals & En & Eg & Er & Hlen & ->).
      assert (Hsp2 : single_producer g ([] ++ planB)).
      { split; [intros a b v Ha Hb; apply HU; right; apply in_or_app; right; assumption
               |intros a m Ha; apply HD; right; apply in_or_app; right; exact Ha]. }
      destruct (plan_equations g SB xvB planB [] (fun _ => None) envB HndB Hsp2) as (P1 & _ & P3);
        [intros v Hv; congruence|exact HsB|].
      intros v x x' Hv Hv'.
      destruct (xvA v) as [xa|] eqn:Exa.
      { unfold nlookup in Hv. rewrite Exa in Hv. injection Hv as <-. eapply Hbase; eauto. }
      unfold nlookup in Hv. rewrite Exa in Hv.
      destruct (in_dec N.eq_dec v (op_outs n)) as [Hin|Hnin].
      + pose proof (Hout o n v (or_introl eq_refl) En Hin) as HxB.
        unfold nlookup in Hv'. rewrite HxB in Hv'.
        destruct (P1 v) as (o2 & Ho2 & Hp2); [congruence|]. cbn [app] in Ho2.
        assert (o2 = o).
        { apply (HU o2 o v); [right; apply in_or_app; right; exact Ho2|left; reflexivity|exact Hp2|exists n; split; assumption]. }
        subst o2. destruct (P3 o n Ho2 En) as (args2 & vals2 & Eg2 & Er2 & Hlen2 & Hout2).
        assert (args = args2) by (eapply ngather_agree2; [exact Hag|exact Eg|exact Eg2]).
        subst args2. rewrite (Hsem o args (or_introl eq_refl)) in Er.
        assert (vals2 = vals) by congruence. subst vals2.
        assert (Hk : exists k, nth_error (op_outputs n) k = Some (Some v)).
        { unfold op_outs in Hin. clear - Hin. induction (op_outputs n) as [|e l IHl]; [contradiction|].
          destruct e as [w|]; cbn [somes] in Hin.
          - destruct Hin as [->|Hin]; [exists O; reflexivity|]. destruct (IHl Hin) as (k & Hk). exists (Datatypes.S k). exact Hk.
          - destruct (IHl Hin) as (k & Hk). exists (Datatypes.S k). exact Hk. }
        destruct Hk as (k & Hk).
        destruct (nbind_nth (op_outputs n) vals e0 k v (HD o n (or_introl eq_refl) En) Hk Hlen) as (Hb & _).
        rewrite Hb in Hv. rewrite (Hout2 k v Hk) in Hv'. congruence.
      + rewrite nbind_other in Hv by exact Hnin. apply (Hag v x x'); [|exact Hv'].
        unfold nlookup. rewrite Exa. exact Hv.
  Qed.
End Agree.

Lemma nextract_lookup xv env : forall L lvals,
  nextract xv env L = ROk lvals ->
  length L = length lvals /\
  forall v x, assoc (combine L lvals) v = Some x -> nlookup xv env v = Some x.
Proof.
  induction L as [|w r IH]; intros lvals; cbn [nextract].
  - intros E. injection E as <-. split; [reflexivity|discriminate].
  - destruct (nlookup xv env w) as [xw|] eqn:Ew; [|discriminate].
    destruct (nextract xv env r) as [l|] eqn:Er; [|discriminate]. intros E. injection E as <-.
    destruct (IH l eq_refl) as (Hl & Ha). split; [cbn; congruence|].
    intros v x. cbn [combine assoc]. destruct (w =? v) eqn:E.
    + apply N.eqb_eq in E. subst. intros H. injection H as <-. exact Ew.
    + apply Ha.
Qed.

Lemma nextract_agree xvA xvB envB eA : agreeG xvA xvB envB eA ->
  forall O rA rB, nextract xvA eA O = ROk rA -> nextract xvB envB O = ROk rB -> rA = rB.
Proof.
  intros Hag. induction O as [|v r IH]; intros rA rB; cbn [nextract]; [congruence|].
  destruct (nlookup xvA eA v) as [x|] eqn:A1; [|discriminate].
  destruct (nlookup xvB envB v) as [x'|] eqn:A2; [|discriminate].
  destruct (nextract xvA eA r) as [l|]; [|discriminate]. destruct (nextract xvB envB r) as [l'|]; [|discriminate].
  intros H H'. injection H as <-. injection H' as <-.
  rewrite (Hag v x x' A1 A2), (IH l l' eq_refl eq_refl). reflexivity.
Qed.

Lemma single_producer_sub g a b : (forall x, In x a -> In x b) -> single_producer g b -> single_producer g a.
Proof.
  intros H (HU & HD). split.
  - intros o o' v Ho Ho'. apply HU; apply H; assumption.
  - intros o n Ho. apply HD. apply H. exact Ho.
Qed.

(* ---------------------------------------------------------------- partial_run then run = run *)
Section PartialThenRun.
  Variable g : graph.
  Variables S Sp : sem.           (* the sem of the full / completing run, and of the partial run:
                                     non-deterministic operators may behave differently *)
  Variable det : id -> bool.
  Hypothesis H_det : forall o args, det o = true -> s_run Sp o args = s_run S o args.

  Variables xvI xv0 xvR : id -> option V.   (* all inputs + constants; the subset given to
                                               partial_run (+ constants); the rest (+ constants) *)
  Hypothesis H_sub0 : forall v x, xv0 v = Some x -> xvI v = Some x.
  Hypothesis H_subR : forall v x, xvR v = Some x -> xvI v = Some x.

  Variables P L : list id.        (* pruned plan and its leaf ids *)
  Variable lvals : list V.        (* what partial_run returned *)
  Variables planF plan2 O : list id.

  Hypothesis H_Pdet : forall o, In o P -> det o = true.
  Hypothesis H_sp : single_producer g ((P ++ plan2) ++ planF).
  Hypothesis H_ndF : NoDup planF.
  (* no planned operator writes a run input or a constant *)
  Hypothesis H_out : forall o n v, In o (P ++ plan2) -> get_op g o = Some n -> In v (op_outs n) -> xvI v = None.

  (* the inputs of the completing run: the leaves, then the remaining original inputs *)
  Definition xv2 : id -> option V :=
    fun v => match assoc (combine L lvals) v with Some x => Some x | None => xvR v end.

  Theorem partial_then_run rF r2 :
    naive_eval g Sp xv0 P L = ROk lvals ->
    naive_eval g S xvI planF O = ROk rF ->
    naive_eval g S xv2 plan2 O = ROk r2 ->
    r2 = rF.
  Proof.
    unfold naive_eval.
    destruct (ops_exist g P); [|discriminate]. destruct (ops_exist g planF); [|discriminate].
    destruct (ops_exist g plan2); [|discriminate].
    destruct (nsteps g Sp xv0 (fun _ => None) P) as [eP|] eqn:EP; [|discriminate].
    destruct (nsteps g S xvI (fun _ => None) planF) as [eF|] eqn:EF; [|discriminate].
    destruct (nsteps g S xv2 (fun _ => None) plan2) as [e2|] eqn:E2; [|discriminate].
    intros HL HF H2.
    (* the partial run agrees with the full run *)
    assert (AP : agreeG xv0 xvI eF eP).
    { assert (Q1 : single_producer g (P ++ planF)).
      { eapply single_producer_sub; [|exact H_sp]. intros x Hx. apply in_app_or in Hx.
        destruct Hx as [Hx|Hx]; [apply in_or_app; left; apply in_or_app; left; exact Hx|apply in_or_app; right; exact Hx]. }
      assert (Q2 : forall o args, In o P -> s_run Sp o args = s_run S o args).
      { intros o args Ho. apply H_det. apply H_Pdet. exact Ho. }
      assert (Q3 : forall o n v, In o P -> get_op g o = Some n -> In v (op_outs n) -> xvI v = None).
      { intros o n v Ho. apply H_out. apply in_or_app. left. exact Ho. }
      assert (Q4 : forall v x x', xv0 v = Some x -> nlookup xvI eF v = Some x' -> x = x').
      { intros v x x' Hx Hl. unfold nlookup in Hl. rewrite (H_sub0 v x Hx) in Hl. congruence. }
      apply (steps_agree g Sp S xv0 xvI planF eF H_ndF EF P Q1 Q2 Q3 Q4 (fun _ => None) eP EP).
      intros v x x' Hv. unfold nlookup in Hv. destruct (xv0 v) eqn:E0; [|discriminate].
      injection Hv as <-. intros Hl. eapply Q4; eauto. }
    destruct (nextract_lookup xv0 eP L lvals HL) as (_ & Hleaf).
    (* the completing run agrees with the full run *)
    assert (A2 : agreeG xv2 xvI eF e2).
    { assert (Hbase : forall v x x', xv2 v = Some x -> nlookup xvI eF v = Some x' -> x = x').
      { intros v x x'. unfold xv2. destruct (assoc (combine L lvals) v) as [xl|] eqn:Ea.
        - intros E. injection E as <-. intros Hl. eapply AP; [apply Hleaf; exact Ea|exact Hl].
        - intros Hx Hl. unfold nlookup in Hl. rewrite (H_subR v x Hx) in Hl. congruence. }
      assert (Q1 : single_producer g (plan2 ++ planF)).
      { eapply single_producer_sub; [|exact H_sp]. intros x Hx. apply in_app_or in Hx.
        destruct Hx as [Hx|Hx]; [apply in_or_app; left; apply in_or_app; right; exact Hx|apply in_or_app; right; exact Hx]. }
      assert (Q3 : forall o n v, In o plan2 -> get_op g o = Some n -> In v (op_outs n) -> xvI v = None).
      { intros o n v Ho. apply H_out. apply in_or_app. right. exact Ho. }
      apply (steps_agree g S S xv2 xvI planF eF H_ndF EF plan2 Q1 (fun o a _ => eq_refl) Q3 Hbase (fun _ => None) e2 E2).
      intros v x x' Hv. unfold nlookup in Hv. destruct (xv2 v) eqn:E0; [|discriminate].
      injection Hv as <-. intros Hl. eapply Hbase; eauto. }
    eapply nextract_agree; eauto.
  Qed.
End PartialThenRun.

(* ---------------------------------------------------------------- the leaves are sufficient *)
Lemma prune_step_mono g det st o :
  (forall d, In d (p_cand st) -> In d (p_cand (prune_step g det st o))) /\
  (forall d, In d (p_pri st) -> In d (p_pri (prune_step g det st o))).
Proof.
  unfold prune_step. destruct (get_op g o) as [n|]; [|auto].
  destruct (negb (det o) || negb _); cbn [p_cand p_pri]; split; intros d H; auto; apply in_or_app; left; exact H.
Qed.

Lemma prune_fold_mono g det : forall plan st,
  (forall d, In d (p_cand st) -> In d (p_cand (fold_left (prune_step g det) plan st))) /\
  (forall d, In d (p_pri st) -> In d (p_pri (fold_left (prune_step g det) plan st))).
Proof.
  induction plan as [|o r IH]; intros st; cbn [fold_left]; [auto|].
  destruct (prune_step_mono g det st o) as (A & B). destruct (IH (prune_step g det st o)) as (C & D). auto.
Qed.

(* every dependency of a pruned-away operator that could still be produced (it was resolved when
   the operator was reached, and it is a given input or an output of a kept operator) is among
   the returned leaves -- so the completing run is never missing a value that partial evaluation
   had available *)
Theorem prune_leaves_sufficient g det plan ins outs pre o post n :
  plan = pre ++ o :: post -> get_op g o = Some n ->
  let st := prune_walk g det pre ins in
  negb (det o) || negb (forallb (rcontains g (p_res st)) (deps g n)) = true ->
  forall d, In d (deps g n) -> rcontains g (p_res st) d = true -> In d (p_cand st) ->
    In d (snd (prune_plan g det plan ins outs)).
Proof.
  intros Hp Hn st Hpr d Hd Hr Hc. unfold prune_plan. cbn [snd]. apply filter_In.
  assert (Hw : prune_walk g det plan ins = fold_left (prune_step g det) post (prune_step g det st o)).
  { unfold prune_walk, st. rewrite Hp, fold_left_app. reflexivity. }
  rewrite Hw. destruct (prune_fold_mono g det post (prune_step g det st o)) as (A & B).
  destruct (prune_step_mono g det st o) as (A0 & _).
  split; [apply A; apply A0; exact Hc|].
  apply orb_true_iff. right. apply mem_In. apply B.
  unfold prune_step. rewrite Hn, Hpr. cbn [p_pri]. apply in_or_app. right. apply filter_In. auto.
Qed.

(* requested outputs that partial evaluation could produce are returned as leaves too *)
Theorem prune_outputs_returned g det plan ins outs v :
  In v outs -> In v (p_cand (prune_walk g det plan ins)) -> In v (snd (prune_plan g det plan ins outs)).
Proof.
  intros Ho Hc. unfold prune_plan. cbn [snd]. apply filter_In. split; [exact Hc|].
  apply orb_true_iff. left. apply mem_In. exact Ho.
Qed.
