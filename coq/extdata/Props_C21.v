(* C21 -- External tensor data cannot escape the model directory or its file bounds.
   Only statements; every proof is `exact <lemma>`.  Paths are byte lists; SLASH = 47,
   DOT = 46.  [components]/[extension]/[push] are the hand model of libstd's Unix
   std::path (trusted base, tied to the real libstd by the correspondence check). *)
From RV Require Import Prelude.
From ExtData Require Import ExtData ExtData_proofs ExtData_bounds ExtData_oracle.
Open Scope N_scope.

(* (1) The path policy only admits a single plain file name with a recognised extension,
       possibly followed by separators and "/." noise that std's component iteration drops
       (the OS then requires the name to be a directory, so a regular data file fails to open). *)
Theorem C21_allowed_is_plain_filename : forall p, allowed p = true ->
  exists name tail,
    p = name ++ tail /\
    (name <> [] /\ ~ In SLASH name /\ name <> [DOT] /\ name <> [DOT; DOT]) /\
    (exists e, name_extension name = Some e /\
               (prefixb DATA e || prefixb ONNX_DATA e) = true) /\
    components p = [Normal name] /\
    (tail = [] \/ exists t, tail = SLASH :: t) /\ body tail = [].
Proof. exact allowed_is_plain_filename. Qed.

(* (2) and admits every such name (no false rejections of plain names) *)
Theorem C21_plain_filename_allowed : forall name,
  plain_name name -> ext_ok name -> allowed name = true.
Proof. exact plain_filename_allowed. Qed.

(* (3) Joining an allowed location to an absolute model directory with PathBuf::push names
       a direct child of that directory: the components of the result are those of the
       directory followed by exactly one Normal component (no "..", no root reset). *)
Theorem C21_join_stays_in_dir : forall dir p,
  allowed p = true -> (exists d, dir = SLASH :: d) ->
  exists name, plain_name name /\ ext_ok name /\
    components (push dir p) = components dir ++ [Normal name].
Proof. exact join_stays_in_dir. Qed.

(* (4) Bounds, for all three loaders, all u64 offset/length (no bound on them is needed:
       saturating/wrapping arithmetic is modelled), both build modes, any file no longer than
       isize::MAX (a Rust slice / Vec invariant): a successful load returns exactly
       file[offset, offset+length) and that range lies inside the file. *)
Theorem C21_load_in_bounds : forall dbg ld p fs offset length d,
  (forall c, fs = FsFile c -> lenN c <= isize_max) ->
  load dbg ld p fs offset length = OOk d ->
  exists c, fs = FsFile c /\ allowed p = true /\
            offset + length <= lenN c /\
            d = firstn (N.to_nat length) (skipn (N.to_nat offset) c) /\
            lenN d = length.
Proof. exact load_in_bounds. Qed.

(* (5) Totality: every load is either data or one of the load errors; the Panic, Abort,
       fuel-exhaustion and wrong-length outcomes of the model are unreachable. *)
Theorem C21_load_total : forall dbg ld p fs offset length,
  (forall c, fs = FsFile c -> lenN c <= isize_max) ->
  (exists d, load dbg ld p fs offset length = OOk d) \/
  is_error (load dbg ld p fs offset length) = true.
Proof. exact load_total. Qed.

(* (6) Every range that does not lie inside the file is a load error ... *)
Theorem C21_out_of_range_is_error : forall dbg ld p c offset length,
  lenN c <= isize_max -> lenN c < offset + length ->
  is_error (load dbg ld p (FsFile c) offset length) = true.
Proof. exact load_out_of_range_is_error. Qed.

(* (7) ... and so is every location the policy rejects, whatever the file system holds. *)
Theorem C21_disallowed_is_error : forall dbg ld p fs offset length,
  allowed p = false ->
  load dbg ld p fs offset length = ODisallowed \/
  (ld = File /\ load dbg ld p fs offset length = OInvalidLength).
Proof. exact load_disallowed_is_error. Qed.

(* (8) FileLoader's chunked read loop returns exactly the first `remaining` available bytes,
       for every positive chunk size (TMP_SIZE is a parameter, not a pinned constant). *)
Theorem C21_read_loop_spec : forall T, 0 < T -> forall fuel avail remaining buf,
  remaining / T < N.of_nat fuel ->
  read_loop fuel T avail remaining buf = Done (buf ++ firstn (N.to_nat remaining) avail).
Proof. exact read_loop_spec. Qed.

(* (9) The executable oracles of the correspondence check mean what they say, and the
       proved policy is at least as strict as the oracle. *)
Theorem C21_prop_ok_sound : forall c, prop_ok c = true ->
  match c_impl c with
  | OOk d => lex_child (c_path c) = true /\
             exists flen, c_fs c = KFile flen /\ c_offset c + c_length c <= flen /\
               d = firstn (N.to_nat (c_length c)) (skipn (N.to_nat (c_offset c)) (content flen))
  | OShapeMismatch _ | OPanic | OAbort | OOther => False
  | _ => True
  end.
Proof. exact prop_ok_sound. Qed.

Theorem C21_lex_child_sound : forall p, lex_child p = true ->
  relative p /\
  exists name, filter (fun c => negb (noise c)) (split_sep p) = [name] /\ plain_name name /\ ext_ok name.
Proof. exact lex_child_sound. Qed.

Theorem C21_allowed_implies_lex_child : forall p, allowed p = true -> lex_child p = true.
Proof. exact allowed_implies_lex_child. Qed.

(* non-vacuity: allowed and rejected locations, an in-range and an overflowing request *)
Example C21_nonvacuous :
  allowed [119;46;100;97;116;97] = true /\                       (* "w.data" *)
  allowed [119;46;100;97;116;97;47;46] = true /\                 (* "w.data/." *)
  allowed [46;46;47;119;46;100;97;116;97] = false /\             (* "../w.data" *)
  allowed [47;119;46;100;97;116;97] = false /\                   (* "/w.data" *)
  allowed [46;47;119;46;100;97;116;97] = false /\                (* "./w.data" *)
  allowed [119;46;116;120;116] = false /\                        (* "w.txt" *)
  components (push [47;109] [119;46;100;97;116;97]) = [Root; Normal [109]; Normal [119;46;100;97;116;97]] /\
  load false Mem [119;46;100;97;116;97] (FsFile (content 64)) 8 4 = OOk [56; 93; 130; 167] /\
  load false Mmap [119;46;100;97;116;97] (FsFile (content 64)) 18446744073709551615 8 = OTooShort 18446744073709551615 64 /\
  load true File [119;46;100;97;116;97] (FsFile (content 64)) 60 5 = OTooShort 65 64 /\
  load false File [119;46;100;97;116;97] (FsFile (content 64)) 0 9223372036854775808 = OInvalidLength.
Proof. repeat split; vm_compute; reflexivity. Qed.
