(* Bounds of the three loaders (C21): a successful load returns exactly
   file[offset, offset+length), which lies inside the file; nothing panics; every
   out-of-range request is an error. *)
From RV Require Import Prelude.
From ExtData Require Import ExtData ExtData_proofs.
Open Scope N_scope.

(* ------------------------------------------------------------ list/N helpers *)
Lemma firstn_add_nat {A} a b (l : list A) :
  firstn (a + b) l = firstn a l ++ firstn b (skipn a l).
Proof.
  revert l; induction a as [|a IH]; intros l; [reflexivity|].
  destruct l as [|x l]; cbn [Nat.add firstn skipn app].
  - rewrite firstn_nil. reflexivity.
  - rewrite IH. reflexivity.
Qed.

Lemma lenN_firstn n (l : list N) : lenN (firstn (N.to_nat n) l) = N.min n (lenN l).
Proof.
  unfold lenN. rewrite firstn_length.
  destruct (N.min_spec n (N.of_nat (length l))) as [[H ->]|[H ->]];
  destruct (Nat.min_spec (N.to_nat n) (length l)) as [[H' ->]|[H' ->]]; lia.
Qed.

Lemma lenN_skipn n (l : list N) : lenN (skipn (N.to_nat n) l) = lenN l - n.
Proof. unfold lenN. rewrite skipn_length. lia. Qed.

Lemma lenN_app (a b : list N) : lenN (a ++ b) = lenN a + lenN b.
Proof. unfold lenN. rewrite app_length. lia. Qed.

Lemma firstn_all_N n (l : list N) : lenN l <= n -> firstn (N.to_nat n) l = l.
Proof. unfold lenN. intros H. apply firstn_all2. lia. Qed.

Lemma firstn_add_N a b (l : list N) :
  firstn (N.to_nat (a + b)) l = firstn (N.to_nat a) l ++ firstn (N.to_nat b) (skipn (N.to_nat a) l).
Proof. rewrite N2Nat.inj_add. apply firstn_add_nat. Qed.

(* ------------------------------------------------------------ FileLoader's read loop *)
Lemma read_loop_spec T : 0 < T -> forall fuel avail remaining buf,
  remaining / T < N.of_nat fuel ->
  read_loop fuel T avail remaining buf = Done (buf ++ firstn (N.to_nat remaining) avail).
Proof.
  intros HT. induction fuel as [|f IH]; intros avail remaining buf Hf.
  - exfalso. exact (N.nlt_0_r _ Hf).
  - cbn [read_loop].
    set (tmp := N.min remaining T).
    set (chunk := firstn (N.to_nat tmp) avail).
    assert (Hn : lenN chunk = N.min tmp (lenN avail)) by (apply lenN_firstn).
    destruct ((lenN chunk <? T) || (remaining - lenN chunk =? 0)) eqn:E.
    + f_equal. f_equal. unfold chunk.
      destruct (N.le_gt_cases remaining T) as [Hle|Hgt].
      * unfold tmp. rewrite N.min_l by exact Hle. reflexivity.
      * assert (Htmp : tmp = T) by (unfold tmp; lia). rewrite Htmp in *.
        apply orb_true_iff in E. destruct E as [E|E].
        -- apply N.ltb_lt in E. assert (lenN avail < T) by lia.
           rewrite !firstn_all_N by lia. reflexivity.
        -- apply N.eqb_eq in E. lia.
    + apply orb_false_iff in E. destruct E as [E1 E2].
      apply N.ltb_ge in E1. apply N.eqb_neq in E2.
      assert (Htmp : tmp = T) by (unfold tmp in *; lia).
      assert (Hc : lenN chunk = T) by lia.
      rewrite Hc. unfold chunk. rewrite Htmp.
      rewrite IH.
      * rewrite <- app_assoc. f_equal. f_equal.
        replace remaining with (T + (remaining - T)) at 2 by lia.
        rewrite firstn_add_N. reflexivity.
      * assert (Hd : remaining / T = 1 + (remaining - T) / T).
        { replace remaining with (1 * T + (remaining - T)) at 1 by lia.
          rewrite N.div_add_l by lia. reflexivity. }
        rewrite Nat2N.inj_succ in Hf. lia.
Qed.

(* ------------------------------------------------------------ range arithmetic *)
Lemma isize_lt_u64 : isize_max < u64_max. Proof. reflexivity. Qed.

Lemma range_accepted clen offset length :
  clen <= isize_max -> (clen <? sat_add64 offset length) = false ->
  offset + length <= clen /\ sat_add64 offset length = offset + length.
Proof.
  intros Hc H. apply N.ltb_ge in H. unfold sat_add64 in *.
  pose proof isize_lt_u64. lia.
Qed.

Lemma range_rejected clen offset length :
  (clen <? sat_add64 offset length) = true -> clen < offset + length.
Proof. intros H. apply N.ltb_lt in H. unfold sat_add64 in H. lia. Qed.

Lemma slice_ok c s e : s <= e -> e <= lenN c ->
  slice c s e = OOk (firstn (N.to_nat (e - s)) (skipn (N.to_nat s) c)).
Proof.
  intros H1 H2. unfold slice.
  apply N.leb_le in H1, H2. rewrite H1, H2. reflexivity.
Qed.

Lemma lenN_range c offset length : offset + length <= lenN c ->
  lenN (firstn (N.to_nat length) (skipn (N.to_nat offset) c)) = length.
Proof. intros H. rewrite lenN_firstn, lenN_skipn. lia. Qed.

(* the three range functions, when the range check passes *)
Lemma mem_range_ok c offset length :
  lenN c <= isize_max -> (lenN c <? sat_add64 offset length) = false ->
  mem_range c offset length = OOk (firstn (N.to_nat length) (skipn (N.to_nat offset) c)).
Proof.
  intros Hc H. unfold mem_range. cbv zeta. rewrite H.
  destruct (range_accepted _ _ _ Hc H) as [Hle Hs]. rewrite Hs.
  rewrite slice_ok by lia. do 3 f_equal. lia.
Qed.

Lemma mmap_range_ok dbg c offset length :
  lenN c <= isize_max -> (lenN c <? sat_add64 offset length) = false ->
  mmap_range dbg c offset length = OOk (firstn (N.to_nat length) (skipn (N.to_nat offset) c)).
Proof.
  intros Hc H. unfold mmap_range. cbv zeta. rewrite H.
  destruct (range_accepted _ _ _ Hc H) as [Hle Hs].
  unfold add_usize.
  assert (Hlt : (offset + length <? two64) = true).
  { apply N.ltb_lt. unfold isize_max, two64 in *. lia. }
  rewrite Hlt. rewrite slice_ok by lia. do 3 f_equal. lia.
Qed.

Lemma file_range_ok T c offset length : 0 < T ->
  lenN c <= isize_max -> (lenN c <? sat_add64 offset length) = false ->
  file_range T c offset length = OOk (firstn (N.to_nat length) (skipn (N.to_nat offset) c)).
Proof.
  intros HT Hc H. unfold file_range. cbv zeta. rewrite H.
  destruct (range_accepted _ _ _ Hc H) as [Hle Hs].
  rewrite (read_loop_spec T HT).
  - cbn [app]. rewrite lenN_range by exact Hle. rewrite N.eqb_refl. reflexivity.
  - rewrite Nat2N.inj_succ, N2Nat.id. lia.
Qed.

(* ------------------------------------------------------------ the theorems *)
Definition file_ok (fs : fsres) : Prop :=
  forall c, fs = FsFile c -> lenN c <= isize_max.

Theorem load_in_bounds dbg ld p fs offset length d :
  file_ok fs ->
  load dbg ld p fs offset length = OOk d ->
  exists c, fs = FsFile c /\ allowed p = true /\
            offset + length <= lenN c /\
            d = firstn (N.to_nat length) (skipn (N.to_nat offset) c) /\
            lenN d = length.
Proof.
  intros Hfs H. unfold load in H.
  assert (Hmain : forall c (range : outcome),
            fs = FsFile c -> allowed p = true ->
            ((lenN c <? sat_add64 offset length) = false ->
              range = OOk (firstn (N.to_nat length) (skipn (N.to_nat offset) c))) ->
            ((lenN c <? sat_add64 offset length) = true -> exists r a, range = OTooShort r a) ->
            range = OOk d ->
            exists c, fs = FsFile c /\ allowed p = true /\ offset + length <= lenN c /\
              d = firstn (N.to_nat length) (skipn (N.to_nat offset) c) /\ lenN d = length).
  { intros c range Hf Ha Hok Hbad Hr.
    destruct (lenN c <? sat_add64 offset length) eqn:E.
    - destruct (Hbad eq_refl) as (r & a & Hx). congruence.
    - specialize (Hok eq_refl). rewrite Hok in Hr. inversion Hr; subst d.
      destruct (range_accepted _ _ _ (Hfs c Hf) E) as [Hle _].
      exists c. repeat split; try assumption. apply lenN_range. exact Hle. }
  destruct ld.
  - destruct (allowed p) eqn:Ha; cbn [negb] in H; [|discriminate].
    destruct fs as [c| | |]; try discriminate.
    apply (Hmain c (mem_range c offset length)); auto.
    + intros E. apply mem_range_ok; auto.
    + intros E. unfold mem_range. cbv zeta. rewrite E. eauto.
  - destruct (isize_max <? length); [discriminate|].
    destruct (allowed p) eqn:Ha; cbn [negb] in H; [|discriminate].
    destruct fs as [c|dl| |]; try discriminate.
    + apply (Hmain c (file_range TMP_SIZE c offset length)); auto.
      * intros E. apply file_range_ok; auto. reflexivity.
      * intros E. unfold file_range. cbv zeta. rewrite E. eauto.
    + destruct (dl <? sat_add64 offset length); discriminate.
  - destruct (allowed p) eqn:Ha; cbn [negb] in H; [|discriminate].
    destruct fs as [c| | |]; try discriminate.
    apply (Hmain c (mmap_range dbg c offset length)); auto.
    + intros E. apply mmap_range_ok; auto.
    + intros E. unfold mmap_range. cbv zeta. rewrite E. eauto.
Qed.

(* no panic, abort, fuel exhaustion, and a loaded slice always has the declared length *)
Definition is_error (o : outcome) : bool :=
  match o with
  | ODisallowed | ONotFound | OTooShort _ _ | OInvalidLength | OIo => true
  | _ => false
  end.

Theorem load_total dbg ld p fs offset length :
  file_ok fs ->
  (exists d, load dbg ld p fs offset length = OOk d) \/
  is_error (load dbg ld p fs offset length) = true.
Proof.
  intros Hfs. unfold load.
  assert (Hr : forall c (range : outcome),
     ((lenN c <? sat_add64 offset length) = false -> exists d, range = OOk d) ->
     ((lenN c <? sat_add64 offset length) = true -> exists r a, range = OTooShort r a) ->
     (exists d, range = OOk d) \/ is_error range = true).
  { intros c range H1 H2. destruct (lenN c <? sat_add64 offset length).
    - destruct (H2 eq_refl) as (r & a & ->). right. reflexivity.
    - left. apply H1. reflexivity. }
  destruct ld.
  - destruct (allowed p); cbn [negb]; [|right; reflexivity].
    destruct fs as [c| | |]; try (right; reflexivity).
    apply (Hr c).
    + intros E. eexists. apply mem_range_ok; auto.
    + intros E. unfold mem_range. cbv zeta. rewrite E. eauto.
  - destruct (isize_max <? length); [right; reflexivity|].
    destruct (allowed p); cbn [negb]; [|right; reflexivity].
    destruct fs as [c|dl| |]; try (right; reflexivity).
    + apply (Hr c).
      * intros E. eexists. apply file_range_ok; auto. reflexivity.
      * intros E. unfold file_range. cbv zeta. rewrite E. eauto.
    + destruct (dl <? sat_add64 offset length); right; reflexivity.
  - destruct (allowed p); cbn [negb]; [|right; reflexivity].
    destruct fs as [c| | |]; try (right; reflexivity).
    apply (Hr c).
    + intros E. eexists. apply mmap_range_ok; auto.
    + intros E. unfold mmap_range. cbv zeta. rewrite E. eauto.
Qed.

(* every request that does not lie inside the file is an error *)
Theorem load_out_of_range_is_error dbg ld p c offset length :
  lenN c <= isize_max ->
  lenN c < offset + length ->
  is_error (load dbg ld p (FsFile c) offset length) = true.
Proof.
  intros Hc Hlt.
  assert (Hfs : file_ok (FsFile c)) by (intros c' E; inversion E; subst; exact Hc).
  destruct (load_total dbg ld p (FsFile c) offset length Hfs) as [[d Hd]|He]; [|exact He].
  exfalso. destruct (load_in_bounds _ _ _ _ _ _ _ Hfs Hd) as (c' & E & _ & Hle & _).
  inversion E; subst c'. lia.
Qed.

(* every disallowed location is an error, whatever the file system holds *)
Theorem load_disallowed_is_error dbg ld p fs offset length :
  allowed p = false ->
  load dbg ld p fs offset length = ODisallowed \/
  (ld = File /\ load dbg ld p fs offset length = OInvalidLength).
Proof.
  intros Ha. unfold load. destruct ld; rewrite Ha; cbn [negb]; auto.
  destruct (isize_max <? length); auto.
Qed.
