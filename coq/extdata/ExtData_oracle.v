(* Reflection of the executable property oracle used by the correspondence check (C21),
   and its relation to the proved policy. *)
From RV Require Import Prelude.
From ExtData Require Import ExtData ExtData_proofs ExtData_bounds.
Open Scope N_scope.

Lemma plain_nameb_spec n : plain_nameb n = true <-> plain_name n.
Proof.
  unfold plain_nameb, plain_name. rewrite !andb_true_iff, !negb_true_iff, !list_eqb_false.
  assert (Hx : existsb (N.eqb SLASH) n = false <-> ~ In SLASH n).
  { split.
    - intros H Hin. assert (existsb (N.eqb SLASH) n = true); [|congruence].
      apply existsb_exists. exists SLASH. split; [exact Hin|apply N.eqb_refl].
    - intros H. destruct (existsb (N.eqb SLASH) n) eqn:E; [|reflexivity].
      apply existsb_exists in E. destruct E as (x & Hin & Hx). apply N.eqb_eq in Hx. subst x. contradiction. }
  rewrite Hx. tauto.
Qed.

Definition relative (p : list N) : Prop := match p with b :: _ => b <> SLASH | [] => True end.

(* what the oracle [lex_child] means *)
Lemma lex_child_sound p : lex_child p = true ->
  relative p /\
  exists name, filter (fun c => negb (noise c)) (split_sep p) = [name] /\ plain_name name /\ ext_ok name.
Proof.
  unfold lex_child. intros H. split.
  - destruct p as [|b r]; [exact I|]. cbn. destruct (b =? SLASH) eqn:E; [discriminate|]. apply N.eqb_neq. exact E.
  - destruct (match p with b :: _ => b =? SLASH | [] => false end); [discriminate|].
    destruct (filter (fun c => negb (noise c)) (split_sep p)) as [|n [|n2 rest]]; try discriminate.
    apply andb_true_iff in H. destruct H as [Hp He].
    exists n. split; [reflexivity|]. split; [apply plain_nameb_spec; exact Hp|].
    destruct (name_extension n) as [e|] eqn:Ee; [|discriminate]. exists e. split; [exact Ee|exact He].
Qed.

Lemma split_sep_no_sep s : ~ In SLASH s -> split_sep s = [s].
Proof.
  induction s as [|b s IH]; intros H; cbn [split_sep]; [reflexivity|].
  destruct (b =? SLASH) eqn:E; [apply N.eqb_eq in E; subst b; exfalso; apply H; left; reflexivity|].
  rewrite IH; [reflexivity|]. intros Hin. apply H. right. exact Hin.
Qed.

Lemma opt_filter_nil_noise l : opt_filter l = [] -> filter (fun c => negb (noise c)) l = [].
Proof.
  induction l as [|c l IH]; cbn [opt_filter filter]; [reflexivity|].
  unfold single_component, noise.
  destruct (list_eqb c []); cbn [orb negb]; [exact IH|].
  destruct (list_eqb c [DOT]); cbn [orb negb]; [exact IH|].
  destruct (list_eqb c [DOT; DOT]); discriminate.
Qed.

(* the implemented policy is at least as strict as the oracle *)
Lemma allowed_implies_lex_child p : allowed p = true -> lex_child p = true.
Proof.
  intros Ha.
  destruct (allowed_is_plain_filename p Ha) as (name & tail & Hp & Hpl & (e & He & Hg) & _ & Ht & Hbt).
  assert (Hpl' := Hpl). destruct Hpl' as (Hne & Hns & Hd & Hdd).
  unfold lex_child.
  assert (Hrel : match p with b :: _ => b =? SLASH | [] => false end = false).
  { destruct name as [|b r]; [contradiction|]. rewrite Hp. cbn [app].
    destruct (b =? SLASH) eqn:E; [|reflexivity]. apply N.eqb_eq in E. subst b.
    exfalso. apply Hns. left. reflexivity. }
  rewrite Hrel.
  assert (Hf : filter (fun c => negb (noise c)) (split_sep p) = [name]).
  { assert (Hkeep : negb (noise name) = true).
    { unfold noise. apply list_eqb_false in Hne, Hd. rewrite Hne, Hd. reflexivity. }
    destruct Ht as [->|[t ->]].
    - rewrite app_nil_r in Hp. subst p. rewrite split_sep_no_sep by exact Hns.
      cbn [filter]. rewrite Hkeep. reflexivity.
    - subst p. rewrite split_sep_app, split_sep_no_sep by exact Hns.
      cbn [app filter]. rewrite Hkeep. rewrite body_slash in Hbt.
      unfold body in Hbt. rewrite (opt_filter_nil_noise _ Hbt). reflexivity. }
  rewrite Hf. apply (proj2 (plain_nameb_spec name)) in Hpl. rewrite Hpl, He. exact Hg.
Qed.

(* what [prop_ok] certifies about an observed outcome *)
Lemma prop_ok_sound c : prop_ok c = true ->
  match c_impl c with
  | OOk d => lex_child (c_path c) = true /\
             exists flen, c_fs c = KFile flen /\ c_offset c + c_length c <= flen /\
               d = firstn (N.to_nat (c_length c)) (skipn (N.to_nat (c_offset c)) (content flen))
  | OShapeMismatch _ | OPanic | OAbort | OOther => False
  | _ => True
  end.
Proof.
  unfold prop_ok. destruct (c_impl c); try (intros; exact I); try discriminate.
  destruct (lex_child (c_path c)); cbn [negb]; [|discriminate].
  destruct (c_fs c) as [flen| | |]; try discriminate.
  destruct (c_offset c + c_length c <=? flen) eqn:E; [|discriminate].
  intros H. split; [reflexivity|]. exists flen. split; [reflexivity|].
  split; [apply N.leb_le; exact E|]. apply list_eqb_spec. exact H.
Qed.

Lemma content_from_length n i : length (content_from n i) = n.
Proof. revert i; induction n; intros; cbn [content_from length]; [reflexivity|]. rewrite IHn. reflexivity. Qed.

Lemma lenN_content len : lenN (content len) = len.
Proof. unfold lenN, content. rewrite content_from_length. apply N2Nat.id. Qed.
