(* Proofs about the path policy and the loaders' bounds (C21). *)
From RV Require Import Prelude.
From ExtData Require Import ExtData.
Open Scope N_scope.

(* ------------------------------------------------------------ basic reflection *)
Lemma list_eqb_spec a b : list_eqb a b = true <-> a = b.
Proof.
  revert b; induction a as [|x a IH]; intros [|y b]; cbn [list_eqb]; try (split; congruence).
  rewrite andb_true_iff, N.eqb_eq, IH. split.
  - intros [-> ->]; reflexivity.
  - intros H; inversion H; auto.
Qed.

Lemma list_eqb_false a b : list_eqb a b = false <-> a <> b.
Proof.
  split.
  - intros H E. apply list_eqb_spec in E. congruence.
  - intros H. destruct (list_eqb a b) eqn:E; [apply list_eqb_spec in E; contradiction|reflexivity].
Qed.

Lemma list_eqb_refl a : list_eqb a a = true.
Proof. apply list_eqb_spec; reflexivity. Qed.

(* ------------------------------------------------------------ split_sep *)
Lemma split_sep_nonempty s : split_sep s <> [].
Proof.
  destruct s as [|b r]; cbn [split_sep]; [discriminate|].
  destruct (b =? SLASH); [discriminate|]. destruct (split_sep r); discriminate.
Qed.

(* first piece / remainder decomposition *)
Lemma split_first s :
  exists h rest, s = h ++ rest /\ ~ In SLASH h /\
    ((rest = [] /\ split_sep s = [h]) \/
     (exists r, rest = SLASH :: r /\ split_sep s = h :: split_sep r)).
Proof.
  induction s as [|b s IH].
  - exists [], []. split; [reflexivity|]. split; [intros []|]. left; split; reflexivity.
  - cbn [split_sep]. destruct (b =? SLASH) eqn:Eb.
    + apply N.eqb_eq in Eb; subst b. exists [], (SLASH :: s). split; [reflexivity|].
      split; [intros []|]. right. exists s. split; reflexivity.
    + destruct IH as (h & rest & Hs & Hn & Hc).
      exists (b :: h), rest. split; [subst s; reflexivity|]. split.
      { intros [E|E]; [subst b; rewrite N.eqb_refl in Eb; discriminate|contradiction]. }
      destruct Hc as [[Hr Hsp]|[r [Hr Hsp]]]; rewrite Hsp.
      * left. split; [exact Hr|reflexivity].
      * right. exists r. split; [exact Hr|reflexivity].
Qed.

Lemma split_sep_app a b : split_sep (a ++ SLASH :: b) = split_sep a ++ split_sep b.
Proof.
  induction a as [|x a IH]; cbn [app split_sep].
  - rewrite N.eqb_refl. reflexivity.
  - destruct (x =? SLASH); [rewrite IH; reflexivity|].
    rewrite IH. destruct (split_sep a) as [|h t] eqn:E; [exfalso; eapply split_sep_nonempty; eauto|].
    reflexivity.
Qed.

Lemma split_sep_no_slash s : Forall (fun c => ~ In SLASH c) (split_sep s).
Proof.
  induction s as [|b s IH]; cbn [split_sep].
  - constructor; [intros []|constructor].
  - destruct (b =? SLASH) eqn:Eb.
    + constructor; [intros []|exact IH].
    + destruct (split_sep s) as [|h t]; [constructor; [|constructor]|].
      * intros [E|[]]. subst b. rewrite N.eqb_refl in Eb. discriminate.
      * inversion IH; subst. constructor; [|assumption].
        intros [E|E]; [subst b; rewrite N.eqb_refl in Eb; discriminate|contradiction].
Qed.

Lemma opt_filter_app a b : opt_filter (a ++ b) = opt_filter a ++ opt_filter b.
Proof.
  induction a as [|c a IH]; cbn [app opt_filter]; [reflexivity|].
  destruct (single_component c); rewrite IH; reflexivity.
Qed.

Lemma body_app a b : body (a ++ SLASH :: b) = body a ++ body b.
Proof. unfold body. rewrite split_sep_app, opt_filter_app. reflexivity. Qed.

Lemma body_nil : body [] = [].
Proof. reflexivity. Qed.

Lemma body_slash r : body (SLASH :: r) = body r.
Proof. unfold body. cbn [split_sep]. rewrite N.eqb_refl. reflexivity. Qed.

(* single_component characterisation *)
Lemma single_component_normal c n :
  single_component c = Some (Normal n) -> n = c /\ c <> [] /\ c <> [DOT] /\ c <> [DOT; DOT].
Proof.
  unfold single_component.
  destruct (list_eqb c []) eqn:E1; [discriminate|].
  destruct (list_eqb c [DOT]) eqn:E2; [discriminate|].
  destruct (list_eqb c [DOT; DOT]) eqn:E3; [discriminate|].
  intros H; inversion H; subst. apply list_eqb_false in E1, E2, E3. auto.
Qed.

Lemma single_component_of_plain c :
  c <> [] -> c <> [DOT] -> c <> [DOT; DOT] -> single_component c = Some (Normal c).
Proof.
  intros H1 H2 H3. unfold single_component.
  apply list_eqb_false in H1, H2, H3. rewrite H1, H2, H3. reflexivity.
Qed.

(* ------------------------------------------------------------ the policy *)
Definition ext_ok (name : list N) : Prop :=
  exists e, name_extension name = Some e /\ good_ext e = true.

(* structure of a path whose components are a single Normal *)
Lemma single_normal_structure p name :
  components p = [Normal name] ->
  exists tail, p = name ++ tail /\ plain_name name /\ body p = [Normal name] /\
               (tail = [] \/ exists t, tail = SLASH :: t) /\ body tail = [].
Proof.
  intros Hc. destruct p as [|b r]; [discriminate Hc|].
  cbn [components] in Hc.
  destruct (b =? SLASH) eqn:Eb; [discriminate Hc|].
  destruct ((b =? DOT) && match r with [] => true | b2 :: _ => b2 =? SLASH end) eqn:Ecur; [discriminate Hc|].
  destruct (split_first (b :: r)) as (h & rest & Hs & Hn & Hcase).
  assert (Hb : body (b :: r) = opt_filter (split_sep (b :: r))) by reflexivity.
  rewrite Hb in Hc.
  assert (Hh : h <> []).
  { intros ->. cbn [app] in Hs. destruct Hcase as [[Hr _]|[r' [Hr _]]]; subst rest; [discriminate Hs|].
    inversion Hs; subst. rewrite N.eqb_refl in Eb. discriminate. }
  assert (Hd : h <> [DOT]).
  { intros ->. destruct Hcase as [[Hr _]|[r' [Hr _]]]; subst rest; cbn [app] in Hs; inversion Hs; subst.
    - cbn in Ecur. discriminate.
    - cbn in Ecur. discriminate. }
  destruct Hcase as [[Hr Hsp]|[r' [Hr Hsp]]]; rewrite Hsp in Hc; cbn [opt_filter] in Hc;
    destruct (single_component h) as [k|] eqn:Ek.
  - inversion Hc; subst k. apply single_component_normal in Ek. destruct Ek as (-> & _ & _ & Hdd).
    exists []. subst rest. split; [exact Hs|]. split; [repeat split; assumption|].
    split; [rewrite Hb, Hsp; cbn [opt_filter]; rewrite (single_component_of_plain h Hh Hd Hdd); reflexivity|].
    split; [left; reflexivity|reflexivity].
  - discriminate Hc.
  - inversion Hc as [[Hk Hrest]]. subst k. apply single_component_normal in Ek. destruct Ek as (-> & _ & _ & Hdd).
    exists (SLASH :: r'). split; [try subst rest; exact Hs|]. split; [repeat split; assumption|].
    split; [rewrite Hb, Hsp; cbn [opt_filter]; rewrite (single_component_of_plain h Hh Hd Hdd); rewrite Hrest; reflexivity|].
    split; [right; exists r'; reflexivity|]. rewrite body_slash. first [exact Hrest | reflexivity | (unfold body; rewrite Hrest; reflexivity)].
  - unfold single_component in Ek.
    apply list_eqb_false in Hh, Hd. rewrite Hh, Hd in Ek. destruct (list_eqb h [DOT; DOT]); discriminate Ek.
Qed.

Lemma allowed_components p : allowed p = true ->
  exists name, components p = [Normal name] /\ ext_ok name.
Proof.
  unfold allowed. destruct (components p) as [|[| | |name] rest] eqn:Ec; try discriminate.
  destruct rest; [|discriminate].
  unfold extension, file_name. rewrite Ec. cbn [rev app].
  destruct (name_extension name) as [e|] eqn:Ee; [|discriminate].
  intros Hg. exists name. split; [reflexivity|]. exists e. split; assumption.
Qed.

Lemma allowed_is_plain_filename p : allowed p = true ->
  exists name tail,
    p = name ++ tail /\ plain_name name /\ ext_ok name /\
    components p = [Normal name] /\
    (tail = [] \/ exists t, tail = SLASH :: t) /\ body tail = [].
Proof.
  intros H. destruct (allowed_components p H) as (name & Hc & He).
  destruct (single_normal_structure p name Hc) as (tail & Hp & Hpl & _ & Ht & Hbt).
  exists name, tail. repeat split; try assumption; apply Hpl.
Qed.

(* completeness: every plain file name with a recognised extension is allowed *)
Lemma plain_components name : plain_name name -> components name = [Normal name].
Proof.
  intros (Hne & Hns & Hd & Hdd).
  destruct name as [|b r]; [contradiction|]. cbn [components].
  destruct (b =? SLASH) eqn:Eb; [apply N.eqb_eq in Eb; subst b; exfalso; apply Hns; left; reflexivity|].
  assert (Ecur : (b =? DOT) && match r with [] => true | b2 :: _ => b2 =? SLASH end = false).
  { destruct (b =? DOT) eqn:Ed; [|reflexivity]. apply N.eqb_eq in Ed; subst b. cbn [andb].
    destruct r as [|b2 r2]; [exfalso; apply Hd; reflexivity|].
    destruct (b2 =? SLASH) eqn:E2; [|reflexivity]. apply N.eqb_eq in E2; subst b2.
    exfalso; apply Hns; right; left; reflexivity. }
  rewrite Ecur.
  destruct (split_first (b :: r)) as (h & rest & Hs & Hn & [[Hr Hsp]|[r' [Hr Hsp]]]).
  - subst rest. rewrite app_nil_r in Hs. subst h. unfold body. rewrite Hsp. cbn [opt_filter].
    rewrite single_component_of_plain by assumption. reflexivity.
  - exfalso. apply Hns. rewrite Hs, Hr. apply in_or_app. right. left. reflexivity.
Qed.

Lemma plain_filename_allowed name :
  plain_name name -> ext_ok name -> allowed name = true.
Proof.
  intros Hp (e & He & Hg). unfold allowed, extension, file_name.
  rewrite (plain_components name Hp). cbn [rev app]. rewrite He. exact Hg.
Qed.

(* ------------------------------------------------------------ joining with the model directory *)
Lemma rev_cons_last {A} (l : list A) x r : rev l = x :: r -> l = rev r ++ [x].
Proof. intros H. rewrite <- (rev_involutive l), H. reflexivity. Qed.

Lemma join_stays_in_dir dir p :
  allowed p = true -> (exists d, dir = SLASH :: d) ->
  exists name, plain_name name /\ ext_ok name /\
    components (push dir p) = components dir ++ [Normal name].
Proof.
  intros Ha [d Hd].
  destruct (allowed_components p Ha) as (name & Hc & He).
  destruct (single_normal_structure p name Hc) as (tail & Hp & Hpl & Hb & _ & _).
  exists name. split; [exact Hpl|]. split; [exact He|].
  assert (Hrel : match p with b :: _ => b =? SLASH | [] => false end = false).
  { destruct Hpl as (Hne & Hns & _). destruct name as [|b r]; [contradiction|].
    rewrite Hp. cbn [app]. destruct (b =? SLASH) eqn:E; [|reflexivity].
    apply N.eqb_eq in E. subst b. exfalso. apply Hns. left. reflexivity. }
  unfold push. rewrite Hrel.
  assert (Hcd : forall x, components (SLASH :: x) = Root :: body x).
  { intros x. cbn [components]. rewrite N.eqb_refl. reflexivity. }
  destruct (rev dir) as [|l r] eqn:Er.
  { subst dir. cbn [rev] in Er. destruct (rev d); discriminate Er. }
  apply rev_cons_last in Er.
  destruct (l =? SLASH) eqn:El.
  - apply N.eqb_eq in El. subst l.
    (* dir = rev r ++ [SLASH] *)
    destruct (rev r) as [|x0 d0] eqn:Erd.
    + (* dir = "/" *) rewrite Er. cbn [app]. rewrite !Hcd. rewrite body_nil. cbn [app]. rewrite Hb. reflexivity.
    + rewrite Er. cbn [app]. rewrite Hd in Er. cbn [app] in Er. inversion Er; subst x0.
      rewrite <- app_assoc. cbn [app]. rewrite !Hcd. rewrite !body_app. rewrite body_nil, Hb.
      rewrite app_nil_r. reflexivity.
  - subst dir. cbn [app]. rewrite !Hcd. rewrite body_app, Hb. reflexivity.
Qed.
