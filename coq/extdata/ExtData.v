(* Model of src/model/external_data.rs (rten) for property C21.

   Paths are byte lists (Unix).  [components] is a hand model of libstd's
   std::path::Path::components for Unix paths (library/std/src/path.rs: has_physical_root,
   include_cur_dir, parse_single_component); [extension] models Path::extension
   (file_name + rsplit_file_at_dot); [push] models PathBuf::push.  These three are part of the
   trusted base and are tied to the real libstd by the correspondence check.
   [allowed] is is_allowed_external_data_path; [load] is the decision logic of
   MemLoader::load / MmapLoader::load / FileLoader::read.
   [dbg = true] models a build with overflow checks (usize `+` panics on overflow);
   [dbg = false] a release build (wraps). *)
From RV Require Import Prelude.
Open Scope N_scope.

Definition SLASH : N := 47.
Definition DOT : N := 46.

Fixpoint list_eqb (a b : list N) : bool :=
  match a, b with
  | [], [] => true
  | x :: a', y :: b' => (x =? y) && list_eqb a' b'
  | _, _ => false
  end.

Fixpoint prefixb (p s : list N) : bool :=
  match p, s with
  | [], _ => true
  | a :: p', b :: s' => (a =? b) && prefixb p' s'
  | _ :: _, [] => false
  end.

(* ---------------------------------------------------------------- std::path (Unix) *)
Inductive component := Root | CurDir | ParentDir | Normal (name : list N).

(* split on '/': "a//b" -> ["a"; ""; "b"], "" -> [""] *)
Fixpoint split_sep (s : list N) : list (list N) :=
  match s with
  | [] => [[]]
  | b :: r =>
      if b =? SLASH then [] :: split_sep r
      else match split_sep r with
           | h :: t => (b :: h) :: t
           | [] => [[b]]
           end
  end.

(* parse_single_component (no verbatim prefix on Unix) *)
Definition single_component (c : list N) : option component :=
  if list_eqb c [] then None
  else if list_eqb c [DOT] then None
  else if list_eqb c [DOT; DOT] then Some ParentDir
  else Some (Normal c).

Fixpoint opt_filter (l : list (list N)) : list component :=
  match l with
  | [] => []
  | c :: r => match single_component c with
              | Some k => k :: opt_filter r
              | None => opt_filter r
              end
  end.

Definition body (s : list N) : list component := opt_filter (split_sep s).

Definition components (p : list N) : list component :=
  match p with
  | [] => body []
  | b :: r =>
      if b =? SLASH then Root :: body r                               (* has_physical_root *)
      else if (b =? DOT) && (match r with [] => true | b2 :: _ => b2 =? SLASH end)
      then CurDir :: body r                                           (* include_cur_dir *)
      else body p
  end.

(* rsplitn(2, '.') : split at the last dot *)
Fixpoint rsplit_dot (s : list N) : option (list N * list N) :=
  match s with
  | [] => None
  | b :: r =>
      match rsplit_dot r with
      | Some (bef, aft) => Some (b :: bef, aft)
      | None => if b =? DOT then Some ([], r) else None
      end
  end.

(* rsplit_file_at_dot + `before.and(after)` *)
Definition name_extension (name : list N) : option (list N) :=
  if list_eqb name [DOT; DOT] then None
  else match rsplit_dot name with
       | None => None
       | Some ([], _) => None
       | Some (_ :: _, aft) => Some aft
       end.

(* Path::file_name = components().next_back() if Normal *)
Definition file_name (p : list N) : option (list N) :=
  match rev (components p) with
  | Normal n :: _ => Some n
  | _ => None
  end.

Definition extension (p : list N) : option (list N) :=
  match file_name p with
  | Some n => name_extension n
  | None => None
  end.

(* PathBuf::push on Unix *)
Definition push (dir p : list N) : list N :=
  if (match p with b :: _ => b =? SLASH | [] => false end) then p   (* absolute path replaces *)
  else match rev dir with
       | [] => p
       | l :: _ => if l =? SLASH then dir ++ p else dir ++ SLASH :: p
       end.

(* ---------------------------------------------------------------- the path policy *)
Definition DATA : list N := [100; 97; 116; 97].                          (* "data" *)
Definition ONNX_DATA : list N := [111; 110; 110; 120; 95; 100; 97; 116; 97]. (* "onnx_data" *)

Definition good_ext (e : list N) : bool := prefixb DATA e || prefixb ONNX_DATA e.

(* is_allowed_external_data_path *)
Definition allowed (p : list N) : bool :=
  match components p with
  | Normal _ :: rest =>
      match rest with
      | _ :: _ => false
      | [] => match extension p with
              | Some e => good_ext e
              | None => false
              end
      end
  | _ => false
  end.

(* ---------------------------------------------------------------- loaders *)
Definition isize_max : N := 9223372036854775807.
Definition sat_add64 (a b : N) : N := N.min (a + b) u64_max.

Inductive outcome :=
| OOk (data : list N)          (* tensor bytes obtained *)
| OShapeMismatch (n : N)       (* loader returned n bytes, declared dims differ *)
| ODisallowed
| ONotFound
| OTooShort (required actual : N)
| OInvalidLength
| OIo
| OOther
| OPanic
| OAbort.

(* what the file system (or the in-memory map) holds under dir/<location> *)
Inductive fsres := FsFile (content : list N) | FsDir (len : N) | FsNotFound | FsErr.
Inductive loader := Mem | File | Mmap.

Definition lenN (l : list N) : N := N.of_nat (length l).

(* `&data[start..end]` : panics unless start <= end <= len *)
Definition slice (content : list N) (s e : N) : outcome :=
  if (s <=? e) && (e <=? lenN content)
  then OOk (firstn (N.to_nat (e - s)) (skipn (N.to_nat s) content))
  else OPanic.

(* usize addition: overflow panics with overflow checks, wraps without *)
Definition add_usize (dbg : bool) (a b : N) : option N :=
  if a + b <? two64 then Some (a + b) else if dbg then None else Some (wrap64 (a + b)).

(* MemLoader::load after the path and lookup steps *)
Definition mem_range (content : list N) (offset length : N) : outcome :=
  let end_offset := sat_add64 offset length in
  if lenN content <? end_offset then OTooShort end_offset (lenN content)
  else slice content offset end_offset.

(* MmapLoader::load after get_or_open_mmap *)
Definition mmap_range (dbg : bool) (content : list N) (offset length : N) : outcome :=
  let end_offset := sat_add64 offset length in
  if lenN content <? end_offset then OTooShort end_offset (lenN content)
  else match add_usize dbg offset length with
       | Some e => slice content offset e
       | None => OPanic
       end.

(* FileLoader::read's chunked read loop.  [avail] = bytes from the seek position to EOF;
   read_fill returns min(tmp_size, available) bytes.  T = TMP_SIZE (chunk size). *)
Inductive loop_res := Done (buf : list N) | OutOfFuel.
Fixpoint read_loop (fuel : nat) (T : N) (avail : list N) (remaining : N) (buf : list N) : loop_res :=
  match fuel with
  | O => OutOfFuel
  | S f =>
      let tmp_size := N.min remaining T in
      let chunk := firstn (N.to_nat tmp_size) avail in
      let n_read := lenN chunk in
      let remaining' := remaining - n_read in
      let buf' := buf ++ chunk in
      if (n_read <? T) || (remaining' =? 0) then Done buf'
      else read_loop f T (skipn (N.to_nat n_read) avail) remaining' buf'
  end.

Definition TMP_SIZE : N := 8192.

(* FileLoader::read after the file was opened (with the range check of the fix) *)
Definition file_range (T : N) (content : list N) (offset length : N) : outcome :=
  let end_offset := sat_add64 offset length in
  if lenN content <? end_offset then OTooShort end_offset (lenN content)
  else
    match read_loop (S (N.to_nat (length / T))) T (skipn (N.to_nat offset) content) length [] with
    | OutOfFuel => OOther
    | Done buf => if lenN buf =? length then OOk buf else OTooShort length (lenN buf)
    end.

Definition load (dbg : bool) (ld : loader) (p : list N) (fs : fsres) (offset length : N) : outcome :=
  match ld with
  | Mem =>
      if negb (allowed p) then ODisallowed
      else match fs with
           | FsFile c => mem_range c offset length
           | _ => ONotFound
           end
  | Mmap =>
      if negb (allowed p) then ODisallowed
      else match fs with
           | FsFile c => mmap_range dbg c offset length
           | FsNotFound => ONotFound
           | _ => OIo
           end
  | File =>
      if isize_max <? length then OInvalidLength
      else if negb (allowed p) then ODisallowed
      else match fs with
           | FsFile c => file_range TMP_SIZE c offset length
           | FsNotFound => ONotFound
           | FsDir dl => if dl <? sat_add64 offset length then OTooShort (sat_add64 offset length) dl else OIo
           | FsErr => OIo
           end
  end.

(* the tensor is declared with dims = [dims_len]; a loaded slice of another length is
   rejected by tensor construction *)
Definition with_dims (dims_len : N) (o : outcome) : outcome :=
  match o with
  | OOk d => if lenN d =? dims_len then OOk d else OShapeMismatch (lenN d)
  | _ => o
  end.

(* ---------------------------------------------------------------- specification side *)
(* a single plain file name: non-empty, no separator, not "." or ".." *)
Definition plain_name (n : list N) : Prop :=
  n <> [] /\ ~ In SLASH n /\ n <> [DOT] /\ n <> [DOT; DOT].

Definition plain_nameb (n : list N) : bool :=
  negb (list_eqb n []) && negb (existsb (N.eqb SLASH) n) && negb (list_eqb n [DOT]) && negb (list_eqb n [DOT; DOT]).

(* independent executable oracle used by prop_ok: the location lexically names a direct
   child of the directory: exactly one piece that is not "" or "." after splitting on '/',
   the path is relative, the piece is not "..", and its extension is recognised *)
Definition noise (c : list N) : bool := list_eqb c [] || list_eqb c [DOT].
Definition lex_child (p : list N) : bool :=
  if (match p with b :: _ => b =? SLASH | [] => false end) then false
  else match filter (fun c => negb (noise c)) (split_sep p) with
         | [n] => plain_nameb n &&
                  match name_extension n with Some e => good_ext e | None => false end
         | _ => false
         end.

(* canonical file content used by the harness: byte i = (37 i + 11) mod 251 *)
Definition content_byte (i : N) : N := (37 * i + 11) mod 251.
Fixpoint content_from (n : nat) (i : N) : list N :=
  match n with O => [] | S k => content_byte i :: content_from k (N.succ i) end.
Definition content (len : N) : list N := content_from (N.to_nat len) 0.

(* ---------------------------------------------------------------- correspondence case *)
Inductive fskind := KFile (len : N) | KDir (len : N) | KNotFound | KErr.
Definition fs_of (k : fskind) : fsres :=
  match k with KFile l => FsFile (content l) | KDir l => FsDir l | KNotFound => FsNotFound | KErr => FsErr end.

Record case := {
  c_dbg : bool;                       (* harness profile: debug (overflow checks) *)
  c_loader : loader;
  c_path : list N;                    (* location string, UTF-8 bytes *)
  c_fs : fskind;                      (* what dir/<location> (or the map key) holds *)
  c_offset : N; c_length : N; c_dims : N;
  c_comps : list component;           (* std::path::Path::new(location).components() *)
  c_ext : option (list N);            (* std Path::extension() *)
  c_impl : outcome                    (* Model::load / load_file / load_mmap observed *)
}.

Definition component_eqb (a b : component) : bool :=
  match a, b with
  | Root, Root | CurDir, CurDir | ParentDir, ParentDir => true
  | Normal x, Normal y => list_eqb x y
  | _, _ => false
  end.
Fixpoint comps_eqb (a b : list component) : bool :=
  match a, b with
  | [], [] => true
  | x :: a', y :: b' => component_eqb x y && comps_eqb a' b'
  | _, _ => false
  end.
Definition opt_eqb (a b : option (list N)) : bool :=
  match a, b with
  | None, None => true
  | Some x, Some y => list_eqb x y
  | _, _ => false
  end.
Definition outcome_eqb (a b : outcome) : bool :=
  match a, b with
  | OOk x, OOk y => list_eqb x y
  | OShapeMismatch x, OShapeMismatch y => x =? y
  | ODisallowed, ODisallowed | ONotFound, ONotFound | OInvalidLength, OInvalidLength
  | OIo, OIo | OOther, OOther | OPanic, OPanic | OAbort, OAbort => true
  | OTooShort r a, OTooShort r' a' => (r =? r') && (a =? a')
  | _, _ => false
  end.

Definition model_outcome (c : case) : outcome :=
  with_dims (c_dims c) (load (c_dbg c) (c_loader c) (c_path c) (fs_of (c_fs c)) (c_offset c) (c_length c)).

Definition agree (c : case) : bool :=
  comps_eqb (components (c_path c)) (c_comps c) &&
  opt_eqb (extension (c_path c)) (c_ext c) &&
  outcome_eqb (model_outcome c) (c_impl c).

(* the implementation's own outcome satisfies the property: data is obtained only for a
   location that lexically names a direct child with a recognised extension, the bytes are
   exactly file[offset, offset+length) and that range lies inside the file; everything else
   is an error (never a panic / abort) *)
Definition prop_ok (c : case) : bool :=
  match c_impl c with
  | OOk d =>
      if negb (lex_child (c_path c)) then false else
      match c_fs c with
      | KFile flen =>
          (* `if`, not `&&`: vm_compute is call-by-value and N.to_nat of a huge length must
             not be evaluated *)
          if c_offset c + c_length c <=? flen
          then list_eqb d (firstn (N.to_nat (c_length c)) (skipn (N.to_nat (c_offset c)) (content flen)))
          else false
      | _ => false
      end
  | OShapeMismatch _ => false
  | OPanic | OAbort | OOther => false
  | _ => true
  end.

Definition show (c : case) := (components (c_path c), extension (c_path c), allowed (c_path c), model_outcome c).
