(* PlannerModel.v -- model of src/graph/planner.rs: `Planner::create_plan`, `PlanBuilder::{visit,
   plan, sort_plan}`, `ResolvedValueSet`, as the code is after the `fix:` commit for finding F11
   (sort_plan never re-schedules an operator that was already emitted).

   PUBLIC, STABLE NAMES (used by the `exec` group):

     plan_error, outcome (Ok plan | Err e | OutOfFuel | Panic | Timeout | NotRun)
     init_resolved g ins ca        values available before planning (run inputs, and the graph's
                                   captures when `captures_available`)
     resolved_contains g res v     `ResolvedValueSet::contains`: in the set, or a constant node
     create_plan g ins outs am ca  `Planner::create_plan` (am = allow_missing_inputs,
                                   ca = captures_available)
     run_plan_for g ins outs       the plan `Graph::run` uses: create_plan g ins outs false false
     -- specification side --
     produced_by g o v             operator o lists v among its outputs
     plan_ops_exist, plan_valid, plan_complete, needed, plan_minimal, computable
     -- executable oracles --
     valid_fromb, completeb, nodupb, needed_set, plan_okb, computable_set, request_plannableb

   Definitions only; proofs are in Planner_*.v, statements in Props_C03.v. *)
From RV Require Import Prelude.
From Planner Require Import Graph.
Open Scope N_scope.

Inductive plan_error :=
| EDupOutput (v : id)        (* "Outputs are not unique. Output .. is duplicated." *)
| EBadOutput (index : N)     (* "Output i (..) is not a value node in the graph." *)
| EDupInput (v : id)
| EBadInput (index : N)
| ECycle (dep op : id)       (* "Encountered cycle visiting dependency d of operator o" *)
| EMissing (dep op : id)     (* "Missing input d for op o" *)
| ENoSource (v : id)         (* "Source node not found for output v" *)
| EOther.                    (* any other error of the implementation; never produced by the model *)

Inductive outcome :=
| Ok (plan : list id)
| Err (e : plan_error)
| OutOfFuel                  (* model only: recursion budget exhausted (proved unreachable) *)
| Panic | Timeout | NotRun.  (* implementation only *)

(* ---------------------------------------------------------------- ResolvedValueSet *)
Definition init_resolved (g : graph) (ins : list id) (ca : bool) : list id :=
  if ca then g_captures g ++ ins else ins.

Definition resolved_contains (g : graph) (res : list id) (v : id) : bool :=
  mem v res || is_constant g v.

(* ---------------------------------------------------------------- create_plan prologue *)
(* first_duplicate_by: the first element that occurs again later *)
Fixpoint first_duplicate (l : list id) : option id :=
  match l with
  | [] => None
  | x :: r => if mem x r then Some x else first_duplicate r
  end.

Fixpoint first_bad (g : graph) (l : list id) (i : N) : option N :=
  match l with
  | [] => None
  | x :: r => if is_value_or_const g x then first_bad g r (N.succ i) else Some i
  end.

(* ---------------------------------------------------------------- PlanBuilder::visit *)
Record state := mkst { st_resolved : list id; st_plan : list id (* reversed *) }.

Inductive vres := VOk (st : state) | VErr (e : plan_error) | VFuel.

(* the `for input in operator_dependencies(op_node)` loop of visit; [rec] is the recursive call *)
Fixpoint visit_deps (g : graph) (am : bool) (rec : id -> op_node -> state -> vres)
         (active : list id) (o : id) (ds : list id) (st : state) : vres :=
  match ds with
  | [] => VOk st
  | d :: ds' =>
      if resolved_contains g (st_resolved st) d then visit_deps g am rec active o ds' st
      else match get_source g d with
           | Some (so, sn) =>
               if mem so active then VErr (ECycle d o)
               else match rec so sn st with
                    | VOk st' => visit_deps g am rec active o ds' st'
                    | r => r
                    end
           | None => if am then visit_deps g am rec active o ds' st else VErr (EMissing d o)
           end
  end.

(* [active] = active_set before `active_set.insert(op_node_id)` *)
Fixpoint visit (g : graph) (am : bool) (fuel : nat) (active : list id) (o : id) (n : op_node)
         (st : state) : vres :=
  match fuel with
  | O => VFuel
  | S f =>
      match visit_deps g am (visit g am f (o :: active)) (o :: active) o (deps g n) st with
      | VOk st' => VOk (mkst (op_outs n ++ st_resolved st') (o :: st_plan st'))
      | r => r
      end
  end.

(* the `for output_id in outputs` loop of PlanBuilder::plan *)
Fixpoint plan_outputs (g : graph) (am : bool) (fuel : nat) (outs : list id) (st : state) : vres :=
  match outs with
  | [] => VOk st
  | v :: r =>
      if resolved_contains g (st_resolved st) v then plan_outputs g am fuel r st
      else match get_source g v with
           | Some (so, sn) =>
               match visit g am fuel [] so sn st with
               | VOk st' => plan_outputs g am fuel r st'
               | e => e
               end
           | None => if am then plan_outputs g am fuel r st else VErr (ENoSource v)
           end
  end.

(* ---------------------------------------------------------------- PlanBuilder::sort_plan *)
Definition ready (g : graph) (res : list id) (o : id) : bool :=
  match get_op g o with
  | Some n => forallb (resolved_contains g res) (deps g n)
  | None => false
  end.

Definition outs_of (g : graph) (o : id) : list id :=
  match get_op g o with Some n => op_outs n | None => [] end.

Definition in_place (g : graph) (o : id) : bool :=
  match get_op g o with Some n => op_in_place n | None => false end.

(* dependent_ops[v]: one entry per occurrence of v among the dependencies, in plan order *)
Definition dependents (g : graph) (dfs : list id) (v : id) : list id :=
  flat_map (fun o => match get_op g o with
                     | Some n => map (fun _ => o) (filter (N.eqb v) (deps g n))
                     | None => []
                     end) dfs.

Fixpoint find_pos (f : id -> bool) (l : list id) : option nat :=
  match l with
  | [] => None
  | x :: r => if f x then Some O else option_map S (find_pos f r)
  end.

(* frontier.iter().position(|op| op.in_place_inputs().is_empty()).unwrap_or(0) *)
Definition pick_pos (g : graph) (fr : list id) : nat :=
  match find_pos (fun o => negb (in_place g o)) fr with Some p => p | None => O end.

Fixpoint remove_nth {A} (n : nat) (l : list A) : list A :=
  match l, n with
  | [], _ => []
  | _ :: r, O => r
  | x :: r, S k => x :: remove_nth k r
  end.

Definition push_candidates (g : graph) (res emitted : list id) (fr cands : list id) : list id :=
  fold_left (fun fr c =>
               if mem c emitted || mem c fr then fr
               else if ready g res c then fr ++ [c] else fr) cands fr.

Fixpoint sort_loop (g : graph) (dfs : list id) (fuel : nat) (fr res emitted : list id) : outcome :=
  match fuel with
  | O => OutOfFuel
  | S f =>
      match fr with
      | [] => Ok (rev emitted)
      | _ =>
          let pos := pick_pos g fr in
          let o := nth pos fr 0 in
          let fr1 := remove_nth pos fr in
          let res' := outs_of g o ++ res in
          let em' := o :: emitted in
          let fr2 := fold_left (fun fr v => push_candidates g res' em' fr (dependents g dfs v))
                               (outs_of g o) fr1 in
          sort_loop g dfs f fr2 res' em'
      end
  end.

Definition sort_plan (g : graph) (r0 : list id) (dfs : list id) : outcome :=
  sort_loop g dfs (S (length dfs)) (filter (ready g r0) dfs) r0 [].

(* ---------------------------------------------------------------- Planner::create_plan *)
Definition create_plan (g : graph) (ins outs : list id) (am ca : bool) : outcome :=
  match first_duplicate outs with
  | Some v => Err (EDupOutput v)
  | None =>
  match first_bad g outs 0 with
  | Some i => Err (EBadOutput i)
  | None =>
  match first_duplicate ins with
  | Some v => Err (EDupInput v)
  | None =>
  match first_bad g ins 0 with
  | Some i => Err (EBadInput i)
  | None =>
      let r0 := init_resolved g ins ca in
      match plan_outputs g am (S (num_ops g)) outs (mkst r0 []) with
      | VErr e => Err e
      | VFuel => OutOfFuel
      | VOk st =>
          let dfs := rev (st_plan st) in
          if am then Ok dfs
          else match dfs with
               | [] => Ok []
               | _ => sort_plan g r0 dfs
               end
      end
  end end end end.

Definition run_plan_for (g : graph) (ins outs : list id) : outcome :=
  create_plan g ins outs false false.

(* ================================================================ specification *)
Definition produced_by (g : graph) (o v : id) : Prop :=
  exists n, get_op g o = Some n /\ In v (op_outs n).

Definition no_source (g : graph) (v : id) : bool :=
  match get_source g v with None => true | Some _ => false end.

Definition plan_ops_exist (g : graph) (plan : list id) : Prop :=
  forall o, In o plan -> exists n, get_op g o = Some n.

(* a dependency is available to an entry of the plan: provided up front (run input, available
   capture), a constant, produced by an EARLIER entry -- or, only when missing inputs are
   allowed, a value without a producing operator that the caller will supply later *)
Definition dep_ok (g : graph) (am : bool) (r0 earlier : list id) (d : id) : Prop :=
  In d r0 \/ is_constant g d = true \/ (exists e, In e earlier /\ produced_by g e d) \/
  (am = true /\ get_source g d = None).

Definition plan_valid (g : graph) (am : bool) (r0 plan : list id) : Prop :=
  forall pre o post n, plan = pre ++ o :: post -> get_op g o = Some n ->
    forall d, In d (deps g n) -> dep_ok g am r0 pre d.

Definition plan_complete (g : graph) (am : bool) (r0 outs plan : list id) : Prop :=
  forall v, In v outs -> dep_ok g am r0 plan v.

(* o is needed: it is the source of a requested output, or of a dependency of a needed
   operator, that is not available up front *)
Inductive needed (g : graph) (r0 outs : list id) : id -> Prop :=
| needed_out : forall v o n, In v outs -> resolved_contains g r0 v = false ->
    get_source g v = Some (o, n) -> needed g r0 outs o
| needed_dep : forall p pn d o n, needed g r0 outs p -> get_op g p = Some pn -> In d (deps g pn) ->
    resolved_contains g r0 d = false -> get_source g d = Some (o, n) -> needed g r0 outs o.

Definition plan_minimal (g : graph) (r0 outs plan : list id) : Prop :=
  forall o, In o plan -> needed g r0 outs o.

(* v can be computed from r0: available up front, or its source operator's dependencies can
   all be computed (least fixed point: excludes cycles and missing inputs) *)
Inductive computable (g : graph) (am : bool) (r0 : list id) : id -> Prop :=
| comp_avail : forall v, resolved_contains g r0 v = true -> computable g am r0 v
| comp_missing : forall v, am = true -> get_source g v = None -> computable g am r0 v
| comp_op : forall v o n, get_source g v = Some (o, n) ->
    (forall d, In d (deps g n) -> computable g am r0 d) -> computable g am r0 v.

(* ================================================================ executable oracles *)
Fixpoint nodupb (l : list id) : bool :=
  match l with [] => true | x :: r => negb (mem x r) && nodupb r end.

Definition dep_okb (g : graph) (am : bool) (res : list id) (d : id) : bool :=
  resolved_contains g res d || (am && no_source g d).

(* ops exist + every dependency available when the entry runs; [res] = r0 + earlier outputs *)
Fixpoint valid_fromb (g : graph) (am : bool) (res : list id) (plan : list id) : bool :=
  match plan with
  | [] => true
  | o :: r =>
      match get_op g o with
      | Some n => forallb (dep_okb g am res) (deps g n) && valid_fromb g am (op_outs n ++ res) r
      | None => false
      end
  end.

Definition plan_outs (g : graph) (plan : list id) : list id := flat_map (outs_of g) plan.

Definition completeb (g : graph) (am : bool) (r0 outs plan : list id) : bool :=
  forallb (dep_okb g am (plan_outs g plan ++ r0)) outs.

(* the needed operators: least fixed point, computed in rounds over the operator ids *)
Definition sourced (g : graph) (v o : id) : bool :=
  match get_source g v with Some (o', _) => o' =? o | None => false end.

Definition wants (g : graph) (r0 : list id) (o : id) (vs : list id) : bool :=
  existsb (fun v => negb (resolved_contains g r0 v) && sourced g v o) vs.

Definition wanted_byb (g : graph) (r0 outs acc : list id) (o : id) : bool :=
  wants g r0 o outs ||
  existsb (fun p => match get_op g p with Some pn => wants g r0 o (deps g pn) | None => false end) acc.

Definition needed_round (g : graph) (r0 outs acc : list id) : list id :=
  acc ++ filter (fun o => negb (mem o acc) && wanted_byb g r0 outs acc o) (nodup N.eq_dec (op_ids g)).

Fixpoint iter {A} (n : nat) (f : A -> A) (x : A) : A :=
  match n with O => x | S k => iter k f (f x) end.

(* iterate an extending round function, stopping early once a round adds nothing *)
Fixpoint iter_fix (n : nat) (f : list id -> list id) (x : list id) : list id :=
  match n with
  | O => x
  | S k => let y := f x in if (length y =? length x)%nat then x else iter_fix k f y
  end.

Definition needed_set (g : graph) (r0 outs : list id) : list id :=
  iter_fix (S (num_ops g)) (needed_round g r0 outs) [].

Definition minimalb (g : graph) (r0 outs plan : list id) : bool :=
  let ns := needed_set g r0 outs in forallb (fun o => mem o ns) plan.

Definition plan_okb (g : graph) (am : bool) (r0 outs plan : list id) : bool :=
  nodupb plan && valid_fromb g am r0 plan && completeb g am r0 outs plan && minimalb g r0 outs plan.

(* forward closure: operators whose dependencies are all computable "fire", in rounds; the
   computable values are r0 plus the outputs a fired operator is the source of *)
Definition fired_outs (g : graph) (o : id) : list id :=
  match get_op g o with Some n => filter (fun v => sourced g v o) (op_outs n) | None => [] end.

Definition res_of (g : graph) (r0 fired : list id) : list id := flat_map (fired_outs g) fired ++ r0.

Definition can_fire (g : graph) (am : bool) (r0 fired : list id) (o : id) : bool :=
  match get_op g o with
  | Some n => forallb (dep_okb g am (res_of g r0 fired)) (deps g n)
  | None => false
  end.

Definition comp_round (g : graph) (am : bool) (r0 fired : list id) : list id :=
  fired ++ filter (fun o => negb (mem o fired) && can_fire g am r0 fired o) (nodup N.eq_dec (op_ids g)).

Definition computable_set (g : graph) (am : bool) (r0 : list id) : list id :=
  res_of g r0 (iter_fix (S (num_ops g)) (comp_round g am r0) []).

Definition request_plannableb (g : graph) (ins outs : list id) (am ca : bool) : bool :=
  nodupb outs && forallb (is_value_or_const g) outs &&
  nodupb ins && forallb (is_value_or_const g) ins &&
  forallb (dep_okb g am (computable_set g am (init_resolved g ins ca))) outs.

(* ================================================================ correspondence case (C03) *)
Record request := mkreq {
  r_ins : list id; r_outs : list id; r_am : bool; r_ca : bool;
  r_impl : outcome            (* what Graph::execution_plan returned *)
}.
Record case := { c_graph : graph; c_reqs : list request }.

(* compact encoding used by the harness for the small-scope sweeps: ALL requests over the value
   ids 0..nv-1 (every input subset x every non-empty output subset, allow_missing off then on,
   in the harness's enumeration order), the implementation's outcomes given as a table of
   distinct outcomes and one base-256 digit per request (least significant digit first) *)
Definition subset_of_mask (nv : nat) (m : N) : list id :=
  filter (fun i => N.testbit m i) (map N.of_nat (seq 0 nv)).
Definition masks (nv : nat) : list N := map N.of_nat (seq 0 (Nat.pow 2 nv)).
Definition all_request_keys (nv : nat) : list (list id * list id * bool) :=
  flat_map (fun mi =>
    flat_map (fun mo => if mo =? 0 then []
                        else [(subset_of_mask nv mi, subset_of_mask nv mo, false);
                              (subset_of_mask nv mi, subset_of_mask nv mo, true)])
             (masks nv)) (masks nv).
Fixpoint decode_reqs (keys : list (list id * list id * bool)) (table : list outcome) (codes : N)
  : list request :=
  match keys with
  | [] => []
  | (ins, outs, am) :: r =>
      mkreq ins outs am false (nth (N.to_nat (N.land codes 255)) table Panic)
      :: decode_reqs r table (N.shiftr codes 8)
  end.
Definition small_reqs (nv : nat) (table : list outcome) (codes : N) : list request :=
  decode_reqs (all_request_keys nv) table codes.

Definition list_eqb (a b : list id) : bool :=
  (length a =? length b)%nat && forallb (fun p => fst p =? snd p) (combine a b).

Definition err_eqb (a b : plan_error) : bool :=
  match a, b with
  | EDupOutput x, EDupOutput y | EDupInput x, EDupInput y | ENoSource x, ENoSource y
  | EBadOutput x, EBadOutput y | EBadInput x, EBadInput y => x =? y
  | ECycle d o, ECycle d' o' | EMissing d o, EMissing d' o' => (d =? d') && (o =? o')
  | _, _ => false
  end.

Definition outcome_eqb (a b : outcome) : bool :=
  match a, b with
  | Ok p, Ok q => list_eqb p q
  | Err e, Err e' => err_eqb e e'
  | _, NotRun => true
  | _, _ => false
  end.

Definition model_of (g : graph) (r : request) : outcome :=
  create_plan g (r_ins r) (r_outs r) (r_am r) (r_ca r).

Definition agree (c : case) : bool :=
  forallb (fun r => outcome_eqb (model_of (c_graph c) r) (r_impl r)) (c_reqs c).

(* the IMPLEMENTATION's answer satisfies the property: an Ok plan is duplicate-free, valid,
   complete and minimal for the request; an error is only reported for a request that cannot
   be planned; no panic, no hang *)
Definition req_ok (g : graph) (r : request) : bool :=
  match r_impl r with
  | Ok plan => plan_okb g (r_am r) (init_resolved g (r_ins r) (r_ca r)) (r_outs r) plan
  | Err _ => negb (request_plannableb g (r_ins r) (r_outs r) (r_am r) (r_ca r))
  | NotRun => true
  | _ => false
  end.

Definition prop_ok (c : case) : bool := forallb (req_ok (c_graph c)) (c_reqs c).

Definition show (c : case) :=
  map (fun r => (r_ins r, r_outs r, r_am r, r_ca r, model_of (c_graph c) r,
                 request_plannableb (c_graph c) (r_ins r) (r_outs r) (r_am r) (r_ca r),
                 req_ok (c_graph c) r)) (c_reqs c).
