(* Exact characterisation of planning errors: create_plan fails iff the request has duplicate /
   non-value ids or a requested output is not computable (missing source or dependency cycle). *)
From RV Require Import Prelude.
From Planner Require Import Graph Graph_proofs PlannerModel Planner_dfs Planner_sort Planner_main.
Open Scope N_scope.

(* ---------------------------------------------------------------- prologue checks *)
Lemma first_duplicate_none l : first_duplicate l = None <-> NoDup l.
Proof.
  induction l as [|x r IH]; cbn [first_duplicate].
  - split; [constructor|reflexivity].
  - destruct (mem x r) eqn:E.
    + split; [discriminate|]. intros H. inversion H as [|? ? Hn _]; subst. apply mem_In in E. contradiction.
    + rewrite IH. split.
      * intros H. constructor; [apply mem_false; exact E|exact H].
      * intros H. inversion H; assumption.
Qed.

Lemma first_bad_none g l i : first_bad g l i = None <-> forallb (is_value_or_const g) l = true.
Proof.
  revert i. induction l as [|x r IH]; intros i; cbn [first_bad forallb].
  - tauto.
  - destruct (is_value_or_const g x); cbn [andb]; [apply IH|]. split; discriminate.
Qed.

Section Errors.
  Variable g : graph.
  Variable am : bool.
  Variables r0 outs : list id.
  Hypothesis Hwf : wf_graph g.

  (* computable within derivation height h (boolean) *)
  Fixpoint comp_leb (h : nat) (v : id) : bool :=
    resolved_contains g r0 v || (am && no_source g v) ||
    match h with
    | O => false
    | S k => match get_source g v with
             | Some (_, n) => forallb (comp_leb k) (deps g n)
             | None => false
             end
    end.

  Definition D (n : op_node) (h : nat) : bool := forallb (comp_leb h) (deps g n).

  Lemma comp_leb_mono : forall h v, comp_leb h v = true -> comp_leb (S h) v = true.
  Proof.
    induction h as [|k IH]; intros v H.
    - cbn [comp_leb] in *. rewrite orb_false_r in H. rewrite H. reflexivity.
    - cbn [comp_leb] in H. change (comp_leb (S (S k)) v) with
        (resolved_contains g r0 v || (am && no_source g v) ||
         match get_source g v with Some (_, n) => forallb (comp_leb (S k)) (deps g n) | None => false end).
      apply orb_true_iff in H. destruct H as [H|H]; [rewrite H; reflexivity|].
      destruct (get_source g v) as [[o n]|]; [|discriminate].
      apply orb_true_iff. right. apply forallb_forall. intros d Hd. apply IH.
      revert d Hd. apply forallb_forall. exact H.
  Qed.

  Lemma comp_leb_mono_le h h' v : (h <= h')%nat -> comp_leb h v = true -> comp_leb h' v = true.
  Proof.
    intros Hle. induction Hle as [|m Hle IH]; intros H0; [exact H0|apply comp_leb_mono; apply IH; exact H0].
  Qed.

  Lemma D_mono_le n h h' : (h <= h')%nat -> D n h = true -> D n h' = true.
  Proof.
    intros Hle H. unfold D in *. apply forallb_forall. intros d Hd.
    eapply comp_leb_mono_le; [exact Hle|]. revert d Hd. apply forallb_forall. exact H.
  Qed.

  Lemma comp_leb_computable : forall h v, comp_leb h v = true -> computable g am r0 v.
  Proof.
    induction h as [|k IH]; intros v H; cbn [comp_leb] in H.
    - rewrite orb_false_r in H. apply orb_true_iff in H. destruct H as [H|H].
      + apply comp_avail. exact H.
      + apply andb_true_iff in H. destruct H as [-> H]. apply comp_missing; [reflexivity|].
        unfold no_source in H. destruct (get_source g v); [discriminate|reflexivity].
    - apply orb_true_iff in H. destruct H as [H|H].
      + apply orb_true_iff in H. destruct H as [H|H].
        * apply comp_avail. exact H.
        * apply andb_true_iff in H. destruct H as [-> H]. apply comp_missing; [reflexivity|].
          unfold no_source in H. destruct (get_source g v); [discriminate|reflexivity].
      + destruct (get_source g v) as [[o n]|] eqn:Es; [|discriminate].
        eapply comp_op; [exact Es|]. intros d Hd. apply IH. revert d Hd. apply forallb_forall. exact H.
  Qed.

  Lemma forall_ex_bound (l : list id) :
    (forall d, In d l -> exists h, comp_leb h d = true) ->
    exists h, forall d, In d l -> comp_leb h d = true.
  Proof.
    induction l as [|x r IH]; intros H.
    - exists O. intros d [].
    - destruct (H x (or_introl eq_refl)) as [hx Hx].
      destruct IH as [hr Hr]; [intros d Hd; apply H; right; exact Hd|].
      exists (Nat.max hx hr). intros d [<-|Hd].
      + eapply comp_leb_mono_le; [apply Nat.le_max_l|exact Hx].
      + eapply comp_leb_mono_le; [apply Nat.le_max_r|apply Hr; exact Hd].
  Qed.

  Lemma computable_comp_leb v : computable g am r0 v -> exists h, comp_leb h v = true.
  Proof.
    induction 1 as [v Hv|v Ham Hs|v o n Hs Hd IH].
    - exists O. cbn [comp_leb]. rewrite Hv. reflexivity.
    - exists O. cbn [comp_leb]. unfold no_source. rewrite Hs, Ham. rewrite orb_true_r. reflexivity.
    - destruct (forall_ex_bound (deps g n) IH) as [h Hh].
      exists (S h). cbn [comp_leb]. rewrite Hs. apply orb_true_iff. right.
      apply forallb_forall. exact Hh.
  Qed.

  (* least height at which all dependencies of an operator are computable *)
  Lemma least_D n : forall h, D n h = true ->
    exists m, (m <= h)%nat /\ D n m = true /\ forall k, (k < m)%nat -> D n k = false.
  Proof.
    induction h as [|h IH]; intros H.
    - exists O. split; [lia|]. split; [exact H|]. intros k Hk. lia.
    - destruct (D n h) eqn:E.
      + destruct (IH eq_refl) as [m [Hm [Hd Hl]]]. exists m. split; [lia|]. split; assumption.
      + exists (S h). split; [lia|]. split; [exact H|].
        intros k Hk. destruct (D n k) eqn:Ek; [|reflexivity].
        rewrite (D_mono_le n k h) in E; [discriminate|lia|exact Ek].
  Qed.

  (* an unavailable value that is computable within height h and has a source operator:
     the operator's dependencies are computable within a smaller height *)
  Lemma comp_leb_source h d so sn :
    resolved_contains g r0 d = false -> get_source g d = Some (so, sn) -> comp_leb h d = true ->
    exists k, h = S k /\ D sn k = true.
  Proof.
    intros Hr Hs H. destruct h as [|k]; cbn [comp_leb] in H; rewrite Hr in H;
      unfold no_source in H; rewrite Hs in H; rewrite andb_false_r in H; cbn [orb] in H.
    - discriminate.
    - exists k. split; [reflexivity|exact H].
  Qed.

  Lemma comp_leb_nosource h d :
    resolved_contains g r0 d = false -> get_source g d = None -> comp_leb h d = true -> am = true.
  Proof.
    intros Hr Hs H. destruct h as [|k]; cbn [comp_leb] in H; rewrite Hr in H; rewrite ?Hs in H;
      cbn [orb] in H; rewrite ?orb_false_r in H; apply andb_true_iff in H; destruct H as [H _]; exact H.
  Qed.

  (* the recursive call never fails on an operator whose dependencies are all computable and
     whose least such height is below that of every active operator *)
  Definition rec_noerr (rec : id -> op_node -> state -> vres) (A : list id) : Prop :=
    forall so sn st h e,
      inv g am r0 outs st -> get_op g so = Some sn -> ~ In so (st_plan st) -> needed g r0 outs so ->
      D sn h = true -> (forall k, (k < h)%nat -> D sn k = false) ->
      (forall a an, In a A -> get_op g a = Some an -> D an h = false) ->
      rec so sn st <> VErr e.

  Lemma visit_deps_noerr rec A o pn h :
    rec_spec g am r0 outs rec A -> rec_noerr rec A ->
    needed g r0 outs o -> get_op g o = Some pn ->
    (forall k, (k < h)%nat -> D pn k = false) ->
    (forall a an, In a A -> get_op g a = Some an -> a <> o -> D an h = false) ->
    In o A ->
    forall ds st e, incl ds (deps g pn) -> (forall d, In d ds -> comp_leb h d = true) ->
      inv g am r0 outs st -> visit_deps g am rec A o ds st <> VErr e.
  Proof.
    intros Hrec Hne Hneed Hop Hleast Hchain HoA.
    induction ds as [|d ds IH]; intros st e Hincl Hcomp Hi; cbn [visit_deps]; [discriminate|].
    assert (Hincl' : incl ds (deps g pn)) by (intros x Hx; apply Hincl; right; exact Hx).
    assert (Hcomp' : forall d0, In d0 ds -> comp_leb h d0 = true) by (intros x Hx; apply Hcomp; right; exact Hx).
    assert (Hd : In d (deps g pn)) by (apply Hincl; left; reflexivity).
    destruct (resolved_contains g (st_resolved st) d) eqn:Er; [apply IH; assumption|].
    pose proof (unresolved_r0 g am r0 outs st d Hi Er) as Hr0.
    destruct (get_source g d) as [[so sn]|] eqn:Es.
    - destruct (comp_leb_source h d so sn Hr0 Es (Hcomp d (or_introl eq_refl))) as [k [-> Hk]].
      destruct (least_D sn k Hk) as [m [Hm [Hdm Hlm]]].
      assert (Hchain_m : forall a an, In a A -> get_op g a = Some an -> D an m = false).
      { intros a an Ha Han. destruct (N.eq_dec a o) as [->|Hao].
        - rewrite Hop in Han. injection Han as <-. apply Hleast. lia.
        - pose proof (Hchain a an Ha Han Hao) as Hc. destruct (D an m) eqn:E; [|reflexivity].
          rewrite (D_mono_le an m (S k)) in Hc; [discriminate|lia|exact E]. }
      assert (HsoA : ~ In so A).
      { intros Hin. pose proof (Hchain_m so sn Hin (get_source_op g d so sn Es)). congruence. }
      rewrite (proj2 (mem_false so A) HsoA).
      assert (Hnso : needed g r0 outs so).
      { eapply needed_dep; [exact Hneed|exact Hop|exact Hd|exact Hr0|exact Es]. }
      pose proof (source_not_planned g am r0 outs Hwf st d so sn Hi Er Es) as Hnp.
      destruct (rec so sn st) as [st1|e1|] eqn:Erec.
      + destruct (Hrec so sn st st1 Hi (get_source_op g d so sn Es) Hnp HsoA Hnso Erec) as [Hi1 _].
        apply IH; assumption.
      + exfalso. eapply (Hne so sn st m e1 Hi (get_source_op g d so sn Es) Hnp Hnso Hdm Hlm Hchain_m). exact Erec.
      + discriminate.
    - pose proof (comp_leb_nosource h d Hr0 Es (Hcomp d (or_introl eq_refl))) as Ham.
      rewrite Ham at 1. apply IH; assumption.
  Qed.

  Lemma visit_noerr : forall fuel A, rec_noerr (visit g am fuel A) A.
  Proof.
    induction fuel as [|f IH]; intros A so sn st h e Hi Hop Hnp Hneed HD Hleast Hchain; cbn [visit]; [discriminate|].
    assert (Hnd : visit_deps g am (visit g am f (so :: A)) (so :: A) so (deps g sn) st <> VErr e).
    { apply (visit_deps_noerr (visit g am f (so :: A)) (so :: A) so sn h); try assumption.
      - apply visit_ok. exact Hwf.
      - apply IH.
      - intros a an [<-|Ha] Han Hne; [congruence|]. eapply Hchain; eassumption.
      - left. reflexivity.
      - apply incl_refl.
      - apply forallb_forall. exact HD. }
    destruct (visit_deps g am (visit g am f (so :: A)) (so :: A) so (deps g sn) st); congruence.
  Qed.

  Lemma plan_outputs_noerr fuel :
    forall os st e, incl os outs -> (forall v, In v os -> computable g am r0 v) ->
      inv g am r0 outs st -> plan_outputs g am fuel os st <> VErr e.
  Proof.
    induction os as [|v os IH]; intros st e Hincl Hcomp Hi; cbn [plan_outputs]; [discriminate|].
    assert (Hincl' : incl os outs) by (intros x Hx; apply Hincl; right; exact Hx).
    assert (Hcomp' : forall x, In x os -> computable g am r0 x) by (intros x Hx; apply Hcomp; right; exact Hx).
    destruct (resolved_contains g (st_resolved st) v) eqn:Er; [apply IH; assumption|].
    pose proof (unresolved_r0 g am r0 outs st v Hi Er) as Hr0.
    destruct (computable_comp_leb v (Hcomp v (or_introl eq_refl))) as [h Hh].
    destruct (get_source g v) as [[so sn]|] eqn:Es.
    - destruct (comp_leb_source h v so sn Hr0 Es Hh) as [k [-> Hk]].
      destruct (least_D sn k Hk) as [m [Hm [Hdm Hlm]]].
      assert (Hnso : needed g r0 outs so).
      { eapply needed_out; [apply Hincl; left; reflexivity|exact Hr0|exact Es]. }
      pose proof (source_not_planned g am r0 outs Hwf st v so sn Hi Er Es) as Hnp.
      destruct (visit g am fuel [] so sn st) as [st1|e1|] eqn:Ev.
      + destruct (visit_ok g am r0 outs Hwf fuel [] so sn st st1 Hi (get_source_op g v so sn Es) Hnp
                           (fun x => x) Hnso Ev) as [Hi1 _].
        apply IH; assumption.
      + exfalso. eapply (visit_noerr fuel [] so sn st m e1 Hi (get_source_op g v so sn Es) Hnp Hnso Hdm Hlm); [|exact Ev].
        intros a an [].
      + discriminate.
    - pose proof (comp_leb_nosource h v Hr0 Es Hh) as Ham.
      rewrite Ham at 1. apply IH; assumption.
  Qed.
End Errors.

(* ---------------------------------------------------------------- the request-level statement *)
Definition request_plannable (g : graph) (ins outs : list id) (am ca : bool) : Prop :=
  NoDup outs /\ forallb (is_value_or_const g) outs = true /\
  NoDup ins /\ forallb (is_value_or_const g) ins = true /\
  forall v, In v outs -> computable g am (init_resolved g ins ca) v.

Lemma plannable_ok g ins outs am ca :
  wf_graph g -> request_plannable g ins outs am ca -> exists plan, create_plan g ins outs am ca = Ok plan.
Proof.
  intros Hwf [H1 [H2 [H3 [H4 H5]]]].
  destruct (create_plan_total g ins outs am ca Hwf) as [H|[e He]]; [exact H|exfalso].
  unfold create_plan in He.
  rewrite (proj2 (first_duplicate_none outs) H1) in He.
  rewrite (proj2 (first_bad_none g outs 0) H2) in He.
  rewrite (proj2 (first_duplicate_none ins) H3) in He.
  rewrite (proj2 (first_bad_none g ins 0) H4) in He.
  set (r0 := init_resolved g ins ca) in *.
  destruct (plan_outputs g am (S (num_ops g)) outs (mkst r0 [])) as [st|e'|] eqn:Ep.
  - destruct am; [discriminate|].
    destruct (rev (st_plan st)) as [|a l] eqn:Edfs; [discriminate|]. rewrite <- Edfs in He.
    destruct (dfs_plan_ok g false r0 outs Hwf (S (num_ops g)) st Ep) as [Hnd [Hex [Hval _]]].
    destruct (sort_plan_ok g r0 (rev (st_plan st)) Hnd Hex Hval) as [plan [Es _]]. congruence.
  - eapply (plan_outputs_noerr g am r0 outs Hwf (S (num_ops g)) outs (mkst r0 []) e');
      [apply incl_refl|exact H5|apply inv_init|exact Ep].
  - discriminate.
Qed.

(* outputs of a valid plan are computable when every value has a single producer *)
Lemma valid_rev_computable g am r0 l :
  unique_producers g -> valid_rev g am r0 l ->
  forall e v, In e l -> produced_by g e v -> computable g am r0 v.
Proof.
  intros Hu. induction 1 as [|o n rest Ho Hd Hv IH]; intros e v He Hp; [destruct He|].
  assert (Hdep : forall d, dep_ok g am r0 rest d -> computable g am r0 d).
  { intros d [H|[H|[[x [Hx Hpx]]|[H1 H2]]]].
    - apply comp_avail. apply resolved_contains_iff. left. exact H.
    - apply comp_avail. apply resolved_contains_iff. right. exact H.
    - eapply IH; eassumption.
    - apply comp_missing; assumption. }
  destruct He as [<-|He]; [|eapply IH; eassumption].
  destruct Hp as [n' [Hn' Hv']]. rewrite Ho in Hn'. injection Hn' as <-.
  eapply comp_op; [apply (Hu v o n Ho Hv')|]. intros d Hdd. apply Hdep. apply Hd. exact Hdd.
Qed.

Lemma ok_plannable g ins outs am ca plan :
  wf_graph g -> unique_producers g -> create_plan g ins outs am ca = Ok plan ->
  request_plannable g ins outs am ca.
Proof.
  intros Hwf Hu E. pose proof (create_plan_spec g ins outs am ca Hwf) as H. rewrite E in H.
  destruct H as [[C1 [C2 [C3 C4]]] [Hnd [Hex [Hval [Hc Hm]]]]].
  split; [apply first_duplicate_none; exact C1|]. split; [eapply first_bad_none; exact C2|].
  split; [apply first_duplicate_none; exact C3|]. split; [eapply first_bad_none; exact C4|].
  set (r0 := init_resolved g ins ca) in *.
  pose proof (plan_valid_valid_rev g am r0 plan Hex Hval) as Hvr.
  intros v Hv. destruct (Hc v Hv) as [H|[H|[[x [Hx Hpx]]|[H1 H2]]]].
  - apply comp_avail. apply resolved_contains_iff. left. exact H.
  - apply comp_avail. apply resolved_contains_iff. right. exact H.
  - eapply valid_rev_computable; [exact Hu|exact Hvr|apply -> in_rev; exact Hx|exact Hpx].
  - apply comp_missing; assumption.
Qed.

Theorem plan_errors_exact g ins outs am ca :
  wf_graph g -> unique_producers g ->
  ((exists e, create_plan g ins outs am ca = Err e) <-> ~ request_plannable g ins outs am ca).
Proof.
  intros Hwf Hu. split.
  - intros [e He] Hp. destruct (plannable_ok g ins outs am ca Hwf Hp) as [plan Hplan]. congruence.
  - intros Hn. destruct (create_plan_total g ins outs am ca Hwf) as [[plan Hp]|H]; [|exact H].
    exfalso. apply Hn. eapply ok_plannable; eassumption.
Qed.
