(* The request path never panics, and answers Ok only for valid requests. *)
From RV Require Import Prelude.
From Planner Require Import Graph Graph_proofs PlannerModel Planner_dfs Planner_sort Planner_main
     Planner_errors Planner_oracle PlanCache PlanCache_proofs Validate.
Open Scope N_scope.

(* every operator input / output id refers to a value or constant node (what the model
   loaders construct) *)
Definition graph_closed (g : graph) : Prop :=
  forall o n d, get_op g o = Some n ->
    In d (somes (op_inputs n)) \/ In d (op_outs n) -> is_value_or_const g d = true.

Lemma ids_partition ins v : In v (map i_id ins) -> In v (view_ids ins) \/ In v (owned_ids ins).
Proof.
  unfold view_ids, owned_ids. intros H. apply in_map_iff in H. destruct H as [i [<- Hi]].
  destruct (i_owned i) eqn:E.
  - right. apply in_map. apply filter_In. split; assumption.
  - left. apply in_map. apply filter_In. split; [exact Hi|rewrite E; reflexivity].
Qed.

Lemma value_or_const_cases g d :
  is_value_or_const g d = true -> get_node g d = Some Value \/ get_node g d = Some Constant.
Proof. unfold is_value_or_const. destruct (get_node g d) as [[| |n]|]; try discriminate; auto. Qed.

Section Exec.
  Variable g : graph.
  Variables views r0 : list id.
  Hypothesis Hclosed : graph_closed g.

  (* running a valid plan: every operator input is found *)
  Lemma exec_ops_ok : forall post pre temp,
    (forall v, In v r0 -> In v views \/ In v temp) ->
    (forall e v, In e pre -> produced_by g e v -> In v temp) ->
    plan_ops_exist g post ->
    (forall p1 o p2 n, post = p1 ++ o :: p2 -> get_op g o = Some n ->
       forall d, In d (deps g n) -> dep_ok g false r0 (pre ++ p1) d) ->
    exists temp', exec_ops g views post temp = Some temp' /\ incl temp temp' /\
                  (forall e v, In e post -> produced_by g e v -> In v temp').
  Proof.
    induction post as [|o post IH]; intros pre temp Hr0 Hpre Hex Hv; cbn [exec_ops].
    - exists temp. split; [reflexivity|]. split; [apply incl_refl|intros e v []].
    - destruct (Hex o (or_introl eq_refl)) as [n Hn]. rewrite Hn.
      assert (Hin : forallb (fun d => match input_available g views temp d with Some true => true | _ => false end)
                            (somes (op_inputs n)) = true).
      { apply forallb_forall. intros d Hd. unfold input_available.
        destruct (value_or_const_cases g d (Hclosed o n d Hn (or_introl Hd))) as [Hk|Hk]; rewrite Hk; [|reflexivity].
        assert (Hdep : In d (deps g n)) by (unfold deps; apply in_or_app; left; exact Hd).
        specialize (Hv [] o post n eq_refl Hn d Hdep). rewrite app_nil_r in Hv.
        assert (Hm : mem d views || mem d temp = true).
        { destruct Hv as [H|[H|[[e [He Hp]]|[H _]]]].
          - destruct (Hr0 d H) as [H1|H1]; apply mem_In in H1; rewrite H1; [reflexivity|apply orb_true_r].
          - unfold is_constant in H. rewrite Hk in H. discriminate.
          - pose proof (Hpre e d He Hp) as H1. apply mem_In in H1. rewrite H1. apply orb_true_r.
          - discriminate. }
        rewrite Hm. reflexivity. }
      rewrite Hin.
      destruct (IH (pre ++ [o]) (op_outs n ++ temp)) as [temp' [He [Hi Hp]]].
      + intros v Hv0. destruct (Hr0 v Hv0); [left; assumption|right; apply in_or_app; right; assumption].
      + intros e v He Hp. apply in_app_or in He. destruct He as [He|[<-|[]]].
        * apply in_or_app. right. eapply Hpre; eassumption.
        * apply in_or_app. left. destruct Hp as [n' [Hn' Hv0]]. rewrite Hn in Hn'. injection Hn' as <-. exact Hv0.
      + intros x Hx. apply Hex. right. exact Hx.
      + intros p1 o' p2 n' E Hn' d Hd. rewrite <- app_assoc. cbn [app].
        apply (Hv (o :: p1) o' p2 n'); [rewrite E; reflexivity|exact Hn'|exact Hd].
      + exists temp'. split; [exact He|]. split.
        * intros x Hx. apply Hi. apply in_or_app. right. exact Hx.
        * intros e v [<-|Hin'] Hpv; [|eapply Hp; eassumption].
          apply Hi. apply in_or_app. left. destruct Hpv as [n' [Hn' Hv0]]. rewrite Hn in Hn'. injection Hn' as <-. exact Hv0.
  Qed.

  (* handing out distinct outputs that are all present *)
  Lemma take_outputs_ok : forall outs temp,
    NoDup outs ->
    (forall v, In v outs -> is_value_or_const g v = true) ->
    (forall v, In v outs -> is_constant g v = true \/ In v views \/ In v temp) ->
    take_outputs g views outs temp = true.
  Proof.
    induction outs as [|v outs IH]; intros temp Hnd Hk Hav; cbn [take_outputs]; [reflexivity|].
    inversion Hnd as [|? ? Hni Hnd']; subst.
    assert (Hk' : forall x, In x outs -> is_value_or_const g x = true) by (intros x Hx; apply Hk; right; exact Hx).
    assert (Hav' : forall x, In x outs -> is_constant g x = true \/ In x views \/ In x temp)
      by (intros x Hx; apply Hav; right; exact Hx).
    destruct (value_or_const_cases g v (Hk v (or_introl eq_refl))) as [Hv|Hv]; rewrite Hv; [|apply IH; assumption].
    destruct (mem v views) eqn:Emv; [apply IH; assumption|].
    destruct (Hav v (or_introl eq_refl)) as [H|[H|H]].
    - unfold is_constant in H. rewrite Hv in H. discriminate.
    - apply mem_In in H. congruence.
    - rewrite (proj2 (mem_In v temp) H). apply IH; [exact Hnd'|exact Hk'|].
      intros x Hx. destruct (Hav' x Hx) as [H1|[H1|H1]]; auto. right; right.
      apply filter_In. split; [exact H1|]. apply negb_true_iff. apply N.eqb_neq. intros ->. contradiction.
  Qed.
End Exec.

(* a good plan for the request executes without a lookup failure *)
Lemma exec_plan_ok g plan ins outs :
  graph_closed g -> NoDup outs -> forallb (is_value_or_const g) outs = true ->
  plan_ops_exist g plan -> plan_valid g false (map i_id ins) plan ->
  plan_complete g false (map i_id ins) outs plan ->
  exec_plan g plan ins outs = true.
Proof.
  intros Hcl Hnd Hk Hex Hv Hc. unfold exec_plan.
  destruct (exec_ops_ok g (view_ids ins) (map i_id ins) Hcl plan [] (owned_ids ins)) as [temp [He [Hi Hp]]].
  - intros v Hv0. apply ids_partition. exact Hv0.
  - intros e v [].
  - exact Hex.
  - intros p1 o p2 n E Hn d Hd. cbn [app]. eapply Hv; eassumption.
  - rewrite He. apply take_outputs_ok; [exact Hnd|apply forallb_forall; exact Hk|].
    intros v Hv0. destruct (Hc v Hv0) as [H|[H|[[e [He' Hpe]]|[H _]]]].
    + destruct (ids_partition ins v H) as [H1|H1]; [right; left; exact H1|right; right; apply Hi; exact H1].
    + left. exact H.
    + right; right. eapply Hp; eassumption.
    + discriminate.
Qed.

(* ---------------------------------------------------------------- Graph::run *)
Definition request_valid (g : graph) (meta : list (id * vmeta)) (ins : list input) (outs : list id) : Prop :=
  validate_inputs g meta ins = true /\
  NoDup (map i_id ins) /\ NoDup outs /\
  forallb (is_value_or_const g) (map i_id ins) = true /\ forallb (is_value_or_const g) outs = true /\
  exists plan, plan_ops_exist g plan /\ plan_valid g false (map i_id ins) plan /\
               plan_complete g false (map i_id ins) outs plan.

Lemma run_spec g meta st ins outs :
  wf_graph g -> graph_closed g -> cache_ok g false st ->
  cache_ok g false (snd (run g meta st ins outs)) /\
  match fst (run g meta st ins outs) with
  | ROk plan _ => request_valid g meta ins outs /\
                  plan_good g false (map i_id ins) outs plan
  | RErrInvalidInput => validate_inputs g meta ins = false
  | RErrPlan e => validate_inputs g meta ins = true /\ create_plan g (map i_id ins) outs false false = Err e
  | _ => False
  end.
Proof.
  intros Hwf Hcl Hok. unfold run.
  destruct (validate_inputs g meta ins) eqn:Ev; [|cbn [fst snd]; split; [exact Hok|reflexivity]].
  pose proof (step_spec g false st (map i_id ins) outs Hwf Hok) as [Hok' Hres].
  destruct (get_cached_plan g false st (map i_id ins) outs) as [res st'] eqn:E. cbn [fst snd] in Hok', Hres.
  destruct res as [p|e| | | |]; try contradiction; cbn [fst snd].
  - destruct Hres as [[C1 [C2 [C3 C4]]] Hg]. unfold init_resolved in Hg.
    pose proof Hg as [Hnd [Hex [Hv [Hc Hm]]]].
    apply first_duplicate_none in C1. apply first_duplicate_none in C3.
    apply (first_bad_none g outs 0) in C2. apply (first_bad_none g (map i_id ins) 0) in C4.
    rewrite (exec_plan_ok g p ins outs Hcl C1 C2 Hex Hv Hc). cbn [fst snd].
    split; [exact Hok'|]. split; [|exact Hg].
    repeat split; try assumption. exists p. repeat split; assumption.
  - split; [exact Hok'|]. split; [reflexivity|apply Hres].
Qed.

Theorem run_no_panic g meta st ins outs :
  wf_graph g -> graph_closed g -> cache_ok g false st ->
  (exists p x, fst (run g meta st ins outs) = ROk p x) \/
  (exists e, fst (run g meta st ins outs) = RErrPlan e) \/
  fst (run g meta st ins outs) = RErrInvalidInput.
Proof.
  intros Hwf Hcl Hok. pose proof (run_spec g meta st ins outs Hwf Hcl Hok) as [_ H].
  destruct (fst (run g meta st ins outs)); try contradiction.
  - left. eexists. eexists. reflexivity.
  - right; left. eexists. reflexivity.
  - right; right. reflexivity.
Qed.

Theorem run_invalid_errs g meta st ins outs :
  wf_graph g -> graph_closed g -> cache_ok g false st ->
  ~ request_valid g meta ins outs ->
  (exists e, fst (run g meta st ins outs) = RErrPlan e) \/
  fst (run g meta st ins outs) = RErrInvalidInput.
Proof.
  intros Hwf Hcl Hok Hinv. pose proof (run_spec g meta st ins outs Hwf Hcl Hok) as [_ H].
  destruct (fst (run g meta st ins outs)); try contradiction.
  - exfalso. apply Hinv. apply H.
  - left. eexists. reflexivity.
  - right. reflexivity.
Qed.

(* the state after any sequence of runs still satisfies the cache invariant *)
Theorem run_preserves_cache g meta st ins outs :
  wf_graph g -> graph_closed g -> cache_ok g false st -> cache_ok g false (snd (run g meta st ins outs)).
Proof. intros Hwf Hcl Hok. apply (run_spec g meta st ins outs Hwf Hcl Hok). Qed.

(* ---------------------------------------------------------------- Graph::partial_run *)
Lemma dedup_filter_spec keep : forall l acc,
  NoDup acc ->
  NoDup (dedup_filter keep l acc) /\
  forall x, In x (dedup_filter keep l acc) -> In x acc \/ In x l.
Proof.
  induction l as [|y l IH]; intros acc Hnd; cbn [dedup_filter].
  - split; [apply NoDup_rev; exact Hnd|]. intros x Hx. left. apply in_rev. exact Hx.
  - destruct (keep y && negb (mem y acc)) eqn:E.
    + apply andb_true_iff in E. destruct E as [_ E]. apply negb_true_iff in E. apply mem_false in E.
      destruct (IH (y :: acc)) as [H1 H2]; [constructor; assumption|].
      split; [exact H1|]. intros x Hx. destruct (H2 x Hx) as [[<-|H]|H]; auto.
      * right. left. reflexivity.
      * right. right. exact H.
    + destruct (IH acc Hnd) as [H1 H2]. split; [exact H1|].
      intros x Hx. destruct (H2 x Hx); auto. right. right. assumption.
Qed.

Lemma prune_loop_spec g r0 : forall plan resolved kept cand pin kept' cand' pin',
  (forall v, In v resolved <-> In v r0 \/ exists e, In e kept /\ produced_by g e v) ->
  valid_rev g false r0 kept ->
  (forall v, In v cand -> In v r0 \/ exists e, In e kept /\ produced_by g e v) ->
  prune_loop g plan resolved kept cand pin = (kept', cand', pin') ->
  valid_rev g false r0 (rev kept') /\
  (forall v, In v cand' -> In v r0 \/ exists e, In e kept' /\ produced_by g e v).
Proof.
  induction plan as [|o plan IH]; intros resolved kept cand pin kept' cand' pin' Hres Hv Hc E; cbn [prune_loop] in E.
  - injection E as <- <- <-. rewrite rev_involutive. split; [exact Hv|].
    intros v Hv0. destruct (Hc v Hv0) as [H|[e [He Hp]]]; [left; exact H|].
    right. exists e. split; [apply -> in_rev; exact He|exact Hp].
  - destruct (get_op g o) as [n|] eqn:En; [|eapply IH; eassumption].
    destruct (forallb (resolved_contains g resolved) (deps g n)) eqn:Ef; [|eapply IH; eassumption].
    eapply IH; [| | |exact E].
    + intros v. rewrite in_app_iff, (Hres v). split.
      * intros [H|[H|[e [He Hp]]]].
        -- right. exists o. split; [left; reflexivity|exists n; split; assumption].
        -- left. exact H.
        -- right. exists e. split; [right; exact He|exact Hp].
      * intros [H|[e [[<-|He] Hp]]].
        -- right; left. exact H.
        -- left. destruct Hp as [n' [Hn' Hv0]]. rewrite En in Hn'. injection Hn' as <-. exact Hv0.
        -- right; right. exists e. split; assumption.
    + apply vr_cons with n; [exact En| |exact Hv].
      intros d Hd. pose proof (proj1 (forallb_forall _ _) Ef d Hd) as Hr.
      apply resolved_contains_iff in Hr. destruct Hr as [Hr|Hr]; [|right; left; exact Hr].
      apply Hres in Hr. destruct Hr as [Hr|[e [He Hp]]]; [left; exact Hr|].
      right; right; left. exists e. split; assumption.
    + intros v Hv0. apply in_app_or in Hv0. destruct Hv0 as [Hv0|Hv0].
      * destruct (Hc v Hv0) as [H|[e [He Hp]]]; [left; exact H|right; exists e; split; [right; exact He|exact Hp]].
      * right. exists o. split; [left; reflexivity|exists n; split; assumption].
Qed.

Theorem partial_run_no_panic g meta ins outs :
  wf_graph g -> graph_closed g ->
  (exists p x, partial_run g meta ins outs = ROk p x) \/
  (exists e, partial_run g meta ins outs = RErrPlan e /\
             create_plan g (map i_id ins) outs true false = Err e) \/
  (partial_run g meta ins outs = RErrInvalidInput /\ validate_inputs g meta ins = false).
Proof.
  intros Hwf Hcl. unfold partial_run.
  destruct (validate_inputs g meta ins) eqn:Ev; [|right; right; split; reflexivity].
  pose proof (create_plan_spec g (map i_id ins) outs true false Hwf) as Hspec.
  destruct (create_plan g (map i_id ins) outs true false) as [plan|e| | | |] eqn:Ec; try contradiction.
  - left. destruct Hspec as [[_ [_ [_ C4]]] _]. apply (first_bad_none g (map i_id ins) 0) in C4.
    unfold prune_plan.
    destruct (prune_loop g plan (map i_id ins) [] (map i_id ins) []) as [[kept cand] pin] eqn:Ep.
    destruct (prune_loop_spec g (map i_id ins) plan (map i_id ins) [] (map i_id ins) [] kept cand pin) as [Hv Hc].
    + intros v. split; [intros H; left; exact H|]. intros [H|[e [[] _]]]. exact H.
    + constructor.
    + intros v H. left. exact H.
    + exact Ep.
    + set (new_outs := dedup_filter (fun v => mem v outs || mem v pin) cand []).
      destruct (dedup_filter_spec (fun v => mem v outs || mem v pin) cand [] (NoDup_nil _)) as [Hnd Hsub].
      fold new_outs in Hnd, Hsub.
      pose proof (valid_rev_plan_valid g false (map i_id ins) (rev kept) Hv) as Hpv. rewrite rev_involutive in Hpv.
      assert (Hex : plan_ops_exist g kept).
      { intros o Ho. eapply valid_rev_ops; [exact Hv|]. apply -> in_rev. exact Ho. }
      assert (Hcand : forall v, In v new_outs ->
                 In v (map i_id ins) \/ exists e, In e kept /\ produced_by g e v).
      { intros v Hv0. destruct (Hsub v Hv0) as [[]|H]. apply Hc. exact H. }
      rewrite (exec_plan_ok g kept ins new_outs Hcl Hnd).
      * eexists. eexists. reflexivity.
      * apply forallb_forall. intros v Hv0. destruct (Hcand v Hv0) as [H|[e [He [n [Hn Hvn]]]]].
        -- apply (proj1 (forallb_forall _ _) C4). exact H.
        -- apply (Hcl e n v Hn). right. exact Hvn.
      * exact Hex.
      * exact Hpv.
      * intros v Hv0. destruct (Hcand v Hv0) as [H|H]; [left; exact H|right; right; left; exact H].
  - right; left. exists e. split; reflexivity.
Qed.

(* ---------------------------------------------------------------- oracle and validation lemmas *)
Theorem request_valid_b_sound g meta ins outs ex :
  request_valid_b g meta ins outs ex = true -> request_valid g meta ins outs.
Proof.
  unfold request_valid_b. rewrite !andb_true_iff. intros [[[[[[H1 H2] H3] H4] H5] H6] H7].
  split; [exact H1|]. split; [apply nodupb_iff; exact H2|]. split; [apply nodupb_iff; exact H3|].
  split; [exact H4|]. split; [exact H5|]. exists ex.
  apply valid_fromb_plan_valid in H6. destruct H6 as [H6 H6']. apply completeb_iff in H7.
  repeat split; assumption.
Qed.

Lemma dims_ok_iff expected shape :
  dims_ok expected shape = true <->
  Forall2 (fun e s => e = None \/ e = Some s) expected shape.
Proof.
  revert shape. induction expected as [|e er IH]; intros [|s sr]; cbn [dims_ok].
  - split; [constructor|reflexivity].
  - split; [discriminate|intros H; inversion H].
  - split; [discriminate|intros H; inversion H].
  - rewrite andb_true_iff, IH. split.
    + intros [H1 H2]. constructor; [|exact H2]. destruct e as [k|]; [right|left; reflexivity].
      apply N.eqb_eq in H1. subst. reflexivity.
    + intros H. inversion H as [|? ? ? ? Hh Ht]; subst. split; [|exact Ht].
      destruct Hh as [-> | ->]; [reflexivity|apply N.eqb_refl].
Qed.

(* an input that contradicts declared metadata is rejected by validate_inputs *)
Theorem validate_rejects g meta ins i m :
  In i ins -> get_node g (i_id i) = Some Value -> assoc meta (i_id i) = Some m ->
  (exists sq dt, m_dtype m = Some (sq, dt) /\ (sq <> i_seq i \/ dt <> i_dtype i)) \/
  (i_seq i = false /\ exists dims, m_shape m = Some dims /\
     ~ Forall2 (fun e s => e = None \/ e = Some s) dims (i_shape i)) ->
  validate_inputs g meta ins = false.
Proof.
  intros Hin Hnode Hmeta Hbad. unfold validate_inputs.
  destruct (forallb (validate_input g meta) ins) eqn:E; [exfalso|reflexivity].
  pose proof (proj1 (forallb_forall _ _) E i Hin) as Hv. unfold validate_input in Hv.
  rewrite Hnode, Hmeta in Hv. apply andb_true_iff in Hv. destruct Hv as [Hd Hs].
  destruct Hbad as [[sq [dt [Hm Hne]]]|[Hseq [dims [Hm Hne]]]].
  - rewrite Hm in Hd. apply andb_true_iff in Hd. destruct Hd as [Hd1 Hd2].
    apply Bool.eqb_prop in Hd1. apply N.eqb_eq in Hd2. destruct Hne; contradiction.
  - rewrite Hseq, Hm in Hs. apply dims_ok_iff in Hs. contradiction.
Qed.

(* executable test for graph_closed *)
Definition graph_closedb (g : graph) : bool :=
  forallb (fun o => match get_op g o with
                    | Some n => forallb (is_value_or_const g) (somes (op_inputs n) ++ op_outs n)
                    | None => true
                    end) (map fst (g_nodes g)).

Lemma graph_closedb_sound g : graph_closedb g = true -> graph_closed g.
Proof.
  intros H o n d Ho Hd. unfold graph_closedb in H.
  assert (Hin : In o (map fst (g_nodes g))).
  { apply get_op_node in Ho. unfold get_node in Ho. apply assoc_In in Ho.
    apply in_map_iff. exists (o, Op n). split; [reflexivity|exact Ho]. }
  pose proof (proj1 (forallb_forall _ _) H o Hin) as Hn. cbv beta in Hn. rewrite Ho in Hn.
  apply (proj1 (forallb_forall _ _) Hn). apply in_or_app. exact Hd.
Qed.
