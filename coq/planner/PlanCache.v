(* PlanCache.v -- model of the plan cache of `Graph` (src/graph.rs: `cached_plan`,
   `Graph::get_cached_plan`; src/graph/planner.rs: `CachedPlan::{new,matches}`), as the code is
   after the `fix:` commit for finding F12 (matches rejects queries that repeat an id).

   The mutex is held for exactly one `get_cached_plan` call, so one call is one atomic step on the
   shared state [cache]; an interleaving of concurrent runs is a list of calls.

   PUBLIC NAMES: cached_plan/mkcp, cache, same_ids, matches, get_cached_plan, run_calls.
   (CachedPlan::new sorts the id lists; after the fix `matches` only tests membership and
   length, so the order is not observable and the model keeps the lists as given.)
   Definitions only; proofs in PlanCache_proofs.v, statements in Props_C22.v. *)
From RV Require Import Prelude.
From Planner Require Import Graph PlannerModel.
Open Scope N_scope.

Record cached_plan := mkcp { cp_ins : list id; cp_outs : list id; cp_plan : list id }.
Definition cache := option cached_plan.

(* ids.len() == plan_ids.len() && plan_ids.iter().all(|id| ids.contains(id)) *)
Definition same_ids (q c : list id) : bool :=
  (length q =? length c)%nat && forallb (fun x => mem x q) c.

Definition matches (c : cached_plan) (ins outs : list id) : bool :=
  same_ids ins (cp_ins c) && same_ids outs (cp_outs c).

(* the pre-fix version, kept for the refutation lemma (finding F12) *)
Definition same_ids_old (q c : list id) : bool :=
  (length q =? length c)%nat && forallb (fun x => mem x c) q.
Definition matches_old (c : cached_plan) (ins outs : list id) : bool :=
  same_ids_old ins (cp_ins c) && same_ids_old outs (cp_outs c).

(* Graph::get_cached_plan; sg = is_subgraph (= captures_available) *)
Definition get_cached_plan (g : graph) (sg : bool) (st : cache) (ins outs : list id)
  : outcome * cache :=
  let create :=
    match create_plan g ins outs false sg with
    | Ok p => (Ok p, Some (mkcp ins outs p))
    | r => (r, st)
    end in
  match st with
  | Some c => if matches c ins outs then (Ok (cp_plan c), st) else create
  | None => create
  end.

(* a schedule: the atomic steps in the order in which they acquire the lock *)
Fixpoint run_calls (g : graph) (sg : bool) (st : cache) (calls : list (list id * list id))
  : list outcome :=
  match calls with
  | [] => []
  | (ins, outs) :: r =>
      let '(res, st') := get_cached_plan g sg st ins outs in
      res :: run_calls g sg st' r
  end.

(* ================================================================ correspondence case (C22)
   a sequence of `Graph::run` calls made from ONE thread on one graph (cache transitions are
   observed through the order in which the operators were executed), plus the outcome of the
   same calls made concurrently *)
Record call := mkcall {
  k_ins : list id; k_outs : list id;
  k_seq : outcome;              (* sequential: executed operator sequence, or error *)
}.
Record case22 := {
  q_graph : graph;
  q_calls : list call;
  q_conc_ok : bool;             (* harness: every concurrent result equalled the result of the same call made alone *)
  q_fail : list (N * N * N)     (* harness: (thread, iteration, index into q_calls) of the first concurrent calls
                                   whose result (values, error or panic) differed from the alone-run reference *)
}.

Definition agree22 (c : case22) : bool :=
  let model := run_calls (q_graph c) false None (map (fun k => (k_ins k, k_outs k)) (q_calls c)) in
  (length model =? length (q_calls c))%nat &&
  forallb (fun p => outcome_eqb (fst p) (k_seq (snd p))) (combine model (q_calls c)).

(* property on the implementation's own answers: every plan that a call executed is a
   duplicate-free, valid, complete, minimal plan for THAT call's request, errors are justified,
   and the concurrent calls returned what the same calls return alone *)
Definition prop_ok22 (c : case22) : bool :=
  q_conc_ok c && (match q_fail c with [] => true | _ => false end) &&
  forallb (fun k => req_ok (q_graph c) (mkreq (k_ins k) (k_outs k) false false (k_seq k))) (q_calls c).

Definition show22 (c : case22) :=
  (run_calls (q_graph c) false None (map (fun k => (k_ins k, k_outs k)) (q_calls c)), q_conc_ok c,
   (* (thread, iteration, request) of the failing concurrent calls, with the request *)
   map (fun f => (f, nth (N.to_nat (snd f)) (map (fun k => (k_ins k, k_outs k)) (q_calls c)) ([], []))) (q_fail c)).
